//go:build ignore

// Offline search for prefixes with equal gobgp tableKey (FNV-1a 64 over the address octets and
// the prefix-length octet).  NOT part of any check tier: the pairs it found are listed in
// ../collisions.txt and embedded in the harness (zz_verif_c02t_test.go), which re-verifies each
// of them against the real tableKey on every run.
//
//   go run collide.go v4                 all colliding IPv4 prefix pairs (2^33 prefixes, partitioned)
//   go run collide.go pre <key> [log2n]  IPv6 /128 addresses under 2001:db8::/32 whose key is <key>
//                                        (meet in the middle: the FNV-1a step is invertible)
package main

import (
	"fmt"
	"math/bits"
	"os"
	"runtime"
	"slices"
	"strconv"
	"sync"
)

const (
	offset64 = uint64(14695981039346656037)
	prime64  = uint64(1099511628211)
)

func inv64(a uint64) uint64 { // inverse of an odd number mod 2^64 (Newton)
	x := a
	for i := 0; i < 6; i++ {
		x *= 2 - a*x
	}
	return x
}

func step(h uint64, b byte) uint64 { return (h ^ uint64(b)) * prime64 }

// self-test knobs (C02T_MAXLEN=20 C02T_KEYBITS=32 go run collide.go v4 must report duplicates:
// it validates the duplicate detector; the real search uses 32 / 64)
var maxLen, keyBits = envInt("C02T_MAXLEN", 32), envInt("C02T_KEYBITS", 64)

func envInt(name string, def int) int {
	if v, err := strconv.Atoi(os.Getenv(name)); err == nil {
		return v
	}
	return def
}

func key4(addr uint32, l int) uint64 {
	return key4full(addr, l) << (64 - keyBits)
}

func key4full(addr uint32, l int) uint64 {
	h := offset64
	h = step(h, byte(addr>>24))
	h = step(h, byte(addr>>16))
	h = step(h, byte(addr>>8))
	h = step(h, byte(addr))
	return step(h, byte(l))
}

// every masked IPv4 prefix, numbered 0 .. 2^33-2: length l, index i<2^l → addr = i << (32-l)
func forAll4(workers int, fn func(w int, addr uint32, l int, k uint64)) {
	var wg sync.WaitGroup
	for w := 0; w < workers; w++ {
		wg.Add(1)
		go func(w int) {
			defer wg.Done()
			for l := 0; l <= maxLen; l++ {
				n := uint64(1) << l
				lo, hi := n*uint64(w)/uint64(workers), n*uint64(w+1)/uint64(workers)
				for i := lo; i < hi; i++ {
					var addr uint32
					if l > 0 {
						addr = uint32(i << (32 - l))
					}
					fn(w, addr, l, key4(addr, l))
				}
			}
		}(w)
	}
	wg.Wait()
}

func v4() {
	workers := 12
	const passBits = 3
	const subBits = 8
	dups := map[uint64]bool{}
	for pass := uint64(0); pass < 1<<passBits; pass++ {
		buckets := make([][][]uint64, workers)
		for w := range buckets {
			buckets[w] = make([][]uint64, 1<<subBits)
		}
		forAll4(workers, func(w int, addr uint32, l int, k uint64) {
			if k>>(64-passBits) != pass {
				return
			}
			s := (k >> (64 - passBits - subBits)) & (1<<subBits - 1)
			buckets[w][s] = append(buckets[w][s], k)
		})
		var mu sync.Mutex
		var wg sync.WaitGroup
		sem := make(chan struct{}, workers)
		for s := 0; s < 1<<subBits; s++ {
			wg.Add(1)
			sem <- struct{}{}
			go func(s int) {
				defer wg.Done()
				defer func() { <-sem }()
				var all []uint64
				for w := 0; w < workers; w++ {
					all = append(all, buckets[w][s]...)
					buckets[w][s] = nil
				}
				slices.Sort(all)
				for i := 1; i < len(all); i++ {
					if all[i] == all[i-1] {
						mu.Lock()
						dups[all[i]] = true
						mu.Unlock()
					}
				}
			}(s)
		}
		wg.Wait()
		fmt.Fprintf(os.Stderr, "pass %d done, %d duplicate keys so far\n", pass, len(dups))
		runtime.GC()
	}
	var mu sync.Mutex
	forAll4(workers, func(w int, addr uint32, l int, k uint64) {
		if dups[k] {
			mu.Lock()
			fmt.Printf("v4 %d.%d.%d.%d/%d key %d\n", addr>>24, addr>>16&255, addr>>8&255, addr&255, l, k)
			mu.Unlock()
		}
	})
}

func pre(target uint64, log2n int) {
	pinv := inv64(prime64)
	unstep := func(h uint64, b byte) uint64 { return (h * pinv) ^ uint64(b) }
	// backward: undo the length octet 128, then b15..b12 taken from a counter of log2n bits
	base := unstep(target, 128)
	back := func(c uint32) uint64 {
		h := base
		h = unstep(h, byte(c))
		h = unstep(h, byte(c>>8))
		h = unstep(h, byte(c>>16))
		h = unstep(h, byte(c>>24))
		return h
	}
	n := uint64(1) << log2n
	const fbits = 35
	bitmap := make([]uint64, 1<<(fbits-6))
	arr := make([]uint64, n)
	for c := uint64(0); c < n; c++ {
		s := back(uint32(c))
		arr[c] = s
		f := s & (1<<fbits - 1)
		bitmap[f>>6] |= 1 << (f & 63)
	}
	fmt.Fprintln(os.Stderr, "backward table built; sorting")
	// parallel sort by top 4 bits
	{
		parts := make([][]uint64, 16)
		for _, s := range arr {
			parts[s>>60] = append(parts[s>>60], s)
		}
		var wg sync.WaitGroup
		for i := range parts {
			wg.Add(1)
			go func(i int) { defer wg.Done(); slices.Sort(parts[i]) }(i)
		}
		wg.Wait()
		arr = arr[:0]
		for _, p := range parts {
			arr = append(arr, p...)
		}
	}
	fmt.Fprintln(os.Stderr, "sorted; forward enumeration")
	// forward: 20 01 0d b8, then b4..b11 = big-endian 64-bit counter
	h0 := offset64
	for _, b := range []byte{0x20, 0x01, 0x0d, 0xb8} {
		h0 = step(h0, b)
	}
	workers := 14
	var wg sync.WaitGroup
	var mu sync.Mutex
	found := 0
	total := uint64(1) << (64 - log2n + 1) // expect about two preimages
	chunk := uint64(1) << 16
	var next uint64
	for w := 0; w < workers; w++ {
		wg.Add(1)
		go func() {
			defer wg.Done()
			for {
				mu.Lock()
				lo := next
				next += chunk
				mu.Unlock()
				if lo >= total {
					return
				}
				hi6 := lo >> 16 // the upper six octets are constant over the chunk
				h := h0
				for sh := 40; sh >= 0; sh -= 8 {
					h = step(h, byte(hi6>>sh))
				}
				for lo16 := uint64(0); lo16 < 1<<16; lo16++ {
					s := step(step(h, byte(lo16>>8)), byte(lo16))
					f := s & (1<<fbits - 1)
					if bitmap[f>>6]&(1<<(f&63)) == 0 {
						continue
					}
					if _, ok := slices.BinarySearch(arr, s); !ok {
						continue
					}
					// recover the backward counter
					for c := uint64(0); c < n; c++ {
						if back(uint32(c)) == s {
							ctr := lo | lo16
							mu.Lock()
							found++
							fmt.Printf("v6 2001:db8:%x:%x:%x:%x:%x:%x/128 key %d\n",
								(ctr>>48)&0xffff, (ctr>>32)&0xffff, (ctr>>16)&0xffff, ctr&0xffff, (c>>16)&0xffff, c&0xffff, target)
							mu.Unlock()
							break
						}
					}
				}
			}
		}()
	}
	wg.Wait()
	fmt.Fprintf(os.Stderr, "done: %d preimages (forward range 2^%d)\n", found, bits.Len64(total)-1)
}

func main() {
	if len(os.Args) >= 2 && os.Args[1] == "v4" {
		v4()
		return
	}
	if len(os.Args) >= 3 && os.Args[1] == "pre" {
		k, err := strconv.ParseUint(os.Args[2], 10, 64)
		if err != nil {
			panic(err)
		}
		l := 29
		if len(os.Args) >= 4 {
			l, _ = strconv.Atoi(os.Args[3])
		}
		pre(k, l)
		return
	}
	fmt.Println("usage: collide v4 | pre <key> [log2n]")
}
