#!/usr/bin/env python3
"""Print the markdown table of seeded changes (from seeded/*/meta.json) for DESIGN.md §10.4."""
import json, glob, os
ROOT = os.path.dirname(os.path.dirname(os.path.abspath(__file__)))
rows = []
for f in sorted(glob.glob(os.path.join(ROOT, "seeded", "*", "meta.json"))):
    m = json.load(open(f))
    w = m.get("what_was_run", {})
    def verdict(ck):
        if not ck:
            return "-"
        out = []
        for c, v in ck.items():
            if v.get("violation"):
                out.append("caught" + (" (no failing input)" if v.get("no_failing_input") else " `%s`" % v.get("failing_input_class")))
            else:
                out.append("MISSED")
        return "; ".join(out)
    first = None
    for e in w.get("earlier_check_results", []) or []:
        if e:
            first = verdict(e); break
    now = verdict(w.get("checks"))
    res = now if not first or first == now else "first run: %s → after strengthening: %s" % (first, now)
    ok = "yes" if m.get("confirmed_by_coordinator") else "NO"
    br = (m.get("breaks") or "").replace("\n", " ").replace("|", "/")
    rows.append("| %s | %s | %s | %s |" % (m["id"], br[:230] + ("…" if len(br) > 230 else ""), ok, res))
print("| seed | change (abridged) | confirmed | `./check <property> quick` |")
print("|---|---|---|---|")
print("\n".join(rows))
