#!/usr/bin/env python3
"""Regenerate MANIFEST.json from props/*.json (one file per claimed property) and
props/not_applicable.json. Run after adding or changing a property."""
import json, glob, os
ROOT = os.path.dirname(os.path.dirname(os.path.abspath(__file__)))
ALL = ["C%02d" % i for i in range(1, 21)]
checks, claimed = [], []
for f in sorted(glob.glob(os.path.join(ROOT, "props", "C*.json"))):
    c = json.load(open(f))
    m = c["manifest"]
    pid = c["id"]
    claimed.append(pid)
    checks.append({
        "property_id": pid,
        "quick_cmd": "./check %s quick" % pid,
        "thorough_cmd": "./check %s thorough" % pid,
        "evidence_file": "/verif/evidence/%s.json" % pid,
        "replay_cmd_template": "./check %s --replay {path}" % pid,
        "engine": "lean-model",
        "level_claimed": {"category": c.get("level", "proof"), "text": m["level_text"], "design_ref": "DESIGN.md §5 " + pid},
        "level_note": m["level_note"],
        "technique": m["technique"],
    })
na_file = os.path.join(ROOT, "props", "not_applicable.json")
na = json.load(open(na_file)) if os.path.exists(na_file) else {}
not_app = []
for pid in ALL:
    if pid not in claimed:
        not_app.append({"property_id": pid, "reason": na.get(pid, "check not built yet in this round (work in progress); not claimed")})
man = {
 "version": 1,
 "setup_cmd": "./check --setup",
 "hooks": {
  "guard": "verif",
  "enable": "cd /repo && GOFLAGS=-mod=mod GOPROXY=off go test -tags verif -overlay /verif/.work/overlay.json -run '^TestVerif' <pkg>   (harness files live under /verif/go/overlay and are mapped into /repo's packages at compile time by -overlay; they carry //go:build verif; nothing committed under /repo carries the tag)",
  "baseline_off_cmd": "cd /repo && GOFLAGS=-mod=mod GOPROXY=off go test -json -vet=off -count=1 -timeout 25m ./...",
  "source_commits": [],
  "add_only": True
 },
 "engines": [
  {"name": "lean-model", "path": "lean", "serves_properties": claimed, "kind_free_text": "Lean 4 model + theorems (lake project; Model/ core-only executable definitions, Lemmas/, Props/ property theorems, Audit/ axiom audit, Driver/ line-protocol executable)"},
  {"name": "go-harness", "path": "go/overlay", "serves_properties": claimed, "kind_free_text": "in-process correspondence harnesses and implementation-side oracles compiled into /repo packages via go test -overlay, build tag verif"}
 ],
 "checks": checks,
 "not_applicable": not_app,
 "notes": "Every check: (P) lake build + axiom audit of the property's theorems, (T) correspondence of the Lean model's executable definitions with the real Go code on generated inputs, (S) implementation-side oracle that yields the replay. See DESIGN.md."
}
json.dump(man, open(os.path.join(ROOT, "MANIFEST.json"), "w"), indent=1)
print("claimed:", claimed)
