#!/usr/bin/env python3
"""
Confirm a seeded change and run the property's check against it.

  tools/seed_eval.py <seed-out-dir> <property-id> <name> [--checks C01,C11] [--tier quick]

<seed-out-dir> holds patch.diff, zz_seed_demo_test.go, meta.json (as delivered by a seeding
sub-agent). Everything runs in a scratch git worktree of /repo under /tmp and in a scratch copy
of /verif (so that evidence/ and .work/ of the real /verif are not touched); both are removed at
the end. Steps (each recorded in the result JSON):
  1 patch applies, `go build ./...` succeeds
  2 the demonstration test FAILS with the patch
  3 the existing test suite (whole baseline, in a private network namespace) passes with the patch
  4 the demonstration test PASSES without the patch
  5 the check(s) print VIOLATION with the patch, and exit 0 again without it
Prints one JSON object.
"""
import sys, os, json, subprocess, shutil, time

GOENV = {"GOFLAGS": "-mod=mod", "GOPROXY": "off"}


def sh(cmd, cwd=None, env=None, timeout=3600):
    e = dict(os.environ)
    e.pop("GOSUMDB", None); e.pop("GOTOOLCHAIN", None)
    e.update(GOENV)
    if env:
        e.update(env)
    t0 = time.time()
    p = subprocess.run(cmd, cwd=cwd, env=e, shell=isinstance(cmd, str), stdout=subprocess.PIPE,
                       stderr=subprocess.STDOUT, text=True, errors="replace", timeout=timeout)
    return p.returncode, p.stdout, round(time.time() - t0, 1)


def main():
    seed_dir, pid, name = sys.argv[1], sys.argv[2], sys.argv[3]
    checks = [pid]
    tier = "quick"
    skip_suite = False
    for i, a in enumerate(sys.argv):
        if a == "--checks":
            checks = sys.argv[i + 1].split(",")
        if a == "--tier":
            tier = sys.argv[i + 1]
        if a == "--skip-suite":
            skip_suite = True
    meta = json.load(open(os.path.join(seed_dir, "meta.json")))
    tag = "%s-%s" % (pid, name)
    wt = "/tmp/sv-%s" % tag
    vcopy = "/tmp/sv-verif-%s" % tag
    res = {"seed": tag, "property": pid, "summary": meta.get("summary"), "steps": {}}
    sh(["git", "-C", "/repo", "worktree", "remove", "--force", wt])
    sh(["git", "-C", "/repo", "worktree", "add", "-q", "--detach", wt, "main"])
    try:
        patch = os.path.abspath(os.path.join(seed_dir, "patch.diff"))
        rc, out, _ = sh(["git", "apply", patch], cwd=wt)
        rc2, out2, dt = sh("go build ./...", cwd=wt)
        res["steps"]["1_apply_build"] = {"ok": rc == 0 and rc2 == 0, "out": (out + out2)[-300:]}
        if rc != 0 or rc2 != 0:
            print(json.dumps(res, indent=1)); return
        pkg = meta.get("demo_package", "./internal/pkg/table").rstrip("/")
        demo_src = os.path.join(seed_dir, "zz_seed_demo_test.go")
        demo_dst = os.path.join(wt, pkg, "zz_seed_demo_test.go")
        test = meta.get("demo_test", "TestSeedDemo")
        run_demo = "go test -count=1 -vet=off -run '%s' %s/" % (test, pkg)
        if "pkg/server" in pkg:
            run_demo = "unshare -n sh -c 'ip link set lo up; %s'" % run_demo.replace("'", '"')
        shutil.copy(demo_src, demo_dst)
        rc, out, dt = sh(run_demo, cwd=wt, timeout=1800)
        res["steps"]["2_demo_fails_with_patch"] = {"ok": rc != 0 and "FAIL" in out, "s": dt, "out": out[-400:]}
        os.remove(demo_dst)
        if not skip_suite:
            rc, out, dt = sh("unshare -n sh -c 'ip link set lo up; go test -vet=off -count=1 -timeout 25m ./... 2>&1 | grep -v \"^time=\" | tail -25'", cwd=wt, timeout=2400)
            ok = "FAIL" not in out and "ok  \tgithub.com/osrg/gobgp/v4/pkg/server" in out
            res["steps"]["3_existing_suite_passes_with_patch"] = {"ok": ok, "s": dt, "out": out[-600:] if not ok else "all packages ok"}
        sh(["git", "checkout", "--", "."], cwd=wt)
        shutil.copy(demo_src, demo_dst)
        rc, out, dt = sh(run_demo, cwd=wt, timeout=1800)
        res["steps"]["4_demo_passes_without_patch"] = {"ok": rc == 0, "s": dt, "out": out[-300:]}
        os.remove(demo_dst)
        # checks
        shutil.rmtree(vcopy, ignore_errors=True)
        # the copy is the COMMITTED state of /verif (a builder may be half-way through delivering
        # files into the working tree) plus the Lean build cache, which only saves rebuild time
        os.makedirs(vcopy, exist_ok=True)
        sh("git -C /verif archive HEAD | tar -x -C %s" % vcopy)
        sh("rsync -a /verif/lean/.lake %s/lean/" % vcopy)
        sh(["git", "apply", patch], cwd=wt)
        res["checks"] = {}
        for c in checks:
            rc, out, dt = sh(["./check", c, tier], cwd=vcopy, env={"VERIF_REPO": wt}, timeout=3000)
            lines = [l for l in out.splitlines() if l.startswith(("VIOLATION", "BROKEN", "KNOWN")) or " seed=" in l]
            viol = [l for l in lines if l.startswith("VIOLATION")]
            entry = {"exit": rc, "s": dt, "violation": bool(viol), "no_failing_input": any("no-failing-input-found" in l for l in viol),
                     "lines": [l[:400] for l in lines][:8]}
            if viol:
                rp = viol[0].split("replay=")[1].split()[0]
                try:
                    r = json.load(open(rp))
                    entry["replay_summary"] = r.get("summary", "")[:600]
                    fi = r.get("failing_input")
                    entry["failing_input_kind"] = fi.get("kind") if fi else None
                    entry["failing_input_class"] = fi.get("class") if fi else None
                except Exception as ex:
                    entry["replay_err"] = str(ex)
            res["checks"][c] = entry
        sh(["git", "checkout", "--", "."], cwd=wt)
        rc, out, dt = sh(["./check", checks[0], "quick"], cwd=vcopy, env={"VERIF_REPO": wt}, timeout=3000)
        res["steps"]["5_check_clean_after_undo"] = {"ok": rc == 0, "s": dt}
    finally:
        sh(["git", "-C", "/repo", "worktree", "remove", "--force", wt])
        shutil.rmtree(vcopy, ignore_errors=True)
    print(json.dumps(res, indent=1))


if __name__ == "__main__":
    main()
