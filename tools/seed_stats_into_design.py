#!/usr/bin/env python3
import subprocess, os, re
ROOT = os.path.dirname(os.path.dirname(os.path.abspath(__file__)))
out = subprocess.run(["python3", os.path.join(ROOT, "tools", "seed_stats.py")], stdout=subprocess.PIPE, text=True).stdout
p = os.path.join(ROOT, "DESIGN.md"); s = open(p).read()
s = re.sub(r"<!-- seed-stats-begin -->.*?<!-- seed-stats-end -->", "<!-- seed-stats-begin -->\n" + out.strip() + "\n<!-- seed-stats-end -->", s, flags=re.S)
open(p, "w").write(s)
