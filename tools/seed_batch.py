#!/usr/bin/env python3
"""Evaluate every delivered seed under /tmp/seed-*-out/{A,B}: confirm it (tools/seed_eval.py) and
store it as /verif/seeded/<id>/ (patch.diff, demonstration test, meta.json with what was run)."""
import os, sys, json, glob, subprocess, shutil, concurrent.futures as cf
ROOT = os.path.dirname(os.path.dirname(os.path.abspath(__file__)))
only = set(sys.argv[1:])

def run(d):
    pid = os.path.basename(os.path.dirname(d)).split("-")[1]
    name = os.path.basename(d)
    # further pairs of seeds for the same property: suffix x -> C, D; y -> E, F; z -> G, H
    for suf, mp in (("x", {"A": "C", "B": "D"}), ("y", {"A": "E", "B": "F"}), ("z", {"A": "G", "B": "H"}), ("w", {"A": "I", "B": "J"}), ("v", {"A": "K", "B": "L"}), ("u", {"A": "M", "B": "N"}), ("t", {"A": "O", "B": "P"}), ("s", {"A": "Q", "B": "R"}), ("r", {"A": "S", "B": "T"}), ("q", {"A": "U", "B": "V"}), ("p", {"A": "W", "B": "X"})):
        if pid.endswith(suf):
            pid = pid[:-1]
            name = mp[name]
            break
    sid = "%s-%s" % (pid, name)
    if only and sid not in only and pid not in only:
        return sid, None
    dst = os.path.join(ROOT, "seeded", sid)
    prev = None
    extra = []
    if os.environ.get("SEED_RECHECK") and os.path.exists(os.path.join(dst, "meta.json")):
        # the change was confirmed before (suite run recorded); only the checks are run again
        prev = json.load(open(os.path.join(dst, "meta.json"))).get("what_was_run", {})
        if prev.get("steps", {}).get("3_existing_suite_passes_with_patch", {}).get("ok"):
            extra = ["--skip-suite"]
    out = subprocess.run([sys.executable, os.path.join(ROOT, "tools", "seed_eval.py"), d, pid, name] + extra,
                         stdout=subprocess.PIPE, stderr=subprocess.PIPE, text=True, timeout=7200)
    try:
        res = json.loads(out.stdout)
    except Exception:
        res = {"error": out.stdout[-2000:] + out.stderr[-2000:]}
    if extra and "steps" in res:
        res["steps"]["3_existing_suite_passes_with_patch"] = prev["steps"]["3_existing_suite_passes_with_patch"]
        res["earlier_check_results"] = prev.get("earlier_check_results", []) + [prev.get("checks")]
    os.makedirs(dst, exist_ok=True)
    shutil.copy(os.path.join(d, "patch.diff"), dst)
    shutil.copy(os.path.join(d, "zz_seed_demo_test.go"), os.path.join(dst, "zz_seed_demo_test.go.txt"))
    meta = json.load(open(os.path.join(d, "meta.json")))
    steps = res.get("steps", {})
    confirmed = all(steps.get(k, {}).get("ok") for k in ("1_apply_build", "2_demo_fails_with_patch", "3_existing_suite_passes_with_patch", "4_demo_passes_without_patch"))
    json.dump({"id": sid, "property": pid, "breaks": meta.get("summary"), "needs_to_manifest": meta.get("needs_to_manifest"),
               "demo": {"package": meta.get("demo_package"), "test": meta.get("demo_test"), "file": "zz_seed_demo_test.go.txt (copy into the package as zz_seed_demo_test.go)"},
               "origin": "independent sub-agent given only the property text and a scratch worktree of /repo main",
               "confirmed_by_coordinator": confirmed, "what_was_run": res}, open(os.path.join(dst, "meta.json"), "w"), indent=1)
    return sid, res

dirs = sorted(d for d in glob.glob("/tmp/seed-*-out/[AB]") if os.path.exists(os.path.join(d, "patch.diff")))
with cf.ThreadPoolExecutor(max_workers=int(os.environ.get("SEED_WORKERS","3"))) as ex:
    for sid, res in ex.map(run, dirs):
        if res is None:
            continue
        st = {k: v.get("ok") for k, v in res.get("steps", {}).items()}
        ck = {k: ("VIOLATION" + (" (no failing input)" if v["no_failing_input"] else " [" + str(v.get("failing_input_class")) + "]") if v["violation"] else "MISSED") for k, v in res.get("checks", {}).items()}
        print(sid, st, ck, res.get("error", "")[:300], flush=True)
