#!/usr/bin/env python3
"""Per-wave statistics of the seeded changes (from seeded/*/meta.json), for DESIGN.md §10.4."""
import json, glob, os, collections
ROOT = os.path.dirname(os.path.dirname(os.path.abspath(__file__)))
wave = {'A': 1, 'B': 1, 'C': 2, 'D': 2, 'E': 3, 'F': 3, 'G': 4, 'H': 4, 'I': 5, 'J': 5, 'K': 6, 'L': 6, 'M': 7, 'N': 7, 'O': 8, 'P': 8, 'Q': 9, 'R': 9, 'S': 10, 'T': 10, 'U': 11, 'V': 11, 'W': 11, 'X': 11}
tot = collections.Counter(); first = collections.Counter(); conf = collections.Counter(); now = collections.Counter(); sib = collections.Counter(); still = []
for p in sorted(glob.glob(os.path.join(ROOT, 'seeded', '*', 'meta.json'))):
    m = json.load(open(p)); sid = m['id']; w = wave[sid.split('-')[1]]
    tot[w] += 1
    if m.get('confirmed_by_coordinator'): conf[w] += 1
    r = m['what_was_run']; own = m['property']
    viol = lambda c: bool(c and c.get(own, {}).get('violation'))
    e = [x for x in (r.get('earlier_check_results') or []) if x]
    if viol(e[0] if e else r.get('checks')): first[w] += 1
    if viol(r.get('checks')): now[w] += 1
    elif any(v.get('violation') for v in (r.get('other_checks') or {}).values()): sib[w] += 1
    elif m.get('confirmed_by_coordinator'): still.append(sid)
print("| letters | changes | confirmed | caught at first run | caught now by own check | only by a sibling check |")
print("|---|---|---|---|---|---|")
L = {1: 'A, B', 2: 'C, D', 3: 'E, F', 4: 'G, H', 5: 'I, J', 6: 'K, L', 7: 'M, N', 8: 'O, P', 9: 'Q, R', 10: 'S, T', 11: 'U, V, W, X'}
for w in sorted(tot):
    print("| %s | %d | %d | %d | %d | %d |" % (L[w], tot[w], conf[w], first[w], now[w], sib[w]))
print("| all | %d | %d | %d | %d | %d |" % (sum(tot.values()), sum(conf.values()), sum(first.values()), sum(now.values()), sum(sib.values())))
print("not caught yet:", still)
