#!/bin/sh
# usage: tools/agent_setup.sh Cxx   -> private copy of /verif and private worktree of /repo
set -e
id=$1
rm -rf /var/tmp/v-$id
cp -r /verif /var/tmp/v-$id
rm -rf /var/tmp/v-$id/.git
git -C /repo worktree remove --force /var/tmp/repo-$id 2>/dev/null || true
git -C /repo branch -D wt-$id 2>/dev/null || true
git -C /repo worktree add -q /var/tmp/repo-$id -b wt-$id
echo "workspace: /var/tmp/v-$id   repo worktree: /var/tmp/repo-$id  (export VERIF_REPO=/var/tmp/repo-$id)"
