#!/bin/sh
# usage: tools/seed_setup.sh Cxx [suffix]  -> scratch worktree /tmp/seed-Cxx<suffix>, out dir, property text (nothing from /verif)
set -e
id=$1; suf=$2; d=/tmp/seed-$id$suf
git -C /repo worktree remove --force $d 2>/dev/null || true
git -C /repo branch -D seed-$id$suf 2>/dev/null || true
git -C /repo worktree add -q $d -b seed-$id$suf main
mkdir -p $d-out
python3 - "$id" "$d" <<'PY'
import json,sys
pid,d=sys.argv[1],sys.argv[2]
for l in open('/verif/properties.jsonl'):
    p=json.loads(l)
    if p['id']!=pid: continue
    a=p['anchors']
    s="PROPERTY %s — %s\n\nStatement: %s\n\nQuantifier: %s\n\nCode anchors (files): %s\nMechanisms: %s\n"%(
      pid,p['title'],p['statement'],p['quantifier']['text'],", ".join(a['files']),
      "; ".join("%s (%s)"%(m['name'],m['where']) for m in a.get('mechanism',[])))
    open(d+"-prop.txt","w").write(s)
PY
echo $d
