//go:build verif

package table

// C20 datum rule "what leaves a shard lock is a copy" — behavioural, white-box, model-independent.
//
// Every accessor of Table / TableManager that hands destinations or path lists to a caller that does not
// hold the shard lock is called on a populated table; then
//   (1) aliasing: no returned *destination may be one of the live destinations stored in a shard map, and
//       no returned path slice (nor the knownPathList of a returned destination) may share its backing
//       array with the knownPathList of a live destination;
//   (2) stability: the table is mutated afterwards (new path from another peer, replacement, withdrawal on
//       the same prefixes) and everything that was handed out must still have exactly the contents it had.
// A violation is reported as o.fail("shard-state-escapes:<accessor>", …).  No answers are compared with the
// Lean model (oracle-only harness); the static counterpart is the `shardEscape` rule of the extractor.

import (
	"fmt"
	"io"
	"log/slog"
	"net/netip"
	"sort"
	"testing"
	"time"
	"unsafe"

	"github.com/osrg/gobgp/v4/pkg/apiutil"
	"github.com/osrg/gobgp/v4/pkg/packet/bgp"
)

type c20Handed struct {
	accessor string
	dests    []*destination
	lists    [][]*Path
	// fingerprints taken when handed out
	destFP [][]*Path
	listFP [][]*Path
}

func c20Peer(i int) *PeerInfo {
	a := netip.AddrFrom4([4]byte{10, 0, 0, byte(i + 1)})
	return &PeerInfo{AS: 65000 + uint32(i), ID: a, Address: a}
}

func c20V4Path(peer *PeerInfo, prefix netip.Prefix, withdraw bool, med uint32) *Path {
	nlri, _ := bgp.NewIPAddrPrefix(prefix)
	nh, _ := bgp.NewPathAttributeNextHop(peer.Address)
	attrs := []bgp.PathAttributeInterface{
		bgp.NewPathAttributeOrigin(0),
		bgp.NewPathAttributeAsPath([]bgp.AsPathParamInterface{bgp.NewAs4PathParam(bgp.BGP_ASPATH_ATTR_TYPE_SEQ, []uint32{peer.AS})}),
		nh,
		bgp.NewPathAttributeMultiExitDisc(med),
	}
	return NewPath(bgp.RF_IPv4_UC, peer, bgp.PathNLRI{NLRI: nlri}, withdraw, attrs, time.Now(), false)
}

func c20EvpnPath(peer *PeerInfo, i int, withdraw bool) *Path {
	rd, _ := bgp.ParseRouteDistinguisher("65000:100")
	rt := bgp.NewTwoOctetAsSpecificExtended(bgp.EC_SUBTYPE_ROUTE_TARGET, 65000, 100, true)
	nlri, _ := bgp.NewEVPNMacIPAdvertisementRoute(rd, bgp.EthernetSegmentIdentifier{}, 0, fmt.Sprintf("aa:bb:cc:dd:ee:%02x", i%4), netip.MustParseAddr("10.9.0.1"), []uint32{100})
	attrs := []bgp.PathAttributeInterface{bgp.NewPathAttributeOrigin(0),
		bgp.NewPathAttributeExtendedCommunities([]bgp.ExtendedCommunityInterface{rt})}
	return NewPath(bgp.RF_EVPN, peer, bgp.PathNLRI{NLRI: nlri}, withdraw, attrs, time.Now(), false)
}

// live state of a table: destination pointers and the address ranges of their knownPathList arrays
type c20Live struct {
	dests  map[*destination]bool
	ranges [][2]uintptr
}

func c20LiveOf(tm *TableManager) *c20Live {
	l := &c20Live{dests: map[*destination]bool{}}
	for _, t := range tm.tables {
		for _, sh := range t.destinations.shards {
			for _, ds := range sh.mp {
				for _, d := range ds {
					l.dests[d] = true
					if c := cap(d.knownPathList); c > 0 {
						base := uintptr(unsafe.Pointer(unsafe.SliceData(d.knownPathList)))
						l.ranges = append(l.ranges, [2]uintptr{base, base + uintptr(c)*unsafe.Sizeof((*Path)(nil))})
					}
				}
			}
		}
	}
	return l
}

func (l *c20Live) aliases(s []*Path) bool {
	if cap(s) == 0 {
		return false
	}
	p := uintptr(unsafe.Pointer(unsafe.SliceData(s)))
	for _, r := range l.ranges {
		if p >= r[0] && p < r[1] {
			return true
		}
	}
	return false
}

func c20Clone(s []*Path) []*Path { return append([]*Path{}, s...) }

func c20Same(a, b []*Path) bool {
	if len(a) != len(b) {
		return false
	}
	for i := range a {
		if a[i] != b[i] {
			return false
		}
	}
	return true
}

func TestVerifC20Escape(t *testing.T) {
	o := vOpen(t)
	defer o.close()
	r := &vRand{s: o.seed*7919 + 20}
	logger := slog.New(slog.NewJSONHandler(io.Discard, nil))
	prevMP := UseMultiplePaths.Enabled
	UseMultiplePaths.Enabled = true
	defer func() { UseMultiplePaths.Enabled = prevMP }()
	rounds := 40
	if o.thorough {
		rounds = 400
	}
	o.sample("C20 escape oracle: accessors × (aliasing with live shard state, stability under later updates); oracle only, no model answers")
	reported := map[string]bool{}
	for round := 0; round < rounds; round++ {
		tm := NewTableManager(logger, []bgp.Family{bgp.RF_IPv4_UC, bgp.RF_EVPN})
		nPfx := 1 + r.intn(6)
		prefixes := make([]netip.Prefix, nPfx)
		for i := range prefixes {
			prefixes[i] = netip.PrefixFrom(netip.AddrFrom4([4]byte{10, 50, byte(i), 0}), 24)
		}
		// populate: 1–4 paths per prefix from different peers, some with equal preference (multipath)
		for _, p := range prefixes {
			for k, n := 0, 1+r.intn(4); k < n; k++ {
				tm.Update(c20V4Path(c20Peer(k), p, false, uint32(r.intn(2))))
			}
		}
		for k := 0; k < 1+r.intn(3); k++ {
			tm.Update(c20EvpnPath(c20Peer(k), r.intn(4), false))
		}
		tbl := tm.tables[bgp.RF_IPv4_UC]
		etbl := tm.tables[bgp.RF_EVPN]
		live := c20LiveOf(tm)

		// ---- call every accessor
		var handed []*c20Handed
		add := func(name string, ds []*destination, ls [][]*Path) {
			h := &c20Handed{accessor: name, dests: ds, lists: ls}
			for _, d := range ds {
				if d == nil {
					h.destFP = append(h.destFP, nil)
				} else {
					h.destFP = append(h.destFP, c20Clone(d.knownPathList))
				}
			}
			for _, l := range ls {
				h.listFP = append(h.listFP, c20Clone(l))
			}
			handed = append(handed, h)
			o.stat("accessor_"+name, 1)
		}
		hot := prefixes[r.intn(nPfx)]
		lookup := c20V4Path(c20Peer(0), hot, false, 0)
		add("TableManager.GetDestination", []*destination{tm.GetDestination(lookup)}, nil)
		add("Table.GetDestination", []*destination{tbl.GetDestination(lookup.GetNlri())}, nil)
		add("Table.GetDestinations", tbl.GetDestinations(), nil)
		add("Table.SelectDestination", []*destination{tbl.SelectDestination(lookup.GetNlri(), DestinationSelectOption{ID: GLOBAL_RIB_NAME})}, nil)
		if ds, err := tbl.GetLongerPrefixDestinations("10.50.0.0/16"); err == nil {
			add("Table.GetLongerPrefixDestinations", ds, nil)
		}
		if ds, err := etbl.GetEvpnDestinationsWithRouteType("macadv"); err == nil {
			add("Table.GetEvpnDestinationsWithRouteType", ds, nil)
		}
		if sel, err := tbl.Select(TableSelectOption{ID: GLOBAL_RIB_NAME}); err == nil {
			add("Table.Select", sel.GetDestinations(), nil)
		}
		if sel, err := tbl.Select(TableSelectOption{ID: GLOBAL_RIB_NAME, LookupPrefixes: []*apiutil.LookupPrefix{{Prefix: hot.String()}}}); err == nil {
			add("Table.Select(prefix)", sel.GetDestinations(), nil)
		}
		add("Table.Bests", nil, [][]*Path{tbl.Bests(GLOBAL_RIB_NAME, 0)})
		add("Table.MultiBests", nil, tbl.MultiBests(GLOBAL_RIB_NAME))
		add("Table.GetKnownPathList", nil, [][]*Path{tbl.GetKnownPathList(GLOBAL_RIB_NAME, 0)})
		add("TableManager.GetPathList", nil, [][]*Path{tm.GetPathList(GLOBAL_RIB_NAME, 0, []bgp.Family{bgp.RF_IPv4_UC})})
		add("TableManager.GetBestPathList", nil, [][]*Path{tm.GetBestPathList(GLOBAL_RIB_NAME, 0, []bgp.Family{bgp.RF_IPv4_UC})})
		add("TableManager.GetBestMultiPathList", nil, tm.GetBestMultiPathList(GLOBAL_RIB_NAME, []bgp.Family{bgp.RF_IPv4_UC}))
		add("TableManager.GetPathListWithSource", nil, [][]*Path{tm.GetPathListWithSource(GLOBAL_RIB_NAME, []bgp.Family{bgp.RF_IPv4_UC}, c20Peer(0))})
		add("TableManager.GetPathListWithNexthop", nil, [][]*Path{tm.GetPathListWithNexthop(GLOBAL_RIB_NAME, []bgp.Family{bgp.RF_IPv4_UC}, c20Peer(0).Address)})
		// what the callers in pkg/server do with a handed-out destination (no lock held)
		if d := tm.GetDestination(lookup); d != nil {
			add("GetDestination().GetKnownPathList", nil, [][]*Path{d.GetKnownPathList(GLOBAL_RIB_NAME, 0)})
			add("GetDestination().GetAllKnownPathList", nil, [][]*Path{d.GetAllKnownPathList()})
			add("GetDestination().GetMultiBestPath", nil, [][]*Path{d.GetMultiBestPath(GLOBAL_RIB_NAME)})
		}

		// ---- (1) aliasing with live shard state
		fail := func(h *c20Handed, kind string, detail string) {
			cls := "shard-state-escapes:" + h.accessor
			if !reported[cls+kind] {
				reported[cls+kind] = true
				o.fail(cls, map[string]any{"kind": kind, "detail": detail, "seed": o.seed, "round": round,
					"table": fmt.Sprintf("%d prefixes under 10.50.0.0/16, hot prefix %s", nPfx, hot)})
			}
		}
		for _, h := range handed {
			for _, d := range h.dests {
				if d == nil {
					continue
				}
				if live.dests[d] {
					fail(h, "alias", "a returned *destination IS the destination stored in the shard map")
				} else if live.aliases(d.knownPathList) {
					fail(h, "alias", "knownPathList of a returned destination shares its backing array with a live destination")
				}
			}
			for _, l := range h.lists {
				if live.aliases(l) {
					fail(h, "alias", "a returned []*Path shares its backing array with the knownPathList of a live destination")
				}
			}
		}

		// ---- (2) stability: mutate the same prefixes, then compare with the fingerprints
		order := r.perm(nPfx)
		for _, i := range order {
			p := prefixes[i]
			switch r.intn(4) {
			case 0:
				tm.Update(c20V4Path(c20Peer(7), p, false, 0)) // new best from a new peer
			case 1:
				tm.Update(c20V4Path(c20Peer(0), p, true, 0)) // withdraw
			case 2:
				tm.Update(c20V4Path(c20Peer(0), p, false, 5)) // replace
			default:
				tm.Update(c20V4Path(c20Peer(7), p, false, 0))
				tm.Update(c20V4Path(c20Peer(1), p, true, 0))
				tm.Update(c20V4Path(c20Peer(8), p, false, 0))
			}
		}
		tm.Update(c20EvpnPath(c20Peer(5), r.intn(4), false))
		tm.Update(c20EvpnPath(c20Peer(0), r.intn(4), true))
		for _, h := range handed {
			for i, d := range h.dests {
				if d != nil && !c20Same(d.knownPathList, h.destFP[i]) {
					fail(h, "changed", fmt.Sprintf("a handed-out destination changed under the caller: %d paths when returned, %d after later updates of the table",
						len(h.destFP[i]), len(d.knownPathList)))
				}
			}
			for i, l := range h.lists {
				if !c20Same(l, h.listFP[i]) {
					fail(h, "changed", "a handed-out path list changed under the caller after later updates of the table")
				}
			}
		}
		o.stat("rounds", 1)
		o.stat("handed_out_values_checked", len(handed))
	}
	keys := make([]string, 0, len(reported))
	for k := range reported {
		keys = append(keys, k)
	}
	sort.Strings(keys)
	o.stat("distinct_escapes", len(keys))
}
