//go:build verif

package table

// C16 correspondence harness, part 1 (package table): drives the real ROATable (critbit trees)
// through generated Add / Delete / DeleteAll histories and validates generated routes against
// it.  Every answer (table content in walk order, full Validation incl. the three ROA lists,
// verdict of the three RpkiValidationConditions) is compared with the Lean model Roa.*; the
// oracle recomputes the table content as a plain set and the RFC 6811 classification by brute
// force over that set, without the model and without the tree.

import (
	"fmt"
	"log/slog"
	"math/big"
	"net/netip"
	"sort"
	"strings"
	"testing"
	"time"

	"github.com/osrg/gobgp/v4/pkg/config/oc"
	"github.com/osrg/gobgp/v4/pkg/packet/bgp"
)

type c16Pfx struct {
	fam int // 4 | 6
	p   netip.Prefix
}

func (x c16Pfx) bits() string {
	b := x.p.Addr().AsSlice()
	v := new(big.Int).SetBytes(b)
	v.Rsh(v, uint(len(b)*8-x.p.Bits()))
	return v.String()
}

func (x c16Pfx) String() string { return fmt.Sprintf("%d %d %s", x.fam, x.p.Bits(), x.bits()) }

type c16Rec struct {
	pfx    c16Pfx
	maxLen uint8
	as     uint32
	src    int
}

func c16Src(i int) string { return fmt.Sprintf("c%d", i) }

func (r c16Rec) roa() *ROA {
	afi := bgp.AFI_IP
	if r.pfx.fam == 6 {
		afi = bgp.AFI_IP6
	}
	return NewROA(afi, r.pfx.p.Addr().AsSlice(), uint8(r.pfx.p.Bits()), r.maxLen, r.as, c16Src(r.src))
}

func c16ShowROA(r *ROA) string {
	fam := 4
	if r.Family == bgp.AFI_IP6 {
		fam = 6
	}
	ones, _ := r.Network.Mask.Size()
	v := new(big.Int).SetBytes(r.Network.IP)
	v.Rsh(v, uint(len(r.Network.IP)*8-ones))
	var src int
	fmt.Sscanf(r.Src, "c%d", &src)
	return fmt.Sprintf("%d/%d/%s:%d,%d,%d", fam, ones, v.String(), r.MaxLen, r.AS, src)
}

func c16ShowROAs(l []*ROA) string {
	s := make([]string, len(l))
	for i, r := range l {
		s[i] = c16ShowROA(r)
	}
	return strings.Join(s, " ")
}

func c16Trim(s string) string { return strings.Join(strings.Fields(s), " ") }

// ---- generators -------------------------------------------------------------------------

var c16V4Bases = []uint32{0x0A000000, 0x0A010000, 0x0A010100, 0x0A0101FF, 0x0A800000, 0xC0A80000, 0xC0A80100,
	0xFFFFFFFF, 0x00000000, 0x80000000, 0x7FFFFFFF, 0x0A010180}
var c16V4Lens = []int{0, 1, 7, 8, 9, 15, 16, 17, 23, 24, 25, 26, 31, 32}
var c16V6Lens = []int{0, 1, 16, 32, 33, 47, 48, 63, 64, 65, 96, 127, 128}
var c16ASPool = []uint32{0, 100, 200, 300, 65000, 4294967295}

func c16GenPfx(r *vRand, fam int) c16Pfx {
	if fam == 4 {
		a := c16V4Bases[r.intn(len(c16V4Bases))]
		if r.chance(25) {
			a ^= uint32(1) << uint(r.intn(32))
		}
		l := c16V4Lens[r.intn(len(c16V4Lens))]
		if r.chance(15) {
			l = r.intn(33)
		}
		addr := netip.AddrFrom4([4]byte{byte(a >> 24), byte(a >> 16), byte(a >> 8), byte(a)})
		return c16Pfx{4, netip.PrefixFrom(addr, l).Masked()}
	}
	var b [16]byte
	b[0], b[1], b[2], b[3] = 0x20, 0x01, 0x0d, 0xb8
	switch r.intn(5) {
	case 0:
	case 1:
		b[5] = 1
	case 2:
		b[7] = 0x80
		b[15] = 1
	case 3:
		for i := range b {
			b[i] = 0xff
		}
	case 4:
		b = [16]byte{}
	}
	if r.chance(25) {
		i := r.intn(128)
		b[i/8] ^= 1 << uint(7-i%8)
	}
	l := c16V6Lens[r.intn(len(c16V6Lens))]
	if r.chance(15) {
		l = r.intn(129)
	}
	return c16Pfx{6, netip.PrefixFrom(netip.AddrFrom16(b), l).Masked()}
}

// a prefix related to x: the same, a more specific one, or a less specific one
func c16Related(r *vRand, x c16Pfx) c16Pfx {
	w := x.p.Addr().BitLen()
	switch r.intn(4) {
	case 0:
		return x
	case 1, 2:
		l := x.p.Bits() + r.pick(1, 1, 2, 8, 9)
		if l > w {
			l = w
		}
		b := x.p.Addr().AsSlice()
		if l > x.p.Bits() && r.chance(60) { // set some of the added bits
			i := x.p.Bits() + r.intn(l-x.p.Bits())
			b[i/8] |= 1 << uint(7-i%8)
		}
		a, _ := netip.AddrFromSlice(b)
		return c16Pfx{x.fam, netip.PrefixFrom(a, l).Masked()}
	default:
		l := x.p.Bits() - r.pick(1, 1, 2, 8)
		if l < 0 {
			l = 0
		}
		return c16Pfx{x.fam, netip.PrefixFrom(x.p.Addr(), l).Masked()}
	}
}

func c16GenRec(r *vRand, pool []c16Pfx, nsrc int) c16Rec {
	p := pool[r.intn(len(pool))]
	l := p.p.Bits()
	w := p.p.Addr().BitLen()
	var ml int
	switch r.intn(8) {
	case 0, 1, 2:
		ml = l
	case 3:
		ml = l + 1
	case 4:
		ml = l + 8
	case 5:
		ml = w
	case 6:
		ml = l - 1 // malformed: shorter than the prefix
	default:
		ml = r.pick(0, 24, 32, 48, 128, 255)
	}
	if ml < 0 {
		ml = 0
	}
	if ml > 255 {
		ml = 255
	}
	return c16Rec{pfx: p, maxLen: uint8(ml), as: c16ASPool[r.intn(len(c16ASPool))], src: r.intn(nsrc)}
}

type c16Seg struct {
	typ uint8
	as  []uint32
}

type c16Route struct {
	kind    int // 0 normal, 1 withdraw, 2 EOR, 3 family without a ROA tree (VPNv4)
	pfx     c16Pfx
	localAS uint32
	hasAttr bool
	segs    []c16Seg
	shape   string
}

func c16GenSegs(r *vRand) (bool, []c16Seg, string) {
	as := func() uint32 { return c16ASPool[r.intn(len(c16ASPool))] }
	seq := func() c16Seg {
		n := 1 + r.intn(3)
		l := make([]uint32, n)
		for i := range l {
			l[i] = as()
		}
		return c16Seg{bgp.BGP_ASPATH_ATTR_TYPE_SEQ, l}
	}
	set := func() c16Seg { return c16Seg{bgp.BGP_ASPATH_ATTR_TYPE_SET, []uint32{as(), as()}} }
	cseq := func() c16Seg { return c16Seg{bgp.BGP_ASPATH_ATTR_TYPE_CONFED_SEQ, []uint32{65001, as()}} }
	cset := func() c16Seg { return c16Seg{bgp.BGP_ASPATH_ATTR_TYPE_CONFED_SET, []uint32{65002, as()}} }
	switch r.intn(16) {
	case 0:
		return false, nil, "no-attr"
	case 1:
		return true, []c16Seg{}, "empty"
	case 2, 3, 4, 5:
		return true, []c16Seg{seq()}, "seq"
	case 6:
		return true, []c16Seg{seq(), seq()}, "seq-seq"
	case 7:
		return true, []c16Seg{seq(), set()}, "seq-set"
	case 8:
		return true, []c16Seg{set()}, "set"
	case 9:
		return true, []c16Seg{cseq()}, "confed-seq"
	case 10:
		return true, []c16Seg{cset()}, "confed-set"
	case 11:
		return true, []c16Seg{cseq(), seq()}, "confed-seq+seq"
	case 12:
		return true, []c16Seg{set(), seq()}, "set-seq"
	case 13:
		return true, []c16Seg{seq(), cseq()}, "seq+confed(malformed)"
	case 14:
		return true, []c16Seg{seq(), {bgp.BGP_ASPATH_ATTR_TYPE_SEQ, []uint32{}}}, "seq+empty-seq(malformed)"
	default:
		return true, []c16Seg{seq(), {5, []uint32{as()}}}, "unknown-type(malformed)"
	}
}

func (rt c16Route) line() string {
	var sb strings.Builder
	fmt.Fprintf(&sb, "tval %d %s %d %d", rt.kind, rt.pfx.String(), rt.localAS, len(rt.segs))
	for _, s := range rt.segs {
		fmt.Fprintf(&sb, " %d %d", s.typ, len(s.as))
		for _, a := range s.as {
			fmt.Fprintf(&sb, " %d", a)
		}
	}
	return sb.String()
}

func (rt c16Route) path() *Path {
	fam := bgp.RF_IPv4_UC
	if rt.pfx.fam == 6 {
		fam = bgp.RF_IPv6_UC
	}
	src := &PeerInfo{LocalAS: rt.localAS, AS: 64999}
	switch rt.kind {
	case 2:
		return NewEOR(fam)
	case 3:
		rd, _ := bgp.ParseRouteDistinguisher("100:100")
		nlri, _ := bgp.NewLabeledVPNIPAddrPrefix(rt.pfx.p, *bgp.NewMPLSLabelStack(100), rd)
		vf := bgp.RF_IPv4_VPN
		if rt.pfx.fam == 6 {
			vf = bgp.RF_IPv6_VPN
		}
		return NewPath(vf, src, bgp.PathNLRI{NLRI: nlri}, false, c16Attrs(rt), time.Unix(1, 0), false)
	}
	nlri, _ := bgp.NewIPAddrPrefix(rt.pfx.p)
	return NewPath(fam, src, bgp.PathNLRI{NLRI: nlri}, rt.kind == 1, c16Attrs(rt), time.Unix(1, 0), false)
}

func c16Attrs(rt c16Route) []bgp.PathAttributeInterface {
	attrs := []bgp.PathAttributeInterface{bgp.NewPathAttributeOrigin(0)}
	if rt.hasAttr {
		params := make([]bgp.AsPathParamInterface, 0, len(rt.segs))
		for _, sg := range rt.segs {
			params = append(params, bgp.NewAs4PathParam(sg.typ, append([]uint32{}, sg.as...)))
		}
		attrs = append(attrs, bgp.NewPathAttributeAsPath(params))
	}
	return attrs
}

// ---- oracle: RFC 6811 by brute force over a plain set of records ------------------------------

// origin as the property states it; ok=false for shapes the property does not speak about
// (confederation segment after a non-confederation one, empty segment, unknown type)
func c16SpecOrigin(rt c16Route) (as uint32, notFound bool, ok bool) {
	seenPlain := false
	for _, s := range rt.segs {
		if len(s.as) == 0 || s.typ < 1 || s.typ > 4 {
			return 0, false, false
		}
		confed := s.typ == bgp.BGP_ASPATH_ATTR_TYPE_CONFED_SEQ || s.typ == bgp.BGP_ASPATH_ATTR_TYPE_CONFED_SET
		if confed && seenPlain {
			return 0, false, false
		}
		if !confed {
			seenPlain = true
		}
	}
	if !seenPlain {
		return rt.localAS, false, true
	}
	last := rt.segs[len(rt.segs)-1]
	if last.typ == bgp.BGP_ASPATH_ATTR_TYPE_SET {
		return 0, true, true
	}
	return last.as[len(last.as)-1], false, true
}

func c16SpecStatus(recs []c16Rec, rt c16Route) (oc.RpkiValidationResultType, bool) {
	origin, nf, ok := c16SpecOrigin(rt)
	if !ok {
		return "", false
	}
	if nf {
		return oc.RPKI_VALIDATION_RESULT_TYPE_NOT_FOUND, true
	}
	covering, matching := 0, 0
	for _, r := range recs {
		if r.pfx.fam != rt.pfx.fam || r.pfx.p.Bits() > rt.pfx.p.Bits() || !r.pfx.p.Contains(rt.pfx.p.Addr()) {
			continue
		}
		covering++
		if r.as != 0 && r.as == origin && rt.pfx.p.Bits() <= int(r.maxLen) {
			matching++
		}
	}
	switch {
	case matching > 0:
		return oc.RPKI_VALIDATION_RESULT_TYPE_VALID, true
	case covering > 0:
		return oc.RPKI_VALIDATION_RESULT_TYPE_INVALID, true
	}
	return oc.RPKI_VALIDATION_RESULT_TYPE_NOT_FOUND, true
}

func c16RecKey(r c16Rec) string {
	return fmt.Sprintf("%d/%s:%d,%d,%d", r.pfx.fam, r.pfx.p.String(), r.maxLen, r.as, r.src)
}

func c16ROAKey(r *ROA) string {
	fam := 4
	if r.Family == bgp.AFI_IP6 {
		fam = 6
	}
	var src int
	fmt.Sscanf(r.Src, "c%d", &src)
	return fmt.Sprintf("%d/%s:%d,%d,%d", fam, r.Network.String(), r.MaxLen, r.AS, src)
}

type c16State struct {
	o     *vOut
	rt    *ROATable
	truth []c16Rec // the set of live records, maintained without the table
	trace []string
}

func (s *c16State) reset() {
	s.rt = NewROATable(slog.New(slog.DiscardHandler))
	s.truth = nil
	s.trace = s.trace[:0]
	s.o.op("treset")
}

func (s *c16State) add(r c16Rec) {
	s.o.op("tadd %s %d %d %d", r.pfx.String(), r.maxLen, r.as, r.src)
	s.trace = append(s.trace, "add "+c16RecKey(r))
	s.rt.Add(r.roa())
	for _, x := range s.truth {
		if x == r {
			return
		}
	}
	s.truth = append(s.truth, r)
}

func (s *c16State) del(r c16Rec) {
	s.o.op("tdel %s %d %d %d", r.pfx.String(), r.maxLen, r.as, r.src)
	s.trace = append(s.trace, "del "+c16RecKey(r))
	s.rt.Delete(r.roa())
	for i, x := range s.truth {
		if x == r {
			s.truth = append(s.truth[:i:i], s.truth[i+1:]...)
			return
		}
	}
}

func (s *c16State) delAll(src int) {
	s.o.op("tdelall %d", src)
	s.trace = append(s.trace, fmt.Sprintf("delall %d", src))
	s.rt.DeleteAll(c16Src(src))
	var keep []c16Rec
	for _, x := range s.truth {
		if x.src != src {
			keep = append(keep, x)
		}
	}
	s.truth = keep
}

func (s *c16State) dump() {
	l, _ := s.rt.List(0)
	s.o.ask(c16Trim("recs "+c16ShowROAs(l)), "tdump")
	// oracle: content as a set
	got := make([]string, len(l))
	for i, r := range l {
		got[i] = c16ROAKey(r)
	}
	want := make([]string, len(s.truth))
	for i, r := range s.truth {
		want[i] = c16RecKey(r)
	}
	sort.Strings(got)
	sort.Strings(want)
	if strings.Join(got, " ") != strings.Join(want, " ") {
		s.o.fail("table-content", map[string]any{"ops": append([]string{}, s.trace...), "table": got, "expected": want})
	}
	s.info()
}

// info: what ROATable.Info reports (records and prefixes per source and family — the figures behind
// GetServers / ListRpki) against a recount of the plain set of records
func (s *c16State) info() {
	r4, p4 := s.rt.Info(bgp.RF_IPv4_UC)
	r6, p6 := s.rt.Info(bgp.RF_IPv6_UC)
	type cnt struct {
		rec  [2]uint32
		pfxs [2]map[string]bool
	}
	want := map[int]*cnt{}
	for _, r := range s.truth {
		c := want[r.src]
		if c == nil {
			c = &cnt{pfxs: [2]map[string]bool{{}, {}}}
			want[r.src] = c
		}
		f := 0
		if r.pfx.fam == 6 {
			f = 1
		}
		c.rec[f]++
		c.pfxs[f][r.pfx.p.String()] = true
	}
	parts := []string{"info"}
	for src := 0; src < 3; src++ {
		k := c16Src(src)
		got := [4]uint32{r4[k], r6[k], p4[k], p6[k]}
		parts = append(parts, fmt.Sprintf("%d:%d,%d,%d,%d", src, got[0], got[1], got[2], got[3]))
		var exp [4]uint32
		if c := want[src]; c != nil {
			exp = [4]uint32{c.rec[0], c.rec[1], uint32(len(c.pfxs[0])), uint32(len(c.pfxs[1]))}
		}
		if got != exp {
			s.o.fail("info-counters-differ-from-set", map[string]any{"ops": append([]string{}, s.trace...), "source": src,
				"reported_records_v4_v6_prefixes_v4_v6": got, "recount": exp})
		}
		if exp[2]+exp[3] > 0 {
			s.o.stat("info_checked_sources_with_records", 1)
		}
	}
	// a source the table does not know must not be reported at all
	for _, m := range []map[string]uint32{r4, p4, r6, p6} {
		for k, v := range m {
			var src int
			if _, err := fmt.Sscanf(k, "c%d", &src); err != nil || src > 2 || (v == 0) {
				s.o.fail("info-reports-unknown-source", map[string]any{"ops": append([]string{}, s.trace...), "key": k, "value": v})
			}
		}
	}
	s.o.ask(strings.Join(parts, " "), "tinfo 0 1 2")
}

func (s *c16State) validate(rt c16Route) {
	path := rt.path()
	v := s.rt.Validate(path)
	pol := func() (res string) {
		defer func() {
			if e := recover(); e != nil {
				res = "pol:panic"
			}
		}()
		res = "pol:"
		for _, want := range []oc.RpkiValidationResultType{oc.RPKI_VALIDATION_RESULT_TYPE_VALID,
			oc.RPKI_VALIDATION_RESULT_TYPE_INVALID, oc.RPKI_VALIDATION_RESULT_TYPE_NOT_FOUND} {
			c, _ := NewRpkiValidationCondition(want)
			if c.Evaluate(path, &PolicyOptions{Validate: s.rt.Validate}) {
				res += "1"
			} else {
				res += "0"
			}
		}
		return res
	}()
	if pol == "pol:panic" {
		s.o.fail("rpki-condition-nil-validation", map[string]any{"route": rt.line(), "what": "RpkiValidationCondition.Evaluate panics when Validate returns nil"})
	}
	if v == nil {
		s.o.ask("nil | "+pol, "%s", rt.line())
		s.o.stat("val_nil", 1)
		if rt.kind == 0 {
			s.o.fail("validate-nil-for-unicast", rt.line())
		}
		return
	}
	if rt.kind != 0 {
		s.o.fail("validate-non-nil", rt.line())
	}
	ans := fmt.Sprintf("%s %s | m %s | ua %s | ul %s | %s", v.Status, v.Reason,
		c16ShowROAs(v.Matched), c16ShowROAs(v.UnmatchedAs), c16ShowROAs(v.UnmatchedLength), pol)
	s.o.ask(strings.Join(strings.Fields(ans), " "), "%s", rt.line())
	s.o.stat("val_"+string(v.Status)+"_"+string(v.Reason), 1)
	s.o.stat("shape_"+rt.shape, 1)
	if want, ok := c16SpecStatus(s.truth, rt); ok {
		s.o.stat("oracle_rfc6811_checked", 1)
		if want != v.Status {
			s.o.fail("rfc6811-status", map[string]any{"ops": append([]string{}, s.trace...), "route": rt.line(),
				"got": string(v.Status), "rfc6811": string(want)})
		}
		// policy conditions see the same verdict
		wantPol := map[oc.RpkiValidationResultType]string{oc.RPKI_VALIDATION_RESULT_TYPE_VALID: "pol:100",
			oc.RPKI_VALIDATION_RESULT_TYPE_INVALID: "pol:010", oc.RPKI_VALIDATION_RESULT_TYPE_NOT_FOUND: "pol:001"}[want]
		if pol != wantPol && pol != "pol:panic" {
			s.o.fail("rpki-condition-verdict", map[string]any{"route": rt.line(), "got": pol, "want": wantPol})
		}
	} else {
		s.o.stat("oracle_rfc6811_skipped_malformed_path", 1)
	}
}

func (s *c16State) genRoute(r *vRand, pool []c16Pfx) c16Route {
	var p c16Pfx
	switch {
	case len(s.truth) > 0 && r.chance(70):
		p = c16Related(r, s.truth[r.intn(len(s.truth))].pfx)
	case r.chance(50):
		p = c16Related(r, pool[r.intn(len(pool))])
	default:
		p = c16GenPfx(r, r.pick(4, 4, 6))
	}
	rt := c16Route{pfx: p, localAS: uint32(r.pick(100, 200, 65500))}
	rt.hasAttr, rt.segs, rt.shape = c16GenSegs(r)
	// bias the origin toward an AS that some covering record has
	if r.chance(50) && len(rt.segs) > 0 {
		last := &rt.segs[len(rt.segs)-1]
		if len(last.as) > 0 && len(s.truth) > 0 {
			last.as[len(last.as)-1] = s.truth[r.intn(len(s.truth))].as
		}
	}
	if r.chance(4) {
		rt.kind = 1 + r.intn(3)
	}
	return rt
}

func TestVerifC16(t *testing.T) {
	o := vOpen(t)
	defer o.close()
	r := &vRand{s: o.seed*7919 + 16}
	s := &c16State{o: o}

	mk4 := func(cidr string) c16Pfx { return c16Pfx{4, netip.MustParsePrefix(cidr)} }
	seqTo := func(as ...uint32) []c16Seg { return []c16Seg{{bgp.BGP_ASPATH_ATTR_TYPE_SEQ, as}} }

	// ---- corpus: the cases of roa_test.go and the boundary cases of the property ----
	s.reset()
	s.add(c16Rec{mk4("192.168.0.0/24"), 32, 100, 0})
	s.add(c16Rec{mk4("192.168.0.0/24"), 24, 200, 0})
	s.dump()
	for _, c := range []struct {
		cidr string
		as   []uint32
	}{{"192.168.0.0/24", []uint32{100}}, {"192.168.0.0/24", []uint32{100, 200}}, {"192.168.0.0/24", []uint32{300}},
		{"192.168.0.0/25", []uint32{100}}, {"192.168.0.0/25", []uint32{200}}, {"192.168.0.0/25", []uint32{300}},
		{"192.168.0.0/16", []uint32{100}}} {
		s.validate(c16Route{pfx: mk4(c.cidr), localAS: 65500, hasAttr: true, segs: seqTo(c.as...), shape: "seq"})
	}
	// AS 0 never matches; local AS for the empty path; AS_SET → not found; nil validation → no condition matches
	s.reset()
	s.add(c16Rec{mk4("10.0.0.0/8"), 24, 0, 0})
	s.add(c16Rec{mk4("10.0.0.0/8"), 24, 65500, 1})
	s.dump()
	s.validate(c16Route{pfx: mk4("10.1.0.0/16"), localAS: 65500, hasAttr: true, segs: seqTo(0), shape: "seq"})
	s.validate(c16Route{pfx: mk4("10.1.0.0/16"), localAS: 65500, hasAttr: false, shape: "no-attr"})
	s.validate(c16Route{pfx: mk4("10.1.0.0/16"), localAS: 100, hasAttr: true, segs: []c16Seg{}, shape: "empty"})
	s.validate(c16Route{pfx: mk4("10.1.0.0/16"), localAS: 65500, hasAttr: true,
		segs: []c16Seg{{bgp.BGP_ASPATH_ATTR_TYPE_SEQ, []uint32{65500}}, {bgp.BGP_ASPATH_ATTR_TYPE_SET, []uint32{65500}}}, shape: "seq-set"})
	s.validate(c16Route{pfx: mk4("10.1.0.0/25"), localAS: 65500, hasAttr: true, segs: seqTo(65500), shape: "seq"})
	for k := 1; k <= 3; k++ {
		s.validate(c16Route{kind: k, pfx: mk4("10.1.0.0/16"), localAS: 65500, hasAttr: true, segs: seqTo(65500), shape: "seq"})
	}
	s.delAll(1)
	s.dump()
	s.del(c16Rec{mk4("10.0.0.0/8"), 24, 0, 0})
	s.dump()
	s.validate(c16Route{pfx: mk4("10.1.0.0/16"), localAS: 65500, hasAttr: true, segs: seqTo(65500), shape: "seq"})

	// a validation condition after a modifying action sees the route as modified: a locally sourced
	// route, Invalid under the local AS, gets the customer AS prepended and must then be Valid
	s.reset()
	s.add(c16Rec{mk4("10.10.0.0/24"), 24, 65100, 0})
	s.dump()
	for _, split := range [][]int{{3}, {1, 2}, {1, 1, 1}} {
		for _, attr := range []bool{true, false} {
			s.chain(c16Chain{rt: c16Route{pfx: mk4("10.10.0.0/24"), localAS: 65500, hasAttr: attr, segs: []c16Seg{}, shape: "empty"},
				split: split, stmts: []c16Stmt{{cond: 2, prep: 1, asn: 65100, rep: 1}, {cond: 1, disp: 1}, {cond: 0, disp: 2}}})
		}
	}
	// … and the other way round: Valid under the local AS until a foreign AS is prepended
	s.reset()
	s.add(c16Rec{mk4("10.10.0.0/24"), 24, 65500, 0})
	s.chain(c16Chain{rt: c16Route{pfx: mk4("10.10.0.0/24"), localAS: 65500, hasAttr: true, segs: []c16Seg{}, shape: "empty"},
		split: []int{2, 1}, stmts: []c16Stmt{{cond: 1, prep: 1, asn: 300, rep: 2, other: 1}, {cond: 1, disp: 2}, {cond: 2, disp: 1}}})
	// not-found → valid is impossible by prepending (coverage does not change); MED / LOCAL_PREF / next hop
	// / ORIGIN / community actions between two conditions change nothing
	s.chain(c16Chain{rt: c16Route{pfx: mk4("10.10.0.0/24"), localAS: 65500, hasAttr: true, segs: seqTo(65500), shape: "seq"},
		split: []int{4}, stmts: []c16Stmt{{cond: 1, other: 1}, {cond: 1, other: 2}, {cond: 1, other: 3, prep: 2, rep: 1}, {cond: 1, other: 4, disp: 1}}})

	// what Info reports: two sources under one prefix with interleaving entries have one prefix each
	s.reset()
	s.add(c16Rec{mk4("10.1.0.0/16"), 16, 100, 0})
	s.add(c16Rec{mk4("10.1.0.0/16"), 24, 100, 0})
	s.add(c16Rec{mk4("10.1.0.0/16"), 20, 100, 1})
	s.dump()
	s.del(c16Rec{mk4("10.1.0.0/16"), 20, 100, 1}) // the bucket stays, the source is gone from it
	s.dump()
	s.delAll(0) // … and now the empty bucket goes
	s.dump()

	// ---- generated histories ----
	cases := 4000
	if o.thorough {
		cases = 30000
	}
	for c := 0; c < cases; c++ {
		s.reset()
		// a small pool of related prefixes so that equal and nested prefixes are common
		var pool []c16Pfx
		nroot := 1 + r.intn(3)
		for i := 0; i < nroot; i++ {
			root := c16GenPfx(r, r.pick(4, 4, 6))
			pool = append(pool, root)
			for j := r.intn(4); j > 0; j-- {
				pool = append(pool, c16Related(r, pool[len(pool)-1-r.intn(2)%len(pool)]))
			}
		}
		nsrc := 1 + r.intn(3)
		nops := 4 + r.intn(18)
		if c%40 == 0 {
			nops = 60 // bigger tables now and then
		}
		perBucket := map[string]int{}
		var added []c16Rec
		for i := 0; i < nops; i++ {
			switch k := r.intn(100); {
			case k < 62 || len(added) == 0:
				rec := c16GenRec(r, pool, nsrc)
				if r.chance(12) && len(added) > 0 {
					rec = added[r.intn(len(added))] // duplicate announcement
				}
				key := fmt.Sprintf("%d/%s", rec.pfx.fam, rec.pfx.p)
				if perBucket[key] >= 12 { // sort.Slice is only stable up to 12 entries
					continue
				}
				perBucket[key]++
				added = append(added, rec)
				s.add(rec)
				o.stat("op_add", 1)
			case k < 88:
				rec := added[r.intn(len(added))]
				if r.chance(25) { // removal of an unknown record
					rec = c16GenRec(r, pool, nsrc)
					o.stat("op_del_random", 1)
				}
				s.del(rec)
				o.stat("op_del", 1)
			default:
				s.delAll(r.intn(nsrc + 1))
				o.stat("op_delall", 1)
			}
			if r.chance(35) || i == nops-1 {
				s.dump()
				nv := 1 + r.intn(4)
				for j := 0; j < nv; j++ {
					rt := s.genRoute(r, pool)
					s.validate(rt)
					if c < 3 && j == 0 {
						o.sample(fmt.Sprintf("table of %d records; %s", len(s.truth), rt.line()))
					}
				}
				for j := r.intn(3); j > 0; j-- {
					s.chain(s.genChain(r, pool))
				}
			}
		}
		o.stat(fmt.Sprintf("table_size_%s", c16Bucket(len(s.truth))), 1)
	}
}

// ---- validation conditions inside policy chains ------------------------------------------------

// one statement: an optional rpki condition, a marking community (so that the statements that
// matched can be read off the resulting route), an optional AS_PATH prepend, an optional
// action that must not matter to validation, a disposition
type c16Stmt struct {
	cond  int // 0 none, 1 valid, 2 invalid, 3 not-found
	prep  int // 0 none, 1 fixed AS, 2 last-as
	asn   uint32
	rep   uint8
	other int // 0 none, 1 MED, 2 LOCAL_PREF, 3 next hop, 4 ORIGIN
	disp  int // 0 none, 1 accept, 2 reject
}

type c16Chain struct {
	rt     c16Route
	confed bool  // the policy runs for a confederation member (prepends AS_CONFED_SEQUENCE)
	split  []int // statements per policy
	stmts  []c16Stmt
}

var c16CondResult = []oc.RpkiValidationResultType{"", oc.RPKI_VALIDATION_RESULT_TYPE_VALID,
	oc.RPKI_VALIDATION_RESULT_TYPE_INVALID, oc.RPKI_VALIDATION_RESULT_TYPE_NOT_FOUND}

func (s *c16State) genChain(r *vRand, pool []c16Pfx) c16Chain {
	ch := c16Chain{rt: s.genRoute(r, pool), confed: r.chance(12)}
	ch.rt.kind = 0
	// ASes that make a difference: those of the records covering the route, the local AS, a stranger
	asns := []uint32{ch.rt.localAS, 300}
	for _, rec := range s.truth {
		if rec.pfx.fam == ch.rt.pfx.fam && rec.pfx.p.Bits() <= ch.rt.pfx.p.Bits() && rec.pfx.p.Contains(ch.rt.pfx.p.Addr()) {
			asns = append(asns, rec.as, rec.as)
		}
	}
	if r.chance(55) { // routes whose origin is the local AS until something is prepended
		switch r.intn(4) {
		case 0:
			ch.rt.hasAttr, ch.rt.segs, ch.rt.shape = false, nil, "no-attr"
		case 1, 2:
			ch.rt.hasAttr, ch.rt.segs, ch.rt.shape = true, []c16Seg{}, "empty"
		default:
			ch.rt.hasAttr, ch.rt.segs, ch.rt.shape = true, []c16Seg{{bgp.BGP_ASPATH_ATTR_TYPE_CONFED_SEQ, []uint32{65001}}}, "confed-seq"
		}
	}
	n := 2 + r.intn(4)
	for i := 0; i < n; i++ {
		st := c16Stmt{cond: r.pick(0, 1, 1, 2, 2, 3, 3), other: r.pick(0, 0, 1, 2, 3, 4)}
		switch r.intn(5) {
		case 0, 1:
			st.prep, st.asn, st.rep = 1, asns[r.intn(len(asns))], uint8(r.pick(1, 1, 2, 3))
			if r.chance(4) {
				st.rep = 254 // the 255-AS limit of a segment
			}
		case 2:
			st.prep, st.rep = 2, uint8(r.pick(1, 2))
		}
		if i == n-1 {
			st.disp = r.pick(0, 1, 1, 2)
		} else if r.chance(8) {
			st.disp = r.pick(1, 2)
		}
		ch.stmts = append(ch.stmts, st)
	}
	for left := n; left > 0; {
		k := 1 + r.intn(left)
		ch.split = append(ch.split, k)
		left -= k
	}
	return ch
}

func (ch c16Chain) line() string {
	var sb strings.Builder
	b := 0
	if ch.confed {
		b = 1
	}
	fmt.Fprintf(&sb, "tchain %s %d %d %d", ch.rt.pfx.String(), ch.rt.localAS, b, len(ch.rt.segs))
	for _, sg := range ch.rt.segs {
		fmt.Fprintf(&sb, " %d %d", sg.typ, len(sg.as))
		for _, a := range sg.as {
			fmt.Fprintf(&sb, " %d", a)
		}
	}
	for _, st := range ch.stmts {
		fmt.Fprintf(&sb, " %d %d %d %d %d", st.cond, st.prep, st.asn, st.rep, st.disp)
	}
	return sb.String()
}

func c16ShowPath(p *Path) string {
	var segs []string
	if ap := p.GetAsPath(); ap != nil {
		for _, param := range ap.Value {
			as := make([]string, 0, len(param.GetAS()))
			for _, a := range param.GetAS() {
				as = append(as, fmt.Sprint(a))
			}
			segs = append(segs, fmt.Sprintf("%d:%s", param.GetType(), strings.Join(as, ",")))
		}
	}
	return strings.Join(segs, ";")
}

// the route of a path, in the harness' own terms (for the brute-force RFC 6811 oracle)
func c16RouteOf(p *Path, rt c16Route) c16Route {
	out := c16Route{pfx: rt.pfx, localAS: rt.localAS, hasAttr: p.GetAsPath() != nil}
	if ap := p.GetAsPath(); ap != nil {
		for _, param := range ap.Value {
			out.segs = append(out.segs, c16Seg{param.GetType(), append([]uint32{}, param.GetAS()...)})
		}
	}
	return out
}

func c16Marks(p *Path) []int {
	var m []int
	for _, c := range p.GetCommunities() {
		if c>>16 == 65000 {
			m = append(m, int(c&0xffff))
		}
	}
	sort.Ints(m)
	return m
}

var c16ChainSeq int

func (s *c16State) chain(ch c16Chain) {
	o := s.o
	logger := slog.New(slog.DiscardHandler)
	c16ChainSeq++
	// ---- build the real policies ----
	var pds []oc.PolicyDefinition
	k := 0
	for pi, n := range ch.split {
		pd := oc.PolicyDefinition{Name: fmt.Sprintf("c16p%d_%d", c16ChainSeq, pi)}
		for j := 0; j < n; j++ {
			st := ch.stmts[k]
			k++
			cs := oc.Statement{Name: fmt.Sprintf("c16s%d_%d", c16ChainSeq, k)}
			cs.Conditions.BgpConditions.RpkiValidationResult = c16CondResult[st.cond]
			cs.Actions.BgpActions.SetCommunity = oc.SetCommunity{Options: "add",
				SetCommunityMethod: oc.SetCommunityMethod{CommunitiesList: []string{fmt.Sprintf("65000:%d", k)}}}
			switch st.prep {
			case 1:
				cs.Actions.BgpActions.SetAsPathPrepend = oc.SetAsPathPrepend{As: fmt.Sprint(st.asn), RepeatN: st.rep}
			case 2:
				cs.Actions.BgpActions.SetAsPathPrepend = oc.SetAsPathPrepend{As: "last-as", RepeatN: st.rep}
			}
			switch st.other {
			case 1:
				cs.Actions.BgpActions.SetMed = "+10"
			case 2:
				cs.Actions.BgpActions.SetLocalPref = 333
			case 3:
				cs.Actions.BgpActions.SetNextHop = "192.0.2.77"
			case 4:
				cs.Actions.BgpActions.SetRouteOrigin = oc.BGP_ORIGIN_ATTR_TYPE_INCOMPLETE
			}
			switch st.disp {
			case 1:
				cs.Actions.RouteDisposition = oc.ROUTE_DISPOSITION_ACCEPT_ROUTE
			case 2:
				cs.Actions.RouteDisposition = oc.ROUTE_DISPOSITION_REJECT_ROUTE
			}
			pd.Statements = append(pd.Statements, cs)
		}
		pds = append(pds, pd)
	}
	rp := NewRoutingPolicy(logger)
	if err := rp.reload(oc.RoutingPolicy{PolicyDefinitions: pds}); err != nil {
		s.o.t.Fatalf("policy reload: %v", err)
	}
	refs := make([]*oc.PolicyDefinition, len(pds))
	for i := range pds {
		refs[i] = &pds[i]
	}
	if err := rp.SetPolicyAssignment("c16", POLICY_DIRECTION_IMPORT, refs, ROUTE_TYPE_ACCEPT); err != nil {
		s.o.t.Fatalf("policy assignment: %v", err)
	}
	info := &PeerInfo{LocalAS: ch.rt.localAS, AS: 64999, Confederation: ch.confed}
	mkOptions := func() *PolicyOptions { return &PolicyOptions{Info: info, Validate: s.rt.Validate} }

	// ---- the real chain: one ApplyPolicy call ----
	path := ch.rt.path()
	after := rp.ApplyPolicy("c16", POLICY_DIRECTION_IMPORT, path, mkOptions())
	got := "reject"
	if after != nil {
		got = strings.Join(strings.Fields(fmt.Sprintf("marks %s | path %s | accept",
			strings.Trim(fmt.Sprint(c16Marks(after)), "[]"), c16ShowPath(after))), " ")
	}

	// ---- oracle: every statement on its own, with fresh options, on the route as modified so far;
	// each validation condition must agree with ROATable.Validate of that route and with RFC 6811 ----
	cur := ch.rt.path()
	want, ended := "", false
	k = 0
	for pi := range pds {
		pol := rp.policyMap[pds[pi].Name]
		for _, stmt := range pol.Statements {
			st := ch.stmts[k]
			k++
			hitWant := true
			if st.cond != 0 {
				v := s.rt.Validate(cur)
				hitWant = v != nil && v.Status == c16CondResult[st.cond]
				if spec, ok := c16SpecStatus(s.truth, c16RouteOf(cur, ch.rt)); ok && v != nil && spec != v.Status {
					o.fail("rfc6811-status", map[string]any{"ops": append([]string{}, s.trace...), "chain": ch.line(), "statement": k,
						"got": string(v.Status), "rfc6811": string(spec)})
				}
				o.stat(fmt.Sprintf("chain_cond_%s_%v", c16CondResult[st.cond], hitWant), 1)
			}
			if hit := stmt.Evaluate(cur, mkOptions()); hit != hitWant {
				o.fail("rpki-condition-verdict", map[string]any{"ops": append([]string{}, s.trace...), "chain": ch.line(), "statement": k,
					"condition_says": hit, "validate_of_the_route_says": hitWant})
			}
			before := s.rt.Validate(cur)
			res, next := stmt.Apply(logger, cur, mkOptions())
			if hitWant && st.prep != 0 {
				if a := s.rt.Validate(next); before != nil && a != nil && a.Status != before.Status {
					o.stat("chain_modification_changes_verdict", 1)
				}
			}
			cur = next
			if res != ROUTE_TYPE_NONE {
				ended = true
				if res == ROUTE_TYPE_REJECT {
					want = "reject"
				}
				break
			}
		}
		if ended {
			break
		}
	}
	if want == "" {
		want = strings.Join(strings.Fields(fmt.Sprintf("marks %s | path %s | accept",
			strings.Trim(fmt.Sprint(c16Marks(cur)), "[]"), c16ShowPath(cur))), " ")
	}
	if got != want {
		o.fail("policy-verdict-stale-after-modification", map[string]any{"ops": append([]string{}, s.trace...), "chain": ch.line(),
			"one_ApplyPolicy_call": got, "statement_by_statement_on_the_route_as_modified": want})
	}
	if got == "reject" {
		got = "marks | path | reject" // a rejected route shows neither marks nor path
	}
	o.ask(got, "%s", ch.line())
	o.stat("chain", 1)
	o.stat(fmt.Sprintf("chain_policies_%d", len(ch.split)), 1)
}

func c16Bucket(n int) string {
	switch {
	case n == 0:
		return "0"
	case n <= 4:
		return "1-4"
	case n <= 12:
		return "5-12"
	}
	return "13+"
}
