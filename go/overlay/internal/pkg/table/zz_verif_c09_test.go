//go:build verif

package table

// C09 correspondence harness, part 1 (package table): drives the real UpdatePathAttrs and the
// path mutators it is made of (PrependAsn, RemovePrivateAS, removeConfedAs, SetNexthop, ReplaceAS,
// RemoveLocalPref) and the copy-on-write overlay readers (getPathAttr, GetPathAttrs) over generated
// overlay paths x target peers.  Every answer is compared line by line with the Lean model
// (Model/Export.lean).  Independently of the model it restates the per-peer-type clauses of the
// property on the produced path, and checks that the stored path (and every earlier copy) is
// byte-for-byte what it was before the call (aliasing detector: all slices carry spare capacity).

import (
	"encoding/hex"
	"fmt"
	"io"
	"log/slog"
	"math/big"
	"net/netip"
	"slices"
	"strings"
	"testing"
	"time"
	"unsafe"

	"github.com/osrg/gobgp/v4/pkg/config/oc"
	"github.com/osrg/gobgp/v4/pkg/packet/bgp"
)

// ---------- encoding shared by definition lines and answers ----------

func c09Addr(a netip.Addr) (int, string) {
	if !a.IsValid() {
		return 0, "0"
	}
	if a.Is4() {
		b := a.As4()
		return 4, new(big.Int).SetBytes(b[:]).String()
	}
	b := a.As16()
	return 6, new(big.Int).SetBytes(b[:]).String()
}

func c09AddrDef(a netip.Addr) string { k, v := c09Addr(a); return fmt.Sprintf("%d %s", k, v) }
func c09AddrR(a netip.Addr) string   { k, v := c09Addr(a); return fmt.Sprintf("%d:%s", k, v) }

func c09V4(a netip.Addr) string { _, v := c09Addr(a); return v }

func c09Hex(b []byte) string {
	if len(b) == 0 {
		return "-"
	}
	return hex.EncodeToString(b)
}

func c09NlriTok(l []bgp.PathNLRI) string {
	var sb strings.Builder
	for _, n := range l {
		fmt.Fprintf(&sb, "%s#%d;", n.NLRI.String(), n.ID)
	}
	return c09Hex([]byte(sb.String()))
}

func c09U32s(l []uint32) string {
	s := make([]string, len(l))
	for i, v := range l {
		s[i] = fmt.Sprint(v)
	}
	return strings.Join(s, ",")
}

func c09U32Def(l []uint32) string {
	var sb strings.Builder
	fmt.Fprintf(&sb, "%d", len(l))
	for _, v := range l {
		fmt.Fprintf(&sb, " %d", v)
	}
	return sb.String()
}

// c09AttrDef: "typ flags KIND payload…" (definition side)
func c09AttrDef(a bgp.PathAttributeInterface) string {
	h := fmt.Sprintf("%d %d ", uint8(a.GetType()), uint8(a.GetFlags()))
	switch v := a.(type) {
	case *bgp.PathAttributeAsPath:
		var sb strings.Builder
		fmt.Fprintf(&sb, "P %d", len(v.Value))
		for _, p := range v.Value {
			fmt.Fprintf(&sb, " %d %s", p.GetType(), c09U32Def(p.GetAS()))
		}
		return h + sb.String()
	case *bgp.PathAttributeNextHop:
		return h + "N " + c09AddrDef(v.Value)
	case *bgp.PathAttributeMpReachNLRI:
		return h + fmt.Sprintf("M %d %s %s %s", uint32(bgp.NewFamily(v.AFI, v.SAFI)), c09AddrDef(v.Nexthop), c09AddrDef(v.LinkLocalNexthop), c09NlriTok(v.Value))
	case *bgp.PathAttributeOrigin:
		return h + fmt.Sprintf("V %d", v.Value)
	case *bgp.PathAttributeMultiExitDisc:
		return h + fmt.Sprintf("V %d", v.Value)
	case *bgp.PathAttributeLocalPref:
		return h + fmt.Sprintf("V %d", v.Value)
	case *bgp.PathAttributeOriginatorId:
		return h + "O " + c09AddrDef(v.Value)
	case *bgp.PathAttributeClusterList:
		var sb strings.Builder
		fmt.Fprintf(&sb, "C %d", len(v.Value))
		for _, c := range v.Value {
			sb.WriteString(" " + c09V4(c))
		}
		return h + sb.String()
	case *bgp.PathAttributeCommunities:
		return h + "K " + c09U32Def(v.Value)
	case *bgp.PathAttributeUnknown:
		return h + "R " + c09Hex(v.Value)
	}
	b, _ := a.Serialize()
	return h + "R " + c09Hex(b)
}

// c09AttrR: answer side rendering of one attribute
func c09AttrR(a bgp.PathAttributeInterface) string {
	h := fmt.Sprintf("%d=", uint8(a.GetType()))
	switch v := a.(type) {
	case *bgp.PathAttributeAsPath:
		segs := make([]string, len(v.Value))
		for i, p := range v.Value {
			segs[i] = fmt.Sprintf("%d:%s", p.GetType(), c09U32s(p.GetAS()))
		}
		return h + "P" + strings.Join(segs, "/")
	case *bgp.PathAttributeNextHop:
		return h + "N" + c09AddrR(v.Value)
	case *bgp.PathAttributeMpReachNLRI:
		return h + fmt.Sprintf("M%d:%s:%s:%s", uint32(bgp.NewFamily(v.AFI, v.SAFI)), c09AddrR(v.Nexthop), c09AddrR(v.LinkLocalNexthop), c09NlriTok(v.Value))
	case *bgp.PathAttributeOrigin:
		return h + fmt.Sprintf("V%d", v.Value)
	case *bgp.PathAttributeMultiExitDisc:
		return h + fmt.Sprintf("V%d", v.Value)
	case *bgp.PathAttributeLocalPref:
		return h + fmt.Sprintf("V%d", v.Value)
	case *bgp.PathAttributeOriginatorId:
		return h + "O" + c09AddrR(v.Value)
	case *bgp.PathAttributeClusterList:
		s := make([]string, len(v.Value))
		for i, c := range v.Value {
			s[i] = c09V4(c)
		}
		return h + "C" + strings.Join(s, ",")
	case *bgp.PathAttributeCommunities:
		return h + "K" + c09U32s(v.Value)
	case *bgp.PathAttributeUnknown:
		return h + fmt.Sprintf("R%d:%s", uint8(a.GetFlags()), c09Hex(v.Value))
	}
	b, _ := a.Serialize()
	return h + fmt.Sprintf("R%d:%s", uint8(a.GetFlags()), c09Hex(b))
}

func c09AttrsR(l []bgp.PathAttributeInterface) string {
	s := make([]string, len(l))
	for i, a := range l {
		s[i] = c09AttrR(a)
	}
	return strings.Join(s, ";")
}

func c09LayerDef(p *Path) string {
	var sb strings.Builder
	fmt.Fprintf(&sb, "%d", len(p.pathAttrs))
	for _, a := range p.pathAttrs {
		sb.WriteString(" " + c09AttrDef(a))
	}
	fmt.Fprintf(&sb, " %d", len(p.dels))
	for _, d := range p.dels {
		fmt.Fprintf(&sb, " %d", uint8(d))
	}
	return sb.String()
}

func c09B(x bool) int {
	if x {
		return 1
	}
	return 0
}

// c09PathDef serialises the whole parent chain: it is both the definition line for the model
// and the snapshot used to detect any change of a stored path.
func c09PathDef(p *Path) string {
	var sb strings.Builder
	s := p.GetSource()
	fmt.Fprintf(&sb, "%d %s %s %s %d %d %d %s", s.AS, c09AddrDef(s.ID), c09AddrDef(s.LocalID), c09AddrDef(s.Address),
		c09B(s.RouteReflectorClient), uint32(p.GetFamily()), c09B(p.IsWithdraw),
		c09NlriTok([]bgp.PathNLRI{{NLRI: p.GetNlri(), ID: p.localID}}))
	n := 0
	for q := p; q.parent != nil; q = q.parent {
		n++
	}
	fmt.Fprintf(&sb, " %d", n)
	for q := p; ; q = q.parent {
		sb.WriteString(" " + c09LayerDef(q))
		if q.parent == nil {
			break
		}
	}
	return sb.String()
}

func c09PathR(p *Path) string {
	n := 0
	for q := p; q.parent != nil; q = q.parent {
		n++
	}
	ts := make([]string, len(p.pathAttrs))
	for i, a := range p.pathAttrs {
		ts[i] = fmt.Sprint(uint8(a.GetType()))
	}
	ds := make([]string, len(p.dels))
	for i, d := range p.dels {
		ds[i] = fmt.Sprint(uint8(d))
	}
	return fmt.Sprintf("w%d o%d T[%s] D[%s] | %s", c09B(p.IsWithdraw), n, strings.Join(ts, ","), strings.Join(ds, ","), c09AttrsR(p.GetPathAttrs()))
}

func c09PeerDef(info *PeerInfo) string {
	pt := 2
	switch info.PeerType {
	case oc.PEER_TYPE_INTERNAL:
		pt = 0
	case oc.PEER_TYPE_EXTERNAL:
		pt = 1
	}
	rp := 0
	switch info.RemovePrivateAs {
	case oc.REMOVE_PRIVATE_AS_OPTION_ALL:
		rp = 1
	case oc.REMOVE_PRIVATE_AS_OPTION_REPLACE:
		rp = 2
	}
	// the server-side fields are not read by the table-level functions
	return fmt.Sprintf("peer %d %d %d %s %d %s %d %d %s %s 0 0 1 1", pt, info.AS, info.LocalAS, c09AddrDef(info.LocalAddress),
		c09B(info.RouteReflectorClient), c09V4(info.RouteReflectorClusterID), c09B(info.RouteServerClient), rp,
		c09AddrDef(info.ID), c09AddrDef(info.Address))
}

func c09GlobalDef(g *oc.Global) string {
	return fmt.Sprintf("g %d %s %d %d %s", g.Config.As, c09AddrDef(g.Config.RouterId), c09B(g.Confederation.Config.Enabled),
		g.Confederation.Config.Identifier, c09U32Def(g.Confederation.Config.MemberAsList))
}

// ---------- generator ----------

var c09ASPool = []uint32{100, 200, 300, 70000, 64512, 65000, 65001, 65002, 65534, 4200000000, 4294967294, 64511, 65535, 4199999999, 4294967295, 23456, 0, 261208, 130048, 131070, 65536, 4200000000 + 100, 196607}

type c09Gen struct {
	r *vRand
}

func (g *c09Gen) as() uint32 { return c09ASPool[g.r.intn(len(c09ASPool))] }

// spare capacity on every slice so that an in-place append would be visible
func c09Spare[T any](l []T) []T {
	out := make([]T, len(l), len(l)+3)
	copy(out, l)
	return out
}

func (g *c09Gen) v4() netip.Addr {
	switch g.r.intn(10) {
	case 0:
		return netip.AddrFrom4([4]byte{0, 0, 0, 0})
	case 1:
		return netip.AddrFrom4([4]byte{255, 255, 255, 255})
	}
	return netip.AddrFrom4([4]byte{10, 0, byte(g.r.intn(3)), byte(1 + g.r.intn(6))})
}

func (g *c09Gen) v4nz() netip.Addr {
	return netip.AddrFrom4([4]byte{10, 0, byte(g.r.intn(3)), byte(1 + g.r.intn(6))})
}

func (g *c09Gen) v6() netip.Addr {
	if g.r.chance(12) {
		return netip.IPv6Unspecified()
	}
	b := [16]byte{0x20, 0x01, 0x0d, 0xb8}
	b[15] = byte(1 + g.r.intn(6))
	b[7] = byte(g.r.intn(2))
	return netip.AddrFrom16(b)
}

func (g *c09Gen) ll6() netip.Addr {
	b := [16]byte{0xfe, 0x80}
	b[15] = byte(1 + g.r.intn(6))
	return netip.AddrFrom16(b)
}

func (g *c09Gen) asPath() *bgp.PathAttributeAsPath {
	n := g.r.pick(0, 1, 1, 1, 2, 2, 3, 4)
	params := make([]bgp.AsPathParamInterface, 0, n+3)
	for i := 0; i < n; i++ {
		typ := uint8(g.r.pick(2, 2, 2, 2, 2, 1, 1, 3, 3, 4))
		m := g.r.pick(0, 1, 1, 2, 2, 3, 4, 5)
		if i == 0 && g.r.chance(8) {
			m = g.r.pick(253, 254, 255, 255)
		}
		as := make([]uint32, m, m+3)
		for j := range as {
			as[j] = g.as()
		}
		params = append(params, bgp.NewAs4PathParam(typ, as))
	}
	return bgp.NewPathAttributeAsPath(params)
}

var c09UnknownTypes = []uint8{11, 12, 13, 19, 20, 21, 24, 27, 28, 30, 31, 33, 99, 128, 200, 255}
var c09OpaqueKnown = []uint8{6, 7, 16, 17, 18, 22, 23, 25, 26, 29, 32, 40, 15}
var c09Flags = []uint8{0x80, 0x80, 0xC0, 0xC0, 0xE0, 0x40, 0x00, 0xA0}

func (g *c09Gen) rawAttr(typ uint8) bgp.PathAttributeInterface {
	val := make([]byte, g.r.intn(5), 8)
	for i := range val {
		val[i] = byte(g.r.intn(256))
	}
	return bgp.NewPathAttributeUnknown(bgp.BGPAttrFlag(c09Flags[g.r.intn(len(c09Flags))]), bgp.BGPAttrType(typ), val)
}

func (g *c09Gen) nlri(family bgp.Family) bgp.NLRI {
	switch family {
	case bgp.RF_IPv6_UC:
		n, _ := bgp.NewIPAddrPrefix(netip.MustParsePrefix(fmt.Sprintf("2001:db8:%d::/48", g.r.intn(4))))
		return n
	case bgp.RF_RTC_UC:
		return bgp.NewRouteTargetMembershipNLRI(uint32(65000+g.r.intn(2)), bgp.NewTwoOctetAsSpecificExtended(bgp.EC_SUBTYPE_ROUTE_TARGET, 65000, uint32(100+g.r.intn(3)), true))
	}
	n, _ := bgp.NewIPAddrPrefix(netip.MustParsePrefix(fmt.Sprintf("10.%d.0.0/16", g.r.intn(4))))
	return n
}

// attr of a given type with a fresh random value (nil when the type needs context we lack)
func (g *c09Gen) attrOf(typ uint8, family bgp.Family, nl bgp.NLRI, clusterID netip.Addr) bgp.PathAttributeInterface {
	switch bgp.BGPAttrType(typ) {
	case bgp.BGP_ATTR_TYPE_ORIGIN:
		return bgp.NewPathAttributeOrigin(uint8(g.r.intn(3)))
	case bgp.BGP_ATTR_TYPE_AS_PATH:
		return g.asPath()
	case bgp.BGP_ATTR_TYPE_NEXT_HOP:
		a, _ := bgp.NewPathAttributeNextHop(g.v4())
		return a
	case bgp.BGP_ATTR_TYPE_MULTI_EXIT_DISC:
		return bgp.NewPathAttributeMultiExitDisc(uint32(g.r.pick(0, 10, 4294967295)))
	case bgp.BGP_ATTR_TYPE_LOCAL_PREF:
		return bgp.NewPathAttributeLocalPref(uint32(g.r.pick(0, 100, 200, 4294967295)))
	case bgp.BGP_ATTR_TYPE_COMMUNITIES:
		n := g.r.intn(4)
		cs := make([]uint32, n, n+3)
		for i := range cs {
			cs[i] = uint32(g.r.pick(65000<<16|1, 100<<16|7, int(bgp.COMMUNITY_LLGR_STALE), int(bgp.COMMUNITY_NO_LLGR), int(bgp.COMMUNITY_NO_EXPORT)))
		}
		return bgp.NewPathAttributeCommunities(cs)
	case bgp.BGP_ATTR_TYPE_ORIGINATOR_ID:
		a, _ := bgp.NewPathAttributeOriginatorId(g.v4())
		return a
	case bgp.BGP_ATTR_TYPE_CLUSTER_LIST:
		n := g.r.intn(4)
		cl := make([]netip.Addr, n, n+3)
		for i := range cl {
			if g.r.chance(25) && clusterID.Is4() {
				cl[i] = clusterID
			} else {
				cl[i] = g.v4()
			}
		}
		a, _ := bgp.NewPathAttributeClusterList(cl)
		a.Value = c09Spare(a.Value)
		return a
	case bgp.BGP_ATTR_TYPE_MP_REACH_NLRI:
		nls := c09Spare([]bgp.PathNLRI{{NLRI: nl, ID: uint32(g.r.intn(3))}})
		var a *bgp.PathAttributeMpReachNLRI
		switch {
		case g.r.chance(25):
			a, _ = bgp.NewPathAttributeMpReachNLRI(family, nls, g.v6(), g.ll6())
		case g.r.chance(15):
			a, _ = bgp.NewPathAttributeMpReachNLRI(family, nls, g.v4())
		default:
			a, _ = bgp.NewPathAttributeMpReachNLRI(family, nls, g.v6())
		}
		return a
	}
	return g.rawAttr(typ)
}

type c09Case struct {
	path      *Path
	clusterID netip.Addr
}

func (g *c09Gen) source() *PeerInfo {
	if g.r.chance(25) {
		return nil // local
	}
	as := g.as()
	las := g.as()
	if g.r.chance(50) {
		las = as
	}
	id := g.v4nz()
	if g.r.chance(5) {
		id = netip.Addr{}
	}
	lid := g.v4nz()
	if g.r.chance(5) {
		lid = g.v6()
	}
	return &PeerInfo{AS: as, LocalAS: las, ID: id, LocalID: lid, Address: g.v4nz(), RouteReflectorClient: g.r.chance(30)}
}

func (g *c09Gen) path(clusterID netip.Addr) *Path {
	family := bgp.Family(bgp.RF_IPv4_UC)
	switch g.r.intn(20) {
	case 0, 1, 2, 3, 4:
		family = bgp.RF_IPv6_UC
	case 5, 6:
		family = bgp.RF_RTC_UC
	case 7:
		family = bgp.RF_IPv4_MC
	}
	nl := g.nlri(family)
	withdraw := g.r.chance(6)
	// root attributes, unique types, in type order
	types := []uint8{}
	add := func(pct int, t uint8) {
		if g.r.chance(pct) {
			types = append(types, t)
		}
	}
	add(90, 1)
	add(85, 2)
	if family == bgp.RF_IPv4_UC {
		add(85, 3)
	} else {
		add(10, 3)
	}
	add(40, 4)
	add(50, 5)
	add(10, 6)
	add(10, 7)
	add(40, 8)
	add(25, 9)
	add(25, 10)
	if family != bgp.RF_IPv4_UC {
		add(85, 14)
	} else {
		add(8, 14)
	}
	add(12, 16)
	add(8, 26)
	add(8, 32)
	for _, t := range c09UnknownTypes {
		add(6, t)
	}
	slices.Sort(types)
	if g.r.chance(8) {
		p := g.r.perm(len(types))
		sh := make([]uint8, len(types))
		for i, j := range p {
			sh[i] = types[j]
		}
		types = sh
	}
	attrs := make([]bgp.PathAttributeInterface, 0, len(types)+3)
	for _, t := range types {
		attrs = append(attrs, g.attrOf(t, family, nl, clusterID))
	}
	if withdraw && g.r.chance(50) {
		attrs = nil
	}
	p := NewPath(family, g.source(), bgp.PathNLRI{NLRI: nl, ID: uint32(g.r.intn(3))}, withdraw, attrs, time.Unix(1, 0), false)
	p.localID = uint32(g.r.intn(3))
	if g.r.chance(4) {
		p.dels = c09Spare([]bgp.BGPAttrType{bgp.BGPAttrType(g.r.pick(2, 4, 5, 8, 9))})
	}
	// clone layers (what import policy, ReplaceAS, earlier rewrites leave behind)
	nOver := g.r.pick(0, 0, 0, 1, 1, 2, 3)
	layerTypes := []int{2, 3, 4, 5, 8, 9, 10, 14, 16, 99, 128, 200, 1}
	for i := 0; i < nOver; i++ {
		p = p.Clone(withdraw)
		na := g.r.pick(0, 1, 1, 2, 3)
		seen := map[uint8]bool{}
		la := make([]bgp.PathAttributeInterface, 0, na+3)
		for j := 0; j < na; j++ {
			t := uint8(layerTypes[g.r.intn(len(layerTypes))])
			if seen[t] {
				continue
			}
			seen[t] = true
			la = append(la, g.attrOf(t, family, nl, clusterID))
		}
		if len(la) > 0 {
			p.pathAttrs = la
		}
		nd := g.r.pick(0, 0, 0, 1, 1, 2)
		ld := make([]bgp.BGPAttrType, 0, nd+3)
		for j := 0; j < nd; j++ {
			ld = append(ld, bgp.BGPAttrType(layerTypes[g.r.intn(len(layerTypes))]))
		}
		if len(ld) > 0 {
			p.dels = ld
		}
	}
	return p
}

func (g *c09Gen) global() *oc.Global {
	gl := &oc.Global{}
	gl.Config.As = 65000
	gl.Config.RouterId = g.v4nz()
	if g.r.chance(4) {
		gl.Config.RouterId = netip.Addr{}
	}
	n := g.r.pick(0, 0, 1, 2, 3)
	for i := 0; i < n; i++ {
		gl.Confederation.Config.MemberAsList = append(gl.Confederation.Config.MemberAsList, g.as())
	}
	if n > 0 {
		gl.Confederation.Config.Enabled = true
		gl.Confederation.Config.Identifier = g.as()
	}
	return gl
}

func (g *c09Gen) peer(gl *oc.Global, clusterID netip.Addr) *PeerInfo {
	info := &PeerInfo{AS: g.as(), LocalAS: g.as(), ID: g.v4nz(), Address: g.v4nz(), LocalID: gl.Config.RouterId}
	switch g.r.intn(20) {
	case 0:
		info.PeerType = ""
	case 1, 2, 3, 4, 5, 6, 7, 8, 9:
		info.PeerType = oc.PEER_TYPE_INTERNAL
	default:
		info.PeerType = oc.PEER_TYPE_EXTERNAL
	}
	if info.PeerType == oc.PEER_TYPE_EXTERNAL && len(gl.Confederation.Config.MemberAsList) > 0 && g.r.chance(50) {
		info.AS = gl.Confederation.Config.MemberAsList[g.r.intn(len(gl.Confederation.Config.MemberAsList))]
	}
	info.LocalAddress = g.v4nz()
	if g.r.chance(25) {
		info.LocalAddress = g.v6()
		if info.LocalAddress.IsUnspecified() {
			info.LocalAddress = g.ll6()
		}
	}
	info.RouteReflectorClient = g.r.chance(45)
	info.RouteReflectorClusterID = clusterID
	info.RouteServerClient = g.r.chance(8)
	switch g.r.intn(4) {
	case 0:
		info.RemovePrivateAs = oc.REMOVE_PRIVATE_AS_OPTION_ALL
	case 1:
		info.RemovePrivateAs = oc.REMOVE_PRIVATE_AS_OPTION_REPLACE
	}
	info.Confederation = gl.IsConfederationMember(info.AS)
	return info
}

// ---------- model-independent restatement of the property (oracle) ----------

type c09Pair struct {
	typ uint8
	as  uint32
}

func c09Pairs(a *bgp.PathAttributeAsPath) []c09Pair {
	out := []c09Pair{}
	if a == nil {
		return out
	}
	for _, p := range a.Value {
		for _, as := range p.GetAS() {
			out = append(out, c09Pair{p.GetType(), as})
		}
	}
	return out
}

func c09Private(as uint32) bool {
	return (as >= 64512 && as <= 65534) || (as >= 4200000000 && as <= 4294967294)
}

func c09Find(l []bgp.PathAttributeInterface, t bgp.BGPAttrType) bgp.PathAttributeInterface {
	for _, a := range l {
		if a.GetType() == t {
			return a
		}
	}
	return nil
}

func c09NH(l []bgp.PathAttributeInterface) netip.Addr {
	if a := c09Find(l, bgp.BGP_ATTR_TYPE_NEXT_HOP); a != nil {
		return a.(*bgp.PathAttributeNextHop).Value
	}
	if a := c09Find(l, bgp.BGP_ATTR_TYPE_MP_REACH_NLRI); a != nil {
		return a.(*bgp.PathAttributeMpReachNLRI).Nexthop
	}
	return netip.Addr{}
}

func c09IsUnknownNonTransitive(a bgp.PathAttributeInterface) bool {
	_, known := bgp.PathAttrFlags[a.GetType()]
	return !known && a.GetFlags()&bgp.BGP_ATTR_FLAG_TRANSITIVE == 0
}

// c09Oracle restates the rewriting clauses on (in, out) and returns the violated clause names.
func c09Oracle(gl *oc.Global, info *PeerInfo, in *Path, inAttrs []bgp.PathAttributeInterface, out *Path, o *vOut) []string {
	bad := []string{}
	if info.RouteServerClient {
		if out != in {
			bad = append(bad, "rs-client:not-identity")
		}
		return bad
	}
	if out == in {
		return []string{"copy:result-is-the-stored-path"}
	}
	oa := out.GetPathAttrs()
	local := !in.GetSource().Address.IsValid()
	inNH := c09NH(inAttrs)
	hasNHAttr := c09Find(inAttrs, bgp.BGP_ATTR_TYPE_NEXT_HOP) != nil || c09Find(inAttrs, bgp.BGP_ATTR_TYPE_MP_REACH_NLRI) != nil
	canSetNH := hasNHAttr || (in.GetFamily() == bgp.RF_IPv4_UC && info.LocalAddress.Is6())
	var inAs, outAs *bgp.PathAttributeAsPath
	if a := c09Find(inAttrs, bgp.BGP_ATTR_TYPE_AS_PATH); a != nil {
		inAs = a.(*bgp.PathAttributeAsPath)
	}
	if a := c09Find(oa, bgp.BGP_ATTR_TYPE_AS_PATH); a != nil {
		outAs = a.(*bgp.PathAttributeAsPath)
	}
	for _, a := range oa {
		if c09IsUnknownNonTransitive(a) {
			bad = append(bad, "strip:unknown-non-transitive-kept")
			break
		}
	}
	// attributes the rewriting has no business with must be the very same objects
	touched := map[bgp.BGPAttrType]bool{bgp.BGP_ATTR_TYPE_AS_PATH: true, bgp.BGP_ATTR_TYPE_NEXT_HOP: true, bgp.BGP_ATTR_TYPE_MP_REACH_NLRI: true,
		bgp.BGP_ATTR_TYPE_MULTI_EXIT_DISC: true, bgp.BGP_ATTR_TYPE_LOCAL_PREF: true, bgp.BGP_ATTR_TYPE_ORIGINATOR_ID: true, bgp.BGP_ATTR_TYPE_CLUSTER_LIST: true}
	for _, a := range inAttrs {
		if touched[a.GetType()] || c09IsUnknownNonTransitive(a) {
			continue
		}
		if c09Find(oa, a.GetType()) != a {
			bad = append(bad, "passthrough:attribute-lost-or-changed")
			break
		}
	}
	for _, a := range oa {
		if !touched[a.GetType()] && c09Find(inAttrs, a.GetType()) == nil {
			bad = append(bad, "passthrough:attribute-invented")
			break
		}
	}
	switch info.PeerType {
	case oc.PEER_TYPE_EXTERNAL:
		o.stat("oracle_ebgp", 1)
		confed := slices.Contains(gl.Confederation.Config.MemberAsList, info.AS)
		// expected AS numbers: private-AS processing, confederation segments dropped toward a
		// non-member, local AS in front exactly once
		want := []c09Pair{}
		st := uint8(bgp.BGP_ASPATH_ATTR_TYPE_SEQ)
		if confed {
			st = bgp.BGP_ASPATH_ATTR_TYPE_CONFED_SEQ
		}
		want = append(want, c09Pair{st, info.LocalAS})
		nLocalIn := 0
		for _, pr := range c09Pairs(inAs) {
			if c09Private(pr.as) {
				switch info.RemovePrivateAs {
				case oc.REMOVE_PRIVATE_AS_OPTION_ALL:
					continue
				case oc.REMOVE_PRIVATE_AS_OPTION_REPLACE:
					pr.as = info.LocalAS
				}
			}
			if !confed && (pr.typ == bgp.BGP_ASPATH_ATTR_TYPE_CONFED_SEQ || pr.typ == bgp.BGP_ASPATH_ATTR_TYPE_CONFED_SET) {
				continue
			}
			if pr.as == info.LocalAS {
				nLocalIn++
			}
			want = append(want, pr)
		}
		got := c09Pairs(outAs)
		if outAs == nil || !slices.Equal(got, want) {
			bad = append(bad, "ebgp:as-path-not-local-as-prepended-once")
		} else {
			n := 0
			for _, pr := range got {
				if pr.as == info.LocalAS {
					n++
				}
			}
			if n != nLocalIn+1 {
				bad = append(bad, "ebgp:local-as-count")
			}
		}
		if outAs != nil {
			for _, p := range outAs.Value {
				if len(p.GetAS()) > 255 {
					bad = append(bad, "ebgp:segment-size")
					break
				}
			}
			if len(outAs.Value) > 0 && (outAs.Value[0].GetType() != st || len(outAs.Value[0].GetAS()) == 0 || outAs.Value[0].GetAS()[0] != info.LocalAS) {
				bad = append(bad, "ebgp:first-segment")
			}
			if !confed {
				for _, p := range outAs.Value {
					if t := p.GetType(); t != bgp.BGP_ASPATH_ATTR_TYPE_SEQ && t != bgp.BGP_ASPATH_ATTR_TYPE_SET {
						bad = append(bad, "ebgp:confed-segment-leaked")
						break
					}
				}
			}
		}
		if !local || inNH.IsUnspecified() {
			if canSetNH {
				if c09NH(oa) != info.LocalAddress {
					bad = append(bad, "ebgp:next-hop-not-local-address")
				}
				if a := c09Find(oa, bgp.BGP_ATTR_TYPE_MP_REACH_NLRI); a != nil && a.(*bgp.PathAttributeMpReachNLRI).Nexthop != info.LocalAddress {
					bad = append(bad, "ebgp:mp-next-hop-not-local-address")
				}
			} else {
				o.stat("oracle_no_nexthop_attr", 1)
			}
		} else if c09NH(oa) != inNH {
			bad = append(bad, "ebgp:local-route-next-hop-changed")
		}
		med := c09Find(oa, bgp.BGP_ATTR_TYPE_MULTI_EXIT_DISC)
		if !local && med != nil {
			bad = append(bad, "ebgp:foreign-med-kept")
		}
		if local && med != c09Find(inAttrs, bgp.BGP_ATTR_TYPE_MULTI_EXIT_DISC) {
			bad = append(bad, "ebgp:own-med-changed")
		}
		if c09Find(oa, bgp.BGP_ATTR_TYPE_ORIGINATOR_ID) != nil || c09Find(oa, bgp.BGP_ATTR_TYPE_CLUSTER_LIST) != nil {
			bad = append(bad, "ebgp:rr-attributes-kept")
		}
		if c09Find(oa, bgp.BGP_ATTR_TYPE_LOCAL_PREF) != c09Find(inAttrs, bgp.BGP_ATTR_TYPE_LOCAL_PREF) {
			bad = append(bad, "ebgp:local-pref-touched-by-UpdatePathAttrs")
		}
	case oc.PEER_TYPE_INTERNAL:
		o.stat("oracle_ibgp", 1)
		if inAs != nil {
			if outAs != inAs {
				bad = append(bad, "ibgp:as-path-changed")
			}
		} else if outAs == nil || len(outAs.Value) != 0 {
			bad = append(bad, "ibgp:no-empty-as-path")
		}
		rtcRR := info.RouteReflectorClient && in.GetFamily() == bgp.RF_RTC_UC
		switch {
		case (local && inNH.IsUnspecified()) || rtcRR:
			if canSetNH && c09NH(oa) != info.LocalAddress {
				bad = append(bad, "ibgp:next-hop-not-set-for-local-route")
			}
		default:
			if c09Find(oa, bgp.BGP_ATTR_TYPE_NEXT_HOP) != c09Find(inAttrs, bgp.BGP_ATTR_TYPE_NEXT_HOP) ||
				c09Find(oa, bgp.BGP_ATTR_TYPE_MP_REACH_NLRI) != c09Find(inAttrs, bgp.BGP_ATTR_TYPE_MP_REACH_NLRI) {
				bad = append(bad, "ibgp:next-hop-changed")
			}
		}
		lp := c09Find(oa, bgp.BGP_ATTR_TYPE_LOCAL_PREF)
		if inLp := c09Find(inAttrs, bgp.BGP_ATTR_TYPE_LOCAL_PREF); inLp != nil {
			if lp != inLp {
				bad = append(bad, "ibgp:local-pref-changed")
			}
		} else if lp == nil || lp.(*bgp.PathAttributeLocalPref).Value != 100 {
			bad = append(bad, "ibgp:local-pref-missing")
		}
		if c09Find(oa, bgp.BGP_ATTR_TYPE_MULTI_EXIT_DISC) != c09Find(inAttrs, bgp.BGP_ATTR_TYPE_MULTI_EXIT_DISC) {
			bad = append(bad, "ibgp:med-changed")
		}
		og := c09Find(oa, bgp.BGP_ATTR_TYPE_ORIGINATOR_ID)
		cl := c09Find(oa, bgp.BGP_ATTR_TYPE_CLUSTER_LIST)
		if !info.RouteReflectorClient {
			if og != nil || cl != nil {
				bad = append(bad, "ibgp:rr-attributes-to-non-client")
			}
		} else {
			o.stat("oracle_rr_client", 1)
			inOg := c09Find(inAttrs, bgp.BGP_ATTR_TYPE_ORIGINATOR_ID)
			var want netip.Addr
			switch {
			case rtcRR && local:
				want = gl.Config.RouterId
			case rtcRR:
				want = in.GetSource().LocalID
			case inOg != nil:
				want = inOg.(*bgp.PathAttributeOriginatorId).Value
			case local:
				want = gl.Config.RouterId
			default:
				want = in.GetSource().ID
			}
			switch {
			case want.Is4():
				if og == nil || og.(*bgp.PathAttributeOriginatorId).Value != want {
					bad = append(bad, "rr-client:originator-id")
				}
			case rtcRR && inOg != nil:
				// the stale one stays when no IPv4 id is available
			default:
				if og != nil && inOg == nil {
					bad = append(bad, "rr-client:originator-id-invented")
				}
			}
			wantCl := []netip.Addr{info.RouteReflectorClusterID}
			if a := c09Find(inAttrs, bgp.BGP_ATTR_TYPE_CLUSTER_LIST); a != nil {
				wantCl = append(wantCl, a.(*bgp.PathAttributeClusterList).Value...)
			}
			if cl == nil || !slices.Equal(cl.(*bgp.PathAttributeClusterList).Value, wantCl) {
				bad = append(bad, "rr-client:cluster-list")
			}
		}
	}
	return bad
}

// arrays of the AS_PATH payload reachable from a path (for the sharing statistic)
func c09AsArrays(p *Path) map[*uint32]bool {
	m := map[*uint32]bool{}
	if a := p.GetAsPath(); a != nil {
		for _, prm := range a.Value {
			if l := prm.GetAS(); cap(l) > 0 {
				m[unsafe.SliceData(l)] = true
			}
		}
	}
	return m
}

func c09Guard(f func() string) (s string) {
	defer func() {
		if e := recover(); e != nil {
			s = "panic"
		}
	}()
	return f()
}

// c09Prepend asks the model about PrependAsn on a fresh clone and restates what prepending means:
// the AS numbers of the result are `rep` copies of `asn` followed by the AS numbers of the input.
func c09Prepend(o *vOut, in *Path, asn uint32, rep int, confed bool) {
	var c *Path
	o.ask(c09Guard(func() string { c = in.Clone(in.IsWithdraw); c.PrependAsn(asn, uint8(rep), confed); return c09PathR(c) }),
		"prepend %d %d %d", asn, rep, c09B(confed))
	st := uint8(bgp.BGP_ASPATH_ATTR_TYPE_SEQ)
	if confed {
		st = bgp.BGP_ASPATH_ATTR_TYPE_CONFED_SEQ
	}
	want := []c09Pair{}
	for i := 0; i < rep; i++ {
		want = append(want, c09Pair{st, asn})
	}
	want = append(want, c09Pairs(in.GetAsPath())...)
	if got := c09Pairs(c.GetAsPath()); !slices.Equal(got, want) {
		o.fail("prepend:as-numbers-not-prepended", map[string]any{"path": c09PathDef(in), "asn": asn, "repeat": rep, "confed": confed, "got": c09PathR(c)})
	}
}

// corpus: minimised past disagreements, run before the random stream
func c09Corpus(o *vOut) {
	// PrependAsn(asn, 255, …) onto a path whose first segment has the same type: the spare
	// capacity of the `asns` scratch slice made append() write the old segment over it, so the new
	// leading segment repeated the old ASes instead of `asn`.
	nl, _ := bgp.NewIPAddrPrefix(netip.MustParsePrefix("10.0.0.0/16"))
	nh, _ := bgp.NewPathAttributeNextHop(netip.MustParseAddr("10.0.0.1"))
	attrs := []bgp.PathAttributeInterface{bgp.NewPathAttributeOrigin(0),
		bgp.NewPathAttributeAsPath([]bgp.AsPathParamInterface{bgp.NewAs4PathParam(2, []uint32{64511, 300})}), nh}
	src := &PeerInfo{AS: 64511, LocalAS: 65000, ID: netip.MustParseAddr("10.0.0.2"), LocalID: netip.MustParseAddr("10.0.0.9"), Address: netip.MustParseAddr("10.0.0.2")}
	in := NewPath(bgp.RF_IPv4_UC, src, bgp.PathNLRI{NLRI: nl}, false, attrs, time.Unix(1, 0), false)
	o.op("path %s", c09PathDef(in))
	c09Prepend(o, in, 23456, 255, false)
	c09Prepend(o, in, 23456, 254, false)
	// observation only (outside the model: the wire format cannot carry it): a first segment of 256
	// ASes makes PrependAsn compute uint8(255-256) = 255 and slice its 1-element scratch with it
	big := make([]uint32, 256)
	for i := range big {
		big[i] = 300
	}
	p256 := NewPath(bgp.RF_IPv4_UC, src, bgp.PathNLRI{NLRI: nl}, false, []bgp.PathAttributeInterface{bgp.NewPathAttributeOrigin(0),
		bgp.NewPathAttributeAsPath([]bgp.AsPathParamInterface{bgp.NewAs4PathParam(2, big)}), nh}, time.Unix(1, 0), false)
	if c09Guard(func() string { p256.Clone(false).PrependAsn(65000, 1, false); return "ok" }) == "panic" {
		o.stat("observation_prepend_onto_256_as_segment_panics", 1)
	}
}

func TestVerifC09(t *testing.T) {
	o := vOpen(t)
	defer o.close()
	r := &vRand{s: o.seed*7919 + 9}
	g := &c09Gen{r: r}
	logger := slog.New(slog.NewTextHandler(io.Discard, nil))

	// the domain of bgp.PathAttrFlags, complete
	for ty := 0; ty < 256; ty++ {
		_, y := bgp.PathAttrFlags[bgp.BGPAttrType(ty)]
		o.ask(fmt.Sprint(c09B(y)), "known %d", ty)
	}

	c09Corpus(o)

	// Go's append vs the heap model's goAppend (Model/GoSlice.lean): in place iff len+n <= cap,
	// and what the old array holds afterwards
	for cp := 0; cp <= 6; cp++ {
		for ln := 0; ln <= cp; ln++ {
			for n := 0; n <= 4; n++ {
				arr := make([]uint32, cp)
				for i := range arr {
					arr[i] = uint32(i + 1)
				}
				s := arr[:ln]
				vals := make([]uint32, n)
				for i := range vals {
					vals[i] = uint32(101 + i)
				}
				res := append(s, vals...)
				where := "realloc"
				if cp > 0 && unsafe.SliceData(res) == unsafe.SliceData(arr) {
					where = "inplace"
				}
				if cp == 0 && n == 0 {
					where = "inplace" // nothing written, nothing allocated
				}
				o.ask(fmt.Sprintf("%s | %s | %s", where, c09U32s(arr), c09U32s(res)), "goappend %d %d %d", cp, ln, n)
			}
		}
	}
	// setPathAttr / delPathAttr on a fresh clone vs the heap model's runOps
	{
		nl, _ := bgp.NewIPAddrPrefix(netip.MustParsePrefix("10.0.0.0/16"))
		root := NewPath(bgp.RF_IPv4_UC, nil, bgp.PathNLRI{NLRI: nl}, false, []bgp.PathAttributeInterface{bgp.NewPathAttributeOrigin(0)}, time.Unix(1, 0), false)
		for i := 0; i < 400; i++ {
			c := root.Clone(false)
			var sb strings.Builder
			n := r.intn(9)
			for j := 0; j < n; j++ {
				ty := uint8(r.pick(2, 3, 4, 5, 8, 99))
				if r.chance(70) {
					id := r.intn(200)
					c.setPathAttr(bgp.NewPathAttributeUnknown(0xC0, bgp.BGPAttrType(ty), []byte{byte(id)}))
					fmt.Fprintf(&sb, " s %d", int(ty)*1000+id)
				} else {
					c.delPathAttr(bgp.BGPAttrType(ty))
					fmt.Fprintf(&sb, " d %d", ty)
				}
			}
			hs := make([]string, len(c.pathAttrs))
			for k, a := range c.pathAttrs {
				hs[k] = fmt.Sprint(int(a.GetType())*1000 + int(a.(*bgp.PathAttributeUnknown).Value[0]))
			}
			ds := make([]string, len(c.dels))
			for k, d := range c.dels {
				ds[k] = fmt.Sprint(uint8(d))
			}
			o.ask(fmt.Sprintf("T[%s] D[%s]", strings.Join(hs, ","), strings.Join(ds, ",")), "nodeops%s", sb.String())
		}
	}

	nCases := 2500
	if o.thorough {
		nCases = 15000
	}
	for ci := 0; ci < nCases; ci++ {
		gl := g.global()
		clusterID := g.v4nz()
		in := g.path(clusterID)
		o.op("%s", c09GlobalDef(gl))
		def := c09PathDef(in)
		o.op("path %s", def)
		if ci < 3 {
			o.sample("path " + def)
		}
		if in.parent == nil {
			o.stat("path_root_only", 1)
		} else {
			o.stat("path_layered", 1)
		}
		if in.IsLocal() {
			o.stat("src_local", 1)
		} else if in.GetSource().RouteReflectorClient {
			o.stat("src_rr_client", 1)
		} else {
			o.stat("src_peer", 1)
		}
		o.stat("family_"+in.GetFamily().String(), 1)

		// overlay readers
		inAttrs := in.GetPathAttrs()
		o.ask(c09AttrsR(inAttrs), "attrs")
		for _, ty := range []int{2, 3, 5, 9, 10, 14, r.pick(1, 4, 8, 16, 99, 128, 200)} {
			if a := in.getPathAttr(bgp.BGPAttrType(ty)); a != nil {
				o.ask(c09AttrR(a), "get %d", ty)
			} else {
				o.ask("nil", "get %d", ty)
			}
		}

		// single mutators, each on a fresh clone of the stored path
		check := func(what string) {
			if now := c09PathDef(in); now != def {
				o.fail("stored-route-altered:"+what, map[string]any{"before": def, "after": now})
				def = now
			}
		}
		{
			asn, rep, confed := g.as(), r.pick(0, 1, 1, 1, 2, 3, 254, 255), r.chance(30)
			c09Prepend(o, in, asn, rep, confed)
			check("PrependAsn")
			las, opt := g.as(), r.intn(3)
			ropt := oc.RemovePrivateAsOption("")
			if opt == 1 {
				ropt = oc.REMOVE_PRIVATE_AS_OPTION_ALL
			} else if opt == 2 {
				ropt = oc.REMOVE_PRIVATE_AS_OPTION_REPLACE
			}
			o.ask(c09Guard(func() string { c := in.Clone(in.IsWithdraw); c.RemovePrivateAS(las, ropt); return c09PathR(c) }), "rmpriv %d %d", las, opt)
			check("RemovePrivateAS")
			o.ask(c09Guard(func() string { c := in.Clone(in.IsWithdraw); c.removeConfedAs(); return c09PathR(c) }), "rmconfed")
			check("removeConfedAs")
			nh := g.v4()
			if r.chance(35) {
				nh = g.v6()
			}
			o.ask(c09Guard(func() string { c := in.Clone(in.IsWithdraw); c.SetNexthop(nh); return c09PathR(c) }), "setnh %s", c09AddrDef(nh))
			check("SetNexthop")
			l2, p2 := g.as(), g.as()
			if as := in.GetAsList(); len(as) > 0 && r.chance(60) {
				p2 = as[r.intn(len(as))]
			}
			o.ask(c09Guard(func() string { return c09PathR(in.ReplaceAS(l2, p2)) }), "replaceas %d %d", l2, p2)
			check("ReplaceAS")
			o.ask(c09Guard(func() string { c := in.Clone(in.IsWithdraw); c.RemoveLocalPref(); return c09PathR(c) }), "rmlp")
			check("RemoveLocalPref")
		}

		// UpdatePathAttrs towards several peers
		var prev *Path
		var prevR string
		for k := 0; k < 4; k++ {
			info := g.peer(gl, clusterID)
			o.op("%s", c09PeerDef(info))
			var out *Path
			res := c09Guard(func() string { out = UpdatePathAttrs(logger, gl, info, in); return c09PathR(out) })
			o.ask(res, "upa")
			switch {
			case info.RouteServerClient:
				o.stat("peer_rs_client", 1)
			case info.PeerType == oc.PEER_TYPE_EXTERNAL && info.Confederation:
				o.stat("peer_ebgp_confed", 1)
			case info.PeerType == oc.PEER_TYPE_EXTERNAL:
				o.stat("peer_ebgp", 1)
			case info.PeerType == oc.PEER_TYPE_INTERNAL && info.RouteReflectorClient:
				o.stat("peer_ibgp_rr_client", 1)
			case info.PeerType == oc.PEER_TYPE_INTERNAL:
				o.stat("peer_ibgp", 1)
			default:
				o.stat("peer_type_unset", 1)
			}
			if res == "panic" {
				o.fail("panic:UpdatePathAttrs", map[string]any{"global": c09GlobalDef(gl), "peer": c09PeerDef(info), "path": def})
				continue
			}
			check("UpdatePathAttrs")
			for _, b := range c09Oracle(gl, info, in, inAttrs, out, o) {
				o.fail(b, map[string]any{"global": c09GlobalDef(gl), "peer": c09PeerDef(info), "path": def, "out": res})
			}
			if out != in {
				shared := false
				ia := c09AsArrays(in)
				for a := range c09AsArrays(out) {
					if ia[a] {
						shared = true
					}
				}
				if shared {
					o.stat("share_as_array_with_stored", 1)
				} else {
					o.stat("share_none", 1)
				}
				// what later stages (policy actions, a second rewrite) do to the copy must stay in the copy
				c09Guard(func() string {
					out.PrependAsn(g.as(), uint8(r.pick(1, 2, 255)), r.chance(30))
					out.RemovePrivateAS(g.as(), oc.REMOVE_PRIVATE_AS_OPTION_REPLACE)
					out.removeConfedAs()
					out.SetNexthop(g.v4nz())
					out.RemoveLocalPref()
					return ""
				})
				check("mutators-on-the-copy")
				if prev != nil && prev != in {
					if now := c09PathDef(prev); now != prevR {
						o.fail("earlier-copy-altered", map[string]any{"before": prevR, "after": now, "path": def})
					}
				}
				prev, prevR = out, c09PathDef(out)
			}
		}
	}
}
