//go:build verif

package table

// C02 (table level) correspondence harness: drives the REAL Table / TableManager / AdjRib with
// random histories over a prefix pool that contains nested prefixes of many lengths (default
// routes, host routes) and REAL tableKey collisions (FNV-1a 64 over address octets + length
// octet), and after the operations asks every reader of the bucket structure
// (GetDestination, GetDestinations, Select exact / longer / shorter / host address / whole table,
// Info, Bests, GetPathList, and the same on an AdjRib's table).
//
//   correspondence: every answer is printed and compared with the Lean model Tbl.* (Model/Table.lean)
//                   replaying the same ops with the hash induced by the real keys;
//   oracle:         a plain Go map prefix → path set kept from the op log; every listing / lookup /
//                   counter must equal the brute-force answer computed from that map
//                   (no duplicates, nothing missing, nothing extra) — independent of the model;
//   snapshots:      "readers get snapshots": every value a reader is handed (destinations, destination
//                   lists, path lists, Select result tables, Update results, AdjRib lists) is KEPT by the
//                   harness over the next operations and must keep rendering exactly as it did when it was
//                   handed out (class c02t-handed-out-value-changed:<accessor>).

import (
	"encoding/hex"
	"fmt"
	"io"
	"log/slog"
	"net/netip"
	"sort"
	"strings"
	"testing"
	"time"

	"github.com/osrg/gobgp/v4/pkg/apiutil"
	"github.com/osrg/gobgp/v4/pkg/packet/bgp"
)

// groups of IPv6 /128 (and IPv4) prefixes with the same tableKey, found offline
// (corpus/C02T/search/collide.go, results in corpus/C02T/collisions.txt); verified below on every run.
var c02tCollisions = [][]string{
	{"2001:db8::aca2:9dee:785:c820/128", "2001:db8::97b6:60a6:d61b:ee51/128",
		// six more preimages of the same key: an eight-way chain
		"2001:db8:0:1:45cb:4348:1dbc:e6ba/128", "2001:db8:0:1:954a:e16c:f9d:b34d/128", "2001:db8:0:3:b3a4:616e:121e:d20a/128",
		"2001:db8:0:5:4649:246f:f1a:d2f3/128", "2001:db8:0:8:38a1:3d3f:11a5:8fad/128", "2001:db8:0:c:b773:1e12:7d9:c5e2/128"},
	{"2001:db8::1a95:4c5:385d:7355/128", "2001:db8::ea45:2f67:dc65:7f96/128"},
	{"2001:db8::e589:1b89:3cf:8f4b/128", "2001:db8::d80f:4197:a816:56d1/128"},
	//C02T-EXTRA-COLLISIONS
}

var c02tPool4 = []string{
	"0.0.0.0/0", "0.0.0.0/1", "128.0.0.0/1", "10.0.0.0/8", "10.1.0.0/16", "10.1.2.0/24", "10.1.2.0/25",
	"10.1.2.128/25", "10.1.2.3/32", "10.1.2.200/32", "10.1.3.0/24", "10.2.0.0/16", "192.168.0.0/16",
	"255.255.255.255/32",
}

var c02tPool6 = []string{
	"::/0", "::/1", "8000::/1", "2001:db8::/32", "2001:db8::/48", "2001:db8::/64",
	"2001:db8::aca2:9dee:0:0/96", "2001:db8::aca2:9dee:785:c820/127", "2001:db8:1::/48",
	"2001:db8:0:1::/64", "2001:db8::/61", "2001:db8::1/128", "ffff:ffff:ffff:ffff:ffff:ffff:ffff:ffff/128",
}

type c02tPfx struct {
	fam  int // 4 | 6
	pfx  netip.Prefix
	nlri *bgp.IPAddrPrefix
	tok  string // "fam len hex" (protocol tokens)
	show string // "fam/len/hex"
	key  uint64
	coll int // index of its collision group, -1 = none
}

type c02tEnt struct {
	src  int
	rid  uint32
	tag  int
	rank uint64 // LOCAL_PREF<<32 | (2^32-1 - age offset): higher = better; the model's `rank`
	rej  bool
	// marked by AdjRib.StaleAll since it was stored
	stale bool
	// an attribute the decision process ignores (a community value): Path.Equal sees it
	attr uint32
	// the object handed to TableManager.Update (the caller keeps it, as the Adj-RIB-In does)
	obj *Path
}

type c02tMeta struct {
	src, tag int
	rid      uint32
	lp       uint32
	attr     uint32
}

// the attributes Path.Equal sees: LOCAL_PREF and the community
func (m c02tMeta) val() uint64 { return uint64(m.lp)<<8 | uint64(m.attr) }

type c02tW struct {
	t   *testing.T
	o   *vOut
	r   *vRand
	log *slog.Logger
	src []*PeerInfo // 1..12: four plain sources and their near-duplicates (see setup)
	// class of a source's address STRING (what the route-server view filter compares) and back
	addrClass []int
	classAddr []string
	active    []int // the sources of the current history
	pool      map[int][]*c02tPfx
	colls     [][]*c02tPfx
	byTok     map[string]*c02tPfx
	seq       int
	meta      map[*Path]c02tMeta

	tm  *TableManager
	adj *AdjRib
	// oracle: table id → prefix show → entries
	want map[int]map[string][]c02tEnt
	acc  map[int]int // adj accepted, from the op log
	// Loc-RIB table id → prefix → withdrawals that hit a path but were not marked dropped: each
	// leaves one local id flagged, and a destination with a flagged id other than 0 is never deleted
	leak map[int]map[string]int
	// values handed out by readers, kept across the following operations
	held     []c02tHeld
	opn      int
	heldFail map[string]int
	hot      []*c02tPfx
	// 0: every announcement has its own LOCAL_PREF (no equal-cost paths); k > 0: k LOCAL_PREF values,
	// equal-cost paths ordered by a unique age — the multipath sets then hold several paths, also
	// several of one source (ADD-PATH receive)
	lpClasses int
	// consumers of the notification streams, per Loc-RIB table and prefix:
	// multipath (source, path-id) → LOCAL_PREF, and best path → (source, LOCAL_PREF)
	mpCons   map[int]map[string]map[[2]int]uint64
	bestCons map[int]map[string][3]int
	// the watcher's MultiPathList: replaced by GetChanges' third result whenever that is non-nil;
	// one "source:local-pref:community" per position
	multiCons map[int]map[string]string
	// the community of the next announcement (newPathF reads it)
	curAttr uint32
	// every path object handed TO the table or the AdjRib, with what it looked like then
	inputs    []c02tInput
	inputFail map[string]int
	// objects taken out of the Loc-RIB by a local withdrawal (a clone), to be handed in again
	replays []c02tReplay
	noLid   bool
	hist    []string
}

func c02tTok(p netip.Prefix) (fam int, tok, show string) {
	fam = 4
	if p.Addr().Is6() {
		fam = 6
	}
	h := hex.EncodeToString(p.Addr().AsSlice())
	return fam, fmt.Sprintf("%d %d %s", fam, p.Bits(), h), fmt.Sprintf("%d/%d/%s", fam, p.Bits(), h)
}

func (w *c02tW) mk(s string, coll int) *c02tPfx {
	pp := netip.MustParsePrefix(s)
	n, err := bgp.NewIPAddrPrefix(pp)
	if err != nil {
		w.t.Fatal(err)
	}
	fam, tok, show := c02tTok(pp.Masked())
	return &c02tPfx{fam: fam, pfx: pp.Masked(), nlri: n, tok: tok, show: show, key: uint64(tableKey(n)), coll: coll}
}

func c02tFamily(fam int) bgp.Family {
	if fam == 6 {
		return bgp.RF_IPv6_UC
	}
	return bgp.RF_IPv4_UC
}

func c02tLoc(fam int) int {
	if fam == 6 {
		return 2
	}
	return 1
}
func c02tAdj(fam int) int { return c02tLoc(fam) + 2 }

// table ids: 1, 2 = Loc-RIB IPv4 / IPv6; 3, 4, 5 = the AdjRib's IPv4 unicast / IPv6 unicast / IPv4 multicast tables
var c02tAdjTabs = []int{3, 4, 5}

func c02tTabFamily(tab int) bgp.Family {
	switch tab {
	case 2, 4:
		return bgp.RF_IPv6_UC
	case 5:
		return bgp.RF_IPv4_MC
	}
	return bgp.RF_IPv4_UC
}

func (w *c02tW) setup() {
	w.log = slog.New(slog.NewTextHandler(io.Discard, nil))
	// Source identity is exactly what PeerInfo.Equal compares: AS, router id, local id and the
	// address INCLUDING an IPv6 zone.  Besides four plain sources the pool holds near-duplicates that
	// differ from another source in exactly one of them; every pair must stay two sources
	// ("one path per (source, path-id)").
	mkSrc := func(as uint32, id, addr, localID string) *PeerInfo {
		return &PeerInfo{AS: as, LocalAS: 64512, ID: netip.MustParseAddr(id), LocalID: netip.MustParseAddr(localID), Address: netip.MustParseAddr(addr)}
	}
	w.src = []*PeerInfo{nil,
		mkSrc(65001, "1.1.1.1", "10.0.0.1", "9.9.9.9"), // 1: the peer whose routes also go through the Adj-RIB-In
		mkSrc(65002, "2.2.2.2", "10.0.0.2", "9.9.9.9"),
		mkSrc(65003, "3.3.3.3", "10.0.0.3", "9.9.9.9"),
		mkSrc(65004, "4.4.4.4", "10.0.0.4", "9.9.9.9"),
		mkSrc(65005, "5.5.5.5", "fe80::1%eth0", "9.9.9.9"),    // 5, 6, 7: one link-local address on two interfaces
		mkSrc(65005, "5.5.5.5", "fe80::1%eth1", "9.9.9.9"),    //          (unnumbered peering) and without zone
		mkSrc(65005, "5.5.5.5", "fe80::1", "9.9.9.9"),         //
		mkSrc(65001, "1.1.1.1", "::ffff:10.0.0.1", "9.9.9.9"), // 8: source 1's address IPv4-mapped
		mkSrc(65009, "2.2.2.2", "10.0.0.2", "9.9.9.9"),        // 9: source 2 with another AS
		mkSrc(65002, "2.2.2.20", "10.0.0.2", "9.9.9.9"),       // 10: source 2 with another router id
		mkSrc(65002, "2.2.2.2", "10.0.0.2", "9.9.9.8"),        // 11: source 2 with another local id
		mkSrc(65003, "3.3.3.3", "10.0.0.33", "9.9.9.9"),       // 12: source 3's router id and AS at another address
	}
	w.addrClass = make([]int, len(w.src))
	w.classAddr = []string{GLOBAL_RIB_NAME}
	for i := 1; i < len(w.src); i++ {
		a := w.src[i].Address.String()
		for c := 1; c < len(w.classAddr); c++ {
			if w.classAddr[c] == a {
				w.addrClass[i] = c
			}
		}
		if w.addrClass[i] == 0 {
			w.classAddr = append(w.classAddr, a)
			w.addrClass[i] = len(w.classAddr) - 1
		}
		w.o.op("src %d %d", i, w.addrClass[i])
		for j := 1; j < i; j++ {
			if w.src[i].Equal(w.src[j]) {
				w.o.fail("c02t-source-conflated", fmt.Sprintf("PeerInfo.Equal says sources %d (%+v) and %d (%+v) are one", j, *w.src[j], i, *w.src[i]))
			}
		}
	}
	w.active = []int{1, 2, 3, 4}
	w.pool = map[int][]*c02tPfx{}
	w.byTok = map[string]*c02tPfx{}
	w.meta = map[*Path]c02tMeta{}
	add := func(p *c02tPfx) {
		if _, dup := w.byTok[p.tok]; dup {
			return
		}
		w.byTok[p.tok] = p
		w.pool[p.fam] = append(w.pool[p.fam], p)
		w.o.op("key %s %d", p.tok, p.key)
	}
	for _, s := range c02tPool4 {
		add(w.mk(s, -1))
	}
	for _, s := range c02tPool6 {
		add(w.mk(s, -1))
	}
	for _, g := range c02tCollisions {
		var grp []*c02tPfx
		ok := true
		for _, s := range g {
			p := w.mk(s, len(w.colls))
			grp = append(grp, p)
			if p.key != grp[0].key || p.fam != grp[0].fam {
				ok = false
			}
		}
		if !ok || len(grp) < 2 {
			// loud: a listed group that does not collide any more means tableKey changed
			w.t.Logf("C02T: SKIPPING collision group %v: tableKey values differ", g)
			w.o.stat("collision_group_skipped", 1)
			continue
		}
		w.colls = append(w.colls, grp)
		w.o.stat(fmt.Sprintf("collision_groups_of_%d", len(grp)), 1)
		for _, p := range grp {
			add(p)
		}
	}
	// shard mates: different key, same shard (key mod 2048) as a pool prefix — several map keys in one shard
	mates := func(target *c02tPfx, format string, want int) {
		for i := 0; i < 1<<16 && want > 0; i++ {
			p := w.mk(fmt.Sprintf(format, i>>8, i&255), -1)
			if p.key != target.key && p.key%destinationShardCount == target.key%destinationShardCount {
				add(p)
				want--
				w.o.stat("shard_mates", 1)
			}
		}
	}
	mates(w.byTok[w.mk("10.1.2.3/32", -1).tok], "10.3.%d.%d/32", 2)
	if len(w.colls) > 0 {
		mates(w.colls[0][0], "2001:db8:2::%x:%x/128", 2)
	}
	if len(w.colls) == 0 {
		w.o.fail("c02t-no-collision-group", "no listed prefix group collides under tableKey: the collision part of the property is not exercised")
	}
}

// a path object the harness handed in and kept (as the Adj-RIB-In keeps what it gave to the Loc-RIB)
type c02tInput struct {
	sink string
	path *Path
	adj  bool
	snap string
	what string
}

type c02tReplay struct {
	p *c02tPfx
	e c02tEnt
}

// what the caller may rely on.  Not included, because the code under test sets them by design:
// localID (Calculate), and on Adj-RIB-In inputs dropped (set on every withdrawal), the timestamp
// (kept from an equal predecessor) and stale (StaleAll marks the shared origin info).
func c02tInSnap(p *Path, adj bool) string {
	lp, _ := p.GetLocalPref()
	s := fmt.Sprintf("withdraw=%v nhinvalid=%v rid=%d rejected=%v family=%s attrs=%d lp=%d comm=%v parent=%v src=%p nlri=%p",
		p.IsWithdraw, p.IsNexthopInvalid, p.remoteID, p.rejected, p.family, len(p.pathAttrs), lp, p.GetCommunities(), p.parent != nil, p.OriginInfo().source, p.OriginInfo().nlri)
	if !adj {
		s += fmt.Sprintf(" dropped=%v stale=%v ts=%d", p.dropped, p.OriginInfo().stale, p.OriginInfo().timestamp)
	}
	return s
}

func (w *c02tW) input(sink, what string, p *Path, adj bool) {
	w.inputs = append(w.inputs, c02tInput{sink: sink, path: p, adj: adj, snap: c02tInSnap(p, adj), what: what})
	w.o.stat("input_paths_kept", 1)
}

// the table must never modify a path object it was given
func (w *c02tW) recheckInputs() {
	for i := range w.inputs {
		in := &w.inputs[i]
		if now := c02tInSnap(in.path, in.adj); now != in.snap {
			cls := "c02t-input-path-modified:" + in.sink
			if w.inputFail == nil {
				w.inputFail = map[string]int{}
			}
			if w.inputFail[cls]++; w.inputFail[cls] <= 25 {
				w.fail(cls, "the path object handed to %s (%s) was [%s] and is now [%s]", in.sink, in.what, in.snap, now)
			}
			in.snap = now
		}
	}
	w.o.stat("input_path_reinspections", len(w.inputs))
}

// a value some accessor handed out, with the way to render it again
type c02tHeld struct {
	acc, what string
	at        int
	render    func() string
	orig      string
}

const c02tHoldOps = 5 // a handed-out value is re-inspected after each of the next operations

func (w *c02tW) hold(acc, what string, render func() string) {
	// Path.localID is (re)written by Calculate on the shared path object when the same object is handed
	// in again (implicitWithdraw: newPath.localID = path.localID) — by design, see c02tInSnap; kept
	// values are therefore rendered without it
	w.noLid = true
	orig := render()
	w.noLid = false
	w.held = append(w.held, c02tHeld{acc: acc, what: what, at: w.opn, render: render, orig: orig})
	w.o.stat("held_values", 1)
}

// recheck runs after every single table operation: what readers were given earlier must not have moved
func (w *c02tW) recheck() {
	w.opn++
	w.recheckInputs()
	keep := w.held[:0]
	for _, h := range w.held {
		w.o.stat("held_value_reinspections", 1)
		w.noLid = true
		now := h.render()
		w.noLid = false
		if now != h.orig {
			cls := "c02t-handed-out-value-changed:" + h.acc
			if w.heldFail == nil {
				w.heldFail = map[string]int{}
			}
			if w.heldFail[cls]++; w.heldFail[cls] <= 25 {
				w.fail(cls, "%s(%s) handed out [%s]; %d operation(s) later the same value reads [%s]", h.acc, h.what, h.orig, w.opn-h.at, now)
			}
			continue
		}
		if w.opn-h.at < c02tHoldOps {
			keep = append(keep, h)
		}
	}
	w.held = keep
}

func (w *c02tW) pathsStr(ps []*Path) string {
	l := make([]string, len(ps))
	for i, p := range ps {
		l[i] = w.pathStr(p)
	}
	return strings.Join(l, ",")
}

func (w *c02tW) holdUpdates(what string, us []*Update) {
	for _, u := range us {
		u := u
		w.hold("TableManager.Update", what, func() string {
			return "known=" + w.pathsStr(u.KnownPathList) + " old=" + w.pathsStr(u.OldKnownPathList)
		})
	}
}

func (w *c02tW) reset() {
	w.held = w.held[:0]
	fams := []bgp.Family{bgp.RF_IPv4_UC, bgp.RF_IPv6_UC}
	w.tm = NewTableManager(w.log, fams)
	w.adj = NewAdjRib(w.log, []bgp.Family{bgp.RF_IPv4_UC, bgp.RF_IPv6_UC, bgp.RF_IPv4_MC})
	w.want = map[int]map[string][]c02tEnt{1: {}, 2: {}, 3: {}, 4: {}, 5: {}}
	w.acc = map[int]int{3: 0, 4: 0, 5: 0}
	w.active = []int{1, 2, 3, 4}
	w.lpClasses = 0
	w.leak = map[int]map[string]int{1: {}, 2: {}}
	w.multiCons = map[int]map[string]string{1: {}, 2: {}}
	w.inputs = w.inputs[:0]
	w.replays = w.replays[:0]
	w.mpCons = map[int]map[string]map[[2]int]uint64{1: {}, 2: {}}
	w.bestCons = map[int]map[string][3]int{1: {}, 2: {}}
	w.hist = w.hist[:0]
	w.o.op("new 1 0")
	w.o.op("new 2 0")
	w.o.op("new 3 1")
	w.o.op("new 4 1")
	w.o.op("new 5 1")
}

func (w *c02tW) note(format string, a ...any) {
	w.hist = append(w.hist, fmt.Sprintf(format, a...))
}

func (w *c02tW) histTail() []string {
	if len(w.hist) > 80 {
		return append([]string{"…"}, w.hist[len(w.hist)-80:]...)
	}
	return append([]string{}, w.hist...)
}

func (w *c02tW) fail(class string, format string, a ...any) {
	w.o.fail(class, map[string]any{"what": fmt.Sprintf(format, a...), "history": w.histTail()})
}

func (w *c02tW) newPath(p *c02tPfx, src int, rid uint32, rank uint64, withdraw bool) *Path {
	return w.newPathF(c02tFamily(p.fam), p, src, rid, rank, withdraw)
}

func (w *c02tW) newPathF(fam bgp.Family, p *c02tPfx, src int, rid uint32, rank uint64, withdraw bool) *Path {
	var attrs []bgp.PathAttributeInterface
	ts := time.Unix(1700000000, 0)
	if !withdraw {
		// the age decides between equal-cost paths of eBGP sources (compareByAge: the older wins)
		ts = time.Unix(1700000000+int64(0xffffffff-uint32(rank)), 0)
		attrs = append(attrs, bgp.NewPathAttributeOrigin(0))
		if p.fam == 4 {
			nh, _ := bgp.NewPathAttributeNextHop(netip.MustParseAddr("192.0.2.1"))
			attrs = append(attrs, nh)
		} else {
			mp, _ := bgp.NewPathAttributeMpReachNLRI(fam, []bgp.PathNLRI{{NLRI: p.nlri, ID: rid}}, netip.MustParseAddr("2001:db8:ffff::1"))
			attrs = append(attrs, mp)
		}
		attrs = append(attrs, bgp.NewPathAttributeLocalPref(uint32(rank>>32)))
		attrs = append(attrs, bgp.NewPathAttributeCommunities([]uint32{65000<<16 | w.curAttr}))
	}
	return NewPath(fam, w.src[src], bgp.PathNLRI{NLRI: p.nlri, ID: rid}, withdraw, attrs, ts, false)
}

// ---------------------------------------------------------------- operations

// LOCAL_PREF and age of the next announcement, as the model's rank (a strict total order per
// destination: equal LOCAL_PREFs are ordered by the unique age)
func (w *c02tW) nextRank(tag int) uint64 {
	mix := uint32((uint64(tag) * 2654435761) % (1 << 30)) // injective in tag
	if w.lpClasses == 0 {
		return uint64(mix+1)<<32 | 0xffffffff
	}
	lp := uint32(100 * (1 + w.r.intn(w.lpClasses)))
	return uint64(lp)<<32 | uint64(0xffffffff-mix%(1<<20))
}

// the multipath set the op log predicts for a destination: the best path and every path of the same cost
func (w *c02tW) expectMulti(tab int, p *c02tPfx) map[[2]int]uint64 {
	l := append([]c02tEnt{}, w.want[tab][p.show]...)
	sort.Slice(l, func(i, j int) bool { return l[i].rank > l[j].rank })
	m := map[[2]int]uint64{}
	for _, e := range l {
		if e.rank>>32 != l[0].rank>>32 {
			break
		}
		m[[2]int{e.src, int(e.rid)}] = e.rank>>32<<8 | uint64(e.attr)
	}
	return m
}

func c02tMpStr(m map[[2]int]uint64) string {
	l := make([]string, 0, len(m))
	for k, lp := range m {
		l = append(l, fmt.Sprintf("%d.%d:%d/%d", k[0], k[1], lp>>8, lp&255))
	}
	sort.Strings(l)
	return strings.Join(l, ",")
}

// stream: what one TableManager.Update hands to the consumers of the best-path / multipath
// notification stream (server: dstsToPaths → notifyBestWatcher, FIB) is applied IN ORDER to a
// consumer table; after every step the consumer must hold exactly the table's multipath set and
// best path ("the notification stream replayed in order reproduces the best-path table").
func (w *c02tW) stream(what string, p *c02tPfx, us []*Update) {
	lt := c02tLoc(p.fam)
	for _, u := range us {
		upd, wd := u.GetMultiBestPathDiff(GLOBAL_RIB_NAME)
		best, _, multi := u.GetChanges(GLOBAL_RIB_NAME, 0, false)
		w.o.ask("u="+w.pathsStr(upd)+" w="+w.pathsStr(wd), "mpdiff %d", lt)
		cons := w.mpCons[lt][p.show]
		if cons == nil {
			cons = map[[2]int]uint64{}
			w.mpCons[lt][p.show] = cons
		}
		before := c02tMpStr(cons)
		for _, x := range wd {
			if m, ok := w.meta[x.root()]; ok {
				if !x.IsWithdraw {
					w.fail("c02t-multipath-stream-replay", "%s on %s: the withdraw list holds a path that is not a withdrawal", what, p.pfx)
				}
				delete(cons, [2]int{m.src, int(m.rid)})
			}
		}
		for _, x := range upd {
			if m, ok := w.meta[x.root()]; ok {
				cons[[2]int{m.src, int(m.rid)}] = m.val()
			}
		}
		if len(upd) > 0 || len(wd) > 0 {
			w.o.stat("multipath_notifications", 1)
		}
		// the table's own multipath set now
		tbl := map[[2]int]uint64{}
		var tblList []*Path
		d := w.tm.GetDestination(w.newPath(p, 1, 0, 0, true))
		ans := "nil"
		if d != nil {
			mb := d.GetMultiBestPath(GLOBAL_RIB_NAME)
			tblList = mb
			ans = "m=" + w.pathsStr(mb)
			for _, x := range mb {
				if m, ok := w.meta[x.root()]; ok {
					tbl[[2]int{m.src, int(m.rid)}] = m.val()
				}
			}
			bySrc := map[int]int{}
			for k := range tbl {
				bySrc[k[0]]++
			}
			w.o.stat(fmt.Sprintf("multipath_set_size_%d", min(len(tbl), 4)), 1)
			for _, n := range bySrc {
				if n > 1 {
					w.o.stat("multipath_set_with_two_paths_of_one_source", 1)
					break
				}
			}
		}
		w.o.ask(ans, "multi %d %s", lt, p.tok)
		if exp := w.expectMulti(lt, p); c02tMpStr(exp) != c02tMpStr(tbl) {
			w.fail("c02t-multipath-set", "%s on %s: the table's multipath set is [%s], the op log says [%s]", what, p.pfx, c02tMpStr(tbl), c02tMpStr(exp))
		}
		if c02tMpStr(cons) != c02tMpStr(tbl) {
			w.fail("c02t-multipath-stream-replay", "%s on %s: consumer held [%s], got update=[%s] withdraw=[%s], now holds [%s]; the table's multipath set is [%s] (src.rid:local-pref/community)",
				what, p.pfx, before, w.pathsStr(upd), w.pathsStr(wd), c02tMpStr(cons), c02tMpStr(tbl))
			// resynchronise, so that one lost withdrawal is reported once
			cons = map[[2]int]uint64{}
			for k, v := range tbl {
				cons[k] = v
			}
			w.mpCons[lt][p.show] = cons
		}
		// GetChanges' third result: the watcher replaces its MultiPathList by it whenever it is not nil,
		// and must then hold the table's multipath set as a list of paths WITH their attributes
		// (what Path.Equal compares: source, LOCAL_PREF, community — not the path id)
		sigs := func(ps []*Path) string {
			l := make([]string, 0, len(ps))
			for _, x := range ps {
				if x == nil {
					l = append(l, "nil")
				} else if m, ok := w.meta[x.root()]; ok {
					l = append(l, fmt.Sprintf("%d:%d:%d", m.src, m.lp, m.attr))
				}
			}
			return strings.Join(l, ",")
		}
		mans := "nil"
		if multi != nil {
			w.o.stat("multipath_reports", 1)
			if len(multi) == 1 && multi[0] != nil && multi[0].IsWithdraw {
				w.multiCons[lt][p.show] = ""
				mans = "W:" + w.pathStr(multi[0])
			} else {
				w.multiCons[lt][p.show] = sigs(multi)
				mans = "m=" + w.pathsStr(multi)
			}
		}
		w.o.ask(mans, "mchg %d", lt)
		if have := w.multiCons[lt][p.show]; have != sigs(tblList) {
			w.fail("c02t-multipath-changes", "%s on %s: GetChanges reported %s; a watcher applying every non-nil report now holds [%s], the table's multipath set is [%s] (source:local-pref:community per position)",
				what, p.pfx, mans, have, sigs(tblList))
			w.multiCons[lt][p.show] = sigs(tblList)
		}
		// best-path stream
		if best != nil {
			if m, ok := w.meta[best.root()]; ok {
				if best.IsWithdraw {
					delete(w.bestCons[lt], p.show)
				} else {
					w.bestCons[lt][p.show] = [3]int{m.src, int(m.lp), int(m.attr)}
				}
			}
			w.o.stat("best_path_notifications", 1)
		}
		var tb *[3]int
		if d != nil {
			if b := d.GetBestPath(GLOBAL_RIB_NAME, 0); b != nil {
				if m, ok := w.meta[b.root()]; ok {
					tb = &[3]int{m.src, int(m.lp), int(m.attr)}
				}
			}
		}
		cb, has := w.bestCons[lt][p.show]
		if (tb == nil) != !has || (tb != nil && *tb != cb) {
			w.fail("c02t-best-stream-replay", "%s on %s: after the notification the consumer's best path is %v (present %v), the table's is %v (source, local-pref, community)", what, p.pfx, cb, has, tb)
			if tb == nil {
				delete(w.bestCons[lt], p.show)
			} else {
				w.bestCons[lt][p.show] = *tb
			}
		}
	}
	// reading the notifications (as the server does after every Update) must not touch the inputs either
	w.recheckInputs()
}

func (w *c02tW) announce(p *c02tPfx, src int, rid uint32, rej bool) {
	w.announceX(p, src, rid, rej, 0, uint32(w.r.intn(3)))
}

// announceX: rank 0 = a new LOCAL_PREF / age (nextRank); otherwise the given one — with the rank of the
// path it replaces and another community this is an ATTRIBUTE-ONLY replacement: cost, age and position stay
func (w *c02tW) announceX(p *c02tPfx, src int, rid uint32, rej bool, rank uint64, attr uint32) {
	w.seq++
	tag := w.seq
	if rank == 0 {
		rank = w.nextRank(tag)
	}
	w.curAttr = attr
	w.note("announce %s src=%d rid=%d tag=%d local-pref=%d community=%d", p.pfx, src, rid, tag, rank>>32, attr)
	lt := c02tLoc(p.fam)
	path := w.newPath(p, src, rid, rank, false)
	w.meta[path] = c02tMeta{src, tag, rid, uint32(rank >> 32), attr}
	w.input("TableManager.Update", fmt.Sprintf("announcement %s src=%d rid=%d tag=%d", p.pfx, src, rid, tag), path, false)
	w.o.op("ann %d %s %d %d %d %d 0 %d 0", lt, p.tok, src, rid, rank, tag, attr)
	w.movesInPlace(lt, p, src, rid)
	w.multipathMember(lt, p, src, rid)
	w.attrOnly(lt, p, src, rid, rank, attr)
	us := w.tm.Update(path)
	w.wantPut(lt, p, c02tEnt{src: src, rid: rid, tag: tag, rank: rank, attr: attr, obj: path}, false)
	w.recheck()
	w.holdUpdates(p.show, us)
	w.stream(fmt.Sprintf("announcement src=%d rid=%d tag=%d", src, rid, tag), p, us)
	w.checkOthers("announcement", p, src, rid)
	w.o.stat("op_announce", 1)
	if src == 1 {
		at := c02tAdj(p.fam)
		ap := w.newPath(p, src, rid, rank, false)
		ap.SetRejected(rej)
		w.meta[ap] = c02tMeta{src, tag, rid, uint32(rank >> 32), attr}
		w.input("AdjRib.Update", fmt.Sprintf("announcement %s rid=%d tag=%d", p.pfx, rid, tag), ap, true)
		rj := 0
		if rej {
			rj = 1
		}
		w.o.op("ann %d %s %d %d %d %d %d %d 0", at, p.tok, src, rid, rank, tag, rj, attr)
		w.adj.Update([]*Path{ap})
		w.wantPut(at, p, c02tEnt{src: src, rid: rid, tag: tag, rank: rank, rej: rej, attr: attr}, true)
		w.recheck()
	}
}

// "one path per (source, path-id)": after an operation of one source on a destination, the paths the
// op log holds for it — in particular those of the OTHER sources, near-duplicates included — must all
// be there, each once, and nothing else
func (w *c02tW) checkOthers(what string, p *c02tPfx, src int, rid uint32) {
	lt := c02tLoc(p.fam)
	d := w.tm.GetDestination(w.newPath(p, src, rid, 0, true))
	got := map[[2]int]int{}
	if d != nil {
		for _, x := range d.knownPathList {
			if m, ok := w.meta[x.root()]; ok {
				if _, dup := got[[2]int{m.src, int(m.rid)}]; dup {
					w.fail("c02t-source-conflated", "%s of source %d rid %d on %s: two paths of source %d path-id %d", what, src, rid, p.pfx, m.src, m.rid)
				}
				got[[2]int{m.src, int(m.rid)}] = m.tag
			}
		}
	}
	for _, e := range w.want[lt][p.show] {
		if tag, ok := got[[2]int{e.src, int(e.rid)}]; !ok || tag != e.tag {
			cls := "c02t-content"
			if e.src != src {
				cls = "c02t-source-conflated"
			}
			w.fail(cls, "%s of source %d (%+v) rid %d on %s: the path of source %d (%+v) rid %d tag %d is gone or replaced (now tag %d, present %v)",
				what, src, *w.src[src], rid, p.pfx, e.src, *w.src[e.src], e.rid, e.tag, tag, ok)
		}
	}
	if len(got) > len(w.want[lt][p.show]) {
		w.fail("c02t-content", "%s of source %d rid %d on %s: %d paths stored, the op log says %d", what, src, rid, p.pfx, len(got), len(w.want[lt][p.show]))
	}
}

// input-distribution counter: an attribute-only replacement of a multipath member, by position
func (w *c02tW) attrOnly(tab int, p *c02tPfx, src int, rid uint32, rank uint64, attr uint32) {
	l := append([]c02tEnt{}, w.want[tab][p.show]...)
	sort.Slice(l, func(i, j int) bool { return l[i].rank > l[j].rank })
	for i, e := range l {
		if e.rank>>32 != l[0].rank>>32 {
			break
		}
		if e.src == src && e.rid == rid && e.rank == rank && e.attr != attr {
			w.o.stat(fmt.Sprintf("attribute_only_replacement_of_multipath_member_%d", min(i, 3)), 1)
		}
	}
}

// a locally generated withdrawal, as propagateUpdate makes one when the import policy rejects a
// path on soft reset in: a CLONE of the stored object, marked withdraw, not dropped.  The object
// itself stays with the caller (the Adj-RIB-In) and is handed in again later.
func (w *c02tW) localWithdraw(p *c02tPfx, e c02tEnt) {
	lt := c02tLoc(p.fam)
	w.note("local withdrawal (clone of the stored object) %s src=%d rid=%d tag=%d", p.pfx, e.src, e.rid, e.tag)
	if len(w.want[lt][p.show]) == 1 {
		w.o.stat("op_local_withdraw_of_the_only_path", 1)
	} else {
		w.o.stat("op_local_withdraw_of_one_of_several_paths", 1)
	}
	wd := e.obj.Clone(true)
	w.input("TableManager.Update", fmt.Sprintf("local withdrawal %s src=%d rid=%d", p.pfx, e.src, e.rid), wd, false)
	w.o.op("wd %d %s %d %d 0", lt, p.tok, e.src, e.rid)
	w.movesInPlace(lt, p, e.src, e.rid)
	w.multipathMember(lt, p, e.src, e.rid)
	us := w.tm.Update(wd)
	if w.wantDel(lt, p, e.src, e.rid, false) {
		w.leak[lt][p.show]++
	}
	w.recheck()
	w.holdUpdates(p.show, us)
	w.stream(fmt.Sprintf("local withdrawal src=%d rid=%d", e.src, e.rid), p, us)
	w.checkOthers("local withdrawal", p, e.src, e.rid)
	w.replays = append(w.replays, c02tReplay{p, e})
}

// the next soft reset in: the SAME object is handed in again and must be a candidate again
func (w *c02tW) replay(r c02tReplay) {
	p, e := r.p, r.e
	lt := c02tLoc(p.fam)
	if e.src == 1 {
		// source 1's routes also sit in the Adj-RIB-In: a soft reset in replays only what is still there
		still := false
		for _, x := range w.want[c02tAdj(p.fam)][p.show] {
			still = still || (x.rid == e.rid && x.tag == e.tag)
		}
		if !still {
			w.o.stat("replay_cancelled_route_left_the_adj_rib_in", 1)
			return
		}
	}
	w.note("the same object again %s src=%d rid=%d tag=%d", p.pfx, e.src, e.rid, e.tag)
	w.o.stat("op_replay_of_a_locally_withdrawn_object", 1)
	w.o.op("ann %d %s %d %d %d %d 0 %d %d", lt, p.tok, e.src, e.rid, e.rank, e.tag, e.attr, e.obj.localID)
	w.movesInPlace(lt, p, e.src, e.rid)
	w.multipathMember(lt, p, e.src, e.rid)
	us := w.tm.Update(e.obj)
	// the object still carries the local id that its (not dropped) local withdrawal left flagged:
	// unless it replaces a path that came in meanwhile, that id is in use again, not leaked
	matched := false
	for _, x := range w.want[lt][p.show] {
		matched = matched || (x.src == e.src && x.rid == e.rid)
	}
	if !matched && w.leak[lt][p.show] > 0 {
		w.leak[lt][p.show]--
	}
	w.wantPut(lt, p, e, false)
	w.recheck()
	w.holdUpdates(p.show, us)
	w.stream(fmt.Sprintf("replay src=%d rid=%d tag=%d", e.src, e.rid, e.tag), p, us)
	w.checkOthers("replay", p, e.src, e.rid)
	w.askGet(lt, p)
}

// input-distribution counter: the operation removes or replaces a path that is not the last of a
// destination holding three or more (the list is then shifted in place)
func (w *c02tW) movesInPlace(tab int, p *c02tPfx, src int, rid uint32) {
	l := w.want[tab][p.show]
	if len(l) < 3 {
		return
	}
	lowest := l[0]
	found := false
	for _, e := range l {
		if e.rank < lowest.rank {
			lowest = e
		}
		if e.src == src && e.rid == rid {
			found = true
		}
	}
	if found && !(lowest.src == src && lowest.rid == rid) {
		w.o.stat("op_shifts_paths_of_a_3plus_destination", 1)
		if len(w.held) > 0 {
			w.o.stat("op_shifts_paths_while_values_are_held", 1)
		}
	}
}

// input-distribution counter: the operation touches the first / a middle / the last member of a
// multipath set of two or more, and whether a sibling (same source, other path id) is in the set
func (w *c02tW) multipathMember(tab int, p *c02tPfx, src int, rid uint32) {
	l := append([]c02tEnt{}, w.want[tab][p.show]...)
	sort.Slice(l, func(i, j int) bool { return l[i].rank > l[j].rank })
	n := 0
	for n < len(l) && l[n].rank>>32 == l[0].rank>>32 {
		n++
	}
	if n < 2 {
		return
	}
	sibling := false
	pos := -1
	for i := 0; i < n; i++ {
		if l[i].src == src && l[i].rid == rid {
			pos = i
		} else if l[i].src == src {
			sibling = true
		}
	}
	if pos < 0 {
		return
	}
	where := "middle"
	if pos == 0 {
		where = "first"
	} else if pos == n-1 {
		where = "last"
	}
	w.o.stat("op_on_"+where+"_member_of_a_multipath_set", 1)
	if sibling {
		w.o.stat("op_on_"+where+"_member_with_a_sibling_of_the_same_source_in_the_set", 1)
	}
}

func (w *c02tW) wantPut(tab int, p *c02tPfx, e c02tEnt, adj bool) {
	l := w.want[tab][p.show]
	for i, x := range l {
		if x.rid == e.rid && (adj || x.src == e.src) {
			if adj {
				if x.rej && !e.rej {
					w.acc[tab]++
				} else if !x.rej && e.rej {
					w.acc[tab]--
				}
			}
			l[i] = e
			w.o.stat("announce_replaces", 1)
			return
		}
	}
	if adj && !e.rej {
		w.acc[tab]++
	}
	w.want[tab][p.show] = append(l, e)
	if len(l) == 0 {
		w.o.stat("announce_creates_destination", 1)
	}
}

func (w *c02tW) wantDel(tab int, p *c02tPfx, src int, rid uint32, adj bool) bool {
	l := w.want[tab][p.show]
	for i, x := range l {
		if x.rid == rid && (adj || x.src == src) {
			if adj && !x.rej {
				w.acc[tab]--
			}
			l = append(l[:i:i], l[i+1:]...)
			if len(l) == 0 {
				delete(w.want[tab], p.show)
				w.o.stat("withdraw_empties_destination", 1)
			} else {
				w.want[tab][p.show] = l
			}
			return true
		}
	}
	return false
}

func (w *c02tW) withdraw(p *c02tPfx, src int, rid uint32, dropped bool) {
	w.note("withdraw %s src=%d rid=%d dropped=%v", p.pfx, src, rid, dropped)
	lt := c02tLoc(p.fam)
	d := 0
	if dropped {
		d = 1
	}
	if src == 1 {
		// the way the server does it: Adj-RIB-In first (marks the withdrawal dropped), then the Loc-RIB
		at := c02tAdj(p.fam)
		ap := w.newPath(p, src, rid, 0, true)
		w.o.op("wd %d %s %d %d 1", at, p.tok, src, rid)
		w.adj.Update([]*Path{ap})
		w.wantDel(at, p, src, rid, true)
		w.recheck()
	}
	path := w.newPath(p, src, rid, 0, true)
	path.SetDropped(dropped)
	w.input("TableManager.Update", fmt.Sprintf("withdrawal %s src=%d rid=%d", p.pfx, src, rid), path, false)
	w.o.op("wd %d %s %d %d %d", lt, p.tok, src, rid, d)
	w.movesInPlace(lt, p, src, rid)
	w.multipathMember(lt, p, src, rid)
	us := w.tm.Update(path)
	hit := w.wantDel(lt, p, src, rid, false)
	w.recheck()
	w.holdUpdates(p.show, us)
	w.stream(fmt.Sprintf("withdrawal src=%d rid=%d", src, rid), p, us)
	w.checkOthers("withdrawal", p, src, rid)
	if hit {
		if !dropped {
			w.leak[lt][p.show]++
			w.o.stat("withdraw_leaks_local_id", 1)
		}
		w.o.stat("op_withdraw_hit", 1)
	} else {
		w.o.stat("op_withdraw_miss", 1)
	}
}

// the peer goes away: every path of the source leaves the Loc-RIB (what the server does with
// adjRibIn.Drop + propagateUpdate; the historical name of this step is DeletePathsByPeer)
func (w *c02tW) peerDown(src int) {
	w.note("peer-down src=%d", src)
	w.o.stat("op_peer_down", 1)
	fams := []bgp.Family{bgp.RF_IPv4_UC, bgp.RF_IPv6_UC}
	var wds []*Path
	if src == 1 {
		for _, wd := range w.adj.Drop([]bgp.Family{bgp.RF_IPv4_UC, bgp.RF_IPv6_UC, bgp.RF_IPv4_MC}) {
			if wd.GetFamily() != bgp.RF_IPv4_MC {
				wds = append(wds, wd)
			}
		}
		w.o.op("adjdrop 3 3 4 5")
		for _, tab := range c02tAdjTabs {
			w.want[tab] = map[string][]c02tEnt{}
			w.acc[tab] = 0
		}
		// rejected paths never reached the Loc-RIB in the server; here they did (same source and
		// path id), so they are withdrawn all the same
	} else {
		for _, p := range w.tm.GetPathListWithSource(GLOBAL_RIB_NAME, fams, w.src[src]) {
			c := p.Clone(true)
			c.SetDropped(true)
			wds = append(wds, c)
		}
	}
	for _, wd := range wds {
		pp := nlriToPrefix(wd.GetNlri())
		_, tok, _ := c02tTok(pp)
		p := w.byTok[tok]
		if p == nil {
			w.fail("c02t-unknown-prefix", "peer-down produced a withdrawal for %s which was never announced", pp)
			continue
		}
		if m, ok := w.meta[wd.root()]; ok && m.src != src {
			w.fail("c02t-source-conflated", "peer-down of source %d (%+v) lists the path of source %d (%+v) on %s for withdrawal", src, *w.src[src], m.src, *w.src[m.src], pp)
		}
		w.o.op("wd %d %s %d %d 1", c02tLoc(p.fam), p.tok, src, wd.RemoteID())
		w.multipathMember(c02tLoc(p.fam), p, src, wd.RemoteID())
		us := w.tm.Update(wd)
		w.wantDel(c02tLoc(p.fam), p, src, wd.RemoteID(), false)
		w.recheck()
		w.stream(fmt.Sprintf("peer-down withdrawal src=%d rid=%d", src, wd.RemoteID()), p, us)
	}
	// anything of this source left in the oracle map was not produced by the listing: remove it
	// through the front door so that the difference shows up as a stale path
	for _, fam := range []int{4, 6} {
		lt := c02tLoc(fam)
		for show, l := range w.want[lt] {
			for _, e := range l {
				if e.src == src {
					w.fail("c02t-peer-down-missed-path", "path %s src=%d rid=%d not listed for withdrawal", show, e.src, e.rid)
				}
			}
		}
	}
}

// ---------------------------------------------------------------- rendering the implementation's answers

func (w *c02tW) pathStr(p *Path) string {
	m, ok := w.meta[p.root()] // StaleAll / MarkLLGRStaleOrDrop store clones of what was announced
	if !ok {
		return "unknown-path"
	}
	if w.noLid {
		return fmt.Sprintf("%d.%d.%d", m.src, m.rid, m.tag)
	}
	return fmt.Sprintf("%d.%d.%d.%d", m.src, m.rid, m.tag, p.localID)
}

func (w *c02tW) destStr(d *destination) (show string, s string) {
	_, _, show = c02tTok(nlriToPrefix(d.GetNlri()))
	ps := make([]string, 0, len(d.knownPathList))
	for _, p := range d.knownPathList {
		ps = append(ps, w.pathStr(p))
	}
	return show, show + "=" + strings.Join(ps, ",")
}

func (w *c02tW) listing(ds []*destination) string {
	l := make([]string, 0, len(ds))
	for _, d := range ds {
		_, s := w.destStr(d)
		l = append(l, s)
	}
	sort.Strings(l)
	return fmt.Sprintf("n=%d %s", len(l), strings.Join(l, " "))
}

func (w *c02tW) pathListing(ps []*Path) string {
	l := make([]string, 0, len(ps))
	for _, p := range ps {
		_, _, show := c02tTok(nlriToPrefix(p.GetNlri()))
		l = append(l, show+"="+w.pathStr(p))
	}
	sort.Strings(l)
	return fmt.Sprintf("n=%d %s", len(l), strings.Join(l, " "))
}

func (w *c02tW) table(tab int) *Table {
	switch tab {
	case 1:
		t, _ := w.tm.GetTable(bgp.RF_IPv4_UC)
		return t
	case 2:
		t, _ := w.tm.GetTable(bgp.RF_IPv6_UC)
		return t
	case 3:
		return w.adj.table[bgp.RF_IPv4_UC]
	case 5:
		return w.adj.table[bgp.RF_IPv4_MC]
	}
	return w.adj.table[bgp.RF_IPv6_UC]
}

func c02tFamOf(tab int) int {
	if tab == 2 || tab == 4 {
		return 6
	}
	return 4
}

// ---------------------------------------------------------------- oracle helpers (model independent)

func (w *c02tW) viewID(view int) string {
	if view == 0 {
		return GLOBAL_RIB_NAME
	}
	return w.classAddr[view] // views are numbered by address string
}

// expected path strings (without local id) of one destination under a view, best first
func (w *c02tW) expect(l []c02tEnt, view int, adj bool) []string {
	var f []c02tEnt
	for _, e := range l {
		// the view filter compares address strings: every source at that address is filtered
		if !adj && view != 0 && w.addrClass[e.src] == view {
			continue
		}
		f = append(f, e)
	}
	if !adj {
		sort.Slice(f, func(i, j int) bool { return f[i].rank > f[j].rank })
	}
	out := make([]string, len(f))
	for i, e := range f {
		out[i] = fmt.Sprintf("%d.%d.%d", e.src, e.rid, e.tag)
	}
	return out
}

func c02tStripLid(s string) string {
	i := strings.LastIndexByte(s, '.')
	if i < 0 {
		return s
	}
	return s[:i]
}

// compares an implementation listing of destinations with the expected map prefix → paths
func (w *c02tW) checkDests(what string, tab int, ds []*destination, want map[string][]string, adj bool) {
	seen := map[string]bool{}
	for _, d := range ds {
		show, _ := w.destStr(d)
		if seen[show] {
			w.fail("c02t-duplicate-destination", "%s table %d: destination %s listed twice", what, tab, show)
			continue
		}
		seen[show] = true
		got := make([]string, 0, len(d.knownPathList))
		lids := map[uint32]bool{}
		for _, p := range d.knownPathList {
			got = append(got, c02tStripLid(w.pathStr(p)))
			if !adj {
				if p.localID == 0 || lids[p.localID] {
					w.fail("c02t-local-id", "%s table %d: destination %s local id %d zero or used twice", what, tab, show, p.localID)
				}
				lids[p.localID] = true
			}
			if _, _, ps := c02tTok(nlriToPrefix(p.GetNlri())); ps != show {
				w.fail("c02t-foreign-path", "%s table %d: destination %s holds a path for %s", what, tab, show, ps)
			}
		}
		exp := want[show]
		if adj && len(d.knownPathList) == 0 {
			// only the local-id bitmap may keep an emptied destination, and Adj-RIB tables have none
			w.fail("c02t-adj-empty-destination", "%s table %d: destination %s listed without any path", what, tab, show)
		}
		if adj {
			sort.Strings(got)
			exp = append([]string{}, exp...)
			sort.Strings(exp)
		}
		if strings.Join(got, ",") != strings.Join(exp, ",") {
			w.fail("c02t-content", "%s table %d: destination %s has [%s], the op log says [%s]", what, tab, show, strings.Join(got, ","), strings.Join(exp, ","))
		}
	}
	for show, exp := range want {
		if len(exp) != 0 && !seen[show] {
			w.fail("c02t-missing-destination", "%s table %d: destination %s with [%s] not listed", what, tab, show, strings.Join(exp, ","))
		}
	}
}

func c02tCovers(q, p netip.Prefix) bool {
	return q.Addr().BitLen() == p.Addr().BitLen() && q.Bits() <= p.Bits() && q.Masked().Contains(p.Addr())
}

// ---------------------------------------------------------------- asks

func (w *c02tW) askGet(tab int, p *c02tPfx) {
	t := w.table(tab)
	adj := tab >= 3
	var d *destination
	if adj {
		d = t.GetDestination(p.nlri)
	} else {
		d = w.tm.GetDestination(w.newPath(p, 1, 0, 0, true))
	}
	ans := "nil"
	if d != nil {
		_, ans = w.destStr(d)
		w.checkDests("GetDestination", tab, []*destination{d}, map[string][]string{p.show: w.expect(w.want[tab][p.show], 0, adj)}, adj)
		if show, _ := w.destStr(d); show != p.show {
			w.fail("c02t-wrong-destination", "GetDestination(%s) on table %d returned the destination of %s", p.show, tab, show)
		}
	} else if len(w.want[tab][p.show]) != 0 {
		w.fail("c02t-missing-destination", "GetDestination(%s) on table %d is nil, the op log says %v", p.show, tab, w.want[tab][p.show])
	}
	if !adj && len(w.want[tab][p.show]) == 0 {
		// "a destination is only deleted when no id other than 0 is allocated"
		if leaked := w.leak[tab][p.show] > 0; (d != nil) != leaked {
			w.fail("c02t-local-id-guard", "GetDestination(%s) on table %d: emptied destination present=%v, but %d local ids are still flagged according to the op log", p.show, tab, d != nil, w.leak[tab][p.show])
		}
	}
	w.o.ask(ans, "get %d %s", tab, p.tok)
	if d != nil {
		acc := "TableManager.GetDestination"
		if adj {
			acc = "AdjRib.table.GetDestination"
		}
		dd := d
		w.hold(acc, p.show, func() string { _, s := w.destStr(dd); return s })
	}
	if sd := t.SelectDestination(p.nlri, DestinationSelectOption{adj: adj}); sd != nil {
		w.hold("Table.SelectDestination", p.show, func() string { _, s := w.destStr(sd); return s })
	}
	if d == nil {
		w.o.stat("get_nil", 1)
	} else if len(d.knownPathList) == 0 {
		w.o.stat("get_empty_destination_kept_by_local_ids", 1)
	} else {
		w.o.stat("get_hit", 1)
	}
}

func (w *c02tW) askList(tab int) {
	t := w.table(tab)
	adj := tab >= 3
	ds := t.GetDestinations()
	want := map[string][]string{}
	for show, l := range w.want[tab] {
		want[show] = w.expect(l, 0, adj)
	}
	w.checkDests("GetDestinations", tab, ds, want, adj)
	w.o.ask(w.listing(ds), "list %d", tab)
	acc := "Table.GetDestinations"
	if adj {
		acc = "AdjRib.table.GetDestinations"
	}
	w.hold(acc, fmt.Sprintf("table %d", tab), func() string { return w.listing(ds) })
}

func (w *c02tW) askInfo(tab int, view int) {
	t := w.table(tab)
	info := t.Info(TableInfoOptions{ID: w.viewID(view)})
	nd, np := 0, 0
	for _, l := range w.want[tab] {
		if n := len(w.expect(l, view, false)); n != 0 {
			nd++
			np += n
		}
	}
	if info.NumDestination != nd || info.NumPath != np {
		w.fail("c02t-info", "Info(view %d) table %d = %d destinations %d paths, the op log says %d / %d", view, tab, info.NumDestination, info.NumPath, nd, np)
	}
	// collisions: every stored destination beyond the first of its key
	byKey := map[uint64]int{}
	n := 0
	for _, d := range t.GetDestinations() {
		byKey[uint64(tableKey(d.GetNlri()))]++
		n++
	}
	if info.NumCollision != n-len(byKey) {
		w.fail("c02t-info-collision", "Info table %d NumCollision=%d, stored destinations %d on %d keys", tab, info.NumCollision, n, len(byKey))
	}
	if info.NumCollision > 0 {
		w.o.stat("info_with_collisions", 1)
	}
	w.o.ask(fmt.Sprintf("%d %d %d", info.NumDestination, info.NumPath, info.NumCollision), "info %d %d", tab, view)
}

func (w *c02tW) askPaths(tab int, view int) {
	fam := []bgp.Family{c02tFamily(c02tFamOf(tab))}
	ps := w.tm.GetPathList(w.viewID(view), 0, fam)
	var exp []string
	for show, l := range w.want[tab] {
		for _, s := range w.expect(l, view, false) {
			exp = append(exp, show+"="+s)
		}
	}
	got := make([]string, 0, len(ps))
	for _, p := range ps {
		_, _, show := c02tTok(nlriToPrefix(p.GetNlri()))
		got = append(got, show+"="+c02tStripLid(w.pathStr(p)))
	}
	sort.Strings(exp)
	sort.Strings(got)
	if strings.Join(exp, " ") != strings.Join(got, " ") {
		w.fail("c02t-path-list", "GetPathList(view %d) table %d = [%s], the op log says [%s]", view, tab, strings.Join(got, " "), strings.Join(exp, " "))
	}
	w.o.ask(w.pathListing(ps), "paths %d %d", tab, view)
	w.hold("TableManager.GetPathList", fmt.Sprintf("table %d view %d", tab, view), func() string { return w.pathsStr(ps) })

	bs := w.tm.GetBestPathList(w.viewID(view), 0, fam)
	exp = exp[:0]
	for show, l := range w.want[tab] {
		if e := w.expect(l, view, false); len(e) > 0 {
			exp = append(exp, show+"="+e[0])
		}
	}
	got = got[:0]
	for _, p := range bs {
		_, _, show := c02tTok(nlriToPrefix(p.GetNlri()))
		got = append(got, show+"="+c02tStripLid(w.pathStr(p)))
	}
	sort.Strings(exp)
	sort.Strings(got)
	if strings.Join(exp, " ") != strings.Join(got, " ") {
		w.fail("c02t-best-list", "GetBestPathList(view %d) table %d = [%s], the op log says [%s]", view, tab, strings.Join(got, " "), strings.Join(exp, " "))
	}
	w.o.ask(w.pathListing(bs), "bests %d %d", tab, view)
	if view == 0 {
		// TableManager.GetBestMultiPathList: one multipath set per stored destination
		ms := w.tm.GetBestMultiPathList(GLOBAL_RIB_NAME, fam)
		l := make([]string, 0, len(ms))
		for _, m := range ms {
			if len(m) == 0 {
				l = append(l, "empty")
				continue
			}
			_, _, show := c02tTok(nlriToPrefix(m[0].GetNlri()))
			l = append(l, show+"="+w.pathsStr(m))
			if pp := w.byShow(show); pp != nil {
				got := map[[2]int]uint64{}
				for _, x := range m {
					if mt, ok := w.meta[x.root()]; ok {
						got[[2]int{mt.src, int(mt.rid)}] = mt.val()
					}
				}
				if exp := w.expectMulti(tab, pp); c02tMpStr(exp) != c02tMpStr(got) {
					w.fail("c02t-multipath-set", "GetBestMultiPathList table %d: %s has [%s], the op log says [%s]", tab, show, c02tMpStr(got), c02tMpStr(exp))
				}
			}
		}
		sort.Strings(l)
		w.o.ask(fmt.Sprintf("n=%d %s", len(l), strings.Join(l, " ")), "mbests %d", tab)
		held := ms
		w.hold("TableManager.GetBestMultiPathList", fmt.Sprintf("table %d", tab), func() string {
			r := make([]string, len(held))
			for i, m := range held {
				r[i] = w.pathsStr(m)
			}
			return strings.Join(r, " | ")
		})
	}
	w.hold("TableManager.GetBestPathList", fmt.Sprintf("table %d view %d", tab, view), func() string { return w.pathsStr(bs) })
}

func (w *c02tW) askAdjInfo(tab int) {
	rf := c02tTabFamily(tab)
	fams := []bgp.Family{rf}
	ti, err := w.adj.TableInfo(rf)
	if err != nil {
		w.fail("c02t-adj-info", "TableInfo: %v", err)
		return
	}
	nd, np := 0, 0
	for _, l := range w.want[tab] {
		nd++
		np += len(l)
	}
	cnt, acc := w.adj.Count(fams), w.adj.Accepted(fams)
	if cnt != np || acc != w.acc[tab] || ti.NumPath != np || ti.NumAccepted != w.acc[tab] || len(w.adj.PathList(fams, true)) != w.acc[tab] || len(w.adj.PathList(fams, false)) != np {
		w.fail("c02t-adj-count", "adj table %d: Count=%d Accepted=%d TableInfo=%+v, the op log says %d paths %d accepted", tab, cnt, acc, *ti, np, w.acc[tab])
	}
	if ti.NumDestination != nd {
		w.fail("c02t-adj-info-destinations", "adj table %d: TableInfo.NumDestination=%d, the op log says %d destinations (%d paths)", tab, ti.NumDestination, nd, np)
	}
	w.o.ask(fmt.Sprintf("%d %d %d", ti.NumDestination, ti.NumPath, ti.NumAccepted), "adjinfo %d", tab)
	pl := w.adj.PathList(fams, false)
	w.hold("AdjRib.PathList", fmt.Sprintf("table %d", tab), func() string { return w.pathsStr(pl) })
}

// c02tAbort ends the current history (after a panic inside the code under test, which may have
// left shard locks held)
type c02tAbort struct{}

func (w *c02tW) guarded(f func()) {
	defer func() {
		if e := recover(); e != nil {
			if _, ok := e.(c02tAbort); !ok {
				panic(e)
			}
			w.o.stat("history_aborted_after_panic", 1)
		}
	}()
	f()
}

type c02tQ struct {
	opt  int // 0 exact 1 longer 2 shorter 3 host
	key  string
	pfx  netip.Prefix // as given (unmasked allowed); host: full length
	toks string
}

func (w *c02tW) randAddr(fam int) netip.Addr {
	pool := w.pool[fam]
	switch w.r.intn(4) {
	case 0: // an address inside a pool prefix: base + random low bits
		p := pool[w.r.intn(len(pool))]
		b := p.pfx.Addr().AsSlice()
		for i := p.pfx.Bits(); i < len(b)*8; i++ {
			if w.r.chance(50) {
				b[i/8] |= 0x80 >> (i % 8)
			}
		}
		a, _ := netip.AddrFromSlice(b)
		return a
	case 1: // exactly a pool base address
		return pool[w.r.intn(len(pool))].pfx.Addr()
	case 2: // a pool base address with one bit flipped
		p := pool[w.r.intn(len(pool))]
		b := p.pfx.Addr().AsSlice()
		i := w.r.intn(len(b) * 8)
		b[i/8] ^= 0x80 >> (i % 8)
		a, _ := netip.AddrFromSlice(b)
		return a
	}
	n := 4
	if fam == 6 {
		n = 16
	}
	b := make([]byte, n)
	for i := range b {
		b[i] = byte(w.r.next())
	}
	a, _ := netip.AddrFromSlice(b)
	return a
}

func (w *c02tW) randQuery(tabFam int) c02tQ {
	fam := tabFam
	if w.r.chance(6) {
		fam = 10 - tabFam // a key of the other family
		w.o.stat("query_other_family", 1)
	}
	opt := w.r.intn(4)
	var q c02tQ
	q.opt = opt
	if opt == 3 {
		a := w.randAddr(fam)
		q.key = a.String()
		q.pfx = netip.PrefixFrom(a, a.BitLen())
	} else {
		var pp netip.Prefix
		if w.r.chance(55) {
			pp = w.pool[fam][w.r.intn(len(w.pool[fam]))].pfx
			if w.r.chance(30) { // a neighbouring length of a pool prefix (often not in the table)
				l := pp.Bits() + w.r.pick(-1, 1, -8, 7)
				if l < 0 {
					l = 0
				}
				if l > pp.Addr().BitLen() {
					l = pp.Addr().BitLen()
				}
				pp = netip.PrefixFrom(pp.Addr(), l)
			}
		} else {
			a := w.randAddr(fam)
			pp = netip.PrefixFrom(a, w.r.intn(a.BitLen()+1)) // host bits set: the code masks
			if w.r.chance(50) {
				pp = pp.Masked()
			}
		}
		q.key = pp.String()
		q.pfx = pp
	}
	f := 4
	if q.pfx.Addr().Is6() {
		f = 6
	}
	q.toks = fmt.Sprintf("%d %d %d %s", q.opt, f, q.pfx.Bits(), hex.EncodeToString(q.pfx.Addr().AsSlice()))
	w.o.stat(fmt.Sprintf("query_opt_%d", q.opt), 1)
	return q
}

func c02tLookupOpt(opt int) apiutil.LookupOption {
	switch opt {
	case 1:
		return apiutil.LOOKUP_LONGER
	case 2:
		return apiutil.LOOKUP_SHORTER
	}
	return apiutil.LOOKUP_EXACT
}

// expected result of Select, brute force over the oracle map
func (w *c02tW) expectSelect(tab int, view int, adj, best bool, qs []c02tQ) map[string][]string {
	sel := func(l []c02tEnt) []string {
		e := w.expect(l, view, adj)
		if best && !adj && len(e) > 1 {
			e = e[:1]
		}
		return e
	}
	prefixOf := map[string]netip.Prefix{}
	for _, p := range w.pool[c02tFamOf(tab)] {
		prefixOf[p.show] = p.pfx
	}
	out := map[string][]string{}
	if len(qs) == 0 {
		for show, l := range w.want[tab] {
			if e := sel(l); len(e) > 0 {
				out[show] = e
			}
		}
		return out
	}
	for _, q := range qs {
		bestLen, bestShow := -1, ""
		for show, l := range w.want[tab] {
			e := sel(l)
			if len(e) == 0 {
				continue
			}
			p := prefixOf[show]
			switch q.opt {
			case 0:
				if p == q.pfx.Masked() {
					out[show] = e
				}
			case 1:
				if c02tCovers(q.pfx, p) {
					out[show] = e
				}
			case 2:
				if c02tCovers(p, q.pfx) {
					out[show] = e
				}
			case 3:
				if c02tCovers(p, q.pfx) && p.Bits() > bestLen {
					bestLen, bestShow = p.Bits(), show
				}
			}
		}
		if q.opt == 3 && bestLen >= 0 {
			out[bestShow] = sel(w.want[tab][bestShow])
		}
	}
	return out
}

// lookups that visit members of one collision chain several times: a covering longer lookup first
// (fills the chain in the result table), then exact / host / shorter lookups of single members,
// so that setDestination has to REPLACE elements in the middle of a chain
func (w *c02tW) collQueries() []c02tQ {
	g := w.colls[w.r.intn(len(w.colls))]
	mkq := func(opt int, pp netip.Prefix) c02tQ {
		q := c02tQ{opt: opt, pfx: pp, key: pp.String()}
		if opt == 3 {
			q.key = pp.Addr().String()
		}
		f := 4
		if pp.Addr().Is6() {
			f = 6
		}
		q.toks = fmt.Sprintf("%d %d %d %s", opt, f, pp.Bits(), hex.EncodeToString(pp.Addr().AsSlice()))
		w.o.stat(fmt.Sprintf("query_opt_%d", opt), 1)
		return q
	}
	var qs []c02tQ
	if w.r.chance(70) {
		cover := netip.PrefixFrom(g[0].pfx.Addr(), w.r.pick(0, 32, 48)).Masked()
		qs = append(qs, mkq(1, cover))
	}
	for n := 1 + w.r.intn(3); n > 0; n-- {
		m := g[w.r.intn(len(g))]
		qs = append(qs, mkq(w.r.pick(0, 0, 2, 3), m.pfx))
	}
	w.o.stat("select_collision_targeted", 1)
	return qs
}

func (w *c02tW) askSelect(tab int, nq int) { w.askSelectQ(tab, nq, nil) }

func (w *c02tW) askSelectQ(tab int, nq int, fixed []c02tQ) {
	adj := tab >= 3
	fam := c02tFamOf(tab)
	view, best := 0, false
	if !adj {
		if w.r.chance(35) {
			view = w.randView()
		}
		best = w.r.chance(30)
	}
	qs := make([]c02tQ, nq)
	lps := make([]*apiutil.LookupPrefix, nq)
	toks := make([]string, nq)
	for i := range qs {
		if fixed != nil {
			qs[i] = fixed[i]
		} else {
			qs[i] = w.randQuery(fam)
		}
		lps[i] = &apiutil.LookupPrefix{Prefix: qs[i].key, LookupOption: c02tLookupOpt(qs[i].opt)}
		toks[i] = qs[i].toks
	}
	opt := TableSelectOption{ID: w.viewID(view), LookupPrefixes: lps, Best: best}
	var r *Table
	var err error
	pan := func() (s string) {
		defer func() {
			if e := recover(); e != nil {
				s = fmt.Sprint(e)
			}
		}()
		if adj {
			r, err = w.adj.Select(c02tTabFamily(tab), false, opt)
		} else {
			r, err = w.table(tab).Select(opt)
		}
		return ""
	}()
	b2 := func(b bool) int {
		if b {
			return 1
		}
		return 0
	}
	line := fmt.Sprintf("sel %d %d %d %d %d %s", tab, view, b2(adj), b2(best), nq, strings.Join(toks, " "))
	line = strings.TrimRight(line, " ")
	keys := make([]string, nq)
	for i, q := range qs {
		keys[i] = fmt.Sprintf("%d:%s", q.opt, q.key)
	}
	switch {
	case pan != "":
		w.fail("c02t-select-panic", "Select(table %d, view %d, best %v, %v) panicked: %s", tab, view, best, keys, pan)
		w.o.ask("panic", "%s", line)
		// the panic left a shard read lock held: the tables of this history are unusable from here on
		panic(c02tAbort{})
	case err != nil:
		w.fail("c02t-select-error", "Select(table %d, %v) returned an error for well-formed keys: %v", tab, keys, err)
		w.o.ask("error", "%s", line)
		return
	}
	ds := r.GetDestinations()
	want := w.expectSelect(tab, view, adj, best, qs)
	w.checkDests(fmt.Sprintf("Select(view %d, best %v, %v)", view, best, keys), tab, ds, want, adj)
	w.o.ask(fmt.Sprintf("c=%d %s", r.Info().NumCollision, w.listing(ds)), "%s", line)
	acc := "Table.Select"
	if adj {
		acc = "AdjRib.Select"
	}
	what := fmt.Sprintf("table %d view %d best %v %v", tab, view, best, keys)
	w.hold(acc, what, func() string { return w.listing(r.GetDestinations()) })
	w.hold(acc+".GetDestinations", what, func() string { return w.listing(ds) })
	if len(ds) == 0 {
		w.o.stat("select_empty", 1)
	} else {
		w.o.stat("select_nonempty", 1)
	}
	if r.Info().NumCollision > 0 {
		w.o.stat("select_result_with_collision", 1)
	}
}

// a route-server view: the address class of one of the history's sources
func (w *c02tW) byShow(show string) *c02tPfx {
	for _, fam := range []int{4, 6} {
		for _, p := range w.pool[fam] {
			if p.show == show {
				return p
			}
		}
	}
	return nil
}

func (w *c02tW) randView() int { return w.addrClass[w.active[w.r.intn(len(w.active))]] }

// the IPv4-multicast table of the AdjRib (a third family beside the two that also feed the Loc-RIB)
func (w *c02tW) askMC(full bool) {
	w.askAdjInfo(5)
	if full || w.r.chance(50) {
		w.askList(5)
		w.askSelect(5, 0)
	}
}

// ---------------------------------------------------------------- the multi-family Adj-RIB-In

func (w *c02tW) mcAnnounce(p *c02tPfx, rid uint32, rej bool) {
	w.seq++
	tag := w.seq
	rank := w.nextRank(tag)
	w.note("announce (ipv4-multicast, Adj-RIB-In only) %s rid=%d tag=%d", p.pfx, rid, tag)
	ap := w.newPathF(bgp.RF_IPv4_MC, p, 1, rid, rank, false)
	ap.SetRejected(rej)
	w.meta[ap] = c02tMeta{1, tag, rid, uint32(rank >> 32), w.curAttr}
	w.input("AdjRib.Update", fmt.Sprintf("multicast announcement %s rid=%d tag=%d", p.pfx, rid, tag), ap, true)
	rj := 0
	if rej {
		rj = 1
	}
	w.o.op("ann 5 %s 1 %d %d %d %d %d 0", p.tok, rid, rank, tag, rj, w.curAttr)
	w.adj.Update([]*Path{ap})
	w.wantPut(5, p, c02tEnt{src: 1, rid: rid, tag: tag, rank: rank, rej: rej}, true)
	w.recheck()
	w.o.stat("op_mc_announce", 1)
}

func (w *c02tW) mcWithdraw(p *c02tPfx, rid uint32) {
	w.note("withdraw (ipv4-multicast, Adj-RIB-In only) %s rid=%d", p.pfx, rid)
	ap := w.newPathF(bgp.RF_IPv4_MC, p, 1, rid, 0, true)
	w.o.op("wd 5 %s 1 %d 1", p.tok, rid)
	w.adj.Update([]*Path{ap})
	w.wantDel(5, p, 1, rid, true)
	w.recheck()
	w.o.stat("op_mc_withdraw", 1)
}

// mcBatch: ONE AdjRib.Update call carrying several announcements / withdrawals, with the same
// (prefix, path-id) key occurring more than once — withdrawn then announced again, announced then
// withdrawn, announced twice (the second replaces the first), two path ids of one prefix, and the
// withdrawal of a destination's only path followed by a path for the emptied destination.  The model
// is fed the same operations one by one: a batch means its elements in order, nothing else.
func (w *c02tW) mcBatch(ps []*c02tPfx) {
	n := 2 + w.r.intn(4)
	batch := make([]*Path, 0, n)
	type step struct {
		p   *c02tPfx
		rid uint32
		wd  bool
		ent c02tEnt
	}
	steps := make([]step, 0, n)
	var lastP *c02tPfx
	var lastRid uint32
	lastWd := false
	w.note("batch of %d paths in one AdjRib.Update (ipv4-multicast, Adj-RIB-In only)", n)
	for i := 0; i < n; i++ {
		p := ps[w.r.intn(len(ps))]
		rid := uint32(w.r.pick(0, 1, 2))
		if lastP != nil && w.r.chance(60) { // the same key again
			p, rid = lastP, lastRid
		} else if lastP != nil && w.r.chance(30) { // the same prefix, another path id
			p = lastP
		}
		wd := w.r.chance(40)
		if p == lastP && rid == lastRid && w.r.chance(70) {
			wd = !lastWd
		}
		if wd {
			w.note("  batch[%d] withdraw %s rid=%d", i, p.pfx, rid)
			ap := w.newPathF(bgp.RF_IPv4_MC, p, 1, rid, 0, true)
			w.o.op("wd 5 %s 1 %d 1", p.tok, rid)
			batch = append(batch, ap)
			steps = append(steps, step{p: p, rid: rid, wd: true})
		} else {
			w.seq++
			tag := w.seq
			rank := w.nextRank(tag)
			rej := w.r.chance(20)
			w.note("  batch[%d] announce %s rid=%d tag=%d rejected=%v", i, p.pfx, rid, tag, rej)
			ap := w.newPathF(bgp.RF_IPv4_MC, p, 1, rid, rank, false)
			ap.SetRejected(rej)
			w.meta[ap] = c02tMeta{1, tag, rid, uint32(rank >> 32), w.curAttr}
			w.input("AdjRib.Update", fmt.Sprintf("batched multicast announcement %s rid=%d tag=%d", p.pfx, rid, tag), ap, true)
			rj := 0
			if rej {
				rj = 1
			}
			w.o.op("ann 5 %s 1 %d %d %d %d %d 0", p.tok, rid, rank, tag, rj, w.curAttr)
			batch = append(batch, ap)
			steps = append(steps, step{p: p, rid: rid, ent: c02tEnt{src: 1, rid: rid, tag: tag, rank: rank, rej: rej}})
		}
		lastP, lastRid, lastWd = p, rid, wd
	}
	w.adj.Update(batch)
	for _, st := range steps {
		if st.wd {
			w.wantDel(5, st.p, 1, st.rid, true)
		} else {
			w.wantPut(5, st.p, st.ent, true)
		}
	}
	w.recheck()
	w.o.stat("op_mc_batch", 1)
	w.o.stat("op_mc_batch_paths", n)
	for _, st := range steps {
		w.askGet(5, st.p)
	}
}

// withdrawals produced by a partial Adj-RIB-In operation go on to the Loc-RIB (IPv4 / IPv6 unicast only)
func (w *c02tW) propagate(what string, wds []*Path) {
	for _, wd := range wds {
		if wd.GetFamily() == bgp.RF_IPv4_MC {
			continue
		}
		_, tok, _ := c02tTok(nlriToPrefix(wd.GetNlri()))
		p := w.byTok[tok]
		if p == nil {
			w.fail("c02t-unknown-prefix", "%s produced a withdrawal for %s which was never announced", what, nlriToPrefix(wd.GetNlri()))
			continue
		}
		w.o.op("wd %d %s 1 %d 1", c02tLoc(p.fam), p.tok, wd.RemoteID())
		w.multipathMember(c02tLoc(p.fam), p, 1, wd.RemoteID())
		us := w.tm.Update(wd)
		w.wantDel(c02tLoc(p.fam), p, 1, wd.RemoteID(), false)
		w.recheck()
		w.stream(what+" withdrawal", p, us)
	}
}

// Drop / StaleAll / DropStale / MarkLLGRStaleOrDrop on a SUBSET of the AdjRib's families: the families
// named lose / keep exactly what the op log says, and the others keep content AND counters.
//
//	kind 0 Drop, 1 StaleAll, 2 DropStale, 3 MarkLLGRStaleOrDrop (no path carries NO_LLGR: nothing may change)
func (w *c02tW) adjPartial(kind int, tabs []int) {
	fams := make([]bgp.Family, len(tabs))
	for i, tab := range tabs {
		fams[i] = c02tTabFamily(tab)
	}
	name := []string{"Drop", "StaleAll", "DropStale", "MarkLLGRStaleOrDrop"}[kind]
	tabsTok := fmt.Sprint(len(tabs))
	for _, tab := range tabs {
		tabsTok += fmt.Sprintf(" %d", tab)
	}
	w.note("AdjRib.%s(%v)", name, fams)
	w.o.stat("op_adj_partial_"+name, 1)
	if len(tabs) < len(c02tAdjTabs) {
		w.o.stat("op_adj_partial_on_a_subset_of_families", 1)
	}
	count := func(pred func(e c02tEnt) bool) int {
		n := 0
		for _, tab := range tabs {
			for _, l := range w.want[tab] {
				for _, e := range l {
					if pred(e) {
						n++
					}
				}
			}
		}
		return n
	}
	var out []*Path
	exp := 0
	switch kind {
	case 0:
		exp = count(func(c02tEnt) bool { return true })
		out = w.adj.Drop(fams)
		w.o.op("adjdrop %s", tabsTok)
		for _, tab := range tabs {
			w.want[tab] = map[string][]c02tEnt{}
			w.acc[tab] = 0
		}
		w.recheck()
		w.propagate("AdjRib.Drop", out)
	case 1:
		exp = count(func(e c02tEnt) bool { return !e.rej })
		out = w.adj.StaleAll(fams)
		w.o.op("adjstale %s", tabsTok)
		for _, tab := range tabs {
			for _, l := range w.want[tab] {
				for i := range l {
					l[i].stale = true
				}
			}
		}
		w.recheck()
	case 2:
		exp = count(func(e c02tEnt) bool { return e.stale })
		w.o.stat("adj_dropstale_swept_paths", exp)
		out = w.adj.DropStale(fams)
		w.o.op("adjdropstale %s", tabsTok)
		for _, tab := range tabs {
			for show, l := range w.want[tab] {
				var keep []c02tEnt
				for _, e := range l {
					if e.stale {
						if !e.rej {
							w.acc[tab]--
						}
						continue
					}
					keep = append(keep, e)
				}
				if len(keep) == 0 {
					delete(w.want[tab], show)
				} else {
					w.want[tab][show] = keep
				}
			}
		}
		w.recheck()
		w.propagate("AdjRib.DropStale", out)
	case 3:
		exp = count(func(e c02tEnt) bool { return !e.rej })
		out = w.adj.MarkLLGRStaleOrDrop(fams)
		w.recheck()
	}
	if len(out) != exp {
		w.fail("c02t-adj-partial-result", "AdjRib.%s(%v) returned %d paths, the op log says %d", name, fams, len(out), exp)
	}
	for _, x := range out {
		inFams := false
		for _, f := range fams {
			inFams = inFams || x.GetFamily() == f
		}
		if !inFams {
			w.fail("c02t-adj-partial-result", "AdjRib.%s(%v) returned a path of family %s", name, fams, x.GetFamily())
		}
	}
	held := out
	w.hold("AdjRib."+name, fmt.Sprint(fams), func() string { return w.pathsStr(held) })
	// every family of the AdjRib, touched or not: content and counters against the op log and a recount
	for _, tab := range c02tAdjTabs {
		w.askAdjInfo(tab)
		w.askList(tab)
	}
	w.askSelect(3, 0)
	w.askSelect(4, 0)
}

func (w *c02tW) anyStale() bool {
	for _, tab := range c02tAdjTabs {
		for _, l := range w.want[tab] {
			for _, e := range l {
				if e.stale {
					return true
				}
			}
		}
	}
	return false
}

func (w *c02tW) randAdjSubset() []int {
	for {
		var tabs []int
		for _, tab := range c02tAdjTabs {
			if w.r.chance(45) {
				tabs = append(tabs, tab)
			}
		}
		if len(tabs) > 0 {
			return tabs
		}
	}
}

func (w *c02tW) askAll(full bool) {
	if full || w.r.chance(15) {
		w.askMC(full)
	}
	for _, fam := range []int{4, 6} {
		lt, at := c02tLoc(fam), c02tAdj(fam)
		w.askInfo(lt, 0)
		if full || w.r.chance(25) {
			w.askList(lt)
			w.askList(at)
			w.askPaths(lt, w.r.pick(0, 0, w.randView(), w.randView()))
			w.askAdjInfo(at)
			w.askInfo(lt, w.randView())
			w.askSelect(lt, 0)
			w.askSelect(at, 0)
		}
		if len(w.colls) > 0 && w.colls[0][0].fam == fam && (full || w.r.chance(30)) {
			qs := w.collQueries()
			w.askSelectQ(lt, len(qs), qs)
			if w.r.chance(40) {
				qs = w.collQueries()
				w.askSelectQ(at, len(qs), qs)
			}
		}
		if full || w.r.chance(40) {
			w.askSelect(lt, 1+w.r.intn(3))
			if w.r.chance(50) {
				w.askSelect(at, 1+w.r.intn(2))
			}
		}
	}
}

func (w *c02tW) askGroup(p *c02tPfx) {
	w.askGet(c02tLoc(p.fam), p)
	if p.coll >= 0 {
		for _, q := range w.colls[p.coll] {
			if q != p {
				w.askGet(c02tLoc(p.fam), q)
				w.askGet(c02tAdj(p.fam), q)
			}
		}
	}
	if w.r.chance(30) {
		w.askGet(c02tAdj(p.fam), p)
	}
}

// ---------------------------------------------------------------- histories

func (w *c02tW) pick() *c02tPfx {
	// a few hot prefixes per history collect many paths (4 sources x 3 path ids), so that
	// withdrawals and replacements hit the middle of long path lists
	if len(w.hot) > 0 && w.r.chance(40) {
		return w.hot[w.r.intn(len(w.hot))]
	}
	if len(w.colls) > 0 && w.r.chance(50) {
		g := w.colls[w.r.intn(len(w.colls))]
		return g[w.r.intn(len(g))]
	}
	fam := w.r.pick(4, 6)
	return w.pool[fam][w.r.intn(len(w.pool[fam]))]
}

// a path that is in a Loc-RIB table according to the op log
func (w *c02tW) pickPresent() (*c02tPfx, c02tEnt, bool) {
	var cand []*c02tPfx
	coll := w.r.chance(60)
	for _, fam := range []int{4, 6} {
		for _, p := range w.pool[fam] {
			if len(w.want[c02tLoc(fam)][p.show]) > 0 && (!coll || p.coll >= 0) {
				cand = append(cand, p)
			}
		}
	}
	if len(cand) == 0 {
		return nil, c02tEnt{}, false
	}
	if w.r.chance(50) {
		var big []*c02tPfx
		for _, p := range cand {
			if len(w.want[c02tLoc(p.fam)][p.show]) >= 3 {
				big = append(big, p)
			}
		}
		if len(big) > 0 {
			cand = big
		}
	}
	p := cand[w.r.intn(len(cand))]
	l := w.want[c02tLoc(p.fam)][p.show]
	return p, l[w.r.intn(len(l))], true
}

func (w *c02tW) randomHistory(n int) {
	w.reset()
	w.hot = w.hot[:0]
	for i := 0; i < 3; i++ {
		w.hot = append(w.hot, w.pick())
	}
	// the sources of this history: plain ones, or a stratum of near-duplicates (same address in two
	// zones / without zone; one address under several AS, router ids, local ids; IPv4-mapped; same
	// router id at two addresses)
	strata := [][]int{{1, 2, 3, 4}, {1, 5, 6, 7}, {1, 2, 9, 10, 11}, {1, 8, 3, 12}, {5, 6, 2, 9}, {1, 6, 7, 8, 10, 11}}
	w.active = strata[w.r.intn(len(strata))]
	// half of the histories have equal-cost paths (1, 2 or 3 LOCAL_PREF values): multipath sets of several
	// paths, several of one source
	w.lpClasses = w.r.pick(0, 0, 0, 1, 2, 3)
	w.o.stat(fmt.Sprintf("history_local_pref_values_%d", w.lpClasses), 1)
	w.note("sources %v", w.active)
	w.o.stat(fmt.Sprintf("history_sources_%v", w.active), 1)
	for i := 0; i < n; i++ {
		p := w.pick()
		src := w.active[w.r.intn(len(w.active))]
		rid := uint32(w.r.pick(0, 0, 1, 2))
		switch k := w.r.intn(100); {
		case k < 3 && len(w.replays) > 0:
			// the next soft reset in: an object that a local withdrawal took out comes back
			i := w.r.intn(len(w.replays))
			r := w.replays[i]
			w.replays = append(w.replays[:i], w.replays[i+1:]...)
			p = r.p
			w.replay(r)
		case k < 6:
			// soft reset in under a rejecting policy: a stored object leaves by a withdraw CLONE —
			// preferably the only path of its destination
			var cands []c02tReplay
			single := w.r.chance(60)
			for _, fam := range []int{4, 6} {
				for _, q := range w.pool[fam] {
					l := w.want[c02tLoc(fam)][q.show]
					if len(l) == 0 || (single && len(l) != 1) {
						continue
					}
					for _, e := range l {
						if e.obj != nil {
							cands = append(cands, c02tReplay{q, e})
						}
					}
				}
			}
			if len(cands) > 0 {
				c := cands[w.r.intn(len(cands))]
				p = c.p
				w.localWithdraw(c.p, c.e)
				if w.r.chance(50) {
					r := w.replays[len(w.replays)-1]
					w.replays = w.replays[:len(w.replays)-1]
					w.replay(r)
				}
			}
		case k < 10:
			kind := w.r.intn(4)
			if w.anyStale() && w.r.chance(50) {
				kind = 2 // the sweep after a StaleAll
			}
			w.adjPartial(kind, w.randAdjSubset())
		case k < 15:
			q := w.pool[4][w.r.intn(len(w.pool[4]))]
			if w.r.chance(40) { // aim at a multicast destination that exists
				for _, x := range w.pool[4] {
					if len(w.want[5][x.show]) > 0 && w.r.chance(30) {
						q = x
					}
				}
			}
			if w.r.chance(35) {
				w.mcBatch([]*c02tPfx{q, w.pool[4][w.r.intn(len(w.pool[4]))]})
			} else if l := w.want[5][q.show]; len(l) > 0 && w.r.chance(60) {
				w.mcWithdraw(q, l[w.r.intn(len(l))].rid)
			} else {
				w.mcAnnounce(q, rid, w.r.chance(25))
			}
			w.askGet(5, q)
		case k < 60:
			if q, e, ok := w.pickPresent(); ok && w.r.chance(50) {
				p = q // one more path for a destination that exists …
				if w.r.chance(50) {
					src, rid = e.src, e.rid // … or an implicit replacement
					if w.r.chance(45) {
						// … that changes nothing the decision process looks at: same LOCAL_PREF, same age,
						// another community (cost, membership and position in the multipath set stay)
						w.announceX(p, src, rid, w.r.chance(20), e.rank, e.attr+1+uint32(w.r.intn(2)))
						w.o.stat("op_attribute_only_replacement", 1)
						break
					}
				}
			}
			w.announce(p, src, rid, w.r.chance(20))
		case k < 97:
			// withdraw: mostly aimed at something that is there (preferably in a collision chain)
			if w.r.chance(75) {
				if q, e, ok := w.pickPresent(); ok {
					p, src, rid = q, e.src, e.rid
				}
			}
			w.withdraw(p, src, rid, w.r.chance(70))
			if w.r.chance(15) {
				w.withdraw(p, src, rid, w.r.chance(70)) // duplicate withdraw
				w.o.stat("op_duplicate_withdraw", 1)
			}
		default:
			w.peerDown(src)
		}
		w.askGroup(p)
		w.askAll(false)
	}
	w.askAll(true)
	for _, fam := range []int{4, 6} {
		for _, p := range w.pool[fam] {
			w.askGet(c02tLoc(fam), p)
			w.askGet(c02tAdj(fam), p)
			if fam == 4 {
				w.askGet(5, p)
			}
		}
	}
}

// every collision group in both insertion orders and both deletion orders, with re-insertion,
// with and without the local-id leak that keeps an emptied destination in its bucket
func (w *c02tW) collisionScenarios() {
	for _, g := range w.colls {
		for _, order := range [][]int{{0, 1}, {1, 0}} {
			for _, delFirst := range []int{0, 1} {
				for _, dropped := range []bool{true, false} {
					w.guarded(func() {
						w.reset()
						a, b := g[order[0]], g[order[1]]
						w.note("scenario group=%s order=%v delete=%d dropped=%v", a.pfx, order, delFirst, dropped)
						w.announce(a, 1, 0, false)
						w.askGroup(a)
						w.announce(b, 2, 1, false)
						w.askGroup(b)
						for _, x := range g[2:] { // further members of a three-way group
							w.announce(x, 3, 0, false)
						}
						w.announce(a, 2, 0, false)
						w.askAll(true)
						del, keep := a, b
						if delFirst == 1 {
							del, keep = b, a
						}
						for _, e := range append([]c02tEnt{}, w.want[c02tLoc(del.fam)][del.show]...) {
							w.withdraw(del, e.src, e.rid, dropped)
						}
						w.askGroup(del)
						w.askGroup(keep)
						w.askAll(true)
						w.announce(del, 3, 2, false) // re-insert after delete
						w.askGroup(del)
						w.askAll(true)
						for _, e := range append([]c02tEnt{}, w.want[c02tLoc(keep.fam)][keep.show]...) {
							w.withdraw(keep, e.src, e.rid, true)
						}
						w.withdraw(keep, 4, 0, true) // duplicate / never announced
						w.askGroup(keep)
						w.askAll(true)
						w.peerDown(3)
						w.peerDown(1)
						w.askGroup(del)
						w.askAll(true)
					})
				}
			}
		}
	}
}

// keys the code must refuse (or answer with nothing) without crashing
func (w *c02tW) malformedKeys() {
	w.reset()
	w.announce(w.pool[4][3], 2, 0, false)
	w.announce(w.pool[6][3], 2, 0, false)
	type c struct {
		tab     int
		key     string
		opt     apiutil.LookupOption
		wantErr bool
	}
	for _, k := range []c{
		{1, "10.0.0.0/33", apiutil.LOOKUP_EXACT, true},
		{1, "bogus", apiutil.LOOKUP_EXACT, true},
		{1, "10.0.0.1", apiutil.LOOKUP_LONGER, true},
		{1, "10.0.0.1", apiutil.LOOKUP_SHORTER, true},
		{2, "2001:db8::/129", apiutil.LOOKUP_SHORTER, true},
		{2, "10.0.0.1", apiutil.LOOKUP_EXACT, false},        // IPv4 host address asked of the IPv6 table
		{1, "2001:db8::1", apiutil.LOOKUP_EXACT, false},     // and the other way round
		{2, "::ffff:10.0.0.1", apiutil.LOOKUP_EXACT, false}, // IPv4-mapped
		{1, "10.0.0.0/8", apiutil.LOOKUP_EXACT, false},
	} {
		var r *Table
		var err error
		pan := func() (s string) {
			defer func() {
				if e := recover(); e != nil {
					s = fmt.Sprint(e)
				}
			}()
			r, err = w.table(k.tab).Select(TableSelectOption{LookupPrefixes: []*apiutil.LookupPrefix{{Prefix: k.key, LookupOption: k.opt}}})
			return ""
		}()
		switch {
		case pan != "":
			w.fail("c02t-select-panic", "Select(table %d, key %q opt %d) panicked: %s", k.tab, k.key, k.opt, pan)
			w.reset()
			w.announce(w.pool[4][3], 2, 0, false)
			w.announce(w.pool[6][3], 2, 0, false)
		case k.wantErr && err == nil:
			w.fail("c02t-select-accepts-malformed-key", "Select(table %d, key %q opt %d) returned %d destinations and no error", k.tab, k.key, k.opt, len(r.GetDestinations()))
		case !k.wantErr && err != nil:
			w.fail("c02t-select-error", "Select(table %d, key %q opt %d): %v", k.tab, k.key, k.opt, err)
		}
		w.o.stat("malformed_key_cases", 1)
	}
}

// corpus: the three defects of the unchanged tree (fixed on branch wt-C02T), deterministic, run first
func (w *c02tW) corpus() {
	// 1. whole-table Select (= every ListPath) with two destinations under one tableKey:
	//    setDestination reported the collision through the result table's nil logger
	w.guarded(func() {
		w.reset()
		w.note("corpus 1: Select() of a table holding a colliding pair")
		g := w.colls[0]
		w.announce(g[0], 2, 0, false)
		w.announce(g[1], 2, 0, false)
		w.askSelect(c02tLoc(g[0].fam), 0)
		qs := w.collQueries()
		w.askSelectQ(c02tLoc(g[0].fam), len(qs), qs)
	})
	// 2. AdjRib.TableInfo counted paths as destinations: one prefix received with two path ids
	w.guarded(func() {
		w.reset()
		w.note("corpus 2: one Adj-RIB-In destination with two ADD-PATH ids")
		p := w.pool[4][5]
		w.announce(p, 1, 1, false)
		w.announce(p, 1, 2, false)
		w.askAdjInfo(c02tAdj(4))
		w.askList(c02tAdj(4))
	})
	// 3. a bare IPv4 address asked of the IPv6 table: see malformedKeys
	// 4. (seeded change C02-E) readers get snapshots: three and more paths per destination, every reader
	//    asked, then the best / a middle path withdrawn or replaced while the readers' values are held
	w.guarded(func() {
		w.reset()
		w.note("corpus 4: lookup results held across a withdrawal / replacement of a non-last path")
		for _, p := range []*c02tPfx{w.pool[4][5], w.colls[0][0], w.colls[0][1]} {
			for src := 1; src <= 4; src++ {
				w.announce(p, src, 0, false)
			}
			w.announce(p, 1, 1, false)
			w.announce(p, 1, 2, false)
			w.askGroup(p)
			w.askGet(c02tAdj(p.fam), p)
			w.askAll(true)
			// the best path of the op log (highest rank) goes away, then a middle one is replaced
			l := append([]c02tEnt{}, w.want[c02tLoc(p.fam)][p.show]...)
			sort.Slice(l, func(i, j int) bool { return l[i].rank > l[j].rank })
			w.withdraw(p, l[0].src, l[0].rid, true)
			w.askGroup(p)
			w.askGet(c02tAdj(p.fam), p)
			w.askAll(true)
			w.announce(p, l[2].src, l[2].rid, false)
			w.withdraw(p, 1, 0, true) // first of the Adj-RIB-In list (unless it was the best above)
			w.withdraw(p, 1, 1, true)
			w.askAll(true)
		}
	})
}

// corpus, second part: the classes of the seeded changes C02-K and C02-L, deterministic
func (w *c02tW) corpus2() {
	// 5. near-duplicate sources on one destination: each keeps its own path through announcements,
	//    replacements, withdrawals and a peer-down of the others
	for _, set := range [][]int{{5, 6, 7}, {1, 8}, {2, 9, 10, 11}, {3, 12}} {
		set := set
		w.guarded(func() {
			w.reset()
			w.active = set
			w.note("corpus 5: near-duplicate sources %v", set)
			for _, p := range []*c02tPfx{w.pool[4][5], w.colls[0][0]} {
				for _, s := range set {
					w.announce(p, s, 0, false)
				}
				w.askGroup(p)
				w.askAll(true)
				w.announce(p, set[len(set)-1], 0, false) // replacement by the last leaves the others
				w.withdraw(p, set[0], 0, true)           // withdrawal by the first leaves the others
				w.askGroup(p)
				w.askAll(true)
				w.announce(p, set[0], 0, false)
			}
			w.peerDown(set[len(set)-1])
			w.askAll(true)
		})
	}
	// 6. partial operations on the three-family Adj-RIB-In
	w.guarded(func() {
		w.reset()
		w.note("corpus 6: Drop / StaleAll / DropStale on a subset of the AdjRib's families")
		for _, p := range []*c02tPfx{w.pool[4][5], w.pool[4][8], w.pool[6][3], w.colls[0][0], w.colls[0][1]} {
			w.announce(p, 1, 0, false)
			w.announce(p, 1, 1, p.fam == 6)
			if p.fam == 4 {
				w.mcAnnounce(p, 0, false)
				w.mcAnnounce(p, 2, true)
			}
		}
		w.askAll(true)
		w.adjPartial(1, []int{3})             // graceful restart keeps IPv4 …
		w.adjPartial(0, []int{4})             // … and drops IPv6
		w.announce(w.pool[4][5], 1, 0, false) // one route comes back fresh
		w.adjPartial(3, []int{5})
		w.adjPartial(2, []int{3}) // the sweep
		w.adjPartial(1, []int{3, 5})
		w.adjPartial(2, []int{5})
		w.adjPartial(0, []int{3, 5})
		w.askAll(true)
	})
}

// corpus, third part (class of the seeded change C02-O): multipath x ADD-PATH receive.  One source
// contributes several equal-cost paths (path ids 0, 1, 2), a second source one more; the first / a
// middle / the last member of the multipath set is withdrawn, replaced by a cheaper and by an
// equal path, a better path arrives and leaves, the peer goes down — after every step the stream
// of GetMultiBestPathDiff / GetChanges replayed on a consumer must give the table's multipath set.
func (w *c02tW) corpus3() {
	for _, victim := range []int{0, 1, 2, 3} {
		victim := victim
		w.guarded(func() {
			w.reset()
			w.lpClasses = 1
			w.active = []int{1, 2, 5, 6}
			w.note("corpus 7: multipath set with several paths of one source, member %d withdrawn first", victim)
			for _, p := range []*c02tPfx{w.pool[4][5], w.colls[0][0]} {
				w.announce(p, 2, 0, false)
				w.announce(p, 2, 1, false)
				w.announce(p, 2, 2, false)
				w.announce(p, 5, 0, false)
				w.askAll(true)
				l := append([]c02tEnt{}, w.want[c02tLoc(p.fam)][p.show]...)
				sort.Slice(l, func(i, j int) bool { return l[i].rank > l[j].rank })
				w.withdraw(p, l[victim].src, l[victim].rid, true)
				w.announce(p, l[victim].src, l[victim].rid, false) // back, with another age
				w.announce(p, 2, 1, false)                         // implicit replace inside the set
				w.lpClasses = 3
				w.announce(p, 6, 0, false) // any cost: may shrink the set to one path, or join it, or stay outside
				w.announce(p, 2, 2, false)
				w.withdraw(p, 6, 0, true)
				w.lpClasses = 1
				w.announce(p, 2, 2, false)
				w.askAll(true)
			}
			w.peerDown(2)
			w.peerDown(5)
			w.askAll(true)
		})
	}
}

// corpus, fourth part (classes of the seeded changes C03-Q and C03-R)
func (w *c02tW) corpus4() {
	// 8. attribute-only replacement of the member at every position of a multipath set of three
	for pos := 0; pos < 3; pos++ {
		pos := pos
		w.guarded(func() {
			w.reset()
			w.lpClasses = 1
			w.active = []int{1, 2, 5, 6}
			w.note("corpus 8: attribute-only replacement of multipath member %d", pos)
			for _, p := range []*c02tPfx{w.pool[4][5], w.colls[0][0]} {
				w.announce(p, 2, 1, false)
				w.announce(p, 2, 2, false)
				w.announce(p, 5, 0, false)
				l := append([]c02tEnt{}, w.want[c02tLoc(p.fam)][p.show]...)
				sort.Slice(l, func(i, j int) bool { return l[i].rank > l[j].rank })
				e := l[pos]
				w.announceX(p, e.src, e.rid, false, e.rank, e.attr+1)
				w.announceX(p, e.src, e.rid, false, e.rank, e.attr+2)
				w.askGroup(p)
				w.askAll(true)
			}
		})
	}
	// 9. the only path of a destination leaves by a local withdrawal (a clone of the stored object, as
	//    soft reset in under a rejecting import policy makes one); the same object is handed in again:
	//    alone, and after another source announced the prefix
	for _, other := range []bool{false, true} {
		other := other
		w.guarded(func() {
			w.reset()
			w.note("corpus 9: local withdrawal of the only path, then the same object again (other source in between: %v)", other)
			for _, p := range []*c02tPfx{w.pool[4][5], w.colls[0][1]} {
				w.announce(p, 1, 0, false)
				e := w.want[c02tLoc(p.fam)][p.show][0]
				w.localWithdraw(p, e)
				w.askGroup(p)
				if other {
					w.announce(p, 2, 0, false)
				}
				r := w.replays[len(w.replays)-1]
				w.replays = w.replays[:len(w.replays)-1]
				w.replay(r)
				w.askGroup(p)
				w.askAll(true)
				// and once more, with two paths in the destination at removal time
				w.announce(p, 3, 0, false)
				w.localWithdraw(p, e)
				r = w.replays[len(w.replays)-1]
				w.replays = w.replays[:len(w.replays)-1]
				w.replay(r)
				w.askAll(true)
			}
		})
	}
}

func TestVerifC02T(t *testing.T) {
	o := vOpen(t)
	defer o.close()
	w := &c02tW{t: t, o: o, r: &vRand{s: o.seed*7919 + 11}}
	// use-multiple-paths on: GetChanges / GetMultiBestPathDiff / GetBestMultiPathList are live
	mpWas := UseMultiplePaths.Enabled
	UseMultiplePaths.Enabled = true
	defer func() { UseMultiplePaths.Enabled = mpWas }()
	w.setup()
	o.sample(fmt.Sprintf("pool: %d IPv4 + %d IPv6 prefixes, %d collision groups; e.g. %s and %s share key %d",
		len(w.pool[4]), len(w.pool[6]), len(w.colls), c02tCollisions[0][0], c02tCollisions[0][1], w.colls[0][0].key))
	w.corpus()
	w.corpus2()
	w.corpus3()
	w.corpus4()
	w.malformedKeys()
	w.collisionScenarios()
	histories, steps := 40, 60
	if o.thorough {
		histories, steps = 300, 90
	}
	for i := 0; i < histories; i++ {
		n := steps/2 + w.r.intn(steps)
		w.guarded(func() { w.randomHistory(n) })
		o.stat("histories", 1)
	}
}
