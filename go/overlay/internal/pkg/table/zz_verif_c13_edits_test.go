//go:build verif

package table

// C13 harness, part 2: edit histories for ALL THREE set kinds (standard, extended, large) driven by
// one planner, so that no kind lacks a history shape another has; and the extended-community sweep.
//
// Every history evaluates after EVERY step, under all three options, on communities aimed at every
// pattern the set has EVER held (so that a stale compiled form / stale any-index keeps "matching" what
// was removed), against the regular expressions of the CURRENT list (c13Ref: the reference loop; an
// empty list gives ANY=false, ALL=false, INVERT=true).

import (
	"fmt"
	"regexp"
	"sort"
	"strings"

	"github.com/osrg/gobgp/v4/pkg/config/oc"
	"github.com/osrg/gobgp/v4/pkg/packet/bgp"
)

type c13Step struct {
	Kind int      `json:"kind"` // 0 Append, 1 Remove, 2 Replace
	Raws []string `json:"patterns"`
}

type c13Hist struct {
	Shape string    `json:"shape"`
	Base  []string  `json:"created_with"`
	Steps []c13Step `json:"steps"`
}

// history plans an edit history; `pool(fast)` yields one configured pattern that compiles and is in
// the modelled fragment (fast = prefer index-promoted shapes).
//
// shapes: random | drain (remove the members one by one down to the empty list, then re-add) |
// replace-empty (Replace by an empty set, re-add, Replace by empty again) | remove-all (one Remove of
// the whole list, re-add, remove again) | from-empty (created empty, filled, emptied, replaced)
func (g *c13G) history(i int, pool func(fast bool) string) c13Hist {
	some := func(lo, hi int, fastPct int) []string {
		n := lo + g.r.intn(hi-lo+1)
		out := make([]string, n)
		for k := range out {
			out[k] = pool(g.r.chance(fastPct))
		}
		return out
	}
	// all-index-promoted sets matter most: only then is the any-index the whole story
	fastPct := g.r.pick(100, 100, 100, 60, 0)
	switch i % 5 {
	case 1:
		base := some(1, 4, fastPct)
		h := c13Hist{Shape: "drain", Base: base}
		for _, k := range g.r.perm(len(base)) {
			h.Steps = append(h.Steps, c13Step{1, []string{base[k]}})
		}
		re := some(1, 2, fastPct)
		h.Steps = append(h.Steps, c13Step{0, re})
		for _, k := range g.r.perm(len(re)) {
			h.Steps = append(h.Steps, c13Step{1, []string{re[k]}})
		}
		return h
	case 2:
		base := some(1, 4, fastPct)
		return c13Hist{Shape: "replace-empty", Base: base, Steps: []c13Step{
			{2, nil}, {0, some(1, 2, fastPct)}, {2, nil}, {2, some(1, 3, fastPct)}, {2, nil}}}
	case 3:
		base := some(1, 4, fastPct)
		re := some(1, 3, fastPct)
		return c13Hist{Shape: "remove-all", Base: base, Steps: []c13Step{
			{1, append([]string(nil), base...)}, {0, re}, {1, append(append([]string(nil), re...), base...)}, {0, base[:1]}}}
	case 4:
		fill := some(1, 3, fastPct)
		return c13Hist{Shape: "from-empty", Base: nil, Steps: []c13Step{
			{0, fill}, {1, append([]string(nil), fill...)}, {2, some(1, 3, fastPct)}, {2, nil}, {0, nil}, {1, nil}}}
	}
	h := c13Hist{Shape: "random", Base: some(0, 3, 50)}
	for k := 0; k < 4; k++ {
		st := c13Step{g.r.intn(3), some(0, 3, 50)}
		if st.Kind == 1 && len(h.Base) > 0 && g.r.chance(60) {
			// remove a member, or (extended sets) its twin of the other sub-type, which is NOT a member
			m := h.Base[g.r.intn(len(h.Base))]
			switch {
			case strings.HasPrefix(m, "rt:") && g.r.chance(50):
				m = "soo:" + m[3:]
			case strings.HasPrefix(m, "soo:") && g.r.chance(50):
				m = "rt:" + m[4:]
			}
			st.Raws = append(st.Raws, m)
		}
		h.Steps = append(h.Steps, st)
	}
	return h
}

func (h *c13Hist) allRaws() []string {
	all := append([]string(nil), h.Base...)
	for _, st := range h.Steps {
		all = append(all, st.Raws...)
	}
	return all
}

// the harness's own idea of Append / Remove / Replace on a list of keys (Remove compares `same`)
func c13ApplyEdit[T any](cur []T, kind int, arg []T, same func(a, b T) bool) []T {
	switch kind {
	case 0:
		return append(cur, arg...)
	case 1:
		var kept []T
		for _, x := range cur {
			found := false
			for _, y := range arg {
				if same(x, y) {
					found = true
				}
			}
			if !found {
				kept = append(kept, x)
			}
		}
		return kept
	}
	return append([]T(nil), arg...)
}

// ---------------------------------------------------------------------------------------------
// standard
// ---------------------------------------------------------------------------------------------

func (h *c13H) stdPool(fast bool) string {
	g := h.g
	for {
		var raw string
		if fast {
			a, l := g.as(), g.loc()
			raw = g.pickS(fmt.Sprintf("%d:%d", a, l), fmt.Sprintf("^%d:.*$", a), fmt.Sprintf(`^\d+:(%d|%d)$`, l, g.loc()+1),
				fmt.Sprintf("^%d:(%d|%d)$", a, l, g.loc()+2), fmt.Sprintf(`^%d:%d\d$`, a, l%100), fmt.Sprintf(`^[0-9]+:%d$`, l),
				fmt.Sprintf(`^%d:\d+$`, a), fmt.Sprint(a<<16|l))
		} else {
			_, raw = g.stdPattern()
		}
		if c13ListStatus([]string{raw}, c13PrepSource) != "ok" {
			continue
		}
		if s, err := c13NewSet([]string{raw}); err != nil || s == nil {
			continue
		}
		return raw
	}
}

func (h *c13H) stdHistory(id *int, hist c13Hist) {
	o, g := h.o, h.g
	mk := func(raws []string) *CommunitySet {
		s, err := c13NewSet(raws)
		if err != nil || s == nil {
			o.fail("std-set-of-valid-patterns-rejected", map[string]any{"configured": raws, "error": fmt.Sprint(err)})
			return nil
		}
		return s
	}
	srcs := func(s *CommunitySet) []string {
		out := make([]string, 0, len(s.list))
		for _, re := range s.list {
			out = append(out, re.String())
		}
		return out
	}
	base := mk(hist.Base)
	if base == nil {
		return
	}
	*id++
	baseID := *id
	o.op("set %d %s", baseID, c13HexList(hist.Base))
	o.stat("std_hist_"+hist.Shape, 1)
	expect := srcs(base)
	all := hist.allRaws()
	check := func(where string) bool {
		got := base.List()
		if strings.Join(got, "\x00") != strings.Join(expect, "\x00") {
			o.fail("std-edit-list-wrong", map[string]any{"history": hist, "at": where, "got": got, "want": expect})
			return false
		}
		if len(got) == 0 {
			o.stat("std_hist_reached_empty", 1)
		}
		if len(base.matchers) != len(base.list) {
			o.fail("std-edit-compiled-form-stale", map[string]any{"history": hist, "at": where, "matchers": len(base.matchers), "list": len(base.list)})
			return false
		}
		fresh, _ := buildCommunityMatchers(base.list)
		modes := make([]string, len(base.matchers))
		for i, m := range base.matchers {
			modes[i] = fmt.Sprint(m.mode)
			if m.mode != fresh[i].mode || m.asn != fresh[i].asn || m.exact != fresh[i].exact || m.listIndex != fresh[i].listIndex {
				o.fail("std-edit-compiled-form-stale", map[string]any{"history": hist, "at": where, "index": i})
				return false
			}
		}
		srcHex := make([]string, len(got))
		for i := range got {
			srcHex[i] = c13Hex(got[i])
		}
		o.ask(fmt.Sprintf("%d %s | %s", len(got), strings.Join(modes, " "), strings.Join(srcHex, " ")), "sdump %d", baseID)
		// evaluation after this step: aimed at everything the set has ever held
		for k := 0; k < 3; k++ {
			comms := h.stdComms(all, 1+g.r.intn(3))
			if k == 2 {
				comms = h.stdComms(all, g.r.intn(2))
			}
			p := c13Path(comms, nil, nil)
			for opt := range c13Opts {
				res := (&CommunityCondition{set: base, option: c13Opts[opt]}).Evaluate(p, nil)
				want := c13Ref(opt, len(base.list), func(i int) bool {
					for _, c := range comms {
						if base.list[i].MatchString(c13Text(c)) {
							return true
						}
					}
					return false
				})
				if res != want {
					o.fail(fmt.Sprintf("std-evaluate-after-edit-differs-from-regexp:opt%d", opt),
						map[string]any{"history": hist, "at": where, "current_list": got, "communities": comms, "evaluate": res, "regexp_says": want})
					return false
				}
				o.ask(c13B(res), "sev %d %d %s", baseID, opt, c13List(comms))
				o.stat(fmt.Sprintf("std_hist_ev_opt%d_%s", opt, c13B(res)), 1)
			}
		}
		return true
	}
	if !check("created") {
		return
	}
	for n, st := range hist.Steps {
		arg := mk(st.Raws)
		if arg == nil {
			return
		}
		*id++
		argID := *id
		o.op("set %d %s", argID, c13HexList(st.Raws))
		var err error
		switch st.Kind {
		case 0:
			err = base.Append(arg)
		case 1:
			err = base.Remove(arg)
		default:
			err = base.Replace(arg)
		}
		if err != nil {
			o.fail("std-edit-error", map[string]any{"history": hist, "step": n, "error": err.Error()})
			return
		}
		expect = c13ApplyEdit(expect, st.Kind, srcs(arg), func(a, b string) bool { return a == b })
		o.op("edit %d %d %d", baseID, st.Kind, argID)
		o.stat(fmt.Sprintf("std_edit_kind%d", st.Kind), 1)
		if !check(fmt.Sprintf("after step %d", n)) {
			return
		}
	}
}

// ---------------------------------------------------------------------------------------------
// extended
// ---------------------------------------------------------------------------------------------

func (h *c13H) extPool(fast bool) string {
	g := h.g
	for {
		var raw string
		if fast {
			a, l := g.as(), g.loc()
			raw = g.pickS("rt:", "rt:", "soo:") + g.pickS(fmt.Sprintf("%d:%d", a, l), fmt.Sprintf("^%d:.*$", a), fmt.Sprintf(`^\d+:(%d|%d)$`, l, g.loc()+1),
				fmt.Sprintf("^%d:(%d|%d)$", a, l, g.loc()+2), fmt.Sprintf("%d:%d", a, 65536+l), fmt.Sprintf(`^[0-9]+:%d$`, l), fmt.Sprintf(`^%d:\d+$`, a))
		} else {
			_, raw = g.extPattern()
		}
		if c13XListStatus([]string{raw}) != "ok" {
			continue
		}
		if s, err := c13NewXSet([]string{raw}); err != nil || s == nil {
			continue
		}
		return raw
	}
}

type c13XEnt struct {
	sub bgp.ExtendedCommunityAttrSubType
	src string
}

func (h *c13H) extHistory(id *int, hist c13Hist) {
	o, g := h.o, h.g
	mk := func(raws []string) *ExtCommunitySet {
		s, err := c13NewXSet(raws)
		if err != nil || s == nil {
			o.fail("ext-set-of-valid-patterns-rejected", map[string]any{"configured": raws, "error": fmt.Sprint(err)})
			return nil
		}
		return s
	}
	ents := func(s *ExtCommunitySet) []c13XEnt {
		out := make([]c13XEnt, 0, len(s.list))
		for i, re := range s.list {
			out = append(out, c13XEnt{s.subtypeList[i], re.String()})
		}
		return out
	}
	base := mk(hist.Base)
	if base == nil {
		return
	}
	*id++
	baseID := *id
	o.op("xset %d %s", baseID, c13HexList(hist.Base))
	o.stat("ext_hist_"+hist.Shape, 1)
	expect := ents(base)
	all := hist.allRaws()
	check := func(where string) bool {
		if len(base.subtypeList) != len(base.list) || len(base.matchers) != len(base.list) {
			o.fail("ext-edit-compiled-form-stale", map[string]any{"history": hist, "at": where})
			return false
		}
		got := ents(base)
		if fmt.Sprint(got) != fmt.Sprint(expect) {
			o.fail("ext-edit-list-wrong", map[string]any{"history": hist, "at": where, "got": fmt.Sprint(got), "want": fmt.Sprint(expect)})
			return false
		}
		if len(got) == 0 {
			o.stat("ext_hist_reached_empty", 1)
		}
		fresh := buildExtCommunityMatchers(base.list, base.subtypeList)
		var parts, modes []string
		for i, e := range got {
			m := base.matchers[i]
			if m.mode != fresh[i].mode || m.subtype != fresh[i].subtype || m.exactAS != fresh[i].exactAS || m.exactLocalAdmin != fresh[i].exactLocalAdmin {
				o.fail("ext-edit-compiled-form-stale", map[string]any{"history": hist, "at": where, "index": i})
				return false
			}
			parts = append(parts, fmt.Sprintf("%d:%s", e.sub, c13Hex(e.src)))
			modes = append(modes, fmt.Sprint(m.mode))
		}
		o.ask(fmt.Sprintf("%d %s | %s", len(got), strings.Join(modes, " "), strings.Join(parts, " ")), "xsdump %d", baseID)
		for k := 0; k < 3; k++ {
			es := h.extECs(all, 1+g.r.intn(3))
			if k == 2 {
				es = h.extECs(all, g.r.intn(2))
			}
			p := c13Path(nil, es, nil)
			for opt := range c13Opts {
				res := (&ExtCommunityCondition{set: base, option: c13Opts[opt]}).Evaluate(p, nil)
				want := c13Ref(opt, len(base.list), func(i int) bool {
					for _, x := range es {
						if isTransitiveType(x) && subTypeEqual(x, base.subtypeList[i]) && base.list[i].MatchString(x.String()) {
							return true
						}
					}
					return false
				})
				if res != want {
					var txt []string
					for _, x := range es {
						txt = append(txt, fmt.Sprintf("%T %s", x, x.String()))
					}
					o.fail(fmt.Sprintf("ext-evaluate-after-edit-differs-from-regexp:opt%d", opt),
						map[string]any{"history": hist, "at": where, "current_list": fmt.Sprint(got), "communities": txt, "evaluate": res, "regexp_says": want})
					return false
				}
				o.ask(c13B(res), "xsev %d %d %s", baseID, opt, c13ECList(es))
				o.stat(fmt.Sprintf("ext_hist_ev_opt%d_%s", opt, c13B(res)), 1)
			}
		}
		return true
	}
	if !check("created") {
		return
	}
	for n, st := range hist.Steps {
		arg := mk(st.Raws)
		if arg == nil {
			return
		}
		*id++
		argID := *id
		o.op("xset %d %s", argID, c13HexList(st.Raws))
		var err error
		switch st.Kind {
		case 0:
			err = base.Append(arg)
		case 1:
			err = base.Remove(arg)
		default:
			err = base.Replace(arg)
		}
		if err != nil {
			o.fail("ext-edit-error", map[string]any{"history": hist, "step": n, "error": err.Error()})
			return
		}
		// a member is a sub-type plus a pattern: "rt:65000:1" does not remove "soo:65000:1"
		expect = c13ApplyEdit(expect, st.Kind, ents(arg), func(a, b c13XEnt) bool { return a == b })
		o.op("xedit %d %d %d", baseID, st.Kind, argID)
		o.stat(fmt.Sprintf("ext_edit_kind%d", st.Kind), 1)
		if !check(fmt.Sprintf("after step %d", n)) {
			return
		}
	}
}

// full sweep for extended communities: two-octet ECs of the pattern's sub-type, the ASes the pattern
// mentions and neighbours x all 65536 low local-admin values + values above 65535 with the same low bits
func (h *c13H) sweepExt(raw string) {
	s, err := c13NewXSet([]string{raw})
	if err != nil || s == nil || len(s.matchers) != 1 {
		return
	}
	m, re, sub := s.matchers[0], s.list[0], s.subtypeList[0]
	ases := map[uint32]bool{0: true, 65535: true}
	for _, n := range c13Numbers(raw) {
		ases[n] = true
		ases[(n+1)&0xffff] = true
	}
	keys := make([]uint32, 0, len(ases))
	for a := range ases {
		keys = append(keys, a)
	}
	sort.Slice(keys, func(i, j int) bool { return keys[i] < keys[j] })
	if len(keys) > 6 {
		keys = keys[:6]
	}
	for _, a := range keys {
		for l := uint32(0); l < 65536+4096; l++ {
			la := l
			if l >= 65536 {
				la = (l-65536)*16 + 65536*uint32(1+l%3) // above 65535, low bits spread over the range
			}
			ec := bgp.NewTwoOctetAsSpecificExtended(sub, uint16(a), la, true)
			var str string
			got := m.matchesExtCommunity(ec, &str)
			want := re.MatchString(ec.String())
			if got != want {
				h.o.fail(fmt.Sprintf("ext-matcher-differs-from-regexp:mode%d", m.mode),
					map[string]any{"configured": []string{raw}, "regexp": re.String(), "community": ec.String(), "matcher": got, "regexp_says": want, "found_by": "sweep"})
				return
			}
		}
		h.o.stat("ext_sweep_values", 65536+4096)
	}
}

// ---------------------------------------------------------------------------------------------
// large
// ---------------------------------------------------------------------------------------------

func c13LargeSource(raw string) string {
	if _regexpCommunityLarge.MatchString(raw) {
		return "^" + raw + "$"
	}
	return raw
}

func (h *c13H) largePool(fast bool) string {
	g := h.g
	for {
		a, b, c := g.as(), g.loc(), g.loc()
		raw := g.pickS(fmt.Sprintf("%d:%d:%d", a, b, c), fmt.Sprintf("^%d:%d:.*$", a, b), fmt.Sprintf(`^%d:\d+:%d$`, a, c),
			fmt.Sprintf(`^\d+:(%d|%d):\d+$`, b, c), fmt.Sprintf("%d:.*", a))
		if !fast {
			raw = g.pickS(raw, fmt.Sprintf("%d:%d", a, b), fmt.Sprintf("0%d:%d:%d", a, b, c), g.rx())
		}
		src := c13LargeSource(raw)
		if !c13AllASCII(src) || c13Lex(src) != "ok" {
			continue
		}
		if _, err := regexp.Compile(src); err != nil {
			continue
		}
		return raw
	}
}

func (h *c13H) largeHistory(hist c13Hist) {
	o, g := h.o, h.g
	mk := func(raws []string) *LargeCommunitySet {
		s, err := NewLargeCommunitySet(oc.LargeCommunitySet{LargeCommunitySetName: "s", LargeCommunityList: raws})
		if err != nil || s == nil {
			o.fail("large-set-of-valid-patterns-rejected", map[string]any{"configured": raws, "error": fmt.Sprint(err)})
			return nil
		}
		return s
	}
	srcs := func(s *LargeCommunitySet) []string {
		out := make([]string, 0, len(s.list))
		for _, re := range s.list {
			out = append(out, re.String())
		}
		return out
	}
	base := mk(hist.Base)
	if base == nil {
		return
	}
	o.stat("large_hist_"+hist.Shape, 1)
	expect := srcs(base)
	var hints [][]uint32
	for _, r := range hist.allRaws() {
		hints = append(hints, c13Numbers(r))
	}
	check := func(where string) bool {
		got := base.List()
		if strings.Join(got, "\x00") != strings.Join(expect, "\x00") {
			o.fail("large-edit-list-wrong", map[string]any{"history": hist, "at": where, "got": got, "want": expect})
			return false
		}
		if len(got) == 0 {
			o.stat("large_hist_reached_empty", 1)
		}
		for k := 0; k < 3; k++ {
			m := 1 + g.r.intn(3)
			if k == 2 {
				m = g.r.intn(2)
			}
			lcs := make([]*bgp.LargeCommunity, m)
			nums := make([]uint32, 0, 3*m)
			for i := range lcs {
				var hs []uint32
				if len(hints) > 0 {
					hs = hints[g.r.intn(len(hints))]
				}
				v := func(pos int) uint32 {
					// the pos-th number of the chosen pattern, mostly
					if 2*pos < len(hs) && g.r.chance(70) {
						return hs[2*pos]
					}
					if g.r.chance(10) {
						return g.r.u32()
					}
					return g.community(hs) & 0xffff
				}
				a, b, c := v(0), v(1), v(2)
				lcs[i] = bgp.NewLargeCommunity(a, b, c)
				nums = append(nums, a, b, c)
			}
			p := c13Path(nil, nil, lcs)
			for opt := range c13Opts {
				res := (&LargeCommunityCondition{set: base, option: c13Opts[opt]}).Evaluate(p, nil)
				want := c13Ref(opt, len(base.list), func(i int) bool {
					for _, lc := range lcs {
						if base.list[i].MatchString(lc.String()) {
							return true
						}
					}
					return false
				})
				if res != want {
					o.fail(fmt.Sprintf("large-evaluate-after-edit-differs-from-regexp:opt%d", opt),
						map[string]any{"history": hist, "at": where, "current_list": got, "communities": nums, "evaluate": res, "regexp_says": want})
					return false
				}
				// the model has no large "set"; it evaluates the current pattern sources
				o.ask(c13B(res), "lev %d %s %s", opt, c13HexList(got), c13List(nums))
				o.stat(fmt.Sprintf("large_hist_ev_opt%d_%s", opt, c13B(res)), 1)
			}
		}
		return true
	}
	if !check("created") {
		return
	}
	for n, st := range hist.Steps {
		arg := mk(st.Raws)
		if arg == nil {
			return
		}
		var err error
		switch st.Kind {
		case 0:
			err = base.Append(arg)
		case 1:
			err = base.Remove(arg)
		default:
			err = base.Replace(arg)
		}
		if err != nil {
			o.fail("large-edit-error", map[string]any{"history": hist, "step": n, "error": err.Error()})
			return
		}
		expect = c13ApplyEdit(expect, st.Kind, srcs(arg), func(a, b string) bool { return a == b })
		o.stat(fmt.Sprintf("large_edit_kind%d", st.Kind), 1)
		if !check(fmt.Sprintf("after step %d", n)) {
			return
		}
	}
}
