//go:build verif

package table

// C14 harness: the 2-octet/4-octet AS transition (RFC 6793).
//
// Drives the real UpdatePathAttrs2ByteAs / UpdatePathAggregator2ByteAs (what send() does for a
// 2-octet peer), the real serialiser, the real parser with Use2ByteAS (what a NEW speaker does with
// an OLD speaker's bytes) and the real UpdatePathAttrs4ByteAs / UpdatePathAggregator4ByteAs on
// generated AS_PATH / AS4_PATH shapes.  Each conversion is also put to the Lean model
// (Model/As4.lean: down, upAttr, aggDown, aggUp, validateBytes, serSegs) line by line, and the
// property itself is evaluated on the implementation alone (o.fail):
//   down-malformed        the form sent to the OLD peer does not validate / re-parse / has a
//                         confederation or empty segment in AS4_PATH / an AS4_PATH of no segment
//   down-mutates-input    the conversion changed the attribute object it was given
//   roundtrip-lost        up(parse(serialise(down p))) is not p as a sequence of ASes, sets and
//                         confederation segments (4-octet confederation members → AS_TRANS)
//   roundtrip-segmentation   same, exact segment boundaries, for paths whose adjacent
//                         AS_SEQUENCEs are already packed (first of a pair has 255 members)
//   up-bad-segment        reconstruction produced an empty / >255 segment or an AS_PATH the
//                         decoder's validateAsPathValueBytes rejects
//   up-changes-length     ASLen of the reconstruction differs from ASLen of the received AS_PATH
//   up-uses-longer-as4    an AS4_PATH with more ASes than the AS_PATH was not ignored
//   up-not-lead-plus-as4  result is not (leading part of AS_PATH) ++ AS4_PATH
//   up-leftover           AS4_PATH / AS4_AGGREGATOR still present, or another attribute changed
//   len-cache-stale       attr.Len() != len(attr.Serialize()) after a conversion
//   agg-roundtrip         AGGREGATOR (AS, address) not restored

import (
	"bytes"
	"encoding/hex"
	"fmt"
	"io"
	"log/slog"
	"net/netip"
	"reflect"
	"strings"
	"testing"
	"time"

	"github.com/osrg/gobgp/v4/pkg/packet/bgp"
)

type c14Seg struct {
	typ uint8
	as  []uint32
}

const (
	c14SET  = uint8(bgp.BGP_ASPATH_ATTR_TYPE_SET)
	c14SEQ  = uint8(bgp.BGP_ASPATH_ATTR_TYPE_SEQ)
	c14CSEQ = uint8(bgp.BGP_ASPATH_ATTR_TYPE_CONFED_SEQ)
	c14CSET = uint8(bgp.BGP_ASPATH_ATTR_TYPE_CONFED_SET)
)

var c14Logger = slog.New(slog.NewTextHandler(io.Discard, nil))

func c14Confed(t uint8) bool { return t == c14CSEQ || t == c14CSET }

func c14Fmt(segs []c14Seg) string {
	var sb strings.Builder
	fmt.Fprintf(&sb, "%d", len(segs))
	for _, s := range segs {
		fmt.Fprintf(&sb, " %d %d", s.typ, len(s.as))
		for _, a := range s.as {
			fmt.Fprintf(&sb, " %d", a)
		}
	}
	return sb.String()
}

func c14FromParams(ps []bgp.AsPathParamInterface) []c14Seg {
	out := make([]c14Seg, 0, len(ps))
	for _, p := range ps {
		out = append(out, c14Seg{p.GetType(), append([]uint32{}, p.GetAS()...)})
	}
	return out
}

func c14From4(ps []*bgp.As4PathParam) []c14Seg {
	out := make([]c14Seg, 0, len(ps))
	for _, p := range ps {
		out = append(out, c14Seg{p.Type, append([]uint32{}, p.AS...)})
	}
	return out
}

func c14Params4(segs []c14Seg) []bgp.AsPathParamInterface {
	out := make([]bgp.AsPathParamInterface, 0, len(segs))
	for _, s := range segs {
		out = append(out, bgp.NewAs4PathParam(s.typ, append([]uint32{}, s.as...)))
	}
	return out
}

func c14Params2(segs []c14Seg) []bgp.AsPathParamInterface {
	out := make([]bgp.AsPathParamInterface, 0, len(segs))
	for _, s := range segs {
		as := make([]uint16, len(s.as))
		for i, a := range s.as {
			as[i] = uint16(a)
		}
		out = append(out, bgp.NewAsPathParam(s.typ, as))
	}
	return out
}

func c14As4Params(segs []c14Seg) []*bgp.As4PathParam {
	out := make([]*bgp.As4PathParam, 0, len(segs))
	for _, s := range segs {
		out = append(out, bgp.NewAs4PathParam(s.typ, append([]uint32{}, s.as...)))
	}
	return out
}

// ---- the property's own vocabulary (model independent) ----

// one item per AS of a SEQUENCE, one item per SET / confederation segment
func c14Flat(segs []c14Seg) []string {
	out := []string{}
	for _, s := range segs {
		if s.typ == c14SEQ {
			for _, a := range s.as {
				out = append(out, fmt.Sprint(a))
			}
		} else {
			out = append(out, fmt.Sprint(s.typ, s.as))
		}
	}
	return out
}

func c14ASLen(segs []c14Seg) int {
	n := 0
	for _, s := range segs {
		switch s.typ {
		case c14SEQ:
			n += len(s.as)
		case c14SET:
			n++
		}
	}
	return n
}

func c14Eq(a, b []c14Seg) bool {
	if len(a) != len(b) {
		return false
	}
	for i := range a {
		if a[i].typ != b[i].typ || len(a[i].as) != len(b[i].as) {
			return false
		}
		for j := range a[i].as {
			if a[i].as[j] != b[i].as[j] {
				return false
			}
		}
	}
	return true
}

func c14StrEq(a, b []string) bool {
	if len(a) != len(b) {
		return false
	}
	for i := range a {
		if a[i] != b[i] {
			return false
		}
	}
	return true
}

// expected result of the round trip: 4-octet members of confederation segments become AS_TRANS
func c14ConfedTrans(p []c14Seg) []c14Seg {
	out := make([]c14Seg, 0, len(p))
	for _, s := range p {
		as := append([]uint32{}, s.as...)
		if c14Confed(s.typ) {
			for i, a := range as {
				if a > 65535 {
					as[i] = bgp.AS_TRANS
				}
			}
		}
		out = append(out, c14Seg{s.typ, as})
	}
	return out
}

// adjacent AS_SEQUENCEs are already packed the way the merge loop packs them
func c14Packed(p []c14Seg) bool {
	for i := 0; i+1 < len(p); i++ {
		if p[i].typ == c14SEQ && p[i+1].typ == c14SEQ && len(p[i].as) != 255 {
			return false
		}
	}
	return true
}

func c14NoConfed(p []c14Seg) []c14Seg {
	out := []c14Seg{}
	for _, s := range p {
		if !c14Confed(s.typ) {
			out = append(out, s)
		}
	}
	return out
}

// ---- generators ----

func c14AS(r *vRand, want4 int) uint32 {
	// want4: 0 never 4-octet, 1 mixed, 2 always 4-octet
	four := want4 == 2 || (want4 == 1 && r.chance(35))
	if four {
		switch r.intn(6) {
		case 0:
			return 65536
		case 1:
			return 4294967295
		case 2:
			return 4200000000 + uint32(r.intn(1000))
		default:
			return 65536 + uint32(r.intn(400000))
		}
	}
	switch r.intn(12) {
	case 0:
		return bgp.AS_TRANS
	case 1:
		return 65535
	case 2:
		return 64512 + uint32(r.intn(1000))
	case 3:
		return 1
	default:
		return 1 + uint32(r.intn(65000))
	}
}

func c14Count(r *vRand, big bool) int {
	if big {
		return r.pick(255, 255, 254, 250, 200, 128, 100, 56)
	}
	switch r.intn(10) {
	case 0, 1:
		return 1
	case 2:
		return 2
	default:
		return 1 + r.intn(7)
	}
}

func c14GenSeg(r *vRand, typ uint8, n int, want4 int) c14Seg {
	as := make([]uint32, n)
	for i := range as {
		as[i] = c14AS(r, want4)
	}
	return c14Seg{typ, as}
}

// an RFC-valid AS_PATH: leading confederation run, then SEQUENCE/SET mix, 1..255 members each
func c14GenValid(r *vRand, o *vOut) []c14Seg {
	p := []c14Seg{}
	// which part may carry 4-octet ASNs
	mode := r.intn(5) // 0 none, 1 confed only, 2 plain only, 3 both, 4 all 4-octet
	cw, pw := 0, 0
	switch mode {
	case 1:
		cw = 1
	case 2:
		pw = 1
	case 3:
		cw, pw = 1, 1
	case 4:
		cw, pw = 2, 2
	}
	nconf := 0
	if r.chance(40) {
		nconf = 1 + r.intn(2)
	}
	for i := 0; i < nconf; i++ {
		t := c14CSEQ
		if r.chance(30) {
			t = c14CSET
		}
		p = append(p, c14GenSeg(r, t, c14Count(r, r.chance(5)), cw))
	}
	nplain := r.pick(0, 1, 1, 1, 2, 2, 3, 4)
	if nconf == 0 && nplain == 0 && r.chance(70) {
		nplain = 1
	}
	shape := r.intn(10)
	for i := 0; i < nplain; i++ {
		t := c14SEQ
		if (i == 0 && shape == 0) || r.chance(20) {
			t = c14SET // shape 0: leading SET
		}
		big := r.chance(8)
		if shape == 1 || shape == 2 {
			big = true // runs of large segments: merges crossing 255
			if shape == 1 {
				t = c14SEQ
			}
		}
		p = append(p, c14GenSeg(r, t, c14Count(r, big), pw))
	}
	if shape == 3 && nplain > 0 { // a full segment followed by a short one
		p = append(p, c14GenSeg(r, c14SEQ, 255, pw), c14GenSeg(r, c14SEQ, 1+r.intn(5), pw))
	}
	o.stat(fmt.Sprintf("rt_mode_%d", mode), 1)
	if nconf > 0 {
		o.stat("rt_leading_confed", 1)
	}
	if len(p) > nconf && p[nconf].typ == c14SET {
		o.stat("rt_leading_set", 1)
	}
	if len(p) == 0 {
		o.stat("rt_empty_path", 1)
	}
	return p
}

// the AS_PATH an OLD speaker chain could deliver: any wire-valid segment list of 2-octet ASNs
func c14GenOldPath(r *vRand) []c14Seg {
	p := []c14Seg{}
	n := r.pick(0, 1, 1, 2, 2, 2, 3, 3, 4, 5)
	confLead := r.chance(35)
	for i := 0; i < n; i++ {
		t := c14SEQ
		switch {
		case confLead && i == 0:
			t = uint8(r.pick(int(c14CSEQ), int(c14CSEQ), int(c14CSET)))
		case r.chance(20):
			t = c14SET
		case r.chance(8):
			t = uint8(r.pick(int(c14CSEQ), int(c14CSET))) // confederation segment in the middle
		}
		p = append(p, c14GenSeg(r, t, c14Count(r, r.chance(12)), 0))
	}
	return p
}

// re-cut a flat list of ASes into segments
func c14Cut(r *vRand, as []uint32, allowSet bool) []c14Seg {
	out := []c14Seg{}
	for len(as) > 0 {
		n := 1 + r.intn(6)
		if r.chance(15) {
			n = 255
		}
		if r.chance(10) {
			n = 100 + r.intn(156)
		}
		if n > len(as) {
			n = len(as)
		}
		t := c14SEQ
		if allowSet && r.chance(15) {
			t = c14SET
		}
		out = append(out, c14Seg{t, append([]uint32{}, as[:n]...)})
		as = as[n:]
	}
	return out
}

// an AS4_PATH for a given OLD AS_PATH, stratified by its length relative to the AS_PATH
func c14GenAs4(r *vRand, a []c14Seg, o *vOut) ([]c14Seg, []c14Seg) {
	al := c14ASLen(a)
	kind := r.pick(0, 1, 1, 2, 2, 2, 3, 4, 4, 5, 5, 6, 6, 7)
	if al == 0 && r.chance(70) {
		kind = r.pick(0, 7, 3)
	}
	var a4 []c14Seg
	switch kind {
	case 0: // independent
		n := r.pick(1, 1, 2, 3)
		for i := 0; i < n; i++ {
			t := c14SEQ
			if r.chance(25) {
				t = c14SET
			}
			a4 = append(a4, c14GenSeg(r, t, c14Count(r, r.chance(10)), 1))
		}
	case 1, 2, 3, 4: // derived from the trailing part of the AS_PATH (how a real chain builds it)
		flat := []uint32{}
		for _, s := range a {
			if s.typ == c14SEQ {
				flat = append(flat, s.as...)
			}
		}
		want := 0
		switch kind {
		case 1:
			want = al // equal
		case 2:
			want = r.intn(al + 1) // shorter
		case 3:
			want = al + 1 + r.intn(3) // longer
		case 4:
			want = al - 1
		}
		if want < 1 {
			want = 1
		}
		as := make([]uint32, want)
		for i := range as {
			j := len(flat) - want + i
			if j >= 0 && j < len(flat) && flat[j] != bgp.AS_TRANS && r.chance(80) {
				as[i] = flat[j]
			} else {
				as[i] = c14AS(r, 2)
			}
		}
		a4 = c14Cut(r, as, true)
	case 5: // exactly as many ASes, first segment a SET
		a4 = append(a4, c14GenSeg(r, c14SET, 1+r.intn(4), 1))
		if al > 1 {
			a4 = append(a4, c14Cut(r, c14GenSeg(r, c14SEQ, al-1, 1).as, false)...)
		}
	case 6: // big: merges crossing 255, under an AS_PATH that is long enough most of the time
		a4 = append(a4, c14GenSeg(r, c14SEQ, r.pick(255, 200, 130, 60), 1), c14GenSeg(r, c14SEQ, r.pick(255, 100, 3), 1))
		if r.chance(85) {
			lead := []c14Seg{c14GenSeg(r, c14SEQ, r.pick(255, 254, 200, 100, 7), 0), c14GenSeg(r, c14SEQ, 255, 0), c14GenSeg(r, c14SEQ, r.pick(255, 3), 0)}
			a = append(lead, a...)
		}
	case 7: // single short sequence
		a4 = append(a4, c14GenSeg(r, c14SEQ, 1+r.intn(3), 1))
	}
	if r.chance(20) { // confederation segments an OLD speaker should not have put there
		pos := r.intn(len(a4) + 1)
		cs := c14GenSeg(r, uint8(r.pick(int(c14CSEQ), int(c14CSET))), 1+r.intn(3), 1)
		a4 = append(a4[:pos:pos], append([]c14Seg{cs}, a4[pos:]...)...)
		o.stat("pair_confed_in_as4", 1)
	}
	return a, a4
}

// ---- running the real code ----

var c14Nlri = func() bgp.PathNLRI {
	n, _ := bgp.NewIPAddrPrefix(netip.MustParsePrefix("10.14.0.0/24"))
	return bgp.PathNLRI{NLRI: n}
}()

var c14Opt = &bgp.MarshallingOption{ExtendedMessage: true}
var c14Opt2 = &bgp.MarshallingOption{ExtendedMessage: true, Use2ByteAS: true}

func c14Bytes(a bgp.PathAttributeInterface) []byte {
	b, _ := a.Serialize()
	return b
}

// value octets of a serialised attribute
func c14Value(b []byte) []byte {
	if len(b) >= 4 && b[0]&uint8(bgp.BGP_ATTR_FLAG_EXTENDED_LENGTH) != 0 {
		return b[4:]
	}
	if len(b) >= 3 {
		return b[3:]
	}
	return nil
}

// validateAsPathValueBytes is unexported: reach it through the attribute decoder that calls it
// (PathAttributeAsPath.DecodeFromBytes → validateAsPathValueBytes(value, options...) → segment
// decoding).  Returns (accepted, error came from the validator itself).
var c14ValidatorMsgs = map[string]bool{
	"AS PATH length is not odd": true, "AS PATH header is short": true, "unknown AS_PATH seg type": true,
	"AS PATH segment has zero AS count": true, "seg length is short": true,
}

func c14Validate(v []byte, opts ...*bgp.MarshallingOption) (bool, bool, string) {
	raw := append([]byte{0x50, byte(bgp.BGP_ATTR_TYPE_AS_PATH), byte(len(v) >> 8), byte(len(v))}, v...)
	err := (&bgp.PathAttributeAsPath{}).DecodeFromBytes(raw, opts...)
	if err == nil {
		return true, true, ""
	}
	msg := err.Error()
	if me, ok := err.(*bgp.MessageError); ok {
		msg = me.Message
	}
	return false, c14ValidatorMsgs[msg], msg
}

// Len() must equal what Serialize emits, for every attribute of the message
func c14LenCheck(o *vOut, u *bgp.BGPUpdate, stage string, detail any) {
	for _, a := range u.PathAttributes {
		b, err := a.Serialize()
		if err != nil || a.Len() != len(b) {
			o.fail("len-cache-stale", map[string]any{"stage": stage, "attr": fmt.Sprintf("%T", a), "Len": a.Len(), "serialized": len(b), "input": detail})
		}
	}
}

type c14Up struct {
	panicked string
	segs     []c14Seg
	lenAttr  int
	attr     *bgp.PathAttributeAsPath
	as4Left  bool
	aggErr   error
}

func c14RunUp(u *bgp.BGPUpdate) (res c14Up) {
	defer func() {
		if e := recover(); e != nil {
			res.panicked = fmt.Sprint(e)
		}
	}()
	UpdatePathAttrs4ByteAs(c14Logger, u)
	res.aggErr = UpdatePathAggregator4ByteAs(u)
	for _, a := range u.PathAttributes {
		switch x := a.(type) {
		case *bgp.PathAttributeAsPath:
			res.attr = x
			res.segs = c14FromParams(x.Value)
			res.lenAttr = x.Len()
		case *bgp.PathAttributeAs4Path, *bgp.PathAttributeAs4Aggregator:
			res.as4Left = true
		}
	}
	return
}

func c14UpAnswer(res c14Up) string {
	if res.panicked != "" {
		return "panic"
	}
	return fmt.Sprintf("%s len %d", c14Fmt(res.segs), res.lenAttr)
}

// checks on any reconstruction result
func c14UpSafe(o *vOut, res c14Up, a, a4 []c14Seg, has4 bool, detail any) {
	if res.panicked != "" {
		o.fail("up-panic", map[string]any{"panic": res.panicked, "input": detail})
		return
	}
	for _, s := range res.segs {
		if len(s.as) == 0 || len(s.as) > 255 {
			o.fail("up-bad-segment", map[string]any{"why": fmt.Sprintf("segment with %d members", len(s.as)), "result": c14Fmt(res.segs), "input": detail})
			break
		}
	}
	if res.attr != nil {
		for _, p := range res.attr.Value {
			if _, ok := p.(*bgp.As4PathParam); !ok {
				o.fail("up-bad-segment", map[string]any{"why": "segment left in 2-octet form", "input": detail})
				break
			}
		}
		if v := c14Value(c14Bytes(res.attr)); len(v) > 0 {
			if ok, _, msg := c14Validate(v); !ok {
				o.fail("up-bad-segment", map[string]any{"why": "validateAsPathValueBytes: " + msg, "result": c14Fmt(res.segs), "input": detail})
			}
		}
	}
	if got, want := c14ASLen(res.segs), c14ASLen(a); got != want {
		o.fail("up-changes-length", map[string]any{"aslen_in": want, "aslen_out": got, "result": c14Fmt(res.segs), "input": detail})
	}
	if res.as4Left {
		o.fail("up-leftover", map[string]any{"why": "AS4_PATH or AS4_AGGREGATOR still present", "input": detail})
	}
	if !has4 {
		if !c14Eq(res.segs, a) {
			o.fail("up-not-lead-plus-as4", map[string]any{"why": "no AS4_PATH but AS_PATH changed", "result": c14Fmt(res.segs), "input": detail})
		}
		return
	}
	use := c14NoConfed(a4)
	if c14ASLen(use) > c14ASLen(a) {
		if !c14Eq(res.segs, a) {
			o.fail("up-uses-longer-as4", map[string]any{"result": c14Fmt(res.segs), "input": detail})
		}
		return
	}
	// result = leading part of AS_PATH ++ AS4_PATH (RFC 6793 4.2.3)
	fr, fa, f4 := c14Flat(res.segs), c14Flat(a), c14Flat(use)
	ok := len(fr) >= len(f4) && c14StrEq(fr[len(fr)-len(f4):], f4)
	if ok {
		lead := fr[:len(fr)-len(f4)]
		ok = len(lead) <= len(fa) && c14StrEq(lead, fa[:len(lead)])
	}
	if !ok {
		o.fail("up-not-lead-plus-as4", map[string]any{"result": c14Fmt(res.segs), "input": detail})
	}
}

func c14OtherAttrs(u *bgp.BGPUpdate) string {
	var sb strings.Builder
	for _, a := range u.PathAttributes {
		switch a.(type) {
		case *bgp.PathAttributeAsPath, *bgp.PathAttributeAs4Path, *bgp.PathAttributeAggregator, *bgp.PathAttributeAs4Aggregator:
		default:
			sb.WriteString(hex.EncodeToString(c14Bytes(a)))
			sb.WriteByte(' ')
		}
	}
	return sb.String()
}

// one full round trip NEW speaker → OLD peer bytes → NEW speaker
func c14RoundTrip(t *testing.T, o *vOut, p []c14Seg, aggAS uint32, hasAgg bool, tag string) {
	detail := map[string]any{"case": tag, "as_path": c14Fmt(p), "aggregator_as": aggAS, "has_aggregator": hasAgg}
	aggAddr := netip.MustParseAddr("192.0.2.14")
	orig := bgp.NewPathAttributeAsPath(c14Params4(p))
	nh, _ := bgp.NewPathAttributeNextHop(netip.MustParseAddr("192.0.2.1"))
	attrs := []bgp.PathAttributeInterface{bgp.NewPathAttributeOrigin(0), orig, nh, bgp.NewPathAttributeMultiExitDisc(14)}
	if hasAgg {
		ag, _ := bgp.NewPathAttributeAggregator(aggAS, aggAddr)
		attrs = append(attrs, ag)
	}
	m := bgp.NewBGPUpdateMessage(nil, attrs, []bgp.PathNLRI{c14Nlri})
	u := m.Body.(*bgp.BGPUpdate)
	others := c14OtherAttrs(u)

	// --- down ---  (both functions, in the order fsm.go send() calls them)
	callerSlice := u.PathAttributes // the slice header the caller (the packer) still holds
	snap := c14Snapshot(callerSlice)
	UpdatePathAttrs2ByteAs(u)
	c14CallerSliceCheck(o, callerSlice, snap, "UpdatePathAttrs2ByteAs", detail)
	UpdatePathAggregator2ByteAs(u)
	c14CallerSliceCheck(o, callerSlice, snap, "UpdatePathAggregator2ByteAs", detail)
	var as2 *bgp.PathAttributeAsPath
	var as4 *bgp.PathAttributeAs4Path
	var ag2 *bgp.PathAttributeAggregator
	var ag4 *bgp.PathAttributeAs4Aggregator
	for _, a := range u.PathAttributes {
		switch x := a.(type) {
		case *bgp.PathAttributeAsPath:
			as2 = x
		case *bgp.PathAttributeAs4Path:
			as4 = x
		case *bgp.PathAttributeAggregator:
			ag2 = x
		case *bgp.PathAttributeAs4Aggregator:
			ag4 = x
		}
	}
	if as2 == nil {
		t.Fatalf("C14: AS_PATH vanished in down conversion")
	}
	ans := c14Fmt(c14FromParams(as2.Value)) + " | "
	if as4 != nil {
		ans += c14Fmt(c14From4(as4.Value))
		o.stat("rt_as4_emitted", 1)
	} else {
		ans += "-"
	}
	o.ask(ans, "down %s", c14Fmt(p))
	if hasAgg {
		a := "-"
		if ag4 != nil {
			a = fmt.Sprint(ag4.Value.AS)
		}
		o.ask(fmt.Sprintf("%d %s", ag2.Value.AS, a), "aggdown %d", aggAS)
		// oracle (RFC 6793 4.2.2): AS_TRANS + AS4_AGGREGATOR iff the AS does not fit 16 bits
		okAgg := ag2.Value.Askind == reflect.Uint16 && ag2.Value.Address == aggAddr
		if aggAS > 65535 {
			okAgg = okAgg && ag2.Value.AS == bgp.AS_TRANS && ag4 != nil && ag4.Value.AS == aggAS && ag4.Value.Address == aggAddr
		} else {
			okAgg = okAgg && ag2.Value.AS == aggAS && ag4 == nil
		}
		if !okAgg {
			o.fail("down-malformed", map[string]any{"why": "AGGREGATOR / AS4_AGGREGATOR pair not as RFC 6793 4.2.2 prescribes", "input": detail})
		}
	}
	// oracle: the input attribute object is untouched
	if !c14Eq(c14FromParams(orig.Value), p) {
		o.fail("down-mutates-input", detail)
	}
	// oracle: well-formed for an OLD speaker
	c14LenCheck(o, u, "down", detail)
	bad := func(why string) { o.fail("down-malformed", map[string]any{"why": why, "input": detail}) }
	for _, pr := range as2.Value {
		if _, ok := pr.(*bgp.AsPathParam); !ok {
			bad("AS_PATH segment not in 2-octet form")
		}
	}
	if v := c14Value(c14Bytes(as2)); len(v) > 0 {
		if ok, _, msg := c14Validate(v, c14Opt2); !ok {
			bad("AS_PATH: " + msg)
		}
	}
	if as4 != nil {
		v := c14Value(c14Bytes(as4))
		if len(v) < 6 {
			bad("AS4_PATH too short to carry one AS number (RFC 6793 section 6)")
		} else if ok, _, msg := c14Validate(v); !ok {
			bad("AS4_PATH: " + msg)
		}
		for _, s := range as4.Value {
			if c14Confed(s.Type) {
				bad("confederation segment in AS4_PATH")
			}
		}
	}
	if others != c14OtherAttrs(u) {
		bad("another attribute changed")
	}

	// --- the wire ---
	wire, err := m.Serialize(c14Opt)
	if err != nil {
		bad("serialize: " + err.Error())
		return
	}
	m2, err := bgp.ParseBGPMessage(wire, c14Opt2)
	if err != nil {
		bad("re-parse with Use2ByteAS: " + err.Error())
		return
	}
	u2 := m2.Body.(*bgp.BGPUpdate)
	var rx2 *bgp.PathAttributeAsPath
	var rx4 *bgp.PathAttributeAs4Path
	var rxa *bgp.PathAttributeAggregator
	var rxa4 *bgp.PathAttributeAs4Aggregator
	for _, a := range u2.PathAttributes {
		switch x := a.(type) {
		case *bgp.PathAttributeAsPath:
			rx2 = x
		case *bgp.PathAttributeAs4Path:
			rx4 = x
		case *bgp.PathAttributeAggregator:
			rxa = x
		case *bgp.PathAttributeAs4Aggregator:
			rxa4 = x
		}
	}
	if rx2 == nil || (as4 != nil) != (rx4 != nil) {
		bad("AS_PATH / AS4_PATH lost on the wire")
		return
	}
	a := c14FromParams(rx2.Value)
	var a4 []c14Seg
	line := fmt.Sprintf("up %d %s", rx2.Length, c14Fmt(a))
	if rx4 != nil {
		a4 = c14From4(rx4.Value)
		line += " 1 " + c14Fmt(a4)
	} else {
		line += " 0"
	}
	var aggLine string
	if rxa != nil {
		if rxa4 != nil {
			aggLine = fmt.Sprintf("aggup %d 1 %d", rxa.Value.AS, rxa4.Value.AS)
		} else {
			aggLine = fmt.Sprintf("aggup %d 0 0", rxa.Value.AS)
		}
	}

	// --- up ---
	res := c14RunUp(u2)
	o.ask(c14UpAnswer(res), "%s", line)
	updetail := map[string]any{"case": tag, "original": c14Fmt(p), "rx_as_path": c14Fmt(a), "rx_as4_path": c14Fmt(a4), "has_as4": rx4 != nil}
	c14UpSafe(o, res, a, a4, rx4 != nil, updetail)
	if res.panicked != "" {
		return
	}
	c14LenCheck(o, u2, "up", updetail)
	if res.aggErr != nil {
		o.fail("agg-roundtrip", map[string]any{"why": res.aggErr.Error(), "input": detail})
	}
	want := c14ConfedTrans(p)
	if !c14StrEq(c14Flat(res.segs), c14Flat(want)) {
		o.fail("roundtrip-lost", map[string]any{"result": c14Fmt(res.segs), "expected": c14Fmt(want), "input": updetail})
	} else if c14Packed(p) && !c14Eq(res.segs, want) {
		o.fail("roundtrip-segmentation", map[string]any{"result": c14Fmt(res.segs), "expected": c14Fmt(want), "input": updetail})
	}
	if !c14Eq(res.segs, want) {
		o.stat("rt_resegmented", 1)
	}
	if others != c14OtherAttrs(u2) {
		o.fail("up-leftover", map[string]any{"why": "another attribute changed", "input": updetail})
	}
	if hasAgg {
		var got *bgp.PathAttributeAggregator
		for _, x := range u2.PathAttributes {
			if g, ok := x.(*bgp.PathAttributeAggregator); ok {
				got = g
			}
		}
		if got == nil {
			o.fail("agg-roundtrip", map[string]any{"why": "AGGREGATOR lost", "input": detail})
		} else {
			o.ask(fmt.Sprintf("%d len %d", got.Value.AS, got.Len()), "%s", aggLine)
			if got.Value.AS != aggAS || got.Value.Address != aggAddr || got.Value.Askind != reflect.Uint32 {
				o.fail("agg-roundtrip", map[string]any{"got_as": got.Value.AS, "got_addr": got.Value.Address.String(), "input": detail})
			}
		}
	}
	// the reconstructed message must itself be sendable to a NEW peer and parse back identically
	m2.Header.Len = 0
	wire2, err := m2.Serialize(c14Opt)
	if err == nil {
		var m3 *bgp.BGPMessage
		m3, err = bgp.ParseBGPMessage(wire2, c14Opt)
		if err == nil {
			for _, x := range m3.Body.(*bgp.BGPUpdate).PathAttributes {
				if ap, ok := x.(*bgp.PathAttributeAsPath); ok && !c14Eq(c14FromParams(ap.Value), res.segs) {
					err = fmt.Errorf("AS_PATH differs after re-parse")
				}
			}
		}
	}
	if err != nil {
		o.fail("up-bad-segment", map[string]any{"why": "reconstructed UPDATE does not survive the 4-octet wire: " + err.Error(), "input": updetail})
	}
}

// an arbitrary (AS_PATH, AS4_PATH) pair as an OLD speaker chain could deliver it
func c14Pair(t *testing.T, o *vOut, r *vRand, a, a4 []c14Seg, has4 bool, as4First bool, agg int, tag string) {
	detail := map[string]any{"case": tag, "as_path": c14Fmt(a), "as4_path": c14Fmt(a4), "has_as4": has4, "as4_first": as4First, "agg": agg}
	nh, _ := bgp.NewPathAttributeNextHop(netip.MustParseAddr("192.0.2.1"))
	aggAddr := netip.MustParseAddr("192.0.2.14")
	attrs := []bgp.PathAttributeInterface{bgp.NewPathAttributeOrigin(0)}
	if has4 && as4First {
		attrs = append(attrs, bgp.NewPathAttributeAs4Path(c14As4Params(a4)))
	}
	attrs = append(attrs, bgp.NewPathAttributeAsPath(c14Params2(a)), nh)
	// agg: 0 none, 1 AGGREGATOR only, 2 AS_TRANS + AS4_AGGREGATOR, 3 a real 2-octet AS +
	// AS4_AGGREGATOR (RFC 6793 4.2.3 would ignore AS4_AGGREGATOR and AS4_PATH then; gobgp lets
	// AS4_AGGREGATOR win - outside the property, compared with the model only)
	aggAS2, aggAS4 := uint16(64999), uint32(0)
	if agg >= 2 {
		aggAS4 = 70000 + uint32(r.intn(1000))
	}
	if agg == 2 {
		aggAS2 = bgp.AS_TRANS
	}
	if agg >= 1 {
		ag, _ := bgp.NewPathAttributeAggregator(aggAS2, aggAddr)
		attrs = append(attrs, ag)
	}
	if has4 && !as4First {
		attrs = append(attrs, bgp.NewPathAttributeAs4Path(c14As4Params(a4)))
	}
	if agg >= 2 {
		ag4, _ := bgp.NewPathAttributeAs4Aggregator(aggAS4, aggAddr)
		attrs = append(attrs, ag4)
	}
	m := bgp.NewBGPUpdateMessage(nil, attrs, []bgp.PathNLRI{c14Nlri})
	wire, err := m.Serialize(c14Opt)
	if err != nil {
		t.Fatalf("C14 generator: cannot serialise %v: %v", detail, err)
	}
	m2, err := bgp.ParseBGPMessage(wire, c14Opt2)
	if err != nil {
		t.Fatalf("C14 generator: OLD-speaker UPDATE does not parse %v: %v", detail, err)
	}
	u2 := m2.Body.(*bgp.BGPUpdate)
	others := c14OtherAttrs(u2)
	var rx2 *bgp.PathAttributeAsPath
	for _, x := range u2.PathAttributes {
		if ap, ok := x.(*bgp.PathAttributeAsPath); ok {
			rx2 = ap
		}
	}
	line := fmt.Sprintf("up %d %s", rx2.Length, c14Fmt(a))
	if has4 {
		line += " 1 " + c14Fmt(a4)
	} else {
		line += " 0"
	}
	res := c14RunUp(u2)
	o.ask(c14UpAnswer(res), "%s", line)
	c14UpSafe(o, res, a, a4, has4, detail)
	if res.panicked != "" {
		return
	}
	c14LenCheck(o, u2, "up", detail)
	if others != c14OtherAttrs(u2) {
		o.fail("up-leftover", map[string]any{"why": "another attribute changed", "input": detail})
	}
	if agg >= 1 {
		var got *bgp.PathAttributeAggregator
		for _, x := range u2.PathAttributes {
			if g, ok := x.(*bgp.PathAttributeAggregator); ok {
				got = g
			}
		}
		want := uint32(aggAS2)
		if agg == 2 {
			want = aggAS4
		}
		if agg == 3 && got != nil {
			want = got.Value.AS
			o.stat("pair_agg_real_as_plus_as4agg", 1)
		}
		if got == nil || res.aggErr != nil || got.Value.AS != want || got.Value.Address != aggAddr {
			o.fail("agg-roundtrip", map[string]any{"why": "aggregator of an OLD speaker's UPDATE not reconstructed", "input": detail})
		} else {
			o.ask(fmt.Sprintf("%d len %d", got.Value.AS, got.Len()), "aggup %d %d %d", aggAS2, map[bool]int{false: 0, true: 1}[agg >= 2], aggAS4)
		}
	}
	// coverage of the walk
	if has4 {
		use := c14NoConfed(a4)
		switch d := c14ASLen(a) - c14ASLen(use); {
		case d < 0:
			o.stat("pair_as4_longer_ignored", 1)
		case d == 0:
			o.stat("pair_keep_0", 1)
		default:
			o.stat("pair_keep_pos", 1)
			// does the cut fall inside a SEQUENCE?
			k := d
			for _, s := range a {
				n := 0
				switch s.typ {
				case c14SEQ:
					n = len(s.as)
				case c14SET:
					n = 1
				}
				if n == 0 {
					continue
				}
				if k == 0 {
					break
				}
				if n <= k {
					k -= n
					continue
				}
				o.stat("pair_cut_inside_seq", 1)
				k = 0
				break
			}
		}
		if len(res.segs) > 0 && len(use) > 0 {
			for _, s := range res.segs {
				if s.typ == c14SEQ && len(s.as) == 255 {
					o.stat("pair_result_has_255_seg", 1)
					break
				}
			}
		}
	} else {
		o.stat("pair_no_as4", 1)
	}
}

// ---- the caller's attribute slice (shared between the UPDATEs of one packed batch) ----

type c14Snap struct {
	ident []bgp.PathAttributeInterface // element identity (interface value = pointer)
	ser   []string                     // serialised octets of each element
}

func c14Snapshot(sl []bgp.PathAttributeInterface) c14Snap {
	sn := c14Snap{ident: append([]bgp.PathAttributeInterface{}, sl...)}
	for _, a := range sl {
		sn.ser = append(sn.ser, hex.EncodeToString(c14Bytes(a)))
	}
	return sn
}

// the elements of the slice the caller handed in are the same objects with the same octets
func c14CallerSliceCheck(o *vOut, sl []bgp.PathAttributeInterface, sn c14Snap, fn string, detail any) {
	for i := range sn.ident {
		if i >= len(sl) {
			break
		}
		if sl[i] != sn.ident[i] {
			o.fail("down-mutates-input", map[string]any{"why": fn + " replaced element " + fmt.Sprint(i) + " of the caller's attribute slice (" + fmt.Sprintf("%T", sn.ident[i]) + " -> " + fmt.Sprintf("%T", sl[i]) + ")", "input": detail})
			return
		}
		if got := hex.EncodeToString(c14Bytes(sl[i])); got != sn.ser[i] {
			o.fail("down-mutates-input", map[string]any{"why": fn + " changed the attribute object at element " + fmt.Sprint(i) + " of the caller's slice in place", "before": sn.ser[i], "after": got, "input": detail})
			return
		}
	}
}

var c14Peer = &PeerInfo{AS: 65001, LocalAS: 65000, ID: netip.MustParseAddr("192.0.2.9"), LocalID: netip.MustParseAddr("192.0.2.8"), Address: netip.MustParseAddr("192.0.2.9")}

// The realistic sending path: many IPv4 prefixes with ONE attribute set go through the real packer
// (CreateUpdateMsgFromPaths splits them over several UPDATEs), every UPDATE in turn gets the
// conversion fsm.go send() applies for a 2-octet peer, is serialised, parsed as the OLD peer's
// NEW neighbour would get it and reconstructed.  EVERY message must round-trip.
func c14SplitBatch(t *testing.T, o *vOut, r *vRand, p []c14Seg, aggAS uint32, hasAgg bool, nPrefix int, plen int, ext bool, tag string) {
	detail := map[string]any{"case": tag, "as_path": c14Fmt(p), "aggregator_as": aggAS, "has_aggregator": hasAgg, "prefixes": nPrefix, "prefix_len": plen, "extended_message": ext}
	aggAddr := netip.MustParseAddr("192.0.2.14")
	nh, _ := bgp.NewPathAttributeNextHop(netip.MustParseAddr("192.0.2.1"))
	attrs := []bgp.PathAttributeInterface{bgp.NewPathAttributeOrigin(0), bgp.NewPathAttributeAsPath(c14Params4(p)), nh, bgp.NewPathAttributeMultiExitDisc(14)}
	if hasAgg {
		ag, _ := bgp.NewPathAttributeAggregator(aggAS, aggAddr)
		attrs = append(attrs, ag)
	}
	ribSnap := c14Snapshot(attrs)
	paths := make([]*Path, 0, nPrefix)
	for i := 0; i < nPrefix; i++ {
		v := uint32(i) << (32 - plen)
		n, _ := bgp.NewIPAddrPrefix(netip.PrefixFrom(netip.AddrFrom4([4]byte{byte(v >> 24), byte(v >> 16), byte(v >> 8), byte(v)}), plen))
		paths = append(paths, NewPath(bgp.RF_IPv4_UC, c14Peer, bgp.PathNLRI{NLRI: n}, false, attrs, time.Unix(1700000000, 0), false))
	}
	// the options a sender passes for a peer without the 4-octet AS capability
	sopt, popt := &bgp.MarshallingOption{}, &bgp.MarshallingOption{Use2ByteAS: true}
	if ext {
		sopt, popt = c14Opt, c14Opt2
	}
	msgs := CreateUpdateMsgFromPaths(paths, popt)
	overflow := false
	o.stat(fmt.Sprintf("batch_msgs_%d", min(len(msgs), 5)), 1)
	want := c14ConfedTrans(p)
	total := 0
	for i, m := range msgs {
		u, ok := m.Body.(*bgp.BGPUpdate)
		if !ok {
			t.Fatalf("C14 batch: message %d is not an UPDATE", i)
		}
		mdetail := map[string]any{"message": i, "of": len(msgs), "batch": detail}
		callerSlice := u.PathAttributes
		snap := c14Snapshot(callerSlice)
		// sender side, as fsm.go sendMessageloop send() does with twoByteAsTrans
		UpdatePathAttrs2ByteAs(u)
		c14CallerSliceCheck(o, callerSlice, snap, "UpdatePathAttrs2ByteAs", mdetail)
		UpdatePathAggregator2ByteAs(u)
		c14CallerSliceCheck(o, callerSlice, snap, "UpdatePathAggregator2ByteAs", mdetail)
		// every message of the batch must carry the same conversion (model: down p)
		var as2 *bgp.PathAttributeAsPath
		var as4 *bgp.PathAttributeAs4Path
		var ag2 *bgp.PathAttributeAggregator
		var ag4 *bgp.PathAttributeAs4Aggregator
		for _, a := range u.PathAttributes {
			switch x := a.(type) {
			case *bgp.PathAttributeAsPath:
				as2 = x
			case *bgp.PathAttributeAs4Path:
				as4 = x
			case *bgp.PathAttributeAggregator:
				ag2 = x
			case *bgp.PathAttributeAs4Aggregator:
				ag4 = x
			}
		}
		corrupt := func(why string) {
			cls := "down-shared-slice-corrupts-later-updates"
			if i == 0 {
				cls = "down-malformed"
			}
			o.fail(cls, map[string]any{"why": why, "input": mdetail})
		}
		if as2 == nil {
			corrupt("AS_PATH missing")
			continue
		}
		ans := c14Fmt(c14FromParams(as2.Value)) + " | "
		if as4 != nil {
			ans += c14Fmt(c14From4(as4.Value))
		} else {
			ans += "-"
		}
		o.ask(ans, "down %s", c14Fmt(p))
		if hasAgg {
			a := "-"
			if ag4 != nil {
				a = fmt.Sprint(ag4.Value.AS)
			}
			if ag2 == nil {
				corrupt("AGGREGATOR missing")
				continue
			}
			o.ask(fmt.Sprintf("%d %s", ag2.Value.AS, a), "aggdown %d", aggAS)
		}
		c14LenCheck(o, u, "down", mdetail)
		wire, err := m.Serialize(sopt)
		if err != nil {
			if strings.Contains(err.Error(), "too long message length") {
				// the packer filled the UPDATE for the 4-octet form; AS4_PATH / AS4_AGGREGATOR no longer fit
				overflow = true
				o.fail("down-grows-update-past-limit", map[string]any{"why": "UPDATE does not fit after the 2-octet conversion: " + err.Error(), "nlris": len(u.NLRI), "input": mdetail})
			} else {
				corrupt("serialize: " + err.Error())
			}
			continue
		}
		// receiver side
		rm, err := bgp.ParseBGPMessage(wire, popt)
		if err != nil {
			corrupt("re-parse with Use2ByteAS: " + err.Error())
			continue
		}
		ru := rm.Body.(*bgp.BGPUpdate)
		total += len(ru.NLRI)
		res := c14RunUp(ru)
		if res.panicked != "" {
			o.fail("up-panic", map[string]any{"panic": res.panicked, "input": mdetail})
			continue
		}
		c14LenCheck(o, ru, "up", mdetail)
		if res.as4Left {
			o.fail("up-leftover", map[string]any{"why": "AS4_PATH or AS4_AGGREGATOR still present", "input": mdetail})
		}
		if !c14StrEq(c14Flat(res.segs), c14Flat(want)) {
			corrupt("AS_PATH not restored: got " + c14Fmt(res.segs) + " want " + c14Fmt(want))
		}
		if hasAgg {
			var got *bgp.PathAttributeAggregator
			for _, x := range ru.PathAttributes {
				if g, ok := x.(*bgp.PathAttributeAggregator); ok {
					got = g
				}
			}
			if got == nil || res.aggErr != nil || got.Value.AS != aggAS || got.Value.Address != aggAddr {
				g := "lost"
				if got != nil {
					g = fmt.Sprint(got.Value.AS, " ", got.Value.Address)
				}
				corrupt("AGGREGATOR not restored: got " + g + " want " + fmt.Sprint(aggAS, " ", aggAddr))
			}
		}
	}
	if total != nPrefix && !overflow {
		o.fail("down-shared-slice-corrupts-later-updates", map[string]any{"why": fmt.Sprintf("%d prefixes arrived, %d were packed", total, nPrefix), "input": detail})
	}
	// the routes in the RIB still hold the attributes they had (they are re-sent to other peers)
	c14CallerSliceCheck(o, attrs, ribSnap, "conversion of the packed batch", detail)
	after := c14Snapshot(paths[0].GetPathAttrs())
	for i := range ribSnap.ser {
		if i >= len(after.ser) || after.ser[i] != ribSnap.ser[i] {
			o.fail("down-mutates-input", map[string]any{"why": "attributes of the packed routes changed", "input": detail})
			break
		}
	}
}

func c14S(typ uint8, as ...uint32) c14Seg { return c14Seg{typ, as} }

func c14Seq(n int, base uint32) c14Seg {
	as := make([]uint32, n)
	for i := range as {
		as[i] = base + uint32(i)
	}
	return c14Seg{c14SEQ, as}
}

func TestVerifC14(t *testing.T) {
	o := vOpen(t)
	defer o.close()
	r := &vRand{s: o.seed*7919 + 14}

	// ---- corpus: minimised past disagreements and boundary shapes, always first ----
	// (1) stale Length: 10-AS path from a 2-octet peer, no AS4_PATH  (Len 25 vs 45 octets)
	c14RoundTrip(t, o, []c14Seg{c14S(c14SEQ, 1, 2, 3, 4, 5, 6, 7, 8, 9, 10)}, 0, false, "corpus-stale-length")
	// (2) leading SET with a 4-octet member: empty segment in front of the reconstruction
	c14RoundTrip(t, o, []c14Seg{c14S(c14SET, 70000, 2)}, 0, false, "corpus-leading-set")
	c14RoundTrip(t, o, []c14Seg{c14S(c14SET, 70000, 2), c14S(c14SEQ, 5, 6)}, 0, false, "corpus-leading-set-seq")
	// (3) leading confederation run: kept count included the confederation members
	c14RoundTrip(t, o, []c14Seg{c14S(c14CSEQ, 1, 2, 3), c14S(c14SEQ, 70000, 5)}, 0, false, "corpus-confed-run")
	c14RoundTrip(t, o, []c14Seg{c14S(c14CSEQ, 1, 2), c14S(c14CSET, 7, 8), c14S(c14SEQ, 70000, 5)}, 0, false, "corpus-confed-run2")
	// (4) only confederation segments, one 4-octet member: AS4_PATH without any segment
	c14RoundTrip(t, o, []c14Seg{c14S(c14CSEQ, 70000, 2, 3)}, 0, false, "corpus-confed-only")
	// (5) aggregator with a 2-octet and a 4-octet AS (Length 6 vs 8 after widening)
	c14RoundTrip(t, o, []c14Seg{c14S(c14SEQ, 100, 200)}, 64999, true, "corpus-agg2")
	c14RoundTrip(t, o, []c14Seg{c14S(c14SEQ, 100, 70000)}, 70000, true, "corpus-agg4")
	// boundary shapes
	c14RoundTrip(t, o, []c14Seg{}, 0, false, "corpus-empty")
	c14RoundTrip(t, o, []c14Seg{c14Seq(255, 70000)}, 0, false, "corpus-255")
	c14RoundTrip(t, o, []c14Seg{c14Seq(255, 70000), c14Seq(255, 80000), c14Seq(3, 1)}, 0, false, "corpus-255-255-3")
	c14RoundTrip(t, o, []c14Seg{c14Seq(1, 70000), c14Seq(255, 80000)}, 0, false, "corpus-1-255")
	c14RoundTrip(t, o, []c14Seg{c14Seq(200, 70000), c14Seq(100, 80000)}, 0, false, "corpus-200-100")
	c14RoundTrip(t, o, []c14Seg{c14S(c14SEQ, 23456, 65535, 65536, 4294967295, 0)}, 0, false, "corpus-boundary-asn")
	// arbitrary pairs
	c14Pair(t, o, r, []c14Seg{c14S(c14SEQ, 23456, 2)}, []c14Seg{c14S(c14SET, 70000), c14S(c14SEQ, 2)}, true, false, 0, "corpus-pair-set-first")
	c14Pair(t, o, r, []c14Seg{c14S(c14CSEQ, 1, 2, 3), c14S(c14SEQ, 5)}, []c14Seg{c14S(c14SEQ, 70000, 80000, 5)}, true, false, 0, "corpus-pair-confed-lengthen")
	c14Pair(t, o, r, []c14Seg{c14S(c14SEQ, 65000, 4000, 23456, 23456, 40001)}, []c14Seg{c14S(c14SEQ, 400000, 300000, 40001)}, true, true, 2, "corpus-pair-as4-first")
	c14Pair(t, o, r, []c14Seg{c14S(c14SEQ, 1, 2)}, []c14Seg{c14S(c14SEQ, 70000, 80000, 90000)}, true, false, 0, "corpus-pair-longer")
	c14Pair(t, o, r, []c14Seg{c14S(c14SEQ, 1, 2)}, []c14Seg{c14S(c14CSEQ, 70000, 80000, 90000)}, true, false, 0, "corpus-pair-only-confed-as4")
	c14Pair(t, o, r, []c14Seg{}, []c14Seg{c14S(c14CSEQ, 70000)}, true, false, 0, "corpus-pair-empty-aspath")
	c14Pair(t, o, r, []c14Seg{c14Seq(250, 1), c14S(c14SEQ, 23456, 23456)}, []c14Seg{c14Seq(10, 70000)}, true, false, 0, "corpus-pair-merge-cross-255")

	// split batch to a 2-octet peer: 4-octet ASNs in AS_PATH and AGGREGATOR, 3 UPDATEs
	c14SplitBatch(t, o, r, []c14Seg{c14S(c14SEQ, 65000, 400000, 300000, 64512)}, 300000, true, 2000, 24, false, "corpus-split-batch")
	c14SplitBatch(t, o, r, []c14Seg{c14S(c14CSEQ, 65010, 70000), c14S(c14SET, 70001, 3), c14S(c14SEQ, 400000, 5)}, 64999, true, 1700, 24, false, "corpus-split-batch-confed-set")
	// the same with host routes: the packer fills each UPDATE to the last octet of the 4-octet form
	c14SplitBatch(t, o, r, []c14Seg{c14S(c14SEQ, 65000, 400000, 300000, 64512)}, 300000, true, 2000, 32, false, "corpus-split-batch-tight")

	// ---- random streams ----
	nRT, nPair, nValid := 6000, 9000, 6000
	if o.thorough {
		nRT, nPair, nValid = 50000, 70000, 40000
	}
	for i := 0; i < nRT; i++ {
		p := c14GenValid(r, o)
		hasAgg := r.chance(30)
		aggAS := uint32(0)
		if hasAgg {
			aggAS = c14AS(r, 1)
		}
		if i < 3 {
			o.sample("roundtrip " + c14Fmt(p))
		}
		c14RoundTrip(t, o, p, aggAS, hasAgg, "rt")
	}
	nBatch := 40
	if o.thorough {
		nBatch = 250
	}
	for i := 0; i < nBatch; i++ {
		p := c14GenValid(r, o)
		hasAgg := r.chance(70)
		aggAS := uint32(0)
		if hasAgg {
			aggAS = c14AS(r, 1)
			if r.chance(50) {
				aggAS = c14AS(r, 2)
			}
		}
		ext := r.chance(15)
		alen := 0
		for _, sg := range p {
			alen += 2 + 4*len(sg.as)
		}
		// prefix length: i%4 == 3 → /25../32 (5-octet NLRIs, the packer's worst case: UPDATEs are
		// filled completely); otherwise short prefixes that leave room in every UPDATE
		plen := r.pick(16, 16, 20, 24)
		if alen > 200 {
			plen = 16
		}
		tight := i%4 == 3
		if tight {
			plen = r.pick(25, 28, 32, 32)
			o.stat("batch_tight", 1)
		}
		per := 5
		if plen <= 16 {
			per = 3
		} else if plen <= 24 {
			per = 4
		}
		limit := 4096
		if ext {
			limit = 65535
		}
		if alen > 1500 && !ext {
			continue // little room for NLRIs left (and none for AS4_PATH): not a batch
		}
		// enough prefixes for 2..4 UPDATEs
		room := (limit - 23 - alen - 40) / 5
		n := room + 1 + r.intn(2*room+room/2)
		if n >= 1<<plen {
			n = 1<<plen - 1
		}
		_ = per
		c14SplitBatch(t, o, r, p, aggAS, hasAgg, n, plen, ext, "batch")
	}
	for i := 0; i < nPair; i++ {
		a := c14GenOldPath(r)
		has4 := r.chance(88)
		var a4 []c14Seg
		if has4 {
			a, a4 = c14GenAs4(r, a, o)
		}
		if i < 2 {
			o.sample("pair " + c14Fmt(a) + " / " + c14Fmt(a4))
		}
		c14Pair(t, o, r, a, a4, has4, r.chance(30), r.pick(0, 0, 1, 1, 2, 2, 2, 3), "pair")
	}

	// ---- validateAsPathValueBytes and the segment serialiser against their models ----
	for i := 0; i < nValid; i++ {
		w := r.pick(2, 4)
		segs := c14GenOldPath(r)
		if len(segs) > 3 {
			segs = segs[:3]
		}
		for j := range segs {
			if len(segs[j].as) > 12 {
				segs[j].as = segs[j].as[:12]
			}
			if w == 4 && r.chance(50) {
				segs[j].as[0] = c14AS(r, 2)
			}
		}
		var buf []byte
		for _, s := range segs {
			var b []byte
			if w == 2 {
				b, _ = c14Params2([]c14Seg{s})[0].Serialize()
			} else {
				b, _ = c14Params4([]c14Seg{s})[0].Serialize()
			}
			buf = append(buf, b...)
		}
		if w == 2 {
			for j := range segs {
				for k := range segs[j].as {
					segs[j].as[k] &= 0xffff
				}
			}
		}
		hx := func(b []byte) string {
			if len(b) == 0 {
				return "-"
			}
			return hex.EncodeToString(b)
		}
		o.ask(hx(buf), "ser %d %s", w, c14Fmt(segs))
		// mutate the octets: mostly valid, often broken in one place
		mut := append([]byte{}, buf...)
		kind := r.intn(8)
		if len(mut) > 0 {
			switch kind {
			case 0:
				mut = mut[:r.intn(len(mut))]
			case 1:
				mut[r.intn(len(mut))] = byte(r.intn(256))
			case 2:
				mut[0] = byte(r.pick(0, 5, 255, 1, 2, 3, 4))
			case 3:
				if len(mut) > 1 {
					mut[1] = byte(r.pick(0, 1, 255, int(mut[1])+1))
				}
			case 4:
				mut = append(mut, byte(r.intn(5)))
			case 5:
				mut = append(mut, byte(r.intn(5)), byte(r.intn(3)))
			}
		}
		opts := []*bgp.MarshallingOption{}
		if w == 2 {
			opts = append(opts, c14Opt2)
		}
		okv, fromValidator, vmsg := c14Validate(mut, opts...)
		ansv := "1"
		if !okv {
			ansv = "0"
			o.stat("valid_reject", 1)
			if !fromValidator {
				o.fail("down-malformed", map[string]any{"why": "validateAsPathValueBytes accepted octets the segment decoder rejects: " + vmsg, "hex": hx(mut), "width": w})
			}
		} else {
			o.stat("valid_accept", 1)
			// oracle for the validator's own promise: what it accepts, the segment decoder consumes exactly
			rest := mut
			for len(rest) > 0 {
				var seg bgp.AsPathParamInterface = &bgp.As4PathParam{}
				if w == 2 {
					seg = &bgp.AsPathParam{}
				}
				if e := seg.DecodeFromBytes(rest); e != nil || seg.Len() > len(rest) || len(seg.GetAS()) == 0 {
					o.fail("down-malformed", map[string]any{"why": "validateAsPathValueBytes accepted octets the segment decoder rejects", "hex": hx(mut), "width": w})
					break
				}
				rest = rest[seg.Len():]
			}
		}
		o.ask(ansv, "valid %d %s", w, hx(mut))
	}
	_ = bytes.Equal
}
