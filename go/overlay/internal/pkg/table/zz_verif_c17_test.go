//go:build verif

package table

// C17 correspondence harness, part 1 (package table): the real Vrf / CanImportToVrf / ToLocal /
// ToGlobal / TableManager.AddVrf+DeleteVrf / RouteTargetMembershipHandler / VPNPathIndex /
// Table.update (through TableManager.Update) / Select(VRF) driven by generated histories and
// compared answer by answer with the Lean model (Model/VrfRtc.lean, Model/VrfRtcMgr.lean).
//
// Model-independent oracles (computed from the serialised octets of the extended communities and
// from the harness's own bookkeeping, never from the key functions under test):
//   vrf-visibility   CanImportToVrf / Select(VRF) == "some community with a transitive type octet of a
//                    route-target-capable type equals, octet for octet, an import target"
//   vrf-export       ToGlobal: RD, label, prefix of the VRF / route, communities = old ++ export list
//   idx-consistent   after every update the RT index == { known path with that community |
//                    path-id != 0 or first of its destination }
//   rtm-refines      HasRouteTarget(rt) == the last event for some (rt, as, path-id) was an announcement

import (
	"fmt"
	"io"
	"log/slog"
	"net/netip"
	"sort"
	"strings"
	"testing"
	"time"

	"github.com/osrg/gobgp/v4/pkg/packet/bgp"
)

// ---- pool of extended communities ---------------------------------------------------------

func c17EC(kind, val int, transitive bool) bgp.ExtendedCommunityInterface {
	switch kind {
	case 0:
		return bgp.NewTwoOctetAsSpecificExtended(bgp.EC_SUBTYPE_ROUTE_TARGET, 65000, uint32(val), transitive)
	case 1:
		e, _ := bgp.NewIPv4AddressSpecificExtended(bgp.EC_SUBTYPE_ROUTE_TARGET, netip.MustParseAddr("10.9.9.9"), uint16(val), transitive)
		return e
	case 2:
		return bgp.NewFourOctetAsSpecificExtended(bgp.EC_SUBTYPE_ROUTE_TARGET, 70000, uint16(val), transitive)
	case 3:
		return bgp.NewTwoOctetAsSpecificExtended(bgp.EC_SUBTYPE_ROUTE_ORIGIN, 65000, uint32(val), transitive)
	case 4:
		return bgp.NewOpaqueExtended(transitive, []byte{0x55, 0, 0, 0, 0, byte(val)})
	}
	return bgp.NewColorExtended(uint32(val))
}

func c17Num(e bgp.ExtendedCommunityInterface) uint64 {
	b, _ := e.Serialize()
	var v uint64
	for _, x := range b {
		v = v<<8 | uint64(x)
	}
	return v
}

func c17ECs(l []bgp.ExtendedCommunityInterface) string {
	var sb strings.Builder
	fmt.Fprintf(&sb, "%d", len(l))
	for _, e := range l {
		fmt.Fprintf(&sb, " %d", c17Num(e))
	}
	return sb.String()
}

func c17Show(l []bgp.ExtendedCommunityInterface) string {
	if len(l) == 0 {
		return "-"
	}
	s := make([]string, len(l))
	for i, e := range l {
		s[i] = fmt.Sprint(c17Num(e))
	}
	return strings.Join(s, " ")
}

// oracle view of one community: route-target-capable type octet? transitive type octet?
func c17Octets(e bgp.ExtendedCommunityInterface) (capable, transitive bool, num uint64) {
	num = c17Num(e)
	t := byte(num >> 56)
	capable = t&0xbf <= 2 && t&0x80 == 0
	transitive = t&0x40 == 0
	return
}

var c17Pool []bgp.ExtendedCommunityInterface

func init() {
	for _, tr := range []bool{true, false} {
		for v := 1; v <= 3; v++ {
			c17Pool = append(c17Pool, c17EC(0, v, tr))
		}
		c17Pool = append(c17Pool, c17EC(1, 1, tr), c17EC(2, 1, tr), c17EC(3, 1, tr), c17EC(4, 1, tr))
	}
	c17Pool = append(c17Pool, c17EC(5, 7, true))
}

func c17PickECs(r *vRand, max int) []bgp.ExtendedCommunityInterface {
	n := r.intn(max + 1)
	l := make([]bgp.ExtendedCommunityInterface, 0, n)
	for i := 0; i < n; i++ {
		if r.chance(70) {
			l = append(l, c17Pool[r.intn(3)]) // the three transitive two-octet RTs dominate
		} else {
			l = append(l, c17Pool[r.intn(len(c17Pool))])
		}
	}
	return l
}

// ---- routes -------------------------------------------------------------------------------

var c17Prefixes = []string{"10.1.0.0/24", "10.2.0.0/24", "10.3.0.0/16"}

type c17Path struct {
	uid, src, pid, rd, pfx int
	root                 int // announcement the object was cloned from (0: itself); also the marker carried
	label, pref          uint32
	ecs                  []bgp.ExtendedCommunityInterface
	p                    *Path
}

func c17RD(i int) bgp.RouteDistinguisherInterface {
	return bgp.NewRouteDistinguisherTwoOctetAS(65000, uint32(100+i))
}

// RDs 0..2 are used by remote PEs only, 3..7 are given to the VRFs (one live VRF per RD; a remote PE
// may use a VRF's RD too: the same RD:prefix from another PE)
const c17NRD = 8

var c17Srcs []*PeerInfo

func init() {
	for i := 0; i < 4; i++ {
		a := netip.MustParseAddr(fmt.Sprintf("192.168.0.%d", i+1))
		c17Srcs = append(c17Srcs, &PeerInfo{AS: 65000, LocalAS: 65000, ID: a, Address: a, LocalID: netip.MustParseAddr("10.255.0.1")})
	}
}

func (c *c17Path) build(withdraw bool) *Path {
	n, _ := bgp.NewLabeledVPNIPAddrPrefix(netip.MustParsePrefix(c17Prefixes[c.pfx]), *bgp.NewMPLSLabelStack(c.label), c17RD(c.rd))
	attrs := []bgp.PathAttributeInterface{bgp.NewPathAttributeOrigin(0), bgp.NewPathAttributeAsPath(nil),
		bgp.NewPathAttributeLocalPref(c.pref), bgp.NewPathAttributeCommunities([]uint32{0xfffe0000 | uint32(c.uid&0xffff), uint32(c.uid)})}
	if len(c.ecs) > 0 {
		attrs = append(attrs, bgp.NewPathAttributeExtendedCommunities(append([]bgp.ExtendedCommunityInterface{}, c.ecs...)))
	}
	var src *PeerInfo // nil: locally originated (a route added to a VRF)
	nh := netip.MustParseAddr("0.0.0.0")
	if c.src >= 0 {
		src, nh = c17Srcs[c.src], c17Srcs[c.src].Address
	}
	mp, _ := bgp.NewPathAttributeMpReachNLRI(bgp.RF_IPv4_VPN, []bgp.PathNLRI{{NLRI: n, ID: uint32(c.pid)}}, nh)
	attrs = append(attrs, mp)
	return NewPath(bgp.RF_IPv4_VPN, src, bgp.PathNLRI{NLRI: n, ID: uint32(c.pid)}, withdraw, attrs, time.Unix(1700000000, 0), false)
}

func c17UID(p *Path) int {
	cs := p.GetCommunities()
	if len(cs) < 2 {
		return -1
	}
	return int(cs[1])
}

func (c *c17Path) rootID() int {
	if c.root != 0 {
		return c.root
	}
	return c.uid
}

func (c *c17Path) def(o *vOut) {
	o.op("path %d %d %d %d %d %d %d %d %d %s", c.uid, c.rootID(), c.src+1, c.pid, c.rd, c.pfx, c.label, c.pref, c.rootID(), c17ECs(c.ecs))
}

func c17UIDs(l []*Path) string {
	if len(l) == 0 {
		return "-"
	}
	s := make([]string, len(l))
	for i, p := range l {
		s[i] = fmt.Sprint(c17UID(p))
	}
	return strings.Join(s, " ")
}

// ---- the scenario -------------------------------------------------------------------------

type c17Vrf struct {
	id       int
	name     string
	rd       int
	label    uint32
	imp, exp []bgp.ExtendedCommunityInterface
	v        *Vrf
}

type c17Scn struct {
	o     *vOut
	r     *vRand
	tm    *TableManager
	uid   int
	live  map[string]*c17Path // "rd/pfx/src/pid" -> stored announcement
	all   map[int]*c17Path
	vrfs  []*c17Vrf
	nvrf  int
	taken map[string]uint64
	rtcHist []string
	everRD  map[int]bool
	hnd   []*RouteTargetMembershipHandler
	memOn []map[[3]uint64]bool // oracle bookkeeping per handler
}

func c17Logger() *slog.Logger { return slog.New(slog.NewTextHandler(io.Discard, nil)) }

func (sc *c17Scn) table() *Table { t, _ := sc.tm.GetTable(bgp.RF_IPv4_VPN); return t }

func (sc *c17Scn) known(rd, pfx int) []*Path {
	n, _ := bgp.NewLabeledVPNIPAddrPrefix(netip.MustParsePrefix(c17Prefixes[pfx]), *bgp.NewMPLSLabelStack(0), c17RD(rd))
	d := sc.table().GetDestination(n)
	if d == nil {
		return nil
	}
	return d.GetAllKnownPathList()
}

// idxDump: white-box read of the real index: key -> sorted uids
func (sc *c17Scn) idxDump() map[uint64][]int {
	idx := sc.table().vpnIdx
	out := map[uint64][]int{}
	idx.mu.RLock()
	for k, e := range idx.rts {
		for _, p := range e.paths {
			out[k] = append(out[k], c17UID(p))
		}
		sort.Ints(out[k])
	}
	idx.mu.RUnlock()
	return out
}

func c17Ints(l []int) string {
	if len(l) == 0 {
		return "-"
	}
	s := make([]string, len(l))
	for i, x := range l {
		s[i] = fmt.Sprint(x)
	}
	return strings.Join(s, " ")
}

// oracle: expected index content from the known path lists and the octets of the communities
func (sc *c17Scn) idxExpected() map[uint64][]int {
	out := map[uint64][]int{}
	for rd := 0; rd < c17NRD; rd++ {
		for pfx := range c17Prefixes {
			for i, p := range sc.known(rd, pfx) {
				if i != 0 && p.RemoteID() == 0 {
					continue
				}
				seen := map[uint64]bool{}
				for _, e := range p.GetExtCommunities() {
					capable, _, num := c17Octets(e)
					if capable && !seen[num] {
						seen[num] = true
						out[num] = append(out[num], c17UID(p))
					}
				}
			}
		}
	}
	for k := range out {
		sort.Ints(out[k])
	}
	return out
}

func (sc *c17Scn) checkIdx(what string) {
	got, want := sc.idxDump(), sc.idxExpected()
	bad := len(got) != len(want)
	for k, w := range want {
		if c17Ints(got[k]) != c17Ints(w) {
			bad = true
		}
	}
	if bad {
		sc.o.fail("idx-consistent", map[string]any{"after": what, "index": fmt.Sprint(got), "expected": fmt.Sprint(want)})
	}
}

func (sc *c17Scn) update(c *c17Path, withdraw bool) {
	p := c.build(withdraw)
	if !withdraw {
		c.p = p
	}
	sc.feed(c, p, withdraw, nil)
}

// feed hands a path object to the table; also[] are communities whose index buckets are to be compared too
func (sc *c17Scn) feed(c *c17Path, p *Path, withdraw bool, also []bgp.ExtendedCommunityInterface) {
	o := sc.o
	sc.tm.Update(p)
	o.op("upd %d %d", c.uid, c17b2i(withdraw))
	o.ask(c17UIDs(sc.known(c.rd, c.pfx)), "dest %d %d", c.rd, c.pfx)
	dump := sc.idxDump()
	seen := map[uint64]bool{}
	for _, e := range append(append([]bgp.ExtendedCommunityInterface{}, c.ecs...), also...) {
		if capable, _, num := c17Octets(e); capable && !seen[num] {
			seen[num] = true
			o.ask(c17Ints(dump[num]), "idx %d", num)
		}
	}
	n := 0
	for _, l := range dump {
		n += len(l)
	}
	o.ask(fmt.Sprint(n), "idxsize")
	sc.checkIdx(fmt.Sprintf("upd uid=%d wd=%v", c.uid, withdraw))
}

func c17b2i(b bool) int {
	if b {
		return 1
	}
	return 0
}

func (sc *c17Scn) genPath() *c17Path {
	r := sc.r
	sc.uid++
	c := &c17Path{uid: sc.uid, src: r.intn(4), rd: r.intn(3), pfx: r.intn(len(c17Prefixes)), ecs: c17PickECs(r, 4)}
	// sources 2 and 3 speak ADD-PATH (path-ids 1..2, rarely 0), sources 0 and 1 do not
	if c.src >= 2 {
		c.pid = r.pick(1, 1, 2, 2, 0)
	}
	if len(sc.vrfs) > 0 && r.chance(25) {
		c.rd = sc.vrfs[r.intn(len(sc.vrfs))].rd // another PE using the RD of one of our VRFs
		sc.o.stat("route_under_a_vrf_rd", 1)
	}
	c.label = uint32(1000 + c.rd)
	// distinct preference per (source, path-id) slot inside a destination
	c.pref = uint32(100 + r.intn(6)*64 + c.src*4 + c.pid)
	return c
}

// checkNoOriginated: no locally originated route under this RD is in the global table (after the VRF
// was deleted, and when a VRF is created - also re-created with the same name and RD)
func (sc *c17Scn) checkNoOriginated(rd int, after string) {
	for pfx := range c17Prefixes {
		for i, p := range sc.known(rd, pfx) {
			if p.IsLocal() {
				sc.o.fail("vrf-delete-originated-route-survives", map[string]any{"after": after, "rd": c17RD(rd).String(), "prefix": c17Prefixes[pfx],
					"rank of the local path in its destination": i, "destination": c17UIDs(sc.known(rd, pfx))})
			}
		}
	}
}

// originateOp: a route is added to a VRF (API AddPath with a VRF id: Vrf.ToGlobalPath on a local
// path), replaced, or withdrawn from it
func (sc *c17Scn) originateOp() {
	r, o := sc.r, sc.o
	if len(sc.vrfs) == 0 {
		return
	}
	v := sc.vrfs[r.intn(len(sc.vrfs))]
	pfx := r.intn(len(c17Prefixes))
	key := fmt.Sprintf("%d/%d/-1/0", v.rd, pfx)
	if c, ok := sc.live[key]; ok && r.chance(30) {
		delete(sc.live, key)
		o.stat("vrf_route_withdraw", 1)
		sc.update(c, true)
		return
	}
	own := c17PickECs(r, 1)
	sc.uid++
	c := &c17Path{uid: sc.uid, src: -1, rd: v.rd, pfx: pfx, label: v.label, pref: uint32(100 + r.intn(6)*64 + 16)}
	c.ecs = append(append([]bgp.ExtendedCommunityInterface{}, own...), v.exp...)
	n, _ := bgp.NewIPAddrPrefix(netip.MustParsePrefix(c17Prefixes[pfx]))
	nh, _ := bgp.NewPathAttributeNextHop(netip.MustParseAddr("0.0.0.0"))
	attrs := []bgp.PathAttributeInterface{bgp.NewPathAttributeOrigin(0), bgp.NewPathAttributeAsPath(nil), nh,
		bgp.NewPathAttributeLocalPref(c.pref), bgp.NewPathAttributeCommunities([]uint32{0xfffe0000 | uint32(c.uid&0xffff), uint32(c.uid)})}
	if len(own) > 0 {
		attrs = append(attrs, bgp.NewPathAttributeExtendedCommunities(append([]bgp.ExtendedCommunityInterface{}, own...)))
	}
	p := NewPath(bgp.RF_IPv4_UC, nil, bgp.PathNLRI{NLRI: n}, false, attrs, time.Unix(1700000000, 0), false)
	if err := v.v.ToGlobalPath(p); err != nil {
		o.fail("vrf-export", err.Error())
		return
	}
	// oracle: what was built carries the VRF's RD, label and export targets
	vn, ok := p.GetNlri().(*bgp.LabeledVPNIPAddrPrefix)
	if !ok || vn.RD.String() != c17RD(v.rd).String() || len(vn.Labels.Labels) == 0 || vn.Labels.Labels[0] != v.label ||
		c17Show(p.GetExtCommunities()) != c17Show(c.ecs) || p.GetFamily() != bgp.RF_IPv4_VPN {
		o.fail("vrf-export", map[string]any{"ToGlobalPath": p.GetNlri().String(), "ecs": c17Show(p.GetExtCommunities()), "expected-ecs": c17Show(c.ecs)})
		return
	}
	c.p = p
	c.def(o)
	sc.all[c.uid] = c
	sc.live[key] = c
	o.stat("vrf_route_originate", 1)
	sc.feed(c, p, false, nil)
	if k := sc.known(c.rd, c.pfx); len(k) > 1 && k[0] != p {
		o.stat("vrf_route_not_best_of_its_destination", 1)
	}
}

// refeedOp: a stored path is fed again, as soft reset in does: the very same object (no modifying
// import policy), a fresh clone of it (policy that modifies nothing the table looks at), or a clone
// whose route targets and/or preference were changed by the policy.
func (sc *c17Scn) refeedOp() {
	r, o := sc.r, sc.o
	if len(sc.live) == 0 {
		return
	}
	keys := c17SortedKeys(sc.live)
	c := sc.live[keys[r.intn(len(keys))]]
	switch mode := r.intn(10); {
	case mode < 5:
		o.stat("refeed_same_object", 1)
		if k := sc.known(c.rd, c.pfx); len(k) > 0 && k[0] == c.p {
			o.stat("refeed_same_object_is_best", 1)
		}
		sc.feed(c, c.p, false, nil)
	default:
		sc.uid++
		nc := *c
		nc.uid, nc.root = sc.uid, c.rootID()
		q := c.p.Clone(false)
		if mode >= 8 {
			nc.ecs = c17PickECs(r, 3)
			q.SetExtCommunities(append([]bgp.ExtendedCommunityInterface{}, nc.ecs...), true)
			o.stat("refeed_clone_other_targets", 1)
		} else {
			o.stat("refeed_clone_same_content", 1)
		}
		if mode == 9 {
			nc.pref = uint32(100 + r.intn(6)*64 + nc.src*4 + nc.pid)
			q.setPathAttr(bgp.NewPathAttributeLocalPref(nc.pref))
			o.stat("refeed_clone_other_preference", 1)
		}
		nc.p = q
		nc.def(o)
		sc.all[nc.uid] = &nc
		sc.live[sc.key(&nc)] = &nc
		sc.feed(&nc, q, false, c.ecs)
	}
}

// objID: the model's id of a stored path object (clones share the marker, not the id)
func (sc *c17Scn) objID(p *Path) int {
	for _, c := range sc.live {
		if c.p == p {
			return c.uid
		}
	}
	return c17UID(p)
}

func (sc *c17Scn) key(c *c17Path) string { return fmt.Sprintf("%d/%d/%d/%d", c.rd, c.pfx, c.src, c.pid) }

func (sc *c17Scn) routeOp() {
	r, o := sc.r, sc.o
	if len(sc.live) > 0 && r.chance(35) {
		// withdraw a stored one (or, rarely, one that is not there)
		keys := make([]string, 0, len(sc.live))
		for k := range sc.live {
			keys = append(keys, k)
		}
		sort.Strings(keys)
		c := sc.live[keys[r.intn(len(keys))]]
		delete(sc.live, sc.key(c))
		o.stat("route_withdraw", 1)
		sc.update(c, true)
		return
	}
	c := sc.genPath()
	if r.chance(6) {
		// withdrawal of something never announced
		c.def(o)
		o.stat("route_withdraw_unknown", 1)
		if _, ok := sc.live[sc.key(c)]; !ok {
			sc.update(c, true)
		}
		return
	}
	c.def(o)
	sc.all[c.uid] = c
	if _, ok := sc.live[sc.key(c)]; ok {
		o.stat("route_replace", 1)
	} else {
		o.stat("route_announce", 1)
	}
	if c.pid != 0 {
		o.stat("route_addpath", 1)
	}
	sc.live[sc.key(c)] = c
	sc.update(c, false)
}

// ---- VRF ops ------------------------------------------------------------------------------

func (sc *c17Scn) addVrf() {
	r, o := sc.r, sc.o
	sc.nvrf++
	id := sc.nvrf
	rd := -1
	for cand := 3; cand < c17NRD && rd < 0; cand++ {
		free := true
		for _, w := range sc.vrfs {
			if w.rd == cand {
				free = false
			}
		}
		if free {
			rd = cand
		}
	}
	if rd < 0 {
		sc.nvrf--
		return
	}
	// named after its RD: adding it again after a delete is a re-creation with the same name and RD
	v := &c17Vrf{id: id, name: fmt.Sprintf("vrf-rd%d", rd), rd: rd, label: uint32(2000 + id)}
	// The RTC table keys RT-membership NLRIs by their TEXT form, which does not show the type octet
	// or the sub-type ("65000:1" for a transitive RT, a non-transitive RT and a route-origin alike).
	// Import targets are kept distinct in text so that one destination = one target
	// (side observation reported with the check, outside the property).
	// (an emptied destination object, with its first NLRI, is kept and reused, so this holds for the
	// whole life of the table, not only among the live VRFs)
	if sc.taken == nil {
		sc.taken = map[string]uint64{}
	}
	taken := sc.taken
	ni := 1 + r.intn(3)
	for i := 0; i < ni; i++ {
		e := c17Pool[r.intn(3)]
		if !r.chance(80) {
			e = c17Pool[r.intn(len(c17Pool))]
		}
		if n, ok := taken[e.String()]; ok && n != c17Num(e) {
			o.stat("vrf_import_text_twin_skipped", 1)
			continue
		}
		taken[e.String()] = c17Num(e)
		v.imp = append(v.imp, e)
	}
	if len(v.imp) == 0 {
		sc.nvrf--
		return
	}
	for i, ne := 0, r.intn(3); i < ne; i++ {
		v.exp = append(v.exp, c17Pool[r.intn(5)])
	}
	msgs, err := sc.tm.AddVrf(v.name, uint32(id), c17RD(v.rd), v.imp, v.exp, &PeerInfo{AS: 65000, LocalID: netip.MustParseAddr("10.255.0.1")})
	res := "ok"
	if err != nil {
		res = "err"
		o.stat("vrf_rejected", 1)
	}
	o.ask(res, "vrf %d %d %d %s %s", id, v.rd, v.label, c17ECs(v.imp), c17ECs(v.exp))
	// oracle: AddVrf must fail iff an import target is of a type that cannot be a route target
	want := "ok"
	for _, e := range v.imp {
		if capable, _, _ := c17Octets(e); !capable {
			want = "err"
		}
	}
	if want != res {
		o.fail("vrf-add", map[string]any{"imports": c17Show(v.imp), "result": res})
	}
	if err != nil {
		return
	}
	v.v, _ = sc.tm.GetVrf(v.name)
	v.v.MplsLabel = v.label
	sc.vrfs = append(sc.vrfs, v)
	sc.rtcHist = append(sc.rtcHist, fmt.Sprintf("AddVrf imports=%s", c17Show(v.imp)))
	if sc.everRD[v.rd] {
		o.stat("vrf_recreated_same_name_rd", 1)
	}
	sc.everRD[v.rd] = true
	sc.checkNoOriginated(v.rd, "AddVrf "+v.name)
	o.stat("vrf_add", 1)
	// the locally originated memberships
	keys := make([]string, 0, len(msgs))
	for _, m := range msgs {
		k, _ := m.GetNlri().(*bgp.RouteTargetMembershipNLRI).RouteTargetKey()
		keys = append(keys, fmt.Sprint(k))
		sc.tm.Update(m)
	}
	if len(keys) == 0 {
		keys = []string{"-"}
	}
	o.ask(strings.Join(keys, " "), "addvrf %d", id)
	for _, e := range v.imp {
		sc.askRdest(c17Num(e))
	}
	sc.checkLocalMemberships(fmt.Sprintf("AddVrf imports=%s", c17Show(v.imp)))
}

// ---- the RT-membership destinations: local memberships next to received ones -----------------

// rtcDest: the known path list of the destination (origin AS as, RT key), sources as model ids
// (0 = this speaker, i+1 = c17Srcs[i]).
func (sc *c17Scn) rtcDest(as uint32, key uint64) []int {
	var out []int
	t, _ := sc.tm.GetTable(bgp.RF_RTC_UC)
	for _, d := range t.GetDestinations() {
		n := d.GetNlri().(*bgp.RouteTargetMembershipNLRI)
		k, _ := n.RouteTargetKey()
		if n.AS != as || k != key || n.RouteTarget == nil {
			continue
		}
		for _, p := range d.GetAllKnownPathList() {
			if p.IsLocal() {
				out = append(out, 0)
				continue
			}
			for i, s := range c17Srcs {
				if s.Address == p.GetSource().Address {
					out = append(out, i+1)
				}
			}
		}
	}
	return out
}

func (sc *c17Scn) askRdest(key uint64) {
	d := sc.rtcDest(65000, key)
	sc.o.ask(c17Ints(d), "rdest %d", key)
	switch {
	case len(d) < 2:
	case d[0] == 0:
		sc.o.stat("rtc_dest_local_best_of_several", 1)
	case d[len(d)-1] == 0:
		sc.o.stat("rtc_dest_local_last_of_several", 1)
	default:
		for _, x := range d {
			if x == 0 {
				sc.o.stat("rtc_dest_local_in_the_middle", 1)
			}
		}
	}
}

// oracle: the locally originated memberships are exactly the union of the import targets of the
// configured VRFs, whatever else the membership destinations hold
func (sc *c17Scn) checkLocalMemberships(after string) {
	want := map[uint64]bool{}
	for _, w := range sc.vrfs {
		for _, e := range w.imp {
			want[c17Num(e)] = true
		}
	}
	have := map[uint64]bool{}
	for _, p := range sc.tm.GetPathList(GLOBAL_RIB_NAME, 0, []bgp.Family{bgp.RF_RTC_UC}) {
		if !p.IsLocal() {
			continue
		}
		n := p.GetNlri().(*bgp.RouteTargetMembershipNLRI)
		k, _ := n.RouteTargetKey()
		if n.AS != 65000 {
			sc.o.fail("vrf-local-membership", map[string]any{"after": after, "local membership with origin AS": n.AS})
		}
		have[k] = true
	}
	if fmt.Sprint(want) != fmt.Sprint(have) {
		cls := "vrf-local-membership"
		if strings.HasPrefix(after, "DeleteVrf") && len(have) > len(want) {
			cls = "vrf-delete-local-membership-not-withdrawn"
		}
		sc.o.fail(cls, map[string]any{"after": after, "locally-originated": fmt.Sprint(have), "import-targets-of-the-vrfs": fmt.Sprint(want), "history": append([]string{}, sc.rtcHist...)})
	}
}

// rtmRecv: an iBGP neighbour announces / withdraws a membership. Mostly for the identical NLRI
// (origin AS = ours) of a route target some VRF imports or may import, with a LOCAL_PREF below,
// equal to or above the 100 of the local membership; sometimes with another origin AS (another
// destination with the same RT key, which never holds a local path).
func (sc *c17Scn) rtmRecv() {
	r, o := sc.r, sc.o
	if sc.taken == nil {
		sc.taken = map[string]uint64{}
	}
	e := c17Pool[r.intn(3)]
	if r.chance(15) {
		e = c17Pool[r.intn(len(c17Pool))]
	}
	capable, _, key := c17Octets(e)
	if !capable {
		return
	}
	if n, ok := sc.taken[e.String()]; ok && n != key {
		return
	}
	sc.taken[e.String()] = key
	src := r.intn(len(c17Srcs))
	as := uint32(65000)
	if r.chance(15) {
		as = 65001
	}
	lp := uint32(r.pick(40+src, 160+src, 160+src, 100+src))
	wd := r.chance(30)
	n := bgp.NewRouteTargetMembershipNLRI(as, e)
	var attrs []bgp.PathAttributeInterface
	if !wd {
		mp, _ := bgp.NewPathAttributeMpReachNLRI(bgp.RF_RTC_UC, []bgp.PathNLRI{{NLRI: n}}, c17Srcs[src].Address)
		attrs = []bgp.PathAttributeInterface{bgp.NewPathAttributeOrigin(0), bgp.NewPathAttributeAsPath(nil), bgp.NewPathAttributeLocalPref(lp), mp}
	}
	sc.tm.Update(NewPath(bgp.RF_RTC_UC, c17Srcs[src], bgp.PathNLRI{NLRI: n}, wd, attrs, time.Unix(1700000000, 0), false))
	sc.rtcHist = append(sc.rtcHist, fmt.Sprintf("recv membership as=%d rt=%d from src%d lp=%d wd=%v", as, key, src+1, lp, wd))
	if wd {
		o.stat("rtm_recv_withdraw", 1)
	} else if lp > 100 {
		o.stat("rtm_recv_preferred_over_local", 1)
	} else if lp == 100 {
		o.stat("rtm_recv_same_pref_as_local", 1)
	} else {
		o.stat("rtm_recv_less_preferred", 1)
	}
	if as == 65000 {
		o.op("mrecv %d %d %d %d", key, src+1, lp, c17b2i(wd))
		sc.askRdest(key)
	} else {
		o.stat("rtm_recv_other_origin_as", 1)
	}
	sc.checkLocalMemberships("received membership")
}

func (sc *c17Scn) delVrf() {
	o := sc.o
	if len(sc.vrfs) == 0 {
		return
	}
	i := sc.r.intn(len(sc.vrfs))
	v := sc.vrfs[i]
	for _, e := range v.imp {
		sc.rtcHist = append(sc.rtcHist, fmt.Sprintf("before DeleteVrf: destination of %d = %v", c17Num(e), sc.rtcDest(65000, c17Num(e))))
	}
	msgs, err := sc.tm.DeleteVrf(v.name)
	if err != nil {
		o.fail("vrf-delete", err.Error())
		return
	}
	sc.rtcHist = append(sc.rtcHist, fmt.Sprintf("DeleteVrf imports=%s", c17Show(v.imp)))
	sc.vrfs = append(sc.vrfs[:i], sc.vrfs[i+1:]...)
	// the routes originated in the VRF are withdrawn from the global table, whatever their rank in
	// their destination
	var vpnIDs []int
	var vpnMsgs []*Path
	for _, m := range msgs {
		if _, ok := m.GetNlri().(*bgp.LabeledVPNIPAddrPrefix); ok {
			if !m.IsWithdraw || !m.IsLocal() {
				o.fail("vrf-delete", "DeleteVrf returned a VPN path that is not a local withdrawal")
			}
			vpnIDs = append(vpnIDs, c17UID(m))
			vpnMsgs = append(vpnMsgs, m)
		}
	}
	sort.Ints(vpnIDs)
	o.ask(c17Ints(vpnIDs), "delvrfpaths %d", v.id)
	for _, m := range vpnMsgs {
		sc.tm.Update(m)
		vn := m.GetNlri().(*bgp.LabeledVPNIPAddrPrefix)
		for k, c := range sc.live {
			if c.src < 0 && c.rd == v.rd && c17Prefixes[c.pfx] == vn.Prefix.String() {
				delete(sc.live, k)
			}
		}
		o.stat("vrf_delete_withdraws_originated_route", 1)
	}
	for pfx := range c17Prefixes {
		if k := sc.known(v.rd, pfx); len(k) > 0 || len(vpnMsgs) > 0 {
			o.ask(c17UIDs(k), "dest %d %d", v.rd, pfx)
		}
	}
	sc.checkIdx("DeleteVrf " + v.name)
	sc.checkNoOriginated(v.rd, "DeleteVrf "+v.name)
	var ks []uint64
	for _, m := range msgs {
		if n, ok := m.GetNlri().(*bgp.RouteTargetMembershipNLRI); ok {
			k, _ := n.RouteTargetKey()
			ks = append(ks, k)
			if !m.IsWithdraw {
				o.fail("vrf-delete", "membership not withdrawn")
			}
			sc.tm.Update(m)
		}
	}
	sort.Slice(ks, func(a, b int) bool { return ks[a] < ks[b] })
	s := make([]string, len(ks))
	for i, k := range ks {
		s[i] = fmt.Sprint(k)
	}
	if len(s) == 0 {
		s = []string{"-"}
	}
	o.ask(strings.Join(s, " "), "delvrf %d", v.id)
	o.stat("vrf_delete", 1)
	// oracle: withdrawn == import targets of the deleted VRF no remaining VRF imports
	want := map[uint64]bool{}
	for _, e := range v.imp {
		want[c17Num(e)] = true
	}
	for _, w := range sc.vrfs {
		for _, e := range w.imp {
			delete(want, c17Num(e))
		}
	}
	if len(want) != len(ks) {
		o.fail("vrf-delete-local-membership-not-withdrawn", map[string]any{"withdrawn": fmt.Sprint(ks), "expected": fmt.Sprint(want)})
	}
	for _, k := range ks {
		if !want[k] {
			o.fail("vrf-delete-local-membership-not-withdrawn", map[string]any{"withdrawn": fmt.Sprint(ks), "expected": fmt.Sprint(want)})
		}
	}
	for _, e := range v.imp {
		sc.askRdest(c17Num(e))
	}
	sc.checkLocalMemberships(fmt.Sprintf("DeleteVrf imports=%s", c17Show(v.imp)))
}

// vrfChecks: import test, Select(VRF), ToLocal, ToGlobal for every VRF over the current table
func (sc *c17Scn) vrfChecks() {
	o := sc.o
	for _, v := range sc.vrfs {
		impSet := map[uint64]bool{}
		for _, e := range v.imp {
			impSet[c17Num(e)] = true
		}
		for rd := 0; rd < c17NRD; rd++ {
			for pfx := range c17Prefixes {
				known := sc.known(rd, pfx)
				if len(known) == 0 {
					continue
				}
				var wantSel []int
				for _, p := range known {
					got := CanImportToVrf(v.v, p)
					o.ask(fmt.Sprint(c17b2i(got)), "canimp %d %d", v.id, sc.objID(p))
					// oracle on octets
					want := false
					onlyNonTransitive := false
					for _, e := range p.GetExtCommunities() {
						capable, tr, num := c17Octets(e)
						if capable && impSet[num] {
							if tr {
								want = true
							} else {
								onlyNonTransitive = true
							}
						}
					}
					if want {
						wantSel = append(wantSel, c17UID(p))
						o.stat("import_yes", 1)
					} else if onlyNonTransitive {
						o.stat("import_no_only_nontransitive_match", 1)
					} else {
						o.stat("import_no", 1)
					}
					if got != want {
						o.fail("vrf-visibility", map[string]any{"imports": c17Show(v.imp), "route-ecs": c17Show(p.GetExtCommunities()), "CanImportToVrf": got})
					}
				}
				// Select(VRF) on the destination through the table
				n, _ := bgp.NewLabeledVPNIPAddrPrefix(netip.MustParsePrefix(c17Prefixes[pfx]), *bgp.NewMPLSLabelStack(0), c17RD(rd))
				var sel []*Path
				if d := sc.table().SelectDestination(n, DestinationSelectOption{VRF: v.v}); d != nil {
					sel = d.GetAllKnownPathList()
				}
				o.ask(c17UIDs(sel), "sel %d %d %d", v.id, rd, pfx)
				if c17UIDs(sel) != func() string {
					if len(wantSel) == 0 {
						return "-"
					}
					return c17Ints(wantSel)
				}() {
					o.fail("vrf-visibility", map[string]any{"select": c17UIDs(sel), "expected": fmt.Sprint(wantSel), "imports": c17Show(v.imp)})
				}
				for _, l := range sel {
					// plain route: IPv4 unicast, prefix kept, no extended community left
					if l.GetFamily() != bgp.RF_IPv4_UC || l.GetNlri().String() != c17Prefixes[pfx] {
						o.fail("vrf-tolocal", map[string]any{"nlri": l.GetNlri().String(), "family": l.GetFamily().String()})
					}
				}
			}
		}
	}
	// Table.Info with the VRF (what GetTable TABLE_TYPE_VRF reports) must count what Select lists:
	// the importable PATHS, and the destinations having one
	for _, v := range sc.vrfs {
		impSet := map[uint64]bool{}
		for _, e := range v.imp {
			impSet[c17Num(e)] = true
		}
		wantD, wantP, mixed := 0, 0, 0
		for rd := 0; rd < c17NRD; rd++ {
			for pfx := range c17Prefixes {
				n := 0
				known := sc.known(rd, pfx)
				for _, p := range known {
					for _, e := range p.GetExtCommunities() {
						if capable, tr, num := c17Octets(e); capable && tr && impSet[num] {
							n++
							break
						}
					}
				}
				if n > 0 {
					wantD++
					wantP += n
					if n < len(known) {
						mixed++
					}
				}
			}
		}
		info := sc.table().Info(TableInfoOptions{VRF: v.v})
		o.ask(fmt.Sprintf("%d %d", info.NumDestination, info.NumPath), "vinfo %d", v.id)
		o.stat("vrf_info_checked", 1)
		o.stat("vrf_info_destination_with_imported_and_foreign_paths", mixed)
		if info.NumDestination != wantD || info.NumPath != wantP {
			o.fail("vrf-info", map[string]any{"vrf": v.name, "imports": c17Show(v.imp), "Info.NumDestination": info.NumDestination, "Info.NumPath": info.NumPath,
				"destinations with an imported path": wantD, "imported paths": wantP})
		}
	}
	// whole-table Select(VRF): destinations = those with an importable path
	for _, v := range sc.vrfs {
		t, err := sc.table().Select(TableSelectOption{VRF: v.v})
		if err != nil {
			o.fail("vrf-select", err.Error())
			continue
		}
		got := []string{}
		for _, d := range t.GetDestinations() {
			got = append(got, d.GetNlri().String()+":"+c17UIDs(d.GetAllKnownPathList()))
		}
		sort.Strings(got)
		want := []string{}
		for rd := 0; rd < c17NRD; rd++ {
			for pfx := range c17Prefixes {
				var ids []string
				for _, p := range sc.known(rd, pfx) {
					if CanImportToVrf(v.v, p) {
						ids = append(ids, fmt.Sprint(c17UID(p)))
					}
				}
				if len(ids) > 0 {
					n, _ := bgp.NewLabeledVPNIPAddrPrefix(netip.MustParsePrefix(c17Prefixes[pfx]), *bgp.NewMPLSLabelStack(0), c17RD(rd))
					want = append(want, n.String()+":"+strings.Join(ids, " "))
				}
			}
		}
		sort.Strings(want)
		if strings.Join(got, ",") != strings.Join(want, ",") {
			o.fail("vrf-visibility", map[string]any{"table-select": got, "expected": want})
		}
	}
}

func (sc *c17Scn) convChecks() {
	r, o := sc.r, sc.o
	// ToLocal of a random stored path
	if len(sc.live) > 0 {
		keys := make([]string, 0, len(sc.live))
		for k := range sc.live {
			keys = append(keys, k)
		}
		sort.Strings(keys)
		c := sc.live[keys[r.intn(len(keys))]]
		l := c.p.ToLocal()
		o.ask(fmt.Sprintf("%d %d %d %s", c.pfx, l.RemoteID(), c17UID(l), c17Show(l.GetExtCommunities())), "tolocal %d", c.uid)
		if l.GetFamily() != bgp.RF_IPv4_UC || l.GetNlri().String() != c17Prefixes[c.pfx] || l.GetNexthop() != c.p.GetNexthop() {
			o.fail("vrf-tolocal", map[string]any{"nlri": l.GetNlri().String()})
		}
	}
	// ToGlobal of a plain route announced inside a VRF
	if len(sc.vrfs) > 0 {
		v := sc.vrfs[r.intn(len(sc.vrfs))]
		pfx := r.intn(len(c17Prefixes))
		own := c17PickECs(r, 2)
		sc.uid++
		marker := sc.uid
		n, _ := bgp.NewIPAddrPrefix(netip.MustParsePrefix(c17Prefixes[pfx]))
		nh, _ := bgp.NewPathAttributeNextHop(netip.MustParseAddr("192.168.9.9"))
		attrs := []bgp.PathAttributeInterface{bgp.NewPathAttributeOrigin(0), bgp.NewPathAttributeAsPath(nil), nh,
			bgp.NewPathAttributeCommunities([]uint32{0xfffe0000 | uint32(marker&0xffff), uint32(marker)})}
		if len(own) > 0 {
			attrs = append(attrs, bgp.NewPathAttributeExtendedCommunities(append([]bgp.ExtendedCommunityInterface{}, own...)))
		}
		l := NewPath(bgp.RF_IPv4_UC, c17Srcs[0], bgp.PathNLRI{NLRI: n}, false, attrs, time.Unix(1700000000, 0), false)
		g := l.ToGlobal(v.v)
		vn, ok := g.GetNlri().(*bgp.LabeledVPNIPAddrPrefix)
		if !ok {
			o.fail("vrf-export", "ToGlobal did not produce a VPN NLRI")
			return
		}
		lab := uint32(0)
		if len(vn.Labels.Labels) > 0 {
			lab = vn.Labels.Labels[0]
		}
		rdIdx := -1
		for i := 0; i < c17NRD; i++ {
			if vn.RD.String() == c17RD(i).String() {
				rdIdx = i
			}
		}
		o.ask(fmt.Sprintf("%d %d %d %d %s", rdIdx, pfx, lab, c17UID(g), c17Show(g.GetExtCommunities())), "toglobal %d %d %d %s", v.id, pfx, marker, c17ECs(own))
		o.stat("export", 1)
		// oracle
		want := append(append([]bgp.ExtendedCommunityInterface{}, own...), v.exp...)
		if g.GetFamily() != bgp.RF_IPv4_VPN || vn.RD.String() != c17RD(v.rd).String() || lab != v.label ||
			vn.Prefix.String() != c17Prefixes[pfx] || c17Show(g.GetExtCommunities()) != c17Show(want) || g.GetNexthop() != l.GetNexthop() {
			o.fail("vrf-export", map[string]any{"nlri": vn.String(), "ecs": c17Show(g.GetExtCommunities()), "vrf-rd": c17RD(v.rd).String(), "label": v.label, "export": c17Show(v.exp)})
		}
		// the original plain path is untouched
		if c17Show(l.GetExtCommunities()) != c17Show(own) || l.GetFamily() != bgp.RF_IPv4_UC {
			o.fail("vrf-export", "ToGlobal modified its receiver")
		}
	}
}

// ---- membership ---------------------------------------------------------------------------

func (sc *c17Scn) memOp() {
	r, o := sc.r, sc.o
	h := r.intn(len(sc.hnd))
	var rt bgp.ExtendedCommunityInterface
	as := uint32(r.pick(65000, 65000, 65001, 0))
	kind := r.intn(10)
	switch {
	case kind == 0:
		rt, as = nil, 0 // default membership 0:0/0
	case kind == 1:
		rt = nil // AS-only /32: also keyed as the default
	case kind == 2:
		rt = c17Pool[r.intn(len(c17Pool))]
	default:
		rt = c17Pool[r.intn(3)]
	}
	// path ids over the whole 32-bit range, in pairs that collide when (AS, path id) is packed or
	// narrowed: (65001, 1) / (65000, 65537), ids 2^16 apart, 2^31, 2^32-1
	pid := uint32(r.pick(0, 0, 0, 1, 2, 1, 2, 65536, 65537, 65538, 1<<31, 1<<32-1))
	wd := r.chance(40)
	plen := 0
	if rt != nil && r.chance(8) {
		// a partial-length prefix (33..95) as the decoder hands it over: leading bits, zero-padded
		plen = r.pick(40, 48, 64, 72, 88)
		v := c17Num(rt) & (^uint64(0) << (96 - plen))
		var b [8]byte
		for i := 0; i < 8; i++ {
			b[i] = byte(v >> (56 - 8*i))
		}
		if m, err := bgp.ParseExtended(b[:]); err == nil {
			rt = m
			o.stat("mem_partial_length", 1)
		} else {
			plen = 0
		}
	}
	n := bgp.NewRouteTargetMembershipNLRI(as, rt)
	if plen != 0 {
		n.Length = uint8(plen)
	}
	var attrs []bgp.PathAttributeInterface
	if !wd {
		mp, _ := bgp.NewPathAttributeMpReachNLRI(bgp.RF_RTC_UC, []bgp.PathNLRI{{NLRI: n, ID: pid}}, c17Srcs[0].Address)
		attrs = []bgp.PathAttributeInterface{bgp.NewPathAttributeOrigin(0), mp}
	}
	p := NewPath(bgp.RF_RTC_UC, c17Srcs[h%len(c17Srcs)], bgp.PathNLRI{NLRI: n, ID: pid}, wd, attrs, time.Unix(1700000000, 0), false)
	var key uint64
	keyOK := true
	if rt != nil {
		capable, _, num := c17Octets(rt)
		key, keyOK = num, capable
	}
	hasBefore := sc.has(h, rt)
	sc.hnd[h].SyncAfterImport(p)
	hasAfter := sc.has(h, rt)
	if keyOK {
		o.ask(fmt.Sprintf("%d %d %d", c17b2i(hasBefore), c17b2i(hasAfter), c17b2i(sc.hnd[h].HasDefaultRouteTarget())), "mem %d %d %d %d %d", h, key, as, pid, c17b2i(wd))
		// oracle bookkeeping
		k := [3]uint64{key, uint64(as), uint64(pid)}
		if wd {
			delete(sc.memOn[h], k)
		} else {
			sc.memOn[h][k] = true
		}
		if wd {
			o.stat("mem_withdraw", 1)
		} else {
			o.stat("mem_announce", 1)
		}
		if hasBefore == hasAfter {
			o.stat("mem_interest_unchanged", 1)
		} else {
			o.stat("mem_interest_changed", 1)
		}
	} else {
		o.stat("mem_unkeyable_rt_ignored", 1)
		if hasBefore || hasAfter {
			o.fail("rtm-refines", "membership for a community that cannot be a route target")
		}
	}
	// oracle: for every pool community and the default, has == some live triple
	for _, e := range c17Pool {
		capable, _, num := c17Octets(e)
		want := false
		if capable {
			for k := range sc.memOn[h] {
				if k[0] == num {
					want = true
				}
			}
		}
		if sc.hnd[h].HasRouteTarget(e) != want {
			o.fail("rtm-refines", map[string]any{"rt": num, "HasRouteTarget": !want, "live": fmt.Sprint(sc.memOn[h])})
		}
	}
	wantDef := false
	for k := range sc.memOn[h] {
		if k[0] == 0 {
			wantDef = true
		}
	}
	if sc.hnd[h].HasDefaultRouteTarget() != wantDef {
		o.fail("rtm-refines", map[string]any{"default": !wantDef, "live": fmt.Sprint(sc.memOn[h])})
	}
	// interest of this handler's peer in a few stored routes (peer.go interestedIn restated)
	i := 0
	for _, k := range c17SortedKeys(sc.live) {
		if i >= 3 {
			break
		}
		i++
		c := sc.live[k]
		got := sc.hnd[h].HasDefaultRouteTarget()
		for _, e := range c.p.GetExtCommunities() {
			if sc.hnd[h].HasRouteTarget(e) {
				got = true
			}
		}
		o.ask(fmt.Sprint(c17b2i(got)), "interested %d %d", h, c.uid)
	}
	if r.chance(3) {
		sc.hnd[h].Reset()
		sc.memOn[h] = map[[3]uint64]bool{}
		o.op("memreset %d", h)
		o.stat("mem_reset", 1)
	}
}

func c17SortedKeys(m map[string]*c17Path) []string {
	keys := make([]string, 0, len(m))
	for k := range m {
		keys = append(keys, k)
	}
	sort.Strings(keys)
	return keys
}

func (sc *c17Scn) has(h int, rt bgp.ExtendedCommunityInterface) bool {
	if rt == nil {
		return sc.hnd[h].HasDefaultRouteTarget()
	}
	return sc.hnd[h].HasRouteTarget(rt)
}

func c17NewScn(o *vOut, r *vRand) *c17Scn {
	sc := &c17Scn{o: o, r: r, tm: NewTableManager(c17Logger(), []bgp.Family{bgp.RF_IPv4_VPN, bgp.RF_RTC_UC}),
		live: map[string]*c17Path{}, all: map[int]*c17Path{}, everRD: map[int]bool{}}
	for i := 0; i < 3; i++ {
		sc.hnd = append(sc.hnd, NewRouteTargetMembershipHandler())
		sc.memOn = append(sc.memOn, map[[3]uint64]bool{})
	}
	o.op("reset")
	return sc
}

// c17Corpus: deterministic regression for the index defect repaired by
// "fix: keep the VPN route-target index right when paths with and without a path-id share a destination"
func c17Corpus(o *vOut) {
	sc := c17NewScn(o, &vRand{s: 1})
	X, Y := c17Pool[0], c17Pool[1]
	a := &c17Path{uid: 9001, src: 0, pid: 0, rd: 0, pfx: 0, label: 1000, pref: 100, ecs: []bgp.ExtendedCommunityInterface{X, Y}}
	b := &c17Path{uid: 9002, src: 2, pid: 1, rd: 0, pfx: 0, label: 1000, pref: 300, ecs: []bgp.ExtendedCommunityInterface{X}}
	a.def(o)
	b.def(o)
	sc.update(a, false) // best, indexed
	sc.update(b, false) // better, ADD-PATH: indexed on its own; a must leave the index
	sc.update(a, true)  // a withdrawn: must not be in the index any more
	sc.update(a, false) // back as non-best
	sc.update(b, true)  // b withdrawn: a is best again and must be indexed
	// "fix: keep a VPN path in the route-target index when the same path object is fed again"
	sc.feed(a, a.p, false, nil) // soft reset in without a modifying policy: a must stay indexed
	sc.update(b, false)
	sc.feed(b, b.p, false, nil)
	sc.feed(a, a.p, false, nil)
	sc.uid = 9100
}

// c17CorpusMgr: the local membership of a deleted VRF must be withdrawn wherever it stands in its
// destination (seeded change C17-H: the scan stopped at the first path).
func c17CorpusMgr(o *vOut) {
	for _, lp := range []uint32{160, 100, 40} {
		sc := c17NewScn(o, &vRand{s: 1})
		sc.taken = map[string]uint64{}
		X := c17Pool[0]
		mk := func(id int, imp ...bgp.ExtendedCommunityInterface) *c17Vrf {
			v := &c17Vrf{id: id, name: fmt.Sprintf("vrf%d", id), rd: 0, label: uint32(2000 + id), imp: imp}
			msgs, err := sc.tm.AddVrf(v.name, uint32(id), c17RD(0), v.imp, nil, &PeerInfo{AS: 65000, LocalID: netip.MustParseAddr("10.255.0.1")})
			if err != nil {
				o.fail("vrf-add", err.Error())
				return v
			}
			o.ask("ok", "vrf %d 0 %d %s 0", id, v.label, c17ECs(v.imp))
			v.v, _ = sc.tm.GetVrf(v.name)
			sc.vrfs = append(sc.vrfs, v)
			sc.nvrf = id
			keys := []string{}
			for _, m := range msgs {
				k, _ := m.GetNlri().(*bgp.RouteTargetMembershipNLRI).RouteTargetKey()
				keys = append(keys, fmt.Sprint(k))
				sc.tm.Update(m)
			}
			o.ask(strings.Join(keys, " "), "addvrf %d", id)
			return v
		}
		mk(1, X)
		// neighbour src1 announces the identical membership
		n := bgp.NewRouteTargetMembershipNLRI(65000, X)
		mp, _ := bgp.NewPathAttributeMpReachNLRI(bgp.RF_RTC_UC, []bgp.PathNLRI{{NLRI: n}}, c17Srcs[0].Address)
		sc.tm.Update(NewPath(bgp.RF_RTC_UC, c17Srcs[0], bgp.PathNLRI{NLRI: n}, false,
			[]bgp.PathAttributeInterface{bgp.NewPathAttributeOrigin(0), bgp.NewPathAttributeAsPath(nil), bgp.NewPathAttributeLocalPref(lp), mp}, time.Unix(1700000000, 0), false))
		o.op("mrecv %d 1 %d 0", c17Num(X), lp)
		sc.rtcHist = append(sc.rtcHist, fmt.Sprintf("recv membership as=65000 rt=%d from src1 lp=%d", c17Num(X), lp))
		sc.askRdest(c17Num(X))
		sc.r = &vRand{s: 1}
		sc.delVrf() // the only VRF
		o.stat("corpus_mgr", 1)
	}
}

// c17CorpusVrf: what is reported for a VRF and what remains after its removal (seeded changes C17-Q,
// C17-R): a destination with an imported and a foreign path; a VRF-originated route that is not the
// best path of its destination when the VRF is deleted; the competing path withdrawn afterwards; the
// VRF re-created with the same name, RD and targets.
func c17CorpusVrf(o *vOut) {
	sc := c17NewScn(o, &vRand{s: 7})
	sc.taken = map[string]uint64{}
	X, Z := c17Pool[0], c17Pool[2]
	mk := func() *c17Vrf {
		sc.nvrf++
		v := &c17Vrf{id: sc.nvrf, name: "vrf-rd3", rd: 3, label: 2001, imp: []bgp.ExtendedCommunityInterface{X}, exp: []bgp.ExtendedCommunityInterface{X}}
		msgs, err := sc.tm.AddVrf(v.name, uint32(v.id), c17RD(3), v.imp, v.exp, &PeerInfo{AS: 65000, LocalID: netip.MustParseAddr("10.255.0.1")})
		if err != nil {
			o.fail("vrf-add", err.Error())
			return v
		}
		o.ask("ok", "vrf %d 3 %d %s %s", v.id, v.label, c17ECs(v.imp), c17ECs(v.exp))
		v.v, _ = sc.tm.GetVrf(v.name)
		v.v.MplsLabel = v.label
		sc.vrfs = append(sc.vrfs, v)
		keys := []string{}
		for _, m := range msgs {
			k, _ := m.GetNlri().(*bgp.RouteTargetMembershipNLRI).RouteTargetKey()
			keys = append(keys, fmt.Sprint(k))
			sc.tm.Update(m)
		}
		o.ask(strings.Join(keys, " "), "addvrf %d", v.id)
		sc.checkNoOriginated(3, "AddVrf vrf-rd3")
		return v
	}
	v := mk()
	// a route added to the VRF (LOCAL_PREF 116) ...
	n, _ := bgp.NewIPAddrPrefix(netip.MustParsePrefix(c17Prefixes[0]))
	nh, _ := bgp.NewPathAttributeNextHop(netip.MustParseAddr("0.0.0.0"))
	loc := &c17Path{uid: 9201, src: -1, rd: 3, pfx: 0, label: v.label, pref: 116, ecs: []bgp.ExtendedCommunityInterface{X}}
	p := NewPath(bgp.RF_IPv4_UC, nil, bgp.PathNLRI{NLRI: n}, false, []bgp.PathAttributeInterface{bgp.NewPathAttributeOrigin(0), bgp.NewPathAttributeAsPath(nil), nh,
		bgp.NewPathAttributeLocalPref(116), bgp.NewPathAttributeCommunities([]uint32{0xfffe0000 | 9201, 9201})}, time.Unix(1700000000, 0), false)
	_ = v.v.ToGlobalPath(p)
	loc.p = p
	loc.def(o)
	sc.live[sc.key(loc)] = loc
	sc.feed(loc, p, false, nil)
	// ... and another PE using the same RD announces the same prefix, preferred, with a foreign target
	pe := &c17Path{uid: 9202, src: 1, rd: 3, pfx: 0, label: 1003, pref: 300, ecs: []bgp.ExtendedCommunityInterface{Z}}
	pe.def(o)
	sc.live[sc.key(pe)] = pe
	sc.update(pe, false)
	sc.vrfChecks() // Info must count 1 destination, 1 path
	sc.r = &vRand{s: 1}
	sc.delVrf() // the local route, runner-up of its destination, must go
	delete(sc.live, sc.key(pe))
	sc.update(pe, true) // nothing may come back
	sc.checkNoOriginated(3, "withdrawal of the competing path after DeleteVrf")
	mk() // re-created: like a first creation
	sc.vrfChecks()
	sc.uid = 9300
	o.stat("corpus_vrf", 1)
}

func TestVerifC17(t *testing.T) {
	o := vOpen(t)
	defer o.close()
	r := &vRand{s: o.seed*7919 + 17}
	c17Corpus(o)
	c17CorpusMgr(o)
	c17CorpusVrf(o)
	scenarios, steps := 60, 70
	if o.thorough {
		scenarios, steps = 400, 90
	}
	for s := 0; s < scenarios; s++ {
		sc := c17NewScn(o, r)
		sc.uid = s * 1000
		for i := 0; i < steps; i++ {
			switch x := r.intn(100); {
			case x < 36:
				sc.routeOp()
			case x < 42:
				sc.originateOp()
			case x < 50:
				sc.refeedOp()
			case x < 57:
				if len(sc.vrfs) < 4 {
					sc.addVrf()
				}
			case x < 62:
				sc.delVrf()
			case x < 68:
				sc.rtmRecv()
			case x < 73:
				sc.vrfChecks()
			case x < 78:
				sc.convChecks()
			default:
				sc.memOp()
			}
		}
		sc.vrfChecks()
		if s < 2 {
			o.sample(fmt.Sprintf("scenario %d: %d stored routes, %d vrfs", s, len(sc.live), len(sc.vrfs)))
		}
	}
}
