//go:build verif

package table

// C03 correspondence harness: drives the real destination.Calculate / getMultiBestPath over
// generated candidate sets in many arrival orders and histories, prints the resulting path
// list per step (compared line by line with the Lean model BestPath.calcStep), and checks the
// property itself (order independence when MED is comparable) without the model.

import (
	"encoding/binary"
	"fmt"
	"log/slog"
	"net/netip"
	"strings"
	"testing"
	"time"

	"github.com/osrg/gobgp/v4/pkg/config/oc"
	"github.com/osrg/gobgp/v4/pkg/packet/bgp"
)

type c03Seg struct {
	typ uint8
	as  []uint32
}

type c03Cand struct {
	id        int
	srcIdx    int // -1 = local
	src       *PeerInfo
	pathID    uint32
	stale     bool
	nhInvalid bool
	lp        *uint32
	segs      []c03Seg
	origin    *uint8
	med       *uint32
	ts        int64
}

func c03AddrKey(a netip.Addr) (bool, string) {
	if !a.IsValid() {
		return false, "0"
	}
	if a.Is4() {
		b := a.As4()
		return true, fmt.Sprint(binary.BigEndian.Uint32(b[:]))
	}
	// every IPv6 address sorts after every IPv4 one (netip.Addr.Compare looks at the bit length
	// first); the generator only varies the low 64 bits of its IPv6 addresses.
	b := a.As16()
	lo := binary.BigEndian.Uint64(b[8:])
	if b[0] == 0xfe && b[1] == 0x80 {
		// link-local neighbours (parallel unnumbered sessions): they sort after the 2001:db8::/64
		// ones, among themselves by address and then by ZONE (netip.Addr.Compare's last step)
		return true, fmt.Sprint(uint64(1)<<50 + lo*16 + c03ZoneRank(a.Zone()))
	}
	return true, fmt.Sprint(uint64(1)<<32 + lo)
}

// c03ZoneRank: the rank of a zone among the zones the generator uses, in string order
// ("" < "eth0" < "eth1" < "eth2").
func c03ZoneRank(z string) uint64 {
	switch z {
	case "":
		return 0
	case "eth0":
		return 1
	case "eth1":
		return 2
	case "eth2":
		return 3
	}
	return 15
}

func c03Rid(a netip.Addr) uint32 {
	if !a.IsValid() || !a.Is4() {
		return 0
	}
	b := a.As4()
	return binary.BigEndian.Uint32(b[:])
}

func (c *c03Cand) line() string {
	var sb strings.Builder
	s := c.src
	if s == nil {
		s = &PeerInfo{}
	}
	av, ak := c03AddrKey(s.Address)
	b := func(x bool) int {
		if x {
			return 1
		}
		return 0
	}
	fmt.Fprintf(&sb, "cand %d %d %d %d %d %d %s %d %d %d %d", c.id, s.AS, s.LocalAS, c03Rid(s.ID), c03Rid(s.LocalID),
		b(av), ak, b(s.Confederation), c.pathID, b(c.stale), b(c.nhInvalid))
	if c.lp != nil {
		fmt.Fprintf(&sb, " 1 %d", *c.lp)
	} else {
		sb.WriteString(" 0 0")
	}
	if c.origin != nil {
		fmt.Fprintf(&sb, " 1 %d", *c.origin)
	} else {
		sb.WriteString(" 0 0")
	}
	if c.med != nil {
		fmt.Fprintf(&sb, " 1 %d", *c.med)
	} else {
		sb.WriteString(" 0 0")
	}
	fmt.Fprintf(&sb, " %d %d", c.ts, len(c.segs))
	for _, sg := range c.segs {
		fmt.Fprintf(&sb, " %d %d", sg.typ, len(sg.as))
		for _, a := range sg.as {
			fmt.Fprintf(&sb, " %d", a)
		}
	}
	return sb.String()
}

var c03Nlri = func() bgp.NLRI {
	n, _ := bgp.NewIPAddrPrefix(netip.MustParsePrefix("10.9.0.0/24"))
	return n
}()

func (c *c03Cand) path(withdraw bool) *Path {
	if withdraw {
		return NewPath(bgp.RF_IPv4_UC, c.src, bgp.PathNLRI{NLRI: c03Nlri, ID: c.pathID}, true, nil, time.Unix(c.ts, 0), false)
	}
	attrs := []bgp.PathAttributeInterface{}
	if c.origin != nil {
		attrs = append(attrs, bgp.NewPathAttributeOrigin(*c.origin))
	}
	if c.segs != nil {
		params := make([]bgp.AsPathParamInterface, 0, len(c.segs))
		for _, sg := range c.segs {
			params = append(params, bgp.NewAs4PathParam(sg.typ, append([]uint32{}, sg.as...)))
		}
		attrs = append(attrs, bgp.NewPathAttributeAsPath(params))
	}
	nh, _ := bgp.NewPathAttributeNextHop(netip.MustParseAddr("192.0.2.1"))
	attrs = append(attrs, nh)
	if c.med != nil {
		attrs = append(attrs, bgp.NewPathAttributeMultiExitDisc(*c.med))
	}
	if c.lp != nil {
		attrs = append(attrs, bgp.NewPathAttributeLocalPref(*c.lp))
	}
	if c.stale {
		attrs = append(attrs, bgp.NewPathAttributeCommunities([]uint32{uint32(bgp.COMMUNITY_LLGR_STALE)}))
	}
	p := NewPath(bgp.RF_IPv4_UC, c.src, bgp.PathNLRI{NLRI: c03Nlri, ID: c.pathID}, false, attrs, time.Unix(c.ts, 0), false)
	p.IsNexthopInvalid = c.nhInvalid
	return p
}

// c03Sources builds the pool of sources for one candidate set: eBGP, iBGP, confederation
// members of the same and of another member-AS; router-ids and addresses come from small pools
// so ties at the late steps are common.
func c03Sources(r *vRand) []*PeerInfo {
	const localAS = 65000
	localID := netip.MustParseAddr("10.255.0.1")
	n := 3 + r.intn(4)
	addrs := r.perm(12)
	zoned := r.intn(4) == 0
	out := make([]*PeerInfo, 0, n)
	for i := 0; i < n; i++ {
		pi := &PeerInfo{LocalAS: localAS, LocalID: localID}
		switch r.intn(10) {
		case 0, 1, 2, 3:
			pi.AS = uint32(65001 + r.intn(3))
			pi.PeerType = oc.PEER_TYPE_EXTERNAL
		case 4, 5, 6:
			pi.AS = localAS
			pi.PeerType = oc.PEER_TYPE_INTERNAL
		case 7, 8:
			pi.AS = uint32(65010 + r.intn(2))
			pi.PeerType = oc.PEER_TYPE_EXTERNAL
			pi.Confederation = true
		default:
			pi.AS = localAS
			pi.PeerType = oc.PEER_TYPE_INTERNAL
			pi.Confederation = true
		}
		pi.ID = netip.AddrFrom4([4]byte{10, 0, 0, byte(1 + r.intn(4))})
		if zoned && i < 4 {
			// parallel sessions to one router over several links: one link-local address, told
			// apart by the zone only (the fourth one without a zone); same router-id, so that
			// the decision reaches the last step
			pi.ID = netip.AddrFrom4([4]byte{10, 0, 0, 1})
			z := []string{"%eth1", "%eth0", "%eth2", ""}[i]
			pi.Address = netip.MustParseAddr("fe80::1" + z)
		} else if addrs[i] < 10 {
			pi.Address = netip.AddrFrom4([4]byte{192, 168, 0, byte(1 + addrs[i])})
		} else {
			pi.Address = netip.MustParseAddr(fmt.Sprintf("2001:db8::%d", addrs[i]))
		}
		out = append(out, pi)
	}
	return out
}

func u32p(v uint32) *uint32 { return &v }
func u8p(v uint8) *uint8    { return &v }

// c03Attrs draws the attribute part of a candidate. `depth` is the first decision step at which
// candidates of this set are allowed to differ (0 = anything may differ): it makes the late
// tie-breakers (MED, eBGP/iBGP, age, router-id, neighbour address) decide in a large share of
// sets instead of almost never.
func c03Attrs(r *vRand, c *c03Cand, base *c03Cand, depth int) {
	*c = c03Cand{id: c.id, srcIdx: c.srcIdx, src: c.src, pathID: c.pathID,
		stale: base.stale, nhInvalid: base.nhInvalid, lp: base.lp, segs: base.segs, origin: base.origin, med: base.med, ts: base.ts}
	if depth <= 0 && r.chance(25) {
		c.stale = r.chance(50)
	}
	if depth <= 1 && r.chance(25) {
		c.nhInvalid = r.chance(50)
	}
	if depth <= 2 && r.chance(50) {
		switch r.intn(4) {
		case 0:
			c.lp = nil
		case 1:
			c.lp = u32p(100)
		case 2:
			c.lp = u32p(200)
		default:
			c.lp = u32p(uint32(r.pick(0, 99, 101, 4294967295)))
		}
	}
	if depth <= 4 && r.chance(60) {
		c.segs = c03Segs(r)
	}
	if depth <= 5 && r.chance(50) {
		if r.chance(4) {
			c.origin = nil
		} else {
			c.origin = u8p(uint8(r.intn(3)))
		}
	}
	if depth <= 6 {
		if r.chance(50) {
			if r.chance(25) {
				c.med = nil
			} else {
				c.med = u32p(uint32(r.pick(0, 10, 20, 4294967295)))
			}
		}
		// same length, different first AS: MED comparability changes, AS_PATH length does not
		if r.chance(30) && len(c.segs) > 0 {
			segs := make([]c03Seg, len(c.segs))
			for i, s := range c.segs {
				segs[i] = c03Seg{s.typ, append([]uint32{}, s.as...)}
			}
			for i := range segs {
				if len(segs[i].as) > 0 && segs[i].typ != 3 && segs[i].typ != 4 {
					segs[i].as[0] = uint32(r.pick(100, 200, 0))
					break
				}
			}
			c.segs = segs
		}
	}
	if depth <= 8 && r.chance(70) {
		c.ts = int64(r.pick(1000, 1001, 2000, 3000))
	}
}

func c03Segs(r *vRand) []c03Seg {
	switch r.intn(8) {
	case 0:
		return nil // no AS_PATH attribute
	case 1:
		return []c03Seg{} // empty AS_PATH
	}
	n := 1 + r.intn(3)
	out := make([]c03Seg, 0, n)
	for i := 0; i < n; i++ {
		typ := uint8(r.pick(2, 2, 2, 1, 3, 4))
		k := r.intn(4)
		as := make([]uint32, k)
		for j := range as {
			as[j] = uint32(r.pick(100, 200, 300, 65001, 65002))
		}
		out = append(out, c03Seg{typ, as})
	}
	return out
}

type c03Impl struct {
	dest *destination
	ids  map[*Path]int
	log  *slog.Logger
}

func newC03Impl() *c03Impl {
	return &c03Impl{dest: newDestination(c03Nlri, 64), ids: map[*Path]int{}, log: slog.New(slog.DiscardHandler)}
}

func (m *c03Impl) ann(c *c03Cand) {
	p := c.path(false)
	m.ids[p] = c.id
	m.dest.Calculate(m.log, p)
}
func (m *c03Impl) wd(c *c03Cand) { m.dest.Calculate(m.log, c.path(true)) }
func (m *c03Impl) dump() string {
	var sb strings.Builder
	sb.WriteString("list")
	for _, p := range m.dest.knownPathList {
		fmt.Fprintf(&sb, " %d", m.ids[p])
	}
	if len(m.dest.knownPathList) == 0 {
		sb.WriteString(" ")
	}
	sb.WriteString(" | multi")
	mp := getMultiBestPath(GLOBAL_RIB_NAME, m.dest.knownPathList)
	for _, p := range mp {
		fmt.Fprintf(&sb, " %d", m.ids[p])
	}
	if len(mp) == 0 {
		sb.WriteString(" ")
	}
	return sb.String()
}

// mpCheck is the model-independent oracle for the equal-cost multipath set: it must be the best
// path followed by the longest run of paths that are reachable, as LLGR-stale as the best path
// and equal to it under Path.Compare - a prefix of the list with no worse path inside and no
// qualifying path right behind it.
func (m *c03Impl) mpCheck(o *vOut, cands []*c03Cand, how string) {
	list := m.dest.knownPathList
	want := 0
	if len(list) > 0 && !list[0].IsNexthopInvalid {
		best := list[0]
		want = 1
		for want < len(list) && !list[want].IsNexthopInvalid && list[want].IsLLGRStale() == best.IsLLGRStale() && list[want].Compare(best) == 0 {
			want++
		}
	}
	got := getMultiBestPath(GLOBAL_RIB_NAME, list)
	ok := len(got) == want
	for i := 0; ok && i < want; i++ {
		ok = got[i] == list[i]
	}
	if want > 1 {
		o.stat("multipath_sets_gt1", 1)
	}
	if ok {
		return
	}
	lines := []string{}
	for _, c := range cands {
		lines = append(lines, c.line())
	}
	worse := "stale-or-unreachable-inside"
	for i := 1; i < len(got) && i < len(list); i++ {
		if got[i].Compare(list[0]) != 0 {
			worse = "worse-path-inside"
		}
	}
	if len(got) < want {
		worse = "equal-cost-path-left-out"
	}
	o.fail("multipath-not-equal-cost-run:"+worse, map[string]any{"opts": fmt.Sprintf("%+v", SelectionOptions), "cands": lines,
		"how": how, "list_and_multipath": m.dump(), "expected_multipath_len": want})
}

// c03Comparable re-states the property's precondition on the real paths: MED comparable across
// all pairs, ORIGIN present, sources pairwise distinct.
func c03Comparable(cs []*c03Cand) bool {
	ps := make([]*Path, len(cs))
	for i, c := range cs {
		if c.origin == nil {
			return false
		}
		ps[i] = c.path(false)
	}
	for i := range ps {
		for j := range ps {
			if i == j {
				continue
			}
			if cs[i].srcIdx == cs[j].srcIdx {
				return false
			}
			if !SelectionOptions.AlwaysCompareMed {
				internal := ps[i].GetAsPathLen() == 0 && ps[j].GetAsPathLen() == 0
				f1, f2 := c03FirstAS(ps[i]), c03FirstAS(ps[j])
				if !(internal || (f1 != 0 && f1 == f2)) {
					return false
				}
			}
		}
	}
	return true
}

func c03FirstAS(p *Path) uint32 {
	if ap := p.GetAsPath(); ap != nil {
		for _, v := range ap.Value {
			l := v.GetAS()
			if len(l) == 0 || v.GetType() == bgp.BGP_ASPATH_ATTR_TYPE_CONFED_SEQ || v.GetType() == bgp.BGP_ASPATH_ATTR_TYPE_CONFED_SET {
				continue
			}
			return l[0]
		}
	}
	return 0
}

// c03Key restates the documented preference (lower = preferred) WITHOUT using any of the
// compareBy* functions or Path helpers under test: not LLGR-stale, reachable, highest LOCAL_PREF,
// locally originated, shortest AS_PATH (SET = 1, confederation = 0; skipped when the option says
// so), lowest ORIGIN, lowest MED, external over internal (confederation members are internal),
// oldest (external only, unless external-compare-router-id), lowest router-id, lowest address.
func c03Key(c *c03Cand, opt oc.RouteSelectionOptionsConfig) []int64 {
	b := func(x bool) int64 {
		if x {
			return 1
		}
		return 0
	}
	lp := int64(100)
	if c.lp != nil {
		lp = int64(*c.lp)
	}
	aslen := int64(0)
	if !opt.IgnoreAsPathLength {
		for _, sg := range c.segs {
			switch sg.typ {
			case 2:
				aslen += int64(len(sg.as))
			case 1:
				aslen++
			}
		}
	}
	med := int64(0)
	if c.med != nil {
		med = int64(*c.med)
	}
	src := c.src
	if src == nil {
		src = &PeerInfo{}
	}
	local := !src.Address.IsValid()
	internal := src.Confederation || (src.AS == src.LocalAS && src.AS != 0)
	age := int64(0)
	if !internal && !opt.ExternalCompareRouterId {
		age = c.ts
	}
	rid := int64(0)
	if opt.ExternalCompareRouterId || internal {
		rid = int64(c03Rid(src.ID))
	}
	addr := int64(0)
	if src.Address.IsValid() {
		b4 := src.Address.As16()
		addr = 1 + int64(binary.BigEndian.Uint32(b4[12:]))
		if src.Address.Is6() {
			addr += 1 << 40
		}
		if b4[0] == 0xfe && b4[1] == 0x80 {
			addr = 1<<50 + addr*16 + int64(c03ZoneRank(src.Address.Zone()))
		}
	}
	return []int64{b(c.stale), b(c.nhInvalid), -lp, b(!local), aslen, int64(*c.origin), med, b(internal), age, rid, addr}
}

// c03PairMedComparable restates, from the candidates' own fields, when the decision process may
// compare the MEDs of two routes: always-compare-med, both AS_PATHs empty of counted ASes, or the
// same (non-zero) first AS outside confederation segments.
func c03PairMedComparable(a, b *c03Cand, opt oc.RouteSelectionOptionsConfig) bool {
	if opt.AlwaysCompareMed {
		return true
	}
	cnt := func(c *c03Cand) (n int, first uint32) {
		seen := false
		for _, sg := range c.segs {
			switch sg.typ {
			case 2:
				n += len(sg.as)
			case 1:
				n++
			}
			// the neighbour AS is the first AS of the first non-confederation segment that has
			// one; the reserved AS 0 there means "no neighbour AS" (never comparable)
			if !seen && (sg.typ == 1 || sg.typ == 2) && len(sg.as) > 0 {
				first, seen = sg.as[0], true
			}
		}
		return
	}
	na, fa := cnt(a)
	nb, fb := cnt(b)
	return (na == 0 && nb == 0) || (fa != 0 && fa == fb)
}

// c03PairOracle: for two candidates the documented process is well defined whatever the MEDs
// (the MED step is skipped when the two are not comparable). Both arrival orders must elect the
// documented winner.
func c03PairOracle(o *vOut, cands []*c03Cand) {
	n := len(cands)
	if n > 5 {
		n = 5
	}
	for i := 0; i < n; i++ {
		for j := i + 1; j < n; j++ {
			a, b := cands[i], cands[j]
			if a.origin == nil || b.origin == nil || a.srcIdx == b.srcIdx {
				continue
			}
			ka, kb := c03Key(a, SelectionOptions), c03Key(b, SelectionOptions)
			cmpMed := c03PairMedComparable(a, b, SelectionOptions)
			if !cmpMed {
				ka[6], kb[6] = 0, 0
			}
			var want *c03Cand
			switch {
			case c03KeyLess(ka, kb):
				want = a
			case c03KeyLess(kb, ka):
				want = b
			default:
				continue
			}
			for _, ord := range [][2]*c03Cand{{a, b}, {b, a}} {
				m := newC03Impl()
				m.ann(ord[0])
				m.ann(ord[1])
				o.stat("pair_runs", 1)
				if got := m.ids[m.dest.knownPathList[0]]; got != want.id {
					how := "med-comparable"
					if !cmpMed {
						how = "med-not-comparable"
					}
					o.fail("pair-best-not-documented:"+how, map[string]any{"opts": fmt.Sprintf("%+v", SelectionOptions),
						"cands": []string{a.line(), b.line()}, "arrival_order": []int{ord[0].id, ord[1].id},
						"reported_best": got, "documented_best": want.id})
					return
				}
			}
		}
	}
}

func c03KeyLess(a, b []int64) bool {
	for i := range a {
		if a[i] != b[i] {
			return a[i] < b[i]
		}
	}
	return false
}

func c03Perms(n int, f func([]int)) {
	p := make([]int, n)
	for i := range p {
		p[i] = i
	}
	var rec func(k int)
	rec = func(k int) {
		if k == n {
			f(p)
			return
		}
		for i := k; i < n; i++ {
			p[k], p[i] = p[i], p[k]
			rec(k + 1)
			p[k], p[i] = p[i], p[k]
		}
	}
	rec(0)
}

func TestVerifC03(t *testing.T) {
	o := vOpen(t)
	defer o.close()
	r := &vRand{s: o.seed*7919 + 3}
	savedSel, savedMulti := SelectionOptions, UseMultiplePaths
	defer func() { SelectionOptions, UseMultiplePaths = savedSel, savedMulti }()

	sets := 1500
	if o.thorough {
		sets = 12000
	}
	stepNames := []string{"llgr", "reach", "localpref", "localorigin", "aspath", "origin", "med", "asnumber", "age", "routerid", "neighbor", "tie"}
	nextID := 1
	for s := 0; s < sets; s++ {
		SelectionOptions = oc.RouteSelectionOptionsConfig{
			AlwaysCompareMed:        r.chance(50),
			IgnoreAsPathLength:      r.chance(25),
			ExternalCompareRouterId: r.chance(35),
		}
		b := func(x bool) int {
			if x {
				return 1
			}
			return 0
		}
		o.op("opts %d %d %d", b(SelectionOptions.AlwaysCompareMed), b(SelectionOptions.IgnoreAsPathLength), b(SelectionOptions.ExternalCompareRouterId))
		srcs := c03Sources(r)
		k := 2 + r.intn(4)
		if o.thorough && r.chance(15) {
			k = 6 + r.intn(3)
		}
		depth := r.pick(0, 0, 2, 4, 5, 6, 7, 8, 9, 10)
		base := &c03Cand{origin: u8p(0), lp: u32p(100), ts: 1000, segs: []c03Seg{{2, []uint32{100, 300}}}}
		c03Attrs(r, base, base, 0)
		if base.origin == nil {
			base.origin = u8p(1)
		}
		// candidates: mostly distinct sources; sometimes a local route, a second path-id of the
		// same source (ADD-PATH), or a replacement for an earlier (source, path-id).
		cands := []*c03Cand{}
		order := r.perm(len(srcs))
		for i := 0; i < k; i++ {
			c := &c03Cand{id: nextID}
			nextID++
			switch {
			case r.chance(8):
				c.srcIdx, c.src = -1, nil
			case i < len(order):
				c.srcIdx, c.src = order[i], srcs[order[i]]
			default:
				j := r.intn(len(srcs))
				c.srcIdx, c.src = j, srcs[j]
				c.pathID = uint32(1 + r.intn(2))
			}
			c03Attrs(r, c, base, depth)
			cands = append(cands, c)
			o.op("%s", c.line())
		}
		if s < 3 {
			o.sample(fmt.Sprintf("opts=%+v depth=%d cands=%d first=%q", SelectionOptions, depth, len(cands), cands[0].line()))
		}
		// which comparator decides between the first two candidates (coverage histogram)
		{
			p1, p2 := cands[0].path(false), cands[1].path(false)
			fs := []func(a, b *Path) *Path{compareByLLGRStaleCommunity, compareByReachableNexthop, compareByLocalPref,
				compareByLocalOrigin, compareByASPath, compareByOrigin, compareByMED, compareByASNumber, compareByAge,
				func(a, b *Path) *Path { p, _ := compareByRouterID(a, b); return p }, compareByNeighborAddress}
			dec := 11
			for i, f := range fs {
				if f(p1, p2) != nil {
					dec = i
					break
				}
			}
			o.stat("decided_by_"+stepNames[dec], 1)
		}
		c03PairOracle(o, cands)
		// 1. arrival-order sweep
		distinct := true
		seen := map[string]bool{}
		for _, c := range cands {
			key := fmt.Sprintf("%d/%d", c.srcIdx, c.pathID)
			if seen[key] {
				distinct = false
			}
			seen[key] = true
		}
		comparable := distinct && c03Comparable(cands)
		if comparable {
			o.stat("sets_med_comparable", 1)
		}
		var first string
		var firstPerm []int
		run := func(p []int) {
			m := newC03Impl()
			o.op("reset")
			for _, i := range p {
				m.ann(cands[i])
				o.op("ann %d", cands[i].id)
			}
			d := m.dump()
			o.ask(d, "dump")
			m.mpCheck(o, cands, fmt.Sprintf("arrival order %v", p))
			if comparable && len(m.dest.knownPathList) > 0 {
				// the best path must be minimal for the documented key
				var best *c03Cand
				for _, c := range cands {
					if c.id == m.ids[m.dest.knownPathList[0]] {
						best = c
					}
				}
				for _, c := range cands {
					if best != nil && c03KeyLess(c03Key(c, SelectionOptions), c03Key(best, SelectionOptions)) {
						lines := []string{}
						for _, x := range cands {
							lines = append(lines, x.line())
						}
						o.fail("best-not-documented", map[string]any{"opts": fmt.Sprintf("%+v", SelectionOptions), "cands": lines,
							"arrival_order": append([]int{}, p...), "reported_best": best.id, "documented_better": c.id, "list": d})
						break
					}
				}
			}
			if comparable {
				if first == "" {
					first, firstPerm = d, append([]int{}, p...)
				} else if d != first {
					lines := []string{}
					for _, c := range cands {
						lines = append(lines, c.line())
					}
					o.fail(c03Class(cands), map[string]any{"opts": fmt.Sprintf("%+v", SelectionOptions), "cands": lines,
						"order_a": firstPerm, "result_a": first, "order_b": append([]int{}, p...), "result_b": d})
				}
			}
		}
		if len(cands) <= 4 || (o.thorough && len(cands) <= 5) {
			c03Perms(len(cands), run)
		} else {
			for i := 0; i < 24; i++ {
				run(r.perm(len(cands)))
			}
		}
		// 2. a history with replacements and withdrawals, dumped after every step
		m := newC03Impl()
		o.op("reset")
		steps := 6 + r.intn(10)
		for i := 0; i < steps; i++ {
			c := cands[r.intn(len(cands))]
			if r.chance(30) {
				m.wd(c)
				o.op("wd %d", c.id)
			} else {
				if r.chance(30) { // replacement: same (source, path-id), new attributes, new id
					nc := &c03Cand{id: nextID, srcIdx: c.srcIdx, src: c.src, pathID: c.pathID}
					nextID++
					c03Attrs(r, nc, base, depth)
					o.op("%s", nc.line())
					cands = append(cands, nc)
					c = nc
				}
				m.ann(c)
				o.op("ann %d", c.id)
			}
			o.ask(m.dump(), "dump")
			m.mpCheck(o, cands, "history with replacements and withdrawals")
		}
		o.stat("sets", 1)
	}
}

// c03Class gives an oracle failure a stable signature: which kinds of sources the failing set
// mixes. known_findings.json lists signatures, so a failure of a different shape is still a
// violation.
func c03Class(cs []*c03Cand) string {
	confedE, ibgp := false, false
	for _, c := range cs {
		if c.src == nil {
			continue
		}
		if c.src.Confederation && c.src.AS != c.src.LocalAS {
			confedE = true
		}
		if c.src.AS == c.src.LocalAS {
			ibgp = true
		}
	}
	if confedE && ibgp {
		return "order-dependent:confed-ebgp+ibgp"
	}
	return "order-dependent:other"
}
