//go:build verif

package table

// C10 correspondence harness: builds real RoutingPolicy objects through the configuration path
// (oc.RoutingPolicy + oc.ApplyPolicy -> NewRoutingPolicy().Reset) from generated policy programs,
// evaluates generated routes with RoutingPolicy.ApplyPolicy / Condition.Evaluate and prints verdict
// and resulting attributes (compared line by line with the Lean model Policy.applyPolicy /
// Policy.evalCond).  Model-independent oracles: (1) aliasing detector — the stored path and every
// result handed out earlier must read the same after any later evaluation (attribute slices are
// created with spare capacity); (2) configuration read-back (GetPolicy / GetDefinedSet /
// GetPolicyAssignment) equals what was configured; (3) evaluating the same route twice gives the
// same answer.

import (
	"encoding/hex"
	"encoding/json"
	"fmt"
	"log/slog"
	"math/big"
	"net/netip"
	"reflect"
	"regexp"
	"sort"
	"strings"
	"testing"
	"time"

	"github.com/osrg/gobgp/v4/api"
	"github.com/osrg/gobgp/v4/pkg/config/oc"
	"github.com/osrg/gobgp/v4/pkg/packet/bgp"
)

// ---------- descriptors (what the generator produces; neither side's data structure) ----------

type c10Pfx struct {
	p      netip.Prefix
	lo, hi int
	noRng  bool // configure without masklength-range
}

type c10Ext struct {
	trans bool
	kind  int // 0 two-octet AS specific, 1 IPv4 address specific
	sub   int // 2 route target, 3 route origin
	as    uint32
	la    uint32
}

type c10Large struct{ a, b, c uint32 }

type c10Set struct {
	emptiedFam int // prefix set emptied in place keeps its family: 0 none, 1 IPv4, 2 IPv6 (protocol codes)
	kind       int // 0 prefix 1 neighbor 2 aspath 3 comm 4 ext 5 large
	id         int
	pfx        []c10Pfx
	nets       []netip.Prefix
	singles    [][2]uint32 // mode, asn
	res        [][2]string // kind ("0" exact / "1" sub), literal
	comms      []uint32
	exts       []c10Ext
	larges     []c10Large
}

func (s *c10Set) name() string {
	return []string{"ps", "ns", "as", "cs", "es", "ls"}[s.kind] + fmt.Sprint(s.id)
}

type c10Cond struct {
	tag  int
	set  *c10Set
	opt  int // 0 any 1 all 2 invert
	op   int
	val  uint32
	nets []netip.Addr
	fams []int
}

type c10Act struct {
	tag     int
	op      int
	comms   []uint32
	exts    []c10Ext
	larges  []c10Large
	replace bool
	neg     bool
	val     uint32
	useLast bool
	rep     uint8
	kind    int
	addr    netip.Addr
}

type c10Stmt struct {
	id    int
	conds []c10Cond // in NewStatement order
	route int       // 0 none 1 accept 2 reject
	acts  []c10Act  // in NewStatement order
}

type c10Pol struct {
	id    int
	stmts []*c10Stmt
}

type c10Assign struct {
	id    string
	dir   PolicyDirection
	slot  int
	dflt  int // 1 accept 2 reject
	pols  []*c10Pol
	dfltS string
}

type c10Prog struct {
	sets    []*c10Set
	pols    []*c10Pol
	assigns []*c10Assign
}

type c10Seg struct {
	typ uint8
	as  []uint32
}

type c10Route struct {
	id       int
	withdraw bool
	v6       bool
	nlri     netip.Prefix
	src      *PeerInfo
	origin   *uint8
	segs     []c10Seg
	hasPath  bool
	nh       netip.Addr // invalid = no next hop attribute
	med      *uint32
	lp       *uint32
	comms    []uint32
	hasComm  bool
	exts     []c10Ext
	larges   []c10Large
	spare    int
}

type c10Opts struct {
	id    int
	isNil bool
	info  *PeerInfo
	oldNh netip.Addr
	rpki  int // 0 = no Validate function
}

// ---------- tokens ----------

func c10AddrNum(a netip.Addr) string {
	if !a.IsValid() {
		return "0"
	}
	return new(big.Int).SetBytes(a.AsSlice()).String()
}

func c10B(b bool) string {
	if b {
		return "1"
	}
	return "0"
}

func c10AddrTok(a netip.Addr) string { return c10B(a.Is6()) + " " + c10AddrNum(a) }

func c10OptAddrTok(a netip.Addr) string {
	if !a.IsValid() {
		return "0 0 0"
	}
	return "1 " + c10AddrTok(a)
}

func c10PfxTok(p netip.Prefix) string {
	return fmt.Sprintf("%s %d", c10AddrTok(p.Addr()), p.Bits())
}

func c10OptU32(p *uint32) string {
	if p == nil {
		return "0 0"
	}
	return fmt.Sprintf("1 %d", *p)
}

func c10ExtTok(e c10Ext) string {
	return fmt.Sprintf("%s %d %d %d %d", c10B(e.trans), e.kind, e.sub, e.as, e.la)
}

func c10Hex(s string) string {
	if s == "" {
		return "-"
	}
	return hex.EncodeToString([]byte(s))
}

func c10SetLine(s *c10Set) string {
	var b strings.Builder
	switch s.kind {
	case 0:
		fam := s.emptiedFam
		if len(s.pfx) > 0 {
			fam = 1
			if s.pfx[0].p.Addr().Is6() {
				fam = 2
			}
		}
		fmt.Fprintf(&b, "defset prefix %d %d %d", s.id, fam, len(s.pfx))
		for _, p := range s.pfx {
			fmt.Fprintf(&b, " %s %d %d", c10PfxTok(p.p), p.lo, p.hi)
		}
	case 1:
		fmt.Fprintf(&b, "defset neighbor %d %d", s.id, len(s.nets))
		for _, n := range s.nets {
			fmt.Fprintf(&b, " %s", c10PfxTok(n))
		}
	case 2:
		fmt.Fprintf(&b, "defset aspath %d %d", s.id, len(s.singles))
		for _, m := range s.singles {
			fmt.Fprintf(&b, " %d %d", m[0], m[1])
		}
		fmt.Fprintf(&b, " %d", len(s.res))
		for _, r := range s.res {
			fmt.Fprintf(&b, " %s %s", r[0], c10Hex(r[1]))
		}
	case 3:
		fmt.Fprintf(&b, "defset comm %d %d", s.id, len(s.comms))
		for _, c := range s.comms {
			fmt.Fprintf(&b, " %d", c)
		}
	case 4:
		fmt.Fprintf(&b, "defset ext %d %d", s.id, len(s.exts))
		for _, e := range s.exts {
			fmt.Fprintf(&b, " %d %d %d", e.sub, e.as, e.la)
		}
	case 5:
		fmt.Fprintf(&b, "defset large %d %d", s.id, len(s.larges))
		for _, l := range s.larges {
			fmt.Fprintf(&b, " %d %d %d", l.a, l.b, l.c)
		}
	}
	return b.String()
}

func c10StmtLine(s *c10Stmt) string {
	var b strings.Builder
	fmt.Fprintf(&b, "stmt %d %d", s.id, len(s.conds))
	for _, c := range s.conds {
		fmt.Fprintf(&b, " %d", c.tag)
		switch c.tag {
		case 0, 1, 7, 8, 9, 10:
			fmt.Fprintf(&b, " %d %d", c.set.id, c.opt)
		case 2, 3:
			fmt.Fprintf(&b, " %d %d", c.op, c.val)
		case 4, 5, 6, 13, 14:
			fmt.Fprintf(&b, " %d", c.val)
		case 11:
			fmt.Fprintf(&b, " %d", len(c.nets))
			for _, a := range c.nets {
				fmt.Fprintf(&b, " %s %d", c10AddrTok(a), a.BitLen())
			}
		case 12:
			fmt.Fprintf(&b, " %d", len(c.fams))
			for _, f := range c.fams {
				fmt.Fprintf(&b, " %d", f)
			}
		}
	}
	fmt.Fprintf(&b, " %d %d", s.route, len(s.acts))
	for _, a := range s.acts {
		fmt.Fprintf(&b, " %d", a.tag)
		switch a.tag {
		case 0:
			fmt.Fprintf(&b, " %d %d", a.op, len(a.comms))
			for _, c := range a.comms {
				fmt.Fprintf(&b, " %d", c)
			}
		case 1:
			if a.op == 1 {
				fmt.Fprintf(&b, " %d 0 %d", a.op, len(a.exts))
				for _, e := range a.exts {
					fmt.Fprintf(&b, " %d %d %d", e.sub, e.as, e.la)
				}
			} else {
				fmt.Fprintf(&b, " %d %d", a.op, len(a.exts))
				for _, e := range a.exts {
					fmt.Fprintf(&b, " %s", c10ExtTok(e))
				}
				b.WriteString(" 0")
			}
		case 2:
			fmt.Fprintf(&b, " %d %d", a.op, len(a.larges))
			for _, l := range a.larges {
				fmt.Fprintf(&b, " %d %d %d", l.a, l.b, l.c)
			}
		case 3:
			fmt.Fprintf(&b, " %s %s %d", c10B(a.replace), c10B(a.neg), a.val)
		case 4, 7:
			fmt.Fprintf(&b, " %d", a.val)
		case 5:
			fmt.Fprintf(&b, " %s %d %d", c10B(a.useLast), a.val, a.rep)
		case 6:
			if a.kind == 0 {
				fmt.Fprintf(&b, " 0 %s", c10AddrTok(a.addr))
			} else {
				fmt.Fprintf(&b, " %d 0 0", a.kind)
			}
		}
	}
	return b.String()
}

func c10RouteLine(r *c10Route) string {
	var b strings.Builder
	fmt.Fprintf(&b, "route %d %s %s %s", r.id, c10B(r.withdraw), c10B(r.v6), c10PfxTok(r.nlri))
	fmt.Fprintf(&b, " %s %d %d", c10OptAddrTok(r.src.Address), r.src.AS, r.src.LocalAS)
	if r.origin == nil {
		b.WriteString(" 0 0")
	} else {
		fmt.Fprintf(&b, " 1 %d", *r.origin)
	}
	fmt.Fprintf(&b, " %d", len(r.segs))
	for _, s := range r.segs {
		fmt.Fprintf(&b, " %d %d", s.typ, len(s.as))
		for _, a := range s.as {
			fmt.Fprintf(&b, " %d", a)
		}
	}
	fmt.Fprintf(&b, " %s %s %s", c10OptAddrTok(r.nh), c10OptU32(r.med), c10OptU32(r.lp))
	fmt.Fprintf(&b, " %d", len(r.comms))
	for _, c := range r.comms {
		fmt.Fprintf(&b, " %d", c)
	}
	fmt.Fprintf(&b, " %d", len(r.exts))
	for _, e := range r.exts {
		fmt.Fprintf(&b, " %s", c10ExtTok(e))
	}
	fmt.Fprintf(&b, " %d", len(r.larges))
	for _, l := range r.larges {
		fmt.Fprintf(&b, " %d %d %d", l.a, l.b, l.c)
	}
	return b.String()
}

func c10OptsLine(x *c10Opts) string {
	ia, il, cf := netip.Addr{}, netip.Addr{}, false
	if !x.isNil && x.info != nil {
		ia, il, cf = x.info.Address, x.info.LocalAddress, x.info.Confederation
	}
	old := netip.Addr{}
	if !x.isNil {
		old = x.oldNh
	}
	rp := "0 0"
	if !x.isNil && x.rpki != 0 {
		rp = fmt.Sprintf("1 %d", x.rpki)
	}
	return fmt.Sprintf("opts %d %s %s %s %s %s", x.id, c10OptAddrTok(ia), c10OptAddrTok(il), c10B(cf), c10OptAddrTok(old), rp)
}

// ---------- building the real objects ----------

func c10MatchOpt(o int) oc.MatchSetOptionsType {
	return []oc.MatchSetOptionsType{oc.MATCH_SET_OPTIONS_TYPE_ANY, oc.MATCH_SET_OPTIONS_TYPE_ALL, oc.MATCH_SET_OPTIONS_TYPE_INVERT}[o]
}

func c10MatchOptR(o int) oc.MatchSetOptionsRestrictedType {
	if o == 2 {
		return oc.MATCH_SET_OPTIONS_RESTRICTED_TYPE_INVERT
	}
	return oc.MATCH_SET_OPTIONS_RESTRICTED_TYPE_ANY
}

var c10CmpNames = []oc.AttributeComparison{oc.ATTRIBUTE_COMPARISON_ATTRIBUTE_EQ, oc.ATTRIBUTE_COMPARISON_ATTRIBUTE_GE, oc.ATTRIBUTE_COMPARISON_ATTRIBUTE_LE}
var c10RpkiNames = []oc.RpkiValidationResultType{"", oc.RPKI_VALIDATION_RESULT_TYPE_VALID, oc.RPKI_VALIDATION_RESULT_TYPE_NOT_FOUND, oc.RPKI_VALIDATION_RESULT_TYPE_INVALID}
var c10RouteTypeNames = []oc.RouteType{"", oc.ROUTE_TYPE_INTERNAL, oc.ROUTE_TYPE_EXTERNAL, oc.ROUTE_TYPE_LOCAL}
var c10OriginNames = []oc.BgpOriginAttrType{oc.BGP_ORIGIN_ATTR_TYPE_IGP, oc.BGP_ORIGIN_ATTR_TYPE_EGP, oc.BGP_ORIGIN_ATTR_TYPE_INCOMPLETE}
var c10FamNames = []oc.AfiSafiType{oc.AFI_SAFI_TYPE_IPV4_UNICAST, oc.AFI_SAFI_TYPE_IPV6_UNICAST, oc.AFI_SAFI_TYPE_L3VPN_IPV4_UNICAST}
var c10SetOps = []string{"add", "remove", "replace"}
var c10SubNames = map[int]string{2: "rt", 3: "soo"}

func c10CommStr(c uint32) string { return fmt.Sprintf("%d:%d", c>>16, c&0xffff) }

func c10ExtValueStr(e c10Ext) string {
	if e.kind == 1 {
		var b [4]byte
		b[0], b[1], b[2], b[3] = byte(e.as>>24), byte(e.as>>16), byte(e.as>>8), byte(e.as)
		return fmt.Sprintf("%s:%s:%d", c10SubNames[e.sub], netip.AddrFrom4(b), e.la)
	}
	return fmt.Sprintf("%s:%d:%d", c10SubNames[e.sub], e.as, e.la)
}

func c10SingleStr(m [2]uint32) string {
	switch m[0] {
	case 0:
		return fmt.Sprintf("_%d_", m[1])
	case 1:
		return fmt.Sprintf("^%d_", m[1])
	case 2:
		return fmt.Sprintf("_%d$", m[1])
	}
	return fmt.Sprintf("^%d$", m[1])
}

// the configuration as a user would write it (normal forms, so that read-back can be compared directly)
func (p *c10Prog) config() (*oc.RoutingPolicy, map[string]oc.ApplyPolicy) {
	rp := &oc.RoutingPolicy{}
	for _, s := range p.sets {
		switch s.kind {
		case 0:
			ps := oc.PrefixSet{PrefixSetName: s.name()}
			for _, e := range s.pfx {
				x := oc.Prefix{IpPrefix: e.p}
				if !e.noRng {
					x.MasklengthRange = fmt.Sprintf("%d..%d", e.lo, e.hi)
				}
				ps.PrefixList = append(ps.PrefixList, x)
			}
			rp.DefinedSets.PrefixSets = append(rp.DefinedSets.PrefixSets, ps)
		case 1:
			ns := oc.NeighborSet{NeighborSetName: s.name()}
			for _, n := range s.nets {
				ns.NeighborInfoList = append(ns.NeighborInfoList, n.String())
			}
			rp.DefinedSets.NeighborSets = append(rp.DefinedSets.NeighborSets, ns)
		case 2:
			as := oc.AsPathSet{AsPathSetName: s.name()}
			for _, m := range s.singles {
				as.AsPathList = append(as.AsPathList, c10SingleStr(m))
			}
			for _, r := range s.res {
				if r[0] == "0" {
					as.AsPathList = append(as.AsPathList, "^"+r[1]+"$")
				} else {
					as.AsPathList = append(as.AsPathList, r[1])
				}
			}
			rp.DefinedSets.BgpDefinedSets.AsPathSets = append(rp.DefinedSets.BgpDefinedSets.AsPathSets, as)
		case 3:
			cs := oc.CommunitySet{CommunitySetName: s.name()}
			for _, c := range s.comms {
				cs.CommunityList = append(cs.CommunityList, "^"+c10CommStr(c)+"$")
			}
			rp.DefinedSets.BgpDefinedSets.CommunitySets = append(rp.DefinedSets.BgpDefinedSets.CommunitySets, cs)
		case 4:
			es := oc.ExtCommunitySet{ExtCommunitySetName: s.name()}
			for _, e := range s.exts {
				es.ExtCommunityList = append(es.ExtCommunityList, fmt.Sprintf("%s:^%d:%d$", c10SubNames[e.sub], e.as, e.la))
			}
			rp.DefinedSets.BgpDefinedSets.ExtCommunitySets = append(rp.DefinedSets.BgpDefinedSets.ExtCommunitySets, es)
		case 5:
			ls := oc.LargeCommunitySet{LargeCommunitySetName: s.name()}
			for _, l := range s.larges {
				ls.LargeCommunityList = append(ls.LargeCommunityList, fmt.Sprintf("^%d:%d:%d$", l.a, l.b, l.c))
			}
			rp.DefinedSets.BgpDefinedSets.LargeCommunitySets = append(rp.DefinedSets.BgpDefinedSets.LargeCommunitySets, ls)
		}
	}
	for _, pol := range p.pols {
		pd := oc.PolicyDefinition{Name: fmt.Sprintf("pol%d", pol.id)}
		for _, st := range pol.stmts {
			pd.Statements = append(pd.Statements, c10StmtConfig(st))
		}
		rp.PolicyDefinitions = append(rp.PolicyDefinitions, pd)
	}
	ap := map[string]oc.ApplyPolicy{}
	for _, a := range p.assigns {
		x := ap[a.id]
		names := []string{}
		for _, pol := range a.pols {
			names = append(names, fmt.Sprintf("pol%d", pol.id))
		}
		d := oc.DEFAULT_POLICY_TYPE_ACCEPT_ROUTE
		if a.dflt == 2 {
			d = oc.DEFAULT_POLICY_TYPE_REJECT_ROUTE
		}
		if a.dir == POLICY_DIRECTION_IMPORT {
			x.Config.ImportPolicyList, x.Config.DefaultImportPolicy = names, d
		} else {
			x.Config.ExportPolicyList, x.Config.DefaultExportPolicy = names, d
		}
		ap[a.id] = x
	}
	return rp, ap
}

func c10StmtConfig(st *c10Stmt) oc.Statement {
	s := oc.Statement{Name: fmt.Sprintf("st%d", st.id)}
	for _, c := range st.conds {
		bc := &s.Conditions.BgpConditions
		switch c.tag {
		case 0:
			s.Conditions.MatchPrefixSet = oc.MatchPrefixSet{PrefixSet: c.set.name(), MatchSetOptions: c10MatchOptR(c.opt)}
		case 1:
			s.Conditions.MatchNeighborSet = oc.MatchNeighborSet{NeighborSet: c.set.name(), MatchSetOptions: c10MatchOptR(c.opt)}
		case 2:
			bc.CommunityCount = oc.CommunityCount{Operator: c10CmpNames[c.op], Value: c.val}
		case 3:
			bc.AsPathLength = oc.AsPathLength{Operator: c10CmpNames[c.op], Value: c.val}
		case 4:
			bc.RpkiValidationResult = c10RpkiNames[c.val]
		case 5:
			bc.RouteType = c10RouteTypeNames[c.val]
		case 6:
			bc.OriginEq = c10OriginNames[c.val]
		case 7:
			bc.MatchAsPathSet = oc.MatchAsPathSet{AsPathSet: c.set.name(), MatchSetOptions: c10MatchOpt(c.opt)}
		case 8:
			bc.MatchCommunitySet = oc.MatchCommunitySet{CommunitySet: c.set.name(), MatchSetOptions: c10MatchOpt(c.opt)}
		case 9:
			bc.MatchExtCommunitySet = oc.MatchExtCommunitySet{ExtCommunitySet: c.set.name(), MatchSetOptions: c10MatchOpt(c.opt)}
		case 10:
			bc.MatchLargeCommunitySet = oc.MatchLargeCommunitySet{LargeCommunitySet: c.set.name(), MatchSetOptions: c10MatchOpt(c.opt)}
		case 11:
			bc.NextHopInList = append([]netip.Addr{}, c.nets...)
		case 12:
			bc.AfiSafiInList = []oc.AfiSafiType{}
			for _, f := range c.fams {
				bc.AfiSafiInList = append(bc.AfiSafiInList, c10FamNames[f])
			}
		case 13:
			bc.LocalPrefEq = c.val
		case 14:
			bc.MedEq = c.val
		}
	}
	switch st.route {
	case 0:
		s.Actions.RouteDisposition = oc.ROUTE_DISPOSITION_NONE
	case 1:
		s.Actions.RouteDisposition = oc.ROUTE_DISPOSITION_ACCEPT_ROUTE
	case 2:
		s.Actions.RouteDisposition = oc.ROUTE_DISPOSITION_REJECT_ROUTE
	}
	for _, a := range st.acts {
		ba := &s.Actions.BgpActions
		switch a.tag {
		case 0:
			l := []string{}
			for _, c := range a.comms {
				if a.op == 1 {
					l = append(l, "^"+c10CommStr(c)+"$")
				} else {
					l = append(l, c10CommStr(c))
				}
			}
			ba.SetCommunity = oc.SetCommunity{Options: c10SetOps[a.op], SetCommunityMethod: oc.SetCommunityMethod{CommunitiesList: l}}
		case 1:
			l := []string{}
			for _, e := range a.exts {
				if a.op == 1 {
					l = append(l, fmt.Sprintf("%s:^%d:%d$", c10SubNames[e.sub], e.as, e.la))
				} else {
					l = append(l, c10ExtValueStr(e))
				}
			}
			ba.SetExtCommunity = oc.SetExtCommunity{Options: c10SetOps[a.op], SetExtCommunityMethod: oc.SetExtCommunityMethod{CommunitiesList: l}}
		case 2:
			l := []string{}
			for _, x := range a.larges {
				if a.op == 1 {
					l = append(l, fmt.Sprintf("^%d:%d:%d$", x.a, x.b, x.c))
				} else {
					l = append(l, fmt.Sprintf("%d:%d:%d", x.a, x.b, x.c))
				}
			}
			ba.SetLargeCommunity = oc.SetLargeCommunity{Options: oc.BgpSetCommunityOptionType(c10SetOps[a.op]), SetLargeCommunityMethod: oc.SetLargeCommunityMethod{CommunitiesList: l}}
		case 3:
			switch {
			case a.replace:
				ba.SetMed = oc.BgpSetMedType(fmt.Sprintf("%d", a.val))
			case a.neg:
				ba.SetMed = oc.BgpSetMedType(fmt.Sprintf("-%d", a.val))
			default:
				ba.SetMed = oc.BgpSetMedType(fmt.Sprintf("+%d", a.val))
			}
		case 4:
			ba.SetLocalPref = a.val
		case 5:
			if a.useLast {
				ba.SetAsPathPrepend = oc.SetAsPathPrepend{As: "last-as", RepeatN: a.rep}
			} else {
				ba.SetAsPathPrepend = oc.SetAsPathPrepend{As: fmt.Sprint(a.val), RepeatN: a.rep}
			}
		case 6:
			switch a.kind {
			case 0:
				ba.SetNextHop = oc.BgpNextHopType(a.addr.String())
			case 1:
				ba.SetNextHop = "self"
			case 2:
				ba.SetNextHop = "peer-address"
			case 3:
				ba.SetNextHop = "unchanged"
			}
		case 7:
			ba.SetRouteOrigin = c10OriginNames[a.val]
		}
	}
	return s
}

func c10MkExt(e c10Ext) bgp.ExtendedCommunityInterface {
	if e.kind == 1 {
		var b [4]byte
		b[0], b[1], b[2], b[3] = byte(e.as>>24), byte(e.as>>16), byte(e.as>>8), byte(e.as)
		x, _ := bgp.NewIPv4AddressSpecificExtended(bgp.ExtendedCommunityAttrSubType(e.sub), netip.AddrFrom4(b), uint16(e.la), e.trans)
		return x
	}
	return bgp.NewTwoOctetAsSpecificExtended(bgp.ExtendedCommunityAttrSubType(e.sub), uint16(e.as), e.la, e.trans)
}

// the stored path; every attribute slice gets `spare` unused cells of capacity
func (r *c10Route) path() *Path {
	attrs := []bgp.PathAttributeInterface{}
	if r.origin != nil {
		attrs = append(attrs, bgp.NewPathAttributeOrigin(*r.origin))
	}
	if r.hasPath {
		params := make([]bgp.AsPathParamInterface, 0, len(r.segs)+r.spare)
		for _, s := range r.segs {
			as := make([]uint32, len(s.as), len(s.as)+r.spare)
			copy(as, s.as)
			params = append(params, bgp.NewAs4PathParam(s.typ, as))
		}
		attrs = append(attrs, bgp.NewPathAttributeAsPath(params))
	}
	nlri, _ := bgp.NewIPAddrPrefix(r.nlri)
	if !r.v6 && r.nh.IsValid() {
		nh, _ := bgp.NewPathAttributeNextHop(r.nh)
		attrs = append(attrs, nh)
	}
	if r.med != nil {
		attrs = append(attrs, bgp.NewPathAttributeMultiExitDisc(*r.med))
	}
	if r.lp != nil {
		attrs = append(attrs, bgp.NewPathAttributeLocalPref(*r.lp))
	}
	if r.hasComm {
		v := make([]uint32, len(r.comms), len(r.comms)+r.spare)
		copy(v, r.comms)
		attrs = append(attrs, bgp.NewPathAttributeCommunities(v))
	}
	if r.v6 && r.nh.IsValid() {
		mp, _ := bgp.NewPathAttributeMpReachNLRI(bgp.RF_IPv6_UC, []bgp.PathNLRI{{NLRI: nlri}}, r.nh)
		attrs = append(attrs, mp)
	}
	if len(r.exts) > 0 {
		v := make([]bgp.ExtendedCommunityInterface, 0, len(r.exts)+r.spare)
		for _, e := range r.exts {
			v = append(v, c10MkExt(e))
		}
		attrs = append(attrs, bgp.NewPathAttributeExtendedCommunities(v))
	}
	if len(r.larges) > 0 {
		v := make([]*bgp.LargeCommunity, 0, len(r.larges)+r.spare)
		for _, l := range r.larges {
			v = append(v, bgp.NewLargeCommunity(l.a, l.b, l.c))
		}
		attrs = append(attrs, bgp.NewPathAttributeLargeCommunities(v))
	}
	fam := bgp.RF_IPv4_UC
	if r.v6 {
		fam = bgp.RF_IPv6_UC
	}
	return NewPath(fam, r.src, bgp.PathNLRI{NLRI: nlri}, r.withdraw, attrs, time.Unix(1700000000, 0), false)
}

func (x *c10Opts) options() *PolicyOptions {
	if x.isNil {
		return nil
	}
	o := &PolicyOptions{Info: x.info, OldNextHop: x.oldNh}
	if x.rpki != 0 {
		st := c10RpkiNames[x.rpki]
		o.Validate = func(*Path) *Validation { return &Validation{Status: st} }
	}
	return o
}

// ---------- canonical observation of a path ----------

func c10ShowPath(p *Path) string {
	var b strings.Builder
	if o, err := p.GetOrigin(); err == nil {
		fmt.Fprintf(&b, "o %d", o)
	} else {
		b.WriteString("o -")
	}
	if ap := p.GetAsPath(); ap != nil {
		fmt.Fprintf(&b, " p %d", len(ap.Value))
		for _, s := range ap.Value {
			fmt.Fprintf(&b, " %d %d", s.GetType(), len(s.GetAS()))
			for _, a := range s.GetAS() {
				fmt.Fprintf(&b, " %d", a)
			}
		}
	} else {
		b.WriteString(" p 0")
	}
	if nh := p.GetNexthop(); nh.IsValid() {
		if nh.Is6() {
			fmt.Fprintf(&b, " nh 6:%s", c10AddrNum(nh))
		} else {
			fmt.Fprintf(&b, " nh 4:%s", c10AddrNum(nh))
		}
	} else {
		b.WriteString(" nh -")
	}
	if m, err := p.GetMed(); err == nil {
		fmt.Fprintf(&b, " med %d", m)
	} else {
		b.WriteString(" med -")
	}
	if a := p.getPathAttr(bgp.BGP_ATTR_TYPE_LOCAL_PREF); a != nil {
		fmt.Fprintf(&b, " lp %d", a.(*bgp.PathAttributeLocalPref).Value)
	} else {
		b.WriteString(" lp -")
	}
	cs := p.GetCommunities()
	fmt.Fprintf(&b, " c %d", len(cs))
	for _, c := range cs {
		fmt.Fprintf(&b, " %d", c)
	}
	es := p.GetExtCommunities()
	fmt.Fprintf(&b, " e %d", len(es))
	for _, e := range es {
		switch v := e.(type) {
		case *bgp.TwoOctetAsSpecificExtended:
			fmt.Fprintf(&b, " %s 0 %d %d %d", c10B(v.IsTransitive), v.SubType, v.AS, v.LocalAdmin)
		case *bgp.IPv4AddressSpecificExtended:
			a := v.IPv4.As4()
			fmt.Fprintf(&b, " %s 1 %d %d %d", c10B(v.IsTransitive), v.SubType, uint32(a[0])<<24|uint32(a[1])<<16|uint32(a[2])<<8|uint32(a[3]), v.LocalAdmin)
		default:
			fmt.Fprintf(&b, " x%T", e)
		}
	}
	ls := p.GetLargeCommunities()
	fmt.Fprintf(&b, " l %d", len(ls))
	for _, l := range ls {
		fmt.Fprintf(&b, " %d %d %d", l.ASN, l.LocalData1, l.LocalData2)
	}
	return b.String()
}

// the same rendering computed from the EFFECTIVE attribute list GetPathAttrs() — what is serialised and
// advertised — instead of the per-attribute accessors
func c10ShowAttrs(p *Path) string {
	by := map[bgp.BGPAttrType]bgp.PathAttributeInterface{}
	for _, a := range p.GetPathAttrs() {
		by[a.GetType()] = a
	}
	var b strings.Builder
	if a, ok := by[bgp.BGP_ATTR_TYPE_ORIGIN]; ok {
		fmt.Fprintf(&b, "o %d", a.(*bgp.PathAttributeOrigin).Value)
	} else {
		b.WriteString("o -")
	}
	if a, ok := by[bgp.BGP_ATTR_TYPE_AS_PATH]; ok {
		ap := a.(*bgp.PathAttributeAsPath)
		fmt.Fprintf(&b, " p %d", len(ap.Value))
		for _, s := range ap.Value {
			fmt.Fprintf(&b, " %d %d", s.GetType(), len(s.GetAS()))
			for _, x := range s.GetAS() {
				fmt.Fprintf(&b, " %d", x)
			}
		}
	} else {
		b.WriteString(" p 0")
	}
	nh := netip.Addr{}
	if a, ok := by[bgp.BGP_ATTR_TYPE_NEXT_HOP]; ok {
		nh = a.(*bgp.PathAttributeNextHop).Value
	} else if a, ok := by[bgp.BGP_ATTR_TYPE_MP_REACH_NLRI]; ok {
		nh = a.(*bgp.PathAttributeMpReachNLRI).Nexthop
	}
	switch {
	case !nh.IsValid():
		b.WriteString(" nh -")
	case nh.Is6():
		fmt.Fprintf(&b, " nh 6:%s", c10AddrNum(nh))
	default:
		fmt.Fprintf(&b, " nh 4:%s", c10AddrNum(nh))
	}
	if a, ok := by[bgp.BGP_ATTR_TYPE_MULTI_EXIT_DISC]; ok {
		fmt.Fprintf(&b, " med %d", a.(*bgp.PathAttributeMultiExitDisc).Value)
	} else {
		b.WriteString(" med -")
	}
	if a, ok := by[bgp.BGP_ATTR_TYPE_LOCAL_PREF]; ok {
		fmt.Fprintf(&b, " lp %d", a.(*bgp.PathAttributeLocalPref).Value)
	} else {
		b.WriteString(" lp -")
	}
	var cs []uint32
	if a, ok := by[bgp.BGP_ATTR_TYPE_COMMUNITIES]; ok {
		cs = a.(*bgp.PathAttributeCommunities).Value
	}
	fmt.Fprintf(&b, " c %d", len(cs))
	for _, c := range cs {
		fmt.Fprintf(&b, " %d", c)
	}
	var es []bgp.ExtendedCommunityInterface
	if a, ok := by[bgp.BGP_ATTR_TYPE_EXTENDED_COMMUNITIES]; ok {
		es = a.(*bgp.PathAttributeExtendedCommunities).Value
	}
	fmt.Fprintf(&b, " e %d", len(es))
	for _, e := range es {
		switch v := e.(type) {
		case *bgp.TwoOctetAsSpecificExtended:
			fmt.Fprintf(&b, " %s 0 %d %d %d", c10B(v.IsTransitive), v.SubType, v.AS, v.LocalAdmin)
		case *bgp.IPv4AddressSpecificExtended:
			a := v.IPv4.As4()
			fmt.Fprintf(&b, " %s 1 %d %d %d", c10B(v.IsTransitive), v.SubType, uint32(a[0])<<24|uint32(a[1])<<16|uint32(a[2])<<8|uint32(a[3]), v.LocalAdmin)
		default:
			fmt.Fprintf(&b, " x%T", e)
		}
	}
	var ls []*bgp.LargeCommunity
	if a, ok := by[bgp.BGP_ATTR_TYPE_LARGE_COMMUNITY]; ok {
		ls = a.(*bgp.PathAttributeLargeCommunities).Values
	}
	fmt.Fprintf(&b, " l %d", len(ls))
	for _, l := range ls {
		fmt.Fprintf(&b, " %d %d %d", l.ASN, l.LocalData1, l.LocalData2)
	}
	return b.String()
}

// the result of a policy is the effective attribute list: it must agree with the accessors
func c10CheckEffective(o *vOut, res *Path, how string, rt *c10Route) {
	if res == nil {
		return
	}
	acc, eff := c10ShowPath(res), c10ShowAttrs(res)
	o.stat("effective_attr_checks", 1)
	if acc != eff {
		o.fail("effective-attrs-differ-from-accessors:"+c10AttrClass(acc+" |", eff+" |"), map[string]any{"after": how, "route": c10RouteLine(rt),
			"accessors": acc, "GetPathAttrs": eff})
	}
}

// everything a peer would be sent for this path: canonical fields plus the wire form of every attribute
func c10Snapshot(p *Path) string {
	var b strings.Builder
	b.WriteString(c10ShowPath(p))
	fmt.Fprintf(&b, " | w%s", c10B(p.IsWithdraw))
	for _, a := range p.GetPathAttrs() {
		buf, err := a.Serialize()
		if err != nil {
			fmt.Fprintf(&b, " %d:err", a.GetType())
			continue
		}
		fmt.Fprintf(&b, " %d:%x", a.GetType(), buf)
	}
	return b.String()
}

func c10Apply(r *RoutingPolicy, id string, dir PolicyDirection, p *Path, o *PolicyOptions) (res *Path, s string) {
	defer func() {
		if e := recover(); e != nil {
			res, s = nil, "panic"
		}
	}()
	res = r.ApplyPolicy(id, dir, p, o)
	if res == nil {
		return nil, "reject"
	}
	return res, "accept " + c10ShowPath(res)
}

// ---------- generator ----------

type c10Gen struct {
	r       *vRand
	o       *vOut
	nextSet int
	nextSt  int
	nextPol int
}

var c10ASNs = []uint32{65001, 65002, 65003, 65000, 100, 4200000001}
var c10Comms = []uint32{65000<<16 | 1, 65000<<16 | 2, 65001<<16 | 1, 100<<16 | 100, 0, 0xffffffff, 65535<<16 | 65281}
var c10Exts = []c10Ext{
	{true, 0, 2, 65000, 1}, {true, 0, 2, 65000, 100}, {true, 0, 3, 65000, 1}, {true, 0, 2, 65001, 70000},
	{true, 0, 3, 65001, 100}, {true, 1, 2, 0x0a000001, 100}, {false, 0, 2, 65000, 1}, {false, 0, 3, 65001, 100},
}
var c10Larges = []c10Large{{65000, 1, 1}, {65000, 1, 2}, {4200000000, 0, 0}, {65001, 100, 200}, {9, 9, 9}}
var c10V4Sets = []string{"10.0.0.0/8", "10.1.0.0/16", "10.1.1.0/24", "192.168.0.0/16", "0.0.0.0/0", "10.1.1.77/24", "10.1.1.128/25", "172.16.0.0/12"}
var c10V6Sets = []string{"2001:db8::/32", "2001:db8:1::/48", "::/0", "2001:db8:1:1::/64", "fc00::/7"}
var c10V4Nlri = []string{"10.1.1.0/24", "10.1.0.0/16", "10.1.1.128/25", "10.0.0.0/8", "10.2.0.0/15", "192.168.1.0/24", "0.0.0.0/0", "10.1.1.1/32", "10.1.1.0/25", "172.16.5.0/24", "11.0.0.0/8", "10.1.2.0/23"}
var c10V6Nlri = []string{"2001:db8::/32", "2001:db8:1::/48", "2001:db8:1:1::/64", "::/0", "2001:db8:1::1/128", "2001:db9::/32", "fc00::/8", "2001:db8:1:1::/65"}
var c10Addrs4 = []string{"10.0.0.1", "10.0.0.2", "10.0.1.1", "10.0.0.254", "192.168.0.1", "0.0.0.0"}
var c10Addrs6 = []string{"2001:db8::1", "2001:db8::fe", "fe80::1", "::"}
var c10Nets = []string{"10.0.0.1/32", "10.0.0.0/24", "10.0.0.0/30", "10.0.1.0/24", "0.0.0.0/0", "2001:db8::/64", "2001:db8::1/128", "10.0.0.2/32", "::/0"}

func (g *c10Gen) pickAddr(v6 bool) netip.Addr {
	if v6 {
		return netip.MustParseAddr(c10Addrs6[g.r.intn(len(c10Addrs6))])
	}
	return netip.MustParseAddr(c10Addrs4[g.r.intn(len(c10Addrs4))])
}

func (g *c10Gen) anyAddr() netip.Addr { return g.pickAddr(g.r.chance(30)) }

func (g *c10Gen) subsetU32(pool []uint32, max int) []uint32 {
	n := g.r.intn(max + 1)
	out := []uint32{}
	for i := 0; i < n; i++ {
		out = append(out, pool[g.r.intn(len(pool))])
	}
	return out
}

func (g *c10Gen) newSet(kind int) *c10Set {
	s := &c10Set{kind: kind, id: g.nextSet}
	g.nextSet++
	r := g.r
	switch kind {
	case 0:
		v6 := r.chance(30)
		n := r.pick(0, 1, 1, 2, 3, 4)
		if n == 0 {
			g.o.stat("set_prefix_empty", 1)
		}
		for i := 0; i < n; i++ {
			var p netip.Prefix
			if v6 {
				p = netip.MustParsePrefix(c10V6Sets[r.intn(len(c10V6Sets))])
			} else {
				p = netip.MustParsePrefix(c10V4Sets[r.intn(len(c10V4Sets))])
			}
			bits := p.Addr().BitLen()
			e := c10Pfx{p: p}
			switch r.intn(7) {
			case 0:
				e.noRng, e.lo, e.hi = true, p.Bits(), p.Bits()
			case 1:
				e.lo, e.hi = p.Bits(), p.Bits()
			case 2:
				e.lo, e.hi = p.Bits(), bits
			case 3:
				e.lo, e.hi = 0, bits
			case 4:
				e.lo, e.hi = p.Bits()+1, min(bits, p.Bits()+8)
			case 5:
				e.lo, e.hi = r.intn(bits+1), r.intn(bits+1)
			case 6:
				e.lo, e.hi = max(0, p.Bits()-4), p.Bits()+1
			}
			s.pfx = append(s.pfx, e)
		}
	case 1:
		n := r.pick(0, 1, 1, 2, 3)
		for i := 0; i < n; i++ {
			s.nets = append(s.nets, netip.MustParsePrefix(c10Nets[r.intn(len(c10Nets))]).Masked())
		}
	case 2:
		n := r.pick(0, 1, 1, 2, 3)
		for i := 0; i < n; i++ {
			if r.chance(65) {
				s.singles = append(s.singles, [2]uint32{uint32(r.intn(4)), c10ASNs[r.intn(len(c10ASNs))]})
			} else {
				a, b := c10ASNs[r.intn(len(c10ASNs))], c10ASNs[r.intn(len(c10ASNs))]
				switch r.intn(4) {
				case 0:
					s.res = append(s.res, [2]string{"0", fmt.Sprintf("%d %d", a, b)})
				case 1:
					s.res = append(s.res, [2]string{"1", fmt.Sprintf("%d %d", a, b)})
				case 2:
					s.res = append(s.res, [2]string{"1", fmt.Sprint(a)})
				case 3:
					s.res = append(s.res, [2]string{"0", ""})
				}
			}
		}
	case 3:
		s.comms = g.subsetU32(c10Comms, 3)
	case 4:
		n := r.pick(0, 1, 1, 2, 3)
		for i := 0; i < n; i++ {
			e := c10Exts[r.intn(5)] // patterns are always written for two-octet AS values
			s.exts = append(s.exts, e)
		}
	case 5:
		n := r.pick(0, 1, 1, 2, 3)
		for i := 0; i < n; i++ {
			s.larges = append(s.larges, c10Larges[r.intn(len(c10Larges))])
		}
	}
	return s
}

func (g *c10Gen) pickSet(p *c10Prog, kind int) *c10Set {
	var cands []*c10Set
	for _, s := range p.sets {
		if s.kind == kind {
			cands = append(cands, s)
		}
	}
	if len(cands) > 0 && g.r.chance(60) {
		return cands[g.r.intn(len(cands))]
	}
	s := g.newSet(kind)
	p.sets = append(p.sets, s)
	return s
}

func (g *c10Gen) newCond(p *c10Prog, tag int) c10Cond {
	r := g.r
	c := c10Cond{tag: tag}
	anyAllInv := func() int { return r.pick(0, 0, 1, 2) }
	switch tag {
	case 0:
		c.set, c.opt = g.pickSet(p, 0), r.pick(0, 0, 2)
	case 1:
		c.set, c.opt = g.pickSet(p, 1), r.pick(0, 0, 2)
	case 2:
		c.op, c.val = r.intn(3), uint32(r.pick(0, 1, 2, 3))
		if c.op == 0 && c.val == 0 && r.chance(50) {
			c.val = 1
		}
	case 3:
		c.op, c.val = r.intn(3), uint32(r.pick(0, 1, 2, 3, 255))
	case 4:
		c.val = uint32(1 + r.intn(3))
	case 5:
		c.val = uint32(1 + r.intn(3))
	case 6:
		c.val = uint32(r.intn(3))
	case 7:
		c.set, c.opt = g.pickSet(p, 2), anyAllInv()
	case 8:
		c.set, c.opt = g.pickSet(p, 3), anyAllInv()
	case 9:
		c.set, c.opt = g.pickSet(p, 4), anyAllInv()
	case 10:
		c.set, c.opt = g.pickSet(p, 5), anyAllInv()
	case 11:
		n := 1 + r.intn(3)
		for i := 0; i < n; i++ {
			c.nets = append(c.nets, g.anyAddr())
		}
	case 12:
		n := r.pick(0, 1, 1, 1, 2, 2, 3) // an empty (non-nil) list is a condition that never holds
		c.fams = []int{}
		for i := 0; i < n; i++ {
			c.fams = append(c.fams, r.intn(3))
		}
	case 13:
		c.val = uint32(r.pick(100, 100, 200, 1))
	case 14:
		c.val = uint32(r.pick(10, 100, 4294967295))
	}
	return c
}

func (g *c10Gen) newAct(tag int) c10Act {
	r := g.r
	a := c10Act{tag: tag}
	switch tag {
	case 0:
		a.op = r.intn(3)
		a.comms = g.subsetU32(c10Comms, 3)
	case 1:
		a.op = r.intn(3)
		n := r.intn(4)
		for i := 0; i < n; i++ {
			if a.op == 1 {
				a.exts = append(a.exts, c10Exts[r.intn(5)])
			} else {
				a.exts = append(a.exts, c10Exts[r.intn(6)]) // values an action can be configured with are transitive
			}
		}
	case 2:
		a.op = r.intn(3)
		n := r.intn(4)
		for i := 0; i < n; i++ {
			a.larges = append(a.larges, c10Larges[r.intn(len(c10Larges))])
		}
	case 3:
		a.replace = r.chance(40)
		a.neg = !a.replace && r.chance(50)
		a.val = uint32(r.pick(0, 1, 10, 100, 4294967295, 4294967286))
		if a.neg && a.val == 0 {
			a.neg = false // "-0" is the same action as "+0" and reads back as "+0"
		}
	case 4:
		a.val = uint32(r.pick(1, 100, 200, 4294967295))
	case 5:
		a.useLast = r.chance(35)
		a.val = c10ASNs[r.intn(len(c10ASNs))]
		a.rep = uint8(r.pick(0, 1, 1, 2, 3, 10, 250, 254, 255))
	case 6:
		a.kind = r.pick(0, 0, 1, 2, 3)
		a.addr = g.anyAddr()
	case 7:
		a.val = uint32(r.intn(3))
	}
	return a
}

func (g *c10Gen) newStmt(p *c10Prog) *c10Stmt {
	r := g.r
	st := &c10Stmt{id: g.nextSt}
	g.nextSt++
	nc := r.pick(0, 1, 1, 1, 2, 2, 3, 4)
	use := map[int]bool{}
	for i := 0; i < nc; i++ {
		use[r.intn(15)] = true
	}
	// NewStatement's construction order: prefix, neighbor, community-count, as-path-length, rpki,
	// route-type, origin, as-path, community, ext-community, large-community, next-hop, afi-safi,
	// local-pref-eq, med-eq  (= tags 0..14 in this order)
	for tag := 0; tag < 15; tag++ {
		if use[tag] {
			st.conds = append(st.conds, g.newCond(p, tag))
			g.o.stat(fmt.Sprintf("cond_type_%02d", tag), 1)
		}
	}
	st.route = r.pick(0, 0, 0, 1, 1, 2, 2)
	na := r.pick(0, 0, 1, 1, 2, 3)
	usea := map[int]bool{}
	for i := 0; i < na; i++ {
		usea[r.intn(8)] = true
	}
	// action order of NewStatement: community, ext-community, large-community, med, local-pref,
	// as-path-prepend, next-hop, origin (= tags 0..7)
	for tag := 0; tag < 8; tag++ {
		if usea[tag] {
			st.acts = append(st.acts, g.newAct(tag))
			g.o.stat(fmt.Sprintf("act_type_%d", tag), 1)
		}
	}
	return st
}

var c10PeerIDs = []string{"10.0.0.1", "10.0.0.2", GLOBAL_RIB_NAME}

func (g *c10Gen) newProg() *c10Prog {
	r := g.r
	p := &c10Prog{}
	np := 1 + r.intn(4)
	for i := 0; i < np; i++ {
		pol := &c10Pol{id: g.nextPol}
		g.nextPol++
		ns := 1 + r.intn(5)
		if r.chance(5) {
			ns = 0
		}
		for j := 0; j < ns; j++ {
			pol.stmts = append(pol.stmts, g.newStmt(p))
		}
		p.pols = append(p.pols, pol)
	}
	if r.chance(35) {
		// an attribute cleared by one statement and set again by a later one (and the reverse), in one
		// policy or across two policies: deletions and settings at different depths of the clone chain
		tag := r.intn(4) // 0 community 1 ext 2 large 3 med (set, then set again)
		mk := func(op int, full bool) *c10Stmt {
			st := &c10Stmt{id: g.nextSt, route: 0}
			g.nextSt++
			a := c10Act{tag: tag, op: op}
			switch tag {
			case 0:
				if full {
					a.comms = append([]uint32{}, c10Comms...)
					if op == 0 {
						a.comms = g.subsetU32(c10Comms, 2)
						a.comms = append(a.comms, c10Comms[r.intn(len(c10Comms))])
					}
				}
			case 1:
				if full {
					a.exts = append([]c10Ext{}, c10Exts[:5]...)
					if op == 0 {
						a.exts = []c10Ext{c10Exts[r.intn(5)]}
					}
				}
			case 2:
				if full {
					a.larges = append([]c10Large{}, c10Larges...)
					if op == 0 {
						a.larges = []c10Large{c10Larges[r.intn(len(c10Larges))]}
					}
				}
			case 3:
				a = c10Act{tag: 3, replace: true, val: uint32(r.pick(7, 70))}
			}
			st.acts = []c10Act{a}
			g.o.stat("act_type_"+fmt.Sprint(tag), 1)
			return st
		}
		clear := mk(2, false) // replace with the empty list
		if r.chance(40) && tag < 3 {
			clear = mk(1, true) // remove every value of the pool
		}
		set := mk(0, true)
		chain := []*c10Stmt{clear, set}
		if r.chance(35) {
			chain = []*c10Stmt{set, clear}
		}
		if r.chance(40) {
			chain = append(chain, mk(0, true))
		}
		if r.chance(30) {
			chain[len(chain)-1].route = 1
		}
		if len(p.pols) > 1 && r.chance(40) {
			// across two policies
			p.pols[0].stmts = append([]*c10Stmt{chain[0]}, p.pols[0].stmts...)
			p.pols[1].stmts = append(append([]*c10Stmt{}, chain[1:]...), p.pols[1].stmts...)
		} else {
			p.pols[0].stmts = append(append([]*c10Stmt{}, chain...), p.pols[0].stmts...)
		}
		g.o.stat("clear_set_chains", 1)
	}
	slot := 0
	for _, id := range c10PeerIDs {
		for _, dir := range []PolicyDirection{POLICY_DIRECTION_IMPORT, POLICY_DIRECTION_EXPORT} {
			a := &c10Assign{id: id, dir: dir, slot: slot, dflt: r.pick(1, 1, 2)}
			slot++
			perm := r.perm(len(p.pols))
			k := r.intn(len(p.pols) + 1)
			for _, i := range perm[:k] {
				a.pols = append(a.pols, p.pols[i])
			}
			p.assigns = append(p.assigns, a)
		}
	}
	return p
}

var c10Global = &oc.Global{Config: oc.GlobalConfig{As: 65000, RouterId: netip.MustParseAddr("10.255.0.1")}}

var c10ExportPeers = []*PeerInfo{
	{PeerType: oc.PEER_TYPE_EXTERNAL, AS: 65009, LocalAS: 65000, Address: netip.MustParseAddr("10.0.9.1"), LocalAddress: netip.MustParseAddr("10.0.9.254"), ID: netip.MustParseAddr("9.9.9.9")},
	{PeerType: oc.PEER_TYPE_INTERNAL, AS: 65000, LocalAS: 65000, Address: netip.MustParseAddr("10.0.9.2"), LocalAddress: netip.MustParseAddr("10.0.9.254"), ID: netip.MustParseAddr("9.9.9.8")},
	{PeerType: oc.PEER_TYPE_EXTERNAL, AS: 65009, LocalAS: 65000, Address: netip.MustParseAddr("2001:db8:9::1"), LocalAddress: netip.MustParseAddr("2001:db8:9::fe"), ID: netip.MustParseAddr("9.9.9.7")},
}

// documented route type of a route by the kind of its source (docs/sources/policy.md "route type
// (internal/external/local)": internal = learned from an iBGP peer, external = learned from an eBGP peer —
// a confederation eBGP session to another member AS included —, local = originated here)
var c10SourceKinds = []struct {
	kind string
	typ  uint32 // 1 internal 2 external 3 local
}{
	{"ebgp", 2}, {"ibgp", 1}, {"ebgp-v6", 2}, {"local-with-as", 3}, {"ebgp", 2}, {"local", 3},
	{"confed-other-member-as", 2}, {"confed-same-member-as", 1}, {"rr-client", 1}, {"rs-client", 2}, {"confed-other-member-as-v6", 2},
}

var c10Sources = []*PeerInfo{
	{AS: 65001, LocalAS: 65000, Address: netip.MustParseAddr("10.0.0.1"), ID: netip.MustParseAddr("1.1.1.1")},
	{AS: 65000, LocalAS: 65000, Address: netip.MustParseAddr("10.0.0.2"), ID: netip.MustParseAddr("2.2.2.2")},
	{AS: 65002, LocalAS: 65000, Address: netip.MustParseAddr("2001:db8::1"), ID: netip.MustParseAddr("3.3.3.3")},
	{AS: 65000, LocalAS: 65000},
	{AS: 65003, LocalAS: 65000, Address: netip.MustParseAddr("10.0.1.1"), ID: netip.MustParseAddr("4.4.4.4")},
	{},
	{PeerType: oc.PEER_TYPE_EXTERNAL, AS: 65101, LocalAS: 65000, Confederation: true, Address: netip.MustParseAddr("10.0.2.1"), ID: netip.MustParseAddr("5.5.5.5")},
	{PeerType: oc.PEER_TYPE_INTERNAL, AS: 65000, LocalAS: 65000, Confederation: true, Address: netip.MustParseAddr("10.0.2.2"), ID: netip.MustParseAddr("6.6.6.6")},
	{PeerType: oc.PEER_TYPE_INTERNAL, AS: 65000, LocalAS: 65000, RouteReflectorClient: true, Address: netip.MustParseAddr("10.0.2.3"), ID: netip.MustParseAddr("7.7.7.7")},
	{PeerType: oc.PEER_TYPE_EXTERNAL, AS: 65004, LocalAS: 65000, RouteServerClient: true, Address: netip.MustParseAddr("10.0.2.4"), ID: netip.MustParseAddr("8.8.8.8")},
	{PeerType: oc.PEER_TYPE_EXTERNAL, AS: 65102, LocalAS: 65000, Confederation: true, Address: netip.MustParseAddr("2001:db8:2::1"), ID: netip.MustParseAddr("5.5.5.6")},
}

func (g *c10Gen) newRoute(id int) *c10Route {
	r := g.r
	rt := &c10Route{id: id, v6: r.chance(30), spare: r.pick(0, 1, 4, 4, 8)}
	if rt.v6 {
		rt.nlri = netip.MustParsePrefix(c10V6Nlri[r.intn(len(c10V6Nlri))]).Masked()
	} else {
		rt.nlri = netip.MustParsePrefix(c10V4Nlri[r.intn(len(c10V4Nlri))]).Masked()
	}
	rt.src = c10Sources[r.intn(len(c10Sources))]
	if r.chance(92) {
		o := uint8(r.intn(3))
		rt.origin = &o
	}
	if r.chance(92) {
		rt.hasPath = true
		ns := r.pick(0, 1, 1, 1, 2, 3)
		for i := 0; i < ns; i++ {
			s := c10Seg{typ: uint8(r.pick(2, 2, 2, 2, 1, 3, 4))}
			n := r.pick(0, 1, 1, 2, 3, 4)
			if r.chance(4) {
				n = r.pick(250, 253, 254, 255)
			}
			for j := 0; j < n; j++ {
				s.as = append(s.as, c10ASNs[r.intn(len(c10ASNs))])
			}
			rt.segs = append(rt.segs, s)
		}
	}
	if r.chance(93) {
		rt.nh = g.pickAddr(rt.v6)
	}
	if r.chance(50) {
		m := uint32(r.pick(0, 10, 100, 4294967295, 5))
		rt.med = &m
	}
	if r.chance(50) {
		l := uint32(r.pick(100, 200, 1, 0))
		rt.lp = &l
	}
	if r.chance(70) {
		rt.hasComm = true
		rt.comms = g.subsetU32(c10Comms, 4)
	}
	ne := r.pick(0, 0, 1, 2, 3)
	for i := 0; i < ne; i++ {
		rt.exts = append(rt.exts, c10Exts[r.intn(len(c10Exts))])
	}
	nl := r.pick(0, 0, 1, 2, 3)
	for i := 0; i < nl; i++ {
		rt.larges = append(rt.larges, c10Larges[r.intn(len(c10Larges))])
	}
	rt.withdraw = r.chance(4)
	return rt
}

func (g *c10Gen) newOpts(id int) *c10Opts {
	r := g.r
	x := &c10Opts{id: id}
	switch r.intn(6) {
	case 0:
		x.isNil = true
		return x
	case 1:
		// non-nil options without Info
	default:
		x.info = &PeerInfo{AS: 65009, LocalAS: 65000, Confederation: r.chance(25)}
		if r.chance(75) {
			x.info.Address = g.pickAddr(r.chance(25))
		}
		if r.chance(75) {
			x.info.LocalAddress = g.pickAddr(r.chance(25))
		}
	}
	if r.chance(40) {
		x.oldNh = g.anyAddr()
	}
	x.rpki = r.pick(0, 1, 2, 3)
	return x
}

// ---------- oracles ----------

// configuration read-back: what GetPolicy / GetDefinedSet / GetPolicyAssignment report must be the
// configuration that was loaded (the generator writes normal forms; the two documented
// normalisations — implicit mask-length range, single-AS members listed first — are applied here)
func c10CheckReadback(o *vOut, rp *RoutingPolicy, cfg *oc.RoutingPolicy, p *c10Prog) {
	want := map[string]oc.PolicyDefinition{}
	for _, pd := range cfg.PolicyDefinitions {
		want[pd.Name] = pd
	}
	got := rp.GetPolicy("")
	if len(got) != len(want) {
		o.fail("config-roundtrip:policy-count", fmt.Sprintf("configured %d read back %d", len(want), len(got)))
	}
	for _, g := range got {
		w, ok := want[g.Name]
		if !ok {
			o.fail("config-roundtrip:policy-name", g.Name)
			continue
		}
		if len(w.Statements) != len(g.Statements) {
			o.fail("config-roundtrip:statement-count", g.Name)
			continue
		}
		for i := range w.Statements {
			ws, gs := w.Statements[i], g.Statements[i]
			// an empty list and a nil list are the same configuration
			if len(ws.Conditions.BgpConditions.NextHopInList) == 0 && len(gs.Conditions.BgpConditions.NextHopInList) == 0 {
				ws.Conditions.BgpConditions.NextHopInList, gs.Conditions.BgpConditions.NextHopInList = nil, nil
			}
			if !ws.Equal(&gs) {
				o.fail("config-roundtrip:statement", map[string]any{"configured": ws, "readback": gs})
			}
		}
	}
	for _, s := range p.sets {
		typ := []DefinedType{DEFINED_TYPE_PREFIX, DEFINED_TYPE_NEIGHBOR, DEFINED_TYPE_AS_PATH, DEFINED_TYPE_COMMUNITY, DEFINED_TYPE_EXT_COMMUNITY, DEFINED_TYPE_LARGE_COMMUNITY}[s.kind]
		ds, err := rp.GetDefinedSet(typ, s.name())
		if err != nil {
			o.fail("config-roundtrip:defined-set-missing", s.name())
			continue
		}
		var gotL, wantL []string
		switch s.kind {
		case 0:
			if len(ds.PrefixSets) == 1 {
				for _, e := range ds.PrefixSets[0].PrefixList {
					gotL = append(gotL, e.IpPrefix.String()+" "+e.MasklengthRange)
				}
			}
			for _, e := range s.pfx {
				wantL = append(wantL, fmt.Sprintf("%s %d..%d", e.p.String(), e.lo, e.hi))
			}
			sort.Strings(gotL)
			sort.Strings(wantL)
		case 1:
			if len(ds.NeighborSets) == 1 {
				gotL = ds.NeighborSets[0].NeighborInfoList
			}
			for _, n := range s.nets {
				wantL = append(wantL, n.String())
			}
		case 2:
			if len(ds.BgpDefinedSets.AsPathSets) == 1 {
				gotL = ds.BgpDefinedSets.AsPathSets[0].AsPathList
			}
			for _, m := range s.singles {
				wantL = append(wantL, c10SingleStr(m))
			}
			for _, r := range s.res {
				if r[0] == "0" {
					wantL = append(wantL, "^"+r[1]+"$")
				} else {
					wantL = append(wantL, r[1])
				}
			}
		case 3:
			if len(ds.BgpDefinedSets.CommunitySets) == 1 {
				gotL = ds.BgpDefinedSets.CommunitySets[0].CommunityList
			}
			for _, c := range s.comms {
				wantL = append(wantL, "^"+c10CommStr(c)+"$")
			}
		case 4:
			if len(ds.BgpDefinedSets.ExtCommunitySets) == 1 {
				gotL = ds.BgpDefinedSets.ExtCommunitySets[0].ExtCommunityList
			}
			for _, e := range s.exts {
				wantL = append(wantL, fmt.Sprintf("%s:^%d:%d$", c10SubNames[e.sub], e.as, e.la))
			}
		case 5:
			if len(ds.BgpDefinedSets.LargeCommunitySets) == 1 {
				gotL = ds.BgpDefinedSets.LargeCommunitySets[0].LargeCommunityList
			}
			for _, l := range s.larges {
				wantL = append(wantL, fmt.Sprintf("^%d:%d:%d$", l.a, l.b, l.c))
			}
		}
		if len(gotL) != len(wantL) || (len(gotL) > 0 && !reflect.DeepEqual(gotL, wantL)) {
			o.fail("config-roundtrip:defined-set:"+[]string{"prefix", "neighbor", "as-path", "community", "ext-community", "large-community"}[s.kind],
				map[string]any{"set": s.name(), "configured": wantL, "readback": gotL})
		}
	}
	for _, a := range p.assigns {
		rt, pols, _ := rp.GetPolicyAssignment(a.id, a.dir)
		names := []string{}
		for _, x := range pols {
			names = append(names, x.Name)
		}
		wantN := []string{}
		for _, x := range a.pols {
			wantN = append(wantN, fmt.Sprintf("pol%d", x.id))
		}
		wantRT := ROUTE_TYPE_ACCEPT
		if a.dflt == 2 {
			wantRT = ROUTE_TYPE_REJECT
		} else if a.dflt == 0 {
			wantRT = ROUTE_TYPE_NONE
		}
		if rt != wantRT || !reflect.DeepEqual(names, wantN) {
			o.fail("config-roundtrip:assignment", map[string]any{"id": a.id, "dir": a.dir.String(), "configured": wantN, "readback": names, "default": rt})
		}
	}
	c10CheckApiListing(o, rp, p)
}

// ---------- the API form of every listing (ListPolicy, ListPolicyAssignment), field by field ----------

func c10MatchSetStr(m *api.MatchSet) string {
	if m == nil {
		return "-"
	}
	return fmt.Sprintf("%d:%s", m.Type, m.Name)
}

// canonical text of an API statement as returned by a listing
func c10ApiStmtStr(st *api.Statement) string {
	var b strings.Builder
	c, a := st.Conditions, st.Actions
	fmt.Fprintf(&b, "%s | ps %s ns %s as %s cs %s es %s ls %s", st.Name, c10MatchSetStr(c.PrefixSet), c10MatchSetStr(c.NeighborSet),
		c10MatchSetStr(c.AsPathSet), c10MatchSetStr(c.CommunitySet), c10MatchSetStr(c.ExtCommunitySet), c10MatchSetStr(c.LargeCommunitySet))
	if c.CommunityCount != nil {
		fmt.Fprintf(&b, " cc %d:%d", c.CommunityCount.Type, c.CommunityCount.Count)
	} else {
		b.WriteString(" cc -")
	}
	if c.AsPathLength != nil {
		fmt.Fprintf(&b, " al %d:%d", c.AsPathLength.Type, c.AsPathLength.Length)
	} else {
		b.WriteString(" al -")
	}
	fmt.Fprintf(&b, " rpki %d rt %d org %d nh %v afi", c.RpkiResult, c.RouteType, c.Origin, c.NextHopInList)
	for _, f := range c.AfiSafiIn {
		fmt.Fprintf(&b, " %d/%d", f.Afi, f.Safi)
	}
	if c.LocalPrefEq != nil {
		fmt.Fprintf(&b, " lpeq %d", c.LocalPrefEq.Value)
	} else {
		b.WriteString(" lpeq -")
	}
	if c.MedEq != nil {
		fmt.Fprintf(&b, " medeq %d", c.MedEq.Value)
	} else {
		b.WriteString(" medeq -")
	}
	ca := func(x *api.CommunityAction) string {
		if x == nil {
			return "-"
		}
		return fmt.Sprintf("%d%v", x.Type, x.Communities)
	}
	fmt.Fprintf(&b, " || ra %d comm %s ext %s large %s", a.RouteAction, ca(a.Community), ca(a.ExtCommunity), ca(a.LargeCommunity))
	if a.Med != nil {
		fmt.Fprintf(&b, " med %d:%d", a.Med.Type, a.Med.Value)
	} else {
		b.WriteString(" med -")
	}
	if a.LocalPref != nil {
		fmt.Fprintf(&b, " lp %d", a.LocalPref.Value)
	} else {
		b.WriteString(" lp -")
	}
	if a.AsPrepend != nil {
		fmt.Fprintf(&b, " prep %d:%d:%v", a.AsPrepend.Asn, a.AsPrepend.Repeat, a.AsPrepend.UseLeftMost)
	} else {
		b.WriteString(" prep -")
	}
	if a.Nexthop != nil {
		fmt.Fprintf(&b, " nh %q self=%v peer=%v unch=%v", a.Nexthop.Address, a.Nexthop.Self, a.Nexthop.PeerAddress, a.Nexthop.Unchanged)
	} else {
		b.WriteString(" nh -")
	}
	if a.OriginAction != nil {
		fmt.Fprintf(&b, " org %d", a.OriginAction.Origin)
	} else {
		b.WriteString(" org -")
	}
	return b.String()
}

// the same text written from the descriptor (what was configured), independently of any gobgp conversion
func c10WantApiStmtStr(st *c10Stmt) string {
	sets := map[int]string{0: "-", 1: "-", 7: "-", 8: "-", 9: "-", 10: "-"}
	cc, al, rpki, rt, org, lpeq, medeq := "-", "-", 0, 0, 0, "-", "-"
	nh := []string{}
	afi := ""
	for _, c := range st.conds {
		switch c.tag {
		case 0, 1, 7, 8, 9, 10:
			sets[c.tag] = fmt.Sprintf("%d:%s", c.opt+1, c.set.name()) // MatchSet_Type: any 1, all 2, invert 3
		case 2:
			cc = fmt.Sprintf("%d:%d", c.op+1, c.val)
		case 3:
			al = fmt.Sprintf("%d:%d", c.op+1, c.val)
		case 4:
			rpki = []int{0, 3, 2, 4}[c.val] // valid 3, not-found 2, invalid 4
		case 5:
			rt = int(c.val)
		case 6:
			org = int(c.val) + 1
		case 11:
			for _, a := range c.nets {
				nh = append(nh, a.String())
			}
		case 12:
			for _, f := range c.fams {
				afi += []string{" 1/1", " 2/1", " 1/128"}[f]
			}
		case 13:
			lpeq = fmt.Sprint(c.val)
		case 14:
			medeq = fmt.Sprint(c.val)
		}
	}
	comm, ext, large, med, lp, prep, nha, orga := "-", "-", "-", "-", "-", "-", "-", "-"
	for _, a := range st.acts {
		switch a.tag {
		case 0:
			l := []string{}
			for _, c := range a.comms {
				if a.op == 1 {
					l = append(l, "^"+c10CommStr(c)+"$")
				} else {
					l = append(l, c10CommStr(c))
				}
			}
			comm = fmt.Sprintf("%d%v", a.op+1, l)
		case 1:
			l := []string{}
			for _, e := range a.exts {
				if a.op == 1 {
					l = append(l, fmt.Sprintf("%s:^%d:%d$", c10SubNames[e.sub], e.as, e.la))
				} else {
					l = append(l, c10ExtValueStr(e))
				}
			}
			if len(l) > 0 {
				ext = fmt.Sprintf("%d%v", a.op+1, l)
			}
		case 2:
			l := []string{}
			for _, x := range a.larges {
				if a.op == 1 {
					l = append(l, fmt.Sprintf("^%d:%d:%d$", x.a, x.b, x.c))
				} else {
					l = append(l, fmt.Sprintf("%d:%d:%d", x.a, x.b, x.c))
				}
			}
			if len(l) > 0 {
				large = fmt.Sprintf("%d%v", a.op+1, l)
			}
		case 3:
			switch {
			case a.replace:
				med = fmt.Sprintf("2:%d", a.val)
			case a.neg:
				med = fmt.Sprintf("1:-%d", a.val)
			default:
				med = fmt.Sprintf("1:%d", a.val)
			}
		case 4:
			lp = fmt.Sprint(a.val)
		case 5:
			if a.useLast {
				prep = fmt.Sprintf("0:%d:true", a.rep)
			} else {
				prep = fmt.Sprintf("%d:%d:false", a.val, a.rep)
			}
		case 6:
			switch a.kind {
			case 0:
				nha = fmt.Sprintf("%q self=false peer=false unch=false", a.addr.String())
			case 1:
				nha = `"" self=true peer=false unch=false`
			case 2:
				nha = `"" self=false peer=true unch=false`
			case 3:
				nha = `"" self=false peer=false unch=true`
			}
		case 7:
			orga = fmt.Sprint(a.val + 1)
		}
	}
	return fmt.Sprintf("st%d | ps %s ns %s as %s cs %s es %s ls %s cc %s al %s rpki %d rt %d org %d nh %v afi%s lpeq %s medeq %s || ra %d comm %s ext %s large %s med %s lp %s prep %s nh %s org %s",
		st.id, sets[0], sets[1], sets[7], sets[8], sets[9], sets[10], cc, al, rpki, rt, org, nh, afi, lpeq, medeq,
		st.route, comm, ext, large, med, lp, prep, nha, orga)
}

func c10ApiField(want, got string) string {
	w, g := strings.Fields(want), strings.Fields(got)
	cur := "name"
	for i := 0; i < len(w) && i < len(g); i++ {
		switch w[i] {
		case "ps", "ns", "as", "cs", "es", "ls", "cc", "al", "rpki", "rt", "org", "nh", "afi", "lpeq", "medeq", "ra", "comm", "ext", "large", "med", "lp", "prep":
			cur = w[i]
		}
		if w[i] != g[i] {
			return cur
		}
	}
	return cur
}

func c10CheckApiListing(o *vOut, rp *RoutingPolicy, p *c10Prog) {
	checkPolicy := func(listing string, ap *api.Policy, pol *c10Pol) {
		if ap.Name != fmt.Sprintf("pol%d", pol.id) || len(ap.Statements) != len(pol.stmts) {
			o.fail("listing-differs:"+listing+":policy", map[string]any{"policy": ap.Name, "statements": len(ap.Statements), "configured": len(pol.stmts)})
			return
		}
		for i, st := range pol.stmts {
			want, got := c10WantApiStmtStr(st), c10ApiStmtStr(ap.Statements[i])
			o.stat("api_listing_statements", 1)
			if want != got {
				o.fail("listing-differs:"+listing+":"+c10ApiField(want, got), map[string]any{"listing": listing, "configured": want, "listed": got})
			}
		}
	}
	for _, pol := range p.pols {
		if live, ok := rp.policyMap[fmt.Sprintf("pol%d", pol.id)]; ok {
			checkPolicy("ListPolicy", NewAPIPolicyFromTableStruct(live), pol)
		}
	}
	for _, a := range p.assigns {
		rt, pols, _ := rp.GetPolicyAssignment(a.id, a.dir)
		l := NewAPIPolicyAssignmentFromTableStruct(&PolicyAssignment{Name: a.id, Type: a.dir, Policies: pols, Default: rt})
		wantDir := api.PolicyDirection_POLICY_DIRECTION_IMPORT
		if a.dir == POLICY_DIRECTION_EXPORT {
			wantDir = api.PolicyDirection_POLICY_DIRECTION_EXPORT
		}
		wantDef := []api.RouteAction{api.RouteAction_ROUTE_ACTION_UNSPECIFIED, api.RouteAction_ROUTE_ACTION_ACCEPT, api.RouteAction_ROUTE_ACTION_REJECT}[a.dflt]
		if l.Name != a.id || l.Direction != wantDir || l.DefaultAction != wantDef || len(l.Policies) != len(a.pols) {
			o.fail("listing-differs:ListPolicyAssignment:assignment", map[string]any{"id": a.id, "direction": l.Direction.String(), "default": l.DefaultAction.String(),
				"policies": len(l.Policies), "configured_policies": len(a.pols), "configured_default": a.dflt})
			continue
		}
		for i, pol := range a.pols {
			checkPolicy("ListPolicyAssignment", l.Policies[i], pol)
		}
	}
}

var c10CondType = []ConditionType{CONDITION_PREFIX, CONDITION_NEIGHBOR, CONDITION_COMMUNITY_COUNT, CONDITION_AS_PATH_LENGTH, CONDITION_RPKI,
	CONDITION_ROUTE_TYPE, CONDITION_ORIGIN, CONDITION_AS_PATH, CONDITION_COMMUNITY, CONDITION_EXT_COMMUNITY, CONDITION_LARGE_COMMUNITY,
	CONDITION_NEXT_HOP, CONDITION_AFI_SAFI_IN, CONDITION_LOCAL_PREF_EQ, CONDITION_MED_EQ}

type c10Held struct {
	what string
	p    *Path
	snap string
}

func c10AttrClass(before, after string) string {
	// name the first canonical field that differs
	bf, af := strings.Fields(before), strings.Fields(after)
	cur := "?"
	for i := 0; i < len(bf) && i < len(af); i++ {
		switch bf[i] {
		case "o", "p", "nh", "med", "lp", "c", "e", "l", "|":
			cur = bf[i]
		}
		if bf[i] != af[i] {
			break
		}
	}
	return map[string]string{"o": "origin", "p": "as-path", "nh": "next-hop", "med": "med", "lp": "local-pref", "c": "community",
		"e": "ext-community", "l": "large-community", "|": "wire", "?": "unknown"}[cur]
}

// ---------- the run ----------

func c10Emit(o *vOut, p *c10Prog) {
	o.op("reset")
	for _, s := range p.sets {
		o.op("%s", c10SetLine(s))
	}
	for _, pol := range p.pols {
		for _, st := range pol.stmts {
			o.op("%s", c10StmtLine(st))
		}
	}
	for _, pol := range p.pols {
		var b strings.Builder
		fmt.Fprintf(&b, "policy %d %d", pol.id, len(pol.stmts))
		for _, st := range pol.stmts {
			fmt.Fprintf(&b, " %d", st.id)
		}
		o.op("%s", b.String())
	}
	for _, a := range p.assigns {
		var b strings.Builder
		fmt.Fprintf(&b, "assign %d %d %d", a.slot, a.dflt, len(a.pols))
		for _, pol := range a.pols {
			fmt.Fprintf(&b, " %d", pol.id)
		}
		o.op("%s", b.String())
	}
}

func c10Load(t *testing.T, o *vOut, p *c10Prog) (*RoutingPolicy, *oc.RoutingPolicy) {
	cfg, ap := p.config()
	rp := NewRoutingPolicy(slog.New(slog.NewTextHandler(discardWriter{}, nil)))
	if err := rp.Reset(cfg, ap); err != nil {
		t.Fatalf("C10: generated configuration rejected: %v", err)
	}
	return rp, cfg
}

type discardWriter struct{}

func (discardWriter) Write(b []byte) (int, error) { return len(b), nil }

// evaluates every route under every assignment; returns nothing, records everything
func c10RunProgram(t *testing.T, o *vOut, g *c10Gen, p *c10Prog, routes []*c10Route, optsL []*c10Opts) {
	rp, cfg := c10Load(t, o, p)
	c10Emit(o, p)
	c10CheckReadback(o, rp, cfg, p)
	for _, x := range optsL {
		o.op("%s", c10OptsLine(x))
	}
	// Cond.wf of the Lean side: an `all` community-type condition refers to a non-empty set
	wf := true
	for _, pol := range p.pols {
		for _, st := range pol.stmts {
			for _, c := range st.conds {
				if c.opt == 1 && ((c.tag == 8 && len(c.set.comms) == 0) || (c.tag == 9 && len(c.set.exts) == 0) || (c.tag == 10 && len(c.set.larges) == 0)) {
					wf = false
				}
			}
		}
	}
	if !wf {
		o.stat("programs_not_wf", 1)
	}
	for _, rt := range routes {
		o.op("%s", c10RouteLine(rt))
		stored := rt.path()
		held := []c10Held{{"stored", stored, c10Snapshot(stored)}}
		x := optsL[g.r.intn(len(optsL))]
		// per-statement condition results
		for _, pol := range p.pols {
			for _, st := range pol.stmts {
				if len(st.conds) == 0 {
					continue
				}
				real := rp.statementMap[fmt.Sprintf("st%d", st.id)]
				var b strings.Builder
				b.WriteString("c")
				for _, c := range real.Conditions {
					res := c.Evaluate(stored, x.options())
					b.WriteString(" " + c10B(res))
					tag := -1
					for _, dc := range st.conds {
						if c10CondType[dc.tag] == c.Type() {
							tag = dc.tag
							if dc.tag == 5 {
								// source-dependent condition against the documented classification
								for si, src := range c10Sources {
									if src == rt.src {
										k := c10SourceKinds[si]
										o.stat("route_type_source_"+k.kind, 1)
										if res != (dc.val == k.typ) {
											o.fail("route-type-differs-from-documented:"+k.kind+":"+string(c10RouteTypeNames[dc.val]), map[string]any{
												"source": k.kind, "source_as": src.AS, "local_as": src.LocalAS, "confederation_member": src.Confederation,
												"condition": "route-type " + string(c10RouteTypeNames[dc.val]), "evaluate": res, "documented": dc.val == k.typ,
												"route": c10RouteLine(rt)})
										}
									}
								}
							}
						}
					}
					if res {
						o.stat(fmt.Sprintf("cond_%02d_true", tag), 1)
					} else {
						o.stat(fmt.Sprintf("cond_%02d_false", tag), 1)
					}
				}
				o.ask(b.String(), "sev %d %d %d", st.id, rt.id, x.id)
			}
		}
		for _, a := range p.assigns {
			y := x
			if g.r.chance(30) {
				y = optsL[g.r.intn(len(optsL))]
			}
			res, s := c10Apply(rp, a.id, a.dir, stored, y.options())
			o.ask(s, "eval %d %d %d", a.slot, rt.id, y.id)
			c10CheckEffective(o, res, fmt.Sprintf("ApplyPolicy %s/%s", a.id, a.dir), rt)
			if a.dir == POLICY_DIRECTION_EXPORT && g.r.chance(35) && !rt.withdraw {
				// the export chain: UpdatePathAttrs toward an eBGP / iBGP peer (which deletes MED, LOCAL_PREF,
				// rewrites the next hop in a clone), then the export policy on top of that clone
				info := c10ExportPeers[g.r.intn(len(c10ExportPeers))]
				pre := UpdatePathAttrs(slog.New(slog.NewTextHandler(discardWriter{}, nil)), c10Global, info, stored)
				c10CheckEffective(o, pre, "UpdatePathAttrs toward "+info.Address.String(), rt)
				res2, _ := c10Apply(rp, a.id, a.dir, pre, &PolicyOptions{Info: info, OldNextHop: stored.GetNexthop()})
				c10CheckEffective(o, res2, "UpdatePathAttrs toward "+info.Address.String()+" + export policy", rt)
				o.stat("export_chain_checks", 1)
			}
			if wf {
				// the documented-model interpreter of the Lean side must give the same answer
				o.ask(s, "spec %d %d %d", a.slot, rt.id, y.id)
				o.stat("spec_asks", 1)
			}
			switch {
			case s == "reject":
				o.stat("verdict_reject", 1)
			case res == stored:
				o.stat("verdict_accept_unmodified", 1)
			default:
				o.stat("verdict_accept_modified", 1)
			}
			if res != nil && res != stored {
				held = append(held, c10Held{fmt.Sprintf("eval %d %d %d", a.slot, rt.id, y.id), res, c10Snapshot(res)})
			}
			// idempotence: the same evaluation again
			if _, s2 := c10Apply(rp, a.id, a.dir, stored, y.options()); s2 != s {
				o.fail("not-idempotent", map[string]any{"route": c10RouteLine(rt), "first": s, "second": s2})
			}
			// purity: nothing handed out so far may have changed
			for hi := range held {
				h := &held[hi]
				if now := c10Snapshot(h.p); now != h.snap {
					o.fail("shared-route-mutated:"+c10AttrClass(h.snap, now), map[string]any{
						"victim": h.what, "after_evaluating": fmt.Sprintf("%s/%s", a.id, a.dir), "route": c10RouteLine(rt),
						"before": h.snap, "after": now})
					h.snap = now
				}
			}
		}
		// re-read (not re-evaluate) what was handed out for the first assignments: the model's answer to
		// the same eval line is the value the result had when it was produced
		for _, h := range held[1:] {
			o.ask("accept "+c10ShowPath(h.p), "%s", h.what)
		}
		// an id without any assignment filters everything that is not a withdrawal
		_, s := c10Apply(rp, "192.0.2.99", POLICY_DIRECTION_IMPORT, stored, x.options())
		o.ask(s, "eval 99 %d %d", rt.id, x.id)
	}
}

func TestVerifC10(t *testing.T) {
	o := vOpen(t)
	defer o.close()
	g := &c10Gen{r: &vRand{s: o.seed*7919 + 10}, o: o}
	c10Corpus(t, o, g)
	nProg := 500
	if o.thorough {
		nProg = 4000
	}
	for i := 0; i < nProg; i++ {
		p := g.newProg()
		nr := 6 + g.r.intn(5)
		routes := make([]*c10Route, 0, nr)
		for j := 0; j < nr; j++ {
			routes = append(routes, g.newRoute(j))
		}
		optsL := []*c10Opts{}
		for j := 0; j < 3; j++ {
			optsL = append(optsL, g.newOpts(j))
		}
		c10RunProgram(t, o, g, p, routes, optsL)
		o.stat("programs", 1)
		for k := 0; k < 3; k++ {
			c10CondOracle(t, o, g)
		}
		for k := 0; k < 2; k++ {
			c10EditScenario(t, o, g)
		}
		c10MgmtScenario(t, o, g)
		c10RemovalScenario(t, o, g)
		{
			kind := g.r.intn(3)
			pool := []int{len(c10Comms), 5, len(c10Larges)}[kind]
			idx := func(n int) []int {
				l := []int{}
				for k := 0; k < n; k++ {
					l = append(l, g.r.intn(pool))
				}
				return l
			}
			c10AliasScenario(t, o, kind, idx(g.r.intn(4)), idx(1+g.r.intn(3)), idx(1+g.r.intn(3)), g.r.pick(0, 1, 2, 4, 8), false)
		}
		if i < 3 && len(p.pols[0].stmts) > 0 {
			o.sample(c10StmtLine(p.pols[0].stmts[0]))
		}
	}
}

// ---------- heap-level scenario: two clones of one stored path, community-type `add` ----------

// kind 0 communities, 1 ext-communities, 2 large communities. The stored attribute slice has
// length len(base) and capacity len(base)+spare; clone A adds xs, clone B adds ys (through the real
// action objects built from configuration); then A, B and the stored path are read again.
func c10AliasScenario(t *testing.T, o *vOut, kind int, base, xs, ys []int, spare int, corpus bool) {
	encL := func(l c10Large) string {
		v := new(big.Int).Lsh(big.NewInt(int64(l.a)), 64)
		v.Or(v, new(big.Int).Lsh(big.NewInt(int64(l.b)), 32))
		v.Or(v, big.NewInt(int64(l.c)))
		return v.String()
	}
	encE := func(e c10Ext) string {
		return fmt.Sprint(uint64(e.sub)<<48 | uint64(e.as)<<32 | uint64(e.la))
	}
	enc := func(i int) string {
		switch kind {
		case 0:
			return fmt.Sprint(c10Comms[i])
		case 1:
			return encE(c10Exts[i])
		}
		return encL(c10Larges[i])
	}
	rt := &c10Route{id: 0, nlri: netip.MustParsePrefix("10.9.0.0/16"), src: c10Sources[0], nh: netip.MustParseAddr("10.0.0.1"), spare: spare, hasPath: true}
	org := uint8(0)
	rt.origin = &org
	for _, i := range base {
		switch kind {
		case 0:
			rt.hasComm = true
			rt.comms = append(rt.comms, c10Comms[i])
		case 1:
			rt.exts = append(rt.exts, c10Exts[i])
		case 2:
			rt.larges = append(rt.larges, c10Larges[i])
		}
	}
	mkAct := func(idx []int) Action {
		a := c10Act{tag: kind, op: 0}
		for _, i := range idx {
			switch kind {
			case 0:
				a.comms = append(a.comms, c10Comms[i])
			case 1:
				a.exts = append(a.exts, c10Exts[i])
			case 2:
				a.larges = append(a.larges, c10Larges[i])
			}
		}
		st := c10StmtConfig(&c10Stmt{id: 0, acts: []c10Act{a}})
		s, err := NewStatement(st)
		if err != nil || len(s.ModActions) != 1 {
			t.Fatalf("C10 alias scenario: %v", err)
		}
		return s.ModActions[0]
	}
	read := func(p *Path) string {
		var l []string
		switch kind {
		case 0:
			for _, c := range p.GetCommunities() {
				l = append(l, fmt.Sprint(c))
			}
		case 1:
			for _, e := range p.GetExtCommunities() {
				v := e.(*bgp.TwoOctetAsSpecificExtended)
				l = append(l, fmt.Sprint(uint64(v.SubType)<<48|uint64(v.AS)<<32|uint64(v.LocalAdmin)))
			}
		case 2:
			for _, c := range p.GetLargeCommunities() {
				l = append(l, encL(c10Large{c.ASN, c.LocalData1, c.LocalData2}))
			}
		}
		return strings.TrimSpace(fmt.Sprintf("%d %s", len(l), strings.Join(l, " ")))
	}
	list := func(idx []int) string {
		var b strings.Builder
		fmt.Fprintf(&b, "%d", len(idx))
		for _, i := range idx {
			b.WriteString(" " + enc(i))
		}
		return b.String()
	}
	stored := rt.path()
	before := c10Snapshot(stored)
	o.op("hnew 0 %d %s", len(base)+spare, list(base))
	a := stored.Clone(false)
	mkAct(xs).Apply(a, nil)
	o.op("hadd 1 0 %s", list(xs))
	wantA := read(a)
	o.ask(wantA, "hread 1")
	b := stored.Clone(false)
	mkAct(ys).Apply(b, nil)
	o.op("hadd 2 0 %s", list(ys))
	o.ask(read(b), "hread 2")
	o.ask(read(a), "hread 1")
	o.ask(read(stored), "hread 0")
	o.stat("alias_scenarios", 1)
	name := []string{"community", "ext-community", "large-community"}[kind]
	if got := read(a); got != wantA {
		o.fail("shared-route-mutated:"+name, map[string]any{"scenario": "two clones of one stored path, add " + name,
			"stored_len": len(base), "stored_cap": len(base) + spare, "clone_a_added": list(xs), "clone_b_added": list(ys),
			"clone_a_before": wantA, "clone_a_after": got})
	}
	if now := c10Snapshot(stored); now != before {
		o.fail("shared-route-mutated:"+name, map[string]any{"scenario": "stored path changed", "before": before, "after": now})
	}
}

// ---------- corpus: minimised past disagreements, run before the random stream ----------

func c10OneStmtProg(g *c10Gen, sts ...*c10Stmt) *c10Prog {
	p := &c10Prog{}
	slot := 0
	for _, st := range sts {
		st.id = g.nextSt
		g.nextSt++
		pol := &c10Pol{id: g.nextPol, stmts: []*c10Stmt{st}}
		g.nextPol++
		p.pols = append(p.pols, pol)
		for _, c := range st.conds {
			if c.set != nil {
				p.sets = append(p.sets, c.set)
			}
		}
	}
	for i, id := range c10PeerIDs {
		for _, dir := range []PolicyDirection{POLICY_DIRECTION_IMPORT, POLICY_DIRECTION_EXPORT} {
			a := &c10Assign{id: id, dir: dir, slot: slot, dflt: 1}
			slot++
			if dir == POLICY_DIRECTION_IMPORT && i < len(p.pols) {
				a.pols = []*c10Pol{p.pols[i]}
			}
			p.assigns = append(p.assigns, a)
		}
	}
	return p
}

func c10Corpus(t *testing.T, o *vOut, g *c10Gen) {
	o.sample("corpus: two clones add different large communities; prepend x255; ext remove next to a non-transitive value")
	u8 := func(v uint8) *uint8 { return &v }
	nilOpts := []*c10Opts{{id: 0, isNil: true}}
	base := func() *c10Route {
		return &c10Route{id: 0, nlri: netip.MustParsePrefix("10.1.1.0/24"), src: c10Sources[0], origin: u8(0), hasPath: true,
			segs: []c10Seg{{2, []uint32{65001}}}, nh: netip.MustParseAddr("10.0.0.1"), spare: 4}
	}
	// 1. SetLargeCommunities(cs, false) appended into the shared backing array (a: 9:9:9, b: 9:9:9)
	c10AliasScenario(t, o, 2, []int{0}, []int{3}, []int{4}, 4, true)
	c10AliasScenario(t, o, 0, []int{0}, []int{1}, []int{2}, 4, true)
	c10AliasScenario(t, o, 1, []int{0}, []int{1}, []int{2}, 4, true)
	{
		rt := base()
		rt.larges = []c10Large{{1, 1, 1}}
		p := c10OneStmtProg(g,
			&c10Stmt{acts: []c10Act{{tag: 2, op: 0, larges: []c10Large{{7, 7, 7}}}}},
			&c10Stmt{acts: []c10Act{{tag: 2, op: 0, larges: []c10Large{{9, 9, 9}}}}})
		c10RunProgram(t, o, g, p, []*c10Route{rt}, nilOpts)
	}
	// 2. as-path-prepend with repeat-n = 255 onto a non-empty leading AS_SEQUENCE
	{
		rt := base()
		p := c10OneStmtProg(g, &c10Stmt{acts: []c10Act{{tag: 5, val: 65000, rep: 255}}})
		c10RunProgram(t, o, g, p, []*c10Route{rt}, nilOpts)
		rp, _ := c10Load(t, o, p)
		res := rp.ApplyPolicy("10.0.0.1", POLICY_DIRECTION_IMPORT, rt.path(), nil)
		if res != nil {
			l := res.GetAsList()
			bad := false
			for i, a := range l {
				if len(l) == 256 && ((i < 255 && a != 65000) || (i == 255 && a != 65001)) {
					bad = true
				}
			}
			if bad {
				o.fail("prepend-255-wrong-as", map[string]any{"route": c10RouteLine(rt), "action": "prepend 65000 x255",
					"as_path_len": len(l), "first": l[0], "last": l[255]})
			}
		}
	}
	// 4. set-med "+0" (add nothing) read back as "0" (replace by 0): caught by the read-back oracle
	{
		rt := base()
		m := uint32(50)
		rt.med = &m
		p := c10OneStmtProg(g, &c10Stmt{route: 1, acts: []c10Act{{tag: 3, replace: false, neg: false, val: 0}}})
		c10RunProgram(t, o, g, p, []*c10Route{rt}, nilOpts)
	}
	// 3. set-ext-community remove must keep what it does not match, non-transitive values included
	{
		rt := base()
		rt.exts = []c10Ext{{false, 0, 2, 65000, 1}, {true, 0, 2, 65000, 100}}
		p := c10OneStmtProg(g, &c10Stmt{acts: []c10Act{{tag: 1, op: 1, exts: []c10Ext{{true, 0, 2, 65001, 70000}}}}})
		c10RunProgram(t, o, g, p, []*c10Route{rt}, nilOpts)
		rp, _ := c10Load(t, o, p)
		res := rp.ApplyPolicy("10.0.0.1", POLICY_DIRECTION_IMPORT, rt.path(), nil)
		if res != nil && len(res.GetExtCommunities()) != 2 {
			o.fail("ext-remove-drops-non-transitive", map[string]any{"route": c10RouteLine(rt),
				"action": "set-ext-community remove rt:^65001:70000$", "ext_before": 2, "ext_after": len(res.GetExtCommunities())})
		}
	}
}

// ---------- set conditions as the policy engine evaluates them, against the documented meaning ----------
//
// The Lean model abstracts a pattern to an exact value (the regular-expression side is C13's).  This
// section exercises the CONDITIONS on sets with several patterns of the same AS in every compiled
// shape (exact value, fixed-AS bitmap ranges and alternations, AS wildcards, AS-independent local
// parts, general regular expressions), all three match options, and routes carrying subsets of the
// matching communities.  The expected verdict is computed without any gobgp matcher: Go's regexp on
// the rendered community, per pattern, then any / all / invert as docs/sources/policy.md defines them.

var c10reASes = []uint32{65000, 65001, 100}
var c10reLocals = []uint32{0, 1, 2, 10, 100, 105, 150, 199, 200, 210, 1000, 1999, 65535}

// community patterns for AS a (shape name, pattern as configured)
func (g *c10Gen) commPattern(a uint32) (string, string) {
	r := g.r
	n := c10reLocals[r.intn(len(c10reLocals))]
	m := c10reLocals[r.intn(len(c10reLocals))]
	switch r.intn(14) {
	case 0:
		return "exact", fmt.Sprintf("^%d:%d$", a, n)
	case 1:
		return "plain", fmt.Sprintf("%d:%d", a, n)
	case 2:
		return "bitmap-dots", fmt.Sprintf("^%d:1..$", a)
	case 3:
		return "bitmap-dots", fmt.Sprintf("^%d:%d.$", a, r.pick(1, 10, 20, 21))
	case 4:
		return "bitmap-alt", fmt.Sprintf("^%d:(%d|%d)$", a, n, m)
	case 5:
		return "bitmap-class", fmt.Sprintf("^%d:[12]0*$", a)
	case 6:
		return "bitmap-digits", fmt.Sprintf("^%d:2\\d\\d$", a)
	case 7:
		return "wildcard", fmt.Sprintf("^%d:.*$", a)
	case 8:
		return "wildcard", fmt.Sprintf("^%d:\\d+$", a)
	case 9:
		return "alternation", fmt.Sprintf("^%d:%d$|^%d:%d$", a, n, a, m)
	case 10:
		return "regexp", fmt.Sprintf("^%d:1[0-9]+$", a)
	case 11:
		return "regexp-as", fmt.Sprintf("^6500[01]:%d$", n)
	case 12:
		return "as-independent", fmt.Sprintf("^\\d+:%d$", n)
	}
	return "as-independent", fmt.Sprintf("^[0-9]+:(%d|%d)$", n, m)
}

func (g *c10Gen) largePattern(a uint32) (string, string) {
	r := g.r
	n := r.pick(0, 1, 2, 100)
	m := r.pick(0, 1, 2, 200)
	switch r.intn(7) {
	case 0:
		return "exact", fmt.Sprintf("^%d:%d:%d$", a, n, m)
	case 1:
		return "plain", fmt.Sprintf("%d:%d:%d", a, n, m)
	case 2:
		return "wildcard", fmt.Sprintf("^%d:%d:.*$", a, n)
	case 3:
		return "regexp", fmt.Sprintf("^%d:\\d+:%d$", a, m)
	case 4:
		return "regexp", fmt.Sprintf("^%d:(%d|%d):[0-9]+$", a, n, m)
	case 5:
		return "unanchored", fmt.Sprintf("%d:%d", a, n)
	}
	return "alternation", fmt.Sprintf("^%d:%d:%d$|^%d:%d:%d$", a, n, m, a, m, n)
}

var c10rePlainComm = regexp.MustCompile(`^\d+:\d+$`)
var c10rePlainLarge = regexp.MustCompile(`^\d+:\d+:\d+$`)

// the documented reading of a configured pattern: a plain value is that value, anything else is a
// regular expression searched in the rendered community
func c10DocRegexp(p string, plain *regexp.Regexp) *regexp.Regexp {
	if plain.MatchString(p) {
		return regexp.MustCompile("^" + regexp.QuoteMeta(p) + "$")
	}
	return regexp.MustCompile(p)
}

func c10DocVerdict(opt int, perPattern []bool) bool {
	anyM, allM := false, true
	for _, b := range perPattern {
		anyM = anyM || b
		allM = allM && b
	}
	switch opt {
	case 1:
		return allM
	case 2:
		return !anyM
	}
	return anyM
}

// normalised text of a configured pattern (what Remove compares): a plain value is anchored
func c10NormPattern(kind int, p string) string {
	body, pre := p, ""
	if kind == 1 {
		k := strings.IndexByte(p, ':')
		pre, body = strings.ToLower(p[:k+1]), p[k+1:]
	}
	plain := c10rePlainComm
	if kind == 2 {
		plain = c10rePlainLarge
	}
	if plain.MatchString(body) {
		body = "^" + body + "$"
	}
	return pre + body
}

func c10MkRegexSet(t *testing.T, kind int, pats []string) DefinedSet {
	var d DefinedSet
	var err error
	l := append([]string{}, pats...)
	switch kind {
	case 0:
		d, err = NewCommunitySet(oc.CommunitySet{CommunitySetName: "s", CommunityList: l})
	case 1:
		d, err = NewExtCommunitySet(oc.ExtCommunitySet{ExtCommunitySetName: "s", ExtCommunityList: l})
	case 2:
		d, err = NewLargeCommunitySet(oc.LargeCommunitySet{LargeCommunitySetName: "s", LargeCommunityList: l})
	}
	if err != nil {
		t.Fatalf("C10 cond oracle: set %q rejected: %v", pats, err)
	}
	return d
}

func c10CondOracle(t *testing.T, o *vOut, g *c10Gen) {
	r := g.r
	kind := r.pick(0, 0, 1, 1, 2) // 0 community, 1 ext-community, 2 large community
	kindName := []string{"community", "ext-community", "large-community"}[kind]
	optName := []string{"any", "all", "invert"}
	a := c10reASes[r.intn(len(c10reASes))]
	newPattern := func() string {
		as := a
		if r.chance(15) {
			as = c10reASes[r.intn(len(c10reASes))]
		}
		var sh, p string
		switch {
		case kind == 2:
			sh, p = g.largePattern(as)
		case kind == 1 && r.chance(35):
			// the shape an ext-community set compiles to a fixed-AS bitmap
			sh, p = "bitmap-alt", fmt.Sprintf("^%d:(%d|%d)$", as, c10reLocals[r.intn(len(c10reLocals))], c10reLocals[r.intn(len(c10reLocals))])
		default:
			sh, p = g.commPattern(as)
		}
		o.stat("condset_"+kindName+"_"+sh, 1)
		if kind == 1 {
			return c10SubNames[r.pick(2, 2, 2, 3)] + ":" + p
		}
		return p
	}
	np := 2 + r.intn(3)
	var pats []string
	for i := 0; i < np; i++ {
		pats = append(pats, newPattern())
	}
	// the real objects, through the configuration path: one reject statement per match option
	build := func(pats []string) *RoutingPolicy {
		cfg := &oc.RoutingPolicy{}
		l := append([]string{}, pats...)
		switch kind {
		case 0:
			cfg.DefinedSets.BgpDefinedSets.CommunitySets = []oc.CommunitySet{{CommunitySetName: "s", CommunityList: l}}
		case 1:
			cfg.DefinedSets.BgpDefinedSets.ExtCommunitySets = []oc.ExtCommunitySet{{ExtCommunitySetName: "s", ExtCommunityList: l}}
		case 2:
			cfg.DefinedSets.BgpDefinedSets.LargeCommunitySets = []oc.LargeCommunitySet{{LargeCommunitySetName: "s", LargeCommunityList: l}}
		}
		ap := map[string]oc.ApplyPolicy{}
		for opt := 0; opt < 3; opt++ {
			st := oc.Statement{Name: "st" + optName[opt]}
			switch kind {
			case 0:
				st.Conditions.BgpConditions.MatchCommunitySet = oc.MatchCommunitySet{CommunitySet: "s", MatchSetOptions: c10MatchOpt(opt)}
			case 1:
				st.Conditions.BgpConditions.MatchExtCommunitySet = oc.MatchExtCommunitySet{ExtCommunitySet: "s", MatchSetOptions: c10MatchOpt(opt)}
			case 2:
				st.Conditions.BgpConditions.MatchLargeCommunitySet = oc.MatchLargeCommunitySet{LargeCommunitySet: "s", MatchSetOptions: c10MatchOpt(opt)}
			}
			st.Actions.RouteDisposition = oc.ROUTE_DISPOSITION_REJECT_ROUTE
			cfg.PolicyDefinitions = append(cfg.PolicyDefinitions, oc.PolicyDefinition{Name: "p" + optName[opt], Statements: []oc.Statement{st}})
			ap["peer-"+optName[opt]] = oc.ApplyPolicy{Config: oc.ApplyPolicyConfig{ImportPolicyList: []string{"p" + optName[opt]}, DefaultImportPolicy: oc.DEFAULT_POLICY_TYPE_ACCEPT_ROUTE}}
		}
		rp := NewRoutingPolicy(slog.New(slog.NewTextHandler(discardWriter{}, nil)))
		if err := rp.Reset(cfg, ap); err != nil {
			t.Fatalf("C10 cond oracle: configuration %q rejected: %v", pats, err)
		}
		return rp
	}
	// routes: subsets of communities of the set's AS (and a few of other ASes)
	type condRoute struct {
		rt       *c10Route
		stored   *Path
		rendered []string
	}
	var routes []condRoute
	for k := 0; k < 6; k++ {
		rt := &c10Route{id: k, nlri: netip.MustParsePrefix("10.8.0.0/16"), src: c10Sources[0], nh: netip.MustParseAddr("10.0.0.1"), hasPath: true, spare: r.pick(0, 2)}
		org := uint8(0)
		rt.origin = &org
		nc := r.pick(0, 1, 1, 1, 2, 2, 3)
		var rendered []string
		for i := 0; i < nc; i++ {
			as := a
			if r.chance(20) {
				as = c10reASes[r.intn(len(c10reASes))]
			}
			loc := c10reLocals[r.intn(len(c10reLocals))]
			switch kind {
			case 0:
				rt.hasComm = true
				rt.comms = append(rt.comms, as<<16|loc)
				rendered = append(rendered, fmt.Sprintf("%d:%d", as, loc))
			case 1:
				e := c10Ext{trans: !r.chance(15), kind: 0, sub: r.pick(2, 2, 2, 3), as: as, la: loc}
				if r.chance(10) {
					e.la = 70000
				}
				if r.chance(8) {
					e.kind, e.as = 1, 0x0a000001
				}
				rt.exts = append(rt.exts, e)
				rendered = append(rendered, c10ExtValueStr(e))
			case 2:
				l := c10Large{as, uint32(r.pick(0, 1, 2, 100)), uint32(r.pick(0, 1, 2, 200))}
				rt.larges = append(rt.larges, l)
				rendered = append(rendered, fmt.Sprintf("%d:%d:%d", l.a, l.b, l.c))
			}
		}
		routes = append(routes, condRoute{rt, rt.path(), rendered})
	}
	// verdicts of the live policy on all routes: per route and option "condition,statement"
	verdicts := func(rp *RoutingPolicy) []string {
		var out []string
		for _, cr := range routes {
			for opt := 0; opt < 3; opt++ {
				out = append(out, func() (v string) {
					defer func() {
						if e := recover(); e != nil {
							o.fail("condition-panics:"+kindName+":"+optName[opt], map[string]any{"route": c10RouteLine(cr.rt), "panic": fmt.Sprint(e)})
							v = "pp"
						}
					}()
					c := rp.statementMap["st"+optName[opt]].Conditions[0].Evaluate(cr.stored, nil)
					res := rp.ApplyPolicy("peer-"+optName[opt], POLICY_DIRECTION_IMPORT, cr.stored, nil)
					return c10B(c) + c10B(res == nil)
				}())
			}
		}
		return out
	}
	// the documented expectation from the LOGICAL member list
	check := func(rp *RoutingPolicy, pats []string, stage string) {
		docs := make([]*regexp.Regexp, len(pats))
		subs := make([]int, len(pats))
		for i, p := range pats {
			switch kind {
			case 0:
				docs[i] = c10DocRegexp(p, c10rePlainComm)
			case 1:
				k := strings.IndexByte(p, ':')
				subs[i] = map[string]int{"rt": 2, "soo": 3}[p[:k]]
				docs[i] = c10DocRegexp(p[k+1:], c10rePlainComm)
			case 2:
				docs[i] = c10DocRegexp(p, c10rePlainLarge)
			}
		}
		got := verdicts(rp)
		for ri, cr := range routes {
			per := make([]bool, len(pats))
			for i := range pats {
				switch kind {
				case 0, 2:
					for _, s := range cr.rendered {
						if docs[i].MatchString(s) {
							per[i] = true
						}
					}
				case 1:
					// "match only with transitive community" (RFC 7153); sub-type as named by the pattern
					for _, x := range cr.stored.GetExtCommunities() {
						typ, st := x.GetTypes()
						if typ < bgp.EC_TYPE_NON_TRANSITIVE_TWO_OCTET_AS_SPECIFIC && int(st) == subs[i] && docs[i].MatchString(x.String()) {
							per[i] = true
						}
					}
				}
			}
			for opt := 0; opt < 3; opt++ {
				if opt == 1 && len(pats) == 0 {
					continue // `all` on an empty set: code and documentation differ (theorem all_on_empty_set)
				}
				want := c10DocVerdict(opt, per)
				g := got[ri*3+opt]
				o.stat(fmt.Sprintf("condset_%s_%s_%s", kindName, optName[opt], c10B(want)), 1)
				detail := map[string]any{"set_type": kindName, "stage": stage, "patterns": pats, "option": optName[opt],
					"route_carries": cr.rendered, "route": c10RouteLine(cr.rt), "per_pattern_documented": per, "documented": want}
				if (g[0] == '1') != want {
					detail["condition_evaluate"] = g[0] == '1'
					o.fail("condition-verdict-differs-from-documented:"+kindName+":"+optName[opt], detail)
				} else if (g[1] == '1') != want {
					// the statement rejects exactly when the condition holds; the default accepts
					detail["apply_policy_rejected"] = g[1] == '1'
					o.fail("condition-verdict-differs-from-documented:"+kindName+":"+optName[opt]+":statement", detail)
				}
			}
		}
	}
	rp := build(pats)
	check(rp, pats, "configured")
	// defined-set edits on the live policy (AddDefinedSet append / replace, DeleteDefinedSet remove):
	// after every edit the conditions must decide the LOGICAL member list, exactly as a policy
	// configured up front with that list does
	nEdits := r.pick(1, 2, 2, 3, 4)
	emptyRefill := r.chance(25) // the set is emptied in place and re-filled with patterns of (mostly) other shapes
	if emptyRefill {
		nEdits = 2 + r.intn(2)
	}
	for e := 0; e < nEdits; e++ {
		op := "append"
		switch {
		case len(pats) > 0 && r.chance(35):
			op = "remove"
		case r.chance(15):
			op = "replace"
		}
		removeAll := false
		if emptyRefill && e == 0 && len(pats) > 0 {
			op, removeAll = "remove", true
		} else if emptyRefill && e == 1 {
			op = "append"
		}
		before := append([]string{}, pats...)
		var arg []string
		var err error
		switch op {
		case "append":
			for i, m := 0, 1+r.intn(2); i < m; i++ {
				arg = append(arg, newPattern())
			}
			err = rp.AddDefinedSet(c10MkRegexSet(t, kind, arg), false)
			pats = append(pats, arg...)
		case "replace":
			for i, m := 0, r.pick(0, 1, 2, 3); i < m; i++ {
				arg = append(arg, newPattern())
			}
			err = rp.AddDefinedSet(c10MkRegexSet(t, kind, arg), true)
			pats = append([]string{}, arg...)
		case "remove":
			sel := r.intn(4)
			if removeAll {
				sel = 2
				o.stat("condset_edit_emptied_then_refilled", 1)
			}
			switch sel {
			case 0:
				arg = []string{pats[0]}
			case 1:
				arg = []string{pats[len(pats)/2]}
			case 2:
				arg = append([]string{}, pats...)
			default:
				arg = []string{pats[r.intn(len(pats))]}
				if r.chance(30) {
					arg = append(arg, newPattern()) // not a member: no effect
				}
			}
			err = rp.DeleteDefinedSet(c10MkRegexSet(t, kind, arg), false)
			gone := map[string]bool{}
			for _, p := range arg {
				gone[c10NormPattern(kind, p)] = true
			}
			var kept, keptBlind []string
			goneBody := map[string]bool{}
			for _, p := range arg {
				n := c10NormPattern(kind, p)
				goneBody[n[strings.IndexByte(n, ':')+1:]] = true
			}
			for _, p := range pats {
				n := c10NormPattern(kind, p)
				if !gone[n] {
					kept = append(kept, p)
				}
				if !goneBody[n[strings.IndexByte(n, ':')+1:]] {
					keptBlind = append(keptBlind, p)
				}
			}
			if kind == 1 && len(kept) != len(keptBlind) && err == nil {
				// a member of another sub-type has the same pattern text: it must stay
				if ds, e2 := rp.GetDefinedSet(DEFINED_TYPE_EXT_COMMUNITY, "s"); e2 == nil && len(ds.BgpDefinedSets.ExtCommunitySets[0].ExtCommunityList) == len(keptBlind) {
					o.fail("ext-set-remove-ignores-subtype", map[string]any{"set": before, "removed": arg,
						"expected_members": kept, "readback": ds.BgpDefinedSets.ExtCommunitySets[0].ExtCommunityList})
					kept = keptBlind // go on with what the set now holds
				}
			}
			pats = kept
		}
		o.stat("condset_edit_"+op, 1)
		if err != nil {
			o.fail("defined-set-edit-rejected:"+kindName+":"+op, map[string]any{"before": before, "arg": arg, "error": err.Error()})
			return
		}
		stage := fmt.Sprintf("after %s %q on %q", op, arg, before)
		check(rp, pats, stage)
		// metamorphic: the same verdicts as a policy configured up front with the final list
		if len(pats) > 0 {
			up, live := verdicts(build(pats)), verdicts(rp)
			if !reflect.DeepEqual(up, live) {
				o.fail("defined-set-edit-differs-from-upfront:"+kindName+":"+op, map[string]any{"stage": stage, "members": pats,
					"verdicts_live": live, "verdicts_upfront": up})
			}
		}
		// the set reads back as the logical list
		typ := []DefinedType{DEFINED_TYPE_COMMUNITY, DEFINED_TYPE_EXT_COMMUNITY, DEFINED_TYPE_LARGE_COMMUNITY}[kind]
		if ds, e2 := rp.GetDefinedSet(typ, "s"); e2 == nil {
			var gotL []string
			switch kind {
			case 0:
				gotL = ds.BgpDefinedSets.CommunitySets[0].CommunityList
			case 1:
				gotL = ds.BgpDefinedSets.ExtCommunitySets[0].ExtCommunityList
			case 2:
				gotL = ds.BgpDefinedSets.LargeCommunitySets[0].LargeCommunityList
			}
			var wantL []string
			for _, p := range pats {
				wantL = append(wantL, c10NormPattern(kind, p))
			}
			if len(gotL) != len(wantL) || (len(wantL) > 0 && !reflect.DeepEqual(gotL, wantL)) {
				o.fail("config-roundtrip:defined-set-after-edit:"+kindName, map[string]any{"stage": stage, "logical": wantL, "readback": gotL})
			}
		}
	}
	o.stat("condset_scenarios", 1)
}

// ---------- defined-set edits on the modelled set kinds (prefix / neighbor / as-path / exact community types) ----------
//
// A policy is configured with one set and one reject statement per match option; the set is then
// edited on the live RoutingPolicy (AddDefinedSet append / replace, DeleteDefinedSet remove). After
// every edit the Lean model is given the program with the LOGICAL member list and must predict the
// condition results and verdicts of the edited policy (correspondence); the edited policy must also
// agree with one configured up front with the final list and read back as the logical list (oracles).

func c10MemberKeys(s *c10Set) []string {
	var k []string
	switch s.kind {
	case 0:
		for _, e := range s.pfx {
			k = append(k, fmt.Sprintf("%s %d %d", e.p, e.lo, e.hi))
		}
	case 1:
		for _, n := range s.nets {
			k = append(k, n.String())
		}
	case 2:
		for _, m := range s.singles {
			k = append(k, "s"+c10SingleStr(m))
		}
		for _, x := range s.res {
			k = append(k, "r"+x[0]+x[1])
		}
	case 3:
		for _, c := range s.comms {
			k = append(k, fmt.Sprint(c))
		}
	case 4:
		for _, e := range s.exts {
			k = append(k, fmt.Sprintf("%d %d %d", e.sub, e.as, e.la))
		}
	case 5:
		for _, l := range s.larges {
			k = append(k, fmt.Sprintf("%d %d %d", l.a, l.b, l.c))
		}
	}
	return k
}

// members of s selected by keep(i-th key)
func c10FilterSet(s *c10Set, keep func(key string) bool) *c10Set {
	out := &c10Set{kind: s.kind, id: s.id}
	keys := c10MemberKeys(s)
	i := 0
	next := func() bool { k := keys[i]; i++; return keep(k) }
	for _, e := range s.pfx {
		if next() {
			out.pfx = append(out.pfx, e)
		}
	}
	for _, e := range s.nets {
		if next() {
			out.nets = append(out.nets, e)
		}
	}
	for _, e := range s.singles {
		if next() {
			out.singles = append(out.singles, e)
		}
	}
	for _, e := range s.res {
		if next() {
			out.res = append(out.res, e)
		}
	}
	for _, e := range s.comms {
		if next() {
			out.comms = append(out.comms, e)
		}
	}
	for _, e := range s.exts {
		if next() {
			out.exts = append(out.exts, e)
		}
	}
	for _, e := range s.larges {
		if next() {
			out.larges = append(out.larges, e)
		}
	}
	return out
}

func c10SetAppend(s, x *c10Set) {
	s.pfx = append(s.pfx, x.pfx...)
	s.nets = append(s.nets, x.nets...)
	s.singles = append(s.singles, x.singles...)
	s.res = append(s.res, x.res...)
	s.comms = append(s.comms, x.comms...)
	s.exts = append(s.exts, x.exts...)
	s.larges = append(s.larges, x.larges...)
}

// the DefinedSet object an API caller would hand to AddDefinedSet / DeleteDefinedSet
func c10MkDefinedSet(t *testing.T, s *c10Set) DefinedSet {
	cfg, _ := (&c10Prog{sets: []*c10Set{s}}).config()
	var d DefinedSet
	var err error
	switch s.kind {
	case 0:
		d, err = NewPrefixSet(cfg.DefinedSets.PrefixSets[0])
	case 1:
		d, err = NewNeighborSet(cfg.DefinedSets.NeighborSets[0])
	case 2:
		d, err = NewAsPathSet(cfg.DefinedSets.BgpDefinedSets.AsPathSets[0])
	case 3:
		d, err = NewCommunitySet(cfg.DefinedSets.BgpDefinedSets.CommunitySets[0])
	case 4:
		d, err = NewExtCommunitySet(cfg.DefinedSets.BgpDefinedSets.ExtCommunitySets[0])
	case 5:
		d, err = NewLargeCommunitySet(cfg.DefinedSets.BgpDefinedSets.LargeCommunitySets[0])
	}
	if err != nil {
		t.Fatalf("C10 edit scenario: %v", err)
	}
	return d
}

func c10EditScenario(t *testing.T, o *vOut, g *c10Gen) {
	r := g.r
	kind := r.intn(6)
	kindName := []string{"prefix", "neighbor", "as-path", "community", "ext-community", "large-community"}[kind]
	fam := func(s *c10Set) int {
		if len(s.pfx) == 0 {
			return -1
		}
		if s.pfx[0].p.Addr().Is6() {
			return 1
		}
		return 0
	}
	// a fresh member list of this kind; prefix members of family f (-1 = any)
	members := func(f int, nonEmpty bool) *c10Set {
		for {
			x := g.newSet(kind)
			if nonEmpty && len(c10MemberKeys(x)) == 0 {
				continue
			}
			if kind == 0 && f >= 0 && fam(x) >= 0 && fam(x) != f {
				continue
			}
			return x
		}
	}
	s := members(-1, true)
	tag := []int{0, 1, 7, 8, 9, 10}[kind]
	opts := []int{0, 1, 2}
	if kind < 2 {
		opts = []int{0, 2}
	}
	p := &c10Prog{sets: []*c10Set{s}}
	for i, opt := range opts {
		st := &c10Stmt{id: g.nextSt, conds: []c10Cond{{tag: tag, set: s, opt: opt}}, route: 2}
		g.nextSt++
		pol := &c10Pol{id: g.nextPol, stmts: []*c10Stmt{st}}
		g.nextPol++
		p.pols = append(p.pols, pol)
		p.assigns = append(p.assigns, &c10Assign{id: c10PeerIDs[i], dir: POLICY_DIRECTION_IMPORT, slot: i, dflt: 1, pols: []*c10Pol{pol}})
	}
	rp, _ := c10Load(t, o, p)
	var routes []*c10Route
	for j := 0; j < 6; j++ {
		routes = append(routes, g.newRoute(j))
	}
	x := &c10Opts{id: 0, isNil: true}
	verdicts := func(rp *RoutingPolicy, ask bool) []string {
		var out []string
		for _, rt := range routes {
			stored := rt.path()
			for i, pol := range p.pols {
				st := pol.stmts[0]
				c := func() (v bool) {
					defer func() {
						if e := recover(); e != nil {
							o.fail("condition-panics:"+kindName, map[string]any{"route": c10RouteLine(rt), "panic": fmt.Sprint(e)})
						}
					}()
					return rp.statementMap[fmt.Sprintf("st%d", st.id)].Conditions[0].Evaluate(stored, nil)
				}()
				_, sv := c10Apply(rp, c10PeerIDs[i], POLICY_DIRECTION_IMPORT, stored, nil)
				if ask {
					o.ask("c "+c10B(c), "sev %d %d 0", st.id, rt.id)
					o.ask(sv, "eval %d %d 0", i, rt.id)
				}
				out = append(out, c10B(c)+" "+sv)
			}
		}
		return out
	}
	nEdits := r.pick(1, 2, 2, 3, 4)
	// histories that cross a representation boundary: the set is emptied in place and re-filled
	// (a prefix set preferably with the other address family), possibly more than once
	var forced []string
	if r.chance(30) {
		forced = []string{"remove-all", "refill"}
		if r.chance(30) {
			forced = append(forced, "remove-all", "refill")
		}
		nEdits = len(forced) + r.intn(2)
	}
	for e := 0; e < nEdits; e++ {
		keys := c10MemberKeys(s)
		op := "append"
		switch {
		case len(keys) > 0 && r.chance(35):
			op = "remove"
		case r.chance(15):
			op = "replace"
		}
		removeAll, otherFam := false, false
		if e < len(forced) {
			if forced[e] == "remove-all" && len(keys) > 0 {
				op, removeAll = "remove", true
			} else {
				op, otherFam = "append", r.chance(65)
			}
		}
		before := c10SetLine(s)
		famBefore := 0
		if kind == 0 {
			famBefore = s.emptiedFam
			if fam(s) >= 0 {
				famBefore = fam(s) + 1
			}
		}
		var arg *c10Set
		var err error
		switch op {
		case "append":
			want := fam(s)
			if kind == 0 && want < 0 && otherFam && famBefore > 0 {
				want = 2 - famBefore // the family the emptied set did NOT have
			}
			arg = members(want, true)
			arg.id = s.id
			err = rp.AddDefinedSet(c10MkDefinedSet(t, arg), false)
			c10SetAppend(s, arg)
			s.emptiedFam = 0
			if kind == 0 && famBefore > 0 && fam(s)+1 != famBefore {
				o.stat("edit_prefix_refilled_other_family", 1)
			}
		case "replace":
			arg = members(-1, false) // by a shorter, longer or empty list; Replace takes the family of the new list
			arg.id = s.id
			err = rp.AddDefinedSet(c10MkDefinedSet(t, arg), true)
			*s = *arg
		case "remove":
			var which map[string]bool
			switch r.intn(4) {
			case 0:
				which = map[string]bool{keys[0]: true}
			case 1:
				which = map[string]bool{keys[len(keys)/2]: true}
			case 2:
				which = map[string]bool{}
				for _, k := range keys {
					which[k] = true
				}
			default:
				which = map[string]bool{keys[r.intn(len(keys))]: true}
			}
			if removeAll {
				which = map[string]bool{}
				for _, k := range keys {
					which[k] = true
				}
			}
			arg = c10FilterSet(s, func(k string) bool { return which[k] })
			if len(c10MemberKeys(arg)) == 0 {
				continue
			}
			err = rp.DeleteDefinedSet(c10MkDefinedSet(t, arg), false)
			*s = *c10FilterSet(s, func(k string) bool { return !which[k] })
			if kind == 0 && len(s.pfx) == 0 {
				s.emptiedFam = famBefore // PrefixSet.Remove leaves the family of the set as it was
				o.stat("edit_prefix_emptied_in_place", 1)
			}
		}
		o.stat("edit_"+kindName+"_"+op, 1)
		if err != nil {
			o.fail("defined-set-edit-rejected:"+kindName+":"+op, map[string]any{"before": before, "arg": c10SetLine(arg), "error": err.Error()})
			return
		}
		stage := fmt.Sprintf("after %s [%s] on [%s]", op, c10SetLine(arg), before)
		// correspondence: the model, given the logical list, predicts the edited policy
		c10Emit(o, p)
		o.op("%s", c10OptsLine(x))
		for _, rt := range routes {
			o.op("%s", c10RouteLine(rt))
		}
		live := verdicts(rp, true)
		// metamorphic: a policy configured up front with the final list
		rp2, cfg2 := c10Load(t, o, p)
		// (a prefix set emptied in place keeps its family, a configured empty one has none: the two differ
		// under INVERT — that is C15's known finding soft-reset!=fresh:emptied-prefix-set-invert, not judged
		// here; the model is told the retained family and follows the code)
		if up := verdicts(rp2, false); !(kind == 0 && len(s.pfx) == 0 && s.emptiedFam != 0) && !reflect.DeepEqual(up, live) {
			first := 0
			for first < len(up) && up[first] == live[first] {
				first++
			}
			o.fail("defined-set-edit-differs-from-upfront:"+kindName+":"+op, map[string]any{"stage": stage, "members": c10SetLine(s),
				"route": c10RouteLine(routes[first/len(p.pols)]), "option": opts[first%len(p.pols)], "live": live[first], "upfront": up[first]})
		}
		// read-back of the edited policy = the logical configuration
		c10CheckReadback(o, rp, cfg2, p)
	}
	o.stat("edit_scenarios", 1)
}

// ---------- management requests on a configured policy: refused requests change nothing ----------
//
// A random program is loaded and assigned; then a sequence of management requests is issued on the
// live RoutingPolicy — partial AddStatement / DeleteStatement with conditions and actions in every
// order (some present, some absent), AddPolicy / DeletePolicy, DeleteDefinedSet / AddDefinedSet,
// Set / Add / DeletePolicyAssignment with unknown or duplicated names in the middle of the list.
//   * every REFUSED request: the read-back of every object and every verdict / condition vector is
//     compared with the state before the request   (failed-edit-changed-policy:<object>:<op>);
//   * whether a request is refused is predicted from the descriptors (edit-outcome-unexpected:…);
//   * every ACCEPTED statement / assignment edit updates the descriptors; the Lean model, given the
//     edited program, predicts the live policy's answers (correspondence), and the read-back must be
//     the edited configuration.

var c10ActType = []ActionType{ACTION_COMMUNITY, ACTION_EXT_COMMUNITY, ACTION_LARGE_COMMUNITY, ACTION_MED, ACTION_LOCAL_PREF,
	ACTION_AS_PATH_PREPEND, ACTION_NEXTHOP, ACTION_ORIGIN}

func c10FullReadback(rp *RoutingPolicy) string {
	var b strings.Builder
	js := func(v any) string { x, _ := json.Marshal(v); return string(x) }
	b.WriteString("policies " + js(rp.GetPolicy("")) + "\n")
	sts := rp.GetStatement("")
	sort.Slice(sts, func(i, j int) bool { return sts[i].Name < sts[j].Name })
	b.WriteString("statements " + js(sts) + "\n")
	for _, typ := range []DefinedType{DEFINED_TYPE_PREFIX, DEFINED_TYPE_NEIGHBOR, DEFINED_TYPE_AS_PATH, DEFINED_TYPE_COMMUNITY, DEFINED_TYPE_EXT_COMMUNITY, DEFINED_TYPE_LARGE_COMMUNITY} {
		ds, err := rp.GetDefinedSet(typ, "")
		if err == nil {
			// prefix lists come out of a tree: order them
			for i := range ds.PrefixSets {
				l := ds.PrefixSets[i].PrefixList
				sort.Slice(l, func(a, c int) bool {
					return l[a].IpPrefix.String()+l[a].MasklengthRange < l[c].IpPrefix.String()+l[c].MasklengthRange
				})
			}
			fmt.Fprintf(&b, "sets %d %s\n", typ, js(ds))
		}
	}
	for _, id := range append(append([]string{}, c10PeerIDs...), "192.0.2.99") {
		for _, dir := range []PolicyDirection{POLICY_DIRECTION_IMPORT, POLICY_DIRECTION_EXPORT} {
			rt, pols, _ := rp.GetPolicyAssignment(id, dir)
			fmt.Fprintf(&b, "assign %s %s %d", id, dir, rt)
			for _, x := range pols {
				b.WriteString(" " + x.Name)
			}
			b.WriteString("\n")
		}
	}
	return b.String()
}

func c10MgmtScenario(t *testing.T, o *vOut, g *c10Gen) {
	r := g.r
	p := g.newProg()
	rp, _ := c10Load(t, o, p)
	var routes []*c10Route
	for j := 0; j < 5; j++ {
		routes = append(routes, g.newRoute(j))
	}
	x := &c10Opts{id: 0, isNil: true}
	var stmts []*c10Stmt
	for _, pol := range p.pols {
		stmts = append(stmts, pol.stmts...)
	}
	if len(stmts) == 0 {
		return
	}
	polName := func(pol *c10Pol) string { return fmt.Sprintf("pol%d", pol.id) }
	// everything observable: condition vectors and verdicts; with ask=true also sent to the model
	behaviour := func(ask bool) string {
		var b strings.Builder
		for _, rt := range routes {
			stored := rt.path()
			for _, st := range stmts {
				real := rp.statementMap[fmt.Sprintf("st%d", st.id)]
				v := "c"
				if real != nil {
					for _, c := range real.Conditions {
						v += " " + func() (s string) {
							defer func() {
								if e := recover(); e != nil {
									s = "panic"
								}
							}()
							return c10B(c.Evaluate(stored, nil))
						}()
					}
				}
				if ask && len(st.conds) > 0 {
					o.ask(v, "sev %d %d 0", st.id, rt.id)
				}
				b.WriteString(v + ";")
			}
			for _, a := range p.assigns {
				_, sv := c10Apply(rp, a.id, a.dir, stored, nil)
				if ask {
					o.ask(sv, "eval %d %d 0", a.slot, rt.id)
				}
				b.WriteString(sv + ";")
			}
		}
		return b.String()
	}
	emit := func() {
		c10Emit(o, p)
		o.op("%s", c10OptsLine(x))
		for _, rt := range routes {
			o.op("%s", c10RouteLine(rt))
		}
	}
	hasCond := func(st *c10Stmt, tag int) int {
		for i, c := range st.conds {
			if c.tag == tag {
				return i
			}
		}
		return -1
	}
	hasAct := func(st *c10Stmt, tag int) int {
		for i, a := range st.acts {
			if a.tag == tag {
				return i
			}
		}
		return -1
	}
	nReq := 5 + r.intn(4)
	for q := 0; q < nReq; q++ {
		beforeRB, beforeBeh := c10FullReadback(rp), behaviour(false)
		var object, op, what string
		var err error
		expectOK := false
		var onSuccess func()
		panicked := ""
		call := func(f func() error) (e error) {
			defer func() {
				if x := recover(); x != nil {
					panicked = fmt.Sprint(x)
					e = fmt.Errorf("panic: %v", x)
				}
			}()
			return f()
		}
		switch r.intn(12) {
		case 10, 11: // the per-peer assignment as (re)configured: SetPeerPolicy with other / shorter / EMPTY lists
			object, op = "assignment", "set-peer-policy"
			id := c10PeerIDs[r.intn(len(c10PeerIDs))]
			ap := oc.ApplyPolicy{}
			type side struct {
				pols []*c10Pol
				dflt int
			}
			var sides [2]side
			for d := 0; d < 2; d++ {
				n := r.pick(0, 0, 1, 2)
				perm := r.perm(len(p.pols))
				var names []string
				for _, i := range perm[:min(n, len(perm))] {
					sides[d].pols = append(sides[d].pols, p.pols[i])
					names = append(names, polName(p.pols[i]))
				}
				sides[d].dflt = r.pick(1, 1, 2)
				def := oc.DEFAULT_POLICY_TYPE_ACCEPT_ROUTE
				if sides[d].dflt == 2 {
					def = oc.DEFAULT_POLICY_TYPE_REJECT_ROUTE
				}
				if d == 0 {
					ap.Config.ImportPolicyList, ap.Config.DefaultImportPolicy = names, def
				} else {
					ap.Config.ExportPolicyList, ap.Config.DefaultExportPolicy = names, def
				}
				if len(names) == 0 {
					o.stat("mgmt_peer_policy_emptied", 1)
				}
			}
			what = fmt.Sprintf("SetPeerPolicy %s import %v export %v", id, ap.Config.ImportPolicyList, ap.Config.ExportPolicyList)
			err = call(func() error { return rp.SetPeerPolicy(id, ap) })
			expectOK = true
			onSuccess = func() {
				for _, a := range p.assigns {
					if a.id == id {
						d := 0
						if a.dir == POLICY_DIRECTION_EXPORT {
							d = 1
						}
						a.pols, a.dflt = sides[d].pols, sides[d].dflt
					}
				}
			}
		case 0, 1, 2, 3, 4: // partial statement edit
			st := stmts[r.intn(len(stmts))]
			object = "statement"
			add := r.chance(40)
			op = "delete-partial"
			if add {
				op = "add-partial"
			}
			req := &c10Stmt{id: st.id}
			// a mix of things the statement has and has not
			for tag := 0; tag < 15; tag++ {
				has := hasCond(st, tag) >= 0
				pr := 8
				if has != add {
					pr = 35 // removable / addable
				}
				if r.chance(pr) {
					if has && !add {
						req.conds = append(req.conds, st.conds[hasCond(st, tag)])
					} else {
						req.conds = append(req.conds, g.newCond(p, tag))
					}
				}
			}
			for tag := 0; tag < 8; tag++ {
				has := hasAct(st, tag) >= 0
				pr := 8
				if has != add {
					pr = 35
				}
				if r.chance(pr) {
					req.acts = append(req.acts, g.newAct(tag))
				}
			}
			if r.chance(15) {
				req.route = r.pick(1, 2)
			}
			if len(req.conds)+len(req.acts) == 0 && req.route == 0 {
				req.acts = append(req.acts, g.newAct(r.intn(8)))
			}
			// sets a request's new conditions refer to must exist in the live policy first
			for _, c := range req.conds {
				if c.set != nil {
					if err2 := rp.AddDefinedSet(c10MkDefinedSet(t, c.set), true); err2 != nil {
						t.Fatalf("C10 mgmt: %v", err2)
					}
				}
			}
			beforeRB = c10FullReadback(rp)
			rs, e2 := NewStatement(c10StmtConfig(req))
			if e2 != nil {
				t.Fatalf("C10 mgmt: request statement rejected: %v", e2)
			}
			// NewStatement lists conditions and actions in a fixed order; a caller need not
			if r.chance(50) {
				pc, pa := r.perm(len(rs.Conditions)), r.perm(len(rs.ModActions))
				cs, as := make([]Condition, len(pc)), make([]Action, len(pa))
				rc, ra := make([]c10Cond, len(pc)), make([]c10Act, len(pa))
				// descriptor order = NewStatement order = tag order, so permute both alike
				for i, j := range pc {
					cs[i], rc[i] = rs.Conditions[j], req.conds[j]
				}
				for i, j := range pa {
					as[i], ra[i] = rs.ModActions[j], req.acts[j]
				}
				rs.Conditions, rs.ModActions, req.conds, req.acts = cs, as, rc, ra
			}
			expectOK = true
			for _, c := range req.conds {
				if (hasCond(st, c.tag) >= 0) == add {
					expectOK = false
				}
			}
			for _, a := range req.acts {
				if (hasAct(st, a.tag) >= 0) == add {
					expectOK = false
				}
			}
			if req.route != 0 && (st.route != 0) == add {
				expectOK = false
			}
			what = fmt.Sprintf("%s of [%s] on [%s]", op, c10StmtLine(req), c10StmtLine(st))
			if add {
				err = call(func() error { return rp.AddStatement(rs) })
			} else {
				err = call(func() error { return rp.DeleteStatement(rs, false) })
			}
			onSuccess = func() {
				if add {
					st.conds = append(st.conds, req.conds...)
					st.acts = append(st.acts, req.acts...)
					if req.route != 0 {
						st.route = req.route
					}
					return
				}
				for _, c := range req.conds {
					i := hasCond(st, c.tag)
					st.conds = append(append([]c10Cond{}, st.conds[:i]...), st.conds[i+1:]...)
				}
				for _, a := range req.acts {
					i := hasAct(st, a.tag)
					st.acts = append(append([]c10Act{}, st.acts[:i]...), st.acts[i+1:]...)
				}
				if req.route != 0 {
					st.route = 0
				}
			}
		case 5: // statement requests that must be refused
			object = "statement"
			st := stmts[r.intn(len(stmts))]
			if r.chance(50) {
				op, what = "delete-in-use", fmt.Sprintf("st%d", st.id)
				err = call(func() error { return rp.DeleteStatement(&Statement{Name: fmt.Sprintf("st%d", st.id)}, true) })
			} else {
				op, what = "delete-unknown", "nope"
				rs, _ := NewStatement(c10StmtConfig(&c10Stmt{id: 999999, acts: []c10Act{g.newAct(3)}}))
				err = call(func() error { return rp.DeleteStatement(rs, r.chance(50)) })
			}
		case 6: // policy requests that must be refused
			object = "policy"
			pol := p.pols[r.intn(len(p.pols))]
			switch r.intn(4) {
			case 0:
				op, what = "add-refer-unknown-statement", polName(pol)
				names := []*Statement{}
				for _, st := range pol.stmts {
					names = append(names, &Statement{Name: fmt.Sprintf("st%d", st.id)})
				}
				names = append(names, &Statement{Name: "nope"})
				if len(stmts) > 0 {
					names = append(names, &Statement{Name: fmt.Sprintf("st%d", stmts[0].id)})
				}
				err = call(func() error { return rp.AddPolicy(&Policy{Name: fmt.Sprintf("new%d", q), Statements: names}, true) })
			case 1:
				op, what = "add-with-existing-statement-name", polName(pol)
				fresh, _ := NewStatement(c10StmtConfig(&c10Stmt{id: 800000 + q, acts: []c10Act{g.newAct(4)}}))
				clash, _ := NewStatement(c10StmtConfig(&c10Stmt{id: stmts[r.intn(len(stmts))].id, acts: []c10Act{g.newAct(4)}}))
				err = call(func() error {
					return rp.AddPolicy(&Policy{Name: fmt.Sprintf("new%d", q), Statements: []*Statement{fresh, clash}}, false)
				})
			case 2:
				op, what = "delete-unknown", "nope"
				err = call(func() error { return rp.DeletePolicy(&Policy{Name: "nope"}, r.chance(50), r.chance(50), c10PeerIDs) })
			case 3:
				var used *c10Pol
				for _, a := range p.assigns {
					if len(a.pols) > 0 {
						used = a.pols[0]
					}
				}
				if used == nil {
					continue
				}
				op, what = "delete-in-use", polName(used)
				err = call(func() error { return rp.DeletePolicy(&Policy{Name: polName(used)}, true, r.chance(50), c10PeerIDs) })
			}
		case 7: // defined-set requests that must be refused
			object = "defined-set"
			if len(p.sets) == 0 {
				continue
			}
			s := p.sets[r.intn(len(p.sets))]
			inUse := false
			for _, st := range stmts {
				for _, c := range st.conds {
					if c.set != nil && c.set.name() == s.name() {
						inUse = true
					}
				}
			}
			switch r.intn(3) {
			case 0:
				if !inUse {
					continue
				}
				op, what = "delete-in-use", s.name()
				err = call(func() error { return rp.DeleteDefinedSet(c10MkDefinedSet(t, s), true) })
			case 1:
				op, what = "delete-unknown", "nope"
				u := g.newSet(s.kind)
				u.id = 777777
				err = call(func() error { return rp.DeleteDefinedSet(c10MkDefinedSet(t, u), r.chance(50)) })
			case 2:
				if s.kind != 0 || len(s.pfx) == 0 {
					continue
				}
				op, what = "append-other-family", s.name()
				other := "2001:db8:7::/48"
				if s.pfx[0].p.Addr().Is6() {
					other = "10.7.0.0/16"
				}
				u := &c10Set{kind: 0, id: s.id, pfx: []c10Pfx{{p: netip.MustParsePrefix(other), lo: 0, hi: 128}}}
				err = call(func() error { return rp.AddDefinedSet(c10MkDefinedSet(t, u), false) })
			}
		case 8, 9: // assignment edits, names known / unknown / duplicated
			object = "assignment"
			a := p.assigns[r.intn(len(p.assigns))]
			var req []*c10Pol
			var names []*oc.PolicyDefinition
			n := r.intn(4)
			bad := false
			seen := map[int]bool{}
			for i := 0; i < n; i++ {
				switch {
				case r.chance(12):
					names, bad = append(names, &oc.PolicyDefinition{Name: "nope"}), true
				default:
					pol := p.pols[r.intn(len(p.pols))]
					if seen[pol.id] {
						bad = true
					}
					seen[pol.id] = true
					req = append(req, pol)
					names = append(names, &oc.PolicyDefinition{Name: polName(pol)})
				}
			}
			def := []RouteType{ROUTE_TYPE_NONE, ROUTE_TYPE_ACCEPT, ROUTE_TYPE_REJECT}[r.intn(3)]
			what = fmt.Sprintf("%s/%s %v default %d", a.id, a.dir, func() []string {
				var l []string
				for _, x := range names {
					l = append(l, x.Name)
				}
				return l
			}(), def)
			setDef := func() {
				if def == ROUTE_TYPE_ACCEPT {
					a.dflt = 1
				} else if def == ROUTE_TYPE_REJECT {
					a.dflt = 2
				}
			}
			switch r.intn(3) {
			case 0:
				op = "set"
				err = call(func() error { return rp.SetPolicyAssignment(a.id, a.dir, names, def) })
				expectOK = !bad
				onSuccess = func() { a.pols = req; setDef() }
			case 1:
				op = "add"
				err = call(func() error { return rp.AddPolicyAssignment(a.id, a.dir, names, def) })
				expectOK = !bad
				for _, cur := range a.pols {
					if seen[cur.id] {
						expectOK = false
					}
				}
				onSuccess = func() { a.pols = append(append([]*c10Pol{}, a.pols...), req...); setDef() }
			case 2:
				op = "delete"
				err = call(func() error { return rp.DeletePolicyAssignment(a.id, a.dir, names, false) })
				expectOK = !bad
				onSuccess = func() {
					var kept []*c10Pol
					for _, cur := range a.pols {
						if !seen[cur.id] {
							kept = append(kept, cur)
						}
					}
					a.pols = kept
				}
			}
		}
		if object == "" {
			continue
		}
		o.stat("mgmt_"+object+"_"+op+map[bool]string{true: "_accepted", false: "_refused"}[err == nil], 1)
		if panicked != "" {
			o.fail("management-request-panics:"+object+":"+op, map[string]any{"request": what, "panic": panicked})
			return
		}
		if (err == nil) != expectOK {
			o.fail("edit-outcome-unexpected:"+object+":"+op, map[string]any{"request": what, "expected_accepted": expectOK,
				"error": fmt.Sprint(err)})
			return
		}
		if err != nil {
			// a refused request is a no-op
			if now := c10FullReadback(rp); now != beforeRB {
				bl, nl := strings.Split(beforeRB, "\n"), strings.Split(now, "\n")
				d := 0
				for d < len(bl) && d < len(nl) && bl[d] == nl[d] {
					d++
				}
				o.fail("failed-edit-changed-policy:"+object+":"+op, map[string]any{"request": what, "error": err.Error(),
					"observed": "read-back", "before": c10DiffWindow(bl[min(d, len(bl)-1)], nl[min(d, len(nl)-1)]),
					"after": c10DiffWindow(nl[min(d, len(nl)-1)], bl[min(d, len(bl)-1)])})
				return
			}
			if now := behaviour(false); now != beforeBeh {
				o.fail("failed-edit-changed-policy:"+object+":"+op, map[string]any{"request": what, "error": err.Error(),
					"observed": "verdicts / condition results of the generated routes differ"})
				return
			}
			continue
		}
		// accepted: the descriptors follow, the model predicts the edited policy, the read-back is the edited configuration
		onSuccess()
		emit()
		behaviour(true)
		cfg, _ := p.config()
		c10CheckReadback(o, rp, cfg, p)
		if !c10CheckSeenByEvaluation(t, o, rp, p, routes, object, op, what) {
			return
		}
	}
	o.stat("mgmt_scenarios", 1)
}

// the part of a around the first position where it differs from b
func c10DiffWindow(a, b string) string {
	i := 0
	for i < len(a) && i < len(b) && a[i] == b[i] {
		i++
	}
	lo, hi := max(0, i-260), min(len(a), i+260)
	return a[lo:hi]
}

// ---------- accepted removals leave no trace ----------
//
// The dual of "a refused request changes nothing": after an ACCEPTED DeletePolicy (all / partial, with /
// without preserve-statements, by name only / with contents, statements shared with another policy in
// any position), DeleteStatement, DeleteDefinedSet or DeletePolicyAssignment(all) the read-back of every
// object — the statement table included — is that of a policy on which the removed object never existed
// (modulo the documented preserve flag), and re-creating the object under the same name with NEW
// contents behaves like a first creation: accepted, listed and evaluated as the new contents say.
// After every step the Lean model, given the descriptors, predicts the live policy.

// a fresh RoutingPolicy configured up front from what the LISTINGS of rp show (policies, defined sets,
// assignments). Statement names are made unique per policy (a statement shared by two policies is listed
// under both; names do not influence evaluation). Slots whose default is NONE cannot be configured and
// are reported in `skip`.
func c10FreshFromListings(t *testing.T, rp *RoutingPolicy, p *c10Prog) (*RoutingPolicy, map[int]bool) {
	cfg := &oc.RoutingPolicy{}
	for _, typ := range []DefinedType{DEFINED_TYPE_PREFIX, DEFINED_TYPE_NEIGHBOR, DEFINED_TYPE_AS_PATH, DEFINED_TYPE_COMMUNITY, DEFINED_TYPE_EXT_COMMUNITY, DEFINED_TYPE_LARGE_COMMUNITY} {
		ds, err := rp.GetDefinedSet(typ, "")
		if err != nil {
			continue
		}
		cfg.DefinedSets.PrefixSets = append(cfg.DefinedSets.PrefixSets, ds.PrefixSets...)
		cfg.DefinedSets.NeighborSets = append(cfg.DefinedSets.NeighborSets, ds.NeighborSets...)
		b, d := &cfg.DefinedSets.BgpDefinedSets, ds.BgpDefinedSets
		b.AsPathSets = append(b.AsPathSets, d.AsPathSets...)
		b.CommunitySets = append(b.CommunitySets, d.CommunitySets...)
		b.ExtCommunitySets = append(b.ExtCommunitySets, d.ExtCommunitySets...)
		b.LargeCommunitySets = append(b.LargeCommunitySets, d.LargeCommunitySets...)
	}
	for _, pd := range rp.GetPolicy("") {
		c := oc.PolicyDefinition{Name: pd.Name}
		for i, st := range pd.Statements {
			st.Name = fmt.Sprintf("%s_%d_%s", pd.Name, i, st.Name)
			c.Statements = append(c.Statements, st)
		}
		cfg.PolicyDefinitions = append(cfg.PolicyDefinitions, c)
	}
	ap := map[string]oc.ApplyPolicy{}
	skip := map[int]bool{}
	for _, a := range p.assigns {
		rt, pols, _ := rp.GetPolicyAssignment(a.id, a.dir)
		if rt == ROUTE_TYPE_NONE {
			skip[a.slot] = true
			continue
		}
		x := ap[a.id]
		names := []string{}
		for _, q := range pols {
			names = append(names, q.Name)
		}
		d := oc.DEFAULT_POLICY_TYPE_ACCEPT_ROUTE
		if rt == ROUTE_TYPE_REJECT {
			d = oc.DEFAULT_POLICY_TYPE_REJECT_ROUTE
		}
		if a.dir == POLICY_DIRECTION_IMPORT {
			x.Config.ImportPolicyList, x.Config.DefaultImportPolicy = names, d
		} else {
			x.Config.ExportPolicyList, x.Config.DefaultExportPolicy = names, d
		}
		ap[a.id] = x
	}
	fresh := NewRoutingPolicy(slog.New(slog.NewTextHandler(discardWriter{}, nil)))
	if err := fresh.Reset(cfg, ap); err != nil {
		t.Fatalf("C10: the listings of the live policy cannot be configured: %v", err)
	}
	return fresh, skip
}

// every management edit of an object that is in use must be seen by evaluation exactly as it is seen by
// the listings: the verdicts through the live ASSIGNMENTS against those of a policy configured up front
// from the listings
func c10CheckSeenByEvaluation(t *testing.T, o *vOut, rp *RoutingPolicy, p *c10Prog, routes []*c10Route, object, op, what string) bool {
	fresh, skip := c10FreshFromListings(t, rp, p)
	o.stat("seen_by_evaluation_checks", 1)
	for _, rt := range routes {
		stored := rt.path()
		for _, a := range p.assigns {
			if skip[a.slot] {
				continue
			}
			_, live := c10Apply(rp, a.id, a.dir, stored, nil)
			_, up := c10Apply(fresh, a.id, a.dir, stored, nil)
			if live != up {
				o.fail("edit-of-object-in-use-not-seen-by-evaluation:"+object+":"+op, map[string]any{"request": what, "assignment": a.id + "/" + a.dir.String(),
					"route": c10RouteLine(rt), "through_the_assignment": live, "configured_from_the_listings": up})
				return false
			}
		}
	}
	return true
}

func c10RemovalScenario(t *testing.T, o *vOut, g *c10Gen) {
	r := g.r
	p := g.newProg()
	rp, _ := c10Load(t, o, p)
	var routes []*c10Route
	for j := 0; j < 5; j++ {
		routes = append(routes, g.newRoute(j))
	}
	x := &c10Opts{id: 0, isNil: true}
	polName := func(pol *c10Pol) string { return fmt.Sprintf("pol%d", pol.id) }
	stName := func(st *c10Stmt) string { return fmt.Sprintf("st%d", st.id) }
	// statements that exist without belonging to a policy (preserved by a removal)
	orphans := map[int]*c10Stmt{}
	usedBy := func(st *c10Stmt) int {
		n := 0
		for _, pol := range p.pols {
			for _, y := range pol.stmts {
				if y == st {
					n++
					break
				}
			}
		}
		return n
	}
	step := func(object, op, what string) bool {
		o.stat("removal_"+object+"_"+op, 1)
		// statement table = statements of the remaining policies + preserved ones, nothing else
		want := map[string]bool{}
		for _, pol := range p.pols {
			for _, st := range pol.stmts {
				want[stName(st)] = true
			}
		}
		for _, st := range orphans {
			want[stName(st)] = true
		}
		got := map[string]bool{}
		for _, st := range rp.GetStatement("") {
			got[st.Name] = true
		}
		var extra, missing []string
		for n := range got {
			if !want[n] {
				extra = append(extra, n)
			}
		}
		for n := range want {
			if !got[n] {
				missing = append(missing, n)
			}
		}
		sort.Strings(extra)
		sort.Strings(missing)
		if len(extra) > 0 {
			o.fail("removal-left-a-trace:"+object+":"+op, map[string]any{"request": what, "statements_still_listed": extra})
			return false
		}
		if len(missing) > 0 {
			o.fail("removal-removed-too-much:"+object+":"+op, map[string]any{"request": what, "statements_missing": missing})
			return false
		}
		// evaluation through the assignments as the listings say
		seen := c10CheckSeenByEvaluation(t, o, rp, p, routes, object, op, what)
		// policies, defined sets, assignments and their API listings
		before := o.nFail
		cfg, _ := p.config()
		c10CheckReadback(o, rp, cfg, p)
		if o.nFail != before {
			return false
		}
		// … and as the model says
		c10Emit(o, p)
		o.op("%s", c10OptsLine(x))
		for _, rt := range routes {
			o.op("%s", c10RouteLine(rt))
			stored := rt.path()
			for _, a := range p.assigns {
				_, sv := c10Apply(rp, a.id, a.dir, stored, nil)
				o.ask(sv, "eval %d %d 0", a.slot, rt.id)
			}
		}
		return seen
	}
	refused := func(object, op, what string, err error) bool {
		if err == nil {
			return false
		}
		o.fail("removal-or-recreation-refused:"+object+":"+op, map[string]any{"request": what, "error": err.Error()})
		return true
	}
	unassign := func(v *c10Pol) bool {
		for _, a := range p.assigns {
			var kept []*c10Pol
			var names []*oc.PolicyDefinition
			has := false
			for _, q := range a.pols {
				if q == v {
					has = true
				} else {
					kept = append(kept, q)
					names = append(names, &oc.PolicyDefinition{Name: polName(q)})
				}
			}
			if has {
				if refused("assignment", "set", a.id, rp.SetPolicyAssignment(a.id, a.dir, names, ROUTE_TYPE_NONE)) {
					return false
				}
				a.pols = kept
			}
		}
		return true
	}
	var all []*c10Stmt
	for _, pol := range p.pols {
		all = append(all, pol.stmts...)
	}
	// A. a policy that shares statements with the configured ones, in any position
	if len(all) > 0 && r.chance(70) {
		sh := &c10Pol{id: g.nextPol}
		g.nextPol++
		perm := r.perm(len(all))
		var refs []*Statement
		for _, i := range perm[:min(len(perm), 1+r.intn(3))] {
			sh.stmts = append(sh.stmts, all[i])
			refs = append(refs, &Statement{Name: stName(all[i])})
		}
		if refused("policy", "add-refer-existing", polName(sh), rp.AddPolicy(&Policy{Name: polName(sh), Statements: refs}, true)) {
			return
		}
		p.pols = append(p.pols, sh)
		if r.chance(50) {
			a := p.assigns[r.intn(len(p.assigns))]
			names := []*oc.PolicyDefinition{}
			for _, q := range a.pols {
				names = append(names, &oc.PolicyDefinition{Name: polName(q)})
			}
			names = append(names, &oc.PolicyDefinition{Name: polName(sh)})
			if refused("assignment", "set", a.id, rp.SetPolicyAssignment(a.id, a.dir, names, ROUTE_TYPE_NONE)) {
				return
			}
			a.pols = append(append([]*c10Pol{}, a.pols...), sh)
		}
		if !step("policy", "add-refer-existing", polName(sh)) {
			return
		}
	}
	// A2. a policy that is ASSIGNED is extended: AddPolicy naming an existing policy appends statements to it
	for k, n := 0, r.pick(0, 1, 1, 2); k < n; k++ {
		v := p.pols[r.intn(len(p.pols))]
		assigned := false
		for _, a := range p.assigns {
			for _, q := range a.pols {
				if q == v {
					assigned = true
				}
			}
		}
		if !assigned {
			// assign first, edit afterwards
			a := p.assigns[r.intn(len(p.assigns))]
			names := []*oc.PolicyDefinition{}
			pos := r.intn(len(a.pols) + 1)
			var list []*c10Pol
			list = append(list, a.pols[:pos]...)
			list = append(list, v)
			list = append(list, a.pols[pos:]...)
			for _, q := range list {
				names = append(names, &oc.PolicyDefinition{Name: polName(q)})
			}
			if refused("assignment", "set", a.id, rp.SetPolicyAssignment(a.id, a.dir, names, ROUTE_TYPE_NONE)) {
				return
			}
			a.pols = list
		}
		var add []*c10Stmt
		var req *Policy
		byRef := r.chance(35) && len(all) > 0
		if byRef {
			// statements that exist already (of another policy), referred to by name
			for _, i := range r.perm(len(all)) {
				st, dup := all[i], false
				for _, y := range v.stmts {
					if y == st {
						dup = true
					}
				}
				if !dup && orphanFree(st, p) {
					add = append(add, st)
					break
				}
			}
			if len(add) == 0 {
				continue
			}
			req = &Policy{Name: polName(v), Statements: []*Statement{{Name: stName(add[0])}}}
		} else {
			pd := oc.PolicyDefinition{Name: polName(v)}
			for i, m := 0, 1+r.intn(2); i < m; i++ {
				n0 := len(p.sets)
				st := g.newStmt(p)
				if r.chance(50) {
					st.conds = nil // make sure it applies: the extension is visible on every route
				}
				add = append(add, st)
				for _, ns := range p.sets[n0:] {
					if err := rp.AddDefinedSet(c10MkDefinedSet(t, ns), true); err != nil {
						t.Fatalf("C10 removal: %v", err)
					}
				}
				pd.Statements = append(pd.Statements, c10StmtConfig(st))
			}
			np, err := NewPolicy(pd)
			if err != nil {
				t.Fatalf("C10 removal: %v", err)
			}
			req = np
		}
		what := fmt.Sprintf("AddPolicy(refer=%v) naming the existing, assigned %s with %d more statement(s)", byRef, polName(v), len(add))
		if refused("policy", "append-to-assigned", what, rp.AddPolicy(req, byRef)) {
			return
		}
		v.stmts = append(append([]*c10Stmt{}, v.stmts...), add...)
		all = append(all, add...)
		op := "append-to-assigned"
		if byRef {
			op += "-refer-existing"
		}
		if !step("policy", op, what) {
			return
		}
	}
	for round, rounds := 0, 1+r.intn(2); round < rounds && len(p.pols) > 1; round++ {
		v := p.pols[r.intn(len(p.pols))]
		if r.chance(30) && len(v.stmts) > 1 {
			// B1. partial removal: some statements are taken out of the policy
			n := 1 + r.intn(len(v.stmts)-1)
			perm := r.perm(len(v.stmts))
			out := map[*c10Stmt]bool{}
			var refs []*Statement
			for _, i := range perm[:n] {
				out[v.stmts[i]] = true
				refs = append(refs, &Statement{Name: stName(v.stmts[i])})
			}
			preserve := r.chance(35)
			what := fmt.Sprintf("DeletePolicy(all=false, preserve=%v) %s statements %d of %d", preserve, polName(v), n, len(v.stmts))
			if refused("policy", "delete-partial", what, rp.DeletePolicy(&Policy{Name: polName(v), Statements: refs}, false, preserve, c10PeerIDs)) {
				return
			}
			var kept []*c10Stmt
			for _, st := range v.stmts {
				if !out[st] {
					kept = append(kept, st)
				}
			}
			v.stmts = kept
			for st := range out {
				if usedBy(st) == 0 && preserve {
					orphans[st.id] = st
				}
			}
			op := "delete-partial"
			if preserve {
				op += "-preserve"
			}
			if !step("policy", op, what) {
				return
			}
			continue
		}
		// B2. the whole policy: not attached anywhere, then deleted by name only or with its contents
		if !unassign(v) {
			return
		}
		preserve, byName := r.chance(35), r.chance(60)
		req := &Policy{Name: polName(v)}
		if !byName {
			for _, st := range v.stmts {
				req.Statements = append(req.Statements, &Statement{Name: stName(st)})
			}
		}
		what := fmt.Sprintf("DeletePolicy(all=true, preserve=%v, by name only=%v) %s", preserve, byName, polName(v))
		if refused("policy", "delete", what, rp.DeletePolicy(req, true, preserve, c10PeerIDs)) {
			return
		}
		var rest []*c10Pol
		for _, q := range p.pols {
			if q != v {
				rest = append(rest, q)
			}
		}
		p.pols = rest
		var gone []*c10Stmt
		for _, st := range v.stmts {
			if usedBy(st) == 0 {
				if preserve {
					orphans[st.id] = st
				} else {
					gone = append(gone, st)
				}
			}
		}
		op := "delete"
		if preserve {
			op += "-preserve"
		}
		if byName {
			op += "-by-name"
		}
		if !step("policy", op, what) {
			return
		}
		// C. preserved statements that nothing uses can be deleted, and then leave no trace either
		if preserve && r.chance(60) {
			for id, st := range orphans {
				if refused("statement", "delete", stName(st), rp.DeleteStatement(&Statement{Name: stName(st)}, true)) {
					return
				}
				delete(orphans, id)
				gone = append(gone, st)
			}
			if !step("statement", "delete-unused", "preserved statements") {
				return
			}
		}
		// D. the same policy name again, with NEW contents under the old statement names where those are free
		nw := &c10Pol{id: v.id}
		for i, n := 0, 1+r.intn(3); i < n; i++ {
			st := g.newStmt(p)
			if i < len(gone) {
				st.id = gone[i].id
			}
			nw.stmts = append(nw.stmts, st)
		}
		for _, st := range nw.stmts {
			for _, c := range st.conds {
				if c.set != nil {
					if err := rp.AddDefinedSet(c10MkDefinedSet(t, c.set), true); err != nil {
						t.Fatalf("C10 removal: %v", err)
					}
				}
			}
		}
		pd := oc.PolicyDefinition{Name: polName(nw)}
		for _, st := range nw.stmts {
			pd.Statements = append(pd.Statements, c10StmtConfig(st))
		}
		np, err := NewPolicy(pd)
		if err != nil {
			t.Fatalf("C10 removal: %v", err)
		}
		if refused("policy", "re-create", polName(nw)+" with new contents", rp.AddPolicy(np, false)) {
			return
		}
		p.pols = append(p.pols, nw)
		a := p.assigns[r.intn(len(p.assigns))]
		names := []*oc.PolicyDefinition{{Name: polName(nw)}}
		for _, q := range a.pols {
			names = append(names, &oc.PolicyDefinition{Name: polName(q)})
		}
		if refused("assignment", "set", a.id, rp.SetPolicyAssignment(a.id, a.dir, names, ROUTE_TYPE_NONE)) {
			return
		}
		a.pols = append([]*c10Pol{nw}, a.pols...)
		if !step("policy", "re-create", polName(nw)) {
			return
		}
	}
	// E. an assignment deleted as a whole: nothing attached, no default (everything is filtered)
	if r.chance(50) {
		a := p.assigns[r.intn(len(p.assigns))]
		if refused("assignment", "delete-all", a.id, rp.DeletePolicyAssignment(a.id, a.dir, nil, true)) {
			return
		}
		a.pols, a.dflt = nil, 0
		if !step("assignment", "delete-all", a.id+"/"+a.dir.String()) {
			return
		}
		// … and configured again
		pol := p.pols[r.intn(len(p.pols))]
		if refused("assignment", "re-create", a.id, rp.SetPolicyAssignment(a.id, a.dir, []*oc.PolicyDefinition{{Name: polName(pol)}}, ROUTE_TYPE_REJECT)) {
			return
		}
		a.pols, a.dflt = []*c10Pol{pol}, 2
		if !step("assignment", "re-create", a.id) {
			return
		}
	}
	o.stat("removal_scenarios", 1)
}

// the statement still belongs to a policy of the program (it was not released by a removal)
func orphanFree(st *c10Stmt, p *c10Prog) bool {
	for _, pol := range p.pols {
		for _, y := range pol.stmts {
			if y == st {
				return true
			}
		}
	}
	return false
}
