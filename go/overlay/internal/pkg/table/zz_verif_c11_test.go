//go:build verif

package table

// C11 harness: real CreateUpdateMsgFromPaths on generated path lists under generated marshalling
// options. Correspondence: every emitted message, abstracted to (kind, family, attribute-set
// identity, next-hop identity, NLRI list, real serialised size, Serialize ok) and sorted (Go map
// iteration decides the emission order), must equal what the Lean model Pack.pack prints.
// Oracle (no model): the serialised bytes are read by a small independent UPDATE reader, applied
// to a receiver table, and compared with the last-action-per-key fold of the input; every message
// written fits the limit; a message that fails to serialise carries exactly one route whose own
// single-route encoding does not fit; EOR markers are present and last in their family.

import (
	"encoding/binary"
	"encoding/hex"
	"fmt"
	"net/netip"
	"sort"
	"strings"
	"testing"
	"time"

	"github.com/osrg/gobgp/v4/pkg/packet/bgp"
)

var c11Fams = []bgp.Family{bgp.RF_IPv4_UC, bgp.RF_IPv6_UC, bgp.RF_IPv4_VPN, bgp.RF_IPv6_VPN}

func c11FamNo(f bgp.Family) int {
	for i, g := range c11Fams {
		if f == g {
			return i
		}
	}
	return 99
}

type c11AttrSet struct {
	key   int
	attrs []bgp.PathAttributeInterface // everything except MP_REACH_NLRI
	bytes string                       // their serialisation, concatenated
	lenD  int                          // sum of Len() (what the packers add up)
	hasNH bool                         // contains NEXT_HOP
}

type c11NH struct {
	key   int
	addrs []netip.Addr
	len   int // octets Serialize writes for the next-hop field
	clen  int // octets NewPathAttributeMpReachNLRI accounts for
	v4    bool // first next hop is IPv4 (for IPv4 unicast: RFC 4760 MP_REACH with IPv4 next hop, no NEXT_HOP)
}

type c11Pfx struct {
	fam  int
	idx  int
	nlri bgp.NLRI
	bits int
	wire string // hex of the NLRI as serialised (no path id)
}

type c11Item struct {
	eor  bool
	nilp bool
	fam  int
	pfx  *c11Pfx
	id   uint32
	wd   bool
	as   *c11AttrSet
	nh   *c11NH // nil: next hop is the NEXT_HOP attribute
	hash uint64 // forced attrsHash (0: natural)
	path *Path
	mp   *bgp.PathAttributeMpReachNLRI // a received UPDATE's MP_REACH shared by several paths (nil: own)
	grp  int                           // identity of the path's MP_REACH bytes (IPv4 unicast with IPv4 next hop in MP_REACH)
}

// caged: handled by the cages of packerV4 (IPv4 unicast, GetNexthop().Is4())
func (it *c11Item) caged() bool { return it.fam == 0 && !it.eor && !it.wd && !it.nilp && (it.nh == nil || it.nh.v4) }

type c11World struct {
	r       *vRand
	o       *vOut
	attrTab map[string]*c11AttrSet
	nhTab   map[string]*c11NH
	pfxTab  map[string]*c11Pfx
	filler  []byte
	mpTab   map[string]int                            // serialised MP_REACH bytes -> identity
	shared  map[int]*bgp.PathAttributeMpReachNLRI     // per scenario: one "received UPDATE" per next hop
	chain   bool              // the next run continues the receiver table of the previous one
	cView   map[string]string
	cWant   map[string]string
	cSeen   map[string]bool
	mp4     int                                       // % of IPv4 announcements that carry their IPv4 next hop in MP_REACH
	mp4nhs  int                                       // distinct next hops among them (0: 3)
	mp4shr  int                                       // % of them that share a received UPDATE's MP_REACH attribute (0: 50)
}

func newC11World(o *vOut, r *vRand) *c11World {
	w := &c11World{r: r, o: o, attrTab: map[string]*c11AttrSet{}, nhTab: map[string]*c11NH{}, pfxTab: map[string]*c11Pfx{}, mpTab: map[string]int{}, shared: map[int]*bgp.PathAttributeMpReachNLRI{}}
	w.filler = make([]byte, 70000)
	for i := range w.filler {
		w.filler[i] = byte(i*7 + 1)
	}
	return w
}

func c11Hdr(v int) int {
	if v > 255 {
		return 4
	}
	return 3
}

// attrSet builds an attribute set whose Len() sum is exactly target when target is large enough
// (otherwise the smallest set); variant makes sets of equal size differ in content.
func (w *c11World) attrSet(target int, withNH bool, variant int) *c11AttrSet {
	attrs := []bgp.PathAttributeInterface{bgp.NewPathAttributeOrigin(uint8(variant % 3))}
	nAS := 1 + variant%3
	as := make([]uint32, nAS)
	for i := range as {
		as[i] = 65000 + uint32(variant) + uint32(i)
	}
	attrs = append(attrs, bgp.NewPathAttributeAsPath([]bgp.AsPathParamInterface{bgp.NewAs4PathParam(2, as)}))
	if withNH {
		nh, _ := bgp.NewPathAttributeNextHop(netip.AddrFrom4([4]byte{192, 0, 2, byte(1 + variant%200)}))
		attrs = append(attrs, nh)
	}
	cur := 0
	for _, a := range attrs {
		cur += a.Len()
	}
	rem := target - cur
	// LOCAL_PREF (7) when it helps parity
	if rem >= 7 && variant%2 == 0 {
		attrs = append(attrs, bgp.NewPathAttributeLocalPref(uint32(100+variant)))
		rem -= 7
	}
	// communities carry the bulk up to 4 KiB, an unknown optional transitive attribute the rest
	if rem >= 7+3 {
		c := (rem - 3 - 3) / 4 // leave ≥3 for the filler header
		if c > 1015 {
			c = 1015
		}
		if c > 0 {
			l := 4 * c
			if c11Hdr(l)+l+3 <= rem {
				cs := make([]uint32, c)
				for i := range cs {
					cs[i] = uint32(variant)<<16 | uint32(i)
				}
				attrs = append(attrs, bgp.NewPathAttributeCommunities(cs))
				rem -= c11Hdr(l) + l
			}
		}
	}
	if rem >= 3 {
		// value length v with hdr(v)+v == rem ; rem == 259 is impossible (255+3=258, 256+4=260)
		v := rem - 3
		if v > 255 {
			v = rem - 4
			if v <= 255 {
				v = 255 // gives 258; caller sees lenD != target
			}
		}
		val := make([]byte, v)
		copy(val, w.filler[variant%97:])
		attrs = append(attrs, bgp.NewPathAttributeUnknown(bgp.BGP_ATTR_FLAG_OPTIONAL|bgp.BGP_ATTR_FLAG_TRANSITIVE, 240, val))
	}
	return w.regAttrs(attrs, withNH)
}

func (w *c11World) regAttrs(attrs []bgp.PathAttributeInterface, withNH bool) *c11AttrSet {
	var sb []byte
	lenD := 0
	for _, a := range attrs {
		b, _ := a.Serialize()
		sb = append(sb, b...)
		lenD += a.Len()
	}
	k := string(sb)
	if s, ok := w.attrTab[k]; ok {
		return s
	}
	s := &c11AttrSet{key: len(w.attrTab) + 1, attrs: attrs, bytes: k, lenD: lenD, hasNH: withNH}
	w.attrTab[k] = s
	if lenD != len(sb) {
		// the packers budget with Len(); the model's attribute length is this one number
		w.o.fail("attribute-len-differs-from-serialised", map[string]any{"len": lenD, "serialised": len(sb)})
	}
	return s
}

func (w *c11World) nexthop(fam int, variant int, ll bool) *c11NH {
	return w.nexthopK(fam, variant, ll, false)
}

func (w *c11World) nexthopK(fam int, variant int, ll bool, v4 bool) *c11NH {
	var addrs []netip.Addr
	switch {
	case fam == 0 && v4: // IPv4 unicast, IPv4 next hop carried in MP_REACH_NLRI
		addrs = []netip.Addr{netip.AddrFrom4([4]byte{203, 0, 113, byte(1 + variant%200)})}
	case fam == 2: // VPNv4: IPv4 next hop
		addrs = []netip.Addr{netip.AddrFrom4([4]byte{198, 51, 100, byte(1 + variant%200)})}
	default:
		g := netip.MustParseAddr(fmt.Sprintf("2001:db8::%x", 1+variant%4000))
		addrs = []netip.Addr{g}
		if ll {
			addrs = append(addrs, netip.MustParseAddr(fmt.Sprintf("fe80::%x", 1+variant%4000)))
		}
	}
	ks := fmt.Sprint(fam, addrs)
	if h, ok := w.nhTab[ks]; ok {
		return h
	}
	// measure both lengths on the real codec with a one-NLRI MP_REACH
	f := c11Fams[fam]
	p := w.prefix(fam, 24, 1)
	mp, err := bgp.NewPathAttributeMpReachNLRI(f, []bgp.PathNLRI{{NLRI: p.nlri}}, addrs...)
	if err != nil {
		w.o.t.Fatal(err)
	}
	ser, _ := mp.Serialize()
	hd := 3
	if ser[0]&0x10 != 0 {
		hd = 4
	}
	h := &c11NH{key: len(w.nhTab) + 1, addrs: addrs,
		len:  len(ser) - hd - 5 - p.nlri.Len(),
		clen: mp.Len() - c11Hdr(int(mp.Length)) - 5 - p.nlri.Len(), v4: addrs[0].Is4()}
	w.nhTab[ks] = h
	if h.len > h.clen {
		// hypothesis SizesOK of the theorems: the declared length covers what is written
		w.o.fail("mpreach-declared-nexthop-length-short", map[string]any{"family": fam, "nexthops": fmt.Sprint(addrs), "declared": h.clen, "serialised": h.len})
	}
	return h
}

func (w *c11World) prefix(fam int, bits int, seed uint64) *c11Pfx {
	var nlri bgp.NLRI
	var b16 [16]byte
	binary.BigEndian.PutUint64(b16[0:], seed*0x9e3779b97f4a7c15+0x2001)
	binary.BigEndian.PutUint64(b16[8:], seed*0xbf58476d1ce4e5b9)
	var pfx netip.Prefix
	if fam == 0 || fam == 2 {
		if bits > 32 {
			bits = 32
		}
		pfx = netip.PrefixFrom(netip.AddrFrom4([4]byte{b16[0], b16[1], b16[2], b16[3]}), bits).Masked()
	} else {
		pfx = netip.PrefixFrom(netip.AddrFrom16(b16), bits).Masked()
	}
	switch fam {
	case 0, 1:
		n, _ := bgp.NewIPAddrPrefix(pfx)
		nlri = n
	default:
		n, _ := bgp.NewLabeledVPNIPAddrPrefix(pfx, *bgp.NewMPLSLabelStack(uint32(100 + seed%1000)), bgp.NewRouteDistinguisherTwoOctetAS(65000, uint32(100+seed%3)))
		nlri = n
	}
	ser, _ := nlri.Serialize()
	// identity = the family and the key CreateUpdateMsgFromPaths uses (the NLRI string); VPN
	// prefixes that differ only in the label share it, so the label is derived from the string.
	ks := fmt.Sprint(fam, "|", nlri.String())
	if p, ok := w.pfxTab[ks]; ok {
		return p
	}
	p := &c11Pfx{fam: fam, idx: len(w.pfxTab) + 1, nlri: nlri, bits: bits, wire: hex.EncodeToString(ser)}
	w.pfxTab[ks] = p
	return p
}

func (w *c11World) bitsFor(fam int) int {
	r := w.r
	max := 32
	if fam == 1 || fam == 3 {
		max = 128
	}
	switch r.intn(10) {
	case 0:
		return r.intn(max + 1)
	case 1:
		return max
	case 2:
		return r.pick(0, 1, 7, 8, 9, 15, 16, 17)
	default:
		if max == 32 {
			return r.pick(24, 24, 24, 16, 20, 22, 23, 25, 32)
		}
		return r.pick(48, 64, 64, 32, 56, 128, 40)
	}
}

// build the *Path of an item
func (it *c11Item) build() {
	if it.nilp {
		it.path = nil
		return
	}
	f := c11Fams[it.fam]
	if it.eor {
		it.path = NewEOR(f)
		return
	}
	// the path identifier the route was RECEIVED with (Path.remoteID, and the id inside the
	// path's own MP_REACH_NLRI) is not the local identifier sent to ADD-PATH peers
	rid := it.id
	switch it.pfx.idx % 3 {
	case 0:
		rid = 0 // source peer without ADD-PATH
	case 1:
		rid = it.id + 100
	}
	pn := bgp.PathNLRI{NLRI: it.pfx.nlri, ID: rid}
	if it.wd {
		it.path = NewPath(f, nil, pn, true, nil, time.Unix(1, 0), false)
		it.path.localID = it.id
		return
	}
	attrs := append([]bgp.PathAttributeInterface{}, it.as.attrs...)
	if it.nh != nil {
		mp := it.mp
		if mp == nil {
			mp, _ = bgp.NewPathAttributeMpReachNLRI(f, []bgp.PathNLRI{pn}, it.nh.addrs...)
		}
		it.mp = mp
		// keep attributes ordered by type code as a peer would send them
		pos := len(attrs)
		for i, a := range attrs {
			if a.GetType() > bgp.BGP_ATTR_TYPE_MP_REACH_NLRI {
				pos = i
				break
			}
		}
		attrs = append(attrs[:pos], append([]bgp.PathAttributeInterface{mp}, attrs[pos:]...)...)
	}
	it.path = NewPath(f, nil, pn, false, attrs, time.Unix(1, 0), false)
	it.path.localID = it.id
	if it.hash != 0 {
		it.path.SetHash(it.hash)
	}
}

func (it *c11Item) line() string {
	if it.eor {
		return fmt.Sprintf("eor %d", it.fam)
	}
	if it.wd {
		return fmt.Sprintf("path %d %d %d %d 0 0", it.fam, it.pfx.bits, it.pfx.idx, it.id)
	}
	h := uint64(0)
	if it.caged() {
		h = it.path.GetHash()
	}
	if it.nh == nil {
		return fmt.Sprintf("path %d %d %d %d %d 1 %d %d 0 0 0 0 0 0", it.fam, it.pfx.bits, it.pfx.idx, it.id, h, it.as.key, it.as.lenD)
	}
	return fmt.Sprintf("path %d %d %d %d %d 1 %d %d 1 %d %d %d %d %d", it.fam, it.pfx.bits, it.pfx.idx, it.id, h, it.as.key, it.as.lenD, it.nh.key, it.nh.len, it.nh.clen, c11b(it.nh.v4), it.grp)
}

type c11Opts struct {
	ext bool
	ap  []int // model family numbers whose negotiated ADD-PATH mode has the SEND bit
	rx  []int // model family numbers whose negotiated ADD-PATH mode has the RECEIVE bit
}

// negotiated ADD-PATH mode of a family: 0 none, 1 receive, 2 send, 3 both
func (c c11Opts) mode(f int) int {
	m := 0
	for _, g := range c.rx {
		if g == f {
			m |= 1
		}
	}
	for _, g := range c.ap {
		if g == f {
			m |= 2
		}
	}
	return m
}

func (c c11Opts) modesLine() string {
	n, s := 0, ""
	for f := 0; f < 4; f++ {
		if m := c.mode(f); m != 0 {
			n++
			s += fmt.Sprintf(" %d %d", f, m)
		}
	}
	return fmt.Sprintf("%d%s", n, s)
}

func (c c11Opts) enc() *bgp.MarshallingOption {
	m := map[bgp.Family]bgp.BGPAddPathMode{}
	for f := 0; f < 4; f++ {
		if md := c.mode(f); md != 0 {
			m[c11Fams[f]] = bgp.BGPAddPathMode(md)
		}
	}
	return &bgp.MarshallingOption{AddPath: m, ExtendedMessage: c.ext}
}

// the receiving side of the same session: it receives what we send and vice versa
func (c c11Opts) dec() *bgp.MarshallingOption {
	m := map[bgp.Family]bgp.BGPAddPathMode{}
	for f := 0; f < 4; f++ {
		md := bgp.BGP_ADD_PATH_NONE
		if c.mode(f)&2 != 0 {
			md |= bgp.BGP_ADD_PATH_RECEIVE
		}
		if c.mode(f)&1 != 0 {
			md |= bgp.BGP_ADD_PATH_SEND
		}
		if md != 0 {
			m[c11Fams[f]] = md
		}
	}
	return &bgp.MarshallingOption{AddPath: m, ExtendedMessage: c.ext}
}
func (c c11Opts) limit() int {
	if c.ext {
		return bgp.BGP_MAX_EXTENDED_MESSAGE_LENGTH
	}
	return bgp.BGP_MAX_MESSAGE_LENGTH
}
func (c c11Opts) hasAP(f int) bool {
	for _, g := range c.ap {
		if g == f {
			return true
		}
	}
	return false
}

// ---- independent UPDATE reader (does not use the bgp package) ----

type c11Rx struct {
	fam   int
	key   string // hex NLRI [+ "#"+id]
	wd    bool
	route string // attribute bytes | next-hop bytes
}

func c11ReadNLRIs(b []byte, fam int, ap bool) ([]string, bool) {
	var out []string
	for len(b) > 0 {
		id := ""
		if ap {
			if len(b) < 4 {
				return nil, false
			}
			id = fmt.Sprintf("#%d", binary.BigEndian.Uint32(b))
			b = b[4:]
		}
		if len(b) < 1 {
			return nil, false
		}
		n := 1 + (int(b[0])+7)/8
		if len(b) < n {
			return nil, false
		}
		out = append(out, hex.EncodeToString(b[:n])+id)
		b = b[n:]
	}
	return out, true
}

func c11FamOfAfiSafi(afi uint16, safi uint8) int {
	switch {
	case afi == 1 && safi == 1:
		return 0
	case afi == 2 && safi == 1:
		return 1
	case afi == 1 && safi == 128:
		return 2
	case afi == 2 && safi == 128:
		return 3
	}
	return 99
}

// c11ReadUpdate returns the route changes in processing order and, for an End-of-RIB, its family.
func c11ReadUpdate(msg []byte, opt c11Opts) (rx []c11Rx, eor int, ok bool) {
	eor = -1
	if len(msg) < 23 || int(binary.BigEndian.Uint16(msg[16:18])) != len(msg) || msg[18] != 2 {
		return nil, -1, false
	}
	b := msg[19:]
	wl := int(binary.BigEndian.Uint16(b))
	if len(b) < 2+wl+2 {
		return nil, -1, false
	}
	wds, k := c11ReadNLRIs(b[2:2+wl], 0, opt.hasAP(0))
	if !k {
		return nil, -1, false
	}
	b = b[2+wl:]
	al := int(binary.BigEndian.Uint16(b))
	if len(b) < 2+al {
		return nil, -1, false
	}
	ab, nb := b[2:2+al], b[2+al:]
	var plain []byte
	var reachF, unreachF = -1, -1
	var reachN, unreachN []string
	nhs := ""    // next hop field of MP_REACH_NLRI
	nhAttr := "" // value of the NEXT_HOP attribute
	nattr := 0
	for len(ab) > 0 {
		if len(ab) < 3 {
			return nil, -1, false
		}
		hl, vl := 3, int(ab[2])
		if ab[0]&0x10 != 0 {
			if len(ab) < 4 {
				return nil, -1, false
			}
			hl, vl = 4, int(binary.BigEndian.Uint16(ab[2:4]))
		}
		if len(ab) < hl+vl {
			return nil, -1, false
		}
		v := ab[hl : hl+vl]
		nattr++
		switch ab[1] {
		case 14:
			if len(v) < 5 {
				return nil, -1, false
			}
			reachF = c11FamOfAfiSafi(binary.BigEndian.Uint16(v), v[2])
			nl := int(v[3])
			if len(v) < 4+nl+1 {
				return nil, -1, false
			}
			nhs = hex.EncodeToString(v[4 : 4+nl])
			reachN, k = c11ReadNLRIs(v[4+nl+1:], reachF, opt.hasAP(reachF))
			if !k {
				return nil, -1, false
			}
		case 15:
			if len(v) < 3 {
				return nil, -1, false
			}
			unreachF = c11FamOfAfiSafi(binary.BigEndian.Uint16(v), v[2])
			unreachN, k = c11ReadNLRIs(v[3:], unreachF, opt.hasAP(unreachF))
			if !k {
				return nil, -1, false
			}
		case 3:
			nhAttr = hex.EncodeToString(v)
		default:
			plain = append(plain, ab[:hl+vl]...)
		}
		ab = ab[hl+vl:]
	}
	anns, k := c11ReadNLRIs(nb, 0, opt.hasAP(0))
	if !k {
		return nil, -1, false
	}
	for _, x := range wds {
		rx = append(rx, c11Rx{fam: 0, key: x, wd: true})
	}
	for _, x := range unreachN {
		rx = append(rx, c11Rx{fam: unreachF, key: x, wd: true})
	}
	for _, x := range reachN {
		rx = append(rx, c11Rx{fam: reachF, key: x, route: hex.EncodeToString(plain) + "|" + nhs})
	}
	for _, x := range anns {
		rx = append(rx, c11Rx{fam: 0, key: x, route: hex.EncodeToString(plain) + "|" + nhAttr})
	}
	if len(rx) == 0 {
		if nattr == 0 {
			eor = 0
		} else if nattr == 1 && unreachF >= 0 {
			eor = unreachF
		}
	}
	return rx, eor, true
}

// expected receiver-side key and route of an input item, from the item's own path only
func (it *c11Item) rxKey(opt c11Opts) string {
	k := it.pfx.wire
	if opt.hasAP(it.fam) {
		k += fmt.Sprintf("#%d", it.id)
	}
	return fmt.Sprint(it.fam, ":", k)
}

// c11SplitNH walks attribute TLVs and returns them without NEXT_HOP, and the NEXT_HOP value
func c11SplitNH(ab []byte) (plain []byte, nh string) {
	for len(ab) >= 3 {
		hl, vl := 3, int(ab[2])
		if ab[0]&0x10 != 0 {
			hl, vl = 4, int(binary.BigEndian.Uint16(ab[2:4]))
		}
		if ab[1] == 3 {
			nh = hex.EncodeToString(ab[hl : hl+vl])
		} else {
			plain = append(plain, ab[:hl+vl]...)
		}
		ab = ab[hl+vl:]
	}
	return plain, nh
}

// the route the receiver must hold for this item: its own attributes (NEXT_HOP aside) and its own
// next hop address bytes, wherever the path carries them (NEXT_HOP attribute or MP_REACH_NLRI)
func (it *c11Item) rxRoute() string {
	plain, nhs := c11SplitNH([]byte(it.as.bytes))
	if it.nh != nil {
		for _, a := range it.path.GetPathAttrs() {
			if a.GetType() == bgp.BGP_ATTR_TYPE_MP_REACH_NLRI {
				b, _ := a.Serialize()
				hl := 3
				if b[0]&0x10 != 0 {
					hl = 4
				}
				nhs = hex.EncodeToString(b[hl+4 : hl+4+int(b[hl+3])])
			}
		}
	}
	return hex.EncodeToString(plain) + "|" + nhs
}

// single-route encoding of the item with the real codec, independent of the packers
func (it *c11Item) aloneSize(opt c11Opts) int {
	var m *bgp.BGPMessage
	pn := bgp.PathNLRI{NLRI: it.pfx.nlri, ID: it.id}
	if it.fam == 0 && it.nh == nil {
		m = bgp.NewBGPUpdateMessage(nil, it.as.attrs, []bgp.PathNLRI{pn})
	} else if it.caged() {
		nh, _ := bgp.NewPathAttributeNextHop(it.nh.addrs[0])
		m = bgp.NewBGPUpdateMessage(nil, append(append([]bgp.PathAttributeInterface{}, it.as.attrs...), nh), []bgp.PathNLRI{pn})
	} else {
		m = bgp.NewBGPUpdateMessage(nil, it.path.GetPathAttrs(), nil)
	}
	b, _ := m.Body.Serialize(opt.enc())
	return 19 + len(b)
}

// ---- one scenario ----

func (w *c11World) run(name string, opt c11Opts, items []*c11Item) {
	o := w.o
	o.stat("scenario_"+name, 1)
	o.op("reset")
	o.op("opts %d %s", c11b(opt.ext), opt.modesLine())
	for f := 0; f < 4; f++ {
		o.stat(fmt.Sprintf("scenarios_fam%d_addpath_mode%d", f, opt.mode(f)), 1)
	}
	paths := make([]*Path, 0, len(items))
	for _, it := range items {
		it.build()
		paths = append(paths, it.path)
		if it.caged() && it.nh != nil {
			b, _ := it.mp.Serialize()
			g, y := w.mpTab[string(b)]
			if !y {
				g = len(w.mpTab) + 1
				w.mpTab[string(b)] = g
			}
			it.grp = g
			o.stat("paths_v4_nexthop_in_mpreach", 1)
		}
		if !it.nilp {
			o.op("%s", it.line())
		}
	}
	w.shared = map[int]*bgp.PathAttributeMpReachNLRI{}
	enc := opt.enc()
	var msgs []*bgp.BGPMessage
	pan := func() (s string) {
		defer func() {
			if e := recover(); e != nil {
				s = fmt.Sprint(e)
			}
		}()
		msgs = CreateUpdateMsgFromPaths(paths, enc)
		return ""
	}()
	if pan != "" {
		o.stat("panic", 1)
		o.ask("panic", "pack")
		o.fail("packer-panic", map[string]any{"scenario": name, "panic": pan, "input": c11Describe(opt, items)})
		return
	}
	// --- correspondence answer ---
	type em struct {
		str   string
		bytes []byte
		ok    bool
		size  int
	}
	ems := make([]em, 0, len(msgs))
	strs := make([]string, 0, len(msgs))
	for _, m := range msgs {
		u := m.Body.(*bgp.BGPUpdate)
		body, _ := u.Serialize(enc)
		full, err := m.Serialize(enc)
		e := em{bytes: full, ok: err == nil, size: 19 + len(body)}
		e.str = w.msgStr(u, opt, e.size, e.ok)
		if e.ok != (e.size <= opt.limit()) {
			o.fail("serialize-cap-inconsistent", map[string]any{"size": e.size, "ok": e.ok})
		}
		ems = append(ems, e)
		strs = append(strs, e.str)
		o.stat("msgs", 1)
		o.stat("msg_kind_"+strings.SplitN(e.str, " ", 2)[0], 1)
		if strings.Contains(e.str, " n=1 ") {
			o.stat("msgs_single_route", 1)
		}
		if !e.ok {
			o.stat("msgs_oversize", 1)
		} else if e.size >= opt.limit()-8 {
			o.stat("msgs_within8_of_limit", 1)
		}
	}
	sort.Strings(strs)
	ans := strings.Join(strs, " | ")
	o.ask(ans, "pack")
	if len(items) >= 3 && len(items) <= 8 && len(msgs) >= 2 {
		o.sample(fmt.Sprintf("%s %v => %s", name, c11Describe(opt, items), ans[:c11min(len(ans), 300)]))
	}

	// --- oracle ---
	const old = "OLD"
	view := map[string]string{}
	want := map[string]string{}
	last := map[string]*c11Item{}
	eorWant := map[int]bool{}
	if w.chain {
		// a later batch of the same session: the receiver continues from where it was
		for k, v := range w.cView {
			view[k] = v
		}
		for k, v := range w.cWant {
			want[k] = v
		}
	} else {
		w.cSeen = map[string]bool{}
	}
	for _, it := range items {
		if it.nilp {
			continue
		}
		if it.eor {
			eorWant[it.fam] = true
			continue
		}
		k := it.rxKey(opt)
		if !w.cSeen[k] {
			view[k] = old
			want[k] = old
			w.cSeen[k] = true
		}
		last[k] = it
	}
	defer func() { w.cView, w.cWant = view, want }()
	nch := 0
	for _, it := range items {
		if !it.nilp && !it.eor {
			nch++
			if it.hash != 0 {
				o.stat("paths_forced_hash", 1)
			}
			if it.fam == 0 && it.nh != nil && !it.nh.v4 {
				o.stat("paths_v4_with_v6_nexthop", 1)
			}
		}
	}
	o.stat("paths", nch)
	o.stat("paths_superseded_by_later_action", nch-len(last))
	skipped := map[string]bool{}
	for k, it := range last {
		switch {
		case it.wd:
			delete(want, k)
		case it.as.lenD+200 < opt.limit() || it.aloneSize(opt) <= opt.limit():
			want[k] = it.rxRoute()
		default:
			skipped[k] = true // stays OLD, must be reported
			o.stat("routes_too_big", 1)
		}
	}
	detail := func(extra map[string]any) map[string]any {
		extra["scenario"] = name
		extra["input"] = c11Describe(opt, items)
		return extra
	}
	reported := map[string]bool{}
	eorSeen := map[int]int{}
	lastOfFam := map[int]int{}
	for i, e := range ems {
		if !e.ok {
			// what send() logs and skips: must be exactly one route that cannot fit
			u := msgs[i].Body.(*bgp.BGPUpdate)
			ks := w.keysOf(u, opt)
			if len(ks) != 1 || !skipped[ks[0]] {
				o.fail("oversize-message-drops-fitting-routes", detail(map[string]any{"size": e.size, "routes": len(ks), "msg": e.str[:c11min(len(e.str), 200)]}))
			}
			for _, k := range ks {
				reported[k] = true
			}
			continue
		}
		if len(e.bytes) > opt.limit() {
			o.fail("message-exceeds-limit", detail(map[string]any{"size": len(e.bytes)}))
		}
		if _, err := bgp.ParseBGPMessage(e.bytes, opt.dec()); err != nil {
			o.fail("emitted-message-unparseable", detail(map[string]any{"err": err.Error()}))
		}
		rx, eor, ok := c11ReadUpdate(e.bytes, opt)
		if !ok {
			o.fail("emitted-message-unreadable", detail(map[string]any{"msg": e.str[:c11min(len(e.str), 200)]}))
			continue
		}
		if eor >= 0 {
			eorSeen[eor]++
			lastOfFam[eor] = i
			continue
		}
		for _, x := range rx {
			k := fmt.Sprint(x.fam, ":", x.key)
			if x.wd {
				delete(view, k)
			} else {
				view[k] = x.route
			}
			lastOfFam[x.fam] = i
			if _, known := last[k]; !known {
				o.fail("route-not-in-input", detail(map[string]any{"key": k}))
			}
		}
	}
	for k := range skipped {
		if !reported[k] {
			o.fail("oversize-route-not-reported", detail(map[string]any{"key": k}))
		}
	}
	bad := ""
	for k, v := range want {
		if view[k] != v {
			bad = k
			break
		}
	}
	for k := range view {
		if _, y := want[k]; !y {
			bad = k
		}
	}
	if bad != "" {
		got, exp := view[bad], want[bad]
		lw := last[bad] != nil && last[bad].wd
		o.fail("receiver-view-differs", detail(map[string]any{"key": bad, "got": got[:c11min(len(got), 80)], "want": exp[:c11min(len(exp), 80)], "last_action_withdraw": lw,
			"got_nexthop": got[strings.LastIndex(got, "|")+1:], "want_nexthop": exp[strings.LastIndex(exp, "|")+1:]}))
	}
	for f := range eorWant {
		if eorSeen[f] == 0 {
			o.fail("eor-lost", detail(map[string]any{"family": f}))
		}
	}
	for f, n := range eorSeen {
		if !eorWant[f] || n > 1 {
			o.fail("eor-spurious", detail(map[string]any{"family": f, "count": n}))
		}
		if i := lastOfFam[f]; i >= 0 {
			_, e2, _ := c11ReadUpdate(ems[i].bytes, opt)
			if e2 != f {
				o.fail("eor-not-last-of-family", detail(map[string]any{"family": f}))
			}
		}
	}
}

func (w *c11World) famPfxKey(fam int, n bgp.NLRI) int {
	if p, ok := w.pfxTab[fmt.Sprint(fam, "|", n.String())]; ok {
		return p.idx
	}
	return 0
}

func c11Bits(n bgp.NLRI) int {
	switch v := n.(type) {
	case *bgp.IPAddrPrefix:
		return v.Prefix.Bits()
	case *bgp.LabeledVPNIPAddrPrefix:
		return v.Prefix.Bits()
	}
	return -1
}

func (w *c11World) nlriList(fam int, l []bgp.PathNLRI) string {
	var sb strings.Builder
	fmt.Fprintf(&sb, "n=%d ", len(l))
	for i, n := range l {
		if i > 0 {
			sb.WriteByte(',')
		}
		fmt.Fprintf(&sb, "%d/%d/%d", c11Bits(n.NLRI), w.famPfxKey(fam, n.NLRI), n.ID)
	}
	return sb.String()
}

// keysOf lists the receiver keys of the routes an (unsendable) message object carries
func (w *c11World) keysOf(u *bgp.BGPUpdate, opt c11Opts) []string {
	var ks []string
	add := func(fam int, l []bgp.PathNLRI) {
		for _, n := range l {
			b, _ := n.NLRI.Serialize()
			k := hex.EncodeToString(b)
			if opt.hasAP(fam) {
				k += fmt.Sprintf("#%d", n.ID)
			}
			ks = append(ks, fmt.Sprint(fam, ":", k))
		}
	}
	add(0, u.WithdrawnRoutes)
	add(0, u.NLRI)
	for _, a := range u.PathAttributes {
		switch v := a.(type) {
		case *bgp.PathAttributeMpReachNLRI:
			add(c11FamNo(bgp.NewFamily(v.AFI, v.SAFI)), v.Value)
		case *bgp.PathAttributeMpUnreachNLRI:
			add(c11FamNo(bgp.NewFamily(v.AFI, v.SAFI)), v.Value)
		}
	}
	return ks
}

func (w *c11World) msgStr(u *bgp.BGPUpdate, opt c11Opts, size int, ok bool) string {
	tail := fmt.Sprintf(" sz=%d ok=%d", size, c11b(ok))
	if y, f := u.IsEndOfRib(); y {
		return fmt.Sprintf("eor %d", c11FamNo(f)) + tail
	}
	var plain []byte
	var reach *bgp.PathAttributeMpReachNLRI
	var unreach *bgp.PathAttributeMpUnreachNLRI
	for _, a := range u.PathAttributes {
		switch v := a.(type) {
		case *bgp.PathAttributeMpReachNLRI:
			if reach != nil {
				return "weird:two-reach" + tail
			}
			reach = v
		case *bgp.PathAttributeMpUnreachNLRI:
			unreach = v
		default:
			b, _ := a.Serialize()
			plain = append(plain, b...)
		}
	}
	akey := func() int {
		if s, y := w.attrTab[string(plain)]; y {
			return s.key
		}
		return 0
	}
	switch {
	case len(u.WithdrawnRoutes) > 0 && len(u.PathAttributes) == 0 && len(u.NLRI) == 0:
		return "w4 " + w.nlriList(0, u.WithdrawnRoutes) + tail
	case len(u.NLRI) > 0 && len(u.WithdrawnRoutes) == 0 && reach == nil && unreach == nil:
		if s, y := w.attrTab[string(plain)]; y {
			return fmt.Sprintf("a4 %d - ", s.key) + w.nlriList(0, u.NLRI) + tail
		}
		// NEXT_HOP synthesised from an IPv4 next hop carried in MP_REACH_NLRI
		rest, nhx := c11SplitNH(plain)
		ak, nk := 0, "?"
		if s, y := w.attrTab[string(rest)]; y && !s.hasNH {
			ak = s.key
		}
		if b, err := hex.DecodeString(nhx); err == nil && len(b) == 4 {
			if h, y := w.nhTab[fmt.Sprint(0, []netip.Addr{netip.AddrFrom4([4]byte{b[0], b[1], b[2], b[3]})})]; y {
				nk = fmt.Sprint(h.key)
			}
		}
		return fmt.Sprintf("a4 %d %s ", ak, nk) + w.nlriList(0, u.NLRI) + tail
	case unreach != nil && len(u.PathAttributes) == 1 && len(u.NLRI) == 0 && len(u.WithdrawnRoutes) == 0:
		f := c11FamNo(bgp.NewFamily(unreach.AFI, unreach.SAFI))
		return fmt.Sprintf("un %d ", f) + w.nlriList(f, unreach.Value) + tail
	case reach != nil && unreach == nil && len(u.NLRI) == 0 && len(u.WithdrawnRoutes) == 0:
		f := c11FamNo(bgp.NewFamily(reach.AFI, reach.SAFI))
		addrs := []netip.Addr{}
		if reach.Nexthop.IsValid() {
			addrs = append(addrs, reach.Nexthop)
		}
		if reach.LinkLocalNexthop.IsValid() {
			addrs = append(addrs, reach.LinkLocalNexthop)
		}
		nk := "-"
		if h, y := w.nhTab[fmt.Sprint(f, addrs)]; y {
			nk = fmt.Sprint(h.key)
		}
		return fmt.Sprintf("re %d %d %s ", f, akey(), nk) + w.nlriList(f, reach.Value) + tail
	}
	return "weird" + tail
}

func c11b(x bool) int {
	if x {
		return 1
	}
	return 0
}
func c11min(a, b int) int {
	if a < b {
		return a
	}
	return b
}
func c11ints(l []int) string {
	s := ""
	for _, x := range l {
		s += fmt.Sprint(" ", x)
	}
	return s
}

// compact, replayable description of a scenario
func c11Describe(opt c11Opts, items []*c11Item) map[string]any {
	l := []string{}
	for i, it := range items {
		if i >= 40 {
			l = append(l, fmt.Sprintf("… %d more", len(items)-i))
			break
		}
		switch {
		case it.nilp:
			l = append(l, "nil")
		case it.eor:
			l = append(l, fmt.Sprintf("eor fam%d", it.fam))
		case it.wd:
			l = append(l, fmt.Sprintf("wd fam%d %s id%d", it.fam, it.pfx.nlri, it.id))
		default:
			nh := "NEXT_HOP"
			if it.nh != nil {
				nh = fmt.Sprint(it.nh.addrs)
			}
			l = append(l, fmt.Sprintf("ann fam%d %s id%d attrsLen=%d(set%d) nh=%s hash=%d", it.fam, it.pfx.nlri, it.id, it.as.lenD, it.as.key, nh, it.hash))
		}
	}
	return map[string]any{"ext": opt.ext, "addpath_send_fams": opt.ap, "addpath_receive_fams": opt.rx, "paths": l}
}

// ---- generators ----

func (w *c11World) randOpts() c11Opts {
	r := w.r
	o := c11Opts{ext: r.chance(35)}
	// every negotiated VALUE of the mode per family: none, receive-only, send, both
	for f := 0; f < 4; f++ {
		m := r.pick(0, 0, 1, 1, 2, 2, 3)
		if m&2 != 0 {
			o.ap = append(o.ap, f)
		}
		if m&1 != 0 {
			o.rx = append(o.rx, f)
		}
	}
	return o
}

// an announcement item of family fam with the given attribute size (Len() sum of non-MP attrs)
func (w *c11World) ann(fam int, pfx *c11Pfx, id uint32, alen int, variant int, v6nh bool, ll bool) *c11Item {
	it := &c11Item{fam: fam, pfx: pfx, id: id}
	if fam == 0 && !v6nh && w.r.chance(w.mp4) {
		// IPv4 next hop carried in MP_REACH_NLRI (route learnt over an MP session, RFC 4760), no
		// NEXT_HOP attribute. A few next hops per attribute set; half of the routes of a next hop
		// come from one received UPDATE (shared MP_REACH attribute listing several NLRIs).
		it.as = w.attrSet(alen, false, variant)
		nhs, shr := 3, 50
		if w.mp4nhs > 0 {
			nhs = w.mp4nhs
		}
		if w.mp4shr > 0 {
			shr = w.mp4shr
		}
		it.nh = w.nexthopK(0, w.r.intn(nhs), false, true)
		if w.r.chance(shr) {
			mp := w.shared[it.nh.key]
			if mp == nil {
				other := w.prefix(0, 24, 424242)
				mp, _ = bgp.NewPathAttributeMpReachNLRI(bgp.RF_IPv4_UC, []bgp.PathNLRI{{NLRI: pfx.nlri, ID: id}, {NLRI: other.nlri}}, it.nh.addrs...)
				w.shared[it.nh.key] = mp
			}
			it.mp = mp
		}
	} else if fam == 0 && !v6nh {
		it.as = w.attrSet(alen, true, variant)
	} else {
		it.as = w.attrSet(alen, false, variant)
		// next hops vary independently of the attribute set: equal attributes with different
		// next hops (of equal textual length) must not share a message
		it.nh = w.nexthop(fam, variant/2+w.r.intn(2), ll)
	}
	return it
}

// local path ids: several per prefix with ADD-PATH, and also without it (the old and the new
// best path of a prefix have different local ids; only the later one may reach the peer)
func (w *c11World) idFor(opt c11Opts, fam int) uint32 {
	if opt.mode(fam) != 0 || w.r.chance(40) {
		return uint32(1 + w.r.intn(3))
	}
	return 1
}

// small mixed lists: every branch of CreateUpdateMsgFromPaths / add / pack in a few items
func (w *c11World) genSmall() {
	r := w.r
	opt := w.randOpts()
	n := 1 + r.intn(30)
	nfam := 1 + r.intn(4)
	var items []*c11Item
	npfx := 1 + r.intn(8)
	hashMode := r.intn(4) // 0,1 natural; 2 all equal; 3 two values regardless of content
	w.mp4 = r.pick(0, 0, 25, 60)
	defer func() { w.mp4 = 0 }()
	for i := 0; i < n; i++ {
		fam := r.intn(nfam)
		if r.chance(50) {
			fam = 0
		}
		switch {
		case r.chance(6):
			items = append(items, &c11Item{eor: true, fam: fam})
			continue
		case r.chance(2):
			items = append(items, &c11Item{nilp: true})
			continue
		}
		pfx := w.prefix(fam, w.bitsFor(fam), uint64(1+r.intn(npfx)))
		id := w.idFor(opt, fam)
		if r.chance(30) {
			items = append(items, &c11Item{fam: fam, pfx: pfx, id: id, wd: true})
			continue
		}
		variant := r.intn(4)
		alen := r.pick(0, 0, 40, 64, 255+20, 300)
		it := w.ann(fam, pfx, id, alen, variant, r.chance(20), r.chance(30))
		if it.caged() {
			switch hashMode {
			case 2:
				it.hash = 7
			case 3:
				it.hash = uint64(1 + r.intn(2))
			}
		}
		items = append(items, it)
	}
	w.run("small", opt, items)
	// a later batch of the same session: withdraw / replace some of the routes under the same
	// (prefix, local id); the receiver continues from its table
	if r.chance(35) {
		var second []*c11Item
		for _, it := range items {
			if it.nilp || it.eor || !r.chance(50) {
				continue
			}
			if r.chance(60) {
				second = append(second, &c11Item{fam: it.fam, pfx: it.pfx, id: it.id, wd: true})
			} else {
				second = append(second, w.ann(it.fam, it.pfx, it.id, 40, 5+r.intn(2), r.chance(30), false))
			}
		}
		if len(second) > 0 {
			w.chain = true
			w.run("small_followup", opt, second)
			w.chain = false
		}
	}
}

// IPv4 unicast: one attribute set sized so that k NLRIs land within ±8 octets of the limit
func (w *c11World) genV4Boundary() {
	r := w.r
	opt := w.randOpts()
	if !w.o.thorough && r.chance(70) {
		opt.ext = false
	}
	per := 5
	if opt.hasAP(0) {
		per = 9
	}
	k := r.pick(0, 0, 1, 1, 2, 3, 5, 17, 100)
	if r.chance(15) {
		k = r.intn(400)
	}
	alen := opt.limit() - 23 - k*per + r.intn(17) - 8
	// IPv4 next hop in MP_REACH_NLRI: all routes of one received UPDATE (one cage, NEXT_HOP of 7
	// octets synthesised on top of the attributes), or mixed with ordinary routes / several next hops
	switch r.intn(10) {
	case 0, 1:
		w.mp4, w.mp4nhs, w.mp4shr = 100, 1, 100
		alen -= 7
	case 2:
		w.mp4, w.mp4nhs, w.mp4shr = 50, 2, 50
	}
	defer func() { w.mp4, w.mp4nhs, w.mp4shr = 0, 0, 0 }()
	if alen < 30 {
		alen = 30
	}
	n := k + r.intn(2*k+4)
	if r.chance(30) {
		n = 1 + r.intn(3)
	}
	var items []*c11Item
	variant := r.intn(50)
	bitsMode := r.intn(3)
	for i := 0; i < n; i++ {
		bits := w.bitsFor(0)
		if bitsMode == 0 {
			bits = 25 + r.intn(8) // 5-octet NLRIs: the worst case the packer assumes
		}
		pfx := w.prefix(0, bits, uint64(1000+i))
		it := w.ann(0, pfx, w.idFor(opt, 0), alen, variant, false, false)
		items = append(items, it)
	}
	// company that must not be disturbed
	for i := 0; i < r.intn(4); i++ {
		items = append(items, w.ann(0, w.prefix(0, 24, uint64(5000+i)), w.idFor(opt, 0), 40, 60+r.intn(3), r.chance(20), false))
	}
	if r.chance(30) {
		items = append(items, &c11Item{fam: 0, pfx: w.prefix(0, 24, uint64(6000)), id: w.idFor(opt, 0), wd: true})
	}
	if r.chance(20) {
		items = append(items, &c11Item{eor: true, fam: 0})
	}
	c11shuffle(r, items)
	w.run("v4_boundary", opt, items)
}

// MP families (and IPv4 with IPv6 next hop): attribute set sized so that the message with k NLRIs
// lands near the limit, including the MP_REACH 255/256 header step
func (w *c11World) genMPBoundary() {
	r := w.r
	opt := w.randOpts()
	if !w.o.thorough && r.chance(70) {
		opt.ext = false
	}
	fam := r.pick(1, 1, 2, 3, 0)
	ll := fam != 2 && r.chance(40)
	variant := r.intn(50)
	k := r.pick(0, 1, 1, 2, 3, 8, 14, 15, 16, 30)
	bits := w.bitsFor(fam)
	probe := w.prefix(fam, bits, 1)
	per := probe.nlri.Len()
	if opt.hasAP(fam) {
		per += 4
	}
	nh := w.nexthop(fam, variant, ll)
	mpv := 5 + nh.len + k*per
	alen := opt.limit() - 23 - c11Hdr(mpv) - mpv + r.intn(17) - 8
	if alen < 30 {
		alen = 30
	}
	n := k + r.intn(k+3)
	if r.chance(30) || fam == 0 {
		n = 1 + r.intn(3)
	}
	var items []*c11Item
	for i := 0; i < n; i++ {
		b := bits
		if r.chance(30) {
			b = w.bitsFor(fam)
		}
		items = append(items, w.ann(fam, w.prefix(fam, b, uint64(2000+i)), w.idFor(opt, fam), alen, variant, true, ll))
	}
	for i := 0; i < r.intn(4); i++ {
		f2 := r.pick(fam, 0, 1)
		items = append(items, w.ann(f2, w.prefix(f2, w.bitsFor(f2), uint64(5000+i)), w.idFor(opt, f2), 40, 60+r.intn(3), r.chance(20), false))
	}
	if r.chance(30) {
		items = append(items, &c11Item{fam: fam, pfx: w.prefix(fam, bits, uint64(6000)), id: w.idFor(opt, fam), wd: true})
	}
	if r.chance(20) {
		items = append(items, &c11Item{eor: true, fam: fam})
	}
	c11shuffle(r, items)
	w.run("mp_boundary", opt, items)
}

// long lists: chunk boundaries of withdrawals and of small-attribute announcements, repeated keys
func (w *c11World) genLarge(n int) {
	r := w.r
	opt := w.randOpts()
	if opt.ext && r.chance(60) {
		opt.ext = false
	}
	fam := r.pick(0, 0, 1, 2, 3)
	nsets := 1 + r.intn(4)
	var items []*c11Item
	wdPct := r.pick(0, 10, 50, 100)
	rep := r.pick(0, 0, 5, 30)
	w.mp4 = r.pick(0, 0, 10, 40)
	defer func() { w.mp4 = 0 }()
	for i := 0; i < n; i++ {
		seed := uint64(10000 + i)
		if rep > 0 && i > 0 && r.chance(rep) {
			seed = uint64(10000 + r.intn(i))
		}
		bits := 24
		if fam == 1 || fam == 3 {
			bits = 64
		}
		if r.chance(20) {
			bits = w.bitsFor(fam)
		}
		pfx := w.prefix(fam, bits, seed)
		id := w.idFor(opt, fam)
		if r.chance(wdPct) {
			items = append(items, &c11Item{fam: fam, pfx: pfx, id: id, wd: true})
		} else {
			v := r.intn(nsets)
			items = append(items, w.ann(fam, pfx, id, r.pick(0, 60, 300), v, fam == 0 && r.chance(2), v%2 == 1))
		}
	}
	if r.chance(50) {
		items = append(items, &c11Item{eor: true, fam: fam})
	}
	w.run("large", opt, items)
}

// exact chunk-count boundaries of the IPv4 withdrawal and announcement loops
func (w *c11World) genV4Counts() {
	r := w.r
	opt := w.randOpts()
	opt.ext = false
	per := 5
	if opt.hasAP(0) {
		per = 9
	}
	wd := r.chance(50)
	alen := 0
	if !wd {
		alen = r.pick(30, 64, 1000)
	}
	var as *c11AttrSet
	if !wd {
		as = w.attrSet(alen, true, 3)
		alen = as.lenD
	}
	max := (4096 - 23 - alen) / per
	n := max*r.pick(1, 1, 2) + r.pick(-1, 0, 1)
	var items []*c11Item
	for i := 0; i < n; i++ {
		pfx := w.prefix(0, r.pick(32, 32, 24, 8), uint64(20000+i))
		if wd {
			items = append(items, &c11Item{fam: 0, pfx: pfx, id: 1, wd: true})
		} else {
			items = append(items, &c11Item{fam: 0, pfx: pfx, id: 1, as: as})
		}
	}
	w.run("v4_counts", opt, items)
}

func c11shuffle(r *vRand, l []*c11Item) {
	for i := len(l) - 1; i > 0; i-- {
		j := r.intn(i + 1)
		l[i], l[j] = l[j], l[i]
	}
}

// corpus: deterministic cases kept from earlier disagreements (run first)
func (w *c11World) corpus() {
	// (1) DESIGN §7 item 4: attribute set of 4078+ octets on a 4096-octet session — the unrepaired
	// packerV4.pack computed maxNLRIs = -1 and panicked in make(); 4069..4077 gave 0 and lost
	// the routes silently. One ordinary route rides along and must arrive.
	for _, alen := range []int{4068, 4069, 4070, 4073, 4077, 4078, 4090, 4500} {
		for _, bits := range []int{8, 16, 24, 32} {
			big := w.ann(0, w.prefix(0, bits, 77), 1, alen, 1, false, false)
			other := w.ann(0, w.prefix(0, 24, 78), 1, 40, 2, false, false)
			w.run("corpus_v4_oversize", c11Opts{}, []*c11Item{big, other})
		}
	}
	// (1b) one prefix announced twice with different local path ids and attributes (old best,
	// new best), ADD-PATH off and on; then announce / withdraw / announce of one key
	for _, ap := range [][]int{nil, {0, 1}} {
		for _, fam := range []int{0, 1} {
			p := w.prefix(fam, 24, 90)
			a1 := w.ann(fam, p, 1, 40, 1, fam != 0, false)
			a2 := w.ann(fam, p, 2, 44, 2, fam != 0, false)
			w.run("corpus_two_ids", c11Opts{ap: ap}, []*c11Item{a1, a2})
			w.run("corpus_two_ids", c11Opts{ap: ap}, []*c11Item{a2, a1})
			wd := &c11Item{fam: fam, pfx: p, id: 1, wd: true}
			a3 := w.ann(fam, p, 1, 48, 3, fam != 0, false)
			w.run("corpus_ann_wd_ann", c11Opts{ap: ap}, []*c11Item{a1, wd, a3, {eor: true, fam: fam}})
			w.run("corpus_ann_wd_ann", c11Opts{ap: ap}, []*c11Item{a1, a3, wd})
		}
	}
	// (2) the same through packerMP and the RFC 5549 path
	for _, fam := range []int{1, 2, 0} {
		for _, alen := range []int{4040, 4050, 4060, 4070, 4100} {
			big := w.ann(fam, w.prefix(fam, 24, 77), 1, alen, 1, true, false)
			other := w.ann(fam, w.prefix(fam, 24, 78), 1, 40, 2, true, false)
			w.run("corpus_mp_oversize", c11Opts{}, []*c11Item{big, other})
		}
	}
}

// (3) VPNv6 with global + link-local next hop: NewPathAttributeMpReachNLRI declared 8 octets
// less than Serialize wrote, packerMP overfilled the UPDATE and the whole message was lost at
// serialisation. Sweep the attribute size so that some full message sits on the limit.
func (w *c11World) corpusVpnLL() {
	for alen := 17; alen <= 25; alen++ {
		var items []*c11Item
		for i := 0; i < 420; i++ {
			items = append(items, w.ann(3, w.prefix(3, 64, uint64(30000+i)), 1, alen, 4, true, true))
		}
		w.run("corpus_vpnv6_linklocal", c11Opts{}, items)
	}
}

// (4) IPv4 unicast routes whose IPv4 next hop is carried in MP_REACH_NLRI (no NEXT_HOP attribute):
// identical other attributes, different next hops, each from its own UPDATE or two from one UPDATE;
// mixed with an ordinary NEXT_HOP route and an RFC 5549 route. Every prefix must arrive with its
// own next hop (packerV4.pack synthesises NEXT_HOP from the first path of the cage only).
func (w *c11World) corpusMp4() {
	for _, ap := range [][]int{nil, {0}} {
		for _, alen := range []int{30, 300} {
			as := w.attrSet(alen, false, 1)
			mk := func(seed uint64, nhv int, mp *bgp.PathAttributeMpReachNLRI) *c11Item {
				return &c11Item{fam: 0, pfx: w.prefix(0, 24, seed), id: 1, as: as, nh: w.nexthopK(0, nhv, false, true), mp: mp}
			}
			a1, a2, a3, a4 := mk(301, 0, nil), mk(302, 1, nil), mk(303, 0, nil), mk(304, 2, nil)
			nh0 := w.nexthopK(0, 0, false, true)
			shared, _ := bgp.NewPathAttributeMpReachNLRI(bgp.RF_IPv4_UC, []bgp.PathNLRI{{NLRI: w.prefix(0, 24, 305).nlri, ID: 1}, {NLRI: w.prefix(0, 24, 306).nlri, ID: 1}}, nh0.addrs...)
			a5, a6 := mk(305, 0, shared), mk(306, 0, shared)
			plain := w.ann(0, w.prefix(0, 24, 307), 1, alen, 1, false, false)
			v6 := w.ann(0, w.prefix(0, 24, 308), 1, alen, 1, true, false)
			w.run("corpus_v4_nexthop_in_mpreach", c11Opts{ap: ap}, []*c11Item{a1, a2, a3, a4, a5, a6, plain, v6})
			w.run("corpus_v4_nexthop_in_mpreach", c11Opts{ap: ap}, []*c11Item{a2, a1})
		}
	}
}

// (5) product of the packer's feature dimensions: {ADD-PATH mode none / receive / send / both} x
// {next hop in NEXT_HOP / IPv4 in MP_REACH / IPv6 in MP_REACH (RFC 8950)} for IPv4 unicast and the
// MP families, two paths per prefix (local ids 1 and 2, received ids different from the local
// ones), announced in one batch and withdrawn (with the local ids) in the next batch of the same
// session; and both in ONE batch (announce id 1, then withdraw / replace under id 2): with the id
// on the wire these are two routes, without it the later action wins.
func (w *c11World) corpusProduct() {
	for mode := 0; mode < 4; mode++ {
		for fam := 0; fam < 4; fam++ {
			for nhk := 0; nhk < 3; nhk++ {
				if fam != 0 && nhk != 2 {
					continue
				}
				opt := c11Opts{}
				if mode&2 != 0 {
					opt.ap = []int{fam}
				}
				if mode&1 != 0 {
					opt.rx = []int{fam}
				}
				w.mp4 = 0
				if nhk == 1 {
					w.mp4 = 100
				}
				mk := func(seed uint64, id uint32, variant int) *c11Item {
					return w.ann(fam, w.prefix(fam, 24, seed), id, 40, variant, nhk == 2, false)
				}
				wd := func(seed uint64, id uint32) *c11Item {
					return &c11Item{fam: fam, pfx: w.prefix(fam, 24, seed), id: id, wd: true}
				}
				a1, a2, b1, b2 := mk(401, 1, 1), mk(401, 2, 2), mk(402, 1, 1), mk(403, 2, 1)
				w.run("corpus_product_announce", opt, []*c11Item{a1, a2, b1, b2})
				w.chain = true
				w.run("corpus_product_withdraw", opt, []*c11Item{wd(401, 1), wd(402, 1)})
				w.run("corpus_product_withdraw", opt, []*c11Item{wd(401, 2), wd(403, 2)})
				w.chain = false
				w.run("corpus_product_one_batch", opt, []*c11Item{mk(404, 1, 1), wd(404, 2), mk(405, 1, 1), mk(405, 2, 2), wd(406, 1), mk(406, 2, 1)})
				w.mp4 = 0
			}
		}
	}
}

func TestVerifC11(t *testing.T) {
	o := vOpen(t)
	defer o.close()
	r := &vRand{s: o.seed*7919 + 11}
	w := newC11World(o, r)
	w.corpus()
	w.corpusVpnLL()
	w.corpusMp4()
	w.corpusProduct()
	mul := 1
	if o.thorough {
		mul = 6
	}
	for i := 0; i < 6000*mul; i++ {
		w.genSmall()
	}
	for i := 0; i < 2000*mul; i++ {
		w.genV4Boundary()
	}
	for i := 0; i < 2000*mul; i++ {
		w.genMPBoundary()
	}
	for i := 0; i < 24*mul; i++ {
		w.genV4Counts()
	}
	for i := 0; i < 10*mul; i++ {
		w.genLarge(500 + r.intn(2500))
	}
	if o.thorough {
		for i := 0; i < 3; i++ {
			w.genLarge(30000)
		}
	}
	for k, n := range map[string]int{"attr_sets": len(w.attrTab), "prefixes": len(w.pfxTab), "nexthops": len(w.nhTab)} {
		o.stat(k, n)
	}
}
