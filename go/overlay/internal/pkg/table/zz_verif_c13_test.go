//go:build verif

package table

// C13 harness: compiled community matchers vs their regular expressions.
//
// Three correspondence streams against the Lean model (lean/Model/Regex.lean, CommMatch.lean):
//   rx   Go regexp.MatchString vs the model's regex semantics (validates what the theorem is stated against)
//   cm/xm  the compiled matcher's mode and fields vs the model's compile
//   ev/xev/lev/sev/xsev  Condition.Evaluate on routes vs the model's evaluate (incl. after edits)
// and a model-independent oracle: the compiled condition must decide what Go's regexp decides on the
// canonical text of each community under any/all/invert (o.fail on disagreement).

import (
	"encoding/hex"
	"fmt"
	"net/netip"
	"regexp"
	"sort"
	"strconv"
	"strings"
	"testing"
	"time"

	"github.com/osrg/gobgp/v4/pkg/config/oc"
	"github.com/osrg/gobgp/v4/pkg/packet/bgp"
)

func c13Hex(s string) string {
	if s == "" {
		return "-"
	}
	return hex.EncodeToString([]byte(s))
}

// ---------------------------------------------------------------------------------------------
// mirror of the Lean lexer's fragment decision: "ok" | "err" | "nofrag" (no tokens needed)
// ---------------------------------------------------------------------------------------------

func c13Lex(p string) string {
	const (
		mNormal = iota
		mEsc
		mParen
		mParenQ
		mQuant
		mBrace1
		mBrace2
		mCls0
		mCls
		mClsEsc
	)
	isDigit := func(c byte) bool { return c >= '0' && c <= '9' }
	isAlnum := func(c byte) bool { return isDigit(c) || (c >= 'A' && c <= 'Z') || (c >= 'a' && c <= 'z') }
	isPrint := func(c byte) bool { return c >= 32 && c <= 126 }
	isPunct := func(c byte) bool { return isPrint(c) && !isAlnum(c) }
	mode := mNormal
	num := -1 // the repeat count being read (-1 = none yet)
	accEmpty, pendSome, dash := true, false, false
	var pend byte
	push := func(c byte) bool { // false = nofrag (leading zero)
		if num == -1 {
			num = int(c - '0')
			return true
		}
		if num == 0 {
			return false
		}
		if num < 100000000 {
			num = num*10 + int(c-'0')
		}
		return true
	}
	stepNormal := func(c byte) string {
		switch {
		case c == '\\':
			mode = mEsc
		case c == '(':
			mode = mParen
		case c == ')', c == '|', c == '.', c == '^', c == '$':
			mode = mNormal
		case c == '*', c == '+', c == '?':
			mode = mQuant
		case c == '{':
			mode, num = mBrace1, -1
		case c == '[':
			mode = mCls0
		case c == ']', c == '}':
			return "nofrag"
		case isPrint(c):
			mode = mNormal
		default:
			return "nofrag"
		}
		return ""
	}
	clsChar := func(c byte) string {
		if dash {
			if !pendSome {
				return "nofrag"
			}
			if pend <= c {
				accEmpty, pendSome, dash = false, false, false
				mode = mCls
				return ""
			}
			return "err"
		}
		if pendSome {
			accEmpty = false
		}
		pend, pendSome, dash = c, true, false
		mode = mCls
		return ""
	}
	stepCls := func(c byte) string {
		switch {
		case c == ']':
			if dash {
				return "nofrag"
			}
			if accEmpty && !pendSome {
				return "nofrag"
			}
			mode = mNormal
		case c == '\\':
			mode = mClsEsc
		case c == '-':
			if pendSome && !dash {
				dash = true
				mode = mCls
			} else {
				return "nofrag"
			}
		case c == '[', c == '^':
			return "nofrag"
		case isPrint(c):
			return clsChar(c)
		default:
			return "nofrag"
		}
		return ""
	}
	for i := 0; i < len(p); i++ {
		c := p[i]
		res := ""
		switch mode {
		case mNormal:
			res = stepNormal(c)
		case mEsc:
			switch {
			case strings.IndexByte("dDwWsS", c) >= 0, isPunct(c):
				mode = mNormal
			default:
				res = "nofrag"
			}
		case mParen:
			if c == '?' {
				mode = mParenQ
			} else {
				res = stepNormal(c)
			}
		case mParenQ:
			if c == ':' {
				mode = mNormal
			} else {
				res = "nofrag"
			}
		case mQuant:
			if c == '?' {
				mode = mNormal
			} else {
				res = stepNormal(c)
			}
		case mBrace1:
			switch {
			case isDigit(c):
				if !push(c) {
					res = "nofrag"
				}
			case c == ',':
				if num >= 0 {
					mode, num = mBrace2, -1
				} else {
					res = "nofrag"
				}
			case c == '}':
				if num >= 0 {
					mode = mQuant
				} else {
					res = "nofrag"
				}
			default:
				res = "nofrag"
			}
		case mBrace2:
			switch {
			case isDigit(c):
				if !push(c) {
					res = "nofrag"
				}
			case c == '}':
				mode = mQuant
			default:
				res = "nofrag"
			}
		case mCls0:
			accEmpty, pendSome, dash = true, false, false
			if c == '^' {
				mode = mCls
			} else {
				res = stepCls(c)
			}
		case mCls:
			res = stepCls(c)
		case mClsEsc:
			switch {
			case c == 'd', c == 'w', c == 's':
				if dash {
					res = "nofrag"
				} else {
					accEmpty, pendSome, dash = false, false, false
					mode = mCls
				}
			case isPunct(c):
				res = clsChar(c)
			default:
				res = "nofrag"
			}
		}
		if res != "" {
			return res
		}
	}
	switch mode {
	case mNormal, mParen, mQuant:
		return "ok"
	case mBrace1, mBrace2:
		return "nofrag"
	}
	return "err"
}

// ---------------------------------------------------------------------------------------------
// generators
// ---------------------------------------------------------------------------------------------

type c13G struct {
	r       *vRand
	o       *vOut
	subHint int // extended-community sub-type the next generated EC should mostly carry (0 = none)
}

func (g *c13G) pickS(xs ...string) string { return xs[g.r.intn(len(xs))] }

var c13ASPool = []uint32{0, 1, 10, 100, 200, 1005, 6500, 65000, 65001, 65100, 65535}
var c13LocPool = []uint32{0, 1, 5, 7, 10, 55, 100, 200, 300, 666, 1000, 9999, 12345, 65535}

func (g *c13G) as() uint32 {
	if g.r.chance(80) {
		return c13ASPool[g.r.intn(len(c13ASPool))]
	}
	return uint32(g.r.intn(65536))
}

func (g *c13G) loc() uint32 {
	if g.r.chance(80) {
		return c13LocPool[g.r.intn(len(c13LocPool))]
	}
	return uint32(g.r.intn(65536))
}

// a decimal literal, sometimes non-canonical or out of range
func (g *c13G) num(v uint32, wide bool) string {
	s := strconv.FormatUint(uint64(v), 10)
	switch k := g.r.intn(100); {
	case k < 6:
		return "0" + s
	case k < 8:
		return "00" + s
	case k < 11:
		return g.pickS("65536", "70000", "99999", "4294967295", "4294967296", "123456789012")
	case k < 12 && wide:
		return g.pickS("65536", "100000", "4294967295")
	}
	return s
}

func (g *c13G) localSet() string {
	n := 1 + g.r.intn(4)
	toks := make([]string, n)
	for i := range toks {
		toks[i] = g.num(g.loc(), false)
		if g.r.chance(4) {
			toks[i] = " " + toks[i] + " "
		}
		if g.r.chance(2) {
			toks[i] = ""
		}
	}
	if n > 1 && g.r.chance(5) {
		toks[1] = toks[0]
	}
	s := "(" + strings.Join(toks, "|") + ")"
	switch k := g.r.intn(100); {
	case k < 3:
		return "(" + s + ")"
	case k < 6:
		return "(?:" + strings.Join(toks, "|") + ")"
	case k < 8:
		return " " + s + " "
	case k < 10:
		return s + "|" + g.num(g.loc(), false)
	}
	return s
}

// a random regexp of the modelled fragment over a community-like alphabet (mostly valid)
func (g *c13G) rxAtom(depth int) string {
	switch k := g.r.intn(100); {
	case k < 40:
		return string("0123456789"[g.r.intn(10)])
	case k < 48:
		return ":"
	case k < 53:
		return "."
	case k < 60:
		return `\d`
	case k < 63:
		return g.pickS(`\D`, `\w`, `\W`, `\s`, `\S`, `\.`, `\:`, `\$`, `\^`, `\|`, `\\`, `\-`, `\ `)
	case k < 71:
		return g.pickS("[0-9]", "[1-3]", "[05]", "[^0]", "[^0-5:]", `[\d]`, `[\d:]`, "[5-9a]", `[0\-9]`, `[1-35-7]`, "[:.]", `[^\d]`, `[\w.]`)
	case k < 73:
		return g.pickS("a", " ", "x", "-", ",", "_", "A")
	case k < 88 && depth > 0:
		n := 1 + g.r.intn(3)
		alts := make([]string, n)
		for i := range alts {
			alts[i] = g.rxConcat(depth-1, 1+g.r.intn(3))
			if g.r.chance(5) {
				alts[i] = ""
			}
		}
		if g.r.chance(30) {
			return "(?:" + strings.Join(alts, "|") + ")"
		}
		return "(" + strings.Join(alts, "|") + ")"
	case k < 92:
		return g.pickS("^", "$")
	default:
		return string("0123456789"[g.r.intn(10)])
	}
}

func (g *c13G) rxQuant() string {
	q := g.pickS("*", "+", "?", "*", "+", "{2}", "{1,3}", "{0,1}", "{2,}", "{0}", "{1,5}", "{0,}", "{3,3}")
	if g.r.chance(10) {
		q += "?"
	}
	return q
}

func (g *c13G) rxConcat(depth, n int) string {
	var sb strings.Builder
	for i := 0; i < n; i++ {
		sb.WriteString(g.rxAtom(depth))
		if g.r.chance(22) {
			sb.WriteString(g.rxQuant())
		}
	}
	return sb.String()
}

func (g *c13G) rx() string {
	s := g.rxConcat(2, 1+g.r.intn(5))
	if g.r.chance(20) {
		s += "|" + g.rxConcat(1, 1+g.r.intn(3))
	}
	if g.r.chance(45) {
		s = "^" + s
	}
	if g.r.chance(45) {
		s += "$"
	}
	// syntax errors and fragment edges
	switch k := g.r.intn(100); {
	case k < 2:
		s += g.pickS("**", "+*", "?+", "{2}{3}", "*{2}", "*??")
	case k < 3:
		s = g.pickS("*", "+", "?", "{2}") + s
	case k < 4:
		s += g.pickS("(", ")", "(?:", "(?")
	case k < 5:
		s += g.pickS("a{1001}", "a{1000}", "a{3,2}", "a{1001,}", "a{2,1001}", "a{01}", "a{1,02}", "a{,2}", "a{", "a{1", "a{x}", "a{1,", "(|*)", "(*)", "^*", "$+")
	case k < 6:
		s += g.pickS("[9-0]", "[a", "[]", "[^]", "[a-]", "[-a]", "[a-b-c]", `[\d-z]`, `[a-\d]`, "[[:digit:]]", "[a^]", `\`, "]", "}", `[\D]`)
	case k < 7:
		s = g.pickS("(?i)", "(?s)", "(?m)", "(?U)") + s
	case k < 8:
		s += g.pickS(`\b`, `\A`, `\z`, `\Q.\E`, `\pN`, `\x31`, `\1`, `(?P<n>1)`, "\t", "é")
	}
	return s
}

// a configured standard-community string: recognised shapes and their near misses
func (g *c13G) stdPattern() (string, string) {
	a, l := g.as(), g.loc()
	A, L := g.num(a, false), g.num(l, false)
	switch k := g.r.intn(100); {
	case k < 12: // exact
		switch g.r.intn(8) {
		case 0:
			return "exact", A + ":" + L
		case 1:
			return "exact", "^" + A + ":" + L + "$"
		case 2:
			return "exact", strconv.FormatUint(uint64(a)<<16|uint64(l), 10)
		case 3:
			return "exact", g.pickS("no-export", "NO_EXPORT", "no_advertise", "blackhole", "internet", "llgr-stale", "No-Peer", "no-export-subconfed", "planned-shut", "accept-own", "noexport")
		case 4:
			return "exact-near", "^" + A + ":" + L + ":" + g.num(g.loc(), false) + "$"
		case 5:
			return "exact-near", g.pickS("^"+A+":"+L, A+":"+L+"$", "^"+A+":$", "^:"+L+"$", "^"+A+L+"$", "^"+A+"::"+L+"$", A+"x"+A+":"+L, "^ "+A+":"+L+"$", "^"+A+": "+L+"$", "^+"+A+":"+L+"$")
		case 6:
			return "exact", A + ":" + L
		default:
			return "exact", "^" + A + ":" + L + "$"
		}
	case k < 30: // fixed-AS wildcard
		suf := g.pickS(`\d+`, `[0-9]+`, `.*`, `\d+`, `.*`, `[0-9]+`, `\d+`, `.*`, `\d*`, `.+`, `[0-9]*`, `\d{1,5}`, `(\d+)`, `\d+\d*`, `.*.*`)
		end := g.pickS("$", "$", "", "$", "", `\$`, "$$")
		switch g.r.intn(10) {
		case 0:
			return "aswild-near", "^" + A + ":" + L + ":" + suf + end
		case 1:
			return "aswild-near", "^" + A + ":(" + L + "|" + g.num(g.loc(), false) + "):" + suf + end
		case 2:
			return "aswild-near", "^" + A + `:\:` + suf + end
		case 3:
			return "aswild-near", "^" + A + ":" + g.pickS("?", "*", "+", "{0}", "{1}", "{0,1}", "??") + suf + end
		case 4:
			return "aswild-near", g.pickS("", "^^", "(^", "^(") + A + ":" + suf + end
		case 5:
			return "aswild-near", "^" + A + ":" + suf + end + "|" + "^" + g.num(g.as(), false) + ":" + L + "$"
		default:
			return "aswild", "^" + A + ":" + suf + end
		}
	case k < 55: // fixed-AS bitmap (scan)
		var rhs string
		switch g.r.intn(9) {
		case 0:
			rhs = g.localSet()
		case 1:
			rhs = L + g.pickS(".", `\d`, "[0-5]", `\d?`, ".?", `\d*`, "0*", "{2}")
		case 2:
			rhs = g.pickS("[1-3]", `\d`, "(1|2)", "1?") + L
		case 3:
			rhs = L
		case 4:
			rhs = g.rxConcat(1, 1+g.r.intn(3))
		case 5:
			rhs = L + "|" + g.num(g.loc(), false)
		case 6:
			rhs = g.pickS("?", "*", "+", "{0}", "{0,1}", "{1}", "{2}", "*?") + L
		case 7:
			rhs = "(" + L + "|" + g.num(g.loc(), false) + ")" + g.pickS("", "?", "0", `\d`)
		default:
			rhs = g.localSet()
		}
		end := g.pickS("$", "$", "$", "")
		switch g.r.intn(12) {
		case 0:
			return "asbitmap-near", "^" + A + ":" + rhs + end + "|^" + g.num(g.as(), false) + ":" + g.num(g.loc(), false) + "$"
		case 1:
			return "asbitmap-near", "^(" + A + ":" + rhs + "|" + g.num(g.as(), false) + ":" + L + ")" + end
		case 2:
			return "asbitmap-near", "^(?:" + A + ":" + rhs + "|" + g.num(g.as(), false) + ":" + L + ")" + end
		case 3:
			return "asbitmap-near", "^" + A + g.pickS("?", "*", "+", "{1}", "{2}") + ":" + rhs + end
		default:
			return "asbitmap", "^" + A + ":" + rhs + end
		}
	case k < 72: // wildcard-AS bitmap
		w := g.pickS(`\d+`, `[0-9]+`, `\d*`, `[0-9]*`, `\d+`, `[0-9]+`, `.*`, `.+`, `\d{1,5}`, `(\d+)`, `[0-9]{1,5}`, `\d+\d*`)
		var rhs string
		if g.r.chance(70) {
			rhs = g.localSet()
		} else {
			rhs = L
			if g.r.chance(8) {
				rhs = " " + L
			}
		}
		switch g.r.intn(10) {
		case 0:
			return "localset-near", "^" + w + ":" + rhs
		case 1:
			return "localset-near", w + ":" + rhs + "$"
		case 2:
			return "localset-near", "^" + w + ":" + rhs + ":" + L + "$"
		case 3:
			return "localset-near", "^" + w + "::" + rhs + "$"
		default:
			return "localset", "^" + w + ":" + rhs + "$"
		}
	case k < 92: // generic regexps
		switch g.r.intn(6) {
		case 0:
			return "generic", A + ":"
		case 1:
			return "generic", ":" + L + "$"
		case 2:
			return "generic", "^" + g.pickS("6", "65", "1", "10") + g.pickS(".*", `\d*`, "...", `\d+`) + ":" + g.pickS(L, `\d+`, ".*", "1..")
		default:
			return "generic", g.rx()
		}
	default: // outside the modelled fragment (oracle only) and miscellany
		return "outside", g.pickS(
			"(?i)^"+A+":"+L+"$", "^"+A+`:\b`+L+"$", "^[[:digit:]]+:"+L+"$", `^(?P<as>\d+):`+L+"$", `\A`+A+":"+L+`\z`,
			"^"+A+":"+L+"{,2}$", "^"+A+`:\Q`+L+`\E$`, "^"+A+`:(?i)`+L+"$", "^"+A+":"+L+"}$", `^\x31:`+L+"$",
			"^"+A+":(?i:"+L+")$", `^\d+:(?:`+L+")$", "^"+A+":[[:digit:]]+$", `^\pN+:`+L+"$", "^"+A+`:\d+\z`)
	}
}

// numbers mentioned by a pattern (mod 2^16), to aim the community values at it
func c13Numbers(p string) []uint32 {
	var out []uint32
	cur, have := uint64(0), false
	for i := 0; i <= len(p); i++ {
		if i < len(p) && p[i] >= '0' && p[i] <= '9' {
			if cur < 1<<40 {
				cur = cur*10 + uint64(p[i]-'0')
			}
			have = true
			continue
		}
		if have {
			out = append(out, uint32(cur&0xffff), uint32(cur>>16&0xffff))
		}
		cur, have = 0, false
	}
	return out
}

func (g *c13G) community(hints []uint32) uint32 {
	// hints come in (low 16 bits, high bits) pairs per number of the pattern, in textual order:
	// aim straight at "first number : some later number"
	if len(hints) >= 4 && g.r.chance(45) {
		a := hints[0]
		l := hints[2*(1+g.r.intn(len(hints)/2-1))]
		switch g.r.intn(10) {
		case 0:
			l = (l + 1) & 0xffff
		case 1:
			a = (a + 1) & 0xffff
		case 2:
			a = (a*10 + l%10) & 0xffff
		case 3:
			l = (l*10 + uint32(g.r.intn(10))) & 0xffff
		}
		return a<<16 | l
	}
	if len(hints) >= 2 && g.r.chance(20) {
		return uint32(g.as())<<16 | hints[2*g.r.intn(len(hints)/2)]
	}
	if len(hints) >= 2 && g.r.chance(30) {
		// the first number as AS, any local (patterns such as ^100:.*$)
		return hints[0]<<16 | g.loc()
	}
	part := func() uint32 {
		switch k := g.r.intn(100); {
		case k < 55 && len(hints) > 0:
			v := hints[g.r.intn(len(hints))]
			switch g.r.intn(8) {
			case 0:
				return (v + 1) & 0xffff
			case 1:
				return (v - 1) & 0xffff
			case 2:
				return (v*10 + uint32(g.r.intn(10))) & 0xffff
			}
			return v
		case k < 70:
			return uint32(g.r.pick(0, 1, 65535, 65534, 10, 100, 1005, 1000))
		case k < 85:
			return c13LocPool[g.r.intn(len(c13LocPool))]
		}
		return uint32(g.r.intn(65536))
	}
	return part()<<16 | part()
}

func c13Text(c uint32) string { return fmt.Sprintf("%d:%d", c>>16, c&0xffff) }

// ---------------------------------------------------------------------------------------------
// implementation access
// ---------------------------------------------------------------------------------------------

func c13Path(comms []uint32, ecs []bgp.ExtendedCommunityInterface, lcs []*bgp.LargeCommunity) *Path {
	nlri, _ := bgp.NewIPAddrPrefix(netip.MustParsePrefix("10.0.0.0/24"))
	nh, _ := bgp.NewPathAttributeNextHop(netip.MustParseAddr("10.0.0.1"))
	attrs := []bgp.PathAttributeInterface{bgp.NewPathAttributeOrigin(0), nh}
	if comms != nil {
		attrs = append(attrs, bgp.NewPathAttributeCommunities(comms))
	}
	if ecs != nil {
		attrs = append(attrs, bgp.NewPathAttributeExtendedCommunities(ecs))
	}
	if lcs != nil {
		attrs = append(attrs, bgp.NewPathAttributeLargeCommunities(lcs))
	}
	return NewPath(bgp.RF_IPv4_UC, nil, bgp.PathNLRI{NLRI: nlri}, false, attrs, time.Unix(1, 0), false)
}

func c13NewSet(pats []string) (s *CommunitySet, err error) {
	defer func() {
		if e := recover(); e != nil {
			s, err = nil, fmt.Errorf("panic: %v", e)
		}
	}()
	return NewCommunitySet(oc.CommunitySet{CommunitySetName: "s", CommunityList: pats})
}

func c13NewXSet(pats []string) (s *ExtCommunitySet, err error) {
	defer func() {
		if e := recover(); e != nil {
			s, err = nil, fmt.Errorf("panic: %v", e)
		}
	}()
	return NewExtCommunitySet(oc.ExtCommunitySet{ExtCommunitySetName: "s", ExtCommunityList: pats})
}

var c13Opts = []MatchOption{MATCH_OPTION_ANY, MATCH_OPTION_ALL, MATCH_OPTION_INVERT}

// the reference of the property: the pattern loop over the regular expressions themselves
func c13Ref(opt int, n int, hit func(i int) bool) bool {
	result := false
	for i := 0; i < n; i++ {
		result = hit(i)
		if opt == 1 && !result {
			break
		}
		if opt != 1 && result {
			break
		}
	}
	if opt == 2 {
		result = !result
	}
	return result
}

func c13B(b bool) string {
	if b {
		return "1"
	}
	return "0"
}

func c13Bits(bm *localAdminBitmap, probes []uint32) string {
	if bm == nil {
		return "-"
	}
	if len(probes) == 0 {
		return "e"
	}
	var sb strings.Builder
	for _, l := range probes {
		sb.WriteString(c13B(bm.isSet(uint16(l))))
	}
	return sb.String()
}

func c13List(xs []uint32) string {
	var sb strings.Builder
	fmt.Fprintf(&sb, "%d", len(xs))
	for _, x := range xs {
		fmt.Fprintf(&sb, " %d", x)
	}
	return sb.String()
}

func c13HexList(xs []string) string {
	var sb strings.Builder
	fmt.Fprintf(&sb, "%d", len(xs))
	for _, x := range xs {
		sb.WriteString(" " + c13Hex(x))
	}
	return sb.String()
}

// status of a configured standard pattern with respect to the fragment: the regexp source that
// ParseCommunityRegexp compiles is classified by the mirrored lexer
func c13StdSource(raw string) (src string, compiled bool) {
	re, err := ParseCommunityRegexp(raw)
	if err != nil {
		return "", false
	}
	return re.String(), true
}

// the source string ParseCommunityRegexp WOULD compile, even when compilation fails (needed to
// decide the fragment status of a failing pattern): recomputed from the three documented rules
func c13PrepSource(raw string) string {
	if v, err := strconv.ParseUint(raw, 10, 32); err == nil {
		return fmt.Sprintf("^%d:%d$", v>>16, v&0xffff)
	}
	if _regexpCommunity2.MatchString(raw) {
		return "^" + raw + "$"
	}
	for i, v := range bgp.WellKnownCommunityNameMap {
		if strings.ReplaceAll(strings.ToLower(raw), "_", "-") == v {
			return fmt.Sprintf("^%d:%d$", uint32(i)>>16, uint32(i)&0xffff)
		}
	}
	return raw
}

func c13AllASCII(s string) bool {
	for i := 0; i < len(s); i++ {
		if s[i] >= 128 {
			return false
		}
	}
	return true
}

// fragment status of a list of configured standard patterns: "ok" (all in fragment and compile),
// "err" (all in fragment, one does not compile), "nofrag"
func c13ListStatus(raws []string, prepSrc func(string) string) string {
	st := "ok"
	for _, raw := range raws {
		if !c13AllASCII(raw) {
			return "nofrag"
		}
		src := prepSrc(raw)
		switch c13Lex(src) {
		case "nofrag":
			return "nofrag"
		case "err":
			st = "err"
		default:
			if _, err := regexp.Compile(src); err != nil {
				st = "err"
			}
		}
	}
	return st
}

// ---------------------------------------------------------------------------------------------
// standard communities
// ---------------------------------------------------------------------------------------------

type c13H struct {
	o *vOut
	g *c13G
}

// oracle for one compiled set against communities: per matcher and per Evaluate
func (h *c13H) oracleStd(raws []string, s *CommunitySet, comms []uint32) {
	for i, m := range s.matchers {
		for _, c := range comms {
			got := m.matchesCommunity(c, s.list)
			want := s.list[i].MatchString(c13Text(c))
			if got != want {
				h.o.fail(fmt.Sprintf("std-matcher-differs-from-regexp:mode%d", m.mode),
					map[string]any{"configured": raws, "regexp": s.list[i].String(), "community": c13Text(c), "matcher": got, "regexp_says": want})
				return
			}
		}
	}
	p := c13Path(comms, nil, nil)
	for opt := range c13Opts {
		got := (&CommunityCondition{set: s, option: c13Opts[opt]}).Evaluate(p, nil)
		want := c13Ref(opt, len(s.list), func(i int) bool {
			for _, c := range comms {
				if s.list[i].MatchString(c13Text(c)) {
					return true
				}
			}
			return false
		})
		if got != want {
			h.o.fail(fmt.Sprintf("std-evaluate-differs-from-regexp:opt%d", opt),
				map[string]any{"configured": raws, "communities": comms, "evaluate": got, "regexp_says": want})
			return
		}
	}
}

// full sweep of the 65536 local values for the ASes a pattern mentions and their neighbours
func (h *c13H) sweepStd(raw string, s *CommunitySet) {
	m := s.matchers[0]
	re := s.list[0]
	ases := map[uint32]bool{0: true, 65535: true}
	for _, n := range c13Numbers(raw) {
		ases[n] = true
		ases[(n+1)&0xffff] = true
		ases[(n*10+5)&0xffff] = true
	}
	keys := make([]uint32, 0, len(ases))
	for a := range ases {
		keys = append(keys, a)
	}
	sort.Slice(keys, func(i, j int) bool { return keys[i] < keys[j] })
	if len(keys) > 8 {
		keys = keys[:8]
	}
	var buf [32]byte
	for _, a := range keys {
		pfx := strconv.AppendUint(buf[:0], uint64(a), 10)
		pfx = append(pfx, ':')
		n := len(pfx)
		for l := uint32(0); l < 65536; l++ {
			c := a<<16 | l
			b := strconv.AppendUint(pfx[:n], uint64(l), 10)
			if m.matchesCommunity(c, s.list) != re.Match(b) {
				h.o.fail(fmt.Sprintf("std-matcher-differs-from-regexp:mode%d", m.mode),
					map[string]any{"configured": []string{raw}, "regexp": re.String(), "community": string(b), "matcher": !re.Match(b), "regexp_says": re.Match(b), "found_by": "sweep"})
				return
			}
		}
		h.o.stat("std_sweep_values", 65536)
	}
}

func (h *c13H) stdComms(raws []string, n int) []uint32 {
	comms := make([]uint32, n)
	for i := range comms {
		var hints []uint32
		if len(raws) > 0 {
			hints = c13Numbers(c13PrepSource(raws[h.g.r.intn(len(raws))]))
		}
		comms[i] = h.g.community(hints)
	}
	return comms
}

func (h *c13H) probes(raw string) []uint32 {
	ps := []uint32{0, 1, 65535}
	nums := c13Numbers(c13PrepSource(raw))
	for i := 0; i < len(nums) && len(ps) < 12; i++ {
		ps = append(ps, nums[i])
	}
	for len(ps) < 14 {
		ps = append(ps, uint32(h.g.r.intn(65536)))
	}
	return ps
}

// one configured pattern: cm ask (mode/fields), matcher oracle, optional sweep
func (h *c13H) stdOne(kind, raw string, sweep bool) {
	o := h.o
	st := c13ListStatus([]string{raw}, c13PrepSource)
	s, err := c13NewSet([]string{raw})
	if err != nil && strings.HasPrefix(err.Error(), "panic") {
		o.fail("std-compile-panics", map[string]any{"configured": raw, "error": err.Error()})
		return
	}
	o.stat("std_kind_"+kind, 1)
	probes := h.probes(raw)
	if st != "nofrag" {
		if err != nil {
			o.ask("err", "cm %s %s", c13Hex(raw), c13List(probes))
		} else {
			m := s.matchers[0]
			o.ask(fmt.Sprintf("%s %d %d %d %d %s", c13Hex(s.list[0].String()), m.mode, m.listIndex, m.asn, m.exact, c13Bits(m.bitmap, probes)),
				"cm %s %s", c13Hex(raw), c13List(probes))
		}
	} else {
		o.stat("std_outside_fragment", 1)
	}
	if err != nil {
		o.stat("std_compile_error", 1)
		return
	}
	o.stat(fmt.Sprintf("std_mode_%d", s.matchers[0].mode), 1)
	o.sample(fmt.Sprintf("std %q -> %q mode %d", raw, s.list[0].String(), s.matchers[0].mode))
	comms := h.stdComms([]string{raw}, 12)
	h.oracleStd([]string{raw}, s, comms)
	if st != "nofrag" {
		// single-community evaluate asks (stream iii) and regexp semantics asks (stream i)
		for _, c := range comms[:6] {
			txt := c13Text(c)
			o.ask(c13B(s.list[0].MatchString(txt)), "rx %s %s", c13Hex(s.list[0].String()), c13Hex(txt))
		}
		opt := h.g.r.intn(3)
		cs := comms[:h.g.r.intn(4)]
		got := (&CommunityCondition{set: s, option: c13Opts[opt]}).Evaluate(c13Path(cs, nil, nil), nil)
		o.ask(c13B(got), "ev %d 1 %s %s", opt, c13Hex(raw), c13List(cs))
	}
	if sweep {
		h.sweepStd(raw, s)
	}
}

// a list of patterns, routes with several communities, all options
func (h *c13H) stdLists() {
	o, g := h.o, h.g
	n := 1 + g.r.intn(4)
	if g.r.chance(3) {
		n = 0
	}
	raws := make([]string, n)
	for i := range raws {
		_, raws[i] = g.stdPattern()
		if g.r.chance(60) { // bias toward index-only lists (no regexp mode)
			a, l := g.as(), g.loc()
			raws[i] = g.pickS(fmt.Sprintf("%d:%d", a, l), fmt.Sprintf("^%d:.*$", a), fmt.Sprintf(`^\d+:(%d|%d)$`, l, g.loc()+1),
				fmt.Sprintf("^%d:(%d|%d)$", a, l, g.loc()+2), fmt.Sprintf(`^%d:%d\d$`, a, l%100), fmt.Sprintf(`^[0-9]+:%d$`, l))
		}
	}
	st := c13ListStatus(raws, c13PrepSource)
	s, err := c13NewSet(raws)
	if n == 0 {
		// NewCommunitySet with an empty list is legal
		if err != nil || s == nil {
			return
		}
	}
	if err != nil {
		if st != "nofrag" {
			o.ask("err", "ev 0 %s 0", c13HexList(raws))
		}
		return
	}
	o.stat("std_lists", 1)
	hasRe := false
	for _, m := range s.matchers {
		if m.mode == communityMatchRegexp {
			hasRe = true
		}
	}
	if hasRe {
		o.stat("std_list_with_regexp_mode", 1)
	} else {
		o.stat("std_list_index_only", 1)
	}
	for k := 0; k < 4; k++ {
		comms := h.stdComms(raws, g.r.intn(5))
		h.oracleStd(raws, s, comms)
		if st != "nofrag" {
			for opt := range c13Opts {
				got := (&CommunityCondition{set: s, option: c13Opts[opt]}).Evaluate(c13Path(comms, nil, nil), nil)
				o.ask(c13B(got), "ev %d %s %s", opt, c13HexList(raws), c13List(comms))
				o.stat(fmt.Sprintf("std_ev_opt%d_%s", opt, c13B(got)), 1)
			}
		}
	}
}

// ---------------------------------------------------------------------------------------------
// regexp semantics stream (i)
// ---------------------------------------------------------------------------------------------

func (g *c13G) text(hints []uint32) string {
	switch k := g.r.intn(100); {
	case k < 45:
		return c13Text(g.community(hints))
	case k < 55:
		c := g.community(hints)
		return g.pickS(fmt.Sprintf("%d:%d:%d", c>>16, c&0xffff, g.loc()), fmt.Sprintf("%d.%d:%d", c>>16, g.loc(), c&0xffff),
			fmt.Sprintf("1.2.3.4:%d", c&0xffff), fmt.Sprintf("%d", c), fmt.Sprintf("%d:", c>>16), fmt.Sprintf(":%d", c&0xffff), fmt.Sprintf("%d::%d", c>>16, c&0xffff))
	case k < 58:
		return g.pickS("", ":", "a", " ", "\n", "100:5\n", "\n100:5", "0", "^", "$", ".", "|", `\`, "-")
	default:
		n := g.r.intn(8)
		b := make([]byte, n)
		for i := range b {
			const alpha = "0123456789015::.a x-_A$^|\\"
			b[i] = alpha[g.r.intn(len(alpha))]
		}
		return string(b)
	}
}

func (h *c13H) rxStream() {
	o, g := h.o, h.g
	p := g.rx()
	if g.r.chance(25) {
		_, raw := g.stdPattern()
		p = c13PrepSource(raw)
	}
	if !c13AllASCII(p) {
		o.ask("nofrag", "rx %s %s", c13Hex(p), "-")
		o.stat("rx_nofrag", 1)
		return
	}
	st := c13Lex(p)
	if st == "nofrag" {
		o.ask("nofrag", "rx %s %s", c13Hex(p), "-")
		o.stat("rx_nofrag", 1)
		return
	}
	re, err := regexp.Compile(p)
	if err != nil {
		o.ask("err", "rx %s %s", c13Hex(p), "-")
		o.stat("rx_err", 1)
		return
	}
	if st == "err" {
		// the mirrored lexer says Go must reject this pattern
		o.ask("compiled-by-go", "rx %s %s", c13Hex(p), "-")
		return
	}
	hints := c13Numbers(p)
	for k := 0; k < 5; k++ {
		t := g.text(hints)
		got := re.MatchString(t)
		o.ask(c13B(got), "rx %s %s", c13Hex(p), c13Hex(t))
		o.stat("rx_match_"+c13B(got), 1)
	}
}

// ---------------------------------------------------------------------------------------------
// extended communities
// ---------------------------------------------------------------------------------------------

func (g *c13G) extPattern() (string, string) {
	pfx := g.pickS("rt:", "rt:", "rt:", "rt:", "rt:", "soo:", "soo:", "RT:", "encap:", "lb:", "Soo:")
	if g.r.chance(2) {
		pfx = g.pickS("xx:", "", "rt", "4:")
	}
	a, l := g.as(), g.loc()
	wide := func() string {
		if g.r.chance(25) {
			return g.pickS("65536", "100000", "4294967295", "4294967296", "70000", "1000000")
		}
		return g.num(l, true)
	}
	A, L := g.num(a, false), wide()
	switch k := g.r.intn(100); {
	case k < 22:
		return "exact", pfx + g.pickS(A+":"+L, "^"+A+":"+L+"$", A+":"+L, strconv.FormatUint(uint64(l), 10), "^"+A+":"+L+":1$", "^"+A+":"+L)
	case k < 40:
		suf := g.pickS(`\d+`, `[0-9]+`, `.*`, `\d*`, `.+`, `\d+`, `.*`)
		end := g.pickS("$", "$", "", `\$`)
		if g.r.chance(25) {
			return "asonly-near", pfx + "^" + A + ":" + g.pickS(L+":", `\:`, "?", "*", "(5|6):", "{0}") + suf + end
		}
		return "asonly", pfx + "^" + A + ":" + suf + end
	case k < 62:
		rhs := g.localSet()
		if g.r.chance(15) {
			rhs = L + g.pickS(`\d`, ".", "", "?")
		}
		end := g.pickS("$", "$", "$", "")
		if g.r.chance(20) {
			return "asbitmap-near", pfx + g.pickS("^"+A+":"+rhs+end+"|^"+g.num(g.as(), false)+":"+L+"$", "^("+A+":"+rhs+")"+end, "^"+A+":?"+rhs+end, "^"+A+"+:"+rhs+end, "^"+A+":"+rhs+":"+rhs+end)
		}
		return "asbitmap", pfx + "^" + A + ":" + rhs + end
	case k < 82:
		w := g.pickS(`\d+`, `[0-9]+`, `\d*`, `[0-9]*`, `.*`, `.+`, `\d{1,5}`)
		rhs := g.localSet()
		if g.r.chance(30) {
			rhs = L
		}
		if g.r.chance(20) {
			return "localset-near", pfx + g.pickS("^"+w+":"+rhs, w+":"+rhs+"$", "^"+w+":"+rhs+":"+L+"$")
		}
		return "localset", pfx + "^" + w + ":" + rhs + "$"
	case k < 95:
		return "generic", pfx + g.pickS(g.rx(), `^\d+\.\d+:\d+$`, `^1\.2:3$`, "^1.2.3.4:"+L+"$", `^\d+\.\d+\.\d+\.\d+:`+L+"$", "^"+A+`[.:]`, `^\d+$`, "^"+A, ":"+L+"$", `^0\.`+A+":"+L+"$")
	default:
		return "outside", pfx + g.pickS("(?i)^"+A+":"+L+"$", `^[[:digit:]]+:`+L+"$", "^"+A+`:\b`+L+"$")
	}
}

func c13PrepExtSource(raw string) (string, bool) {
	elems := strings.SplitN(raw, ":", 2)
	if len(elems) < 2 {
		return "", false
	}
	switch strings.ToLower(elems[0]) {
	case "rt", "soo", "encap", "lb":
		return c13PrepSource(elems[1]), true
	}
	return "", false
}

func c13XListStatus(raws []string) string {
	st := "ok"
	for _, raw := range raws {
		if !c13AllASCII(raw) {
			return "nofrag"
		}
		src, ok := c13PrepExtSource(raw)
		if !ok {
			st = "err"
			continue
		}
		switch c13Lex(src) {
		case "nofrag":
			return "nofrag"
		case "err":
			st = "err"
		default:
			if _, err := regexp.Compile(src); err != nil {
				st = "err"
			}
		}
	}
	return st
}

func (g *c13G) ec(hints []uint32) bgp.ExtendedCommunityInterface {
	sub := bgp.ExtendedCommunityAttrSubType(g.r.pick(2, 2, 2, 2, 2, 3, 3, 3, 4, 12, 5))
	if g.subHint != 0 && g.r.chance(75) {
		sub = bgp.ExtendedCommunityAttrSubType(g.subHint)
	}
	cc := g.community(hints)
	a := uint16(cc >> 16)
	var la uint32
	switch k := g.r.intn(100); {
	case k < 55:
		la = cc & 0xffff
	case k < 63:
		la = cc&0xffff | uint32(1+g.r.intn(3))<<16 // same low 16 bits as a hit, but above 65535
	case k < 70:
		la = uint32(g.r.pick(65535, 65536, 65537, 100000, 70000, 1000000))
	case k < 80:
		la = 0xffffffff - uint32(g.r.intn(2))
	case k < 90 && len(hints) > 1:
		la = hints[g.r.intn(len(hints))] | hints[g.r.intn(len(hints))]<<16
	default:
		la = g.r.u32()
	}
	trans := !g.r.chance(8)
	switch k := g.r.intn(100); {
	case k < 72:
		return bgp.NewTwoOctetAsSpecificExtended(sub, a, la, trans)
	case k < 76:
		as4 := uint32(a)
		if g.r.chance(50) {
			as4 = uint32(a)<<16 | uint32(g.loc())
		}
		return bgp.NewFourOctetAsSpecificExtended(sub, as4, uint16(la), trans)
	case k < 84:
		ip := netip.AddrFrom4([4]byte{byte(a >> 8), byte(a), byte(g.r.intn(4)), byte(g.r.intn(256))})
		e, _ := bgp.NewIPv4AddressSpecificExtended(sub, ip, uint16(la), trans)
		return e
	case k < 90:
		v := []byte{byte(sub), 0, 0, 0, byte(la >> 16), byte(la >> 8), byte(la)}
		return bgp.NewOpaqueExtended(trans, v)
	case k < 93:
		return bgp.NewColorExtended(la)
	case k < 96:
		return bgp.NewEncapExtended(bgp.TunnelType(g.r.pick(1, 2, 7, 8, 11)))
	case k < 98:
		return bgp.NewRedirectTwoOctetAsSpecificExtended(a, la)
	default:
		return bgp.NewUnknownExtended(bgp.ExtendedCommunityAttrType(g.r.pick(0x04, 0x05, 0x80, 0x90)), []byte{byte(sub), 0, 0, byte(a >> 8), byte(a), byte(la >> 8), byte(la)})
	}
}

func c13ECLine(x bgp.ExtendedCommunityInterface) string {
	_, sub := x.GetTypes()
	tr := c13B(isTransitiveType(x))
	if e, ok := x.(*bgp.TwoOctetAsSpecificExtended); ok {
		return fmt.Sprintf("0 %d %s %d %d -", sub, tr, e.AS, e.LocalAdmin)
	}
	return fmt.Sprintf("1 %d %s 0 0 %s", sub, tr, c13Hex(x.String()))
}

func c13ECList(es []bgp.ExtendedCommunityInterface) string {
	var sb strings.Builder
	fmt.Fprintf(&sb, "%d", len(es))
	for _, x := range es {
		sb.WriteString(" " + c13ECLine(x))
	}
	return sb.String()
}

func (h *c13H) oracleExt(raws []string, s *ExtCommunitySet, es []bgp.ExtendedCommunityInterface) {
	for i, m := range s.matchers {
		for _, x := range es {
			var str string
			got := m.matchesExtCommunity(x, &str)
			want := subTypeEqual(x, s.subtypeList[i]) && s.list[i].MatchString(x.String())
			if got != want {
				h.o.fail(fmt.Sprintf("ext-matcher-differs-from-regexp:mode%d", m.mode),
					map[string]any{"configured": raws, "regexp": s.list[i].String(), "community": fmt.Sprintf("%T %s", x, x.String()), "matcher": got, "regexp_says": want})
				return
			}
			if _, isTwo := x.(*bgp.TwoOctetAsSpecificExtended); !isTwo && isTransitiveType(x) {
				// the assumption the theorems make about every other kind (ECWF): its text never starts with digits (possibly none) and a colon
				t := x.String()
				j := 0
				for j < len(t) && t[j] >= '0' && t[j] <= '9' {
					j++
				}
				if j < len(t) && t[j] == ':' {
					h.o.fail("ext-other-kind-renders-like-two-octet", map[string]any{"community": fmt.Sprintf("%T %s", x, t)})
				}
			}
		}
	}
	p := c13Path(nil, es, nil)
	for opt := range c13Opts {
		got := (&ExtCommunityCondition{set: s, option: c13Opts[opt]}).Evaluate(p, nil)
		want := c13Ref(opt, len(s.list), func(i int) bool {
			for _, x := range es {
				if isTransitiveType(x) && subTypeEqual(x, s.subtypeList[i]) && s.list[i].MatchString(x.String()) {
					return true
				}
			}
			return false
		})
		if got != want {
			var txt []string
			for _, x := range es {
				txt = append(txt, fmt.Sprintf("%T %s", x, x.String()))
			}
			h.o.fail(fmt.Sprintf("ext-evaluate-differs-from-regexp:opt%d", opt),
				map[string]any{"configured": raws, "communities": txt, "evaluate": got, "regexp_says": want})
			return
		}
	}
}

func (h *c13H) extECs(raws []string, n int) []bgp.ExtendedCommunityInterface {
	es := make([]bgp.ExtendedCommunityInterface, n)
	for i := range es {
		var hints []uint32
		h.g.subHint = 0
		if len(raws) > 0 {
			raw := raws[h.g.r.intn(len(raws))]
			hints = c13Numbers(raw)
			switch strings.ToLower(strings.SplitN(raw, ":", 2)[0]) {
			case "rt":
				h.g.subHint = 2
			case "soo":
				h.g.subHint = 3
			case "lb":
				h.g.subHint = 4
			case "encap":
				h.g.subHint = 12
			}
		}
		es[i] = h.g.ec(hints)
	}
	h.g.subHint = 0
	return es
}

func (h *c13H) extOne(kind, raw string) {
	o := h.o
	st := c13XListStatus([]string{raw})
	s, err := c13NewXSet([]string{raw})
	if err != nil && strings.HasPrefix(err.Error(), "panic") {
		o.fail("ext-compile-panics", map[string]any{"configured": raw, "error": err.Error()})
		return
	}
	o.stat("ext_kind_"+kind, 1)
	probes := h.probes(raw)
	if st != "nofrag" {
		if err != nil {
			o.ask("err", "xm %s %s", c13Hex(raw), c13List(probes))
		} else {
			m := s.matchers[0]
			o.ask(fmt.Sprintf("%d %s %d %d %d %s", m.subtype, c13Hex(s.list[0].String()), m.mode, m.exactAS, m.exactLocalAdmin, c13Bits(m.bitmap, probes)),
				"xm %s %s", c13Hex(raw), c13List(probes))
		}
	} else {
		o.stat("ext_outside_fragment", 1)
	}
	if err != nil {
		o.stat("ext_compile_error", 1)
		return
	}
	o.stat(fmt.Sprintf("ext_mode_%d", s.matchers[0].mode), 1)
	o.sample(fmt.Sprintf("ext %q -> %q mode %d", raw, s.list[0].String(), s.matchers[0].mode))
	es := h.extECs([]string{raw}, 12)
	h.oracleExt([]string{raw}, s, es)
	if st != "nofrag" {
		for _, x := range es[:4] {
			o.ask(c13B(s.list[0].MatchString(x.String())), "rx %s %s", c13Hex(s.list[0].String()), c13Hex(x.String()))
		}
		opt := h.g.r.intn(3)
		xs := es[:h.g.r.intn(4)]
		got := (&ExtCommunityCondition{set: s, option: c13Opts[opt]}).Evaluate(c13Path(nil, xs, nil), nil)
		o.ask(c13B(got), "xev %d 1 %s %s", opt, c13Hex(raw), c13ECList(xs))
	}
}

func (h *c13H) extLists() {
	o, g := h.o, h.g
	n := 1 + g.r.intn(4)
	if g.r.chance(3) {
		n = 0 // NewExtCommunitySet with an empty list is legal
	}
	raws := make([]string, n)
	for i := range raws {
		_, raws[i] = g.extPattern()
		if g.r.chance(60) {
			a, l := g.as(), g.loc()
			raws[i] = g.pickS("rt:", "rt:", "soo:") + g.pickS(fmt.Sprintf("%d:%d", a, l), fmt.Sprintf("^%d:.*$", a), fmt.Sprintf(`^\d+:(%d|%d)$`, l, g.loc()+1),
				fmt.Sprintf("^%d:(%d|%d)$", a, l, g.loc()+2), fmt.Sprintf("%d:%d", a, 65536+l), fmt.Sprintf(`^[0-9]+:%d$`, l))
		}
	}
	st := c13XListStatus(raws)
	s, err := c13NewXSet(raws)
	if err != nil {
		if st != "nofrag" {
			o.ask("err", "xev 0 %s 0", c13HexList(raws))
		}
		return
	}
	o.stat("ext_lists", 1)
	if s.needSlowScan {
		o.stat("ext_list_slow_scan", 1)
	} else {
		o.stat("ext_list_index_only", 1)
	}
	for k := 0; k < 4; k++ {
		es := h.extECs(raws, g.r.intn(5))
		h.oracleExt(raws, s, es)
		if st != "nofrag" {
			for opt := range c13Opts {
				got := (&ExtCommunityCondition{set: s, option: c13Opts[opt]}).Evaluate(c13Path(nil, es, nil), nil)
				o.ask(c13B(got), "xev %d %s %s", opt, c13HexList(raws), c13ECList(es))
				o.stat(fmt.Sprintf("ext_ev_opt%d_%s", opt, c13B(got)), 1)
			}
		}
	}
}

// ---------------------------------------------------------------------------------------------
// large communities
// ---------------------------------------------------------------------------------------------

func (h *c13H) large() {
	o, g := h.o, h.g
	n := 1 + g.r.intn(3)
	if g.r.chance(3) {
		n = 0 // NewLargeCommunitySet with an empty list is legal
	}
	raws := make([]string, n)
	for i := range raws {
		a, b, c := g.as(), g.loc(), g.loc()
		raws[i] = g.pickS(fmt.Sprintf("%d:%d:%d", a, b, c), fmt.Sprintf("^%d:%d:.*$", a, b), fmt.Sprintf(`^%d:\d+:%d$`, a, c), fmt.Sprintf("%d:%d", a, b),
			fmt.Sprintf(`^\d+:(%d|%d):\d+$`, b, c), fmt.Sprintf("0%d:%d:%d", a, b, c), fmt.Sprintf("%d:.*", a), g.rx())
	}
	st := "ok"
	for _, raw := range raws {
		src := raw
		if _regexpCommunityLarge.MatchString(raw) {
			src = "^" + raw + "$"
		}
		if !c13AllASCII(src) || c13Lex(src) == "nofrag" {
			st = "nofrag"
			break
		}
		if _, err := regexp.Compile(src); err != nil {
			st = "err"
		}
	}
	s, err := NewLargeCommunitySet(oc.LargeCommunitySet{LargeCommunitySetName: "s", LargeCommunityList: raws})
	if err != nil {
		if st != "nofrag" {
			o.ask("err", "lev 0 %s 0", c13HexList(raws))
		}
		return
	}
	var hints []uint32
	for _, r := range raws {
		hints = append(hints, c13Numbers(r)...)
	}
	for k := 0; k < 3; k++ {
		m := g.r.intn(4)
		lcs := make([]*bgp.LargeCommunity, m)
		nums := make([]uint32, 0, 3*m)
		for i := range lcs {
			v := func() uint32 {
				if g.r.chance(10) {
					return g.r.u32()
				}
				return g.community(hints) & 0xffff
			}
			a, b, c := v(), v(), v()
			lcs[i] = bgp.NewLargeCommunity(a, b, c)
			nums = append(nums, a, b, c)
		}
		p := c13Path(nil, nil, lcs)
		for opt := range c13Opts {
			got := (&LargeCommunityCondition{set: s, option: c13Opts[opt]}).Evaluate(p, nil)
			want := c13Ref(opt, len(s.list), func(i int) bool {
				for _, lc := range lcs {
					if s.list[i].MatchString(lc.String()) {
						return true
					}
				}
				return false
			})
			if got != want {
				o.fail(fmt.Sprintf("large-evaluate-differs-from-regexp:opt%d", opt), map[string]any{"configured": raws, "communities": nums})
			}
			if st != "nofrag" {
				o.ask(c13B(got), "lev %d %s %s", opt, c13HexList(raws), c13List(nums))
			}
		}
		o.stat("large_evals", 3)
	}
}

// ---------------------------------------------------------------------------------------------
// corpus: the near-miss promotions seen on the unchanged tree (fixed on branch wt-C13)
// ---------------------------------------------------------------------------------------------

var c13Corpus = []struct {
	raw   string
	comms []uint32
}{
	{"0100:200", []uint32{100<<16 | 200}},
	{"^100:?5", []uint32{1005<<16 | 7, 100<<16 | 5}},
	{`^100:5:\d+$`, []uint32{100<<16 | 5, 100<<16 | 7}},
	{`^\d+:( 100 | 200 )$`, []uint32{1<<16 | 100, 7<<16 | 200}},
	{"^065000:.*$", []uint32{65000<<16 | 1}},
	{`^100:(5|6):.*`, []uint32{100<<16 | 5}},
	{"^100:{0}5", []uint32{1005<<16 | 1, 100<<16 | 5}},
	{`^100:\:\d+`, []uint32{100<<16 | 5}},
	{`^\d+:0100$`, []uint32{3<<16 | 100}},
	{"^100:*5", []uint32{1005<<16 | 1}},
	{"^100:+5$", []uint32{100<<16 | 5, 1005<<16 | 5}},
	{"^100:1$|^200:2$", []uint32{200<<16 | 2, 100<<16 | 1, 100<<16 | 2}},
	{`^\d+:(0100|200)$`, []uint32{1<<16 | 100, 1<<16 | 200}},
	{`^100:.*\$`, []uint32{100<<16 | 5}},
}

var c13XCorpus = []struct {
	raw string
	as  uint16
	la  uint32
}{
	{"rt:0100:200", 100, 200},
	{"rt:^100:?5", 1005, 7},
	{`rt:^100:5:\d+$`, 100, 5},
	{`rt:^\d+:( 100 | 200 )$`, 1, 100},
	{"rt:^065000:.*$", 65000, 1},
	{`rt:^100:( 5|6)$`, 100, 5},
	{`rt:^100:(05|6)$`, 100, 5},
	{"rt:^100:0070000$", 100, 70000},
}

func TestVerifC13(t *testing.T) {
	o := vOpen(t)
	defer o.close()
	r := &vRand{s: o.seed*7919 + 13}
	g := &c13G{r: r, o: o}
	h := &c13H{o: o, g: g}

	// well-known community names: handed to the model from the code's own table
	var wk []string
	for v, name := range bgp.WellKnownCommunityNameMap {
		wk = append(wk, fmt.Sprintf("wk %s %d", c13Hex(name), uint32(v)))
	}
	sort.Strings(wk)
	for _, l := range wk {
		o.op("%s", l)
	}

	// corpus first
	for _, c := range c13Corpus {
		s, err := c13NewSet([]string{c.raw})
		if err != nil {
			continue
		}
		h.oracleStd([]string{c.raw}, s, c.comms)
		h.stdOne("corpus", c.raw, true)
	}
	for _, c := range c13XCorpus {
		s, err := c13NewXSet([]string{c.raw})
		if err != nil {
			continue
		}
		h.oracleExt([]string{c.raw}, s, []bgp.ExtendedCommunityInterface{bgp.NewTwoOctetAsSpecificExtended(bgp.EC_SUBTYPE_ROUTE_TARGET, c.as, c.la, true)})
		h.extOne("corpus", c.raw)
		h.sweepExt(c.raw)
	}

	scale := 1
	if o.thorough {
		scale = 6
	}
	id := 0
	for i := 0; i < 900*scale; i++ {
		kind, raw := g.stdPattern()
		sweep := o.thorough && i%4 == 0 || i%60 == 0
		h.stdOne(kind, raw, sweep)
	}
	for i := 0; i < 500*scale; i++ {
		h.stdLists()
	}
	for i := 0; i < 150*scale; i++ {
		h.stdHistory(&id, g.history(i, h.stdPool))
	}
	for i := 0; i < 1500*scale; i++ {
		h.rxStream()
	}
	for i := 0; i < 700*scale; i++ {
		kind, raw := g.extPattern()
		h.extOne(kind, raw)
		if o.thorough && i%4 == 0 || i%40 == 0 {
			h.sweepExt(raw)
		}
	}
	for i := 0; i < 400*scale; i++ {
		h.extLists()
	}
	for i := 0; i < 150*scale; i++ {
		h.extHistory(&id, g.history(i, h.extPool))
	}
	for i := 0; i < 150*scale; i++ {
		h.large()
	}
	for i := 0; i < 100*scale; i++ {
		h.largeHistory(g.history(i, h.largePool))
	}
}
