//go:build verif

package apiutil

// C18 — API and native representations convert losslessly in both directions.
//
// Two independent things happen here (see BUILDING.md):
//   * correspondence: for the fragment modelled in lean/Model/ApiConv.lean (14 attribute types,
//     IPv4 prefixes, 9 capability kinds) every Marshal / Unmarshal result of the real converters is
//     printed in a canonical text and compared with the model's toApi / fromApi (`o.ask`);
//   * oracle (model independent, sampling): for generated native values of EVERY attribute type,
//     NLRI of all families and capability: Unmarshal(Marshal(x)) serialises to the octets of x with
//     the same Len(); Marshal(Unmarshal(a)) is proto.Equal to a (`o.fail`).

import (
	"encoding/hex"
	"fmt"
	"net/netip"
	"reflect"
	"strings"
	"testing"
	"time"

	"github.com/osrg/gobgp/v4/api"
	"google.golang.org/protobuf/proto"

	. "github.com/osrg/gobgp/v4/pkg/packet/bgp"
)

func vC18Hex(b []byte) string {
	if len(b) == 0 {
		return "-"
	}
	return hex.EncodeToString(b)
}

func vC18U32s(l []uint32) string {
	s := make([]string, len(l))
	for i, v := range l {
		s[i] = fmt.Sprint(v)
	}
	return strings.Join(s, ",")
}

func vC18List(l []uint32) string {
	var sb strings.Builder
	fmt.Fprintf(&sb, "%d", len(l))
	for _, v := range l {
		fmt.Fprintf(&sb, " %d", v)
	}
	return sb.String()
}

func vC18AddrU32(a netip.Addr) uint32 {
	if !a.Is4() {
		return 0
	}
	b := a.As4()
	return uint32(b[0])<<24 | uint32(b[1])<<16 | uint32(b[2])<<8 | uint32(b[3])
}

func vC18U32Addr(v uint32) netip.Addr {
	return netip.AddrFrom4([4]byte{byte(v >> 24), byte(v >> 16), byte(v >> 8), byte(v)})
}

// the octets netip.ParseAddr yields for an API address text ("-" when it does not parse)
func vC18TextHex(s string) string {
	a, err := netip.ParseAddr(s)
	if err != nil {
		return "-"
	}
	return vC18Hex(a.AsSlice())
}

// ---------------------------------------------------------------- native attribute <-> text

type vC18Seg struct {
	w4  bool
	typ uint8
	num uint8
	as  []uint32
}

func vC18SegsOf(v []AsPathParamInterface) []vC18Seg {
	out := []vC18Seg{}
	for _, p := range v {
		switch s := p.(type) {
		case *AsPathParam:
			as := make([]uint32, len(s.AS))
			for i, x := range s.AS {
				as[i] = uint32(x)
			}
			out = append(out, vC18Seg{false, s.Type, s.Num, as})
		case *As4PathParam:
			out = append(out, vC18Seg{true, s.Type, s.Num, s.AS})
		}
	}
	return out
}

func vC18Segs4Of(v []*As4PathParam) []vC18Seg {
	out := []vC18Seg{}
	for _, s := range v {
		out = append(out, vC18Seg{true, s.Type, s.Num, s.AS})
	}
	return out
}

func vC18SegsDesc(l []vC18Seg) string {
	var sb strings.Builder
	fmt.Fprintf(&sb, "%d", len(l))
	for _, s := range l {
		w := 0
		if s.w4 {
			w = 1
		}
		fmt.Fprintf(&sb, " %d %d %d %s", w, s.typ, s.num, vC18List(s.as))
	}
	return sb.String()
}

func vC18SegsRender(l []vC18Seg) string {
	out := []string{}
	for _, s := range l {
		w := 2
		if s.w4 {
			w = 4
		}
		out = append(out, fmt.Sprintf("%d.%d.%d[%s]", w, s.typ, s.num, vC18U32s(s.as)))
	}
	return strings.Join(out, ";")
}

// vC18Native returns (description for the model, canonical rendering, modelled?) of a native attribute
func vC18Native(a PathAttributeInterface) (desc, render string, ok bool) {
	var pa *PathAttribute
	var d, r string
	switch v := a.(type) {
	case *PathAttributeOrigin:
		pa, d, r = &v.PathAttribute, fmt.Sprintf("o %d", v.Value), fmt.Sprintf("origin %d", v.Value)
	case *PathAttributeAsPath:
		s := vC18SegsOf(v.Value)
		pa, d, r = &v.PathAttribute, "p "+vC18SegsDesc(s), "aspath "+vC18SegsRender(s)
	case *PathAttributeNextHop:
		h := vC18Hex(v.Value.AsSlice())
		pa, d, r = &v.PathAttribute, "h "+h, "nexthop "+h
	case *PathAttributeMultiExitDisc:
		pa, d, r = &v.PathAttribute, fmt.Sprintf("m %d", v.Value), fmt.Sprintf("med %d", v.Value)
	case *PathAttributeLocalPref:
		pa, d, r = &v.PathAttribute, fmt.Sprintf("l %d", v.Value), fmt.Sprintf("lp %d", v.Value)
	case *PathAttributeAtomicAggregate:
		pa, d, r = &v.PathAttribute, "a", "atomic"
	case *PathAttributeAggregator:
		w, k := 0, 2
		if v.Value.Askind == reflect.Uint32 {
			w, k = 1, 4
		}
		pa, d, r = &v.PathAttribute, fmt.Sprintf("g %d %d %d", w, v.Value.AS, vC18AddrU32(v.Value.Address)),
			fmt.Sprintf("aggr %d %d %d", k, v.Value.AS, vC18AddrU32(v.Value.Address))
	case *PathAttributeCommunities:
		pa, d, r = &v.PathAttribute, "c "+vC18List(v.Value), "comm "+vC18U32s(v.Value)
	case *PathAttributeOriginatorId:
		pa, d, r = &v.PathAttribute, fmt.Sprintf("i %d", vC18AddrU32(v.Value)), fmt.Sprintf("origid %d", vC18AddrU32(v.Value))
	case *PathAttributeClusterList:
		ids := make([]uint32, len(v.Value))
		for i, x := range v.Value {
			ids[i] = vC18AddrU32(x)
		}
		pa, d, r = &v.PathAttribute, "k "+vC18List(ids), "clist "+vC18U32s(ids)
	case *PathAttributeAs4Path:
		s := vC18Segs4Of(v.Value)
		pa, d, r = &v.PathAttribute, "P "+vC18SegsDesc(s), "as4path "+vC18SegsRender(s)
	case *PathAttributeAs4Aggregator:
		pa, d, r = &v.PathAttribute, fmt.Sprintf("G %d %d", v.Value.AS, vC18AddrU32(v.Value.Address)),
			fmt.Sprintf("as4aggr %d %d", v.Value.AS, vC18AddrU32(v.Value.Address))
	case *PathAttributeLargeCommunities:
		var sd strings.Builder
		rs := []string{}
		fmt.Fprintf(&sd, "L %d", len(v.Values))
		for _, c := range v.Values {
			fmt.Fprintf(&sd, " %d %d %d", c.ASN, c.LocalData1, c.LocalData2)
			rs = append(rs, fmt.Sprintf("%d:%d:%d", c.ASN, c.LocalData1, c.LocalData2))
		}
		pa, d, r = &v.PathAttribute, sd.String(), "lcomm "+strings.Join(rs, ",")
	case *PathAttributeUnknown:
		pa, d, r = &v.PathAttribute, "u "+vC18Hex(v.Value), "unk "+vC18Hex(v.Value)
	default:
		return "", "", false
	}
	desc = fmt.Sprintf("%d %d %d %s", pa.Flags, pa.Type, pa.Length, d)
	render = fmt.Sprintf("{f=%d t=%d l=%d %s}", pa.Flags, pa.Type, pa.Length, r)
	return desc, render, true
}

// ---------------------------------------------------------------- API attribute <-> text

func vC18ApiSegs(l []*api.AsSegment) (desc, render string) {
	var sb strings.Builder
	rs := []string{}
	fmt.Fprintf(&sb, "%d", len(l))
	for _, s := range l {
		fmt.Fprintf(&sb, " %d %s", int32(s.Type), vC18List(s.Numbers))
		rs = append(rs, fmt.Sprintf("%d[%s]", int32(s.Type), vC18U32s(s.Numbers)))
	}
	return sb.String(), strings.Join(rs, ";")
}

// vC18Api returns (description for the model, canonical rendering, modelled?) of an API attribute
func vC18Api(a *api.Attribute) (desc, render string, ok bool) {
	switch v := a.GetAttr().(type) {
	case nil:
		return "X", "Unset", true
	case *api.Attribute_Unknown:
		h := vC18Hex(v.Unknown.Value)
		return fmt.Sprintf("U %d %d %s", v.Unknown.Flags, v.Unknown.Type, h), fmt.Sprintf("Unknown %d %d %s", v.Unknown.Flags, v.Unknown.Type, h), true
	case *api.Attribute_Origin:
		return fmt.Sprintf("O %d", v.Origin.Origin), fmt.Sprintf("Origin %d", v.Origin.Origin), true
	case *api.Attribute_AsPath:
		d, r := vC18ApiSegs(v.AsPath.Segments)
		return "S " + d, "AsPath " + r, true
	case *api.Attribute_NextHop:
		h := vC18TextHex(v.NextHop.NextHop)
		return "H " + h, "NextHop " + h, true
	case *api.Attribute_MultiExitDisc:
		return fmt.Sprintf("M %d", v.MultiExitDisc.Med), fmt.Sprintf("Med %d", v.MultiExitDisc.Med), true
	case *api.Attribute_LocalPref:
		return fmt.Sprintf("LP %d", v.LocalPref.LocalPref), fmt.Sprintf("LocalPref %d", v.LocalPref.LocalPref), true
	case *api.Attribute_AtomicAggregate:
		return "AT", "AtomicAggregate", true
	case *api.Attribute_Aggregator:
		h := vC18TextHex(v.Aggregator.Address)
		return fmt.Sprintf("AG %d %s", v.Aggregator.Asn, h), fmt.Sprintf("Aggregator %d %s", v.Aggregator.Asn, h), true
	case *api.Attribute_Communities:
		return "C " + vC18List(v.Communities.Communities), "Communities " + vC18U32s(v.Communities.Communities), true
	case *api.Attribute_OriginatorId:
		h := vC18TextHex(v.OriginatorId.Id)
		return "OI " + h, "OriginatorId " + h, true
	case *api.Attribute_ClusterList:
		hs := []string{}
		for _, s := range v.ClusterList.Ids {
			hs = append(hs, vC18TextHex(s))
		}
		d := fmt.Sprintf("CL %d", len(hs))
		if len(hs) > 0 {
			d += " " + strings.Join(hs, " ")
		}
		return d, "ClusterList " + strings.Join(hs, ","), true
	case *api.Attribute_As4Path:
		d, r := vC18ApiSegs(v.As4Path.Segments)
		return "S4 " + d, "As4Path " + r, true
	case *api.Attribute_As4Aggregator:
		h := vC18TextHex(v.As4Aggregator.Address)
		return fmt.Sprintf("AG4 %d %s", v.As4Aggregator.Asn, h), fmt.Sprintf("As4Aggregator %d %s", v.As4Aggregator.Asn, h), true
	case *api.Attribute_LargeCommunities:
		var sd strings.Builder
		rs := []string{}
		fmt.Fprintf(&sd, "LC %d", len(v.LargeCommunities.Communities))
		for _, c := range v.LargeCommunities.Communities {
			fmt.Fprintf(&sd, " %d %d %d", c.GlobalAdmin, c.LocalData1, c.LocalData2)
			rs = append(rs, fmt.Sprintf("%d:%d:%d", c.GlobalAdmin, c.LocalData1, c.LocalData2))
		}
		return sd.String(), "LargeCommunities " + strings.Join(rs, ","), true
	}
	return "", "", false
}

// vC18From renders the outcome of UnmarshalAttribute the way the driver renders fromApiAttr
func vC18From(a *api.Attribute) (out string, native PathAttributeInterface) {
	defer func() {
		if e := recover(); e != nil {
			out, native = "panic", nil
		}
	}()
	n, err := UnmarshalAttribute(a)
	if err != nil {
		return "err", nil
	}
	_, r, ok := vC18Native(n)
	if !ok {
		return "unmodelled", n
	}
	l := n.Len()
	w, err := n.Serialize()
	if err != nil {
		return "serialize-error", n
	}
	return fmt.Sprintf("ok %s wire=%s len=%d", r, vC18Hex(w), l), n
}

// ---------------------------------------------------------------- generators for the modelled fragment

func vC18GenAS(r *vRand, w4 bool) uint32 {
	if w4 {
		return uint32(r.pick(0, 1, 23456, 65535, 65536, 4200000000, 4294967295, int(r.u32())))
	}
	return uint32(r.pick(0, 1, 23456, 64512, 65535, r.intn(65536)))
}

func vC18GenSegLen(r *vRand) int {
	return r.pick(0, 1, 1, 2, 2, 3, 5, 10, 62, 254, 255, r.intn(12))
}

func vC18GenSegType(r *vRand) uint8 { return uint8(r.pick(1, 2, 2, 2, 3, 4, 0, 5, 255)) }

func vC18GenU32s(r *vRand) []uint32 {
	n := r.pick(0, 1, 2, 3, 8, 63, 64, 65, r.intn(10))
	l := make([]uint32, n)
	for i := range l {
		l[i] = vC18U32(r)
	}
	return l
}

func vC18GenAddr4(r *vRand) netip.Addr {
	return vC18U32Addr(uint32(r.pick(0, 1, 0x7f000001, 0x0a000001, 0xc0a80001, 0xe0000001, 0xffffffff, int(r.u32()))))
}

// one native attribute of a modelled type; flags mutated in a share of cases (PARTIAL on optional
// transitive, unneeded EXTENDED_LENGTH), the way a received attribute may look
func vC18GenNative(r *vRand, o *vOut) PathAttributeInterface {
	var a PathAttributeInterface
	kind := r.intn(14)
	switch kind {
	case 0:
		a = NewPathAttributeOrigin(uint8(r.pick(0, 1, 2, 3, 255, r.intn(256))))
	case 1:
		w4 := r.chance(70)
		n := r.pick(0, 1, 1, 2, 3)
		ps := []AsPathParamInterface{}
		for i := 0; i < n; i++ {
			l := vC18GenSegLen(r)
			if w4 {
				as := make([]uint32, l)
				for j := range as {
					as[j] = vC18GenAS(r, true)
				}
				ps = append(ps, NewAs4PathParam(vC18GenSegType(r), as))
			} else {
				as := make([]uint16, l)
				for j := range as {
					as[j] = uint16(vC18GenAS(r, false))
				}
				ps = append(ps, NewAsPathParam(vC18GenSegType(r), as))
			}
		}
		a = NewPathAttributeAsPath(ps)
		if w4 {
			o.stat("native_aspath_4octet", 1)
		} else {
			o.stat("native_aspath_2octet", 1)
		}
	case 2:
		if r.chance(70) {
			a, _ = NewPathAttributeNextHop(vC18GenAddr4(r))
		} else {
			a, _ = NewPathAttributeNextHop(vC18V6(r))
		}
	case 3:
		a = NewPathAttributeMultiExitDisc(vC18U32(r))
	case 4:
		a = NewPathAttributeLocalPref(vC18U32(r))
	case 5:
		a = NewPathAttributeAtomicAggregate()
	case 6:
		if r.chance(50) {
			a, _ = NewPathAttributeAggregator(uint16(vC18GenAS(r, false)), vC18GenAddr4(r))
			o.stat("native_aggregator_2octet", 1)
		} else {
			a, _ = NewPathAttributeAggregator(vC18GenAS(r, true), vC18GenAddr4(r))
			o.stat("native_aggregator_4octet", 1)
		}
	case 7:
		a = NewPathAttributeCommunities(vC18GenU32s(r))
	case 8:
		a, _ = NewPathAttributeOriginatorId(vC18GenAddr4(r))
	case 9:
		n := r.pick(0, 1, 2, 3, 63, 64, 65)
		l := make([]netip.Addr, n)
		for i := range l {
			l[i] = vC18GenAddr4(r)
		}
		a, _ = NewPathAttributeClusterList(l)
	case 10:
		n := r.pick(0, 1, 1, 2, 3)
		ps := []*As4PathParam{}
		for i := 0; i < n; i++ {
			as := make([]uint32, vC18GenSegLen(r))
			for j := range as {
				as[j] = vC18GenAS(r, true)
			}
			ps = append(ps, NewAs4PathParam(vC18GenSegType(r), as))
		}
		a = NewPathAttributeAs4Path(ps)
	case 11:
		a, _ = NewPathAttributeAs4Aggregator(vC18GenAS(r, true), vC18GenAddr4(r))
	case 12:
		n := r.pick(0, 1, 2, 3, 21, 22, 23)
		l := make([]*LargeCommunity, n)
		for i := range l {
			l[i] = NewLargeCommunity(vC18U32(r), vC18U32(r), vC18U32(r))
		}
		a = NewPathAttributeLargeCommunities(l)
	case 13:
		fl := BGPAttrFlag(r.pick(0xc0, 0x80, 0x40, 0xe0, 0xd0, 0x00, 0xff, r.intn(256)))
		ty := BGPAttrType(r.pick(0, 11, 12, 13, 19, 20, 21, 24, 27, 28, 30, 31, 33, 39, 41, 128, 255, 100+r.intn(100)))
		if r.chance(10) {
			ty = BGPAttrType(r.pick(1, 2, 3, 4, 5, 8, 14, 16, 32)) // unknown object carrying a known type code
		}
		a = NewPathAttributeUnknown(fl, ty, vC18Bytes(r, r.pick(0, 1, 2, 7, 254, 255, 256, 257, 300)))
	}
	// received-looking flags
	if kind != 13 && r.chance(25) {
		var pa *PathAttribute
		switch v := a.(type) {
		case *PathAttributeOrigin:
			pa = &v.PathAttribute
		case *PathAttributeAsPath:
			pa = &v.PathAttribute
		case *PathAttributeNextHop:
			pa = &v.PathAttribute
		case *PathAttributeMultiExitDisc:
			pa = &v.PathAttribute
		case *PathAttributeLocalPref:
			pa = &v.PathAttribute
		case *PathAttributeAtomicAggregate:
			pa = &v.PathAttribute
		case *PathAttributeAggregator:
			pa = &v.PathAttribute
		case *PathAttributeCommunities:
			pa = &v.PathAttribute
		case *PathAttributeOriginatorId:
			pa = &v.PathAttribute
		case *PathAttributeClusterList:
			pa = &v.PathAttribute
		case *PathAttributeAs4Path:
			pa = &v.PathAttribute
		case *PathAttributeAs4Aggregator:
			pa = &v.PathAttribute
		case *PathAttributeLargeCommunities:
			pa = &v.PathAttribute
		}
		if pa != nil {
			if pa.Flags&BGP_ATTR_FLAG_OPTIONAL != 0 && pa.Flags&BGP_ATTR_FLAG_TRANSITIVE != 0 && r.chance(60) {
				pa.Flags |= BGP_ATTR_FLAG_PARTIAL
				o.stat("native_flag_partial", 1)
			} else {
				pa.Flags |= BGP_ATTR_FLAG_EXTENDED_LENGTH
				o.stat("native_flag_ext_unneeded", 1)
			}
		}
	}
	return a
}

func vC18GenText(r *vRand, want4 bool) string {
	switch r.intn(10) {
	case 0:
		return ""
	case 1:
		return "not-an-address"
	case 2:
		return vC18V6(r).String()
	case 3:
		if want4 {
			return "::ffff:" + vC18GenAddr4(r).String()
		}
		return "1.2.3"
	default:
		return vC18GenAddr4(r).String()
	}
}

func vC18GenApiSegs(r *vRand) []*api.AsSegment {
	n := r.pick(0, 1, 1, 2, 3)
	l := []*api.AsSegment{}
	for i := 0; i < n; i++ {
		as := make([]uint32, r.pick(0, 1, 2, 3, 10, 255, 256, 257, 300))
		for j := range as {
			as[j] = vC18GenAS(r, true)
		}
		l = append(l, &api.AsSegment{Type: api.AsSegment_Type(r.pick(0, 1, 2, 3, 4, 5, 255, 256, 258)), Numbers: as})
	}
	return l
}

// one API attribute of a modelled message, including values Marshal never produces
func vC18GenApi(r *vRand) *api.Attribute {
	switch r.intn(15) {
	case 0:
		return &api.Attribute{Attr: &api.Attribute_Origin{Origin: &api.OriginAttribute{Origin: uint32(r.pick(0, 1, 2, 3, 255, 256, 257, 65536, 4294967295))}}}
	case 1:
		return &api.Attribute{Attr: &api.Attribute_AsPath{AsPath: &api.AsPathAttribute{Segments: vC18GenApiSegs(r)}}}
	case 2:
		return &api.Attribute{Attr: &api.Attribute_NextHop{NextHop: &api.NextHopAttribute{NextHop: vC18GenText(r, false)}}}
	case 3:
		return &api.Attribute{Attr: &api.Attribute_MultiExitDisc{MultiExitDisc: &api.MultiExitDiscAttribute{Med: vC18U32(r)}}}
	case 4:
		return &api.Attribute{Attr: &api.Attribute_LocalPref{LocalPref: &api.LocalPrefAttribute{LocalPref: vC18U32(r)}}}
	case 5:
		return &api.Attribute{Attr: &api.Attribute_AtomicAggregate{AtomicAggregate: &api.AtomicAggregateAttribute{}}}
	case 6:
		return &api.Attribute{Attr: &api.Attribute_Aggregator{Aggregator: &api.AggregatorAttribute{Asn: vC18GenAS(r, true), Address: vC18GenText(r, true)}}}
	case 7:
		return &api.Attribute{Attr: &api.Attribute_Communities{Communities: &api.CommunitiesAttribute{Communities: vC18GenU32s(r)}}}
	case 8:
		return &api.Attribute{Attr: &api.Attribute_OriginatorId{OriginatorId: &api.OriginatorIdAttribute{Id: vC18GenText(r, true)}}}
	case 9:
		n := r.pick(0, 1, 2, 3, 64)
		ids := make([]string, n)
		for i := range ids {
			ids[i] = vC18GenAddr4(r).String()
		}
		if n > 0 && r.chance(30) {
			ids[r.intn(n)] = vC18GenText(r, true)
		}
		return &api.Attribute{Attr: &api.Attribute_ClusterList{ClusterList: &api.ClusterListAttribute{Ids: ids}}}
	case 10:
		return &api.Attribute{Attr: &api.Attribute_As4Path{As4Path: &api.As4PathAttribute{Segments: vC18GenApiSegs(r)}}}
	case 11:
		return &api.Attribute{Attr: &api.Attribute_As4Aggregator{As4Aggregator: &api.As4AggregatorAttribute{Asn: vC18GenAS(r, true), Address: vC18GenText(r, true)}}}
	case 12:
		n := r.pick(0, 1, 2, 21, 22)
		l := make([]*api.LargeCommunity, n)
		for i := range l {
			l[i] = &api.LargeCommunity{GlobalAdmin: vC18U32(r), LocalData1: vC18U32(r), LocalData2: vC18U32(r)}
		}
		return &api.Attribute{Attr: &api.Attribute_LargeCommunities{LargeCommunities: &api.LargeCommunitiesAttribute{Communities: l}}}
	case 13:
		return &api.Attribute{Attr: &api.Attribute_Unknown{Unknown: &api.UnknownAttribute{
			Flags: uint32(r.pick(0xc0, 0x80, 0x40, 0xe0, 0xd0, 0, 255, 256, 0x1c0, 65536+0xc0)),
			Type:  uint32(r.pick(0, 1, 2, 8, 11, 99, 200, 255, 256, 257, 512+99)),
			Value: vC18Bytes(r, r.pick(0, 1, 5, 255, 256, 300))}}}
	default:
		return &api.Attribute{}
	}
}

// ---------------------------------------------------------------- capabilities: text

func vC18CapNative(c ParameterCapabilityInterface) (desc, render string, ok bool) {
	t3 := func(n int, f func(i int) (uint16, uint8, uint32)) (string, string) {
		var d strings.Builder
		rs := []string{}
		fmt.Fprintf(&d, "%d", n)
		for i := 0; i < n; i++ {
			a, s, x := f(i)
			fmt.Fprintf(&d, " %d %d %d", a, s, x)
			rs = append(rs, fmt.Sprintf("%d/%d:%d", a, s, x))
		}
		return d.String(), strings.Join(rs, ",")
	}
	switch v := c.(type) {
	case *CapMultiProtocol:
		s := fmt.Sprintf("mp %d/%d", v.CapValue.Afi(), v.CapValue.Safi())
		return fmt.Sprintf("mp %d %d", v.CapValue.Afi(), v.CapValue.Safi()), s, true
	case *CapRouteRefresh:
		return "rr", "rr", true
	case *CapExtendedMessage:
		return "extmsg", "extmsg", true
	case *CapEnhancedRouteRefresh:
		return "err", "err", true
	case *CapFourOctetASNumber:
		s := fmt.Sprintf("as4 %d", v.CapValue)
		return s, s, true
	case *CapAddPath:
		d, r := t3(len(v.Tuples), func(i int) (uint16, uint8, uint32) {
			return v.Tuples[i].Family.Afi(), v.Tuples[i].Family.Safi(), uint32(v.Tuples[i].Mode)
		})
		return "addpath " + d, "addpath " + r, true
	case *CapGracefulRestart:
		d, r := t3(len(v.Tuples), func(i int) (uint16, uint8, uint32) {
			return v.Tuples[i].AFI, v.Tuples[i].SAFI, uint32(v.Tuples[i].Flags)
		})
		return fmt.Sprintf("gr %d %d %s", v.Flags, v.Time, d), fmt.Sprintf("gr %d %d %s", v.Flags, v.Time, r), true
	case *CapLongLivedGracefulRestart:
		var d strings.Builder
		rs := []string{}
		fmt.Fprintf(&d, "llgr %d", len(v.Tuples))
		for _, t := range v.Tuples {
			fmt.Fprintf(&d, " %d %d %d %d", t.AFI, t.SAFI, t.Flags, t.RestartTime)
			rs = append(rs, fmt.Sprintf("%d/%d:%d:%d", t.AFI, t.SAFI, t.Flags, t.RestartTime))
		}
		return d.String(), "llgr " + strings.Join(rs, ","), true
	case *CapUnknown:
		s := fmt.Sprintf("unk %d %s", v.CapCode, vC18Hex(v.CapValue))
		return s, s, true
	}
	return "", "", false
}

func vC18Fam2(f *api.Family) (int32, int32) {
	if f == nil {
		return 0, 0
	}
	return int32(f.Afi), int32(f.Safi)
}

// (description, rendering) of an API capability; they coincide except for the list syntax
func vC18CapApi(c *api.Capability) (desc, render string, ok bool) {
	switch v := c.GetCap().(type) {
	case nil:
		return "Unset", "Unset", true
	case *api.Capability_Unknown:
		s := fmt.Sprintf("Unknown %d %s", v.Unknown.Code, vC18Hex(v.Unknown.Value))
		return s, s, true
	case *api.Capability_MultiProtocol:
		a, s := vC18Fam2(v.MultiProtocol.Family)
		return fmt.Sprintf("MultiProtocol %d %d", a, s), fmt.Sprintf("MultiProtocol %d/%d", a, s), true
	case *api.Capability_RouteRefresh:
		return "RouteRefresh", "RouteRefresh", true
	case *api.Capability_GracefulRestart:
		var d strings.Builder
		rs := []string{}
		fmt.Fprintf(&d, "GracefulRestart %d %d %d", v.GracefulRestart.Flags, v.GracefulRestart.Time, len(v.GracefulRestart.Tuples))
		for _, t := range v.GracefulRestart.Tuples {
			a, s := vC18Fam2(t.Family)
			fmt.Fprintf(&d, " %d %d %d", a, s, t.Flags)
			rs = append(rs, fmt.Sprintf("%d/%d:%d", a, s, t.Flags))
		}
		return d.String(), fmt.Sprintf("GracefulRestart %d %d %s", v.GracefulRestart.Flags, v.GracefulRestart.Time, strings.Join(rs, ",")), true
	case *api.Capability_FourOctetAsn:
		s := fmt.Sprintf("FourOctetAsn %d", v.FourOctetAsn.Asn)
		return s, s, true
	case *api.Capability_AddPath:
		var d strings.Builder
		rs := []string{}
		fmt.Fprintf(&d, "AddPath %d", len(v.AddPath.Tuples))
		for _, t := range v.AddPath.Tuples {
			a, s := vC18Fam2(t.Family)
			fmt.Fprintf(&d, " %d %d %d", a, s, int32(t.Mode))
			rs = append(rs, fmt.Sprintf("%d/%d:%d", a, s, int32(t.Mode)))
		}
		return d.String(), "AddPath " + strings.Join(rs, ","), true
	case *api.Capability_EnhancedRouteRefresh:
		return "EnhancedRouteRefresh", "EnhancedRouteRefresh", true
	case *api.Capability_LongLivedGracefulRestart:
		var d strings.Builder
		rs := []string{}
		fmt.Fprintf(&d, "Llgr %d", len(v.LongLivedGracefulRestart.Tuples))
		for _, t := range v.LongLivedGracefulRestart.Tuples {
			a, s := vC18Fam2(t.Family)
			fmt.Fprintf(&d, " %d %d %d %d", a, s, t.Flags, t.Time)
			rs = append(rs, fmt.Sprintf("%d/%d:%d:%d", a, s, t.Flags, t.Time))
		}
		return d.String(), "Llgr " + strings.Join(rs, ","), true
	case *api.Capability_ExtendedMessage:
		return "ExtendedMessage", "ExtendedMessage", true
	}
	return "", "", false
}

func vC18CapFrom(a *api.Capability) (out string) {
	defer func() {
		if e := recover(); e != nil {
			out = "panic"
		}
	}()
	l, err := UnmarshalCapabilities([]*api.Capability{a})
	if err != nil || len(l) != 1 {
		return "err"
	}
	_, r, ok := vC18CapNative(l[0])
	if !ok {
		return "unmodelled"
	}
	w, err := l[0].Serialize()
	if err != nil {
		return "serialize-error"
	}
	return fmt.Sprintf("ok %s wire=%s", r, vC18Hex(w))
}

func vC18GenCapNative(r *vRand) ParameterCapabilityInterface {
	fam := func() Family {
		if r.chance(80) {
			return vC18Fam(r)
		}
		return NewFamily(uint16(r.pick(0, 1, 2, 25, 16388, 65535)), uint8(r.pick(0, 1, 2, 4, 128, 255)))
	}
	switch r.intn(9) {
	case 0:
		return NewCapMultiProtocol(fam())
	case 1:
		return NewCapRouteRefresh()
	case 2:
		return NewCapExtendedMessage()
	case 3:
		return NewCapEnhancedRouteRefresh()
	case 4:
		return NewCapFourOctetASNumber(vC18GenAS(r, true))
	case 5:
		ts := []*CapAddPathTuple{}
		for i, n := 0, r.pick(0, 1, 2, 3, 5); i < n; i++ {
			ts = append(ts, NewCapAddPathTuple(fam(), BGPAddPathMode(r.pick(0, 1, 2, 3, 4, 255))))
		}
		return NewCapAddPath(ts)
	case 6:
		// as decoded from an OPEN: any 4-bit flag nibble, any 12-bit time, any tuple flag octet
		ts := []*CapGracefulRestartTuple{}
		for i, n := 0, r.pick(0, 1, 2, 3); i < n; i++ {
			f := fam()
			ts = append(ts, &CapGracefulRestartTuple{AFI: f.Afi(), SAFI: f.Safi(), Flags: uint8(r.pick(0, 0x80, 0x80, 0, 0x40, 0x81, 0xff, 1))})
		}
		c := NewCapGracefulRestart(false, false, uint16(r.pick(0, 1, 120, 4095)), ts)
		c.Flags = uint8(r.pick(0, 8, 4, 12, 12, 8, 2, 1, 15, 10))
		return c
	case 7:
		ts := []*CapLongLivedGracefulRestartTuple{}
		for i, n := 0, r.pick(0, 1, 2, 3); i < n; i++ {
			f := fam()
			ts = append(ts, &CapLongLivedGracefulRestartTuple{AFI: f.Afi(), SAFI: f.Safi(), Flags: uint8(r.pick(0, 0x80, 0x80, 0x40, 0xff, 1)),
				RestartTime: uint32(r.pick(0, 1, 3600, 1<<24-1))})
		}
		return NewCapLongLivedGracefulRestart(ts)
	default:
		return NewCapUnknown(BGPCapabilityCode(r.pick(0, 3, 7, 66, 67, 72, 129, 200, 255)), vC18Bytes(r, r.pick(0, 1, 2, 20, 255)))
	}
}

func vC18GenCapApi(r *vRand) *api.Capability {
	fam := func() *api.Family {
		return &api.Family{Afi: api.Family_Afi(r.pick(0, 1, 2, 25, 16388, 65535, 65536, 65537)), Safi: api.Family_Safi(r.pick(0, 1, 2, 4, 128, 255, 256, 257))}
	}
	switch r.intn(10) {
	case 0:
		return &api.Capability{Cap: &api.Capability_MultiProtocol{MultiProtocol: &api.MultiProtocolCapability{Family: fam()}}}
	case 1:
		return &api.Capability{Cap: &api.Capability_RouteRefresh{RouteRefresh: &api.RouteRefreshCapability{}}}
	case 2:
		return &api.Capability{Cap: &api.Capability_ExtendedMessage{ExtendedMessage: &api.ExtendedMessageCapability{}}}
	case 3:
		return &api.Capability{Cap: &api.Capability_EnhancedRouteRefresh{EnhancedRouteRefresh: &api.EnhancedRouteRefreshCapability{}}}
	case 4:
		return &api.Capability{Cap: &api.Capability_FourOctetAsn{FourOctetAsn: &api.FourOctetASNCapability{Asn: vC18GenAS(r, true)}}}
	case 5:
		ts := []*api.AddPathCapabilityTuple{}
		for i, n := 0, r.pick(0, 1, 2, 3); i < n; i++ {
			ts = append(ts, &api.AddPathCapabilityTuple{Family: fam(), Mode: api.AddPathCapabilityTuple_Mode(r.pick(0, 1, 2, 3, 4, 255, 256, 259))})
		}
		return &api.Capability{Cap: &api.Capability_AddPath{AddPath: &api.AddPathCapability{Tuples: ts}}}
	case 6:
		ts := []*api.GracefulRestartCapabilityTuple{}
		for i, n := 0, r.pick(0, 1, 2, 3); i < n; i++ {
			ts = append(ts, &api.GracefulRestartCapabilityTuple{Family: fam(), Flags: uint32(r.pick(0, 0x80, 0x40, 0xff, 0x100, 0x180, 1))})
		}
		return &api.Capability{Cap: &api.Capability_GracefulRestart{GracefulRestart: &api.GracefulRestartCapability{
			Flags: uint32(r.pick(0, 8, 4, 12, 2, 1, 15, 16, 255, 256, 264)), Time: uint32(r.pick(0, 1, 120, 4095, 4096, 65535, 65536, 65656)), Tuples: ts}}}
	case 7:
		ts := []*api.LongLivedGracefulRestartCapabilityTuple{}
		for i, n := 0, r.pick(0, 1, 2, 3); i < n; i++ {
			ts = append(ts, &api.LongLivedGracefulRestartCapabilityTuple{Family: fam(), Flags: uint32(r.pick(0, 0x80, 0x40, 0xff, 0x180)),
				Time: uint32(r.pick(0, 1, 3600, 1<<24-1, 1<<24, 4294967295))})
		}
		return &api.Capability{Cap: &api.Capability_LongLivedGracefulRestart{LongLivedGracefulRestart: &api.LongLivedGracefulRestartCapability{Tuples: ts}}}
	case 8:
		return &api.Capability{Cap: &api.Capability_Unknown{Unknown: &api.UnknownCapability{Code: uint32(r.pick(0, 3, 66, 200, 255, 256, 321)), Value: vC18Bytes(r, r.pick(0, 1, 20, 255))}}}
	default:
		return &api.Capability{}
	}
}

// ---------------------------------------------------------------- the model-independent oracle

func vC18TypeName(x any) string {
	s := fmt.Sprintf("%T", x)
	if i := strings.LastIndex(s, "."); i >= 0 {
		s = s[i+1:]
	}
	return s
}

// baseName strips the "#3" / "/24" style suffixes of the generator's case names
func vC18BaseName(s string) string {
	for _, sep := range []string{"#", "/"} {
		if i := strings.Index(s, sep); i >= 0 {
			s = s[:i]
		}
	}
	return s
}

type vC18Fail struct {
	class  string
	detail map[string]any
}

// attribute round trip; `sub` refines the class (generator case name)
func vC18OracleAttr(x PathAttributeInterface, sub string) (fails []vC18Fail) {
	tn := vC18TypeName(x)
	switch v := x.(type) {
	case *PathAttributeMpReachNLRI:
		tn += "[" + NewFamily(v.AFI, v.SAFI).String() + "]"
	case *PathAttributeMpUnreachNLRI:
		tn += "[" + NewFamily(v.AFI, v.SAFI).String() + "]"
	case *PathAttributeTunnelEncap:
		for _, tlv := range v.Value {
			for _, st := range tlv.Value {
				switch st.(type) {
				case *TunnelEncapSubTLVSRBSID, *TunnelEncapSubTLVSRv6BSID:
					tn = "PathAttributeTunnelEncap[sr-binding-sid]"
				}
			}
		}
	}
	mk := func(kind string, d map[string]any) {
		d["case"] = sub
		d["type"] = tn
		fails = append(fails, vC18Fail{"attr:" + tn + ":" + kind, d})
	}
	defer func() {
		if e := recover(); e != nil {
			mk("panic", map[string]any{"panic": fmt.Sprint(e)})
		}
	}()
	w0, err := x.Serialize()
	if err != nil {
		return nil // not a value the codec itself can send: C04's business
	}
	if vC18HasIPMSI(x) {
		return nil
	}
	if strings.HasSuffix(tn, "[ls]") {
		return nil // BGP-LS NLRI losses are reported once, at NLRI level (nlri:LsAddrPrefix:*)
	}
	l0 := x.Len()
	as, err := MarshalPathAttributes([]PathAttributeInterface{x})
	if err != nil || len(as) != 1 {
		mk("marshal-error", map[string]any{"wire": vC18Hex(w0), "err": fmt.Sprint(err)})
		return
	}
	if as[0].GetAttr() == nil {
		mk("marshal-empty", map[string]any{"wire": vC18Hex(w0)})
		return
	}
	ys, err := UnmarshalPathAttributes(as)
	if err != nil || len(ys) != 1 {
		mk("unmarshal-error", map[string]any{"wire": vC18Hex(w0), "err": fmt.Sprint(err), "api": as[0].String()})
		return
	}
	y := ys[0]
	// Len() as the packer sees it: before any Serialize of y
	l1 := y.Len()
	w1, err := y.Serialize()
	if err != nil {
		mk("reserialize-error", map[string]any{"wire": vC18Hex(w0), "err": fmt.Sprint(err), "api": as[0].String()})
		return
	}
	if string(w0) != string(w1) {
		mk("wire-differs", map[string]any{"wire": vC18Hex(w0), "back": vC18Hex(w1), "api": as[0].String()})
	} else if l1 != len(w1) && l0 == len(w0) {
		// (a native whose own Len() disagrees with its Serialize() is C04's business)
		mk("len-differs", map[string]any{"wire": vC18Hex(w0), "len_native": l0, "len_back": l1, "emitted": len(w1)})
	}
	as2, err := MarshalPathAttributes([]PathAttributeInterface{y})
	if err != nil || len(as2) != 1 {
		mk("remarshal-error", map[string]any{"wire": vC18Hex(w0), "err": fmt.Sprint(err)})
		return
	}
	if !proto.Equal(as[0], as2[0]) {
		mk("api-not-fixpoint", map[string]any{"wire": vC18Hex(w0), "api": as[0].String(), "api2": as2[0].String()})
	}
	return
}

func vC18OracleNLRI(fam Family, x NLRI, sub string) (fails []vC18Fail) {
	tn := vC18TypeName(x)
	if e, ok := x.(*EVPNNLRI); ok {
		tn = "EVPNNLRI." + vC18TypeName(e.RouteTypeData)
	}
	if e, ok := x.(*MUPNLRI); ok {
		tn = "MUPNLRI." + vC18TypeName(e.RouteTypeData)
	}
	if e, ok := x.(*LsAddrPrefix); ok {
		d0 := vC18TypeName(e.NLRI)
		defer func() {
			for i := range fails {
				fails[i].detail["ls_nlri"] = d0
			}
		}()
	}
	mk := func(kind string, d map[string]any) {
		d["case"] = sub
		d["family"] = fam.String()
		fails = append(fails, vC18Fail{"nlri:" + tn + ":" + kind, d})
	}
	defer func() {
		if e := recover(); e != nil {
			mk("panic", map[string]any{"panic": fmt.Sprint(e)})
		}
	}()
	w0, err := x.Serialize()
	if err != nil {
		return nil
	}
	a, err := MarshalNLRI(x)
	if err != nil {
		mk("marshal-error", map[string]any{"wire": vC18Hex(w0), "err": fmt.Sprint(err)})
		return
	}
	if a.GetNlri() == nil {
		mk("marshal-empty", map[string]any{"wire": vC18Hex(w0)})
		return
	}
	y, err := UnmarshalNLRI(fam, a)
	if err != nil {
		mk("unmarshal-error", map[string]any{"wire": vC18Hex(w0), "err": fmt.Sprint(err), "api": a.String()})
		return
	}
	l1 := y.Len()
	w1, err := y.Serialize()
	if err != nil {
		mk("reserialize-error", map[string]any{"wire": vC18Hex(w0), "err": fmt.Sprint(err), "api": a.String()})
		return
	}
	if string(w0) != string(w1) {
		mk("wire-differs", map[string]any{"wire": vC18Hex(w0), "back": vC18Hex(w1), "api": a.String()})
	} else if l1 != len(w1) {
		mk("len-differs", map[string]any{"wire": vC18Hex(w0), "len_back": l1, "emitted": len(w1)})
	}
	a2, err := MarshalNLRI(y)
	if err != nil {
		mk("remarshal-error", map[string]any{"wire": vC18Hex(w0), "err": fmt.Sprint(err)})
		return
	}
	if !proto.Equal(a, a2) {
		mk("api-not-fixpoint", map[string]any{"wire": vC18Hex(w0), "api": a.String(), "api2": a2.String()})
	}
	return
}

func vC18OracleCap(x ParameterCapabilityInterface) (fails []vC18Fail) {
	tn := vC18TypeName(x)
	mk := func(kind string, d map[string]any) {
		fails = append(fails, vC18Fail{"cap:" + tn + ":" + kind, d})
	}
	defer func() {
		if e := recover(); e != nil {
			mk("panic", map[string]any{"panic": fmt.Sprint(e)})
		}
	}()
	w0, err := x.Serialize()
	if err != nil {
		return nil
	}
	a, err := MarshalCapability(x)
	if err != nil {
		mk("marshal-error", map[string]any{"wire": vC18Hex(w0), "err": fmt.Sprint(err)})
		return
	}
	ys, err := UnmarshalCapabilities([]*api.Capability{a})
	if err != nil || len(ys) != 1 {
		mk("unmarshal-error", map[string]any{"wire": vC18Hex(w0), "err": fmt.Sprint(err), "api": a.String()})
		return
	}
	w1, err := ys[0].Serialize()
	if err != nil {
		mk("reserialize-error", map[string]any{"wire": vC18Hex(w0), "err": fmt.Sprint(err)})
		return
	}
	if string(w0) != string(w1) {
		mk("wire-differs", map[string]any{"wire": vC18Hex(w0), "back": vC18Hex(w1), "api": a.String()})
	}
	a2, err := MarshalCapability(ys[0])
	if err != nil || !proto.Equal(a, a2) {
		mk("api-not-fixpoint", map[string]any{"wire": vC18Hex(w0), "api": a.String(), "api2": fmt.Sprint(a2)})
	}
	return
}

// vC18SameWire: the codec re-serialises its own decoding of w to w (otherwise the decoded twin is
// not a faithful native value: that is C04's subject, not a converter loss)
func vC18SameWire(x interface{ Serialize(...*MarshallingOption) ([]byte, error) }, w []byte) (ok bool) {
	defer func() {
		if e := recover(); e != nil {
			ok = false
		}
	}()
	b, err := x.Serialize()
	return err == nil && string(b) == string(w)
}

// vC18HasIPMSI: an MP attribute carrying an EVPN route type the API has no message for (reported
// once, at NLRI level, as nlri:EVPNNLRI.EVPNIPMSIRoute:marshal-empty)
func vC18HasIPMSI(x PathAttributeInterface) bool {
	var l []PathNLRI
	switch v := x.(type) {
	case *PathAttributeMpReachNLRI:
		l = v.Value
	case *PathAttributeMpUnreachNLRI:
		l = v.Value
	}
	for _, n := range l {
		if e, ok := n.NLRI.(*EVPNNLRI); ok {
			if _, ok := e.RouteTypeData.(*EVPNIPMSIRoute); ok {
				return true
			}
		}
	}
	return false
}

// the decoded twin of a constructed attribute (what a received attribute looks like)
func vC18DecodeAttr(w []byte) (p PathAttributeInterface) {
	defer func() {
		if e := recover(); e != nil {
			p = nil
		}
	}()
	p, err := GetPathAttribute(w)
	if err != nil {
		return nil
	}
	if err := p.DecodeFromBytes(w); err != nil {
		return nil
	}
	return p
}

func vC18DecodeNLRI(fam Family, w []byte) (n NLRI) {
	defer func() {
		if e := recover(); e != nil {
			n = nil
		}
	}()
	n, err := NLRIFromSlice(fam, w)
	if err != nil {
		return nil
	}
	return n
}

// isCanonNative: a modelled native attribute in the form the RIB holds (constructor flags, 4-octet
// AS numbers): the byte-level oracle applies to these; the others are covered by the stated
// normalisations (theorem C18.fromApi_toApi) and checked against the model only.
func vC18IsCanonNative(a PathAttributeInterface) bool {
	switch v := a.(type) {
	case *PathAttributeAsPath:
		for _, p := range v.Value {
			if _, ok := p.(*AsPathParam); ok {
				return false
			}
		}
	case *PathAttributeAggregator:
		if v.Value.Askind != reflect.Uint32 {
			return false
		}
	case *PathAttributeUnknown:
		return true
	}
	want := vC18AttrFlags(a.GetType(), a.Len()-3)
	return a.GetFlags()&^BGP_ATTR_FLAG_EXTENDED_LENGTH == want&^BGP_ATTR_FLAG_EXTENDED_LENGTH &&
		(a.GetFlags()&BGP_ATTR_FLAG_EXTENDED_LENGTH == 0 || a.Len() > 258)
}

func TestVerifC18(t *testing.T) {
	o := vOpen(t)
	defer o.close()
	r := &vRand{s: o.seed*7919 + 3}
	report := func(fs []vC18Fail) {
		for _, f := range fs {
			o.fail(f.class, f.detail)
		}
	}

	vC18Corpus(o)
	vC18SizeBoundary(o, &vRand{s: o.seed*104729 + 17})
	vC18XStream(o, &vRand{s: o.seed*15485863 + 29})
	vC18AddrClassSweep(o, &vRand{s: o.seed*32452843 + 31})

	// ---------- modelled fragment: attributes
	nAttr := 10000
	if o.thorough {
		nAttr = 60000
	}
	for i := 0; i < nAttr; i++ {
		x := vC18GenNative(r, o)
		if x == nil {
			continue
		}
		d, _, ok := vC18Native(x)
		if !ok {
			t.Fatalf("generator produced an unmodelled attribute %T", x)
		}
		o.stat("native_"+vC18TypeName(x), 1)
		as, err := MarshalPathAttributes([]PathAttributeInterface{x})
		if err != nil || len(as) != 1 {
			o.ask("marshal-error", "toapi %s", d)
			continue
		}
		ad, ar, ok := vC18Api(as[0])
		if !ok {
			o.ask("unmodelled-api", "toapi %s", d)
			continue
		}
		o.ask(ar, "toapi %s", d)
		res, y := vC18From(as[0])
		o.ask(res, "fromapi %s", ad)
		if i < 3 {
			o.sample(fmt.Sprintf("toapi %s -> %s ; fromapi -> %s", d, ar, res))
		}
		// oracle (model independent) on RIB-form natives
		if vC18IsCanonNative(x) {
			o.stat("oracle_attr_canonical", 1)
			report(vC18OracleAttr(x, "modelled"))
		} else if y != nil {
			o.stat("oracle_attr_normalised", 1)
			// the API value itself must be a fixpoint
			as2, err := MarshalPathAttributes([]PathAttributeInterface{y})
			if err != nil || len(as2) != 1 || !proto.Equal(as[0], as2[0]) {
				o.fail("attr:"+vC18TypeName(x)+":api-not-fixpoint", map[string]any{"native": d})
			}
		}
	}
	// generated API values (incl. ones Marshal never produces)
	for i := 0; i < nAttr; i++ {
		a := vC18GenApi(r)
		ad, _, ok := vC18Api(a)
		if !ok {
			t.Fatalf("generator produced an unmodelled api attribute")
		}
		res, y := vC18From(a)
		o.ask(res, "fromapi %s", ad)
		o.stat("fromapi_"+strings.SplitN(res, " ", 2)[0], 1)
		if y != nil {
			// Marshal(Unmarshal(a)) must be a fixpoint of another trip, whatever a was
			a1, err := MarshalPathAttributes([]PathAttributeInterface{y})
			if err == nil && len(a1) == 1 {
				if y2, err := UnmarshalPathAttributes(a1); err == nil && len(y2) == 1 {
					a2, _ := MarshalPathAttributes(y2)
					if len(a2) != 1 || !proto.Equal(a1[0], a2[0]) {
						o.fail("attr:"+vC18TypeName(y)+":api-not-fixpoint", map[string]any{"api": a1[0].String()})
					}
				}
			}
		}
	}
	// lists: duplicates are rejected by UnmarshalPathAttributes
	nList := 3000
	if o.thorough {
		nList = 20000
	}
	for i := 0; i < nList; i++ {
		n := r.pick(0, 1, 2, 3, 4, 6, 8)
		xs := []PathAttributeInterface{}
		ds := []string{}
		for j := 0; j < n; j++ {
			x := vC18GenNative(r, o)
			if x == nil {
				continue
			}
			d, _, _ := vC18Native(x)
			xs = append(xs, x)
			ds = append(ds, d)
		}
		as, err := MarshalPathAttributes(xs)
		if err != nil {
			continue
		}
		res := func() (s string) {
			defer func() {
				if e := recover(); e != nil {
					s = "panic"
				}
			}()
			ys, err := UnmarshalPathAttributes(as)
			if err != nil {
				return "err"
			}
			rs := []string{}
			var wire []byte
			for _, y := range ys {
				_, rr, _ := vC18Native(y)
				rs = append(rs, rr)
				w, _ := y.Serialize()
				wire = append(wire, w...)
			}
			return "ok " + strings.Join(rs, " ") + " wire=" + vC18Hex(wire)
		}()
		o.stat("attrs_"+strings.SplitN(res, " ", 2)[0], 1)
		o.ask(res, "attrs %d %s", len(xs), strings.Join(ds, " "))
		// API-side list with generated elements
		m := r.pick(0, 1, 2, 3, 5)
		al := []*api.Attribute{}
		ads := []string{}
		for j := 0; j < m; j++ {
			a := vC18GenApi(r)
			ad, _, _ := vC18Api(a)
			al = append(al, a)
			ads = append(ads, ad)
		}
		res2 := func() (s string) {
			defer func() {
				if e := recover(); e != nil {
					s = "panic"
				}
			}()
			ys, err := UnmarshalPathAttributes(al)
			if err != nil {
				return "err"
			}
			rs := []string{}
			for _, y := range ys {
				_, rr, _ := vC18Native(y)
				rs = append(rs, rr)
			}
			return "ok " + strings.Join(rs, " ")
		}()
		o.stat("fromattrs_"+strings.SplitN(res2, " ", 2)[0], 1)
		o.ask(res2, "fromattrs %d %s", len(al), strings.Join(ads, " "))
	}

	// ---------- modelled fragment: IPv4 prefixes
	nPfx := 6000
	if o.thorough {
		nPfx = 40000
	}
	for i := 0; i < nPfx; i++ {
		bits := r.pick(0, 1, 7, 8, 9, 15, 16, 17, 23, 24, 25, 31, 32, r.intn(33))
		x, err := NewIPAddrPrefix(netip.PrefixFrom(vC18GenAddr4(r), bits))
		if err != nil {
			continue
		}
		a, err := MarshalNLRI(x)
		if err != nil {
			o.fail("nlri:IPAddrPrefix:marshal-error", map[string]any{"prefix": x.String()})
			continue
		}
		p := a.GetPrefix()
		o.ask(fmt.Sprintf("Prefix %d %s", p.PrefixLen, vC18TextHex(p.Prefix)), "pfx %d %s", x.Prefix.Bits(), vC18Hex(x.Prefix.Addr().AsSlice()))
		// API side: generated (unmasked addresses, lengths beyond 32, texts that do not parse)
		if r.chance(50) {
			p = &api.IPAddressPrefix{PrefixLen: uint32(r.pick(0, 1, 8, 24, 31, 32, 33, 64, 128, 255, 256, r.intn(33))), Prefix: vC18GenAddr4(r).String()}
			if r.chance(10) {
				p.Prefix = []string{"", "1.2.3", "nope"}[r.intn(3)]
			}
		}
		res := func() (s string) {
			defer func() {
				if e := recover(); e != nil {
					s = "panic"
				}
			}()
			y, err := UnmarshalNLRI(RF_IPv4_UC, &api.NLRI{Nlri: &api.NLRI_Prefix{Prefix: p}})
			if err != nil {
				return "err"
			}
			q := y.(*IPAddrPrefix)
			w, _ := q.Serialize()
			return fmt.Sprintf("ok %d/%s wire=%s", q.Prefix.Bits(), vC18Hex(q.Prefix.Addr().AsSlice()), vC18Hex(w))
		}()
		o.stat("frompfx_"+strings.SplitN(res, " ", 2)[0], 1)
		o.ask(res, "frompfx %d %s", p.PrefixLen, vC18TextHex(p.Prefix))
	}

	// ---------- modelled fragment: capabilities
	nCap := 6000
	if o.thorough {
		nCap = 40000
	}
	for i := 0; i < nCap; i++ {
		x := vC18GenCapNative(r)
		d, _, ok := vC18CapNative(x)
		if !ok {
			t.Fatalf("generator produced an unmodelled capability %T", x)
		}
		o.stat("cap_"+vC18TypeName(x), 1)
		a, err := MarshalCapability(x)
		if err != nil {
			o.ask("marshal-error", "cap %s", d)
			continue
		}
		ad, ar, _ := vC18CapApi(a)
		o.ask(ar, "cap %s", d)
		o.ask(vC18CapFrom(a), "fromcap %s", ad)
		report(vC18OracleCap(x))
		g := vC18GenCapApi(r)
		gd, _, _ := vC18CapApi(g)
		res := vC18CapFrom(g)
		o.stat("fromcap_"+strings.SplitN(res, " ", 2)[0], 1)
		o.ask(res, "fromcap %s", gd)
	}

	// ---------- every attribute type, every family, every capability: oracle only (sampling)
	rounds := 20
	if o.thorough {
		rounds = 150
	}
	for k := 0; k < rounds; k++ {
		for _, c := range vC18GenAttrs(r) {
			o.stat("all_attr_"+vC18TypeName(c.attr), 1)
			w, err := c.attr.Serialize()
			report(vC18OracleAttr(c.attr, vC18BaseName(c.name)))
			vC18XAsk(o, c.attr)
			if err == nil {
				if d := vC18DecodeAttr(w); d != nil && vC18SameWire(d, w) {
					o.stat("all_attr_decoded", 1)
					vC18XAsk(o, d)
					report(vC18OracleAttr(d, vC18BaseName(c.name)+"(decoded)"))
				}
			}
		}
		// extended communities as received: any sub-type / flag octet of every type the parser knows
		for i := 0; i < 400; i++ {
			b := vC18Bytes(r, 8)
			b[0] = byte(r.pick(0x00, 0x01, 0x02, 0x03, 0x06, 0x08, 0x0c, 0x40, 0x41, 0x42, 0x43, 0x80, 0x81, 0x82, 0x88, 0x90, int(b[0])))
			if r.chance(80) {
				b[1] = byte(r.intn(0x18))
			}
			ec, err := ParseExtended(b)
			if err != nil || ec == nil {
				continue
			}
			o.stat("all_extcomm_parsed", 1)
			for _, f := range vC18OracleAttr(NewPathAttributeExtendedCommunities([]ExtendedCommunityInterface{ec}), "parsed-extcomm") {
				f.class = strings.Replace(f.class, "PathAttributeExtendedCommunities", "PathAttributeExtendedCommunities["+vC18TypeName(ec)+"]", 1)
				f.detail["octets"] = vC18Hex(b)
				o.fail(f.class, f.detail)
			}
		}
		for _, c := range vC18GenNLRIs(r) {
			o.stat("all_nlri_"+c.family.String(), 1)
			w, err := c.nlri.Serialize()
			report(vC18OracleNLRI(c.family, c.nlri, vC18BaseName(c.name)))
			if err == nil {
				if d := vC18DecodeNLRI(c.family, w); d != nil && vC18SameWire(d, w) {
					o.stat("all_nlri_decoded", 1)
					report(vC18OracleNLRI(c.family, d, vC18BaseName(c.name)+"(decoded)"))
				}
			}
			// api.Path level: NewPath -> GetNativeNlri / GetNativePathAttributes
			report(vC18OraclePath(c.family, c.nlri, r))
		}
		for _, c := range vC18GenCaps(r) {
			o.stat("all_cap_"+vC18TypeName(c), 1)
			report(vC18OracleCap(c))
			if w, err := c.Serialize(); err == nil {
				if d, err := DecodeCapability(w); err == nil {
					report(vC18OracleCap(d))
				}
			}
		}
	}
}

// NewPath / GetNativeNlri / GetNativePathAttributes with a small attribute set
func vC18OraclePath(fam Family, n NLRI, r *vRand) (fails []vC18Fail) {
	defer func() {
		if e := recover(); e != nil {
			fails = append(fails, vC18Fail{"path:panic", map[string]any{"family": fam.String(), "panic": fmt.Sprint(e)}})
		}
	}()
	w0, err := n.Serialize()
	if err != nil {
		return nil
	}
	attrs := []PathAttributeInterface{NewPathAttributeOrigin(uint8(r.intn(3))),
		NewPathAttributeAsPath([]AsPathParamInterface{NewAs4PathParam(2, []uint32{vC18GenAS(r, true), vC18GenAS(r, true)})}),
		NewPathAttributeLocalPref(vC18U32(r))}
	p, err := NewPath(fam, n, r.chance(20), attrs, time.Unix(int64(r.intn(1<<30)), 0))
	if err != nil {
		return nil // reported by the NLRI oracle
	}
	y, err := GetNativeNlri(p)
	if err != nil {
		return nil // reported by the NLRI oracle
	}
	w1, err := y.Serialize()
	if err != nil || string(w0) != string(w1) {
		return nil // reported by the NLRI oracle
	}
	if ToFamily(p.Family) != fam {
		fails = append(fails, vC18Fail{"path:family-differs", map[string]any{"family": fam.String(), "back": ToFamily(p.Family).String()}})
	}
	ya, err := GetNativePathAttributes(p)
	if err != nil || len(ya) != len(attrs) {
		fails = append(fails, vC18Fail{"path:attrs-lost", map[string]any{"family": fam.String(), "err": fmt.Sprint(err)}})
		return
	}
	for i := range attrs {
		a, _ := attrs[i].Serialize()
		b, _ := ya[i].Serialize()
		if string(a) != string(b) {
			fails = append(fails, vC18Fail{"path:attrs-differ", map[string]any{"family": fam.String(), "want": vC18Hex(a), "got": vC18Hex(b)}})
		}
	}
	return
}

// vC18Corpus: minimised past disagreements; deterministic, run before the random stream.
// Part 1 replays the witnesses of the …_counterexample theorems of Props/C18.lean on the real
// converters (model and code must agree on them, and the oracle names the loss); part 2 replays
// the inputs of the defects repaired on branch wt-C18 (they must stay repaired).
func vC18Corpus(o *vOut) {
	askBoth := func(x PathAttributeInterface) (lost bool) {
		d, _, _ := vC18Native(x)
		w0, _ := x.Serialize()
		as, err := MarshalPathAttributes([]PathAttributeInterface{x})
		if err != nil || len(as) != 1 {
			o.ask("marshal-error", "toapi %s", d)
			return true
		}
		ad, ar, _ := vC18Api(as[0])
		o.ask(ar, "toapi %s", d)
		res, y := vC18From(as[0])
		o.ask(res, "fromapi %s", ad)
		if y == nil {
			return true
		}
		w1, _ := y.Serialize()
		return string(w0) != string(w1)
	}
	// partial_flag_counterexample
	c := NewPathAttributeCommunities([]uint32{65001<<16 | 1})
	c.Flags |= BGP_ATTR_FLAG_PARTIAL
	if askBoth(c) {
		o.fail("native-form-not-representable:partial-bit", map[string]any{"attr": "COMMUNITIES flags 0xe0", "wire": "e00804fde90001"})
	}
	// unneeded_ext_flag_counterexample
	og := NewPathAttributeOrigin(0)
	og.Flags |= BGP_ATTR_FLAG_EXTENDED_LENGTH
	if askBoth(og) {
		o.fail("native-form-not-representable:unneeded-extended-length", map[string]any{"attr": "ORIGIN flags 0x50", "wire": "5001000100"})
	}
	// two_octet_aspath_counterexample / two_octet_aggregator_counterexample
	if askBoth(NewPathAttributeAsPath([]AsPathParamInterface{NewAsPathParam(2, []uint16{65001})})) {
		o.fail("native-form-not-representable:two-octet-as", map[string]any{"attr": "AS_PATH 2-octet [65001]", "wire": "40020402 01fde9"})
	}
	ag, _ := NewPathAttributeAggregator(uint16(65001), netip.MustParseAddr("10.0.0.1"))
	if askBoth(ag) {
		o.fail("native-form-not-representable:two-octet-as", map[string]any{"attr": "AGGREGATOR 2-octet 65001 10.0.0.1"})
	}
	// origin_truncation_counterexample, duplicate_type_rejected, prefix_masking_counterexample
	res, _ := vC18From(&api.Attribute{Attr: &api.Attribute_Origin{Origin: &api.OriginAttribute{Origin: 256}}})
	o.ask(res, "fromapi O 256")
	u1, u2 := NewPathAttributeUnknown(0xc0, 99, []byte{1}), NewPathAttributeUnknown(0xc0, 99, []byte{2})
	as, _ := MarshalPathAttributes([]PathAttributeInterface{u1, u2})
	dup := "ok"
	if _, err := UnmarshalPathAttributes(as); err != nil {
		dup = "err"
	}
	o.ask(dup, "attrs 2 192 99 1 u 01 192 99 1 u 02")
	if y, err := UnmarshalNLRI(RF_IPv4_UC, &api.NLRI{Nlri: &api.NLRI_Prefix{Prefix: &api.IPAddressPrefix{PrefixLen: 8, Prefix: "10.1.2.3"}}}); err == nil {
		q := y.(*IPAddrPrefix)
		w, _ := q.Serialize()
		o.ask(fmt.Sprintf("ok %d/%s wire=%s", q.Prefix.Bits(), vC18Hex(q.Prefix.Addr().AsSlice()), vC18Hex(w)), "frompfx 8 0a010203")
	} else {
		o.ask("err", "frompfx 8 0a010203")
	}

	// ---- part 2: repaired defects
	report := func(fs []vC18Fail) {
		for _, f := range fs {
			o.fail(f.class, f.detail)
		}
	}
	// a636d74 MP_REACH: IPv6 global + link-local next hop of an IPv4-unicast route (RFC 8950), and Len()
	p4, _ := NewIPAddrPrefix(netip.MustParsePrefix("192.0.2.0/24"))
	p6, _ := NewIPAddrPrefix(netip.MustParsePrefix("2001:db8::/32"))
	for _, c := range []struct {
		f Family
		n NLRI
	}{{RF_IPv4_UC, p4}, {RF_IPv6_UC, p6}} {
		mp, err := NewPathAttributeMpReachNLRI(c.f, []PathNLRI{{NLRI: c.n}}, netip.MustParseAddr("2001:db8::1"), netip.MustParseAddr("fe80::1"))
		if err == nil {
			report(vC18OracleAttr(mp, "corpus:mp-reach-link-local"))
		}
	}
	// 4c7c24d graceful restart: reserved flag bits
	gr := NewCapGracefulRestart(true, false, 120, []*CapGracefulRestartTuple{{AFI: 1, SAFI: 1, Flags: 0xc1}})
	gr.Flags = 0x0b
	report(vC18OracleCap(gr))
	report(vC18OracleCap(NewCapLongLivedGracefulRestart([]*CapLongLivedGracefulRestartTuple{{AFI: 2, SAFI: 1, Flags: 0x81, RestartTime: 3600}})))
	// bd74fb6 SR Policy NLRI length in bits
	if sr, err := NewSRPolicy(RF_SR_POLICY_IPv4, 96, 1, 100, []byte{10, 0, 0, 1}); err == nil {
		report(vC18OracleNLRI(RF_SR_POLICY_IPv4, sr, "corpus:sr-policy"))
	}
	// 49d0aa5 segment list without weight; 99c7b0e binding SID without value
	sl := &TunnelEncapSubTLVSRSegmentList{TunnelEncapSubTLV: TunnelEncapSubTLV{Type: ENCAP_SUBTLV_TYPE_SRSEGMENT_LIST},
		Segments: []TunnelEncapSubTLVInterface{&SegmentTypeA{TunnelEncapSubTLV: TunnelEncapSubTLV{Type: EncapSubTLVType(TypeA), Length: 6}, Flags: 0x80, Label: 16000 << 12}}}
	report(vC18OracleAttr(NewPathAttributeTunnelEncap([]*TunnelEncapTLV{NewTunnelEncapTLV(TUNNEL_TYPE_SR_POLICY, []TunnelEncapSubTLVInterface{sl})}), "corpus:seglist-no-weight"))
	if w, err := hex.DecodeString("c0170a000f0006" + "0d020000" + "0c00"); err == nil {
		_ = w
	}
	// 7d627b0 Prefix-SID: two information sub-TLVs; L2 service TLV
	info := func(b byte) PrefixSIDTLVInterface {
		sid := make([]byte, 16)
		sid[0] = b
		return NewSRv6InformationSubTLV(netip.AddrFrom16([16]byte(sid)), 17)
	}
	report(vC18OracleAttr(NewPathAttributePrefixSID(NewSRv6ServiceTLV(TLVTypeSRv6L3Service, info(1), info(2))), "corpus:prefix-sid-2-subtlvs"))
	report(vC18OracleAttr(NewPathAttributePrefixSID(NewSRv6ServiceTLV(TLVTypeSRv6L2Service, info(3))), "corpus:prefix-sid-l2"))
	// 2f2d497 extended community without an API message (EVPN Layer 2 Attributes, type 0x06 sub-type 0x04)
	if ec, err := ParseExtended([]byte{0x06, 0x04, 0x00, 0x12, 0x05, 0xdc, 0x00, 0x00}); err == nil {
		report(vC18OracleAttr(NewPathAttributeExtendedCommunities([]ExtendedCommunityInterface{ec}), "corpus:extcomm-l2-attributes"))
	}
}
