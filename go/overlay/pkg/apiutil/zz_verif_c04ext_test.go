//go:build verif

package apiutil

// C04 extension: correspondence of the extended-community DECODER (ParseExtended, the value loop of
// PathAttributeExtendedCommunities.DecodeFromBytes) with Model/WireExt.lean, for ALL kinds of input:
// octets serialised from constructor-built values, arbitrary 8-octet strings stratified over every
// type / sub-type the decoder distinguishes, short buffers, and whole attribute values of every
// length class.  Lives in package apiutil to reuse the C18 renderer of native values
// (vC18ExtNative), which is also what ties the encoder ApiConv.encExt to …Extended.Serialize.

import (
	"bytes"
	"fmt"
	"strings"
	"testing"

	. "github.com/osrg/gobgp/v4/pkg/packet/bgp"
)

func vC04ExtRender(e ExtendedCommunityInterface, err error) string {
	if err != nil {
		return "err"
	}
	if _, l2 := e.(*Layer2AttributesExtended); l2 {
		return "other"
	}
	s, ok := vC18ExtNative(e)
	if !ok {
		return "other"
	}
	return "ok " + s
}

var vC04ExtTypes = []int{0x00, 0x40, 0x01, 0x41, 0x02, 0x42, 0x03, 0x43, 0x06, 0x80, 0x81, 0x82, 0x0c,
	0x04, 0x05, 0x07, 0x08, 0x44, 0x83, 0x0b, 0x0d, 0x46, 0xc0, 0xff}
var vC04ExtSubs = []int{0, 1, 2, 3, 4, 5, 6, 7, 8, 9, 10, 11, 12, 13, 14, 0x80, 0xff}

func vC04ExtOctets(r *vRand) []byte {
	b := vC18Bytes(r, 8)
	if !r.chance(10) {
		b[0] = byte(vC04ExtTypes[r.intn(len(vC04ExtTypes))])
	}
	if !r.chance(15) {
		b[1] = byte(vC04ExtSubs[r.intn(len(vC04ExtSubs))])
	}
	if r.chance(30) { // reserved / flag octets at their edge values
		b[2+r.intn(6)] = byte(r.pick(0, 1, 2, 0x80, 0xff))
	}
	if r.chance(10) {
		for i := 2; i < 8; i++ {
			b[i] = 0
		}
	}
	return b
}

func vC04ExtOne(o *vOut, in []byte, kind string) {
	buf := append([]byte(nil), in...)
	e, err := ParseExtended(buf)
	res := vC04ExtRender(e, err)
	o.stat("xdec_"+kind+"_"+strings.SplitN(res, " ", 3)[0], 1)
	if strings.HasPrefix(res, "ok ") {
		o.stat("xdec_kind_"+strings.SplitN(res, " ", 3)[1], 1)
	}
	o.ask(res, "xdec %s", vC18Hex(in))
	if !bytes.Equal(buf, in) {
		o.fail("c04ext-decoder-wrote-input", map[string]any{"in": vC18Hex(in)})
	}
	if err != nil || e == nil {
		return
	}
	// implementation-side oracle (model-independent): the fixpoint half of the property
	w, err := e.Serialize()
	if err != nil || len(w) != 8 {
		o.fail("c04ext-decoded-value-does-not-serialise-to-8", map[string]any{"in": vC18Hex(in), "type": fmt.Sprintf("%T", e), "err": fmt.Sprint(err), "n": len(w)})
		return
	}
	e2, err2 := ParseExtended(w)
	if err2 != nil {
		o.fail("c04ext-reserialised-value-rejected", map[string]any{"in": vC18Hex(in), "wire": vC18Hex(w)})
		return
	}
	w2, err3 := e2.Serialize()
	if err3 != nil || !bytes.Equal(w, w2) {
		o.fail("c04ext-reserialise-not-fixpoint", map[string]any{"in": vC18Hex(in), "wire": vC18Hex(w), "wire2": vC18Hex(w2)})
	}
}

func vC04Ip6Render(e ExtendedCommunityInterface, err error) string {
	if err != nil {
		return "err"
	}
	s, ok := vC18Ip6Native(e)
	if !ok {
		return "unrenderable"
	}
	return "ok " + s
}

func vC04Ip6Octets(r *vRand) []byte {
	b := vC18Bytes(r, 20)
	if !r.chance(10) {
		b[0] = byte(r.pick(0x00, 0x40, 0x80, 0x80, 0x81, 0x82, 0x01, 0x41, 0xc0, 0xff))
	}
	if !r.chance(20) {
		b[1] = byte(r.pick(0x02, 0x03, 0x0b, 0x0b, 0x0c, 0x0d, 0x00, 0xff))
	}
	switch r.intn(6) {
	case 0: // IPv4-mapped
		copy(b[2:14], []byte{0, 0, 0, 0, 0, 0, 0, 0, 0, 0, 0xff, 0xff})
	case 1: // unspecified
		for i := 2; i < 18; i++ {
			b[i] = 0
		}
	case 2: // link-local
		b[2], b[3] = 0xfe, 0x80
	}
	return b
}

func vC04Ip6One(o *vOut, in []byte, kind string) {
	buf := append([]byte(nil), in...)
	e, err := ParseIP6Extended(buf)
	res := vC04Ip6Render(e, err)
	o.stat("x6dec_"+kind+"_"+strings.SplitN(res, " ", 3)[0], 1)
	if strings.HasPrefix(res, "ok ") {
		o.stat("x6dec_kind_"+strings.SplitN(res, " ", 3)[1], 1)
	}
	o.ask(res, "x6dec %s", vC18Hex(in))
	if !bytes.Equal(buf, in) {
		o.fail("c04ext-decoder-wrote-input", map[string]any{"in": vC18Hex(in)})
	}
	if err != nil || e == nil {
		return
	}
	w, err := e.Serialize()
	if err != nil || len(w) != 20 {
		o.fail("c04ext-ip6-decoded-value-does-not-serialise-to-20", map[string]any{"in": vC18Hex(in), "type": fmt.Sprintf("%T", e), "err": fmt.Sprint(err), "n": len(w)})
		return
	}
	e2, err2 := ParseIP6Extended(w)
	if err2 != nil {
		o.fail("c04ext-ip6-reserialised-value-rejected", map[string]any{"in": vC18Hex(in), "wire": vC18Hex(w)})
		return
	}
	if w2, err3 := e2.Serialize(); err3 != nil || !bytes.Equal(w, w2) {
		o.fail("c04ext-ip6-reserialise-not-fixpoint", map[string]any{"in": vC18Hex(in), "wire": vC18Hex(w), "wire2": vC18Hex(w2)})
	}
}

func vC04Ip6Stream(o *vOut, r *vRand, n int) {
	for ty := 0; ty < 256; ty++ { // every type octet x the sub-types the decoder looks at
		for _, st := range []int{0, 2, 3, 0x0b, 0x0c, 0xff} {
			b := vC18Bytes(r, 20)
			b[0], b[1] = byte(ty), byte(st)
			vC04Ip6One(o, b, "table")
		}
	}
	for i := 0; i < n; i++ {
		vC04Ip6One(o, append(vC04Ip6Octets(r), vC18Bytes(r, r.pick(0, 0, 1, 19, 20))...), "octets")
		if i%8 == 0 {
			vC04Ip6One(o, vC04Ip6Octets(r)[:r.intn(20)], "short")
		}
		if i%3 == 0 {
			k := r.pick(0, 1, 2, 12, 13)
			var v []byte
			for j := 0; j < k; j++ {
				v = append(v, vC04Ip6Octets(r)...)
			}
			if r.chance(20) {
				v = append(v, vC18Bytes(r, 1+r.intn(19))...)
			}
			var hdr []byte
			if len(v) > 255 {
				hdr = []byte{0xd0, 25, byte(len(v) >> 8), byte(len(v))}
			} else {
				hdr = []byte{0xc0, 25, byte(len(v))}
			}
			a := &PathAttributeIP6ExtendedCommunities{}
			err := a.DecodeFromBytes(append(hdr, v...))
			res := "err"
			if err == nil {
				parts := []string{fmt.Sprintf("ok %d", len(a.Value))}
				for _, x := range a.Value {
					parts = append(parts, strings.TrimPrefix(vC04Ip6Render(x, nil), "ok "))
				}
				res = strings.Join(parts, " | ")
				if len(a.Value)*20 != len(v) {
					o.fail("c04ext-ip6-attribute-count-not-length-over-20", map[string]any{"value": vC18Hex(v), "n": len(a.Value)})
				}
				if w, err := a.Serialize(); err == nil && a.Len() != len(w) {
					o.fail("c04ext-ip6-attribute-len-not-emitted", map[string]any{"value": vC18Hex(v), "len": a.Len(), "emitted": len(w)})
				}
			}
			o.stat("x6decs_"+strings.SplitN(res, " ", 2)[0], 1)
			o.ask(res, "x6decs %s", vC18Hex(v))
		}
	}
}

func TestVerifC04Ext(t *testing.T) {
	o := vOpen(t)
	defer o.close()
	r := &vRand{s: o.seed*6700417 + 41}
	n := 6000
	if o.thorough {
		n = 60000
	}
	vC04Ip6Stream(o, &vRand{s: o.seed*2147483647 + 43}, n/2)
	// the complete (type, sub-type) table with two payloads each: 2 x 65536 asks in the thorough
	// tier, the stratified types x all sub-types in the quick tier
	for _, ty := range vC04ExtTypes {
		for st := 0; st < 256; st++ {
			vC04ExtOne(o, []byte{byte(ty), byte(st), 0, 0, 0, 0, 0, 0}, "table")
			vC04ExtOne(o, []byte{byte(ty), byte(st), 1, 0x82, 0xfe, 3, 0x80, 0xff}, "table")
		}
	}
	if o.thorough {
		for ty := 0; ty < 256; ty++ {
			for st := 0; st < 256; st++ {
				b := vC18Bytes(r, 8)
				b[0], b[1] = byte(ty), byte(st)
				vC04ExtOne(o, b, "fulltable")
			}
		}
	} else {
		for ty := 0; ty < 256; ty++ {
			b := vC18Bytes(r, 8)
			b[0] = byte(ty)
			vC04ExtOne(o, b, "alltypes")
		}
	}
	for i := 0; i < n; i++ {
		// (a) octets of a constructor-built value, followed by 0..9 junk octets
		e := vC18GenExtNative(r)
		if w, err := e.Serialize(); err == nil {
			in := append(append([]byte(nil), w...), vC18Bytes(r, r.pick(0, 0, 1, 8, 9))...)
			vC04ExtOne(o, in, "built")
		}
		// (b) arbitrary octets, stratified over what the decoder distinguishes
		vC04ExtOne(o, append(vC04ExtOctets(r), vC18Bytes(r, r.pick(0, 0, 3, 8))...), "octets")
		// (c) short buffers
		if i%10 == 0 {
			vC04ExtOne(o, vC04ExtOctets(r)[:r.intn(8)], "short")
		}
		// (d) the attribute: k communities and 0..7 stray octets
		if i%3 == 0 {
			k := r.pick(0, 1, 2, 3, 5, 31, 32, 33)
			var v []byte
			for j := 0; j < k; j++ {
				if r.chance(50) {
					if w, err := vC18GenExtNative(r).Serialize(); err == nil {
						v = append(v, w...)
						continue
					}
				}
				v = append(v, vC04ExtOctets(r)...)
			}
			if r.chance(20) {
				v = append(v, vC18Bytes(r, 1+r.intn(7))...)
			}
			var hdr []byte
			if len(v) > 255 {
				hdr = []byte{0xd0, 16, byte(len(v) >> 8), byte(len(v))}
			} else {
				hdr = []byte{0xc0, 16, byte(len(v))}
			}
			a := &PathAttributeExtendedCommunities{}
			err := a.DecodeFromBytes(append(hdr, v...))
			res := "err"
			if err == nil {
				parts := []string{fmt.Sprintf("ok %d", len(a.Value))}
				for _, x := range a.Value {
					s := vC04ExtRender(x, nil)
					parts = append(parts, strings.TrimPrefix(s, "ok "))
				}
				res = strings.Join(parts, " | ")
				if len(a.Value)*8 != len(v) {
					o.fail("c04ext-attribute-count-not-length-over-8", map[string]any{"value": vC18Hex(v), "n": len(a.Value)})
				}
				if w, err := a.Serialize(); err == nil && a.Len() != len(w) {
					o.fail("c04ext-attribute-len-not-emitted", map[string]any{"value": vC18Hex(v), "len": a.Len(), "emitted": len(w)})
				}
			}
			o.stat("xdecs_"+strings.SplitN(res, " ", 2)[0], 1)
			o.ask(res, "xdecs %s", vC18Hex(v))
		}
	}
}
