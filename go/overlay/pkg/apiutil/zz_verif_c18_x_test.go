//go:build verif

package apiutil

// C18, second modelled group (lean/Model/ApiConvX.lean): extended communities, IPv6-address-specific
// extended communities, MP_REACH_NLRI / MP_UNREACH_NLRI with IPv4 / IPv6 unicast, labelled and VPN
// prefixes.  The canonical rendering of these values IS their description syntax (see the header of
// lean/Driver/C18.lean), so one function per direction serves both the op line and the answer.

import (
	"fmt"
	"math"
	"net"
	"net/netip"
	"strings"

	"github.com/osrg/gobgp/v4/api"

	. "github.com/osrg/gobgp/v4/pkg/packet/bgp"
)

func vC18B(b bool) string {
	if b {
		return "1"
	}
	return "0"
}

func vC18MacHex(s string) string {
	m, err := net.ParseMAC(s)
	if err != nil {
		return "-"
	}
	return vC18Hex(m)
}

func vC18AddrHex(a netip.Addr) string {
	if !a.IsValid() {
		return "-"
	}
	return vC18Hex(a.AsSlice())
}

// ---------------------------------------------------------------- native -> text

func vC18ExtNative(e ExtendedCommunityInterface) (string, bool) {
	switch v := e.(type) {
	case *TwoOctetAsSpecificExtended:
		return fmt.Sprintf("ec2 %d %d %d %s", v.SubType, v.AS, v.LocalAdmin, vC18B(v.IsTransitive)), true
	case *IPv4AddressSpecificExtended:
		return fmt.Sprintf("ecip %d %d %d %s", v.SubType, vC18AddrU32(v.IPv4), v.LocalAdmin, vC18B(v.IsTransitive)), v.IPv4.Is4()
	case *FourOctetAsSpecificExtended:
		return fmt.Sprintf("ec4 %d %d %d %s", v.SubType, v.AS, v.LocalAdmin, vC18B(v.IsTransitive)), true
	case *ValidationExtended:
		return fmt.Sprintf("val %d", v.State), true
	case *LinkBandwidthExtended:
		return fmt.Sprintf("lbw %d %d", v.AS, math.Float32bits(v.Bandwidth)), true
	case *ColorExtended:
		return fmt.Sprintf("col %d", v.Color), true
	case *EncapExtended:
		return fmt.Sprintf("enc %d", v.TunnelType), true
	case *DefaultGatewayExtended:
		return "dgw", true
	case *OpaqueExtended:
		return fmt.Sprintf("opq %s %s", vC18B(v.IsTransitive), vC18Hex(v.Value)), true
	case *ESILabelExtended:
		return fmt.Sprintf("esil %d %s", v.Label, vC18B(v.IsSingleActive)), true
	case *ESImportRouteTarget:
		return "esim " + vC18Hex(v.ESImport), true
	case *MacMobilityExtended:
		return fmt.Sprintf("macm %d %s", v.Sequence, vC18B(v.IsSticky)), true
	case *RouterMacExtended:
		return "rmac " + vC18Hex(v.Mac), true
	case *UnknownExtended:
		return fmt.Sprintf("unk %d %s", v.Type, vC18Hex(v.Value)), true
	case *Layer2AttributesExtended:
		b, err := v.Serialize()
		return "noapi " + vC18Hex(b), err == nil
	}
	return "", false
}

func vC18Ip6Native(e ExtendedCommunityInterface) (string, bool) {
	switch v := e.(type) {
	case *IPv6AddressSpecificExtended:
		return fmt.Sprintf("s %d %s %d %s", v.SubType, vC18AddrHex(v.IPv6), v.LocalAdmin, vC18B(v.IsTransitive)), v.IPv6.Is6()
	case *RedirectIPv6AddressSpecificExtended:
		return fmt.Sprintf("r %s %d", vC18AddrHex(v.IPv6), v.LocalAdmin), v.IPv6.Is6()
	case *UnknownIP6Extended:
		return fmt.Sprintf("u %d %s", v.Type, vC18Hex(v.Value)), true
	}
	return "", false
}

func vC18RdNative(rd RouteDistinguisherInterface) (string, bool) {
	switch v := rd.(type) {
	case *RouteDistinguisherTwoOctetAS:
		return fmt.Sprintf("r2 %d %d", v.Admin, v.Assigned), true
	case *RouteDistinguisherIPAddressAS:
		return fmt.Sprintf("rip %d %d", vC18AddrU32(v.Admin), v.Assigned), v.Admin.Is4()
	case *RouteDistinguisherFourOctetAS:
		return fmt.Sprintf("r4 %d %d", v.Admin, v.Assigned), true
	}
	return "", false
}

func vC18NlriNative(n NLRI) (string, bool) {
	switch v := n.(type) {
	case *IPAddrPrefix:
		return fmt.Sprintf("ip %d %s", v.Prefix.Bits(), vC18AddrHex(v.Prefix.Addr())), v.Prefix.IsValid()
	case *LabeledIPAddrPrefix:
		return fmt.Sprintf("lb %s %d %s", vC18List(v.Labels.Labels), v.Prefix.Bits(), vC18AddrHex(v.Prefix.Addr())), v.Prefix.IsValid()
	case *LabeledVPNIPAddrPrefix:
		rd, ok := vC18RdNative(v.RD)
		return fmt.Sprintf("vp %s %s %d %s", vC18List(v.Labels.Labels), rd, v.Prefix.Bits(), vC18AddrHex(v.Prefix.Addr())), ok && v.Prefix.IsValid()
	}
	return "", false
}

func vC18PathNlris(l []PathNLRI) (string, bool) {
	out := []string{fmt.Sprint(len(l))}
	for _, p := range l {
		if p.NLRI == nil {
			return "", false
		}
		d, ok := vC18NlriNative(p.NLRI)
		if !ok {
			return "", false
		}
		out = append(out, fmt.Sprintf("%d %s", p.ID, d))
	}
	return strings.Join(out, " "), true
}

// vC18XNative: description (= rendering) of a native attribute of the second group; ok = every
// element is of a modelled kind
func vC18XNative(a PathAttributeInterface) (string, bool) {
	hdr := func(p *PathAttribute) string { return fmt.Sprintf("%d %d %d ", p.Flags, p.Type, p.Length) }
	switch v := a.(type) {
	case *PathAttributeExtendedCommunities:
		out := []string{fmt.Sprint(len(v.Value))}
		for _, e := range v.Value {
			d, ok := vC18ExtNative(e)
			if !ok {
				return "", false
			}
			out = append(out, d)
		}
		return hdr(&v.PathAttribute) + "E " + strings.Join(out, " "), true
	case *PathAttributeIP6ExtendedCommunities:
		out := []string{fmt.Sprint(len(v.Value))}
		for _, e := range v.Value {
			d, ok := vC18Ip6Native(e)
			if !ok {
				return "", false
			}
			out = append(out, d)
		}
		return hdr(&v.PathAttribute) + "E6 " + strings.Join(out, " "), true
	case *PathAttributeMpReachNLRI:
		if v.SAFI == SAFI_FLOW_SPEC_UNICAST || v.SAFI == SAFI_FLOW_SPEC_VPN {
			return "", false
		}
		ns, ok := vC18PathNlris(v.Value)
		if !ok {
			return "", false
		}
		return hdr(&v.PathAttribute) + fmt.Sprintf("R %d %d %s %s %s", v.AFI, v.SAFI, vC18AddrHex(v.Nexthop), vC18AddrHex(v.LinkLocalNexthop), ns), true
	case *PathAttributeMpUnreachNLRI:
		ns, ok := vC18PathNlris(v.Value)
		if !ok {
			return "", false
		}
		return hdr(&v.PathAttribute) + fmt.Sprintf("N %d %d %s", v.AFI, v.SAFI, ns), true
	}
	return "", false
}

// ---------------------------------------------------------------- API -> text

func vC18ExtApi(c *api.ExtendedCommunity) (string, bool) {
	switch v := c.GetExtcom().(type) {
	case nil:
		return "Xe", true
	case *api.ExtendedCommunity_TwoOctetAsSpecific:
		x := v.TwoOctetAsSpecific
		return fmt.Sprintf("Ec2 %s %d %d %d", vC18B(x.IsTransitive), x.SubType, x.Asn, x.LocalAdmin), true
	case *api.ExtendedCommunity_Ipv4AddressSpecific:
		x := v.Ipv4AddressSpecific
		return fmt.Sprintf("Ecip %s %d %s %d", vC18B(x.IsTransitive), x.SubType, vC18TextHex(x.Address), x.LocalAdmin), true
	case *api.ExtendedCommunity_FourOctetAsSpecific:
		x := v.FourOctetAsSpecific
		return fmt.Sprintf("Ec4 %s %d %d %d", vC18B(x.IsTransitive), x.SubType, x.Asn, x.LocalAdmin), true
	case *api.ExtendedCommunity_Validation:
		return fmt.Sprintf("Val %d", v.Validation.State), true
	case *api.ExtendedCommunity_LinkBandwidth:
		return fmt.Sprintf("Lbw %d %d", v.LinkBandwidth.Asn, math.Float32bits(v.LinkBandwidth.Bandwidth)), true
	case *api.ExtendedCommunity_Color:
		return fmt.Sprintf("Col %d", v.Color.Color), true
	case *api.ExtendedCommunity_Encap:
		return fmt.Sprintf("Enc %d", v.Encap.TunnelType), true
	case *api.ExtendedCommunity_DefaultGateway:
		return "Dgw", true
	case *api.ExtendedCommunity_Opaque:
		return fmt.Sprintf("Opq %s %s", vC18B(v.Opaque.IsTransitive), vC18Hex(v.Opaque.Value)), true
	case *api.ExtendedCommunity_EsiLabel:
		return fmt.Sprintf("Esil %s %d", vC18B(v.EsiLabel.IsSingleActive), v.EsiLabel.Label), true
	case *api.ExtendedCommunity_EsImport:
		return "Esim " + vC18MacHex(v.EsImport.EsImport), true
	case *api.ExtendedCommunity_MacMobility:
		return fmt.Sprintf("Macm %s %d", vC18B(v.MacMobility.IsSticky), v.MacMobility.SequenceNum), true
	case *api.ExtendedCommunity_RouterMac:
		return "Rmac " + vC18MacHex(v.RouterMac.Mac), true
	case *api.ExtendedCommunity_Unknown:
		return fmt.Sprintf("Unk %d %s", v.Unknown.Type, vC18Hex(v.Unknown.Value)), true
	}
	return "", false
}

func vC18RdApi(rd *api.RouteDistinguisher) string {
	switch v := rd.GetRd().(type) {
	case *api.RouteDistinguisher_TwoOctetAsn:
		return fmt.Sprintf("R2 %d %d", v.TwoOctetAsn.Admin, v.TwoOctetAsn.Assigned)
	case *api.RouteDistinguisher_IpAddress:
		return fmt.Sprintf("Rip %s %d", vC18TextHex(v.IpAddress.Admin), v.IpAddress.Assigned)
	case *api.RouteDistinguisher_FourOctetAsn:
		return fmt.Sprintf("R4 %d %d", v.FourOctetAsn.Admin, v.FourOctetAsn.Assigned)
	}
	return "Xr"
}

func vC18NlriApi(n *api.NLRI) (string, bool) {
	switch v := n.GetNlri().(type) {
	case nil:
		return "Xn", true
	case *api.NLRI_Prefix:
		return fmt.Sprintf("Pf %d %s", v.Prefix.PrefixLen, vC18TextHex(v.Prefix.Prefix)), true
	case *api.NLRI_LabeledPrefix:
		return fmt.Sprintf("Lp %s %d %s", vC18List(v.LabeledPrefix.Labels), v.LabeledPrefix.PrefixLen, vC18TextHex(v.LabeledPrefix.Prefix)), true
	case *api.NLRI_LabeledVpnIpPrefix:
		x := v.LabeledVpnIpPrefix
		return fmt.Sprintf("Lv %s %s %d %s", vC18List(x.Labels), vC18RdApi(x.Rd), x.PrefixLen, vC18TextHex(x.Prefix)), true
	}
	return "", false
}

func vC18NlrisApi(l []*api.NLRI) (string, bool) {
	out := []string{fmt.Sprint(len(l))}
	for _, n := range l {
		d, ok := vC18NlriApi(n)
		if !ok {
			return "", false
		}
		out = append(out, d)
	}
	return strings.Join(out, " "), true
}

func vC18XApi(a *api.Attribute) (string, bool) {
	switch v := a.GetAttr().(type) {
	case *api.Attribute_ExtendedCommunities:
		out := []string{fmt.Sprint(len(v.ExtendedCommunities.Communities))}
		for _, c := range v.ExtendedCommunities.Communities {
			d, ok := vC18ExtApi(c)
			if !ok {
				return "", false
			}
			out = append(out, d)
		}
		return "AE " + strings.Join(out, " "), true
	case *api.Attribute_Ip6ExtendedCommunities:
		out := []string{fmt.Sprint(len(v.Ip6ExtendedCommunities.Communities))}
		for _, c := range v.Ip6ExtendedCommunities.Communities {
			switch w := c.GetExtcom().(type) {
			case nil:
				out = append(out, "X6")
			case *api.IP6ExtendedCommunitiesAttribute_Community_Ipv6AddressSpecific:
				x := w.Ipv6AddressSpecific
				out = append(out, fmt.Sprintf("S %s %d %s %d", vC18B(x.IsTransitive), x.SubType, vC18TextHex(x.Address), x.LocalAdmin))
			case *api.IP6ExtendedCommunitiesAttribute_Community_RedirectIpv6AddressSpecific:
				x := w.RedirectIpv6AddressSpecific
				out = append(out, fmt.Sprintf("R %s %d", vC18TextHex(x.Address), x.LocalAdmin))
			default:
				return "", false
			}
		}
		return "AE6 " + strings.Join(out, " "), true
	case *api.Attribute_MpReach:
		f := v.MpReach.Family
		if f == nil || f.Safi == 133 || f.Safi == 134 {
			return "", false
		}
		nhs := []string{fmt.Sprint(len(v.MpReach.NextHops))}
		for _, s := range v.MpReach.NextHops {
			nhs = append(nhs, vC18TextHex(s))
		}
		ns, ok := vC18NlrisApi(v.MpReach.Nlris)
		if !ok {
			return "", false
		}
		return fmt.Sprintf("AR %d %d %s %s", int32(f.Afi), int32(f.Safi), strings.Join(nhs, " "), ns), true
	case *api.Attribute_MpUnreach:
		f := v.MpUnreach.Family
		if f == nil {
			return "", false
		}
		ns, ok := vC18NlrisApi(v.MpUnreach.Nlris)
		if !ok {
			return "", false
		}
		return fmt.Sprintf("AN %d %d %s", int32(f.Afi), int32(f.Safi), ns), true
	}
	return "", false
}

// vC18XFrom renders the outcome of UnmarshalAttribute the way the driver renders fromApiX
func vC18XFrom(a *api.Attribute) (out string) {
	defer func() {
		if e := recover(); e != nil {
			out = "panic"
		}
	}()
	n, err := UnmarshalAttribute(a)
	if err != nil {
		return "err"
	}
	d, ok := vC18XNative(n)
	if !ok {
		return "unmodelled"
	}
	l := n.Len()
	w, err := n.Serialize()
	if err != nil {
		return "serialize-error"
	}
	return fmt.Sprintf("ok %s wire=%s len=%d", d, vC18Hex(w), l)
}

// vC18XAsk: both directions for one native attribute of the second group, when it is modelled
func vC18XAsk(o *vOut, x PathAttributeInterface) {
	d, ok := vC18XNative(x)
	if !ok {
		o.stat("x_native_unmodelled:"+vC18TypeName(x), 1)
		return
	}
	o.stat("x_native_asked:"+vC18TypeName(x), 1)
	as, err := func() (l []*api.Attribute, err error) {
		defer func() {
			if e := recover(); e != nil {
				err = fmt.Errorf("panic")
			}
		}()
		return MarshalPathAttributes([]PathAttributeInterface{x})
	}()
	if err != nil || len(as) != 1 {
		o.ask("marshal-error", "xtoapi %s", d)
		return
	}
	ad, ok := vC18XApi(as[0])
	if !ok {
		o.ask("unmodelled-api", "xtoapi %s", d)
		return
	}
	o.ask(ad, "xtoapi %s", d)
	o.ask(vC18XFrom(as[0]), "xfromapi %s", ad)
}

// ---------------------------------------------------------------- generators

func vC18GenExtNative(r *vRand) ExtendedCommunityInterface {
	st := ExtendedCommunityAttrSubType(r.pick(2, 3, 2, 5, 9, 0, 255, r.intn(256)))
	tr := r.chance(75)
	switch r.intn(15) {
	case 0:
		return NewTwoOctetAsSpecificExtended(st, uint16(vC18GenAS(r, false)), vC18U32(r), tr)
	case 1:
		e, _ := NewIPv4AddressSpecificExtended(st, vC18GenAddr4(r), vC18U16(r), tr)
		return e
	case 2:
		return NewFourOctetAsSpecificExtended(st, vC18GenAS(r, true), vC18U16(r), tr)
	case 3:
		return NewValidationExtended(ValidationState(r.pick(0, 1, 2, 3, 255)))
	case 4:
		return NewLinkBandwidthExtended(uint16(vC18GenAS(r, false)), math.Float32frombits(uint32(r.pick(0, 0x3f800000, 0x4e6e6b28, 0x7f800000, 0x7fc00001, int(r.u32())))))
	case 5:
		return NewColorExtended(vC18U32(r))
	case 6:
		return NewEncapExtended(TunnelType(r.pick(1, 2, 7, 8, 11, 15, 0, 65535)))
	case 7:
		return NewDefaultGatewayExtended()
	case 8:
		v := vC18Bytes(r, 7)
		v[0] = byte(r.pick(0x01, 0x06, 0x20, 0xff, int(v[0]))) // not a sub-type with a type of its own
		return NewOpaqueExtended(tr, v)
	case 9:
		return NewESILabelExtended(uint32(r.pick(0, 1, 16, 1<<20-1, 1<<24-1)), r.chance(50))
	case 10:
		return &ESImportRouteTarget{ESImport: net.HardwareAddr(vC18Bytes(r, 6))}
	case 11:
		return NewMacMobilityExtended(vC18U32(r), r.chance(50))
	case 12:
		return &RouterMacExtended{Mac: net.HardwareAddr(vC18Bytes(r, 6))}
	case 13:
		return NewUnknownExtended(ExtendedCommunityAttrType(r.pick(0x04, 0x05, 0x07, 0x44, 0x90, 0xff)), vC18Bytes(r, 7))
	default:
		e, err := ParseExtended([]byte{0x06, 0x04, 0x00, byte(r.intn(64)), byte(r.intn(256)), byte(r.intn(256)), 0, 0})
		if err != nil {
			return NewDefaultGatewayExtended()
		}
		return e
	}
}

func vC18GenExtApi(r *vRand) *api.ExtendedCommunity {
	st := uint32(r.pick(2, 3, 0, 255, 256, 258))
	tr := r.chance(70)
	mac := func() string {
		switch r.intn(6) {
		case 0:
			return ""
		case 1:
			return "zz:zz"
		case 2:
			return net.HardwareAddr(vC18Bytes(r, 8)).String()
		default:
			return net.HardwareAddr(vC18Bytes(r, 6)).String()
		}
	}
	switch r.intn(15) {
	case 0:
		return &api.ExtendedCommunity{Extcom: &api.ExtendedCommunity_TwoOctetAsSpecific{TwoOctetAsSpecific: &api.TwoOctetAsSpecificExtended{IsTransitive: tr, SubType: st, Asn: vC18GenAS(r, true), LocalAdmin: vC18U32(r)}}}
	case 1:
		return &api.ExtendedCommunity{Extcom: &api.ExtendedCommunity_Ipv4AddressSpecific{Ipv4AddressSpecific: &api.IPv4AddressSpecificExtended{IsTransitive: tr, SubType: st, Address: vC18GenText(r, true), LocalAdmin: uint32(r.pick(0, 1, 65535, 65536, 65537))}}}
	case 2:
		return &api.ExtendedCommunity{Extcom: &api.ExtendedCommunity_FourOctetAsSpecific{FourOctetAsSpecific: &api.FourOctetAsSpecificExtended{IsTransitive: tr, SubType: st, Asn: vC18GenAS(r, true), LocalAdmin: uint32(r.pick(0, 1, 65535, 65536, 65537))}}}
	case 3:
		return &api.ExtendedCommunity{Extcom: &api.ExtendedCommunity_Validation{Validation: &api.ValidationExtended{State: uint32(r.pick(0, 1, 2, 255, 256, 257))}}}
	case 4:
		return &api.ExtendedCommunity{Extcom: &api.ExtendedCommunity_LinkBandwidth{LinkBandwidth: &api.LinkBandwidthExtended{Asn: vC18GenAS(r, true), Bandwidth: math.Float32frombits(uint32(r.pick(0, 0x3f800000, 0x7f800000, int(r.u32()))))}}}
	case 5:
		return &api.ExtendedCommunity{Extcom: &api.ExtendedCommunity_Color{Color: &api.ColorExtended{Color: vC18U32(r)}}}
	case 6:
		return &api.ExtendedCommunity{Extcom: &api.ExtendedCommunity_Encap{Encap: &api.EncapExtended{TunnelType: uint32(r.pick(1, 8, 15, 65535, 65536, 65544))}}}
	case 7:
		return &api.ExtendedCommunity{Extcom: &api.ExtendedCommunity_DefaultGateway{DefaultGateway: &api.DefaultGatewayExtended{}}}
	case 8:
		return &api.ExtendedCommunity{Extcom: &api.ExtendedCommunity_Opaque{Opaque: &api.OpaqueExtended{IsTransitive: tr, Value: vC18Bytes(r, r.pick(0, 1, 6, 7, 7, 8, 9))}}}
	case 9:
		return &api.ExtendedCommunity{Extcom: &api.ExtendedCommunity_EsiLabel{EsiLabel: &api.ESILabelExtended{IsSingleActive: r.chance(50), Label: uint32(r.pick(0, 16, 1<<24-1, 1<<24, 4294967295))}}}
	case 10:
		return &api.ExtendedCommunity{Extcom: &api.ExtendedCommunity_EsImport{EsImport: &api.ESImportRouteTarget{EsImport: mac()}}}
	case 11:
		return &api.ExtendedCommunity{Extcom: &api.ExtendedCommunity_MacMobility{MacMobility: &api.MacMobilityExtended{IsSticky: r.chance(50), SequenceNum: vC18U32(r)}}}
	case 12:
		return &api.ExtendedCommunity{Extcom: &api.ExtendedCommunity_RouterMac{RouterMac: &api.RouterMacExtended{Mac: mac()}}}
	case 13:
		return &api.ExtendedCommunity{Extcom: &api.ExtendedCommunity_Unknown{Unknown: &api.UnknownExtended{Type: uint32(r.pick(4, 0x90, 255, 256, 260)), Value: vC18Bytes(r, r.pick(0, 6, 7, 7, 8))}}}
	default:
		return &api.ExtendedCommunity{}
	}
}

func vC18GenLabels(r *vRand) []uint32 {
	n := r.pick(1, 1, 2, 3)
	l := make([]uint32, n)
	for i := range l {
		l[i] = uint32(r.pick(16, 17, 1000, 1<<20-1, 3, r.intn(1<<20)))
	}
	return l
}

func vC18GenRdNative(r *vRand) RouteDistinguisherInterface {
	switch r.intn(3) {
	case 0:
		return NewRouteDistinguisherTwoOctetAS(uint16(vC18GenAS(r, false)), vC18U32(r))
	case 1:
		rd, _ := NewRouteDistinguisherIPAddressAS(vC18GenAddr4(r), vC18U16(r))
		return rd
	}
	return NewRouteDistinguisherFourOctetAS(vC18GenAS(r, true), vC18U16(r))
}

// MP_REACH / MP_UNREACH natives of the modelled families, incl. IPv4-mapped and link-local next hops,
// unmasked labelled prefixes and non-zero path identifiers
func vC18GenMpNative(r *vRand) PathAttributeInterface {
	afi := uint16(r.pick(AFI_IP, AFI_IP6))
	safi := uint8(r.pick(SAFI_UNICAST, SAFI_UNICAST, SAFI_MPLS_LABEL, SAFI_MPLS_VPN, SAFI_MULTICAST))
	n := r.pick(1, 1, 2, 3, 6)
	nl := []PathNLRI{}
	for i := 0; i < n; i++ {
		var pfx netip.Prefix
		if afi == AFI_IP {
			pfx = netip.PrefixFrom(vC18GenAddr4(r), r.pick(0, 1, 8, 17, 24, 31, 32))
		} else {
			pfx = netip.PrefixFrom(vC18V6(r), r.pick(0, 1, 32, 48, 63, 64, 127, 128))
		}
		var x NLRI
		switch safi {
		case SAFI_MPLS_LABEL:
			if r.chance(60) {
				pfx = pfx.Masked()
			}
			x, _ = NewLabeledIPAddrPrefix(pfx, *NewMPLSLabelStack(vC18GenLabels(r)...))
		case SAFI_MPLS_VPN:
			if r.chance(60) {
				pfx = pfx.Masked()
			}
			x, _ = NewLabeledVPNIPAddrPrefix(pfx, *NewMPLSLabelStack(vC18GenLabels(r)...), vC18GenRdNative(r))
		default:
			x, _ = NewIPAddrPrefix(pfx)
		}
		nl = append(nl, PathNLRI{NLRI: x, ID: uint32(r.pick(0, 0, 1, 7, 4294967295))})
	}
	fam := NewFamily(afi, safi)
	if r.chance(25) {
		a, _ := NewPathAttributeMpUnreachNLRI(fam, nl)
		return a
	}
	var nhs []netip.Addr
	switch r.intn(6) {
	case 0:
		nhs = []netip.Addr{vC18GenAddr4(r)}
	case 1:
		nhs = []netip.Addr{vC18V6(r)}
	case 2:
		nhs = []netip.Addr{vC18V6(r), vC18LL6(r)}
	case 3:
		nhs = []netip.Addr{netip.AddrFrom16(vC18GenAddr4(r).As16())} // ::ffff:a.b.c.d
	case 4:
		nhs = []netip.Addr{vC18V6(r), vC18V6(r)} // second one not link-local
	default:
		if afi == AFI_IP {
			nhs = []netip.Addr{vC18GenAddr4(r)}
		} else {
			nhs = []netip.Addr{vC18V6(r)}
		}
	}
	a, err := NewPathAttributeMpReachNLRI(fam, nl, nhs...)
	if err != nil {
		return nil
	}
	return a
}

func vC18GenNlriApi(r *vRand, v6 bool) *api.NLRI {
	addr := func() string {
		switch r.intn(12) {
		case 0:
			return ""
		case 1:
			return "nope"
		}
		if v6 {
			return vC18V6(r).String()
		}
		return vC18GenAddr4(r).String()
	}
	plen := func() uint32 {
		if v6 {
			return uint32(r.pick(0, 32, 64, 127, 128, 129, 255, 256))
		}
		return uint32(r.pick(0, 8, 24, 31, 32, 33, 128, 256))
	}
	labels := func() []uint32 {
		if r.chance(15) {
			return nil
		}
		l := vC18GenLabels(r)
		if r.chance(10) {
			l[0] = uint32(r.pick(1<<20, 1<<24, 4294967295))
		}
		return l
	}
	rd := func() *api.RouteDistinguisher {
		switch r.intn(5) {
		case 0:
			return &api.RouteDistinguisher{Rd: &api.RouteDistinguisher_TwoOctetAsn{TwoOctetAsn: &api.RouteDistinguisherTwoOctetASN{Admin: uint32(r.pick(1, 65535, 65536, 65537)), Assigned: vC18U32(r)}}}
		case 1:
			return &api.RouteDistinguisher{Rd: &api.RouteDistinguisher_IpAddress{IpAddress: &api.RouteDistinguisherIPAddress{Admin: vC18GenText(r, true), Assigned: uint32(r.pick(1, 65535, 65536))}}}
		case 2:
			return &api.RouteDistinguisher{Rd: &api.RouteDistinguisher_FourOctetAsn{FourOctetAsn: &api.RouteDistinguisherFourOctetASN{Admin: vC18GenAS(r, true), Assigned: uint32(r.pick(1, 65535, 65536))}}}
		case 3:
			return &api.RouteDistinguisher{}
		}
		return &api.RouteDistinguisher{Rd: &api.RouteDistinguisher_TwoOctetAsn{TwoOctetAsn: &api.RouteDistinguisherTwoOctetASN{Admin: 65000, Assigned: 1}}}
	}
	switch r.intn(8) {
	case 0, 1, 2:
		return &api.NLRI{Nlri: &api.NLRI_Prefix{Prefix: &api.IPAddressPrefix{PrefixLen: plen(), Prefix: addr()}}}
	case 3, 4:
		return &api.NLRI{Nlri: &api.NLRI_LabeledPrefix{LabeledPrefix: &api.LabeledIPAddressPrefix{Labels: labels(), PrefixLen: plen(), Prefix: addr()}}}
	case 5, 6:
		return &api.NLRI{Nlri: &api.NLRI_LabeledVpnIpPrefix{LabeledVpnIpPrefix: &api.LabeledVPNIPAddressPrefix{Labels: labels(), Rd: rd(), PrefixLen: plen(), Prefix: addr()}}}
	}
	return &api.NLRI{}
}

func vC18GenXApi(r *vRand) *api.Attribute {
	switch r.intn(4) {
	case 0:
		l := []*api.ExtendedCommunity{}
		for i, n := 0, r.pick(0, 1, 2, 3, 32); i < n; i++ {
			l = append(l, vC18GenExtApi(r))
		}
		return &api.Attribute{Attr: &api.Attribute_ExtendedCommunities{ExtendedCommunities: &api.ExtendedCommunitiesAttribute{Communities: l}}}
	case 1:
		l := []*api.IP6ExtendedCommunitiesAttribute_Community{}
		for i, n := 0, r.pick(0, 1, 2, 13); i < n; i++ {
			text := vC18V6(r).String()
			if r.chance(15) {
				text = vC18GenText(r, true)
			}
			switch r.intn(5) {
			case 0:
				l = append(l, &api.IP6ExtendedCommunitiesAttribute_Community{})
			case 1:
				l = append(l, &api.IP6ExtendedCommunitiesAttribute_Community{Extcom: &api.IP6ExtendedCommunitiesAttribute_Community_RedirectIpv6AddressSpecific{
					RedirectIpv6AddressSpecific: &api.RedirectIPv6AddressSpecificExtended{Address: text, LocalAdmin: uint32(r.pick(0, 65535, 65536))}}})
			default:
				l = append(l, &api.IP6ExtendedCommunitiesAttribute_Community{Extcom: &api.IP6ExtendedCommunitiesAttribute_Community_Ipv6AddressSpecific{
					Ipv6AddressSpecific: &api.IPv6AddressSpecificExtended{IsTransitive: r.chance(70), SubType: uint32(r.pick(2, 3, 255, 256)), Address: text, LocalAdmin: uint32(r.pick(0, 65535, 65537))}}})
			}
		}
		return &api.Attribute{Attr: &api.Attribute_Ip6ExtendedCommunities{Ip6ExtendedCommunities: &api.IP6ExtendedCommunitiesAttribute{Communities: l}}}
	}
	v6 := r.chance(50)
	fam := &api.Family{Afi: api.Family_Afi(r.pick(1, 2, 1, 2, 65537, 0)), Safi: api.Family_Safi(r.pick(1, 1, 4, 128, 2, 257))}
	if r.chance(70) {
		if v6 {
			fam.Afi = 2
		} else {
			fam.Afi = 1
		}
	}
	nl := []*api.NLRI{}
	for i, n := 0, r.pick(0, 1, 1, 2, 5); i < n; i++ {
		nl = append(nl, vC18GenNlriApi(r, v6))
	}
	if r.chance(25) {
		return &api.Attribute{Attr: &api.Attribute_MpUnreach{MpUnreach: &api.MpUnreachNLRIAttribute{Family: fam, Nlris: nl}}}
	}
	nhs := []string{}
	switch r.intn(8) {
	case 0:
	case 1:
		nhs = []string{vC18GenAddr4(r).String()}
	case 2:
		nhs = []string{vC18V6(r).String()}
	case 3:
		nhs = []string{vC18V6(r).String(), vC18LL6(r).String()}
	case 4:
		nhs = []string{vC18GenAddr4(r).String(), vC18LL6(r).String()}
	case 5:
		nhs = []string{vC18V6(r).String(), vC18GenText(r, true)}
	case 6:
		nhs = []string{vC18GenText(r, false)}
	default:
		nhs = []string{vC18V6(r).String(), vC18LL6(r).String(), vC18V6(r).String()}
	}
	return &api.Attribute{Attr: &api.Attribute_MpReach{MpReach: &api.MpReachNLRIAttribute{Family: fam, NextHops: nhs, Nlris: nl}}}
}

// vC18XStream: the correspondence stream of the second group
func vC18XStream(o *vOut, r *vRand) {
	n := 3000
	if o.thorough {
		n = 20000
	}
	for i := 0; i < n; i++ {
		// extended communities
		k := r.pick(0, 1, 1, 2, 3, 5, 31, 32, 33)
		l := make([]ExtendedCommunityInterface, 0, k)
		for j := 0; j < k; j++ {
			l = append(l, vC18GenExtNative(r))
		}
		x := NewPathAttributeExtendedCommunities(l)
		if r.chance(15) {
			x.Flags |= BGP_ATTR_FLAG_PARTIAL
		}
		vC18XAsk(o, x)
		// IPv6 extended communities
		k6 := r.pick(0, 1, 2, 12, 13)
		l6 := make([]ExtendedCommunityInterface, 0, k6)
		for j := 0; j < k6; j++ {
			switch r.intn(8) {
			case 0:
				e, _ := NewRedirectIPv6AddressSpecificExtended(vC18V6(r), vC18U16(r))
				l6 = append(l6, e)
			case 1:
				if r.chance(30) {
					l6 = append(l6, &UnknownIP6Extended{Type: ExtendedCommunityAttrType(r.pick(1, 0x90, 0xff)), Value: vC18Bytes(r, 19)})
					break
				}
				fallthrough
			default:
				e, _ := NewIPv6AddressSpecificExtended(ExtendedCommunityAttrSubType(r.pick(2, 3, 0, 255)), vC18V6(r), vC18U16(r), r.chance(70))
				l6 = append(l6, e)
			}
		}
		vC18XAsk(o, NewPathAttributeIP6ExtendedCommunities(l6))
		// MP_REACH / MP_UNREACH
		if m := vC18GenMpNative(r); m != nil && !vC18IsNil(m) {
			vC18XAsk(o, m)
			if x := m; vC18IsCanonX(x) {
				for _, f := range vC18OracleAttr(x, "modelled-x") {
					o.fail(f.class, f.detail)
				}
			}
		}
		// API values, incl. ones Marshal never produces
		a := vC18GenXApi(r)
		if ad, ok := vC18XApi(a); ok {
			res := vC18XFrom(a)
			o.stat("xfromapi_"+strings.SplitN(res, " ", 2)[0], 1)
			o.ask(res, "xfromapi %s", ad)
		}
	}
}

// vC18IsCanonX: an MP attribute in RIB form (path ids 0, masked prefixes, next hop not IPv4-mapped,
// second next hop link-local): the byte-level oracle applies
func vC18IsCanonX(a PathAttributeInterface) bool {
	var l []PathNLRI
	switch v := a.(type) {
	case *PathAttributeMpReachNLRI:
		if v.Nexthop.Is4In6() {
			return false
		}
		l = v.Value
	case *PathAttributeMpUnreachNLRI:
		l = v.Value
	default:
		return false
	}
	for _, p := range l {
		if p.ID != 0 {
			return false
		}
		w, err := p.NLRI.Serialize()
		if err != nil {
			return false
		}
		fam := NewFamily(AFI_IP, SAFI_UNICAST)
		switch v := a.(type) {
		case *PathAttributeMpReachNLRI:
			fam = NewFamily(v.AFI, v.SAFI)
		case *PathAttributeMpUnreachNLRI:
			fam = NewFamily(v.AFI, v.SAFI)
		}
		d := vC18DecodeNLRI(fam, w)
		if d == nil || !vC18SameWire(d, w) {
			return false
		}
		if d.String() != p.NLRI.String() {
			return false // unmasked host bits
		}
	}
	return true
}
