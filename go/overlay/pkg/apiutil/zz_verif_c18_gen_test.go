//go:build verif

package apiutil

import (
	"encoding/binary"
	"fmt"
	"net"
	"net/netip"
	"reflect"
	"sort"
	_ "testing"

	. "github.com/osrg/gobgp/v4/pkg/packet/bgp"
)

// Generators of structurally valid NLRIs / path attributes / capabilities for C04.
// Every random choice comes from the *vRand passed in.

type vC18NLRICase struct {
	name   string
	family Family
	nlri   NLRI
}

type vC18AttrCase struct {
	name string
	attr PathAttributeInterface
}

// vC18Try runs f and swallows a panic; reports whether f completed.
func vC18Try(f func()) (ok bool) {
	defer func() {
		if e := recover(); e != nil {
			ok = false
		}
	}()
	f()
	return true
}

func vC18IsNil(x any) bool {
	if x == nil {
		return true
	}
	v := reflect.ValueOf(x)
	switch v.Kind() {
	case reflect.Ptr, reflect.Map, reflect.Slice, reflect.Interface, reflect.Func, reflect.Chan:
		return v.IsNil()
	}
	return false
}

// ---------------------------------------------------------------- random helpers

func vC18Bytes(r *vRand, n int) []byte {
	b := make([]byte, n)
	for i := range b {
		b[i] = byte(r.next())
	}
	return b
}

func vC18U32(r *vRand) uint32 {
	switch r.intn(6) {
	case 0:
		return 0
	case 1:
		return 0xffffffff
	case 2:
		return 1
	case 3:
		return uint32(r.intn(65536))
	}
	return r.u32()
}

func vC18U16(r *vRand) uint16 {
	switch r.intn(5) {
	case 0:
		return 0
	case 1:
		return 0xffff
	}
	return uint16(r.next())
}

func vC18U8(r *vRand) uint8 {
	switch r.intn(5) {
	case 0:
		return 0
	case 1:
		return 0xff
	}
	return uint8(r.next())
}

func vC18Label(r *vRand) uint32 {
	switch r.intn(6) {
	case 0:
		return 0
	case 1:
		return 3
	case 2:
		return 1048575
	case 3:
		return 16
	}
	return uint32(r.intn(1 << 20))
}

func vC18V4(r *vRand) netip.Addr {
	var a [4]byte
	copy(a[:], vC18Bytes(r, 4))
	switch r.intn(8) {
	case 0:
		a = [4]byte{0, 0, 0, 0}
	case 1:
		a = [4]byte{255, 255, 255, 255}
	case 2:
		a[0] = 10
	}
	return netip.AddrFrom4(a)
}

func vC18V6(r *vRand) netip.Addr {
	var a [16]byte
	copy(a[:], vC18Bytes(r, 16))
	switch r.intn(8) {
	case 0:
		a = [16]byte{}
	case 1:
		for i := range a {
			a[i] = 0xff
		}
	case 2:
		a[0], a[1] = 0x20, 0x01
	}
	// never produce an IPv4-mapped address: it would change family on round trip
	if netip.AddrFrom16(a).Is4In6() {
		a[0] = 0x20
	}
	return netip.AddrFrom16(a)
}

func vC18LL6(r *vRand) netip.Addr {
	var a [16]byte
	copy(a[:], vC18Bytes(r, 16))
	a[0], a[1] = 0xfe, 0x80
	for i := 2; i < 8; i++ {
		a[i] = 0
	}
	return netip.AddrFrom16(a)
}

var vC18Bits4 = []int{0, 1, 7, 8, 9, 24, 31, 32}
var vC18Bits6 = []int{0, 1, 7, 8, 9, 24, 31, 32, 64, 127, 128}

func vC18Pfx4Bits(r *vRand, bits int) netip.Prefix {
	return netip.PrefixFrom(vC18V4(r), bits).Masked()
}

func vC18Pfx6Bits(r *vRand, bits int) netip.Prefix {
	return netip.PrefixFrom(vC18V6(r), bits).Masked()
}

func vC18Pfx4(r *vRand) netip.Prefix {
	if r.chance(25) {
		return vC18Pfx4Bits(r, r.intn(33))
	}
	return vC18Pfx4Bits(r, r.pick(vC18Bits4...))
}

func vC18Pfx6(r *vRand) netip.Prefix {
	if r.chance(25) {
		return vC18Pfx6Bits(r, r.intn(129))
	}
	return vC18Pfx6Bits(r, r.pick(vC18Bits6...))
}

func vC18MacHW(r *vRand) net.HardwareAddr {
	return net.HardwareAddr(vC18Bytes(r, 6))
}

func vC18MacStr(r *vRand) string {
	return vC18MacHW(r).String()
}

// vC18RD returns a route distinguisher; kind 0/1/2 = two-octet AS / IPv4 / four-octet AS.
func vC18RD(r *vRand, kind int) RouteDistinguisherInterface {
	switch kind % 3 {
	case 0:
		return NewRouteDistinguisherTwoOctetAS(vC18U16(r), vC18U32(r))
	case 1:
		rd, err := NewRouteDistinguisherIPAddressAS(vC18V4(r), vC18U16(r))
		if err == nil && rd != nil {
			return rd
		}
		return NewRouteDistinguisherTwoOctetAS(1, 1)
	}
	return NewRouteDistinguisherFourOctetAS(vC18U32(r), vC18U16(r))
}

func vC18Labels(r *vRand, depth int) *MPLSLabelStack {
	ls := make([]uint32, depth)
	for i := range ls {
		ls[i] = vC18Label(r)
	}
	return NewMPLSLabelStack(ls...)
}

func vC18ESI(r *vRand, typ ESIType) EthernetSegmentIdentifier {
	v := vC18Bytes(r, 9)
	switch typ {
	case ESI_LACP, ESI_MSTP, ESI_ROUTERID, ESI_AS:
		v[8] = 0
	case ESI_ARBITRARY:
		if r.chance(30) {
			v = make([]byte, 9) // single-homed
		}
	}
	return EthernetSegmentIdentifier{Type: typ, Value: v}
}

func vC18String(r *vRand, n int) string {
	const al = "abcdefghijklmnopqrstuvwxyz0123456789-._"
	b := make([]byte, n)
	for i := range b {
		b[i] = al[r.intn(len(al))]
	}
	return string(b)
}

// vC18RT returns a route-target extended community of one of three encodings.
func vC18RT(r *vRand, kind int) ExtendedCommunityInterface {
	switch kind % 3 {
	case 0:
		return NewTwoOctetAsSpecificExtended(EC_SUBTYPE_ROUTE_TARGET, vC18U16(r), vC18U32(r), true)
	case 1:
		e, err := NewIPv4AddressSpecificExtended(EC_SUBTYPE_ROUTE_TARGET, vC18V4(r), vC18U16(r), true)
		if err == nil && e != nil {
			return e
		}
		return NewTwoOctetAsSpecificExtended(EC_SUBTYPE_ROUTE_TARGET, 1, 1, true)
	}
	return NewFourOctetAsSpecificExtended(EC_SUBTYPE_ROUTE_TARGET, vC18U32(r), vC18U16(r), true)
}

// ---------------------------------------------------------------- NLRI generator

type vC18NLRIAcc struct {
	out []vC18NLRICase
}

func (a *vC18NLRIAcc) add(name string, fam Family, f func() (NLRI, error)) {
	vC18Try(func() {
		n, err := f()
		if err != nil || vC18IsNil(n) {
			return
		}
		a.out = append(a.out, vC18NLRICase{name: name, family: fam, nlri: n})
	})
}

func vC18GenNLRIs(r *vRand) []vC18NLRICase {
	a := &vC18NLRIAcc{}
	vC18GenNLRIsIP(r, a)
	vC18GenNLRIsVPN(r, a)
	vC18GenNLRIsRTC(r, a)
	vC18GenNLRIsEVPN(r, a)
	vC18GenNLRIsMisc(r, a)
	vC18GenNLRIsFlowSpec(r, a)
	vC18GenNLRIsLS(r, a)
	vC18GenNLRIsMUP(r, a)
	return a.out
}

func vC18GenNLRIsIP(r *vRand, a *vC18NLRIAcc) {
	for _, b := range vC18Bits4 {
		b := b
		a.add(fmt.Sprintf("ipv4-uc/%d", b), RF_IPv4_UC, func() (NLRI, error) { return NewIPAddrPrefix(vC18Pfx4Bits(r, b)) })
	}
	for _, b := range vC18Bits6 {
		b := b
		a.add(fmt.Sprintf("ipv6-uc/%d", b), RF_IPv6_UC, func() (NLRI, error) { return NewIPAddrPrefix(vC18Pfx6Bits(r, b)) })
	}
	for i := 0; i < 4; i++ {
		a.add(fmt.Sprintf("ipv4-mc#%d", i), RF_IPv4_MC, func() (NLRI, error) { return NewIPAddrPrefix(vC18Pfx4(r)) })
		a.add(fmt.Sprintf("ipv6-mc#%d", i), RF_IPv6_MC, func() (NLRI, error) { return NewIPAddrPrefix(vC18Pfx6(r)) })
	}
	for depth := 1; depth <= 3; depth++ {
		depth := depth
		for i := 0; i < 2; i++ {
			a.add(fmt.Sprintf("ipv4-mpls/d%d#%d", depth, i), RF_IPv4_MPLS, func() (NLRI, error) {
				return NewLabeledIPAddrPrefix(vC18Pfx4(r), *vC18Labels(r, depth))
			})
			a.add(fmt.Sprintf("ipv6-mpls/d%d#%d", depth, i), RF_IPv6_MPLS, func() (NLRI, error) {
				return NewLabeledIPAddrPrefix(vC18Pfx6(r), *vC18Labels(r, depth))
			})
		}
	}
}

func vC18GenNLRIsVPN(r *vRand, a *vC18NLRIAcc) {
	for kind := 0; kind < 3; kind++ {
		kind := kind
		for i := 0; i < 2; i++ {
			a.add(fmt.Sprintf("vpnv4/rd%d#%d", kind, i), RF_IPv4_VPN, func() (NLRI, error) {
				return NewLabeledVPNIPAddrPrefix(vC18Pfx4(r), *vC18Labels(r, 1+r.intn(3)), vC18RD(r, kind))
			})
			a.add(fmt.Sprintf("vpnv6/rd%d#%d", kind, i), RF_IPv6_VPN, func() (NLRI, error) {
				return NewLabeledVPNIPAddrPrefix(vC18Pfx6(r), *vC18Labels(r, 1+r.intn(3)), vC18RD(r, kind))
			})
		}
		a.add(fmt.Sprintf("vpnv4-mc/rd%d", kind), RF_IPv4_VPN_MC, func() (NLRI, error) {
			return NewLabeledVPNIPAddrPrefix(vC18Pfx4(r), *vC18Labels(r, 1+r.intn(2)), vC18RD(r, kind))
		})
		a.add(fmt.Sprintf("vpnv6-mc/rd%d", kind), RF_IPv6_VPN_MC, func() (NLRI, error) {
			return NewLabeledVPNIPAddrPrefix(vC18Pfx6(r), *vC18Labels(r, 1+r.intn(2)), vC18RD(r, kind))
		})
	}
}

func vC18GenNLRIsRTC(r *vRand, a *vC18NLRIAcc) {
	a.add("rtc/default", RF_RTC_UC, func() (NLRI, error) { return NewRouteTargetMembershipNLRI(0, nil), nil })
	a.add("rtc/as-only", RF_RTC_UC, func() (NLRI, error) {
		as := vC18U32(r)
		if as == 0 {
			as = 65000
		}
		return NewRouteTargetMembershipNLRI(as, nil), nil
	})
	for kind := 0; kind < 3; kind++ {
		kind := kind
		for i := 0; i < 2; i++ {
			a.add(fmt.Sprintf("rtc/rt%d#%d", kind, i), RF_RTC_UC, func() (NLRI, error) {
				return NewRouteTargetMembershipNLRI(vC18U32(r), vC18RT(r, kind)), nil
			})
		}
	}
}

func vC18GenNLRIsEVPN(r *vRand, a *vC18NLRIAcc) {
	esiTypes := []ESIType{ESI_ARBITRARY, ESI_LACP, ESI_MSTP, ESI_MAC, ESI_ROUTERID, ESI_AS}
	for i, et := range esiTypes {
		i, et := i, et
		a.add(fmt.Sprintf("evpn/ad/esi%d", int(et)), RF_EVPN, func() (NLRI, error) {
			return NewEVPNEthernetAutoDiscoveryRoute(vC18RD(r, i), vC18ESI(r, et), vC18U32(r), vC18Label(r)), nil
		})
	}
	ipKinds := []string{"noip", "v4", "v6"}
	for k, ipk := range ipKinds {
		for nl := 1; nl <= 2; nl++ {
			k, ipk, nl := k, ipk, nl
			a.add(fmt.Sprintf("evpn/macip/%s/l%d", ipk, nl), RF_EVPN, func() (NLRI, error) {
				var ip netip.Addr
				switch k {
				case 1:
					ip = vC18V4(r)
				case 2:
					ip = vC18V6(r)
				}
				labels := make([]uint32, nl)
				for j := range labels {
					labels[j] = vC18Label(r)
				}
				return NewEVPNMacIPAdvertisementRoute(vC18RD(r, r.intn(3)), vC18ESI(r, esiTypes[r.intn(len(esiTypes))]), vC18U32(r), vC18MacStr(r), ip, labels)
			})
		}
	}
	for i := 0; i < 2; i++ {
		a.add(fmt.Sprintf("evpn/imet/v4#%d", i), RF_EVPN, func() (NLRI, error) {
			return NewEVPNMulticastEthernetTagRoute(vC18RD(r, r.intn(3)), vC18U32(r), vC18V4(r))
		})
		a.add(fmt.Sprintf("evpn/imet/v6#%d", i), RF_EVPN, func() (NLRI, error) {
			return NewEVPNMulticastEthernetTagRoute(vC18RD(r, r.intn(3)), vC18U32(r), vC18V6(r))
		})
		a.add(fmt.Sprintf("evpn/es/v4#%d", i), RF_EVPN, func() (NLRI, error) {
			return NewEVPNEthernetSegmentRoute(vC18RD(r, r.intn(3)), vC18ESI(r, esiTypes[r.intn(len(esiTypes))]), vC18V4(r))
		})
		a.add(fmt.Sprintf("evpn/es/v6#%d", i), RF_EVPN, func() (NLRI, error) {
			return NewEVPNEthernetSegmentRoute(vC18RD(r, r.intn(3)), vC18ESI(r, esiTypes[r.intn(len(esiTypes))]), vC18V6(r))
		})
	}
	for i := 0; i < 3; i++ {
		a.add(fmt.Sprintf("evpn/prefix/v4#%d", i), RF_EVPN, func() (NLRI, error) {
			p := vC18Pfx4(r)
			return NewEVPNIPPrefixRoute(vC18RD(r, r.intn(3)), vC18ESI(r, esiTypes[r.intn(len(esiTypes))]), vC18U32(r), uint8(p.Bits()), p.Addr(), vC18V4(r), vC18Label(r))
		})
		a.add(fmt.Sprintf("evpn/prefix/v6#%d", i), RF_EVPN, func() (NLRI, error) {
			p := vC18Pfx6(r)
			return NewEVPNIPPrefixRoute(vC18RD(r, r.intn(3)), vC18ESI(r, esiTypes[r.intn(len(esiTypes))]), vC18U32(r), uint8(p.Bits()), p.Addr(), vC18V6(r), vC18Label(r))
		})
	}
	for kind := 0; kind < 3; kind++ {
		kind := kind
		a.add(fmt.Sprintf("evpn/ipmsi/rt%d", kind), RF_EVPN, func() (NLRI, error) {
			return NewEVPNIPMSIRoute(vC18RD(r, kind), vC18U32(r), vC18RT(r, kind)), nil
		})
	}
}

func vC18GenNLRIsMisc(r *vRand, a *vC18NLRIAcc) {
	for i := 0; i < 4; i++ {
		i := i
		a.add(fmt.Sprintf("vpls#%d", i), RF_VPLS, func() (NLRI, error) {
			return NewVPLSNLRI(vC18RD(r, i), vC18U16(r), vC18U16(r), vC18U16(r), vC18Label(r)), nil
		})
	}
	for i := 0; i < 3; i++ {
		a.add(fmt.Sprintf("encap-v4#%d", i), RF_IPv4_ENCAP, func() (NLRI, error) { return NewEncapNLRI(vC18V4(r)) })
		a.add(fmt.Sprintf("encap-v6#%d", i), RF_IPv6_ENCAP, func() (NLRI, error) { return NewEncapNLRI(vC18V6(r)) })
	}
	opaqueLens := [][2]int{{1, 0}, {3, 5}, {16, 64}, {200, 300}}
	for i, kl := range opaqueLens {
		i, kl := i, kl
		a.add(fmt.Sprintf("opaque#%d", i), RF_OPAQUE, func() (NLRI, error) {
			return NewOpaqueNLRI(vC18Bytes(r, kl[0]), vC18Bytes(r, kl[1])), nil
		})
	}
	for i := 0; i < 3; i++ {
		a.add(fmt.Sprintf("srpolicy-v4#%d", i), RF_SR_POLICY_IPv4, func() (NLRI, error) {
			return NewSRPolicy(RF_SR_POLICY_IPv4, SRPolicyIPv4NLRILen, vC18U32(r), vC18U32(r), vC18V4(r).AsSlice())
		})
		a.add(fmt.Sprintf("srpolicy-v6#%d", i), RF_SR_POLICY_IPv6, func() (NLRI, error) {
			return NewSRPolicy(RF_SR_POLICY_IPv6, SRPolicyIPv6NLRILen, vC18U32(r), vC18U32(r), vC18V6(r).AsSlice())
		})
	}
}

// ---------------------------------------------------------------- FlowSpec

// vC18FSItems builds 1..3 items for a numeric/bitmask component. sizeMode: 0 = let the
// constructor pick the width from the value, 1/2/4/8 = force that many value bytes.
func vC18FSItems(r *vRand, maxVal uint64, sizeMode int) []*FlowSpecComponentItem {
	n := 1 + r.intn(3)
	items := make([]*FlowSpecComponentItem, 0, n)
	for i := 0; i < n; i++ {
		op := uint8(r.intn(8)) // lt/gt/eq bits (or not/match for bitmask ops)
		if i > 0 && r.chance(50) {
			op |= 0x40 // AND
		}
		var v uint64
		switch r.intn(4) {
		case 0:
			v = 0
		case 1:
			v = maxVal
		default:
			v = r.next() % (maxVal + 1)
		}
		switch sizeMode {
		case 1:
			v &= 0xff
		case 2:
			op |= 0x10
			v &= 0xffff
		case 4:
			op |= 0x20
			v &= 0xffffffff
		case 8:
			op |= 0x30
		}
		items = append(items, NewFlowSpecComponentItem(op, v))
	}
	return items
}

type vC18FSNum struct {
	typ BGPFlowSpecType
	max uint64
}

var vC18FSNumIP = []vC18FSNum{
	{FLOW_SPEC_TYPE_IP_PROTO, 255},
	{FLOW_SPEC_TYPE_PORT, 65535},
	{FLOW_SPEC_TYPE_DST_PORT, 65535},
	{FLOW_SPEC_TYPE_SRC_PORT, 65535},
	{FLOW_SPEC_TYPE_ICMP_TYPE, 255},
	{FLOW_SPEC_TYPE_ICMP_CODE, 255},
	{FLOW_SPEC_TYPE_TCP_FLAG, 0xfff},
	{FLOW_SPEC_TYPE_PKT_LEN, 65535},
	{FLOW_SPEC_TYPE_DSCP, 63},
	{FLOW_SPEC_TYPE_FRAGMENT, 15},
}

var vC18FSNumL2 = []vC18FSNum{
	{FLOW_SPEC_TYPE_ETHERNET_TYPE, 65535},
	{FLOW_SPEC_TYPE_LLC_DSAP, 255},
	{FLOW_SPEC_TYPE_LLC_SSAP, 255},
	{FLOW_SPEC_TYPE_LLC_CONTROL, 65535},
	{FLOW_SPEC_TYPE_SNAP, 0xffffffffff},
	{FLOW_SPEC_TYPE_VID, 4095},
	{FLOW_SPEC_TYPE_COS, 7},
	{FLOW_SPEC_TYPE_INNER_VID, 4095},
	{FLOW_SPEC_TYPE_INNER_COS, 7},
}

// vC18FSComponents builds a list of distinct-typed components valid for the family.
func vC18FSComponents(r *vRand, fam Family, mode int) []FlowSpecComponentInterface {
	var cs []FlowSpecComponentInterface
	afi := fam.Afi()
	withDst := mode == 0 || r.chance(60)
	withSrc := mode == 0 || r.chance(50)
	switch afi {
	case AFI_IP:
		if withDst {
			if p, err := NewIPAddrPrefix(vC18Pfx4(r)); err == nil {
				cs = append(cs, NewFlowSpecDestinationPrefix(p))
			}
		}
		if withSrc {
			if p, err := NewIPAddrPrefix(vC18Pfx4(r)); err == nil {
				cs = append(cs, NewFlowSpecSourcePrefix(p))
			}
		}
	case AFI_IP6:
		if withDst {
			if p, err := NewIPAddrPrefix(vC18Pfx6(r)); err == nil {
				off := uint8(0)
				if p.Prefix.Bits() > 0 && r.chance(40) {
					off = uint8(r.intn(p.Prefix.Bits()))
				}
				cs = append(cs, NewFlowSpecDestinationPrefix6(p, off))
			}
		}
		if withSrc {
			if p, err := NewIPAddrPrefix(vC18Pfx6(r)); err == nil {
				cs = append(cs, NewFlowSpecSourcePrefix6(p, 0))
			}
		}
	case AFI_L2VPN:
		if withDst {
			cs = append(cs, NewFlowSpecDestinationMac(vC18MacHW(r)))
		}
		if withSrc {
			cs = append(cs, NewFlowSpecSourceMac(vC18MacHW(r)))
		}
	}
	pool := vC18FSNumIP
	if afi == AFI_L2VPN {
		pool = vC18FSNumL2
	} else if afi == AFI_IP6 {
		pool = append(append([]vC18FSNum{}, vC18FSNumIP...), vC18FSNum{FLOW_SPEC_TYPE_LABEL, 0xfffff})
	}
	sizes := []int{0, 0, 1, 2, 4, 8}
	switch mode {
	case 0: // prefixes only (plus maybe one numeric)
		if r.chance(50) {
			e := pool[r.intn(len(pool))]
			cs = append(cs, NewFlowSpecComponent(e.typ, vC18FSItems(r, e.max, 0)))
		}
	case 1: // a few numeric components
		for _, i := range r.perm(len(pool))[:1+r.intn(3)] {
			e := pool[i]
			cs = append(cs, NewFlowSpecComponent(e.typ, vC18FSItems(r, e.max, sizes[r.intn(len(sizes))])))
		}
	case 2: // every numeric component type of the family
		for _, e := range pool {
			cs = append(cs, NewFlowSpecComponent(e.typ, vC18FSItems(r, e.max, sizes[r.intn(len(sizes))])))
		}
	case 4: // long NLRI (>= 240 bytes of components): every numeric type, 3 items of 8 bytes
		for _, e := range pool {
			items := []*FlowSpecComponentItem{}
			for k := 0; k < 3; k++ {
				items = append(items, NewFlowSpecComponentItem(uint8(r.intn(8))|0x30, r.next()%(e.max+1)))
			}
			cs = append(cs, NewFlowSpecComponent(e.typ, items))
		}
	case 3: // forced wide values
		for _, i := range r.perm(len(pool))[:2] {
			e := pool[i]
			cs = append(cs, NewFlowSpecComponent(e.typ, vC18FSItems(r, e.max, r.pick(4, 8))))
		}
	}
	if len(cs) == 0 {
		e := pool[0]
		cs = append(cs, NewFlowSpecComponent(e.typ, vC18FSItems(r, e.max, 0)))
	}
	return cs
}

func vC18GenNLRIsFlowSpec(r *vRand, a *vC18NLRIAcc) {
	for _, fam := range []Family{RF_FS_IPv4_UC, RF_FS_IPv6_UC} {
		fam := fam
		for i := 0; i < 8; i++ {
			i := i
			a.add(fmt.Sprintf("%s/m%d#%d", fam, i%4, i), fam, func() (NLRI, error) {
				return NewFlowSpecUnicast(fam, vC18FSComponents(r, fam, i%4))
			})
		}
	}
	a.add(RF_FS_IPv4_UC.String()+"/long", RF_FS_IPv4_UC, func() (NLRI, error) {
		return NewFlowSpecUnicast(RF_FS_IPv4_UC, vC18FSComponents(r, RF_FS_IPv4_UC, 4))
	})
	a.add(RF_FS_IPv6_VPN.String()+"/long", RF_FS_IPv6_VPN, func() (NLRI, error) {
		return NewFlowSpecVPN(RF_FS_IPv6_VPN, vC18RD(r, 2), vC18FSComponents(r, RF_FS_IPv6_VPN, 4))
	})
	for _, fam := range []Family{RF_FS_IPv4_VPN, RF_FS_IPv6_VPN, RF_FS_L2_VPN} {
		fam := fam
		for i := 0; i < 6; i++ {
			i := i
			a.add(fmt.Sprintf("%s/m%d/rd%d", fam, i%4, i%3), fam, func() (NLRI, error) {
				return NewFlowSpecVPN(fam, vC18RD(r, i), vC18FSComponents(r, fam, i%4))
			})
		}
	}
}

// ---------------------------------------------------------------- BGP-LS (bytes -> decode)

func vC18LsTLV(typ uint16, val []byte) []byte {
	b := make([]byte, 4, 4+len(val))
	binary.BigEndian.PutUint16(b, typ)
	binary.BigEndian.PutUint16(b[2:], uint16(len(val)))
	return append(b, val...)
}

func vC18BE32(v uint32) []byte {
	b := make([]byte, 4)
	binary.BigEndian.PutUint32(b, v)
	return b
}

// vC18LsNodeDesc builds a Local (256) / Remote (257) Node Descriptor TLV.
func vC18LsNodeDesc(r *vRand, typ uint16) []byte {
	var sub []byte
	sub = append(sub, vC18LsTLV(512, vC18BE32(vC18U32(r)))...) // AS
	if r.chance(60) {
		sub = append(sub, vC18LsTLV(513, vC18BE32(vC18U32(r)))...) // BGP-LS ID
	}
	if r.chance(50) {
		sub = append(sub, vC18LsTLV(514, vC18BE32(vC18U32(r)))...) // OSPF area
	}
	sub = append(sub, vC18LsTLV(515, vC18Bytes(r, r.pick(4, 6, 7, 8)))...) // IGP router id
	return vC18LsTLV(typ, sub)
}

func vC18LsHeader(r *vRand) []byte {
	b := []byte{byte(1 + r.intn(6))} // protocol id ISIS-L1..OSPFv3
	id := make([]byte, 8)
	if r.chance(50) {
		binary.BigEndian.PutUint64(id, r.next())
	}
	return append(b, id...)
}

func vC18LsReach(r *vRand, v6 bool) []byte {
	var p netip.Prefix
	if v6 {
		p = vC18Pfx6(r)
	} else {
		p = vC18Pfx4(r)
	}
	n := (p.Bits() + 7) / 8
	val := append([]byte{byte(p.Bits())}, p.Addr().AsSlice()[:n]...)
	return vC18LsTLV(265, val)
}

func vC18LsNLRI(typ uint16, body []byte) (NLRI, error) {
	b := make([]byte, 4, 4+len(body))
	binary.BigEndian.PutUint16(b, typ)
	binary.BigEndian.PutUint16(b[2:], uint16(len(body)))
	b = append(b, body...)
	return NLRIFromSlice(RF_LS, b)
}

func vC18GenNLRIsLS(r *vRand, a *vC18NLRIAcc) {
	for i := 0; i < 3; i++ {
		a.add(fmt.Sprintf("ls/node#%d", i), RF_LS, func() (NLRI, error) {
			body := append(vC18LsHeader(r), vC18LsNodeDesc(r, 256)...)
			return vC18LsNLRI(1, body)
		})
	}
	for i := 0; i < 5; i++ {
		i := i
		a.add(fmt.Sprintf("ls/link/k%d", i), RF_LS, func() (NLRI, error) {
			body := append(vC18LsHeader(r), vC18LsNodeDesc(r, 256)...)
			body = append(body, vC18LsNodeDesc(r, 257)...)
			switch i {
			case 0: // link local/remote identifiers
				body = append(body, vC18LsTLV(258, append(vC18BE32(vC18U32(r)), vC18BE32(vC18U32(r))...))...)
			case 1: // IPv4 interface + neighbour address
				body = append(body, vC18LsTLV(259, vC18V4(r).AsSlice())...)
				body = append(body, vC18LsTLV(260, vC18V4(r).AsSlice())...)
			case 2: // IPv6 interface + neighbour address
				body = append(body, vC18LsTLV(261, vC18V6(r).AsSlice())...)
				body = append(body, vC18LsTLV(262, vC18V6(r).AsSlice())...)
			case 3: // everything
				body = append(body, vC18LsTLV(258, append(vC18BE32(vC18U32(r)), vC18BE32(vC18U32(r))...))...)
				body = append(body, vC18LsTLV(259, vC18V4(r).AsSlice())...)
				body = append(body, vC18LsTLV(260, vC18V4(r).AsSlice())...)
				body = append(body, vC18LsTLV(261, vC18V6(r).AsSlice())...)
				body = append(body, vC18LsTLV(262, vC18V6(r).AsSlice())...)
			case 4: // no link descriptors
			}
			return vC18LsNLRI(2, body)
		})
	}
	for i := 0; i < 3; i++ {
		i := i
		a.add(fmt.Sprintf("ls/prefix4#%d", i), RF_LS, func() (NLRI, error) {
			body := append(vC18LsHeader(r), vC18LsNodeDesc(r, 256)...)
			if i == 2 {
				body = append(body, vC18LsTLV(264, []byte{byte(1 + r.intn(6))})...) // OSPF route type
			}
			body = append(body, vC18LsReach(r, false)...)
			return vC18LsNLRI(3, body)
		})
		a.add(fmt.Sprintf("ls/prefix6#%d", i), RF_LS, func() (NLRI, error) {
			body := append(vC18LsHeader(r), vC18LsNodeDesc(r, 256)...)
			if i == 2 {
				body = append(body, vC18LsTLV(264, []byte{byte(1 + r.intn(6))})...)
			}
			body = append(body, vC18LsReach(r, true)...)
			return vC18LsNLRI(4, body)
		})
	}
	for i := 0; i < 2; i++ {
		i := i
		a.add(fmt.Sprintf("ls/srv6sid#%d", i), RF_LS, func() (NLRI, error) {
			body := append(vC18LsHeader(r), vC18LsNodeDesc(r, 256)...)
			body = append(body, vC18LsTLV(518, vC18V6(r).AsSlice())...)
			if i == 1 {
				mt := []byte{0, byte(r.intn(16))}
				body = append(body, vC18LsTLV(263, mt)...)
			}
			return vC18LsNLRI(6, body)
		})
	}
}

// ---------------------------------------------------------------- MUP

func vC18MUPTLVs(r *vRand, v6 bool, mode int) []MUPTLVInterface {
	addr := func() netip.Addr {
		if v6 {
			return vC18V6(r)
		}
		return vC18V4(r)
	}
	switch mode % 4 {
	case 1:
		return []MUPTLVInterface{NewMUPSessionParametersTLV(vC18V4(r), vC18U8(r))}
	case 2:
		return []MUPTLVInterface{NewMUPInterworkEndpointTLV(addr()), NewMUPSourceAddressTLV(addr())}
	case 3:
		return []MUPTLVInterface{
			NewMUPSessionParametersTLV(vC18V4(r), vC18U8(r)),
			NewMUPInterworkEndpointTLV(addr()),
			NewMUPSourceAddressTLV(addr()),
			NewMUPUnknownTLV(uint8(10+r.intn(200)), vC18Bytes(r, r.pick(0, 1, 7, 40))),
		}
	}
	return nil
}

func vC18GenNLRIsMUP(r *vRand, a *vC18NLRIAcc) {
	for _, v6 := range []bool{false, true} {
		v6 := v6
		fam, tag := RF_MUP_IPv4, "mup-v4"
		if v6 {
			fam, tag = RF_MUP_IPv6, "mup-v6"
		}
		pfx := func() netip.Prefix {
			if v6 {
				return vC18Pfx6(r)
			}
			return vC18Pfx4(r)
		}
		addr := func() netip.Addr {
			if v6 {
				return vC18V6(r)
			}
			return vC18V4(r)
		}
		for i := 0; i < 2; i++ {
			i := i
			a.add(fmt.Sprintf("%s/isd#%d", tag, i), fam, func() (NLRI, error) {
				return NewMUPInterworkSegmentDiscoveryRoute(vC18RD(r, i), pfx()), nil
			})
			a.add(fmt.Sprintf("%s/dsd#%d", tag, i), fam, func() (NLRI, error) {
				return NewMUPDirectSegmentDiscoveryRoute(vC18RD(r, i+1), addr()), nil
			})
		}
		for i := 0; i < 4; i++ {
			i := i
			a.add(fmt.Sprintf("%s/t1st#%d", tag, i), fam, func() (NLRI, error) {
				var sa *netip.Addr
				if i%2 == 1 {
					x := addr()
					sa = &x
				}
				return NewMUPType1SessionTransformedRoute(vC18RD(r, i), pfx(), vC18V4(r), vC18U8(r), addr(), sa, vC18MUPTLVs(r, v6, i)...), nil
			})
			a.add(fmt.Sprintf("%s/t2st#%d", tag, i), fam, func() (NLRI, error) {
				ea := addr()
				extra := r.pick(0, 1, 8, 9, 24, 31, 32)
				return NewMUPType2SessionTransformedRoute(vC18RD(r, i), uint8(ea.BitLen()+extra), ea, vC18V4(r), vC18MUPTLVs(r, v6, i)...), nil
			})
		}
	}
}

// ---------------------------------------------------------------- attribute generator

type vC18AttrAcc struct {
	out []vC18AttrCase
}

func (a *vC18AttrAcc) add(name string, f func() (PathAttributeInterface, error)) {
	vC18Try(func() {
		p, err := f()
		if err != nil || vC18IsNil(p) {
			return
		}
		a.out = append(a.out, vC18AttrCase{name: name, attr: p})
	})
}

type vC18ECGen struct {
	name string
	f    func(r *vRand) (ExtendedCommunityInterface, error)
}

func vC18ECGens() []vC18ECGen {
	subs := []ExtendedCommunityAttrSubType{EC_SUBTYPE_ROUTE_TARGET, EC_SUBTYPE_ROUTE_ORIGIN, EC_SUBTYPE_OSPF_DOMAIN_ID, EC_SUBTYPE_SOURCE_AS, EC_SUBTYPE_L2VPN_ID, EC_SUBTYPE_CISCO_VPN_DISTINGUISHER}
	sub := func(r *vRand) ExtendedCommunityAttrSubType { return subs[r.intn(len(subs))] }
	tunnels := []TunnelType{TUNNEL_TYPE_L2TP3, TUNNEL_TYPE_GRE, TUNNEL_TYPE_IP_IN_IP, TUNNEL_TYPE_VXLAN, TUNNEL_TYPE_NVGRE, TUNNEL_TYPE_MPLS, TUNNEL_TYPE_MPLS_IN_GRE, TUNNEL_TYPE_VXLAN_GRE, TUNNEL_TYPE_MPLS_IN_UDP, TUNNEL_TYPE_SR_POLICY, TUNNEL_TYPE_GENEVE}
	bw := func(r *vRand) float32 {
		switch r.intn(4) {
		case 0:
			return 0
		case 1:
			return 1.25e9
		}
		return float32(r.intn(1<<24)) * 8
	}
	g := []vC18ECGen{}
	for _, tr := range []bool{true, false} {
		tr := tr
		tn := "nontrans"
		if tr {
			tn = "trans"
		}
		g = append(g,
			vC18ECGen{"two-octet-as/rt/" + tn, func(r *vRand) (ExtendedCommunityInterface, error) {
				return NewTwoOctetAsSpecificExtended(EC_SUBTYPE_ROUTE_TARGET, vC18U16(r), vC18U32(r), tr), nil
			}},
			vC18ECGen{"two-octet-as/any/" + tn, func(r *vRand) (ExtendedCommunityInterface, error) {
				return NewTwoOctetAsSpecificExtended(sub(r), vC18U16(r), vC18U32(r), tr), nil
			}},
			vC18ECGen{"ipv4-addr/rt/" + tn, func(r *vRand) (ExtendedCommunityInterface, error) {
				return NewIPv4AddressSpecificExtended(EC_SUBTYPE_ROUTE_TARGET, vC18V4(r), vC18U16(r), tr)
			}},
			vC18ECGen{"ipv4-addr/any/" + tn, func(r *vRand) (ExtendedCommunityInterface, error) {
				return NewIPv4AddressSpecificExtended(sub(r), vC18V4(r), vC18U16(r), tr)
			}},
			vC18ECGen{"four-octet-as/rt/" + tn, func(r *vRand) (ExtendedCommunityInterface, error) {
				return NewFourOctetAsSpecificExtended(EC_SUBTYPE_ROUTE_TARGET, vC18U32(r), vC18U16(r), tr), nil
			}},
			vC18ECGen{"four-octet-as/any/" + tn, func(r *vRand) (ExtendedCommunityInterface, error) {
				return NewFourOctetAsSpecificExtended(sub(r), vC18U32(r), vC18U16(r), tr), nil
			}},
			vC18ECGen{"opaque/" + tn, func(r *vRand) (ExtendedCommunityInterface, error) {
				v := vC18Bytes(r, 7)
				v[0] = byte(0x20 + r.intn(0x40)) // a subtype no parser special-cases
				return NewOpaqueExtended(tr, v), nil
			}},
		)
	}
	for _, st := range []ValidationState{VALIDATION_STATE_VALID, VALIDATION_STATE_NOT_FOUND, VALIDATION_STATE_INVALID} {
		st := st
		g = append(g, vC18ECGen{fmt.Sprintf("validation/%d", int(st)), func(r *vRand) (ExtendedCommunityInterface, error) {
			return NewValidationExtended(st), nil
		}})
	}
	for _, b := range []bool{false, true} {
		b := b
		g = append(g,
			vC18ECGen{fmt.Sprintf("esi-label/%v", b), func(r *vRand) (ExtendedCommunityInterface, error) {
				return NewESILabelExtended(vC18Label(r), b), nil
			}},
			vC18ECGen{fmt.Sprintf("mac-mobility/%v", b), func(r *vRand) (ExtendedCommunityInterface, error) {
				return NewMacMobilityExtended(vC18U32(r), b), nil
			}},
			vC18ECGen{fmt.Sprintf("etree/%v", b), func(r *vRand) (ExtendedCommunityInterface, error) {
				return NewETreeExtended(vC18Label(r), b), nil
			}},
			vC18ECGen{fmt.Sprintf("multicast-flags/%v", b), func(r *vRand) (ExtendedCommunityInterface, error) {
				return NewMulticastFlagsExtended(b, r.chance(50)), nil
			}},
			vC18ECGen{fmt.Sprintf("traffic-action/%v", b), func(r *vRand) (ExtendedCommunityInterface, error) {
				return NewTrafficActionExtended(b, r.chance(50)), nil
			}},
		)
	}
	g = append(g,
		vC18ECGen{"link-bandwidth#0", func(r *vRand) (ExtendedCommunityInterface, error) {
			return NewLinkBandwidthExtended(vC18U16(r), bw(r)), nil
		}},
		vC18ECGen{"link-bandwidth#1", func(r *vRand) (ExtendedCommunityInterface, error) {
			return NewLinkBandwidthExtended(vC18U16(r), bw(r)), nil
		}},
		vC18ECGen{"color#0", func(r *vRand) (ExtendedCommunityInterface, error) { return NewColorExtended(vC18U32(r)), nil }},
		vC18ECGen{"color#1", func(r *vRand) (ExtendedCommunityInterface, error) { return NewColorExtended(vC18U32(r)), nil }},
		vC18ECGen{"encap#0", func(r *vRand) (ExtendedCommunityInterface, error) {
			return NewEncapExtended(tunnels[r.intn(len(tunnels))]), nil
		}},
		vC18ECGen{"encap#1", func(r *vRand) (ExtendedCommunityInterface, error) {
			return NewEncapExtended(tunnels[r.intn(len(tunnels))]), nil
		}},
		vC18ECGen{"default-gateway", func(r *vRand) (ExtendedCommunityInterface, error) { return NewDefaultGatewayExtended(), nil }},
		vC18ECGen{"es-import", func(r *vRand) (ExtendedCommunityInterface, error) { return NewESImportRouteTarget(vC18MacStr(r)), nil }},
		vC18ECGen{"router-mac", func(r *vRand) (ExtendedCommunityInterface, error) { return NewRoutersMacExtended(vC18MacStr(r)), nil }},
		vC18ECGen{"l2-attributes", func(r *vRand) (ExtendedCommunityInterface, error) {
			primary := r.chance(50)
			return &Layer2AttributesExtended{
				HasCILabel: r.chance(50), HasFlowLabel: r.chance(50), HasControlWord: r.chance(50),
				IsPrimaryPe: primary, IsBackupPe: !primary && r.chance(50), Mtu: vC18U16(r),
			}, nil
		}},
		vC18ECGen{"traffic-rate#0", func(r *vRand) (ExtendedCommunityInterface, error) {
			return NewTrafficRateExtended(vC18U16(r), bw(r)), nil
		}},
		vC18ECGen{"traffic-rate#1", func(r *vRand) (ExtendedCommunityInterface, error) {
			return NewTrafficRateExtended(vC18U16(r), 0), nil
		}},
		vC18ECGen{"redirect-two-octet-as", func(r *vRand) (ExtendedCommunityInterface, error) {
			return NewRedirectTwoOctetAsSpecificExtended(vC18U16(r), vC18U32(r)), nil
		}},
		vC18ECGen{"redirect-ipv4", func(r *vRand) (ExtendedCommunityInterface, error) {
			return NewRedirectIPv4AddressSpecificExtended(vC18V4(r), vC18U16(r))
		}},
		vC18ECGen{"redirect-four-octet-as", func(r *vRand) (ExtendedCommunityInterface, error) {
			return NewRedirectFourOctetAsSpecificExtended(vC18U32(r), vC18U16(r)), nil
		}},
		vC18ECGen{"traffic-remark", func(r *vRand) (ExtendedCommunityInterface, error) {
			return NewTrafficRemarkExtended(uint8(r.intn(64))), nil
		}},
		vC18ECGen{"unknown#0", func(r *vRand) (ExtendedCommunityInterface, error) {
			return NewUnknownExtended(ExtendedCommunityAttrType(0x90+r.intn(0x20)), vC18Bytes(r, 7)), nil
		}},
		vC18ECGen{"unknown#1", func(r *vRand) (ExtendedCommunityInterface, error) {
			return NewUnknownExtended(ExtendedCommunityAttrType(0x20+r.intn(0x10)), vC18Bytes(r, 7)), nil
		}},
		vC18ECGen{"vpls-l2info", func(r *vRand) (ExtendedCommunityInterface, error) {
			return NewVPLSExtended(vC18U8(r), vC18U16(r)), nil
		}},
	)
	for _, st := range []ExtendedCommunityAttrSubType{EC_SUBTYPE_MUP_DIRECT_SEG, EC_SUBTYPE_MUP_INTERWORK_SEG} {
		st := st
		g = append(g, vC18ECGen{fmt.Sprintf("mup/%d", int(st)), func(r *vRand) (ExtendedCommunityInterface, error) {
			return NewMUPExtended(st, vC18U16(r), vC18U32(r)), nil
		}})
	}
	for _, st := range []ExtendedCommunityAttrSubType{EC_SUBTYPE_MUP_DIRECT_SEG_IPV4, EC_SUBTYPE_MUP_INTERWORK_SEG_IPV4} {
		st := st
		g = append(g, vC18ECGen{fmt.Sprintf("mup-ipv4/%d", int(st)), func(r *vRand) (ExtendedCommunityInterface, error) {
			return NewMUPIPv4AddressSpecificExtended(st, vC18V4(r), vC18U16(r))
		}})
	}
	for _, st := range []ExtendedCommunityAttrSubType{EC_SUBTYPE_MUP_DIRECT_SEG_4_OCTET_AS, EC_SUBTYPE_MUP_INTERWORK_SEG_4_OCTET_AS} {
		st := st
		g = append(g, vC18ECGen{fmt.Sprintf("mup-4octet/%d", int(st)), func(r *vRand) (ExtendedCommunityInterface, error) {
			return NewMUPFourOctetAsSpecificExtended(st, vC18U32(r), vC18U16(r)), nil
		}})
	}
	return g
}

func vC18GenAttrsExtComm(r *vRand, a *vC18AttrAcc) {
	gens := vC18ECGens()
	mk := func(g vC18ECGen) (ExtendedCommunityInterface, bool) {
		var ec ExtendedCommunityInterface
		var err error
		ok := vC18Try(func() { ec, err = g.f(r) })
		if !ok || err != nil || vC18IsNil(ec) {
			return nil, false
		}
		return ec, true
	}
	for _, g := range gens {
		g := g
		a.add("extcomm:"+g.name, func() (PathAttributeInterface, error) {
			ec, ok := mk(g)
			if !ok {
				return nil, fmt.Errorf("skip")
			}
			return NewPathAttributeExtendedCommunities([]ExtendedCommunityInterface{ec}), nil
		})
	}
	for i, n := range []int{0, 5, 12, 40} {
		i, n := i, n
		a.add(fmt.Sprintf("extcomm:mixed#%d", i), func() (PathAttributeInterface, error) {
			ecs := []ExtendedCommunityInterface{}
			for len(ecs) < n {
				if ec, ok := mk(gens[r.intn(len(gens))]); ok {
					ecs = append(ecs, ec)
				}
			}
			return NewPathAttributeExtendedCommunities(ecs), nil
		})
	}
}

func vC18GenAttrsIP6ExtComm(r *vRand, a *vC18AttrAcc) {
	type g6 struct {
		name string
		f    func() (ExtendedCommunityInterface, error)
	}
	gens := []g6{
		{"ipv6-addr/rt/trans", func() (ExtendedCommunityInterface, error) {
			return NewIPv6AddressSpecificExtended(EC_SUBTYPE_ROUTE_TARGET, vC18V6(r), vC18U16(r), true)
		}},
		{"ipv6-addr/ro/trans", func() (ExtendedCommunityInterface, error) {
			return NewIPv6AddressSpecificExtended(EC_SUBTYPE_ROUTE_ORIGIN, vC18V6(r), vC18U16(r), true)
		}},
		{"ipv6-addr/rt/nontrans", func() (ExtendedCommunityInterface, error) {
			return NewIPv6AddressSpecificExtended(EC_SUBTYPE_ROUTE_TARGET, vC18V6(r), vC18U16(r), false)
		}},
		{"redirect-ipv6", func() (ExtendedCommunityInterface, error) {
			return NewRedirectIPv6AddressSpecificExtended(vC18V6(r), vC18U16(r))
		}},
		{"unknown-ip6", func() (ExtendedCommunityInterface, error) {
			return &UnknownIP6Extended{Type: ExtendedCommunityAttrType(0x90 + r.intn(0x20)), Value: vC18Bytes(r, 19)}, nil
		}},
	}
	for _, g := range gens {
		g := g
		a.add("ip6extcomm:"+g.name, func() (PathAttributeInterface, error) {
			ec, err := g.f()
			if err != nil || vC18IsNil(ec) {
				return nil, fmt.Errorf("skip")
			}
			return NewPathAttributeIP6ExtendedCommunities([]ExtendedCommunityInterface{ec}), nil
		})
	}
	a.add("ip6extcomm:mixed", func() (PathAttributeInterface, error) {
		ecs := []ExtendedCommunityInterface{}
		for i := 0; i < 6; i++ {
			if ec, err := gens[r.intn(len(gens))].f(); err == nil && !vC18IsNil(ec) {
				ecs = append(ecs, ec)
			}
		}
		return NewPathAttributeIP6ExtendedCommunities(ecs), nil
	})
}

// ---------------------------------------------------------------- tunnel encap

type vC18SubTLVGen struct {
	name string
	f    func(r *vRand) (TunnelEncapSubTLVInterface, error)
}

func vC18SegA(r *vRand) TunnelEncapSubTLVInterface {
	return &SegmentTypeA{
		TunnelEncapSubTLV: TunnelEncapSubTLV{Type: EncapSubTLVType(TypeA), Length: 6},
		Flags:             uint8(r.intn(16)) << 4,
		Label:             vC18Label(r)<<12 | uint32(r.intn(8))<<9 | uint32(r.intn(2))<<8 | uint32(r.intn(256)),
	}
}

func vC18SegB(r *vRand, withEBS bool) TunnelEncapSubTLVInterface {
	s := &SegmentTypeB{
		TunnelEncapSubTLV: TunnelEncapSubTLV{Type: EncapSubTLVType(TypeB), Length: 18},
		Flags:             uint8(r.intn(16)) << 4,
		SID:               vC18V6(r).AsSlice(),
	}
	if withEBS {
		s.Length = 26
		s.SRv6EBS = &SRv6EndpointBehaviorStructure{
			Behavior: SRBehavior(r.pick(int(END), int(END_DT4), int(END_DT6), int(END_DX2), int(ENDM_GTP6E), 0xffff)),
			BlockLen: uint8(r.pick(0, 32, 40, 48)), NodeLen: uint8(r.pick(0, 16, 24)), FuncLen: uint8(r.pick(0, 16)), ArgLen: uint8(r.pick(0, 8, 16)),
		}
	}
	return s
}

func vC18SegList(r *vRand, withWeight bool, segs []TunnelEncapSubTLVInterface) TunnelEncapSubTLVInterface {
	l := 1
	sl := &TunnelEncapSubTLVSRSegmentList{
		TunnelEncapSubTLV: TunnelEncapSubTLV{Type: ENCAP_SUBTLV_TYPE_SRSEGMENT_LIST},
		Segments:          segs,
	}
	if withWeight {
		sl.Weight = &SegmentListWeight{
			TunnelEncapSubTLV: TunnelEncapSubTLV{Type: SegmentListSubTLVWeight, Length: 6},
			Flags:             0,
			Weight:            vC18U32(r),
		}
		l += 8
	}
	for _, s := range segs {
		l += s.Len()
	}
	sl.Length = uint16(l)
	return sl
}

func vC18SubTLVGens() []vC18SubTLVGen {
	g := []vC18SubTLVGen{
		{"unknown/short", func(r *vRand) (TunnelEncapSubTLVInterface, error) {
			return NewTunnelEncapSubTLVUnknown(EncapSubTLVType(r.pick(3, 5, 7, 9, 10, 11, 100)), vC18Bytes(r, r.pick(0, 1, 8, 100))), nil
		}},
		{"unknown/long-form", func(r *vRand) (TunnelEncapSubTLVInterface, error) {
			return NewTunnelEncapSubTLVUnknown(EncapSubTLVType(130+r.intn(100)), vC18Bytes(r, r.pick(0, 3, 300))), nil
		}},
		{"encapsulation", func(r *vRand) (TunnelEncapSubTLVInterface, error) {
			return NewTunnelEncapSubTLVEncapsulation(vC18U32(r), vC18Bytes(r, r.pick(0, 4, 8, 64))), nil
		}},
		{"protocol", func(r *vRand) (TunnelEncapSubTLVInterface, error) {
			return NewTunnelEncapSubTLVProtocol(vC18U16(r)), nil
		}},
		{"color", func(r *vRand) (TunnelEncapSubTLVInterface, error) { return NewTunnelEncapSubTLVColor(vC18U32(r)), nil }},
		{"egress-endpoint/v4", func(r *vRand) (TunnelEncapSubTLVInterface, error) {
			return NewTunnelEncapSubTLVEgressEndpoint(vC18V4(r))
		}},
		{"egress-endpoint/v6", func(r *vRand) (TunnelEncapSubTLVInterface, error) {
			return NewTunnelEncapSubTLVEgressEndpoint(vC18V6(r))
		}},
		{"udp-dest-port", func(r *vRand) (TunnelEncapSubTLVInterface, error) {
			return NewTunnelEncapSubTLVUDPDestPort(vC18U16(r)), nil
		}},
		{"sr-preference", func(r *vRand) (TunnelEncapSubTLVInterface, error) {
			return NewTunnelEncapSubTLVSRPreference(uint32(r.intn(256)), vC18U32(r)), nil
		}},
		{"sr-priority", func(r *vRand) (TunnelEncapSubTLVInterface, error) {
			return NewTunnelEncapSubTLVSRPriority(vC18U8(r)), nil
		}},
		{"sr-cpname/short", func(r *vRand) (TunnelEncapSubTLVInterface, error) {
			return NewTunnelEncapSubTLVSRCandidatePathName(vC18String(r, 1+r.intn(12))), nil
		}},
		{"sr-cpname/long", func(r *vRand) (TunnelEncapSubTLVInterface, error) {
			return NewTunnelEncapSubTLVSRCandidatePathName(vC18String(r, 300)), nil
		}},
	}
	for _, e := range []SRENLPValue{ENLPType1, ENLPType2, ENLPType3, ENLPType4} {
		e := e
		g = append(g, vC18SubTLVGen{fmt.Sprintf("sr-enlp/%d", int(e)), func(r *vRand) (TunnelEncapSubTLVInterface, error) {
			return NewTunnelEncapSubTLVSRENLP(uint32(r.intn(256)), e), nil
		}})
	}
	for _, n := range []int{0, 4, 16} {
		n := n
		g = append(g, vC18SubTLVGen{fmt.Sprintf("sr-bsid/%d", n), func(r *vRand) (TunnelEncapSubTLVInterface, error) {
			var raw []byte
			switch n {
			case 4:
				raw = vC18BE32(vC18Label(r))
			case 16:
				raw = vC18V6(r).AsSlice()
			}
			b, err := NewBSID(raw)
			if err != nil {
				return nil, err
			}
			if b == nil {
				b = &BSID{Value: []byte{}}
			}
			return &TunnelEncapSubTLVSRBSID{
				TunnelEncapSubTLV: TunnelEncapSubTLV{Type: ENCAP_SUBTLV_TYPE_SRBINDING_SID, Length: uint16(2 + n)},
				Flags:             uint8(r.pick(0, 0x80, 0x40, 0xc0)),
				BSID:              b,
			}, nil
		}})
	}
	g = append(g,
		vC18SubTLVGen{"sr-seglist/empty", func(r *vRand) (TunnelEncapSubTLVInterface, error) {
			return vC18SegList(r, false, nil), nil
		}},
		vC18SubTLVGen{"sr-seglist/weight-only", func(r *vRand) (TunnelEncapSubTLVInterface, error) {
			return vC18SegList(r, true, nil), nil
		}},
		vC18SubTLVGen{"sr-seglist/typeA", func(r *vRand) (TunnelEncapSubTLVInterface, error) {
			segs := []TunnelEncapSubTLVInterface{}
			for i := 0; i < 1+r.intn(3); i++ {
				segs = append(segs, vC18SegA(r))
			}
			return vC18SegList(r, r.chance(50), segs), nil
		}},
		vC18SubTLVGen{"sr-seglist/typeB", func(r *vRand) (TunnelEncapSubTLVInterface, error) {
			segs := []TunnelEncapSubTLVInterface{}
			for i := 0; i < 1+r.intn(3); i++ {
				segs = append(segs, vC18SegB(r, false))
			}
			return vC18SegList(r, r.chance(50), segs), nil
		}},
		vC18SubTLVGen{"sr-seglist/typeB-ebs", func(r *vRand) (TunnelEncapSubTLVInterface, error) {
			segs := []TunnelEncapSubTLVInterface{}
			for i := 0; i < 1+r.intn(3); i++ {
				segs = append(segs, vC18SegB(r, true))
			}
			return vC18SegList(r, true, segs), nil
		}},
		vC18SubTLVGen{"sr-seglist/mixed", func(r *vRand) (TunnelEncapSubTLVInterface, error) {
			segs := []TunnelEncapSubTLVInterface{vC18SegA(r), vC18SegB(r, false), vC18SegB(r, true), vC18SegA(r)}
			return vC18SegList(r, true, segs), nil
		}},
	)
	return g
}

func vC18GenAttrsTunnelEncap(r *vRand, a *vC18AttrAcc) {
	gens := vC18SubTLVGens()
	tunnels := []TunnelType{TUNNEL_TYPE_L2TP3, TUNNEL_TYPE_GRE, TUNNEL_TYPE_IP_IN_IP, TUNNEL_TYPE_VXLAN, TUNNEL_TYPE_NVGRE, TUNNEL_TYPE_MPLS, TUNNEL_TYPE_MPLS_IN_GRE, TUNNEL_TYPE_VXLAN_GRE, TUNNEL_TYPE_MPLS_IN_UDP, TUNNEL_TYPE_GENEVE}
	mk := func(g vC18SubTLVGen) (TunnelEncapSubTLVInterface, bool) {
		var s TunnelEncapSubTLVInterface
		var err error
		ok := vC18Try(func() { s, err = g.f(r) })
		if !ok || err != nil || vC18IsNil(s) {
			return nil, false
		}
		return s, true
	}
	for gi, g := range gens {
		gi, g := gi, g
		a.add("tunnel-encap:"+g.name, func() (PathAttributeInterface, error) {
			s, ok := mk(g)
			if !ok {
				return nil, fmt.Errorf("skip")
			}
			tt := TUNNEL_TYPE_SR_POLICY
			if gi < 8 {
				tt = tunnels[r.intn(len(tunnels))]
			}
			return NewPathAttributeTunnelEncap([]*TunnelEncapTLV{NewTunnelEncapTLV(tt, []TunnelEncapSubTLVInterface{s})}), nil
		})
	}
	a.add("tunnel-encap:multi-subtlv", func() (PathAttributeInterface, error) {
		subs := []TunnelEncapSubTLVInterface{}
		for _, i := range []int{2, 3, 4, 5, 7} {
			if s, ok := mk(gens[i]); ok {
				subs = append(subs, s)
			}
		}
		return NewPathAttributeTunnelEncap([]*TunnelEncapTLV{NewTunnelEncapTLV(TUNNEL_TYPE_VXLAN, subs)}), nil
	})
	a.add("tunnel-encap:multi-tlv", func() (PathAttributeInterface, error) {
		tlvs := []*TunnelEncapTLV{}
		for i := 0; i < 3; i++ {
			subs := []TunnelEncapSubTLVInterface{}
			for _, j := range r.perm(8)[:1+r.intn(3)] {
				if s, ok := mk(gens[j]); ok {
					subs = append(subs, s)
				}
			}
			tlvs = append(tlvs, NewTunnelEncapTLV(tunnels[r.intn(len(tunnels))], subs))
		}
		return NewPathAttributeTunnelEncap(tlvs), nil
	})
	a.add("tunnel-encap:sr-policy-full", func() (PathAttributeInterface, error) {
		subs := []TunnelEncapSubTLVInterface{}
		for _, g := range gens {
			switch g.name {
			case "sr-preference", "sr-priority", "sr-cpname/short", "sr-enlp/3", "sr-bsid/4", "sr-seglist/typeA", "sr-seglist/mixed":
				if s, ok := mk(g); ok {
					subs = append(subs, s)
				}
			}
		}
		return NewPathAttributeTunnelEncap([]*TunnelEncapTLV{NewTunnelEncapTLV(TUNNEL_TYPE_SR_POLICY, subs)}), nil
	})
}

// ---------------------------------------------------------------- PMSI, AIGP

func vC18GenAttrsPmsiAigp(r *vRand, a *vC18AttrAcc) {
	a.add("pmsi:ingress-repl/v4", func() (PathAttributeInterface, error) {
		id, err := NewIngressReplTunnelID(vC18V4(r))
		if err != nil {
			return nil, err
		}
		return NewPathAttributePmsiTunnel(PMSI_TUNNEL_TYPE_INGRESS_REPL, r.chance(50), vC18Label(r), id), nil
	})
	a.add("pmsi:ingress-repl/v6", func() (PathAttributeInterface, error) {
		id, err := NewIngressReplTunnelID(vC18V6(r))
		if err != nil {
			return nil, err
		}
		return NewPathAttributePmsiTunnel(PMSI_TUNNEL_TYPE_INGRESS_REPL, r.chance(50), vC18Label(r), id), nil
	})
	kinds := []struct {
		t PmsiTunnelType
		n int
	}{
		{PMSI_TUNNEL_TYPE_NO_TUNNEL, 0},
		{PMSI_TUNNEL_TYPE_RSVP_TE_P2MP, 12},
		{PMSI_TUNNEL_TYPE_MLDP_P2MP, 17},
		{PMSI_TUNNEL_TYPE_PIM_SSM_TREE, 8},
		{PMSI_TUNNEL_TYPE_PIM_SM_TREE, 8},
		{PMSI_TUNNEL_TYPE_BIDIR_PIM_TREE, 8},
		{PMSI_TUNNEL_TYPE_MLDP_MP2MP, 17},
		{PmsiTunnelType(0x40), 300},
	}
	for _, k := range kinds {
		k := k
		a.add(fmt.Sprintf("pmsi:default-id/t%d", int(k.t)), func() (PathAttributeInterface, error) {
			return NewPathAttributePmsiTunnel(k.t, r.chance(50), vC18Label(r), NewDefaultPmsiTunnelID(vC18Bytes(r, k.n))), nil
		})
	}
	for i := 0; i < 2; i++ {
		i := i
		a.add(fmt.Sprintf("aigp:igp-metric#%d", i), func() (PathAttributeInterface, error) {
			m := r.next()
			if i == 0 {
				m = uint64(r.pick(0, 1, 1000))
			}
			return NewPathAttributeAigp([]AigpTLVInterface{NewAigpTLVIgpMetric(m)}), nil
		})
	}
	a.add("aigp:default-tlv", func() (PathAttributeInterface, error) {
		return NewPathAttributeAigp([]AigpTLVInterface{NewAigpTLVDefault(AigpTLVType(2+r.intn(200)), vC18Bytes(r, r.pick(1, 8, 40)))}), nil
	})
	a.add("aigp:mixed", func() (PathAttributeInterface, error) {
		return NewPathAttributeAigp([]AigpTLVInterface{
			NewAigpTLVIgpMetric(r.next()),
			NewAigpTLVDefault(AigpTLVType(2+r.intn(200)), vC18Bytes(r, 5)),
			NewAigpTLVDefault(AigpTLVType(2+r.intn(200)), vC18Bytes(r, 1)),
		}), nil
	})
}

// ---------------------------------------------------------------- BGP-LS attribute

type vC18LsSetter struct {
	name string
	f    func(r *vRand, l *LsAttribute)
}

func vC18LsRanges(r *vRand, n int) []LsSrRange {
	out := []LsSrRange{}
	for i := 0; i < n; i++ {
		b := uint32(16 + r.intn(1<<19))
		out = append(out, LsSrRange{Begin: b, End: b + uint32(1+r.intn(65536))})
	}
	return out
}

func vC18LsSetters() []vC18LsSetter {
	f32 := func(r *vRand) float32 {
		switch r.intn(4) {
		case 0:
			return 0
		case 1:
			return 1.25e8
		}
		return float32(r.intn(1 << 24))
	}
	peerSID := func(r *vRand) *LsBgpPeerSegmentSID {
		return &LsBgpPeerSegmentSID{
			Flags:  LsAttributeBgpPeerSegmentSIDFlags{Value: true, Local: true, Backup: r.chance(50), Persistent: r.chance(50)},
			Weight: vC18U8(r),
			SID:    vC18Label(r),
		}
	}
	return []vC18LsSetter{
		{"node-flags", func(r *vRand, l *LsAttribute) {
			l.Node.Flags = &LsNodeFlags{Overload: r.chance(50), Attached: r.chance(50), External: r.chance(50), ABR: r.chance(50), Router: r.chance(50), V6: r.chance(50)}
		}},
		{"node-opaque", func(r *vRand, l *LsAttribute) { b := vC18Bytes(r, r.pick(0, 1, 3, 64)); l.Node.Opaque = &b }},
		{"node-name", func(r *vRand, l *LsAttribute) { s := vC18String(r, r.pick(1, 3, 32, 255)); l.Node.Name = &s }},
		{"node-isis-area", func(r *vRand, l *LsAttribute) { b := vC18Bytes(r, r.pick(1, 3, 13)); l.Node.IsisArea = &b }},
		{"node-local-rid4", func(r *vRand, l *LsAttribute) { x := vC18V4(r); l.Node.LocalRouterID = &x }},
		{"node-local-rid6", func(r *vRand, l *LsAttribute) { x := vC18V6(r); l.Node.LocalRouterIDv6 = &x }},
		{"node-sr-caps", func(r *vRand, l *LsAttribute) {
			l.Node.SrCapabilties = &LsSrCapabilities{IPv4Supported: r.chance(50), IPv6Supported: r.chance(50), Ranges: vC18LsRanges(r, 1+r.intn(3))}
		}},
		{"node-sr-algo", func(r *vRand, l *LsAttribute) { b := vC18Bytes(r, r.pick(1, 2, 3)); l.Node.SrAlgorithms = &b }},
		{"node-sr-local-block", func(r *vRand, l *LsAttribute) {
			l.Node.SrLocalBlock = &LsSrLocalBlock{Ranges: vC18LsRanges(r, 1+r.intn(3))}
		}},
		{"link-name", func(r *vRand, l *LsAttribute) { s := vC18String(r, r.pick(1, 3, 32)); l.Link.Name = &s }},
		{"link-local-rid4", func(r *vRand, l *LsAttribute) { x := vC18V4(r); l.Link.LocalRouterID = &x }},
		{"link-local-rid6", func(r *vRand, l *LsAttribute) { x := vC18V6(r); l.Link.LocalRouterIDv6 = &x }},
		{"link-remote-rid4", func(r *vRand, l *LsAttribute) { x := vC18V4(r); l.Link.RemoteRouterID = &x }},
		{"link-remote-rid6", func(r *vRand, l *LsAttribute) { x := vC18V6(r); l.Link.RemoteRouterIDv6 = &x }},
		{"link-admin-group", func(r *vRand, l *LsAttribute) { x := vC18U32(r); l.Link.AdminGroup = &x }},
		{"link-te-metric", func(r *vRand, l *LsAttribute) { x := vC18U32(r); l.Link.DefaultTEMetric = &x }},
		{"link-delay", func(r *vRand, l *LsAttribute) {
			l.Link.UnidirectionalLinkDelay = &LsUnidirectionalLinkDelay{Flags: LsDelayMetricFlags{Anomalous: r.chance(50)}, Delay: uint32(r.intn(1 << 24))}
		}},
		{"link-minmax-delay", func(r *vRand, l *LsAttribute) {
			mn := uint32(r.intn(1 << 23))
			l.Link.MinMaxUnidirectionalLinkDelay = &LsMinMaxUnidirectionalLinkDelay{Flags: LsDelayMetricFlags{Anomalous: r.chance(50)}, MinDelay: mn, MaxDelay: mn + uint32(r.intn(1<<23))}
		}},
		{"link-delay-variation", func(r *vRand, l *LsAttribute) { x := uint32(r.intn(1 << 24)); l.Link.UnidirectionalDelayVariation = &x }},
		{"link-igp-metric", func(r *vRand, l *LsAttribute) {
			x := uint32(r.pick(0, 1, 63, 255, 65535, 1<<24-1))
			l.Link.IGPMetric = &x
		}},
		{"link-opaque", func(r *vRand, l *LsAttribute) { b := vC18Bytes(r, r.pick(0, 1, 3, 64)); l.Link.Opaque = &b }},
		{"link-bandwidth", func(r *vRand, l *LsAttribute) { x := f32(r); l.Link.Bandwidth = &x }},
		{"link-reservable-bandwidth", func(r *vRand, l *LsAttribute) { x := f32(r); l.Link.ReservableBandwidth = &x }},
		{"link-unreserved-bandwidth", func(r *vRand, l *LsAttribute) {
			var x [8]float32
			for i := range x {
				x[i] = f32(r) + 1
			}
			l.Link.UnreservedBandwidth = &x
		}},
		{"link-srlgs", func(r *vRand, l *LsAttribute) {
			x := []uint32{}
			for i := 0; i < r.pick(1, 2, 5); i++ {
				x = append(x, vC18U32(r))
			}
			l.Link.Srlgs = &x
		}},
		{"link-adj-sid", func(r *vRand, l *LsAttribute) { x := vC18Label(r); l.Link.SrAdjacencySID = &x }},
		{"link-srv6-endx-sid", func(r *vRand, l *LsAttribute) {
			e := &LsSrv6EndXSID{EndpointBehavior: uint16(r.pick(5, 6, 7, 8)), Flags: uint8(r.intn(8)) << 5, Algorithm: uint8(r.pick(0, 1, 128)), Weight: vC18U8(r), SIDs: []netip.Addr{vC18V6(r)}}
			if r.chance(60) {
				e.Srv6SIDStructure = LsSrv6SIDStructure{LocalBlock: 32, LocalNode: 16, LocalFunc: 16, LocalArg: uint8(r.pick(0, 8))}
			}
			l.Link.Srv6EndXSID = e
		}},
		{"prefix-igp-flags", func(r *vRand, l *LsAttribute) {
			l.Prefix.IGPFlags = &LsIGPFlags{Down: r.chance(50), NoUnicast: r.chance(50), LocalAddress: r.chance(50), PropagateNSSA: r.chance(50)}
		}},
		{"prefix-opaque", func(r *vRand, l *LsAttribute) { b := vC18Bytes(r, r.pick(0, 1, 3, 64)); l.Prefix.Opaque = &b }},
		{"prefix-sid", func(r *vRand, l *LsAttribute) { x := vC18Label(r); l.Prefix.SrPrefixSID = &x }},
		{"peer-node-sid", func(r *vRand, l *LsAttribute) { l.BgpPeerSegment.BgpPeerNodeSid = peerSID(r) }},
		{"peer-adj-sid", func(r *vRand, l *LsAttribute) { l.BgpPeerSegment.BgpPeerAdjacencySid = peerSID(r) }},
		{"peer-set-sid", func(r *vRand, l *LsAttribute) { l.BgpPeerSegment.BgpPeerSetSid = peerSID(r) }},
		{"srv6-sid-structure", func(r *vRand, l *LsAttribute) {
			l.Srv6SID.Srv6SIDStructure = &LsSrv6SIDStructure{LocalBlock: uint8(r.pick(32, 40, 48)), LocalNode: uint8(r.pick(16, 24)), LocalFunc: 16, LocalArg: uint8(r.pick(0, 8, 16))}
		}},
		{"srv6-bgp-peer-node-sid", func(r *vRand, l *LsAttribute) {
			l.Srv6SID.Srv6BgpPeerNodeSID = &LsSrv6BgpPeerNodeSID{Flags: uint8(r.intn(8)) << 5, Weight: vC18U8(r), PeerAS: vC18U32(r), PeerBgpID: vC18V4(r).String()}
		}},
		{"srv6-endpoint-behavior", func(r *vRand, l *LsAttribute) {
			l.Srv6SID.Srv6EndpointBehavior = &LsSrv6EndpointBehavior{EndpointBehavior: uint16(r.pick(1, 5, 19, 0xffff)), Flags: vC18U8(r), Algorithm: uint8(r.pick(0, 1, 128, 255))}
		}},
	}
}

func vC18LsAttr(l *LsAttribute) (PathAttributeInterface, error) {
	tlvs := NewLsAttributeTLVs(l)
	n := 0
	for _, t := range tlvs {
		if vC18IsNil(t) {
			return nil, fmt.Errorf("nil ls tlv")
		}
		n += t.Len()
	}
	return &PathAttributeLs{
		PathAttribute: PathAttribute{Flags: vC18AttrFlags(BGP_ATTR_TYPE_LS, n), Type: BGP_ATTR_TYPE_LS, Length: uint16(n)},
		TLVs:          tlvs,
	}, nil
}

func vC18GenAttrsLs(r *vRand, a *vC18AttrAcc) {
	setters := vC18LsSetters()
	for _, s := range setters {
		s := s
		a.add("ls:"+s.name, func() (PathAttributeInterface, error) {
			l := &LsAttribute{}
			s.f(r, l)
			return vC18LsAttr(l)
		})
	}
	groups := map[string]string{"ls:all-node": "node-", "ls:all-link": "link-", "ls:all-prefix": "prefix-", "ls:all-peer": "peer-", "ls:all-srv6": "srv6-", "ls:everything": ""}
	names := make([]string, 0, len(groups))
	for k := range groups {
		names = append(names, k)
	}
	sort.Strings(names)
	for _, gn := range names {
		gn, pfx := gn, groups[gn]
		a.add(gn, func() (PathAttributeInterface, error) {
			// Combine the TLVs of every setter of the group, leaving out the ones whose
			// constructor yields a TLV that cannot be serialized (reported separately by
			// the single-TLV cases above).
			tlvs := []LsTLVInterface{}
			n := 0
			for _, s := range setters {
				if len(s.name) < len(pfx) || s.name[:len(pfx)] != pfx {
					continue
				}
				tmp := &LsAttribute{}
				s.f(r, tmp)
				for _, t := range NewLsAttributeTLVs(tmp) {
					if vC18IsNil(t) {
						continue
					}
					good := false
					vC18Try(func() {
						_, err := t.Serialize()
						good = err == nil
					})
					if good {
						tlvs = append(tlvs, t)
						n += t.Len()
					}
				}
			}
			return &PathAttributeLs{
				PathAttribute: PathAttribute{Flags: vC18AttrFlags(BGP_ATTR_TYPE_LS, n), Type: BGP_ATTR_TYPE_LS, Length: uint16(n)},
				TLVs:          tlvs,
			}, nil
		})
	}
}

// ---------------------------------------------------------------- Prefix-SID

func vC18SRv6Info(r *vRand, withStruct bool) PrefixSIDTLVInterface {
	behaviors := []SRBehavior{END, ENDX, ENDT, END_DX6, END_DX4, END_DT6, END_DT4, END_DT46, END_DX2, END_DX2V, END_DT2U, END_DT2M, ENDM_GTP6E, SRBehavior(0xffff)}
	b := behaviors[r.intn(len(behaviors))]
	if withStruct {
		return NewSRv6InformationSubTLV(vC18V6(r), b,
			NewSRv6SIDStructureSubSubTLV(uint8(r.pick(32, 40, 48, 64)), uint8(r.pick(16, 24)), uint8(r.pick(0, 16)), uint8(r.pick(0, 8)), uint8(r.pick(0, 16, 20)), uint8(r.pick(0, 48, 64))))
	}
	return NewSRv6InformationSubTLV(vC18V6(r), b)
}

func vC18GenAttrsPrefixSID(r *vRand, a *vC18AttrAcc) {
	a.add("prefix-sid:l3/sid-structure", func() (PathAttributeInterface, error) {
		return NewPathAttributePrefixSID(NewSRv6ServiceTLV(TLVTypeSRv6L3Service, vC18SRv6Info(r, true))), nil
	})
	a.add("prefix-sid:l3/no-subsub", func() (PathAttributeInterface, error) {
		return NewPathAttributePrefixSID(NewSRv6ServiceTLV(TLVTypeSRv6L3Service, vC18SRv6Info(r, false))), nil
	})
	a.add("prefix-sid:l2/sid-structure", func() (PathAttributeInterface, error) {
		return NewPathAttributePrefixSID(NewSRv6ServiceTLV(TLVTypeSRv6L2Service, vC18SRv6Info(r, true))), nil
	})
	a.add("prefix-sid:l2/no-subsub", func() (PathAttributeInterface, error) {
		return NewPathAttributePrefixSID(NewSRv6ServiceTLV(TLVTypeSRv6L2Service, vC18SRv6Info(r, false))), nil
	})
	a.add("prefix-sid:l3/multi-subtlv", func() (PathAttributeInterface, error) {
		return NewPathAttributePrefixSID(NewSRv6ServiceTLV(TLVTypeSRv6L3Service, vC18SRv6Info(r, true), vC18SRv6Info(r, false), vC18SRv6Info(r, true))), nil
	})
	a.add("prefix-sid:l3+l2", func() (PathAttributeInterface, error) {
		return NewPathAttributePrefixSID(
			NewSRv6ServiceTLV(TLVTypeSRv6L3Service, vC18SRv6Info(r, true)),
			NewSRv6ServiceTLV(TLVTypeSRv6L2Service, vC18SRv6Info(r, r.chance(50)))), nil
	})
}

// ---------------------------------------------------------------- MP_REACH / MP_UNREACH

func vC18NextHops(r *vRand, fam Family, variant int) []netip.Addr {
	switch fam.Safi() {
	case SAFI_FLOW_SPEC_UNICAST, SAFI_FLOW_SPEC_VPN:
		return nil
	}
	if fam.Afi() == AFI_IP6 {
		if variant%2 == 0 {
			return []netip.Addr{vC18V6(r)}
		}
		return []netip.Addr{vC18V6(r), vC18LL6(r)}
	}
	switch variant % 3 {
	case 0:
		return []netip.Addr{vC18V4(r)}
	case 1:
		return []netip.Addr{vC18V6(r)}
	}
	return []netip.Addr{vC18V6(r), vC18LL6(r)}
}

func vC18GenAttrsMP(r *vRand, a *vC18AttrAcc) {
	cases := vC18GenNLRIs(r)
	byFam := map[Family][]NLRI{}
	fams := []Family{}
	for _, c := range cases {
		if _, ok := byFam[c.family]; !ok {
			fams = append(fams, c.family)
		}
		byFam[c.family] = append(byFam[c.family], c.nlri)
	}
	sort.Slice(fams, func(i, j int) bool { return fams[i] < fams[j] })
	pickN := func(fam Family) []PathNLRI {
		pool := byFam[fam]
		n := 1 + r.intn(3)
		if n > len(pool) {
			n = len(pool)
		}
		out := make([]PathNLRI, 0, n)
		for _, i := range r.perm(len(pool))[:n] {
			out = append(out, PathNLRI{NLRI: pool[i]})
		}
		return out
	}
	for _, fam := range fams {
		fam := fam
		for v := 0; v < 2; v++ {
			v := v
			a.add("mp_reach:"+fam.String(), func() (PathAttributeInterface, error) {
				return NewPathAttributeMpReachNLRI(fam, pickN(fam), vC18NextHops(r, fam, v+r.intn(3))...)
			})
		}
		a.add("mp_unreach:"+fam.String(), func() (PathAttributeInterface, error) {
			return NewPathAttributeMpUnreachNLRI(fam, pickN(fam))
		})
	}
}

func vC18GenAttrs(r *vRand) []vC18AttrCase {
	a := &vC18AttrAcc{}
	vC18GenAttrsExtComm(r, a)
	vC18GenAttrsIP6ExtComm(r, a)
	vC18GenAttrsTunnelEncap(r, a)
	vC18GenAttrsPmsiAigp(r, a)
	vC18GenAttrsLs(r, a)
	vC18GenAttrsPrefixSID(r, a)
	vC18GenAttrsMP(r, a)
	return a.out
}

// ---------------------------------------------------------------- capabilities

var vC18AllFamilies = []Family{
	RF_IPv4_UC, RF_IPv6_UC, RF_IPv4_MC, RF_IPv6_MC, RF_IPv4_VPN, RF_IPv6_VPN, RF_IPv4_VPN_MC, RF_IPv6_VPN_MC,
	RF_IPv4_MPLS, RF_IPv6_MPLS, RF_VPLS, RF_EVPN, RF_RTC_UC, RF_IPv4_ENCAP, RF_IPv6_ENCAP,
	RF_FS_IPv4_UC, RF_FS_IPv4_VPN, RF_FS_IPv6_UC, RF_FS_IPv6_VPN, RF_FS_L2_VPN, RF_OPAQUE, RF_LS,
	RF_SR_POLICY_IPv4, RF_SR_POLICY_IPv6, RF_MUP_IPv4, RF_MUP_IPv6,
}

func vC18Fam(r *vRand) Family { return vC18AllFamilies[r.intn(len(vC18AllFamilies))] }

func vC18GenCaps(r *vRand) []ParameterCapabilityInterface {
	out := []ParameterCapabilityInterface{}
	add := func(f func() ParameterCapabilityInterface) {
		vC18Try(func() {
			c := f()
			if vC18IsNil(c) {
				return
			}
			out = append(out, c)
		})
	}
	// multiprotocol for several families
	for _, i := range r.perm(len(vC18AllFamilies))[:6] {
		fam := vC18AllFamilies[i]
		add(func() ParameterCapabilityInterface { return NewCapMultiProtocol(fam) })
	}
	add(func() ParameterCapabilityInterface { return NewCapRouteRefresh() })
	add(func() ParameterCapabilityInterface { return NewCapExtendedMessage() })
	add(func() ParameterCapabilityInterface { return NewCapCarryingLabelInfo() })
	for n := 1; n <= 3; n++ {
		n := n
		add(func() ParameterCapabilityInterface {
			ts := []*CapExtendedNexthopTuple{}
			for i := 0; i < n; i++ {
				ts = append(ts, NewCapExtendedNexthopTuple([]Family{RF_IPv4_UC, RF_IPv4_VPN, RF_IPv4_MPLS, RF_IPv4_MC}[r.intn(4)], uint16(AFI_IP6)))
			}
			return NewCapExtendedNexthop(ts)
		})
	}
	for n := 0; n <= 3; n++ {
		n := n
		add(func() ParameterCapabilityInterface {
			ts := []*CapGracefulRestartTuple{}
			for i := 0; i < n; i++ {
				ts = append(ts, NewCapGracefulRestartTuple(vC18Fam(r), r.chance(50)))
			}
			return NewCapGracefulRestart(n%2 == 0, n >= 2 || r.chance(50), uint16(r.pick(0, 1, 120, 4095)), ts)
		})
	}
	add(func() ParameterCapabilityInterface { return NewCapFourOctetASNumber(vC18U32(r)) })
	modes := []BGPAddPathMode{BGP_ADD_PATH_RECEIVE, BGP_ADD_PATH_SEND, BGP_ADD_PATH_BOTH}
	for n := 1; n <= 3; n++ {
		n := n
		add(func() ParameterCapabilityInterface {
			ts := []*CapAddPathTuple{}
			for i := 0; i < n; i++ {
				ts = append(ts, NewCapAddPathTuple(vC18Fam(r), modes[(n+i)%3]))
			}
			return NewCapAddPath(ts)
		})
	}
	add(func() ParameterCapabilityInterface { return NewCapEnhancedRouteRefresh() })
	add(func() ParameterCapabilityInterface { return NewCapRouteRefreshCisco() })
	for n := 0; n <= 3; n++ {
		n := n
		add(func() ParameterCapabilityInterface {
			ts := []*CapLongLivedGracefulRestartTuple{}
			for i := 0; i < n; i++ {
				ts = append(ts, NewCapLongLivedGracefulRestartTuple(vC18Fam(r), r.chance(50), uint32(r.pick(0, 1, 3600, 1<<24-1))))
			}
			return NewCapLongLivedGracefulRestart(ts)
		})
	}
	add(func() ParameterCapabilityInterface {
		return NewCapFQDN(vC18String(r, r.pick(0, 1, 8, 63)), vC18String(r, r.pick(0, 1, 12, 64)))
	})
	add(func() ParameterCapabilityInterface { return NewCapFQDN(vC18String(r, 1+r.intn(20)), "") })
	add(func() ParameterCapabilityInterface { return NewCapSoftwareVersion(vC18String(r, r.pick(1, 8, 32, 64))) })
	for _, n := range []int{0, 1 + r.intn(20), 20} {
		n := n
		add(func() ParameterCapabilityInterface {
			return NewCapUnknown(BGPCapabilityCode(r.pick(3, 7, 66, 67, 72, 129, 200, 255)), vC18Bytes(r, n))
		})
	}
	return out
}

// ---------------------------------------------------------------- smoke test


// vC18AttrFlags = bgp.getPathAttrFlags (unexported there)
func vC18AttrFlags(typ BGPAttrType, length int) BGPAttrFlag {
	flags := PathAttrFlags[typ]
	if length > 255 {
		flags |= BGP_ATTR_FLAG_EXTENDED_LENGTH
	}
	return flags
}
