//go:build verif

package apiutil

// C18 — SIZE BOUNDARIES of the conversion oracles (model independent).
//
// For every attribute kind the API -> native converters REBUILD (flags, cached lengths, TLV lengths are
// recomputed there, not copied) a native value is made whose VALUE length is exactly L, for every L
// in 250..266 (the extended-length boundary 255/256 with margin) and a few larger ones, sizes by
// construction: the attribute is crafted octet by octet (header rule: extended length iff L > 255),
// decoded by the real codec, and kept only when the codec itself re-serialises it to the crafted
// octets.  Then Unmarshal(Marshal(x)) must give the same octets, the same Len() (asked BEFORE
// Serialize: what the packer sees) and the same flags octet.  TLV-internal boundaries (1-octet
// sub-TLV lengths of 255, 2-octet ones of 255/256, names of 251/252 octets, 255-member AS segments)
// are hit by the same sweep because the crafted values consist of one or two variable-length items.
// Classes are `size-boundary:<Type>:<kind>` — disjoint from the classes of the general oracle, so a
// known content-level loss of a type (e.g. BGP-LS TLV templates) cannot mask a size defect.

import (
	"encoding/binary"
	"fmt"

	. "github.com/osrg/gobgp/v4/pkg/packet/bgp"
)

type vC18SizeCase struct {
	name  string
	flags byte // without the extended-length bit
	typ   byte
	value []byte
}

func vC18BE16(v int) []byte { return []byte{byte(v >> 8), byte(v)} }

func vC18Fill(r *vRand, n int, text bool) []byte {
	b := make([]byte, n)
	for i := range b {
		if text {
			b[i] = "abcdefghijklmnopqrstuvwxyz0123456789-."[r.intn(38)]
		} else {
			b[i] = byte(r.next())
		}
	}
	return b
}

// BGP-LS TLV: type(2) length(2) value
func vC18LsTLVBytes(typ int, v []byte) []byte {
	return append(append(vC18BE16(typ), vC18BE16(len(v))...), v...)
}

// SRv6 information sub-TLV (24 octets, 33 with the SID structure sub-sub-TLV); flags 0 (the API has
// no field for them)
func vC18SRv6InfoBytes(r *vRand, withStruct bool) []byte {
	body := []byte{0}
	body = append(body, vC18Fill(r, 16, false)...)
	body = append(body, 0)
	body = append(body, vC18BE16(r.pick(17, 18, 19, 65535))...)
	body = append(body, 0)
	if withStruct {
		body = append(body, 1, 0, 6, 40, 24, 16, 0, byte(r.pick(0, 16)), byte(r.pick(0, 64)))
	}
	return append(append([]byte{1}, vC18BE16(len(body))...), body...)
}

// value of a Prefix-SID attribute of exactly L octets out of k service TLVs (4 octets of overhead
// each) holding a sub-TLVs of 24 and b of 33 octets; nil when L cannot be composed
func vC18PrefixSIDValue(r *vRand, L int) []byte {
	for k := 1; k <= 4; k++ {
		for b := 0; b <= 12; b++ {
			rest := L - 4*k - 33*b
			if rest < 0 || rest%24 != 0 {
				continue
			}
			a := rest / 24
			if a+b < k {
				continue
			}
			subs := [][]byte{}
			for i := 0; i < a; i++ {
				subs = append(subs, vC18SRv6InfoBytes(r, false))
			}
			for i := 0; i < b; i++ {
				subs = append(subs, vC18SRv6InfoBytes(r, true))
			}
			// deal the sub-TLVs round robin over the k service TLVs
			out := []byte{}
			for t := 0; t < k; t++ {
				body := []byte{0}
				for i := t; i < len(subs); i += k {
					body = append(body, subs[i]...)
				}
				typ := byte(5) // SRv6 L3 service
				if t%2 == 1 {
					typ = 6 // SRv6 L2 service
				}
				out = append(out, append(append([]byte{typ}, vC18BE16(len(body))...), body...)...)
			}
			if len(out) == L {
				return out
			}
		}
	}
	return nil
}

// AS segments (4-octet) adding up to exactly L octets; nil when impossible
func vC18SegsValue(r *vRand, L int) []byte {
	for k := 1; k <= 12; k++ {
		rest := L - 2*k
		if rest < 4*k || rest%4 != 0 || rest/4 > 255*k {
			continue
		}
		n := rest / 4
		out := []byte{}
		for i := 0; i < k; i++ {
			m := n / (k - i)
			if i == 0 && n-255 >= k-1 {
				m = 255 // a full segment whenever possible: the uint8 member count boundary
			}
			if m > 255 {
				m = 255
			}
			n -= m
			out = append(out, byte(r.pick(1, 2, 2, 3, 4)), byte(m))
			for j := 0; j < m; j++ {
				as := make([]byte, 4)
				binary.BigEndian.PutUint32(as, uint32(r.pick(1, 65535, 65536, 4200000000, int(r.u32()))))
				out = append(out, as...)
			}
		}
		if len(out) == L {
			return out
		}
	}
	return nil
}

// prefixes (1 + 0..maxBytes octets each) adding up to exactly n octets
func vC18PrefixesValue(r *vRand, n int, maxBytes int) []byte {
	out := []byte{}
	for n > 0 {
		sz := 1 + maxBytes
		if r.chance(40) {
			sz = 2 + r.intn(maxBytes)
		}
		if sz > n {
			sz = n
		}
		if n-sz == 1 && sz > 2 {
			sz-- // never leave a lone length octet of a non-default prefix behind
		}
		if sz == 1 {
			out = append(out, 0)
		} else {
			p := vC18Fill(r, sz-1, false)
			out = append(append(out, byte((sz-1)*8)), p...)
		}
		n -= sz
	}
	return out
}

func vC18SizeCases(r *vRand, L int) []vC18SizeCase {
	cs := []vC18SizeCase{}
	add := func(name string, flags, typ byte, v []byte) {
		if v != nil && len(v) == L {
			cs = append(cs, vC18SizeCase{name, flags, typ, v})
		}
	}
	cat := func(bs ...[]byte) []byte {
		out := []byte{}
		for _, b := range bs {
			out = append(out, b...)
		}
		return out
	}
	// ---- BGP-LS attribute (29): rebuilt by UnmarshalAttribute through NewLsAttributeTLVs + attrFlags
	add("ls:node-name", 0x80, 29, vC18LsTLVBytes(1026, vC18Fill(r, L-4, true)))
	add("ls:node-opaque", 0x80, 29, vC18LsTLVBytes(1025, vC18Fill(r, L-4, false)))
	add("ls:link-name", 0x80, 29, vC18LsTLVBytes(1098, vC18Fill(r, L-4, true)))
	add("ls:link-opaque", 0x80, 29, vC18LsTLVBytes(1097, vC18Fill(r, L-4, false)))
	k := 1 + r.intn(L-10)
	add("ls:node-opaque+name", 0x80, 29, cat(vC18LsTLVBytes(1025, vC18Fill(r, k, false)), vC18LsTLVBytes(1026, vC18Fill(r, L-8-k, true))))
	// ---- Prefix-SID (40): UnmarshalPrefixSID recomputes every TLV / attribute length
	add("prefix-sid", 0xc0, 40, vC18PrefixSIDValue(r, L))
	// ---- tunnel encapsulation (23): TLV and sub-TLV lengths recomputed by the constructors
	add("tunnel-encap:unknown-subtlv-2octet-len", 0xc0, 23, cat(vC18BE16(8), vC18BE16(L-4), []byte{200}, vC18BE16(L-7), vC18Fill(r, L-7, false)))
	if L-6 <= 255 {
		add("tunnel-encap:unknown-subtlv-1octet-len", 0xc0, 23, cat(vC18BE16(8), vC18BE16(L-4), []byte{100, byte(L - 6)}, vC18Fill(r, L-6, false)))
	}
	if L-4-257-3 >= 1 { // a 1-octet-length sub-TLV at its maximum (255) followed by a 2-octet-length one
		add("tunnel-encap:subtlv-255+rest", 0xc0, 23, cat(vC18BE16(8), vC18BE16(L-4), []byte{100, 255}, vC18Fill(r, 255, false),
			[]byte{200}, vC18BE16(L-4-257-3), vC18Fill(r, L-4-257-3, false)))
	}
	add("tunnel-encap:sr-candidate-path-name", 0xc0, 23, cat(vC18BE16(15), vC18BE16(L-4), []byte{129}, vC18BE16(L-7), []byte{0}, vC18Fill(r, L-8, true)))
	add("tunnel-encap:encapsulation-cookie", 0xc0, 23, cat(vC18BE16(1), vC18BE16(L-4), []byte{1, byte(L - 6)}, vC18Fill(r, L-6, false)))
	// ---- AIGP (26), PMSI tunnel (22), unknown attribute
	add("aigp:unknown-tlv", 0x80, 26, cat([]byte{200}, vC18BE16(L), vC18Fill(r, L-3, false)))
	add("aigp:metric+unknown-tlv", 0x80, 26, cat([]byte{1}, vC18BE16(11), vC18Fill(r, 8, false), []byte{200}, vC18BE16(L-11), vC18Fill(r, L-14, false)))
	add("pmsi:opaque-id", 0xc0, 22, cat([]byte{byte(r.pick(0, 1)), byte(r.pick(1, 2, 3, 7))}, []byte{0, 0x10, 0x01}, vC18Fill(r, L-5, false)))
	add("unknown", 0xc0, byte(r.pick(99, 200, 254)), vC18Fill(r, L, false))
	add("unknown:partial", 0xe0, byte(r.pick(99, 200, 254)), vC18Fill(r, L, false))
	// ---- AS_PATH (2) / AS4_PATH (17): segment counts and lengths rebuilt by NewAs4PathParam
	add("as-path", 0x40, 2, vC18SegsValue(r, L))
	add("as4-path", 0xc0, 17, vC18SegsValue(r, L))
	// ---- fixed-size lists
	if L%4 == 0 {
		add("communities", 0xc0, 8, vC18Fill(r, L, false))
		add("cluster-list", 0x80, 10, vC18Fill(r, L, false))
	}
	if L%12 == 0 {
		add("large-communities", 0xc0, 32, vC18Fill(r, L, false))
	}
	if L%8 == 0 {
		v := []byte{}
		for i := 0; i < L/8; i++ {
			v = append(v, 0x00, 0x02) // two-octet AS route target
			v = append(v, vC18Fill(r, 6, false)...)
		}
		add("extended-communities", 0xc0, 16, v)
	}
	if L%20 == 0 {
		v := []byte{}
		for i := 0; i < L/20; i++ {
			v = append(v, 0x00, 0x02) // IPv6 address specific route target
			v = append(v, vC18Fill(r, 18, false)...)
		}
		add("ip6-extended-communities", 0xc0, 25, v)
	}
	// ---- MP_REACH (14) / MP_UNREACH (15) with many NLRI: length recomputed by the constructors
	add("mp-reach:ipv4-unicast/nh4", 0x80, 14, cat([]byte{0, 1, 1, 4}, vC18Fill(r, 4, false), []byte{0}, vC18PrefixesValue(r, L-9, 4)))
	nh6 := cat([]byte{0x20, 0x01, 0x0d, 0xb8}, vC18Fill(r, 12, false))
	ll6 := cat([]byte{0xfe, 0x80, 0, 0, 0, 0, 0, 0}, vC18Fill(r, 8, false))
	add("mp-reach:ipv6-unicast/nh16", 0x80, 14, cat([]byte{0, 2, 1, 16}, nh6, []byte{0}, vC18PrefixesValue(r, L-21, 16)))
	add("mp-reach:ipv6-unicast/nh32", 0x80, 14, cat([]byte{0, 2, 1, 32}, nh6, ll6, []byte{0}, vC18PrefixesValue(r, L-37, 16)))
	add("mp-reach:ipv4-unicast/nh16", 0x80, 14, cat([]byte{0, 1, 1, 16}, nh6, []byte{0}, vC18PrefixesValue(r, L-21, 4)))
	add("mp-unreach:ipv4-unicast", 0x80, 15, cat([]byte{0, 1, 1}, vC18PrefixesValue(r, L-3, 4)))
	add("mp-unreach:ipv6-unicast", 0x80, 15, cat([]byte{0, 2, 1}, vC18PrefixesValue(r, L-3, 16)))
	// opaque NLRI: one key/value pair of free length (key length 2 octets)
	if L-21-2-3 >= 1 {
		add("mp-reach:opaque", 0x80, 14, cat([]byte{0x40, 0x0d, 241, 16}, nh6, []byte{0}, vC18BE16(3), []byte("key"), vC18Fill(r, L-21-5, false)))
	}
	return cs
}

// vC18SizeBoundary runs the sweep; returns nothing, reports through o.fail / o.stat
func vC18SizeBoundary(o *vOut, r *vRand) {
	sizes := []int{}
	for L := 250; L <= 266; L++ {
		sizes = append(sizes, L)
	}
	sizes = append(sizes, 510, 511, 512, 513, 1022, 1023, 1024, 2044, 4000)
	rounds := 2
	if o.thorough {
		rounds = 12
		for i := 0; i < 40; i++ {
			sizes = append(sizes, 240+r.intn(60))
		}
	}
	for round := 0; round < rounds; round++ {
		for _, L := range sizes {
			for _, c := range vC18SizeCases(r, L) {
				wire := []byte{c.flags, c.typ, byte(L)}
				if L > 255 {
					wire = []byte{c.flags | 0x10, c.typ, byte(L >> 8), byte(L)}
				}
				wire = append(wire, c.value...)
				x := vC18DecodeAttr(wire)
				if x == nil || !vC18SameWire(x, wire) {
					o.stat("size_codec_rejects_or_rewrites:"+c.name, 1)
					continue // not a value the codec itself carries faithfully: C04's subject
				}
				o.stat("size_case:"+c.name, 1)
				if L >= 254 && L <= 256 {
					o.stat(fmt.Sprintf("size_L%d", L), 1)
				}
				vC18SizeCheck(o, x, wire, c.name, L)
				vC18XAsk(o, x) // the model answers the same size strata for the kinds it covers
			}
		}
	}
}

func vC18SizeCheck(o *vOut, x PathAttributeInterface, wire []byte, name string, L int) {
	tn := vC18TypeName(x)
	fail := func(kind string, d map[string]any) {
		d["case"] = name
		d["value_length"] = L
		d["wire"] = vC18Hex(wire)
		o.fail("size-boundary:"+tn+":"+kind, d)
	}
	defer func() {
		if e := recover(); e != nil {
			fail("panic", map[string]any{"panic": fmt.Sprint(e)})
		}
	}()
	if x.Len() != len(wire) {
		return // the decoded native disagrees with itself: C04's subject
	}
	as, err := MarshalPathAttributes([]PathAttributeInterface{x})
	if err != nil || len(as) != 1 || as[0].GetAttr() == nil {
		fail("marshal-error", map[string]any{"err": fmt.Sprint(err)})
		return
	}
	ys, err := UnmarshalPathAttributes(as)
	if err != nil || len(ys) != 1 {
		fail("unmarshal-error", map[string]any{"err": fmt.Sprint(err)})
		return
	}
	y := ys[0]
	l1 := y.Len() // before Serialize: the cached length the packer budgets with
	f1 := y.GetFlags()
	w1, err := y.Serialize()
	if err != nil {
		fail("reserialize-error", map[string]any{"err": fmt.Sprint(err)})
		return
	}
	if string(w1) != string(wire) {
		n := len(w1)
		if n > 8 {
			n = 8
		}
		fail("wire-differs", map[string]any{"back_head": vC18Hex(w1[:n]), "back_len": len(w1)})
		return
	}
	if l1 != len(wire) {
		fail("len-differs", map[string]any{"len_back": l1, "emitted": len(w1)})
	}
	if byte(f1) != wire[0] {
		fail("flags-differ", map[string]any{"flags_back": int(f1), "flags": int(wire[0])})
	}
}
