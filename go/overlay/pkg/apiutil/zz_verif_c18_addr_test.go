//go:build verif

package apiutil

// C18 — ADDRESS CLASSES stratum of the conversion oracles (model independent).
//
// Every address- or prefix-valued field of the API surface is generated with the awkward address
// classes — IPv4-mapped IPv6 (::ffff:a.b.c.d), IPv4-compatible, unspecified, loopback, link-local
// (with a zone where the field is a netip.Addr), multicast, all-ones, and the minimum / maximum prefix
// lengths — for every NLRI kind and every address-bearing attribute, built by the constructors.
// The value REBUILT from the API form (so with every length computed by the constructors / Len()) must
//   * serialise to the octets of the original (wire-differs),
//   * report Len() == number of octets it emits (len-differs),
//   * parse back with the real decoder, consuming exactly those octets, to the same octets
//     (reparse-error / reparse-differs) — the framing check: a wrong length octet cannot hide behind
//     "both sides are wrong the same way".
// Classes: `nlri:<Kind>:<address class>:<failure>` and `attr:<Kind>:<address class>:<failure>`,
// disjoint from the classes of the general oracle; the one listed known finding of this area
// (AFI-1 MP_REACH with an IPv4-mapped next hop) keeps its own class
// attr:PathAttributeMpReachNLRI:v4-mapped-nexthop.

import (
	"fmt"
	"net/netip"
	"strings"

	"github.com/osrg/gobgp/v4/api"
	"google.golang.org/protobuf/proto"

	. "github.com/osrg/gobgp/v4/pkg/packet/bgp"
)

type vC18AddrClass struct {
	name string
	addr netip.Addr
}

func vC18Addr4Classes(r *vRand) []vC18AddrClass {
	return []vC18AddrClass{
		{"v4-ordinary", vC18V4(r)},
		{"v4-unspecified", netip.IPv4Unspecified()},
		{"v4-loopback", netip.MustParseAddr("127.0.0.1")},
		{"v4-link-local", netip.AddrFrom4([4]byte{169, 254, byte(r.intn(256)), byte(1 + r.intn(254))})},
		{"v4-multicast", netip.AddrFrom4([4]byte{224, 0, 0, byte(1 + r.intn(254))})},
		{"v4-all-ones", netip.MustParseAddr("255.255.255.255")},
	}
}

func vC18Addr6Classes(r *vRand) []vC18AddrClass {
	m := vC18V4(r).As4()
	return []vC18AddrClass{
		{"v6-ordinary", vC18V6(r)},
		{"v4-mapped", netip.AddrFrom16([16]byte{0, 0, 0, 0, 0, 0, 0, 0, 0, 0, 0xff, 0xff, m[0], m[1], 0, 0})},
		{"v4-mapped-host", netip.AddrFrom16([16]byte{0, 0, 0, 0, 0, 0, 0, 0, 0, 0, 0xff, 0xff, m[0], m[1], m[2], m[3]})},
		{"v4-compatible", netip.AddrFrom16([16]byte{0, 0, 0, 0, 0, 0, 0, 0, 0, 0, 0, 0, m[0], m[1], m[2], m[3]})},
		{"v6-unspecified", netip.IPv6Unspecified()},
		{"v6-loopback", netip.IPv6Loopback()},
		{"v6-link-local", vC18LL6(r)},
		{"v6-link-local-zone", vC18LL6(r).WithZone("eth0")},
		{"v6-multicast", netip.MustParseAddr("ff02::1")},
		{"v6-all-ones", netip.MustParseAddr("ffff:ffff:ffff:ffff:ffff:ffff:ffff:ffff")},
	}
}

func vC18PfxLens(a netip.Addr, r *vRand) []int {
	if a.Is4() {
		return []int{0, 1, 31, 32, r.pick(8, 16, 24)}
	}
	return []int{0, 1, 96, 112, 127, 128, r.pick(32, 48, 64)}
}

type vC18AddrFail struct {
	class  string
	detail map[string]any
}

func vC18AddrNLRI(fam Family, kind, cls string, x NLRI) (fails []vC18AddrFail) {
	mk := func(f string, d map[string]any) {
		d["family"] = fam.String()
		d["nlri"] = fmt.Sprint(x)
		fails = append(fails, vC18AddrFail{"nlri:" + kind + ":" + cls + ":" + f, d})
	}
	defer func() {
		if e := recover(); e != nil {
			mk("panic", map[string]any{"panic": fmt.Sprint(e)})
		}
	}()
	w0, err := x.Serialize()
	if err != nil {
		return nil
	}
	// the reference octets: what the real decoder makes of w0, when it frames them as one NLRI
	a, err := MarshalNLRI(x)
	if err != nil || a.GetNlri() == nil {
		mk("marshal-error", map[string]any{"wire": vC18Hex(w0), "err": fmt.Sprint(err)})
		return
	}
	y, err := UnmarshalNLRI(fam, a)
	if err != nil {
		mk("unmarshal-error", map[string]any{"wire": vC18Hex(w0), "err": fmt.Sprint(err), "api": a.String()})
		return
	}
	l1 := y.Len()
	w1, err := y.Serialize()
	if err != nil {
		mk("reserialize-error", map[string]any{"wire": vC18Hex(w0), "err": fmt.Sprint(err)})
		return
	}
	if l1 != len(w1) {
		mk("len-differs", map[string]any{"wire": vC18Hex(w1), "len": l1, "emitted": len(w1), "api": a.String()})
	}
	if string(w0) != string(w1) {
		mk("wire-differs", map[string]any{"wire": vC18Hex(w0), "back": vC18Hex(w1), "api": a.String()})
	}
	// framing: the octets of the rebuilt value followed by a sentinel NLRI must parse as exactly itself
	z, err := NLRIFromSlice(fam, append(append([]byte{}, w1...), w1...))
	if err != nil {
		mk("reparse-error", map[string]any{"wire": vC18Hex(w1), "err": fmt.Sprint(err), "api": a.String()})
	} else if z != nil {
		w2, err := z.Serialize()
		if err != nil || z.Len() != len(w1) || string(w2) != string(w1) {
			mk("reparse-differs", map[string]any{"wire": vC18Hex(w1), "reparsed": vC18Hex(w2), "consumed": z.Len(), "api": a.String()})
		}
	}
	a2, err := MarshalNLRI(y)
	if err != nil || !proto.Equal(a, a2) {
		mk("api-not-fixpoint", map[string]any{"api": a.String(), "api2": fmt.Sprint(a2)})
	}
	return
}

func vC18AddrAttr(kind, cls string, x PathAttributeInterface) (fails []vC18AddrFail) {
	mk := func(f string, d map[string]any) {
		fails = append(fails, vC18AddrFail{"attr:" + kind + ":" + cls + ":" + f, d})
	}
	defer func() {
		if e := recover(); e != nil {
			mk("panic", map[string]any{"panic": fmt.Sprint(e)})
		}
	}()
	w0, err := x.Serialize()
	if err != nil {
		return nil
	}
	as, err := MarshalPathAttributes([]PathAttributeInterface{x})
	if err != nil || len(as) != 1 || as[0].GetAttr() == nil {
		mk("marshal-error", map[string]any{"wire": vC18Hex(w0), "err": fmt.Sprint(err)})
		return
	}
	ys, err := UnmarshalPathAttributes(as)
	if err != nil || len(ys) != 1 {
		mk("unmarshal-error", map[string]any{"wire": vC18Hex(w0), "err": fmt.Sprint(err), "api": as[0].String()})
		return
	}
	l1 := ys[0].Len()
	w1, err := ys[0].Serialize()
	if err != nil {
		mk("reserialize-error", map[string]any{"wire": vC18Hex(w0), "err": fmt.Sprint(err)})
		return
	}
	if l1 != len(w1) {
		mk("len-differs", map[string]any{"wire": vC18Hex(w1), "len": l1, "emitted": len(w1)})
	}
	if string(w0) != string(w1) {
		mk("wire-differs", map[string]any{"wire": vC18Hex(w0), "back": vC18Hex(w1), "api": as[0].String()})
	}
	if d := vC18DecodeAttr(w1); d == nil {
		mk("reparse-error", map[string]any{"wire": vC18Hex(w1)})
	} else if !vC18SameWire(d, w1) {
		mk("reparse-differs", map[string]any{"wire": vC18Hex(w1)})
	}
	var as2 []*api.Attribute
	as2, err = MarshalPathAttributes(ys)
	if err != nil || len(as2) != 1 || !proto.Equal(as[0], as2[0]) {
		mk("api-not-fixpoint", map[string]any{"api": as[0].String()})
	}
	return
}

func vC18AddrClassSweep(o *vOut, r *vRand) {
	report := func(fs []vC18AddrFail) {
		for _, f := range fs {
			o.fail(f.class, f.detail)
		}
	}
	nlri := func(fam Family, kind, cls string, f func() (NLRI, error)) {
		defer func() { recover() }() // a constructor refusing the address is not a converter matter
		x, err := f()
		if err != nil || vC18IsNil(x) {
			o.stat("addr_constructor_refuses:"+kind+":"+cls, 1)
			return
		}
		o.stat("addr_nlri:"+kind, 1)
		o.stat("addr_class:"+cls, 1)
		report(vC18AddrNLRI(fam, kind, cls, x))
	}
	attr := func(kind, cls string, f func() (PathAttributeInterface, error)) {
		defer func() { recover() }()
		x, err := f()
		if err != nil || vC18IsNil(x) {
			o.stat("addr_constructor_refuses:"+kind+":"+cls, 1)
			return
		}
		o.stat("addr_attr:"+kind, 1)
		o.stat("addr_class:"+cls, 1)
		report(vC18AddrAttr(kind, cls, x))
	}
	rounds := 2
	if o.thorough {
		rounds = 10
	}
	for round := 0; round < rounds; round++ {
		c4, c6 := vC18Addr4Classes(r), vC18Addr6Classes(r)
		all := append(append([]vC18AddrClass{}, c4...), c6...)
		noZone := func(a netip.Addr) netip.Addr { return a.WithZone("") }
		esi := vC18ESI(r, ESI_ARBITRARY)
		for _, c := range all {
			c := c
			v6 := !c.addr.Is4()
			afi := uint16(AFI_IP)
			if v6 {
				afi = AFI_IP6
			}
			// ---- prefix-valued NLRI fields, every interesting length
			for _, bits := range vC18PfxLens(c.addr, r) {
				bits := bits
				pfx := netip.PrefixFrom(noZone(c.addr), bits)
				cls := fmt.Sprintf("%s/%d", c.name, bits)
				if bits != 0 && bits != c.addr.BitLen() && bits != 96 && bits != 112 {
					cls = c.name + "/mid"
				}
				nlri(NewFamily(afi, SAFI_UNICAST), "IPAddrPrefix", cls, func() (NLRI, error) { return NewIPAddrPrefix(pfx) })
				nlri(NewFamily(afi, SAFI_MPLS_LABEL), "LabeledIPAddrPrefix", cls, func() (NLRI, error) {
					return NewLabeledIPAddrPrefix(pfx.Masked(), *NewMPLSLabelStack(16, 17))
				})
				nlri(NewFamily(afi, SAFI_MPLS_VPN), "LabeledVPNIPAddrPrefix", cls, func() (NLRI, error) {
					return NewLabeledVPNIPAddrPrefix(pfx.Masked(), *NewMPLSLabelStack(100), vC18RD(r, round))
				})
				// EVPN IP prefix route: prefix and gateway of the same family, gateway of every class below
				nlri(RF_EVPN, "EVPNNLRI.EVPNIPPrefixRoute", cls, func() (NLRI, error) {
					gw := netip.IPv4Unspecified()
					if v6 {
						gw = netip.IPv6Unspecified()
					}
					return NewEVPNIPPrefixRoute(vC18RD(r, round), esi, uint32(r.intn(4096)), uint8(bits), pfx.Masked().Addr(), gw, vC18Label(r))
				})
				if v6 {
					nlri(RF_FS_IPv6_UC, "FlowSpecNLRI.dst6", cls, func() (NLRI, error) {
						p, err := NewIPAddrPrefix(pfx)
						if err != nil {
							return nil, err
						}
						return NewFlowSpecUnicast(RF_FS_IPv6_UC, []FlowSpecComponentInterface{NewFlowSpecDestinationPrefix6(p, 0)})
					})
					nlri(RF_MUP_IPv6, "MUPNLRI.ISD", cls, func() (NLRI, error) {
						return NewMUPInterworkSegmentDiscoveryRoute(vC18RD(r, round), pfx.Masked()), nil
					})
				} else {
					nlri(RF_FS_IPv4_UC, "FlowSpecNLRI.dst4", cls, func() (NLRI, error) {
						p, err := NewIPAddrPrefix(pfx)
						if err != nil {
							return nil, err
						}
						return NewFlowSpecUnicast(RF_FS_IPv4_UC, []FlowSpecComponentInterface{NewFlowSpecDestinationPrefix(p), NewFlowSpecSourcePrefix(p)})
					})
					nlri(RF_MUP_IPv4, "MUPNLRI.ISD", cls, func() (NLRI, error) {
						return NewMUPInterworkSegmentDiscoveryRoute(vC18RD(r, round), pfx.Masked()), nil
					})
				}
			}
			// ---- address-valued NLRI fields
			nlri(NewFamily(afi, SAFI_ENCAPSULATION), "EncapNLRI", c.name, func() (NLRI, error) { return NewEncapNLRI(c.addr) })
			nlri(RF_EVPN, "EVPNNLRI.EVPNMacIPAdvertisementRoute", c.name, func() (NLRI, error) {
				return NewEVPNMacIPAdvertisementRoute(vC18RD(r, round), esi, uint32(r.intn(4096)), vC18MacStr(r), c.addr, []uint32{vC18Label(r)})
			})
			nlri(RF_EVPN, "EVPNNLRI.EVPNMulticastEthernetTagRoute", c.name, func() (NLRI, error) {
				return NewEVPNMulticastEthernetTagRoute(vC18RD(r, round), uint32(r.intn(4096)), c.addr)
			})
			nlri(RF_EVPN, "EVPNNLRI.EVPNEthernetSegmentRoute", c.name, func() (NLRI, error) {
				return NewEVPNEthernetSegmentRoute(vC18RD(r, round), esi, c.addr)
			})
			nlri(RF_EVPN, "EVPNNLRI.EVPNIPPrefixRoute.gateway", c.name, func() (NLRI, error) {
				p := netip.MustParseAddr("10.1.0.0")
				if v6 {
					p = netip.MustParseAddr("2001:db8:1::")
				}
				return NewEVPNIPPrefixRoute(vC18RD(r, round), esi, 0, 24, p, c.addr, vC18Label(r))
			})
			mupFam := RF_MUP_IPv4
			if v6 {
				mupFam = RF_MUP_IPv6
			}
			nlri(mupFam, "MUPNLRI.DSD", c.name, func() (NLRI, error) {
				return NewMUPDirectSegmentDiscoveryRoute(vC18RD(r, round), c.addr), nil
			})
			nlri(mupFam, "MUPNLRI.T1ST", c.name, func() (NLRI, error) {
				p := netip.PrefixFrom(noZone(c.addr), c.addr.BitLen())
				sa := c.addr
				return NewMUPType1SessionTransformedRoute(vC18RD(r, round), p, vC18V4(r), uint8(r.intn(64)), c.addr, &sa), nil
			})
			nlri(mupFam, "MUPNLRI.T2ST", c.name, func() (NLRI, error) {
				return NewMUPType2SessionTransformedRoute(vC18RD(r, round), uint8(c.addr.BitLen()+32), c.addr, vC18V4(r)), nil
			})
			srFam := RF_SR_POLICY_IPv4
			if v6 {
				srFam = RF_SR_POLICY_IPv6
			}
			nlri(srFam, "SRPolicyNLRI", c.name, func() (NLRI, error) {
				return NewSRPolicy(srFam, uint32(64+c.addr.BitLen()), 1, 100, c.addr.AsSlice())
			})
			// ---- address-bearing attributes
			attr("PathAttributeNextHop", c.name, func() (PathAttributeInterface, error) { return NewPathAttributeNextHop(c.addr) })
			attr("PathAttributeTunnelEncap.egress-endpoint", c.name, func() (PathAttributeInterface, error) {
				st, err := NewTunnelEncapSubTLVEgressEndpoint(c.addr)
				if err != nil {
					return nil, err
				}
				return NewPathAttributeTunnelEncap([]*TunnelEncapTLV{NewTunnelEncapTLV(TUNNEL_TYPE_VXLAN, []TunnelEncapSubTLVInterface{st})}), nil
			})
			attr("PathAttributePmsiTunnel.ingress-repl", c.name, func() (PathAttributeInterface, error) {
				id, err := NewIngressReplTunnelID(c.addr)
				if err != nil {
					return nil, err
				}
				return NewPathAttributePmsiTunnel(PMSI_TUNNEL_TYPE_INGRESS_REPL, false, vC18Label(r), id), nil
			})
			if v6 {
				attr("PathAttributeIP6ExtendedCommunities", c.name, func() (PathAttributeInterface, error) {
					e, err := NewIPv6AddressSpecificExtended(EC_SUBTYPE_ROUTE_TARGET, c.addr, vC18U16(r), true)
					if err != nil {
						return nil, err
					}
					e2, err := NewRedirectIPv6AddressSpecificExtended(c.addr, vC18U16(r))
					if err != nil {
						return nil, err
					}
					return NewPathAttributeIP6ExtendedCommunities([]ExtendedCommunityInterface{e, e2}), nil
				})
			} else {
				attr("PathAttributeAggregator", c.name, func() (PathAttributeInterface, error) { return NewPathAttributeAggregator(uint32(65001), c.addr) })
				attr("PathAttributeAs4Aggregator", c.name, func() (PathAttributeInterface, error) { return NewPathAttributeAs4Aggregator(65001, c.addr) })
				attr("PathAttributeOriginatorId", c.name, func() (PathAttributeInterface, error) { return NewPathAttributeOriginatorId(c.addr) })
				attr("PathAttributeClusterList", c.name, func() (PathAttributeInterface, error) {
					return NewPathAttributeClusterList([]netip.Addr{c.addr, vC18V4(r)})
				})
				attr("PathAttributeExtendedCommunities.ipv4-specific", c.name, func() (PathAttributeInterface, error) {
					e, err := NewIPv4AddressSpecificExtended(EC_SUBTYPE_ROUTE_TARGET, c.addr, vC18U16(r), true)
					if err != nil {
						return nil, err
					}
					e2, err := NewRedirectIPv4AddressSpecificExtended(c.addr, vC18U16(r))
					if err != nil {
						return nil, err
					}
					return NewPathAttributeExtendedCommunities([]ExtendedCommunityInterface{e, e2}), nil
				})
				nlri(RF_IPv4_VPN, "LabeledVPNIPAddrPrefix.rd-ipv4", c.name, func() (NLRI, error) {
					rd, err := NewRouteDistinguisherIPAddressAS(c.addr, vC18U16(r))
					if err != nil {
						return nil, err
					}
					return NewLabeledVPNIPAddrPrefix(vC18Pfx4(r).Masked(), *NewMPLSLabelStack(100), rd)
				})
			}
			// ---- MP_REACH next hops: every class as the (first) next hop of an IPv4 and an IPv6 unicast route
			for _, fam := range []Family{RF_IPv4_UC, RF_IPv6_UC, RF_IPv4_VPN, RF_EVPN} {
				fam := fam
				kind := "PathAttributeMpReachNLRI[" + fam.String() + "]"
				var n NLRI
				switch fam {
				case RF_IPv4_UC:
					n, _ = NewIPAddrPrefix(vC18Pfx4(r))
				case RF_IPv6_UC:
					n, _ = NewIPAddrPrefix(vC18Pfx6(r))
				case RF_IPv4_VPN:
					n, _ = NewLabeledVPNIPAddrPrefix(vC18Pfx4(r).Masked(), *NewMPLSLabelStack(100), vC18RD(r, round))
				default:
					n, _ = NewEVPNMulticastEthernetTagRoute(vC18RD(r, round), 1, vC18V4(r))
				}
				x, err := NewPathAttributeMpReachNLRI(fam, []PathNLRI{{NLRI: n}}, c.addr)
				if err != nil {
					continue
				}
				fs := vC18AddrAttr(kind, c.name, x)
				o.stat("addr_attr:PathAttributeMpReachNLRI", 1)
				for _, f := range fs {
					// the listed finding keeps its own class: an IPv4-mapped next hop of a family whose AFI is
					// not IPv6 is printed un-mapped and comes back as a 4-octet next hop
					if strings.HasPrefix(c.name, "v4-mapped") && fam.Afi() != AFI_IP6 &&
						(strings.HasSuffix(f.class, ":wire-differs") || strings.HasSuffix(f.class, ":api-not-fixpoint")) {
						f.class = "attr:PathAttributeMpReachNLRI:v4-mapped-nexthop"
					}
					o.fail(f.class, f.detail)
				}
				if c.addr.Is6() {
					xl, err := NewPathAttributeMpReachNLRI(fam, []PathNLRI{{NLRI: n}}, vC18V6(r), c.addr)
					if err == nil {
						report(vC18AddrAttr(kind+".second-next-hop", c.name, xl))
					}
				}
			}
		}
	}
}
