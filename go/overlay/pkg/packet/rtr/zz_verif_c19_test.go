//go:build verif

package rtr

// C19 / RTR harness. Correspondence: ParseRTR, every Serialize and every New* constructor against
// Framing.Rtr.* on the same bytes. Oracles (model-independent): constructed PDUs round-trip
// byte-for-byte; no decoder entry point panics or hangs on arbitrary / mutated input.

import (
	"bytes"
	"encoding/binary"
	"encoding/hex"
	"fmt"
	"net/netip"
	"os"
	"strings"
	"sync/atomic"
	"testing"
	"time"
)

func c19Hex(b []byte) string {
	if len(b) == 0 {
		return "-"
	}
	return hex.EncodeToString(b)
}

// watchdog: a decoder call that does not return within 20 s is reported and the run aborted.
type c19Dog struct {
	o    *vOut
	cur  atomic.Value // string
	tick atomic.Int64
}

func c19Watch(o *vOut) *c19Dog {
	d := &c19Dog{o: o}
	d.cur.Store("")
	go func() {
		last, since := int64(-1), time.Now()
		for {
			time.Sleep(500 * time.Millisecond)
			n := d.tick.Load()
			if n != last {
				last, since = n, time.Now()
				continue
			}
			if c := d.cur.Load().(string); c != "" && time.Since(since) > 20*time.Second {
				o.fail("hang", c)
				o.close()
				os.Exit(3)
			}
		}
	}()
	return d
}

// run executes f; a panic is an outcome ("panic"), a hang is caught by the watchdog.
func (d *c19Dog) run(what string, in []byte, f func() string) (s string) {
	d.cur.Store(what + " " + c19Hex(in))
	d.tick.Add(1)
	defer func() {
		if e := recover(); e != nil {
			s = "panic"
		}
		d.cur.Store("")
		d.tick.Add(1)
	}()
	return f()
}

// the awkward address classes every address-valued field is also generated with: unspecified,
// all-ones, loopback, link-local and (IPv6) IPv4-mapped addresses
func c19Awkward(r *vRand, six bool) netip.Addr {
	if !six {
		return netip.AddrFrom4([][4]byte{{0, 0, 0, 0}, {255, 255, 255, 255}, {127, 0, 0, 1}, {169, 254, byte(r.next()), byte(r.next())}, {224, 0, 0, 5}}[r.intn(5)])
	}
	a := [16]byte{}
	switch r.intn(6) {
	case 0: // ::
	case 1: // ::ffff:a.b.c.d (IPv4-mapped)
		a[10], a[11] = 0xff, 0xff
		binary.BigEndian.PutUint32(a[12:], r.u32()|1<<24)
	case 2: // ::ffff:0.0.0.0
		a[10], a[11] = 0xff, 0xff
	case 3: // link-local
		a[0], a[1] = 0xfe, 0x80
		binary.BigEndian.PutUint64(a[8:], r.next())
	case 4:
		for i := range a {
			a[i] = 0xff
		}
	case 5:
		a[15] = 1
	}
	return netip.AddrFrom16(a)
}

func c19Mutate(r *vRand, b []byte) []byte {
	c := append([]byte(nil), b...)
	n := 1 + r.intn(2)
	for ; n > 0; n-- {
		switch r.intn(7) {
		case 0:
			c = c[:r.intn(len(c)+1)]
		case 1:
			for k := r.intn(9); k > 0; k-- {
				c = append(c, byte(r.next()))
			}
		case 2:
			if len(c) > 0 {
				c[r.intn(len(c))] = byte(r.next())
			}
		case 3:
			if len(c) > 0 {
				c[r.intn(len(c))] = byte(r.pick(0, 1, 0x7f, 0x80, 0xff, 4, 6, 10))
			}
		case 4:
			if len(c) >= 4 {
				i := r.intn(len(c) - 3)
				v := []uint32{0, 1, 0xffffffff, 0xfffffff4, 0x80000000, uint32(len(c)), uint32(len(c) + 1), uint32(len(c) - 1), 16, 15}[r.intn(10)]
				binary.BigEndian.PutUint32(c[i:], v)
			}
		case 5, 6:
			if len(c) >= 16 && c[1] == 10 && r.chance(60) {
				// PDULen / TextLen of an Error Report, consistent or off by a little
				i := 8
				if r.chance(50) {
					i = len(c) - 4 - r.intn(3)
				}
				binary.BigEndian.PutUint32(c[i:], uint32(int(binary.BigEndian.Uint32(c[i:]))+r.intn(5)-2))
				if r.chance(50) {
					binary.BigEndian.PutUint32(c[4:], uint32(len(c)))
				}
			} else if len(c) >= 8 {
				// the Length field of every RTR PDU
				v := []uint32{0, 7, 8, 11, 12, 16, 19, 20, 31, 32, uint32(len(c)), uint32(len(c) + 1), uint32(len(c) - 1), 0xffffffff}[r.intn(14)]
				binary.BigEndian.PutUint32(c[4:], v)
			}
		}
	}
	return c
}

func c19ErrClass(err error) string {
	s := err.Error()
	switch {
	case strings.Contains(s, "too short"), strings.Contains(s, "not all bytes"):
		return "err short"
	case strings.Contains(s, "unknown RTR message type"):
		return "err unknown"
	case strings.Contains(s, "out of range"):
		return "err range"
	case strings.Contains(s, "invalid RTRErrorReport length"):
		return "err badlen"
	}
	return "err other:" + s
}

func c19Common(c RTRCommon) string {
	return fmt.Sprintf("common %d %d %d %d %d", c.Version, c.Type, c.SessionID, c.Len, c.SerialNumber)
}

func c19PduStr(m RTRMessage) (string, uint32) {
	switch p := m.(type) {
	case *RTRSerialNotify:
		return c19Common(p.RTRCommon), p.Len
	case *RTRSerialQuery:
		return c19Common(p.RTRCommon), p.Len
	case *RTREndOfData:
		return c19Common(p.RTRCommon), p.Len
	case *RTRResetQuery:
		return fmt.Sprintf("reset %d %d %d", p.Version, p.Type, p.Len), p.Len
	case *RTRCacheReset:
		return fmt.Sprintf("reset %d %d %d", p.Version, p.Type, p.Len), p.Len
	case *RTRCacheResponse:
		return fmt.Sprintf("cresp %d %d %d %d", p.Version, p.Type, p.SessionID, p.Len), p.Len
	case *RTRIPPrefix:
		return fmt.Sprintf("prefix %d %d %d %d %d %d %s %d", p.Version, p.Type, p.Len, p.Flags, p.PrefixLen, p.MaxLen,
			c19Hex(p.Prefix.AsSlice()), p.AS), p.Len
	case *RTRErrorReport:
		return fmt.Sprintf("errep %d %d %d %d %d %s %d %s", p.Version, p.Type, p.ErrorCode, p.Len, p.PDULen, c19Hex(p.PDU),
			p.TextLen, c19Hex(p.Text)), p.Len
	}
	return "?", 0
}

func c19ParseStr(b []byte) string {
	m, err := ParseRTR(b)
	if err != nil {
		return c19ErrClass(err)
	}
	s, _ := c19PduStr(m)
	return s
}

func c19SerStr(m RTRMessage) string {
	_, l := c19PduStr(m)
	if l > 70000 {
		return "big"
	}
	b, err := m.Serialize()
	if err != nil {
		return "err"
	}
	return c19Hex(b)
}

func TestVerifC19(t *testing.T) {
	o := vOpen(t)
	defer o.close()
	r := &vRand{s: o.seed*7919 + 191}
	dog := c19Watch(o)
	n := 8000
	if o.thorough {
		n = 50000
	}

	rndAddr := func() netip.Addr {
		if r.chance(25) {
			return c19Awkward(r, r.chance(65))
		}
		if r.chance(50) {
			var a [4]byte
			binary.BigEndian.PutUint32(a[:], r.u32())
			return netip.AddrFrom4(a)
		}
		var a [16]byte
		binary.BigEndian.PutUint64(a[:], r.next())
		binary.BigEndian.PutUint64(a[8:], r.next())
		if r.chance(15) { // IPv4-mapped: Is6() holds for it as well
			copy(a[:], []byte{0, 0, 0, 0, 0, 0, 0, 0, 0, 0, 0xff, 0xff})
		}
		return netip.AddrFrom16(a)
	}
	rndBytes := func(max int) []byte {
		b := make([]byte, r.intn(max+1))
		for i := range b {
			b[i] = byte(r.next())
		}
		return b
	}

	// mk: constructor -> serialise -> parse; one protocol line, one oracle check
	var pool [][]byte
	mk := func(line string, m RTRMessage, isNil bool) {
		if isNil {
			o.ask("nil", "%s", line)
			o.stat("ctor_nil", 1)
			return
		}
		ans := dog.run("ctor "+line, nil, func() string {
			s, _ := c19PduStr(m)
			b, err := m.Serialize()
			if err != nil {
				return s + " | err"
			}
			pool = append(pool, b)
			res := s + " | " + c19Hex(b) + " | " + c19ParseStr(b)
			// oracle (1): what the package constructs parses back and re-serialises identically
			m2, err := ParseRTR(b)
			if err != nil {
				o.fail("rtr-ctor-unparseable", map[string]any{"ctor": line, "bytes": c19Hex(b), "err": err.Error()})
				return res
			}
			b2, err := m2.Serialize()
			if err != nil || !bytes.Equal(b, b2) {
				o.fail("rtr-roundtrip", map[string]any{"ctor": line, "bytes": c19Hex(b), "again": c19Hex(b2)})
			}
			if s2, _ := c19PduStr(m2); s2 != s {
				o.fail("rtr-roundtrip-fields", map[string]any{"ctor": line, "built": s, "parsed": s2})
			}
			if uint32(len(b)) != binary.BigEndian.Uint32(b[4:8]) {
				o.fail("rtr-length-field", map[string]any{"ctor": line, "bytes": c19Hex(b)})
			}
			return res
		})
		if ans == "panic" {
			o.fail("rtr-ctor-panic", line)
		}
		o.ask(ans, "%s", line)
	}
	ctor := func() {
		switch k := r.intn(9); k {
		case 0, 1, 2:
			typ := []int{RTR_SERIAL_NOTIFY, RTR_SERIAL_QUERY, RTR_END_OF_DATA}[k]
			id, sn := uint16(r.next()), r.u32()
			if r.chance(20) {
				sn = []uint32{0, 1, 0xffffffff, 0x80000000}[r.intn(4)]
			}
			var m RTRMessage
			switch typ {
			case RTR_SERIAL_NOTIFY:
				m = NewRTRSerialNotify(id, sn)
			case RTR_SERIAL_QUERY:
				m = NewRTRSerialQuery(id, sn)
			default:
				m = NewRTREndOfData(id, sn)
			}
			mk(fmt.Sprintf("rtr.mk common %d %d %d", typ, id, sn), m, false)
			o.stat("ctor_common", 1)
		case 3:
			if r.chance(50) {
				mk("rtr.mk reset 2", NewRTRResetQuery(), false)
			} else {
				mk("rtr.mk reset 8", NewRTRCacheReset(), false)
			}
			o.stat("ctor_reset", 1)
		case 4:
			id := uint16(r.next())
			mk(fmt.Sprintf("rtr.mk cresp %d", id), NewRTRCacheResponse(id), false)
			o.stat("ctor_cresp", 1)
		case 5, 6:
			a := rndAddr()
			width := 32
			if a.Is6() {
				width = 128
			}
			pl := r.intn(width + 1)
			ml := pl + r.intn(width-pl+1)
			switch r.intn(10) {
			case 0:
				pl, ml = width, width
			case 1:
				pl = width + 1 + r.intn(255-width) // constructor refuses
			case 2:
				ml = r.intn(256) // may be below pl or beyond the width
			case 3:
				if pl > 0 {
					ml = pl - 1
				}
			}
			asn, fl := r.u32(), uint8(r.intn(2))
			if r.chance(10) {
				fl = uint8(r.next())
			}
			m := NewRTRIPPrefix(a, uint8(pl), uint8(ml), asn, fl)
			mk(fmt.Sprintf("rtr.mk prefix %s %d %d %d %d", c19Hex(a.AsSlice()), pl, ml, asn, fl), m, m == nil)
			if a.Is6() {
				o.stat("ctor_prefix6", 1)
			} else {
				o.stat("ctor_prefix4", 1)
			}
		default:
			code := uint16(r.intn(9))
			var pdu, txt []byte
			if r.chance(70) {
				if len(pool) > 0 && r.chance(70) {
					pdu = pool[r.intn(len(pool))]
				} else {
					pdu = append([]byte{0, byte(r.pick(0, 1, 2, 3, 4, 6, 7, 8, 10, 10, 255))}, rndBytes(30)...)
				}
				if len(pdu) > 200 {
					pdu = pdu[:200]
				}
			}
			if r.chance(70) {
				txt = rndBytes(40)
			}
			m := NewRTRErrorReport(code, pdu, txt)
			mk(fmt.Sprintf("rtr.mk errep %d %s %s", code, c19Hex(pdu), c19Hex(txt)), m, m == nil)
			o.stat("ctor_errep", 1)
		}
	}

	// decode: ParseRTR + re-serialisation of what it returned, plus the per-type decoders
	decode := func(b []byte, tag string) {
		ans := dog.run("ParseRTR", b, func() string { return c19ParseStr(b) })
		if ans == "panic" {
			o.fail("rtr-parse-panic", c19Hex(b))
		}
		o.ask(ans, "rtr.parse %s", c19Hex(b))
		o.stat("parse_"+tag+"_"+strings.SplitN(strings.TrimPrefix(ans, "err "), " ", 2)[0], 1)
		rt := dog.run("ParseRTR+Serialize", b, func() string {
			m, err := ParseRTR(b)
			if err != nil {
				return c19ErrClass(err)
			}
			return c19SerStr(m)
		})
		o.ask(rt, "rtr.rt %s", c19Hex(b))
		if rt == "panic" {
			o.stat("reserialise_panics", 1)
		}
		for _, m := range []RTRMessage{&RTRCommon{}, &RTRReset{}, &RTRCacheResponse{}, &RTRIPPrefix{}, &RTRErrorReport{}} {
			if dog.run(fmt.Sprintf("%T.DecodeFromBytes", m), b, func() string { _ = m.DecodeFromBytes(b); return "" }) == "panic" {
				o.fail("rtr-decode-panic", map[string]any{"type": fmt.Sprintf("%T", m), "bytes": c19Hex(b)})
			}
		}
	}

	// corpus: boundary cases first. Found on the pinned commit: NewRTRIPPrefix accepted a max
	// length that DecodeFromBytes rejects (mk reports rtr-ctor-unparseable when that recurs).
	for _, c := range [][2]int{{24, 16}, {24, 40}, {24, 24}, {0, 0}, {32, 32}, {33, 33}} {
		a := netip.MustParseAddr("192.168.0.0")
		m := NewRTRIPPrefix(a, uint8(c[0]), uint8(c[1]), 65001, 1)
		mk(fmt.Sprintf("rtr.mk prefix c0a80000 %d %d 65001 1", c[0], c[1]), m, m == nil)
	}
	for _, c := range [][2]int{{48, 32}, {48, 129}, {128, 128}, {129, 129}} {
		a := netip.MustParseAddr("2001:db8::")
		m := NewRTRIPPrefix(a, uint8(c[0]), uint8(c[1]), 65001, 0)
		mk(fmt.Sprintf("rtr.mk prefix %s %d %d 65001 0", c19Hex(a.AsSlice()), c[0], c[1]), m, m == nil)
	}
	for _, h := range []string{"", "00", "0000000000000008", "0002000000000008", "000200000000000800", "0003123400000008",
		"000000010000000c00000005", "000000010000000500000005", "0000000100000000", "0005000000000008", "00ff000000000008",
		"000400000000001401181800c0a800000000fde8", "000400000000001401191800c0a800000000fde8", "000400000000001401182100c0a800000000fde8",
		"0006000000000020018080002001" + "0db8000000000000000000000000" + "0000fde8", "000600000000002001818000200100000000000000000000000000000000fde8",
		"000600000000001401181800c0a800000000fde8",
		"000a0000000000100000000000000000", "000a000000000011000000000000000000", "000a000000000010000000010000000000",
		"000a0002000000180000000800020000000000080000000", "000a000200000018000000080002000000000008000000016162",
		"000a00000000001000000000ffffffff", "000a000000000010fffffff400000000", "000a00000000000f00000000"} {
		b, _ := hex.DecodeString(h)
		decode(b, "corpus")
	}

	for i := 0; i < n; i++ {
		ctor()
		var b []byte
		tag := "mut"
		switch r.intn(10) {
		case 0, 1:
			b, tag = pool[r.intn(len(pool))], "valid"
		case 2:
			b, tag = rndBytes(48), "random"
			if len(b) > 1 {
				b[1] = byte(r.pick(0, 1, 2, 3, 4, 6, 7, 8, 10))
			}
		default:
			b = c19Mutate(r, pool[r.intn(len(pool))])
		}
		decode(b, tag)
	}

	// serialise arbitrary struct values (Len too small panics: make([]byte, Len) + fixed indices)
	for i := 0; i < n/2; i++ {
		l := uint32(r.pick(0, 1, 4, 7, 8, 11, 12, 13, 16, 19, 20, 24, 31, 32, 40))
		var m RTRMessage
		switch r.intn(5) {
		case 0:
			m = &RTRSerialNotify{RTRCommon{Version: uint8(r.intn(3)), Type: 0, SessionID: uint16(r.next()), Len: l, SerialNumber: r.u32()}}
		case 1:
			m = &RTRResetQuery{RTRReset{Version: uint8(r.intn(3)), Type: 2, Len: l}}
		case 2:
			m = &RTRCacheResponse{Version: uint8(r.intn(3)), Type: 3, SessionID: uint16(r.next()), Len: l}
		case 3:
			a := rndAddr()
			typ := uint8(RTR_IPV4_PREFIX)
			if r.chance(50) {
				typ = RTR_IPV6_PREFIX
			}
			m = &RTRIPPrefix{Version: uint8(r.intn(3)), Type: typ, Len: l, Flags: uint8(r.intn(2)), PrefixLen: uint8(r.next()), MaxLen: uint8(r.next()), Prefix: a, AS: r.u32()}
		default:
			pdu, txt := rndBytes(12), rndBytes(12)
			pl, tl := uint32(len(pdu)), uint32(len(txt))
			if r.chance(30) {
				pl = uint32(r.pick(0, 1, 4, 8, 20, 0xffffffff, 0xfffffff4, 0xfffffff0, 0xfffffff2))
			}
			if r.chance(20) {
				tl = r.u32()
			}
			if r.chance(50) {
				l = 16 + uint32(len(pdu)) + uint32(len(txt))
			}
			m = &RTRErrorReport{Version: uint8(r.intn(3)), Type: 10, ErrorCode: uint16(r.intn(9)), Len: l, PDULen: pl, PDU: pdu, TextLen: tl, Text: txt}
		}
		s, _ := c19PduStr(m)
		ans := dog.run("Serialize "+s, nil, func() string { return c19SerStr(m) })
		o.ask(ans, "rtr.ser %s", s)
		if ans == "panic" {
			o.stat("ser_struct_panic", 1)
		} else {
			o.stat("ser_struct_ok", 1)
		}
	}
	o.sample("rtr: " + fmt.Sprint(len(pool)) + " constructed PDUs, e.g. " + c19Hex(pool[len(pool)-1]))
}
