//go:build verif

package mrt

// C19 / MRT harness. Correspondence: ParseHeader, MRTHeader.Serialize and SplitMrt against
// Framing.Mrt.*. Oracles (model-independent): every constructible record (all TABLE_DUMPv2 and
// BGP4MP subtypes, ADD-PATH variants included) serialises to bytes that ParseHeader+ParseBody read
// back and re-serialise identically; SplitMrt never returns more than it was given, never reads
// beyond len(data), makes progress or asks for more, and cuts a stream of records at the record
// boundaries (also through a real bufio.Scanner); no panic / hang on mutated input.
// Record BODIES are outside the Lean model: sampled here only.

import (
	"bufio"
	"bytes"
	"encoding/binary"
	"encoding/hex"
	"fmt"
	"net/netip"
	"os"
	"strings"
	"sync/atomic"
	"testing"
	"time"

	"github.com/osrg/gobgp/v4/pkg/packet/bgp"
)

func c19Hex(b []byte) string {
	if len(b) == 0 {
		return "-"
	}
	return hex.EncodeToString(b)
}

// watchdog: a decoder call that does not return within 20 s is reported and the run aborted.
type c19Dog struct {
	o    *vOut
	cur  atomic.Value // string
	tick atomic.Int64
}

func c19Watch(o *vOut) *c19Dog {
	d := &c19Dog{o: o}
	d.cur.Store("")
	go func() {
		last, since := int64(-1), time.Now()
		for {
			time.Sleep(500 * time.Millisecond)
			n := d.tick.Load()
			if n != last {
				last, since = n, time.Now()
				continue
			}
			if c := d.cur.Load().(string); c != "" && time.Since(since) > 20*time.Second {
				o.fail("hang", c)
				o.close()
				os.Exit(3)
			}
		}
	}()
	return d
}

// run executes f; a panic is an outcome ("panic"), a hang is caught by the watchdog.
func (d *c19Dog) run(what string, in []byte, f func() string) (s string) {
	d.cur.Store(what + " " + c19Hex(in))
	d.tick.Add(1)
	defer func() {
		if e := recover(); e != nil {
			s = "panic"
		}
		d.cur.Store("")
		d.tick.Add(1)
	}()
	return f()
}


func c19Mutate(r *vRand, b []byte) []byte {
	c := append([]byte(nil), b...)
	for n := 1 + r.intn(2); n > 0; n-- {
		switch r.intn(7) {
		case 0:
			c = c[:r.intn(len(c)+1)]
		case 1:
			for k := r.intn(9); k > 0; k-- {
				c = append(c, byte(r.next()))
			}
		case 2:
			if len(c) > 0 {
				c[r.intn(len(c))] = byte(r.next())
			}
		case 3:
			if len(c) > 0 {
				c[r.intn(len(c))] = byte(r.pick(0, 1, 0x7f, 0x80, 0xff, 2, 4, 16))
			}
		case 4:
			if len(c) >= 2 {
				i := r.intn(len(c) - 1)
				binary.BigEndian.PutUint16(c[i:], uint16(r.pick(0, 1, 0xffff, 0x8000, len(c), 4096, 255)))
			}
		case 5:
			if len(c) >= 12 { // Length of the common header
				v := []uint32{0, 1, 4, 0xffffffff, 0xfffffff4, 0xfffffff3, 0xfffffff5, 0x7fffffff, uint32(len(c) - 12), uint32(len(c) - 11), uint32(len(c) - 13), uint32(len(c))}[r.intn(12)]
				binary.BigEndian.PutUint32(c[8:], v)
			}
		case 6:
			if len(c) >= 8 { // type / subtype
				binary.BigEndian.PutUint16(c[4:], uint16(r.pick(12, 13, 16, 17, 32, 33, 48, 49, 0, 11)))
				if r.chance(50) {
					binary.BigEndian.PutUint16(c[6:], uint16(r.intn(14)))
				}
			}
		}
	}
	return c
}

// canonical text of a record body (no pointers)
func c19BodyStr(b Body) string {
	switch x := b.(type) {
	case *BGP4MPStateChange:
		return fmt.Sprintf("%+v %d %d", *x.BGP4MPHeader, x.OldState, x.NewState)
	case *BGP4MPMessage:
		pl := x.BGPMessagePayload
		if pl == nil && x.BGPMessage != nil {
			pl, _ = x.BGPMessage.Serialize(x.bgpMessageOption())
		}
		return fmt.Sprintf("%+v %v %v %s", *x.BGP4MPHeader, x.isLocal, x.isAddPath, c19Hex(pl))
	case *Rib:
		return fmt.Sprintf("%s family=%s addpath=%v", x, x.Family, x.isAddPath)
	}
	return fmt.Sprint(b)
}

// ---- what the Go parser sees in a record body, in the vocabulary of the Lean model
// (Framing.Mrt.parsePeerTable / parseRib / parseBgp4mp): attributes and embedded BGP messages
// as octets

func c19AttrBytes(e *RibEntry) []byte {
	var b []byte
	for _, a := range e.PathAttributes {
		ab, _ := a.Serialize(&bgp.MarshallingOption{MRT: true})
		b = append(b, ab...)
	}
	return b
}

func c19PtabStr(t *PeerIndexTable) string {
	var sb strings.Builder
	fmt.Fprintf(&sb, "ok %s %s %d", c19Hex(t.CollectorBgpId.AsSlice()), c19Hex([]byte(t.ViewName)), len(t.Peers))
	for _, p := range t.Peers {
		fmt.Fprintf(&sb, " %d %s %s %d", p.Type, c19Hex(p.BgpId.AsSlice()), c19Hex(p.IpAddress.AsSlice()), p.AS)
	}
	return sb.String()
}

func c19RibStr(u *Rib, full bool) string {
	var sb strings.Builder
	nl, _ := u.Prefix.Serialize()
	nls := c19Hex(nl)
	switch u.Family {
	case bgp.RF_IPv4_UC, bgp.RF_IPv4_MC, bgp.RF_IPv6_UC, bgp.RF_IPv6_MC:
	default:
		if !full {
			nls = "opaque"
		}
	}
	fmt.Fprintf(&sb, "ok %d %d %d %s %d", u.SequenceNumber, u.Family.Afi(), u.Family.Safi(), nls, len(u.Entries))
	for _, e := range u.Entries {
		fmt.Fprintf(&sb, " %d %d %d", e.PeerIndex, e.OriginatedTime, e.PathIdentifier)
		if full {
			sb.WriteString(" " + c19Hex(c19AttrBytes(e)))
		}
	}
	return sb.String()
}

func c19B4Hdr(h *BGP4MPHeader) string {
	return fmt.Sprintf("%d %d %d %d %s %s", h.PeerAS, h.LocalAS, h.InterfaceIndex, h.AddressFamily, c19Hex(h.PeerIpAddress.AsSlice()), c19Hex(h.LocalIpAddress.AsSlice()))
}

func c19B4Str(b Body, full bool) string {
	switch x := b.(type) {
	case *BGP4MPStateChange:
		return fmt.Sprintf("state %s %d %d", c19B4Hdr(x.BGP4MPHeader), x.OldState, x.NewState)
	case *BGP4MPMessage:
		pl := x.BGPMessagePayload
		if pl == nil && x.BGPMessage != nil {
			pl, _ = x.BGPMessage.Serialize(x.bgpMessageOption())
		}
		if !full { // a mutated message may re-serialise in normalised form: only its extent is compared
			return fmt.Sprintf("msg %s len %d", c19B4Hdr(x.BGP4MPHeader), x.BGPMessage.Header.Len)
		}
		return fmt.Sprintf("msg %s %s", c19B4Hdr(x.BGP4MPHeader), c19Hex(pl))
	}
	return "?"
}

// an error of the framing layer (octets missing, bad length), as opposed to one raised inside
// an attribute / NLRI / BGP message decoder, which the model treats as opaque
func c19FramingErr(err error, td2 bool) bool {
	s := err.Error()
	if !td2 && (strings.Contains(s, "network b") || strings.Contains(s, "prefix misses length")) {
		return false // raised inside the embedded UPDATE
	}
	for _, k := range []string{"not all Peer bytes are available", "not all PeerIndexTable bytes are available", "not all RibEntry bytes are available",
		"not all RibIpv4Unicast message bytes available", "not all BGP4MPMessageAS4 bytes available", "not all BGP4MPMessageAS bytes available",
		"not all IPv4 peer bytes available", "not all IPv6 peer bytes available", "not all BGP4MPStateChange bytes available",
		"unsupported address family", "not all BGP message header", "marker is not all ones",
		"network bytes is short", "network bit length is too long", "prefix misses length"} {
		if strings.Contains(s, k) {
			return true
		}
	}
	return false
}

// model correspondence for one record body (TABLE_DUMPv2 / BGP4MP); valid = built by the package
func c19AskBody(o *vOut, typ MRTType, sub uint16, body []byte, valid bool) {
	if typ != TABLE_DUMPv2 && typ != BGP4MP {
		return
	}
	h := &MRTHeader{Type: typ, SubType: sub, Len: uint32(len(body))}
	m, err := func() (m *MRTMessage, err error) {
		defer func() {
			if e := recover(); e != nil {
				err = fmt.Errorf("panic")
			}
		}()
		return ParseBody(body, h)
	}()
	tag := "mutated"
	if valid {
		tag = "valid"
	}
	if err != nil {
		generic := typ == TABLE_DUMPv2 && (sub == 6 || sub == 12)
		if !c19FramingErr(err, typ == TABLE_DUMPv2) || generic || typ == TABLE_DUMPv2 && (sub == 7 || sub == 0 || sub > 12) {
			o.stat("model_body_skipped_content_error", 1)
			return
		}
		switch {
		case typ == TABLE_DUMPv2 && sub == 1:
			o.ask("err", "mrt.ptab %s", c19Hex(body))
		case typ == TABLE_DUMPv2:
			o.ask("err", "mrt.ribshape %d 0 %s", sub, c19Hex(body))
		default:
			o.ask("err", "mrt.bgp4mpshape %d %s", sub, c19Hex(body))
		}
		o.stat("model_body_"+tag+"_err", 1)
		return
	}
	switch x := m.Body.(type) {
	case *PeerIndexTable:
		o.ask(c19PtabStr(x), "mrt.ptab %s", c19Hex(body))
	case *Rib:
		if valid {
			o.ask(c19RibStr(x, true), "mrt.rib %d %d %s", sub, x.Prefix.Len(), c19Hex(body))
		} else {
			o.ask(c19RibStr(x, false), "mrt.ribshape %d %d %s", sub, x.Prefix.Len(), c19Hex(body))
		}
	case *BGP4MPStateChange, *BGP4MPMessage:
		if valid {
			o.ask(c19B4Str(m.Body, true), "mrt.bgp4mp %d %s", sub, c19Hex(body))
		} else {
			o.ask(c19B4Str(m.Body, false), "mrt.bgp4mpshape %d %s", sub, c19Hex(body))
		}
	default:
		return
	}
	o.stat("model_body_"+tag+"_ok", 1)
}

// serialisation side: the value handed to the package's Serialize, replayed by the model
func c19AskSer(o *vOut, m *MRTMessage, b []byte) {
	body := b[MRT_COMMON_HEADER_LEN:]
	switch x := m.Body.(type) {
	case *PeerIndexTable:
		var sb strings.Builder
		for _, p := range x.Peers {
			fmt.Fprintf(&sb, " %d %s %s %d", p.Type, c19Hex(p.BgpId.AsSlice()), c19Hex(p.IpAddress.AsSlice()), p.AS)
		}
		o.ask(c19Hex(body), "mrt.ptabser %s %s %d%s", c19Hex(x.CollectorBgpId.AsSlice()), c19Hex([]byte(x.ViewName)), len(x.Peers), sb.String())
	case *Rib:
		var sb strings.Builder
		for _, e := range x.Entries {
			fmt.Fprintf(&sb, " %d %d %d %s", e.PeerIndex, e.OriginatedTime, e.PathIdentifier, c19Hex(c19AttrBytes(e)))
		}
		nl, _ := x.Prefix.Serialize()
		ap := 0
		if x.isAddPath {
			ap = 1
		}
		o.ask(c19Hex(body), "mrt.ribser %d %d %d %d %s %d%s", ap, x.SequenceNumber, x.Family.Afi(), x.Family.Safi(), c19Hex(nl), len(x.Entries), sb.String())
	case *BGP4MPStateChange:
		as4 := 0
		if x.isAS4 {
			as4 = 1
		}
		o.ask(c19Hex(body), "mrt.bgp4mpser %d state %s %d %d", as4, c19B4Hdr(x.BGP4MPHeader), x.OldState, x.NewState)
	case *BGP4MPMessage:
		as4 := 0
		if x.isAS4 {
			as4 = 1
		}
		pl := x.BGPMessagePayload
		if pl == nil {
			pl, _ = x.BGPMessage.Serialize(x.bgpMessageOption())
		}
		o.ask(c19Hex(body), "mrt.bgp4mpser %d msg %s %s", as4, c19B4Hdr(x.BGP4MPHeader), c19Hex(pl))
	default:
		return
	}
	o.ask(c19Hex(b), "mrt.record %d %d %d %s", m.Header.Timestamp, m.Header.Type, m.Header.SubType, c19Hex(body))
	o.stat("model_ser_asks", 1)
}

// CONSTRUCTORS over the cross product of their discriminating arguments: address family of every
// address argument (IPv4, IPv6, IPv4-mapped IPv6, zoned link-local) x AS width x AS range. A
// constructor (or the Serialize of what it built) must refuse the combination, or the record
// must parse back to the very arguments (zones excepted: the wire format has none).
func c19CtorCross(o *vOut, dog *c19Dog, r *vRand) {
	addrs := []netip.Addr{netip.MustParseAddr("192.0.2.1"), netip.MustParseAddr("192.0.2.2"), netip.MustParseAddr("2001:db8::1"), netip.MustParseAddr("2001:db8::2"),
		netip.MustParseAddr("::ffff:192.0.2.1"), netip.MustParseAddr("::ffff:192.0.2.2"), netip.MustParseAddr("fe80::1%eth0"), netip.MustParseAddr("fe80::2%eth1"),
		netip.MustParseAddr("0.0.0.0"), netip.MustParseAddr("::")}
	ases := []uint32{0, 1, 65535, 65536, 4200000000}
	unzone := func(a netip.Addr) netip.Addr { return a.WithZone("") }
	for _, peer := range addrs {
		for _, local := range addrs {
			for _, as4 := range []bool{false, true} {
				pa, la := ases[r.intn(len(ases))], ases[r.intn(len(ases))]
				ifi := uint16(r.next())
				kind := "bgp4mp-state-change"
				sub := MRTSubTypeBGP4MP(STATE_CHANGE)
				if as4 {
					sub = STATE_CHANGE_AS4
				}
				var body Body
				var err error
				isMsg := r.chance(50)
				if isMsg {
					kind, sub = "bgp4mp-message", MESSAGE
					if as4 {
						sub = MESSAGE_AS4
					}
					body, err = NewBGP4MPMessage(pa, la, ifi, peer, local, as4, bgp.NewBGPKeepAliveMessage())
				} else {
					body, err = NewBGP4MPStateChange(pa, la, ifi, peer, local, as4, ACTIVE, ESTABLISHED)
				}
				detail := map[string]any{"peer_address": peer.String(), "local_address": local.String(), "as4": as4, "peer_as": pa, "local_as": la}
				if err != nil {
					o.stat("ctor_"+kind+"_refused", 1)
					continue
				}
				res := dog.run("ctor "+kind, nil, func() string {
					m, err := NewMRTMessage(time.Unix(1700000000, 0), BGP4MP, sub, body)
					if err != nil {
						return "refused"
					}
					b, err := m.Serialize()
					if err != nil {
						return "refused"
					}
					h, err := ParseHeader(b)
					if err != nil {
						return "perr:" + err.Error()
					}
					m2, err := ParseBody(b[MRT_COMMON_HEADER_LEN:], h)
					if err != nil {
						return "perr:" + err.Error()
					}
					var h2 *BGP4MPHeader
					switch x := m2.Body.(type) {
					case *BGP4MPMessage:
						h2 = x.BGP4MPHeader
					case *BGP4MPStateChange:
						h2 = x.BGP4MPHeader
					}
					if h2 == nil || h2.PeerIpAddress != unzone(peer) || h2.LocalIpAddress != unzone(local) || h2.InterfaceIndex != ifi {
						detail["parsed_back"] = fmt.Sprintf("%+v", h2)
						return "fields"
					}
					if h2.PeerAS != pa || h2.LocalAS != la {
						detail["parsed_back"] = fmt.Sprintf("peer AS %d local AS %d", h2.PeerAS, h2.LocalAS)
						return "as-truncated"
					}
					return "ok"
				})
				o.stat("ctor_"+kind+"_"+strings.SplitN(res, ":", 2)[0], 1)
				switch {
				case res == "ok" || res == "refused":
				case res == "as-truncated":
					// known finding: the 2-octet subtypes take AS numbers beyond 65535 and truncate them
					o.fail("constructor-accepts-value-that-does-not-roundtrip:"+kind+":as-truncated", detail)
				default:
					detail["outcome"] = res
					o.fail("constructor-accepts-value-that-does-not-roundtrip:"+kind, detail)
				}
			}
		}
	}
	// NewPeer: address family x AS width x AS range (a 2-octet entry with a larger AS is refused by Serialize)
	for _, addr := range addrs {
		for _, as4 := range []bool{false, true} {
			for _, as := range ases {
				p := NewPeer(netip.MustParseAddr("10.1.1.1"), addr, as, as4)
				res := dog.run("ctor peer", nil, func() string {
					b, err := p.Serialize()
					if err != nil {
						return "refused"
					}
					q := &Peer{}
					rest, err := q.decodeFromBytes(b)
					if err != nil || len(rest) != 0 {
						return "perr"
					}
					if q.IpAddress != unzone(addr) || q.AS != as || q.BgpId != netip.MustParseAddr("10.1.1.1") {
						return "fields"
					}
					return "ok"
				})
				o.stat("ctor_peer_"+res, 1)
				if res != "ok" && res != "refused" {
					o.fail("constructor-accepts-value-that-does-not-roundtrip:mrt-peer", map[string]any{"address": addr.String(), "as": as, "as4": as4, "outcome": res})
				}
			}
		}
	}
}

func c19HdrErr(err error) string {
	if strings.Contains(err.Error(), "expected: 16") {
		return "err shortET"
	}
	if strings.Contains(err.Error(), "not all MRTHeader bytes") {
		return "err short"
	}
	return "err other:" + err.Error()
}

type c19Gen struct {
	r *vRand
}

// the awkward address classes every address-valued field is also generated with: unspecified,
// all-ones, loopback, link-local and (IPv6) IPv4-mapped addresses
func c19Awkward(r *vRand, six bool) netip.Addr {
	if !six {
		return netip.AddrFrom4([][4]byte{{0, 0, 0, 0}, {255, 255, 255, 255}, {127, 0, 0, 1}, {169, 254, byte(r.next()), byte(r.next())}, {224, 0, 0, 5}}[r.intn(5)])
	}
	a := [16]byte{}
	switch r.intn(6) {
	case 0: // ::
	case 1: // ::ffff:a.b.c.d (IPv4-mapped)
		a[10], a[11] = 0xff, 0xff
		binary.BigEndian.PutUint32(a[12:], r.u32()|1<<24)
	case 2: // ::ffff:0.0.0.0
		a[10], a[11] = 0xff, 0xff
	case 3: // link-local
		a[0], a[1] = 0xfe, 0x80
		binary.BigEndian.PutUint64(a[8:], r.next())
	case 4:
		for i := range a {
			a[i] = 0xff
		}
	case 5:
		a[15] = 1
	}
	return netip.AddrFrom16(a)
}

func (g *c19Gen) v4() netip.Addr {
	if g.r.chance(20) {
		return c19Awkward(g.r, false)
	}
	var a [4]byte
	binary.BigEndian.PutUint32(a[:], g.r.u32())
	return netip.AddrFrom4(a)
}

func (g *c19Gen) v6() netip.Addr {
	if g.r.chance(25) {
		return c19Awkward(g.r, true)
	}
	var a [16]byte
	binary.BigEndian.PutUint64(a[:], g.r.next()|1<<61)
	binary.BigEndian.PutUint64(a[8:], g.r.next())
	return netip.AddrFrom16(a)
}

func (g *c19Gen) attrs(v6 bool, fam bgp.Family, nlri bgp.NLRI, pathID uint32, as2 ...bool) []bgp.PathAttributeInterface {
	r := g.r
	two := len(as2) > 0 && as2[0] // the speaker has no 4-octet AS capability: 2-octet AS_PATH
	segs := []bgp.AsPathParamInterface{}
	for k := r.intn(3); k >= 0; k-- {
		as := []uint32{}
		for j := 1 + r.intn(4); j > 0; j-- {
			as = append(as, uint32(r.pick(1, 65000, 65535, 65536, 4200000000, int(r.u32()>>1))))
		}
		if two {
			as16 := make([]uint16, len(as))
			for j, a := range as {
				as16[j] = uint16(a)
			}
			segs = append(segs, bgp.NewAsPathParam(uint8(1+r.intn(2)), as16))
			continue
		}
		segs = append(segs, bgp.NewAs4PathParam(uint8(1+r.intn(2)), as))
	}
	p := []bgp.PathAttributeInterface{bgp.NewPathAttributeOrigin(uint8(r.intn(3))), bgp.NewPathAttributeAsPath(segs)}
	if !v6 && fam.Safi() != bgp.SAFI_MPLS_VPN {
		nh, _ := bgp.NewPathAttributeNextHop(g.v4())
		p = append(p, nh)
	}
	if r.chance(50) {
		p = append(p, bgp.NewPathAttributeMultiExitDisc(r.u32()))
	}
	if r.chance(50) {
		p = append(p, bgp.NewPathAttributeLocalPref(r.u32()))
	}
	if r.chance(40) {
		cs := []uint32{}
		for j := 1 + r.intn(3); j > 0; j-- {
			cs = append(cs, r.u32())
		}
		p = append(p, bgp.NewPathAttributeCommunities(cs))
	}
	if v6 || fam.Safi() == bgp.SAFI_MPLS_VPN {
		nh := g.v6()
		if !v6 {
			nh = g.v4()
		}
		if mp, err := bgp.NewPathAttributeMpReachNLRI(fam, []bgp.PathNLRI{{NLRI: nlri, ID: pathID}}, nh); err == nil {
			p = append(p, mp)
		}
	}
	if r.chance(20) {
		p = append(p, bgp.NewPathAttributeUnknown(bgp.BGP_ATTR_FLAG_OPTIONAL|bgp.BGP_ATTR_FLAG_TRANSITIVE, 200, []byte{1, 2, 3}))
	}
	return p
}

func (g *c19Gen) bgpMsg(as4 bool) (*bgp.BGPMessage, string) {
	r := g.r
	switch r.intn(4) {
	case 0:
		return bgp.NewBGPKeepAliveMessage(), "keepalive"
	case 1:
		caps := []bgp.ParameterCapabilityInterface{bgp.NewCapMultiProtocol(bgp.RF_IPv4_UC), bgp.NewCapFourOctetASNumber(r.u32())}
		m, _ := bgp.NewBGPOpenMessage(uint16(r.next()), uint16(r.intn(400)), g.v4(), []bgp.OptionParameterInterface{bgp.NewOptionParameterCapability(caps)})
		return m, "open"
	case 2:
		return bgp.NewBGPNotificationMessage(uint8(1+r.intn(6)), uint8(r.intn(10)), []byte{byte(r.next())}), "notification"
	}
	pfx, _ := bgp.NewIPAddrPrefix(netip.PrefixFrom(g.v4(), 8+r.intn(25)).Masked())
	return bgp.NewBGPUpdateMessage(nil, g.attrs(false, bgp.RF_IPv4_UC, pfx, 0, !as4), []bgp.PathNLRI{{NLRI: pfx, ID: g.r.u32()}}), "update"
}

// one constructible record of every kind; label names the kind for the histogram
func (g *c19Gen) record(kind int) (*MRTMessage, string, error) {
	r := g.r
	ts := time.Unix(int64(r.u32()), int64(r.intn(1000000))*1000)
	switch {
	case kind == 0: // PEER_INDEX_TABLE
		peers := []*Peer{}
		for k := r.intn(5); k > 0; k-- {
			as4 := r.chance(60)
			as := uint32(r.intn(65536))
			if as4 {
				as = r.u32()
			}
			addr := g.v4()
			if r.chance(50) {
				addr = g.v6()
			}
			peers = append(peers, NewPeer(g.v4(), addr, as, as4))
		}
		view := []string{"", "view", strings.Repeat("x", r.intn(300))}[r.intn(3)]
		m, err := NewMRTMessage(ts, TABLE_DUMPv2, PEER_INDEX_TABLE, NewPeerIndexTable(g.v4(), view, peers))
		return m, "peer_index_table", err
	case kind >= 1 && kind <= 10: // RIB_* and RIB_*_ADDPATH, as pkg/server/mrt.go picks them
		fams := []bgp.Family{bgp.RF_IPv4_UC, bgp.RF_IPv4_MC, bgp.RF_IPv6_UC, bgp.RF_IPv6_MC, bgp.RF_IPv4_VPN}
		subs := []MRTSubTypeTableDumpv2{RIB_IPV4_UNICAST, RIB_IPV4_MULTICAST, RIB_IPV6_UNICAST, RIB_IPV6_MULTICAST, RIB_GENERIC}
		i := (kind - 1) % 5
		addPath := kind > 5
		fam, sub := fams[i], subs[i]
		if addPath {
			sub += 6
		}
		v6 := fam.Afi() == bgp.AFI_IP6
		var nlri bgp.NLRI
		switch {
		case fam == bgp.RF_IPv4_VPN:
			nlri, _ = bgp.NewLabeledVPNIPAddrPrefix(netip.PrefixFrom(g.v4(), 8+r.intn(25)).Masked(), *bgp.NewMPLSLabelStack(uint32(16+r.intn(1000))),
				bgp.NewRouteDistinguisherTwoOctetAS(uint16(r.next()), r.u32()))
		case v6:
			nlri, _ = bgp.NewIPAddrPrefix(netip.PrefixFrom(g.v6(), r.pick(128, 128, 96, 0, r.intn(129), r.intn(129), r.intn(129))).Masked())
		default:
			nlri, _ = bgp.NewIPAddrPrefix(netip.PrefixFrom(g.v4(), r.pick(32, 32, 0, r.intn(33), r.intn(33), r.intn(33))).Masked())
		}
		entries := []*RibEntry{}
		for k := 1 + r.intn(3); k > 0; k-- {
			pid := uint32(0)
			if addPath {
				pid = r.u32()
			}
			entries = append(entries, NewRibEntry(uint16(r.intn(8)), r.u32(), pid, g.attrs(v6, fam, nlri, pid), addPath))
		}
		m, err := NewMRTMessage(ts, TABLE_DUMPv2, sub, NewRib(r.u32(), fam, nlri, entries))
		return m, "rib_" + strings.ToLower(fam.String()) + map[bool]string{false: "", true: "_addpath"}[addPath], err
	case kind == 11: // GEO_PEER_TABLE
		peers := []*GeoPeer{}
		for k := r.intn(4); k > 0; k-- {
			p, _ := NewGeoPeer(g.v4(), float32(r.intn(180))-90, float32(r.intn(360))-180)
			peers = append(peers, p)
		}
		t, _ := NewGeoPeerTable(g.v4(), 12.5, -98.25, peers)
		m, err := NewMRTMessage(ts, TABLE_DUMPv2, GEO_PEER_TABLE, t)
		return m, "geo_peer_table", err
	case kind == 12: // BGP4MP_STATE_CHANGE(_AS4)
		as4 := r.chance(50)
		pa, la := uint32(r.intn(65536)), uint32(r.intn(65536))
		sub := STATE_CHANGE
		if as4 {
			pa, la, sub = r.u32(), r.u32(), STATE_CHANGE_AS4
		}
		p, l := g.v4(), g.v4()
		if r.chance(50) {
			p, l = g.v6(), g.v6()
		}
		b, err := NewBGP4MPStateChange(pa, la, uint16(r.next()), p, l, as4, BGPState(1+r.intn(6)), BGPState(1+r.intn(6)))
		if err != nil {
			return nil, "", err
		}
		m, err := NewMRTMessage(ts, BGP4MP, sub, b)
		return m, "bgp4mp_state_change" + map[bool]string{false: "", true: "_as4"}[as4], err
	default: // BGP4MP_MESSAGE (_AS4) (_LOCAL) (_ADDPATH)
		as4, local, addPath := r.chance(50), r.chance(50), r.chance(50)
		pa, la := uint32(r.intn(65536)), uint32(r.intn(65536))
		if as4 {
			pa, la = r.u32(), r.u32()
		}
		p, l := g.v4(), g.v4()
		if r.chance(50) {
			p, l = g.v6(), g.v6()
		}
		bm, what := g.bgpMsg(as4)
		mk := NewBGP4MPMessage
		sub := MESSAGE
		switch {
		case local && addPath:
			mk, sub = NewBGP4MPMessageLocalAddPath, MESSAGE_LOCAL_ADDPATH
		case local:
			mk, sub = NewBGP4MPMessageLocal, MESSAGE_LOCAL
		case addPath:
			mk, sub = NewBGP4MPMessageAddPath, MESSAGE_ADDPATH
		}
		if as4 {
			sub = map[MRTSubTypeBGP4MP]MRTSubTypeBGP4MP{MESSAGE: MESSAGE_AS4, MESSAGE_LOCAL: MESSAGE_AS4_LOCAL, MESSAGE_ADDPATH: MESSAGE_AS4_ADDPATH, MESSAGE_LOCAL_ADDPATH: MESSAGE_AS4_LOCAL_ADDPATH}[sub]
		}
		b, err := mk(pa, la, uint16(r.next()), p, l, as4, bm)
		if err != nil {
			return nil, "", err
		}
		if r.chance(30) { // the daemon hands the raw payload instead of a parsed message
			b.BGPMessagePayload, _ = bm.Serialize(b.bgpMessageOption())
			b.BGPMessage = nil
		}
		m, err := NewMRTMessage(ts, BGP4MP, sub, b)
		return m, fmt.Sprintf("bgp4mp_message_sub%d_%s", sub, what), err
	}
}

func TestVerifC19(t *testing.T) {
	o := vOpen(t)
	defer o.close()
	r := &vRand{s: o.seed*7919 + 193}
	dog := c19Watch(o)
	g := &c19Gen{r: r}
	n := 3000
	if o.thorough {
		n = 15000
	}

	// ---- SplitMrt: direct call with an explicit spare capacity, and the oracle on its result
	split := func(data, spare []byte, eof bool, tag string) {
		call := func(fill []byte) (string, int, []byte) {
			buf := make([]byte, len(data)+len(fill))
			copy(buf, data)
			copy(buf[len(data):], fill)
			d := buf[:len(data)]
			adv, tok, err := SplitMrt(d, eof)
			switch {
			case err != nil:
				return "err", adv, tok
			case tok == nil && adv == 0:
				return "more", adv, tok
			}
			return fmt.Sprintf("tok %d %d", adv, len(tok)), adv, tok
		}
		detail := map[string]any{"data": c19Hex(data), "spare": c19Hex(spare), "atEOF": eof}
		ans := dog.run("SplitMrt", data, func() string {
			s, adv, tok := call(spare)
			if len(tok) > len(data) || adv > len(data) || adv < 0 {
				o.fail("mrt-split-overrun", detail)
			} else if tok != nil && !bytes.Equal(tok, data[:len(tok)]) {
				o.fail("mrt-split-token-not-prefix", detail)
			}
			if tok != nil && adv == 0 && s != "err" {
				o.fail("mrt-split-no-progress", detail)
			}
			if tok != nil && adv != len(tok) && s != "err" {
				o.fail("mrt-split-token-advance-differ", detail)
			}
			// reading past len(data): the answer must not depend on what lies in the spare capacity
			other := make([]byte, len(spare))
			for i := range other {
				other[i] = ^spare[i]
			}
			if s2, _, _ := call(other); s2 != s {
				detail["with_spare"] = s
				detail["with_other_spare"] = s2
				o.fail("mrt-split-reads-past-len", detail)
			}
			if s3, _, _ := call(nil); s3 != s {
				detail["with_spare"] = s
				detail["without_spare"] = s3
				o.fail("mrt-split-reads-past-len", detail)
			}
			return s
		})
		if ans == "panic" {
			o.fail("mrt-split-panic", detail)
		}
		e := 0
		if eof {
			e = 1
		}
		o.ask(ans, "mrt.split %s %d", c19Hex(data), e)
		o.stat("split_"+tag+"_"+strings.Fields(ans)[0], 1)
	}
	// through bufio.Scanner, as the package's own test uses it
	scan := func(stream []byte, wantTokens [][]byte, tag string) {
		res := dog.run("Scanner(SplitMrt)", stream, func() string {
			sc := bufio.NewScanner(bytes.NewReader(stream))
			sc.Buffer(make([]byte, 0, 16), 1<<20)
			sc.Split(SplitMrt)
			var got [][]byte
			total := 0
			for sc.Scan() {
				tk := append([]byte(nil), sc.Bytes()...)
				got = append(got, tk)
				total += len(tk)
				if total > len(stream) {
					o.fail("mrt-scanner-overrun", c19Hex(stream))
					break
				}
				if len(got) > len(stream)+2 { // empty tokens without progress: `for sc.Scan()` never ends
					o.fail("mrt-scanner-spins", c19Hex(stream))
					return "spins"
				}
			}
			if !bytes.HasPrefix(stream, bytes.Join(got, nil)) {
				o.fail("mrt-scanner-tokens-not-stream-prefix", c19Hex(stream))
			}
			if wantTokens != nil {
				ok := len(got) == len(wantTokens) && sc.Err() == nil
				for i := 0; ok && i < len(got); i++ {
					ok = bytes.Equal(got[i], wantTokens[i])
				}
				if !ok {
					o.fail("mrt-scanner-misframes-valid-stream", map[string]any{"stream": c19Hex(stream), "records": len(wantTokens), "tokens": len(got), "err": fmt.Sprint(sc.Err())})
				}
			}
			return "ok"
		})
		if res == "panic" {
			o.fail("mrt-scanner-panic", c19Hex(stream))
		}
		o.stat("scan_"+tag+"_"+res, 1)
	}

	// corpus (candidate defects seen while reading; replayed first)
	hx := func(s string) []byte { b, _ := hex.DecodeString(s); return b }
	split(hx("0000000a000d0002"), hx("fffffff4"), false, "corpus")                       // len < 12 <= cap: header completed from stale octets
	split(hx("0000000a000d0002fffffff4"), nil, false, "corpus")                           // Length + 12 wraps to 0
	split(hx("0000000a000d0002fffffff5"), nil, false, "corpus")                           // wraps to 1
	split(hx("0000000a00110000000000040001e24001020304"), nil, false, "corpus")           // BGP4MP_ET record
	split(hx("0000000a000d0002000000020102"), hx("ffff"), false, "corpus")                // ordinary record
	split(hx("0000000a000d00020000000201"), hx("02"), false, "corpus")                    // last body octet only in the spare
	split(nil, nil, true, "corpus")
	split(nil, hx("0000000a000d000200000000"), false, "corpus")
	scan(hx("0000000a000d0002fffffff4"), nil, "corpus")
	scan(hx("0000000a00110000000000040001e24001020304"), nil, "corpus")

	// known finding (not repaired: needs a decision on the _ET Length convention): a constructed
	// BGP4MP_ET record does not parse back, and its Length omits the microsecond field that
	// RFC 6396 section 3 counts, so SplitMrt (12 + Length) cuts it 4 octets early.
	{
		km, _ := NewBGP4MPMessage(65000, 65001, 1, netip.MustParseAddr("192.168.0.1"), netip.MustParseAddr("192.168.0.2"), false, bgp.NewBGPKeepAliveMessage())
		em, _ := NewMRTMessage(time.Unix(10, 123000), BGP4MP_ET, MESSAGE, km)
		eb, err := em.Serialize()
		if err == nil {
			eh, herr := ParseHeader(eb)
			var perr error
			if herr == nil {
				_, perr = ParseBody(eb[16:], eh)
			}
			adv, _, _ := SplitMrt(eb, true)
			if herr != nil || perr != nil || adv != len(eb) {
				o.fail("mrt-et-record-roundtrip", map[string]any{"bytes": c19Hex(eb), "parse_header_err": fmt.Sprint(herr), "parse_body_err": fmt.Sprint(perr), "split_advance": adv, "len": len(eb)})
			}
		}
	}

	c19CtorCross(o, dog, r)

	var pool [][]byte
	for i := 0; i < n; i++ {
		// ---- header: model correspondence + oracle
		typ := MRTType(r.pick(11, 12, 13, 16, 17, 32, 33, 48, 49, int(r.next()%65536)))
		h := &MRTHeader{Timestamp: r.u32(), Type: typ, SubType: uint16(r.pick(0, 1, 2, 4, 5, 6, 12, 65535)), Len: uint32(r.pick(0, 1, 4, 20, 4096, 0xffffffff, int(r.u32())))}
		if typ.HasExtendedTimestamp() || r.chance(5) {
			h.ExtendedTimestampMicroseconds = uint32(r.pick(0, 1, 999999, 1000000, int(r.u32())))
		}
		hb, _ := h.Serialize()
		o.ask(c19Hex(hb), "mrt.ser %d %d %d %d %d", h.Timestamp, h.Type, h.SubType, h.Len, h.ExtendedTimestampMicroseconds)
		hdr := func(b []byte, tag string) {
			ans := dog.run("ParseHeader", b, func() string {
				x, err := ParseHeader(b)
				if err != nil {
					return c19HdrErr(err)
				}
				return fmt.Sprintf("ok %d %d %d %d %d", x.Timestamp, x.Type, x.SubType, x.Len, x.ExtendedTimestampMicroseconds)
			})
			if ans == "panic" {
				o.fail("mrt-header-panic", c19Hex(b))
			}
			o.ask(ans, "mrt.hdr %s", c19Hex(b))
			if strings.HasPrefix(ans, "ok") {
				o.stat("hdr_"+tag+"_ok", 1)
			} else {
				o.stat("hdr_"+tag+"_"+strings.ReplaceAll(ans, " ", "_"), 1)
			}
		}
		hdr(hb, "ser")
		hdr(c19Mutate(r, hb), "mut")
		// constructor round trip (NewMRTHeader), ET types included
		tt := time.Unix(int64(r.u32()), int64(r.intn(1000000))*1000)
		if h1, err := NewMRTHeader(tt, typ, MRTSubTypeBGP4MP(h.SubType), h.Len); err == nil {
			b1, _ := h1.Serialize()
			h2, err := ParseHeader(b1)
			if err != nil || *h2 != *h1 {
				o.fail("mrt-header-roundtrip", map[string]any{"bytes": c19Hex(b1), "err": fmt.Sprint(err)})
			}
			if !h1.GetTime().Equal(tt) && typ.HasExtendedTimestamp() {
				o.fail("mrt-header-time", c19Hex(b1))
			}
		}

		// ---- records: oracle (1)
		kind := i % 18
		m, label, err := g.record(kind)
		if err != nil || m == nil {
			o.stat("record_ctor_error", 1)
			continue
		}
		var b []byte
		res := dog.run("record "+label, nil, func() string {
			var err error
			b, err = m.Serialize()
			if err != nil {
				return "serr:" + err.Error()
			}
			h2, err := ParseHeader(b)
			if err != nil {
				return "herr:" + err.Error()
			}
			if int(h2.Len)+MRT_COMMON_HEADER_LEN != len(b) {
				return "length-field"
			}
			m2, err := ParseBody(b[MRT_COMMON_HEADER_LEN:], h2)
			if err != nil {
				return "perr:" + err.Error()
			}
			b2, err := m2.Serialize()
			if err != nil {
				return "serr2:" + err.Error()
			}
			if !bytes.Equal(b, b2) {
				return "differs:" + c19Hex(b2)
			}
			// an equal message, not only equal bytes (a field dropped by both directions would
			// otherwise go unnoticed)
			if s1, s2 := c19BodyStr(m.Body), c19BodyStr(m2.Body); s1 != s2 {
				return "fields:" + s1 + " / " + s2
			}
			if m.Header != m2.Header {
				return "fields:header"
			}
			return "ok"
		})
		o.stat("record_"+label, 1)
		if res != "ok" {
			cls := strings.SplitN(res, ":", 2)[0]
			o.fail("mrt-record-roundtrip:"+strings.SplitN(label, "_sub", 2)[0]+":"+cls, map[string]any{"kind": label, "bytes": c19Hex(b), "outcome": res})
			o.stat("record_roundtrip_fail", 1)
		}
		if b == nil {
			continue
		}
		pool = append(pool, b)
		if res == "ok" {
			c19AskBody(o, m.Header.Type, m.Header.SubType, b[MRT_COMMON_HEADER_LEN:], true)
			c19AskSer(o, m, b)
		}
		if len(pool) == 1 {
			o.sample("mrt " + label + ": " + c19Hex(b))
		}

		// ---- mutated records through the decoders: no panic, no hang. Every truncation of the
		// body (with the header Length patched to match, so that the body decoder is reached) and
		// a handful of random mutations.
		tryBody := func(mb []byte) {
			if dog.run("ParseHeader+ParseBody", mb, func() string {
				hh, err := ParseHeader(mb)
				if err != nil || hh.Len > 1<<20 {
					return ""
				}
				off := MRT_COMMON_HEADER_LEN
				if len(mb) >= off {
					_, _ = ParseBody(mb[off:], hh)
				}
				return ""
			}) == "panic" {
				o.fail("mrt-body-panic", c19Hex(mb))
			}
			o.stat("body_mutated", 1)
		}
		for cut := MRT_COMMON_HEADER_LEN; cut < len(b); cut++ {
			mb := append([]byte(nil), b[:cut]...)
			binary.BigEndian.PutUint32(mb[8:], uint32(cut-MRT_COMMON_HEADER_LEN))
			tryBody(mb)
			if i%6 == 0 || cut < MRT_COMMON_HEADER_LEN+48 {
				c19AskBody(o, m.Header.Type, m.Header.SubType, mb[MRT_COMMON_HEADER_LEN:], false)
			}
		}
		for k := 0; k < 6; k++ {
			mb := c19Mutate(r, b)
			if len(mb) >= MRT_COMMON_HEADER_LEN && r.chance(70) {
				binary.BigEndian.PutUint32(mb[8:], uint32(len(mb)-MRT_COMMON_HEADER_LEN))
				copy(mb[4:8], b[4:8])
			}
			tryBody(mb)
			if len(mb) >= MRT_COMMON_HEADER_LEN {
				c19AskBody(o, MRTType(binary.BigEndian.Uint16(mb[4:])), binary.BigEndian.Uint16(mb[6:]), mb[MRT_COMMON_HEADER_LEN:], false)
			}
		}

		// ---- splitter on streams of records
		k := 1 + r.intn(3)
		var stream []byte
		var want [][]byte
		for ; k > 0; k-- {
			rec := pool[r.intn(len(pool))]
			want = append(want, rec)
			stream = append(stream, rec...)
		}
		spare := make([]byte, r.pick(0, 0, 1, 4, 12, 40))
		for j := range spare {
			spare[j] = byte(r.next())
		}
		switch r.intn(6) {
		case 0:
			split(stream, spare, r.chance(50), "stream")
			scan(stream, want, "valid")
		case 1: // partial: cut anywhere, the rest of the stream lies in the spare capacity
			cut := r.intn(len(stream) + 1)
			split(stream[:cut], append(append([]byte(nil), stream[cut:]...), spare...), r.chance(30), "partial")
		case 2: // short prefixes around the header size
			cut := min(len(stream), r.pick(0, 1, 8, 11, 12, 13, 15, 16, 17))
			split(stream[:cut], append(append([]byte(nil), stream[cut:]...), spare...), r.chance(30), "short")
		default:
			ms := c19Mutate(r, stream)
			split(ms, spare, r.chance(30), "mutated")
			scan(ms, nil, "mutated")
		}
	}
}
