//go:build verif

package bgp

// C06 message generator (pure bytes, no gobgp types): a valid base UPDATE for a given peer type
// plus a catalogue of faults that can be injected at chosen positions.  The SAME file (only the
// package clause differs) is compiled into pkg/packet/bgp and pkg/server.

import (
	"encoding/hex"
	"fmt"
	"strings"
)

type c06Attr struct {
	typ, flags byte
	val        []byte
	decl       int    // declared length, -1 = len(val)
	tag        string // non-empty: this attribute was made malformed by that fault
	last       bool   // must stay the last attribute (overrun)
	apified    bool     // MP_(UN)REACH rewritten with ADD-PATH path identifiers
	pfx        [][]byte // ... its prefixes (wire form, without identifier)
	ids        []uint32 // ... and their path identifiers
}

type c06Fault struct {
	name string
	min  int // weakest reaction class RFC 7606 / 4271 allow for it (1 discard, 2 withdraw, 4 reset); -1 = not judged
	typ  int // attribute type concerned, -1 none
}

type c06Msg struct {
	peer     int // 0 eBGP, 1 iBGP, 2 confederation eBGP
	use2     bool
	wd       [][]byte
	wdDelta  int
	attrs    []c06Attr
	totDelta int
	nlri     [][]byte
	tail     []byte
	faults   []c06Fault
	framing  bool // a fault changed where fields start: per-fault judgements are off
	ap4, ap6 bool     // encoded for a session with ADD-PATH receive for IPv4 / IPv6 unicast
	nlriID   []uint32 // path identifiers of nlri / wd (used when ap4)
	wdID     []uint32
	shape    string // number of AS_PATH segments of the base message
}

const (
	c06Discard  = 1
	c06Withdraw = 2
	c06Reset    = 4
)

func (a *c06Attr) bytes() []byte {
	l := a.decl
	if l < 0 {
		l = len(a.val)
	}
	var b []byte
	if a.flags&0x10 != 0 {
		b = []byte{a.flags, a.typ, byte(l >> 8), byte(l)}
	} else {
		b = []byte{a.flags, a.typ, byte(l)}
	}
	return append(b, a.val...)
}

func (m *c06Msg) body() []byte {
	var w, a, n []byte
	id := func(l []uint32, i int) []byte {
		if !m.ap4 {
			return nil
		}
		v := uint32(0)
		if i < len(l) {
			v = l[i]
		}
		return []byte{byte(v >> 24), byte(v >> 16), byte(v >> 8), byte(v)}
	}
	for i, p := range m.wd {
		w = append(append(w, id(m.wdID, i)...), p...)
	}
	for i := range m.attrs {
		a = append(a, m.attrs[i].bytes()...)
	}
	for i, p := range m.nlri {
		n = append(append(n, id(m.nlriID, i)...), p...)
	}
	wl := len(w) + m.wdDelta
	tl := len(a) + m.totDelta
	if wl < 0 {
		wl = 0
	}
	if tl < 0 {
		tl = 0
	}
	b := []byte{byte(wl >> 8), byte(wl)}
	b = append(b, w...)
	b = append(b, byte(tl>>8), byte(tl))
	b = append(b, a...)
	b = append(b, n...)
	b = append(b, m.tail...)
	return b
}

func (m *c06Msg) hex() string {
	b := m.body()
	if len(b) == 0 {
		return "-"
	}
	return hex.EncodeToString(b)
}

func (m *c06Msg) faultNames() string {
	if len(m.faults) == 0 {
		return "wellformed"
	}
	s := make([]string, len(m.faults))
	for i, f := range m.faults {
		s[i] = f.name
	}
	return strings.Join(s, "+")
}

func (m *c06Msg) find(typ byte) int {
	for i := range m.attrs {
		if m.attrs[i].typ == typ {
			return i
		}
	}
	return -1
}

func (m *c06Msg) count(typ byte) int {
	n := 0
	for i := range m.attrs {
		if m.attrs[i].typ == typ {
			n++
		}
	}
	return n
}

func c06Prefix4(r *vRand) []byte {
	bl := r.pick(0, 8, 16, 24, 24, 24, 32, 17, 25)
	b := []byte{byte(bl)}
	addr := []byte{byte(11 + r.intn(180)), byte(r.intn(256)), byte(r.intn(256)), byte(r.intn(256))}
	return append(b, addr[:(bl+7)/8]...)
}

func c06Prefix6(r *vRand) []byte {
	bl := r.pick(32, 48, 64, 64, 128)
	addr := []byte{0x20, 0x01, 0x0d, 0xb8, byte(r.intn(256)), byte(r.intn(256)), 0, byte(r.intn(8)), 0, 0, 0, 0, 0, 0, 0, byte(1 + r.intn(200))}
	return append([]byte{byte(bl)}, addr[:(bl+7)/8]...)
}

func c06Seg(typ byte, n int, use2 bool, r *vRand) []byte {
	b := []byte{typ, byte(n)}
	for i := 0; i < n; i++ {
		as := 64600 + r.intn(300)
		if use2 {
			b = append(b, byte(as>>8), byte(as))
		} else {
			b = append(b, 0, 0, byte(as>>8), byte(as))
		}
	}
	return b
}

func c06RandBytes(r *vRand, n int) []byte {
	b := make([]byte, n)
	for i := range b {
		b[i] = byte(r.intn(256))
	}
	return b
}

// AS_PATH shapes that are legal for the peer type (segment types: 1 SET, 2 SEQ, 3 CONFED_SEQ, 4 CONFED_SET).
// eBGP: only SEQ/SET, one to four segments, SET first / middle / last.  iBGP: anything, including
// confederation segments at any position and the empty path.  Confederation eBGP: CONFED_SEQ first,
// then any mix, with further confederation segments in the middle or at the end.
var c06Shapes = [3][][]byte{
	{{2}, {2}, {2, 1}, {2, 2}, {1}, {1, 2}, {2, 1, 2}, {2, 2, 2}, {2, 2, 1, 2}, {1, 1}},
	{{}, {}, {2}, {2, 1}, {1}, {3}, {4}, {3, 2}, {2, 3}, {2, 4}, {2, 3, 2}, {2, 4, 1}, {4, 3, 2, 1}, {2, 2, 3}, {2, 1, 2, 2}},
	{{3}, {3}, {3, 2}, {3, 4}, {3, 1}, {3, 2, 1}, {3, 3, 2}, {3, 2, 3}, {3, 2, 4}, {3, 4, 2, 1}, {3, 2, 2, 3}},
}

func c06AsPath(r *vRand, peer int, use2 bool) ([]byte, string) {
	sh := c06Shapes[peer][r.intn(len(c06Shapes[peer]))]
	var ap []byte
	for _, t := range sh {
		ap = append(ap, c06Seg(t, 1+r.intn(3), use2, r)...)
	}
	return ap, fmt.Sprintf("%d", len(sh))
}

// offsets of the segment headers in a well-formed AS_PATH value
func c06SegOffsets(val []byte, use2 bool) []int {
	sz := 4
	if use2 {
		sz = 2
	}
	var off []int
	for p := 0; p+2 <= len(val); {
		off = append(off, p)
		p += 2 + int(val[p+1])*sz
	}
	return off
}

// first / middle / last, stratified so that each position gets a fair share whatever the length
func c06PickPos(r *vRand, n int) (int, string) {
	if n <= 1 {
		return 0, "first"
	}
	switch r.intn(3) {
	case 0:
		return 0, "first"
	case 1:
		return n - 1, "last"
	}
	if n == 2 {
		return 1, "last"
	}
	return 1 + r.intn(n-2), "middle"
}

// the IPv6 prefixes (wire form) of an untouched MP_REACH_NLRI / MP_UNREACH_NLRI built by c06Base
func c06MpPrefixes(a *c06Attr) [][]byte {
	if a.apified {
		return a.pfx
	}
	v := a.val
	switch a.typ {
	case 14:
		if len(v) < 21 {
			return nil
		}
		v = v[21:]
	case 15:
		if len(v) < 3 {
			return nil
		}
		v = v[3:]
	default:
		return nil
	}
	var out [][]byte
	for len(v) > 0 {
		n := 1 + (int(v[0])+7)/8
		if n > len(v) {
			return out
		}
		out = append(out, v[:n])
		v = v[n:]
	}
	return out
}

// path identifiers of the prefixes of c06MpPrefixes (all 0 without ADD-PATH)
func c06MpIDs(a *c06Attr) []uint32 {
	if a.apified {
		return a.ids
	}
	return make([]uint32, len(c06MpPrefixes(a)))
}

func c06PathID(r *vRand) uint32 {
	return []uint32{0, 1, 1, 2, 7, 300, 65536, 4294967295}[r.intn(8)]
}

// c06AddPathify re-encodes a generated message for a session on which ADD-PATH receive is negotiated
// for IPv4 unicast (ap4: NLRI and WITHDRAWN ROUTES fields) and / or IPv6 unicast (ap6: the intact
// MP_REACH / MP_UNREACH attributes): every prefix gets a 4-octet path identifier, zero or not.
func c06AddPathify(r *vRand, m *c06Msg, ap4, ap6 bool) {
	m.ap4, m.ap6 = ap4, ap6
	if ap4 {
		m.nlriID, m.wdID = nil, nil
		for range m.nlri {
			m.nlriID = append(m.nlriID, c06PathID(r))
		}
		for range m.wd {
			m.wdID = append(m.wdID, c06PathID(r))
		}
	}
	if ap6 {
		for i := range m.attrs {
			a := &m.attrs[i]
			if a.tag != "" || a.apified || (a.typ != 14 && a.typ != 15) {
				continue
			}
			pfx := c06MpPrefixes(a)
			head := 3
			if a.typ == 14 {
				head = 21
			}
			if len(a.val) < head {
				continue
			}
			v := append([]byte{}, a.val[:head]...)
			var ids []uint32
			for _, p := range pfx {
				id := c06PathID(r)
				ids = append(ids, id)
				v = append(append(v, byte(id>>24), byte(id>>16), byte(id>>8), byte(id)), p...)
			}
			a.val, a.pfx, a.ids, a.apified = v, pfx, ids, true
		}
	}
}

var c06UnknownTypes = []int{11, 12, 13, 19, 20, 21, 24, 27, 28, 30, 31, 33, 39, 41, 99, 128, 200, 254, 255}

// c06Base builds a well-formed UPDATE for the peer type.
func c06Base(r *vRand, peer int) *c06Msg {
	m := &c06Msg{peer: peer, use2: r.chance(30)}
	nn := r.pick(0, 1, 1, 1, 2, 3)
	for i := 0; i < nn; i++ {
		m.nlri = append(m.nlri, c06Prefix4(r))
	}
	for i, nw := 0, r.pick(0, 0, 0, 1, 2); i < nw; i++ {
		m.wd = append(m.wd, c06Prefix4(r))
	}
	mp := r.chance(25)
	if nn == 0 && !mp && len(m.wd) == 0 {
		mp = true
	}
	add := func(flags, typ byte, val []byte) {
		m.attrs = append(m.attrs, c06Attr{typ: typ, flags: flags, val: val, decl: -1})
	}
	if nn > 0 || mp || r.chance(50) {
		add(0x40, 1, []byte{byte(r.intn(3))})
		ap, shape := c06AsPath(r, peer, m.use2)
		m.shape = shape
		add(0x40, 2, ap)
		if nn > 0 || r.chance(30) {
			if r.chance(8) {
				add(0x40, 3, []byte{0x20, 0x01, 0x0d, 0xb8, 0, 0, 0, 0, 0, 0, 0, 0, 0, 0, 0, byte(1 + r.intn(9))})
			} else {
				add(0x40, 3, []byte{10, 0, byte(r.intn(4)), byte(1 + r.intn(250))})
			}
		}
		if r.chance(40) {
			add(0x80, 4, c06RandBytes(r, 4))
		}
		if peer != 0 || r.chance(20) {
			add(0x40, 5, []byte{0, 0, 0, byte(r.intn(256))})
		}
		if r.chance(25) {
			add(0x40, 6, nil)
		}
		agg := r.chance(30)
		if agg {
			if m.use2 {
				add(0xc0, 7, []byte{0xfd, 0xe8, 10, 9, 9, byte(1 + r.intn(9))})
			} else {
				add(0xc0, 7, []byte{0, 0, 0xfd, 0xe8, 10, 9, 9, byte(1 + r.intn(9))})
			}
		}
		if r.chance(40) {
			add(0xc0, 8, c06RandBytes(r, 4*(1+r.intn(3))))
		}
		if peer == 1 && r.chance(30) {
			add(0x80, 9, []byte{10, 8, 8, byte(1 + r.intn(9))})
			add(0x80, 10, c06RandBytes(r, 4*(1+r.intn(2))))
		}
		if r.chance(30) {
			var v []byte
			for i, n := 0, 1+r.intn(2); i < n; i++ {
				v = append(v, 0x00, 0x02, 0xfd, 0xe8, 0, 0, 0, byte(r.intn(256)))
			}
			add(0xc0, 16, v)
		}
		if m.use2 && r.chance(40) {
			add(0xc0, 17, c06Seg(2, 1+r.intn(3), false, r))
		}
		if m.use2 && agg && r.chance(40) {
			add(0xc0, 18, []byte{0, 1, 0xfd, 0xe8, 10, 9, 9, 9})
		}
		if r.chance(30) {
			add(0xc0, 32, c06RandBytes(r, 12*(1+r.intn(2))))
		}
		if r.chance(30) {
			f := byte(r.pick(0xc0, 0xc0, 0x80, 0xe0))
			add(f, byte(c06UnknownTypes[r.intn(len(c06UnknownTypes))]), c06RandBytes(r, r.intn(7)))
		}
	}
	// MP_REACH and MP_UNREACH (IPv6 unicast): either or both, so that one UPDATE may announce and
	// explicitly withdraw in both the IPv4 fields and the multiprotocol attributes
	reach := mp && len(m.attrs) > 0 && r.chance(70)
	unreach := (mp && (!reach || r.chance(45))) || (!mp && r.chance(8))
	if reach {
		v := []byte{0, 2, 1, 16, 0x20, 0x01, 0x0d, 0xb8, 0, 0, 0, 0, 0, 0, 0, 0, 0, 0, 0, byte(1 + r.intn(9)), 0}
		for i, n := 0, 1+r.intn(2); i < n; i++ {
			v = append(v, c06Prefix6(r)...)
		}
		add(0x80, 14, v)
	}
	if unreach {
		v := []byte{0, 2, 1}
		for i, n := 0, 1+r.intn(2); i < n; i++ {
			v = append(v, c06Prefix6(r)...)
		}
		add(0x80, 15, v)
	}
	// benign variations of the encoding
	for i := range m.attrs {
		a := &m.attrs[i]
		if a.flags&0xc0 == 0xc0 && r.chance(15) {
			a.flags |= 0x20 // Partial on optional transitive
		}
		if r.chance(10) {
			a.flags |= 0x10 // Extended Length on a short attribute
		}
	}
	if r.chance(50) {
		c06Shuffle(r, m)
	}
	return m
}

func c06Shuffle(r *vRand, m *c06Msg) {
	n := len(m.attrs)
	if n > 0 && m.attrs[n-1].last {
		n--
	}
	p := r.perm(n)
	out := make([]c06Attr, 0, len(m.attrs))
	for _, i := range p {
		out = append(out, m.attrs[i])
	}
	out = append(out, m.attrs[n:]...)
	m.attrs = out
}

// RFC 4271 / 4456 / 4760 / 4360 / 6793 / 8092: Optional and Transitive bits per attribute type
var c06Flags = map[byte]byte{1: 0x40, 2: 0x40, 3: 0x40, 4: 0x80, 5: 0x40, 6: 0x40, 7: 0xc0, 8: 0xc0, 9: 0x80, 10: 0x80,
	14: 0x80, 15: 0x80, 16: 0xc0, 17: 0xc0, 18: 0xc0, 32: 0xc0}

var c06LenClass = map[byte]int{1: 2, 2: 2, 3: 2, 4: 2, 5: 2, 6: 1, 7: 1, 8: 2, 9: 2, 10: 2, 14: 4, 15: 4, 16: 2, 17: 1, 18: 1, 32: 2}

// a length that the attribute type cannot legally have (0 = none exists)
func c06BadLen(r *vRand, typ byte, cur int) (int, bool) {
	switch typ {
	case 1:
		return r.pick(0, 2, 3), true
	case 3:
		return r.pick(0, 2, 3, 5, 8, 15, 17), true
	case 4, 5, 9:
		return r.pick(0, 1, 3, 5, 8), true
	case 6:
		return r.pick(1, 2, 4), true
	case 7:
		return r.pick(0, 5, 7, 9), true
	case 8, 10:
		return cur + r.pick(1, 2, 3), true
	case 16:
		return cur + r.pick(1, 3, 4, 7), true
	case 32:
		return cur + r.pick(1, 4, 11), true
	case 18:
		return r.pick(0, 7, 9), true
	case 14, 15:
		return r.pick(0, 1, 2), true
	}
	return 0, false
}

// c06Inject applies one random fault of the catalogue; false = not applicable to this message.
func c06Inject(r *vRand, m *c06Msg) bool {
	pickAttr := func(ok func(a *c06Attr) bool) int {
		var c []int
		for i := range m.attrs {
			if m.attrs[i].tag == "" && !m.attrs[i].last && ok(&m.attrs[i]) {
				c = append(c, i)
			}
		}
		if len(c) == 0 {
			return -1
		}
		return c[r.intn(len(c))]
	}
	addF := func(name string, min int, typ int) {
		m.faults = append(m.faults, c06Fault{name, min, typ})
	}
	insertAt := func(pos int, a c06Attr) {
		m.attrs = append(m.attrs, c06Attr{})
		copy(m.attrs[pos+1:], m.attrs[pos:])
		m.attrs[pos] = a
	}
	insPos := func() int {
		n := len(m.attrs)
		if n > 0 && m.attrs[n-1].last {
			n--
		}
		return r.intn(n + 1)
	}
	switch r.intn(22) {
	case 0: // bad length (value really has that length)
		i := pickAttr(func(a *c06Attr) bool { _, ok := c06LenClass[a.typ]; return ok && a.typ != 2 && a.typ != 17 })
		if i < 0 {
			return false
		}
		a := &m.attrs[i]
		l, ok := c06BadLen(r, a.typ, len(a.val))
		if !ok {
			return false
		}
		a.val, a.decl, a.tag = c06RandBytes(r, l), -1, "len"
		addF(fmt.Sprintf("len:%d", a.typ), c06LenClass[a.typ], int(a.typ))
	case 1: // bad flags
		i := pickAttr(func(a *c06Attr) bool { return true })
		if i < 0 {
			return false
		}
		a := &m.attrs[i]
		old := a.flags
		switch r.intn(4) {
		case 0:
			a.flags ^= 0x80
		case 1:
			a.flags ^= 0x40
		case 2:
			a.flags ^= 0xc0
		case 3:
			a.flags |= 0x20
		}
		if a.flags == old {
			return false
		}
		opt, tr, par := a.flags&0x80 != 0, a.flags&0x40 != 0, a.flags&0x20 != 0
		illegal := (!opt && !tr) || (!opt && par) || (opt && !tr && par)
		if want, known := c06Flags[a.typ]; known && a.flags&0xc0 != want {
			illegal = true
		}
		if !illegal {
			// a legal combination for this type (e.g. Partial on an optional transitive one): not a fault
			a.flags = old
			return false
		}
		a.tag = "flags"
		addF(fmt.Sprintf("flags:%d", a.typ), c06Withdraw, int(a.typ))
	case 2: // ORIGIN value
		i := pickAttr(func(a *c06Attr) bool { return a.typ == 1 })
		if i < 0 {
			return false
		}
		m.attrs[i].val, m.attrs[i].tag = []byte{byte(3 + r.intn(253))}, "value"
		addF("origin-value", c06Withdraw, 1)
	case 3: // NEXT_HOP value
		i := pickAttr(func(a *c06Attr) bool { return a.typ == 3 })
		if i < 0 {
			return false
		}
		v := [][]byte{{0, 0, 0, 0}, {127, 0, 0, 1}, {224, 0, 0, 5}, {255, 255, 255, 255}, {0, 1, 2, 3}, {240, 0, 0, 1},
			{0, 0, 0, 0, 0, 0, 0, 0, 0, 0, 0, 0, 0, 0, 0, 1}, {0, 0, 0, 0, 0, 0, 0, 0, 0, 0, 0xff, 0xff, 127, 0, 0, 1}}
		m.attrs[i].val, m.attrs[i].tag = v[r.intn(len(v))], "value"
		addF("nexthop-value", c06Withdraw, 3)
	case 4: // duplicate of a non-MP attribute (the copy may differ in value)
		i := pickAttr(func(a *c06Attr) bool { return a.typ != 14 && a.typ != 15 })
		if i < 0 {
			return false
		}
		c := m.attrs[i]
		c.val = append([]byte{}, c.val...)
		if len(c.val) > 0 && r.chance(50) {
			c.val[len(c.val)-1] ^= 1
		}
		insertAt(insPos(), c)
		addF(fmt.Sprintf("dup:%d", c.typ), c06Discard, int(c.typ))
	case 5: // duplicate MP_REACH / MP_UNREACH
		i := pickAttr(func(a *c06Attr) bool { return a.typ == 14 || a.typ == 15 })
		if i < 0 {
			return false
		}
		c := m.attrs[i]
		insertAt(insPos(), c)
		addF(fmt.Sprintf("dup-mp:%d", c.typ), c06Reset, int(c.typ))
	case 6: // missing mandatory
		t := byte(r.pick(1, 2, 3))
		if len(m.nlri) == 0 && m.find(14) < 0 {
			return false
		}
		if t == 3 && len(m.nlri) == 0 {
			return false
		}
		i := pickAttr(func(a *c06Attr) bool { return a.typ == t })
		if i < 0 || m.count(t) != 1 {
			return false
		}
		m.attrs = append(m.attrs[:i], m.attrs[i+1:]...)
		addF(fmt.Sprintf("missing:%d", t), c06Withdraw, int(t))
	case 7: // last attribute's declared length runs over the Total Path Attribute Length
		if len(m.attrs) == 0 || m.attrs[len(m.attrs)-1].last {
			return false
		}
		i := pickAttr(func(a *c06Attr) bool { return true })
		if i < 0 {
			return false
		}
		a := m.attrs[i]
		m.attrs = append(m.attrs[:i], m.attrs[i+1:]...)
		a.decl, a.tag, a.last = len(a.val)+r.pick(1, 1, 2, 4, 9, 200), "overrun", true
		if a.decl > 255 {
			a.flags |= 0x10
		}
		m.attrs = append(m.attrs, a)
		addF(fmt.Sprintf("overrun:%d", a.typ), c06Withdraw, int(a.typ))
	case 8: // fewer than 3 bytes of attribute field left
		if len(m.attrs) > 0 && m.attrs[len(m.attrs)-1].last {
			return false
		}
		if m.totDelta != 0 || len(m.nlri) > 0 || len(m.tail) > 0 {
			// the stray bytes must belong to the attribute field, so no NLRI may follow them
			return false
		}
		k := 1 + r.intn(2)
		m.tail = c06RandBytes(r, k)
		m.totDelta = k
		m.framing = true
		addF("short-tail", c06Withdraw, -1)
	case 9, 10: // AS_PATH segment faults, at the first / a middle / the last segment
		i := pickAttr(func(a *c06Attr) bool { return a.typ == 2 && len(a.val) >= 4 })
		if i < 0 {
			return false
		}
		a := &m.attrs[i]
		offs := c06SegOffsets(a.val, m.use2)
		k, _ := c06PickPos(r, len(offs))
		at := offs[k]
		switch r.intn(5) {
		case 0:
			a.val[at] = byte(r.pick(0, 5, 6, 255))
		case 1:
			// empty segment: count 0 (its AS numbers stay behind and are read as segment headers)
			a.val[at+1] = 0
		case 2:
			a.val[at+1] += byte(r.pick(100, 150, 200))
		case 3:
			a.val = a.val[:len(a.val)-1]
		case 4:
			a.val = append(a.val, byte(r.pick(1, 2)))
		}
		a.tag = "segment"
		addF("aspath-segment", c06Withdraw, 2)
	case 11: // AS_PATH vs peer type: a confederation segment ANYWHERE in a plain eBGP peer's path; a
		// confederation peer's path that does not start with CONFED_SEQ, or is empty
		if m.peer == 1 {
			return false
		}
		i := pickAttr(func(a *c06Attr) bool { return a.typ == 2 })
		if i < 0 {
			return false
		}
		a := &m.attrs[i]
		offs := c06SegOffsets(a.val, m.use2)
		if m.peer == 0 {
			if len(offs) == 0 {
				return false
			}
			var where string
			if r.chance(50) {
				// retype an existing segment
				k, w := c06PickPos(r, len(offs))
				a.val[offs[k]] = byte(r.pick(3, 4))
				where = w
			} else {
				// splice an extra confederation segment in front / between / behind
				k, w := c06PickPos(r, len(offs)+1)
				at := len(a.val)
				if k < len(offs) {
					at = offs[k]
				}
				seg := c06Seg(byte(r.pick(3, 4)), 1+r.intn(2), m.use2, r)
				a.val = append(append(append([]byte{}, a.val[:at]...), seg...), a.val[at:]...)
				where = w
			}
			a.tag = "segment-kind"
			addF("aspath-confed-"+where, c06Withdraw, 2)
			return true
		}
		if len(offs) == 0 {
			return false
		}
		if r.chance(25) && (len(m.nlri) > 0 || m.find(14) >= 0) {
			a.val = nil
			a.tag = "segment-kind"
			addF("aspath-confed-peer-empty", c06Withdraw, 2)
			return true
		}
		a.val[0] = byte(r.pick(1, 2, 4))
		a.tag = "segment-kind"
		addF("aspath-confed-peer-head", c06Withdraw, 2)
	case 12: // NLRI prefix length
		if len(m.nlri) == 0 {
			return false
		}
		i := r.intn(len(m.nlri))
		if r.chance(60) {
			m.nlri[i] = append([]byte{byte(33 + r.intn(223))}, c06RandBytes(r, 4)...)
		} else {
			m.nlri = m.nlri[:i+1]
			m.nlri[i] = []byte{32, 10, 1}
		}
		m.framing = true
		addF("nlri-length", c06Reset, -1)
	case 13: // withdrawn routes length
		m.wdDelta = r.pick(1, 2, 3, 200, 5000, -1)
		if m.wdDelta < 0 && len(m.wd) == 0 {
			return false
		}
		m.framing = true
		addF("withdrawn-length", -1, -1)
	case 14: // total path attribute length
		m.totDelta += r.pick(1, 2, 5, 300, -1, -2, -3)
		m.framing = true
		addF("total-length", -1, -1)
	case 15: // unrecognised well-known attribute
		f := byte(r.pick(0x40, 0x40, 0x50))
		ut := byte(c06UnknownTypes[r.intn(len(c06UnknownTypes))])
		insertAt(insPos(), c06Attr{typ: ut, flags: f, val: c06RandBytes(r, r.intn(5)), decl: -1, tag: "unknown-wk"})
		addF("unknown-wellknown", c06Reset, int(ut))
	case 16: // MP_REACH next-hop length / truncated prefix
		i := pickAttr(func(a *c06Attr) bool { return a.typ == 14 && len(a.val) > 21 })
		if i < 0 {
			return false
		}
		a := &m.attrs[i]
		if r.chance(50) {
			a.val[3] = byte(r.pick(0, 3, 5, 15, 17, 33, 200))
		} else {
			a.val = a.val[:len(a.val)-1]
		}
		a.tag = "mp"
		addF("mp-reach-malformed", c06Reset, 14)
	case 17: // MP_UNREACH truncated prefix / prefix too long
		i := pickAttr(func(a *c06Attr) bool { return a.typ == 15 && len(a.val) > 4 })
		if i < 0 {
			return false
		}
		a := &m.attrs[i]
		if r.chance(50) {
			a.val[3] = byte(129 + r.intn(100))
		} else {
			a.val = a.val[:len(a.val)-1]
		}
		a.tag = "mp"
		addF("mp-unreach-malformed", c06Reset, 15)
	case 18: // AS4_AGGREGATOR without AGGREGATOR
		if m.find(18) >= 0 || m.find(7) >= 0 {
			return false
		}
		insertAt(insPos(), c06Attr{typ: 18, flags: 0xc0, val: []byte{0, 1, 0xfd, 0xe8, 10, 9, 9, 9}, decl: -1})
		addF("as4agg-alone", -1, 18)
	case 19: // AS4_PATH segment fault
		i := pickAttr(func(a *c06Attr) bool { return a.typ == 17 && len(a.val) >= 6 })
		if i < 0 {
			return false
		}
		a := &m.attrs[i]
		switch r.intn(3) {
		case 0:
			a.val[0] = byte(r.pick(0, 5, 9))
		case 1:
			a.val[1] = 0
		case 2:
			a.val = a.val[:len(a.val)-2]
		}
		a.tag = "segment"
		addF("as4path-segment", c06Discard, 17)
	case 20: // Extended Length flag set but only one length octet / header cut by the boundary
		if len(m.attrs) == 0 || m.attrs[len(m.attrs)-1].last || m.totDelta != 0 {
			return false
		}
		i := pickAttr(func(a *c06Attr) bool { return len(a.val) == 0 })
		if i < 0 {
			return false
		}
		a := m.attrs[i]
		m.attrs = append(m.attrs[:i], m.attrs[i+1:]...)
		a.flags |= 0x10
		a.tag, a.last = "overrun", true
		m.attrs = append(m.attrs, a)
		m.totDelta = -1 // the boundary cuts the second length octet
		m.framing = true
		addF(fmt.Sprintf("ext-header-cut:%d", a.typ), c06Withdraw, int(a.typ))
	case 21: // AGGREGATOR malformed while AS4_AGGREGATOR is present
		i := pickAttr(func(a *c06Attr) bool { return a.typ == 7 })
		if i < 0 || m.find(18) < 0 {
			return false
		}
		m.attrs[i].val, m.attrs[i].tag = c06RandBytes(r, r.pick(5, 7)), "len"
		addF("len:7+as4agg", c06Discard, 7)
	}
	return true
}

// c06Gen: base message + nf faults (retrying inapplicable picks)
func c06Gen(r *vRand, peer int, nf int) *c06Msg {
	for {
		m := c06Base(r, peer)
		okAll := true
		k0 := 0
		if nf >= 1 && r.chance(15) {
			// stratum: a discard-class decode fault (malformed ATOMIC_AGGREGATE / AGGREGATOR) first,
			// so that "discard + something else" is exercised often
			t := byte(r.pick(6, 7))
			i := m.find(t)
			if i < 0 {
				m.attrs = append(m.attrs, c06Attr{typ: t, flags: map[byte]byte{6: 0x40, 7: 0xc0}[t], decl: -1})
				i = len(m.attrs) - 1
			}
			m.attrs[i].val, m.attrs[i].decl, m.attrs[i].tag = c06RandBytes(r, r.pick(1, 2, 3, 5)), -1, "len"
			m.faults = append(m.faults, c06Fault{fmt.Sprintf("len:%d", t), c06Discard, int(t)})
			k0 = 1
		}
		for k := k0; k < nf; k++ {
			done := false
			for try := 0; try < 40 && !done; try++ {
				done = c06Inject(r, m)
			}
			if !done {
				okAll = false
				break
			}
		}
		if !okAll {
			continue
		}
		if nf > 0 && r.chance(40) {
			c06Shuffle(r, m)
		}
		return m
	}
}
