//go:build verif

// C04 — object-history cases: encode must be a function of the VALUE and the options, not of what
// was done to the object before.  A message is built by the constructors, serialised (accepted or
// refused), optionally mutated in place (NLRI trimmed / grown, attribute dropped / added / edited),
// and serialised again under the same or different options (Extended Message, ADD-PATH, 2-octet AS);
// the result is compared with Serialize of a FRESH equal value built by the constructors, and with
// the framing rule (header length == octets emitted <= cap).  Also decode -> mutate -> serialise.
// The same histories are replayed on the model (`enc2`).
//
// Classes:
//   history:after-refused-serialize     a refused Serialize left state behind (VIOLATION if it ever fires)
//   history:attr-or-body-cache          a cached attribute / body length made the result differ
//   history:header-len-cached-by-success  KNOWN: Header.Len cached by a successful Serialize (or taken
//                                       from the wire by the parser) is reused by the next Serialize
package bgp

import (
	"encoding/binary"
	"fmt"
	"net/netip"
)

type vcSer struct {
	b   []byte
	err bool
}

func vcSerialize(m *BGPMessage, opts []*MarshallingOption) (s vcSer) {
	defer func() {
		if e := recover(); e != nil {
			s = vcSer{err: true}
		}
	}()
	b, err := m.Serialize(opts...)
	if err != nil {
		return vcSer{err: true}
	}
	return vcSer{b: b}
}

func (s vcSer) show() string {
	if s.err {
		return "too-long"
	}
	return vcHex(s.b)
}

func (s vcSer) same(t vcSer) bool { return s.err == t.err && string(s.b) == string(t.b) }

func vcCap(kind byte, op vcOpts) int {
	if op.ext && kind != 'K' {
		return BGP_MAX_EXTENDED_MESSAGE_LENGTH
	}
	return BGP_MAX_MESSAGE_LENGTH
}

// header length == octets emitted <= cap
func vcFramed(s vcSer, kind byte, op vcOpts) bool {
	if s.err {
		return true
	}
	return len(s.b) >= 19 && int(binary.BigEndian.Uint16(s.b[16:18])) == len(s.b) && len(s.b) <= vcCap(kind, op)
}

func vcCopyMsg(m *vcMsg) *vcMsg {
	c := *m
	c.w = append([]vcPfx{}, m.w...)
	c.n = append([]vcPfx{}, m.n...)
	c.attrs = append([]vcAttr{}, m.attrs...)
	return &c
}

// vcMutate applies one in-place edit to the real object and the same edit to the description
func vcHistMutate(r *vRand, op vcOpts, d *vcMsg, x *BGPMessage, kind int) (*vcMsg, string) {
	u, ok := x.Body.(*BGPUpdate)
	if !ok {
		return d, "none"
	}
	d2 := vcCopyMsg(d)
	switch kind {
	case 0: // trim the NLRI list
		k := 0
		if len(d.n) > 1 {
			k = r.intn(len(d.n))
		}
		d2.n = d2.n[:k]
		u.NLRI = u.NLRI[:k]
		return d2, fmt.Sprintf("trim-nlri-%d", k)
	case 1: // grow the NLRI list
		for i := 0; i < 1+r.intn(3); i++ {
			p := vcGenPfx(r, op.apTx)
			d2.n = append(d2.n, p)
			u.NLRI = append(u.NLRI, p.build())
		}
		return d2, "grow-nlri"
	case 2: // drop the last attribute
		if len(d.attrs) == 0 {
			return d, "none"
		}
		d2.attrs = d2.attrs[:len(d2.attrs)-1]
		u.PathAttributes = u.PathAttributes[:len(u.PathAttributes)-1]
		return d2, "drop-attr"
	case 3: // add an attribute
		a := vcGenAttr(r, op, 'c')
		d2.attrs = append(d2.attrs, a)
		u.PathAttributes = append(u.PathAttributes, a.build())
		return d2, "add-attr"
	case 4: // grow the withdrawn list
		p := vcGenPfx(r, op.apTx)
		d2.w = append(d2.w, p)
		u.WithdrawnRoutes = append(u.WithdrawnRoutes, p.build())
		return d2, "grow-withdrawn"
	case 5: // replace an attribute by a freshly built one of the same kind but another size
		if len(d.attrs) == 0 {
			return d, "none"
		}
		i := r.intn(len(d.attrs))
		a := vcGenAttr(r, op, d.attrs[i].kind)
		d2.attrs[i] = a
		u.PathAttributes[i] = a.build()
		return d2, "replace-attr"
	}
	return d, "none"
}

// vcHistClass names the root cause of a history failure: state left by a REFUSED Serialize is never
// acceptable; after a successful Serialize / a parse the known cause is the reused Header.Len (only the
// header length differs, or the cap test ran / was skipped on the stale length); anything else is a
// cached attribute / body length.
func vcHistClass(prevRefused bool, got, fresh vcSer) string {
	switch {
	case prevRefused:
		return "history:after-refused-serialize"
	case got.err != fresh.err:
		return "history:header-len-cached-by-success"
	case !got.err && len(got.b) == len(fresh.b) && len(got.b) >= 19 && string(got.b[19:]) == string(fresh.b[19:]) && string(got.b[:16]) == string(fresh.b[:16]) && got.b[18] == fresh.b[18]:
		return "history:header-len-cached-by-success"
	}
	return "history:attr-or-body-cache"
}

func vcGenOpts(r *vRand) vcOpts {
	ap := r.chance(40)
	return vcOpts{apRx: ap, apTx: ap, use2: r.chance(30), ext: r.chance(45)}
}

func vcHistoryOracle(o *vOut, r *vRand) {
	n := 700
	if o.thorough {
		n = 5000
	}
	seen := map[string]bool{}
	fail := func(class string, detail map[string]any) {
		if seen[class] {
			o.stat("history_fail_repeat:"+class, 1)
			return
		}
		seen[class] = true
		o.fail(class, detail)
	}
	var last vcOpts
	first := true
	for i := 0; i < n; i++ {
		opA := vcGenOpts(r)
		// a good share of messages just over / under the 4096 and 65535 caps
		var d *vcMsg
		switch x := r.intn(10); {
		case x < 3:
			d = vcGenSized(r, opA, r.pick(4096, 4097, 4200, 5000))
			for j := 0; j < 1+r.intn(4); j++ { // several NLRI so that trimming changes the size
				d.n = append(d.n, vcGenPfx(r, opA.apTx))
			}
		case x < 4:
			d = vcGenSized(r, opA, r.pick(65535, 65536, 65600))
			d.n = append(d.n, vcGenPfx(r, opA.apTx), vcGenPfx(r, opA.apTx))
		case x < 5:
			d = &vcMsg{kind: 'N', stratum: "notification", c: 6, s: 2, data: vcGenBytes(r, r.pick(10, 4075, 4076, 5000))}
		default:
			d = vcGenUpdate(r, opA)
		}
		optsA := opA.marshalling()

		// ---------- H1/H2: serialise twice (same options, then different options)
		opB := opA
		if r.chance(70) {
			opB = vcGenOpts(r)
			opB.use2 = opA.use2 // the AS width is a property of the value here (built once)
		}
		optsB := opB.marshalling()
		x := d.build()
		r1 := vcSerialize(x, optsA)
		firstRefused := r1.err
		r2 := vcSerialize(x, optsB)
		freshB := vcSerialize(d.build(), optsB)
		o.stat("history_twice", 1)
		if firstRefused {
			o.stat("history_first_refused", 1)
		}
		if !vcFramed(r1, d.kind, opA) {
			fail("history:first-serialize-misframed", map[string]any{"desc": d.desc()[:min(300, len(d.desc()))], "optsA": fmt.Sprint(opA)})
		}
		if !r2.same(freshB) || !vcFramed(r2, d.kind, opB) {
			det := map[string]any{"scenario": "serialize-twice", "optsA": fmt.Sprint(opA), "optsB": fmt.Sprint(opB), "first_refused": firstRefused,
				"second_len": len(r2.b), "second_err": r2.err, "fresh_len": len(freshB.b), "fresh_err": freshB.err, "desc": d.desc()[:min(200, len(d.desc()))]}
			fail(vcHistClass(firstRefused, r2, freshB), det)
		}
		// the model replays the same history (whole NLRI list kept)
		if first || opA != last {
			o.op("opts %d %d %d %d", vcB(opA.apRx), vcB(opA.apTx), vcB(opA.use2), vcB(opA.ext))
			last, first = opA, false
		}
		if len(d.desc()) < 20000 || r.chance(15) {
			o.ask(r1.show()+" | "+r2.show(), "enc2 99999 %d %d %d %d %s", vcB(opB.apRx), vcB(opB.apTx), vcB(opB.use2), vcB(opB.ext), d.desc())
		}

		if d.kind != 'U' {
			continue
		}
		// ---------- H3/H4: serialise (accepted or refused) -> mutate -> serialise, same options
		y := d.build()
		p1 := vcSerialize(y, optsA)
		kind := r.intn(6)
		d2, what := vcHistMutate(r, opA, d, y, kind)
		p2 := vcSerialize(y, optsA)
		fresh2 := vcSerialize(d2.build(), optsA)
		o.stat("history_mutate:"+what, 1)
		if !p2.same(fresh2) || !vcFramed(p2, d.kind, opA) {
			det := map[string]any{"scenario": "serialize-" + what + "-serialize", "opts": fmt.Sprint(opA), "first_refused": p1.err,
				"second_len": len(p2.b), "second_err": p2.err, "fresh_len": len(fresh2.b), "fresh_err": fresh2.err, "desc": d.desc()[:min(200, len(d.desc()))]}
			fail(vcHistClass(p1.err, p2, fresh2), det)
		}
		// the trim history on the model too
		if kind == 0 && (len(d.desc()) < 20000 || r.chance(15)) {
			o.ask(p1.show()+" | "+p2.show(), "enc2 %d %d %d %d %d %s", len(d2.n), vcB(opA.apRx), vcB(opA.apTx), vcB(opA.use2), vcB(opA.ext), d.desc())
		}

		// ---------- H5: decode -> (mutate) -> serialise
		if !p1.err && opA.apRx == opA.apTx {
			z, err := ParseBGPMessage(p1.b, optsA...)
			if err == nil {
				q0 := vcSerialize(z, optsA)
				if !q0.same(p1) {
					fail("history:decode-serialize-differs", map[string]any{"bytes": vcHex(p1.b)[:min(400, 2*len(p1.b))], "opts": fmt.Sprint(opA)})
				}
				d3, what3 := vcHistMutate(r, opA, d, z, r.intn(5))
				q1 := vcSerialize(z, optsA)
				fresh3 := vcSerialize(d3.build(), optsA)
				o.stat("history_decode_mutate:"+what3, 1)
				if !q1.same(fresh3) || !vcFramed(q1, d.kind, opA) {
					fail(vcHistClass(false, q1, fresh3), map[string]any{"scenario": "decode-" + what3 + "-serialize", "opts": fmt.Sprint(opA),
						"second_len": len(q1.b), "second_err": q1.err, "fresh_len": len(fresh3.b), "fresh_err": fresh3.err})
				}
			}
		}
	}
}

// ---------------------------------------------------------------- one level down: composite objects
//
// Every composite codec object that caches a length: build it with its constructor, Serialize, edit
// it in place (add / remove / replace an element), Serialize again, and compare with Serialize of a
// freshly constructed equal value; the second result must also re-parse.  Both "built" and
// "decoded from the wire" objects are taken through the edit.
// Class of a failure: history:<kind>-len-cached.

type vcComp struct {
	kind   string
	build  func() any
	mutate func(x any) bool                // in-place edit; false = not applicable
	fresh  func() any                      // freshly constructed value equal to the edited one
	ser    func(x any) ([]byte, error)     // the object's own Serialize
	decode func(b []byte) (any, error)     // the object's own decoder (nil: no decoded variant)
}

func vcSerAttr(x any) ([]byte, error) { return x.(PathAttributeInterface).Serialize() }

// vcNormAttr: an attribute's octets up to the choice of the extended-length form, which follows the
// attribute's Flags (kept as received / as first built - a valid encoding, not a length cache): flags
// without the extended-length bit, type, value; "misframed" when the declared length is not the value's.
func vcNormAttr(b []byte) string {
	if len(b) < 3 {
		return "short"
	}
	hdr, l := 3, int(b[2])
	if b[0]&0x10 != 0 {
		if len(b) < 4 {
			return "short"
		}
		hdr, l = 4, int(binary.BigEndian.Uint16(b[2:4]))
	}
	if len(b)-hdr != l {
		return "misframed"
	}
	return fmt.Sprintf("%02x%02x:%x", b[0]&^0x10, b[1], b[hdr:])
}
func vcDecAttr(b []byte) (any, error) {
	p, err := GetPathAttribute(b)
	if err != nil {
		return nil, err
	}
	return p, p.DecodeFromBytes(b)
}
func vcSerCap(x any) ([]byte, error) { return x.(ParameterCapabilityInterface).Serialize() }
func vcDecCap(b []byte) (any, error)  { return DecodeCapability(b) }

func vcSerOpenBody(x any) ([]byte, error) { return x.(*BGPOpen).Serialize() }
func vcDecOpenBody(b []byte) (any, error) {
	o := &BGPOpen{}
	return o, o.DecodeFromBytes(b)
}
func vcMkOpen(params ...OptionParameterInterface) *BGPOpen {
	m, _ := NewBGPOpenMessage(65000, 90, netip.MustParseAddr("192.0.2.1"), params)
	return m.Body.(*BGPOpen)
}

func vcCompCases(r *vRand) []vcComp {
	var cs []vcComp
	mp4, mp6, rr, as4 := func() ParameterCapabilityInterface { return NewCapMultiProtocol(RF_IPv4_UC) },
		func() ParameterCapabilityInterface { return NewCapMultiProtocol(RF_IPv6_UC) },
		func() ParameterCapabilityInterface { return NewCapRouteRefresh() },
		func() ParameterCapabilityInterface { return NewCapFourOctetASNumber(4200000000) }
	capParam := func(x any) *OptionParameterCapability { return x.(*BGPOpen).OptParams[0].(*OptionParameterCapability) }
	// --- OPEN optional parameter carrying capabilities: remove / add / replace a capability
	cs = append(cs,
		vcComp{kind: "open-param", build: func() any { return vcMkOpen(NewOptionParameterCapability([]ParameterCapabilityInterface{mp4(), rr(), as4()})) },
			mutate: func(x any) bool { p := capParam(x); p.Capability = p.Capability[:2]; return true },
			fresh:  func() any { return vcMkOpen(NewOptionParameterCapability([]ParameterCapabilityInterface{mp4(), rr()})) },
			ser:    vcSerOpenBody, decode: vcDecOpenBody},
		vcComp{kind: "open-param", build: func() any { return vcMkOpen(NewOptionParameterCapability([]ParameterCapabilityInterface{mp4(), rr()})) },
			mutate: func(x any) bool { p := capParam(x); p.Capability = append(p.Capability, as4(), mp6()); return true },
			fresh:  func() any { return vcMkOpen(NewOptionParameterCapability([]ParameterCapabilityInterface{mp4(), rr(), as4(), mp6()})) },
			ser:    vcSerOpenBody, decode: vcDecOpenBody},
		vcComp{kind: "open-param", build: func() any { return vcMkOpen(NewOptionParameterCapability([]ParameterCapabilityInterface{mp4(), as4()})) },
			mutate: func(x any) bool { p := capParam(x); p.Capability[1] = rr(); return true },
			fresh:  func() any { return vcMkOpen(NewOptionParameterCapability([]ParameterCapabilityInterface{mp4(), rr()})) },
			ser:    vcSerOpenBody, decode: vcDecOpenBody},
		// a whole parameter removed / added
		vcComp{kind: "open-params", build: func() any {
			return vcMkOpen(NewOptionParameterCapability([]ParameterCapabilityInterface{mp4()}), NewOptionParameterCapability([]ParameterCapabilityInterface{as4()}))
		},
			mutate: func(x any) bool { o := x.(*BGPOpen); o.OptParams = o.OptParams[:1]; return true },
			fresh:  func() any { return vcMkOpen(NewOptionParameterCapability([]ParameterCapabilityInterface{mp4()})) },
			ser:    vcSerOpenBody, decode: vcDecOpenBody},
		// an optional parameter of unknown type whose value is edited
		vcComp{kind: "open-param-unknown", build: func() any { return vcMkOpen(&OptionParameterUnknown{ParamType: 9, Value: []byte{1, 2, 3, 4}}) },
			mutate: func(x any) bool {
				p := x.(*BGPOpen).OptParams[0].(*OptionParameterUnknown)
				p.Value = p.Value[:2]
				return true
			},
			fresh: func() any { return vcMkOpen(&OptionParameterUnknown{ParamType: 9, Value: []byte{1, 2}}) },
			ser:   vcSerOpenBody, decode: vcDecOpenBody},
	)
	// --- capabilities with tuple lists: add / remove a tuple
	grT := func(n int) []*CapGracefulRestartTuple {
		var l []*CapGracefulRestartTuple
		for i := 0; i < n; i++ {
			l = append(l, NewCapGracefulRestartTuple([]Family{RF_IPv4_UC, RF_IPv6_UC, RF_EVPN}[i%3], i%2 == 0))
		}
		return l
	}
	llT := func(n int) []*CapLongLivedGracefulRestartTuple {
		var l []*CapLongLivedGracefulRestartTuple
		for i := 0; i < n; i++ {
			l = append(l, NewCapLongLivedGracefulRestartTuple([]Family{RF_IPv4_UC, RF_IPv6_UC, RF_EVPN}[i%3], i%2 == 0, uint32(100+i)))
		}
		return l
	}
	apT := func(n int) []*CapAddPathTuple {
		var l []*CapAddPathTuple
		for i := 0; i < n; i++ {
			l = append(l, NewCapAddPathTuple([]Family{RF_IPv4_UC, RF_IPv6_UC, RF_EVPN}[i%3], BGPAddPathMode(1+i%3)))
		}
		return l
	}
	enT := func(n int) []*CapExtendedNexthopTuple {
		var l []*CapExtendedNexthopTuple
		for i := 0; i < n; i++ {
			l = append(l, NewCapExtendedNexthopTuple([]Family{RF_IPv4_UC, RF_IPv4_VPN, RF_IPv4_MPLS}[i%3], AFI_IP6))
		}
		return l
	}
	for _, d := range []struct{ from, to int }{{3, 1}, {1, 3}, {2, 2}} {
		d := d
		cs = append(cs,
			vcComp{kind: "cap-gr", build: func() any { return NewCapGracefulRestart(true, false, 120, grT(d.from)) },
				mutate: func(x any) bool { x.(*CapGracefulRestart).Tuples = grT(d.to); return true },
				fresh:  func() any { return NewCapGracefulRestart(true, false, 120, grT(d.to)) }, ser: vcSerCap, decode: vcDecCap},
			vcComp{kind: "cap-llgr", build: func() any { return NewCapLongLivedGracefulRestart(llT(d.from)) },
				mutate: func(x any) bool { x.(*CapLongLivedGracefulRestart).Tuples = llT(d.to); return true },
				fresh:  func() any { return NewCapLongLivedGracefulRestart(llT(d.to)) }, ser: vcSerCap, decode: vcDecCap},
			vcComp{kind: "cap-addpath", build: func() any { return NewCapAddPath(apT(d.from)) },
				mutate: func(x any) bool { x.(*CapAddPath).Tuples = apT(d.to); return true },
				fresh:  func() any { return NewCapAddPath(apT(d.to)) }, ser: vcSerCap, decode: vcDecCap},
			vcComp{kind: "cap-extnexthop", build: func() any { return NewCapExtendedNexthop(enT(d.from)) },
				mutate: func(x any) bool { x.(*CapExtendedNexthop).Tuples = enT(d.to); return true },
				fresh:  func() any { return NewCapExtendedNexthop(enT(d.to)) }, ser: vcSerCap, decode: vcDecCap},
		)
	}
	// --- path attributes with a cached Length: add / remove an element (sizes cross 255 sometimes)
	u32s := func(n int) []uint32 {
		l := make([]uint32, n)
		for i := range l {
			l[i] = uint32(65000<<16 | i)
		}
		return l
	}
	segs := func(n int) []AsPathParamInterface {
		var l []AsPathParamInterface
		for i := 0; i < n; i++ {
			l = append(l, NewAs4PathParam(uint8(1+i%2), []uint32{65000 + uint32(i), 4200000000}))
		}
		return l
	}
	lcs := func(n int) []*LargeCommunity {
		var l []*LargeCommunity
		for i := 0; i < n; i++ {
			l = append(l, NewLargeCommunity(4200000000, uint32(i), 7))
		}
		return l
	}
	ecs := func(n int) []ExtendedCommunityInterface {
		var l []ExtendedCommunityInterface
		for i := 0; i < n; i++ {
			l = append(l, NewTwoOctetAsSpecificExtended(EC_SUBTYPE_ROUTE_TARGET, 65000, uint32(i), true))
		}
		return l
	}
	cl := func(n int) []netip.Addr {
		var l []netip.Addr
		for i := 0; i < n; i++ {
			l = append(l, netip.AddrFrom4([4]byte{10, 0, byte(i >> 8), byte(i)}))
		}
		return l
	}
	nl4 := func(n int) []PathNLRI {
		var l []PathNLRI
		for i := 0; i < n; i++ {
			p, _ := NewIPAddrPrefix(netip.PrefixFrom(netip.AddrFrom4([4]byte{10, byte(i >> 8), byte(i), 0}), 24))
			l = append(l, PathNLRI{NLRI: p})
		}
		return l
	}
	subs := func(n int) []TunnelEncapSubTLVInterface {
		var l []TunnelEncapSubTLVInterface
		for i := 0; i < n; i++ {
			l = append(l, NewTunnelEncapSubTLVColor(uint32(i+1)), NewTunnelEncapSubTLVUnknown(100, make([]byte, 20)))
		}
		return l
	}
	tlvs := func(n, m int) []*TunnelEncapTLV {
		var l []*TunnelEncapTLV
		for i := 0; i < n; i++ {
			l = append(l, NewTunnelEncapTLV(TUNNEL_TYPE_VXLAN, subs(m)))
		}
		return l
	}
	aig := func(n int) []AigpTLVInterface {
		l := []AigpTLVInterface{NewAigpTLVIgpMetric(77)}
		for i := 0; i < n; i++ {
			l = append(l, NewAigpTLVDefault(39, make([]byte, 10+i)))
		}
		return l
	}
	psid := func(n int) []PrefixSIDTLVInterface {
		var l []PrefixSIDTLVInterface
		for i := 0; i < n; i++ {
			l = append(l, NewSRv6ServiceTLV(TLVTypeSRv6L3Service, NewSRv6InformationSubTLV(netip.MustParseAddr("2001:db8::1"), END_DT4)))
		}
		return l
	}
	for _, d := range []struct{ from, to int }{{3, 1}, {1, 3}, {70, 10}, {10, 70}, {2, 0}} {
		d := d
		cs = append(cs,
			vcComp{kind: "attr-communities", build: func() any { return NewPathAttributeCommunities(u32s(d.from)) },
				mutate: func(x any) bool { x.(*PathAttributeCommunities).Value = u32s(d.to); return true },
				fresh:  func() any { return NewPathAttributeCommunities(u32s(d.to)) }, ser: vcSerAttr, decode: vcDecAttr},
			vcComp{kind: "attr-aspath", build: func() any { return NewPathAttributeAsPath(segs(d.from)) },
				mutate: func(x any) bool { x.(*PathAttributeAsPath).Value = segs(d.to); return true },
				fresh:  func() any { return NewPathAttributeAsPath(segs(d.to)) }, ser: vcSerAttr, decode: vcDecAttr},
			vcComp{kind: "attr-large-communities", build: func() any { return NewPathAttributeLargeCommunities(lcs(d.from)) },
				mutate: func(x any) bool { x.(*PathAttributeLargeCommunities).Values = lcs(d.to); return true },
				fresh:  func() any { return NewPathAttributeLargeCommunities(lcs(d.to)) }, ser: vcSerAttr, decode: vcDecAttr},
			vcComp{kind: "attr-ext-communities", build: func() any { return NewPathAttributeExtendedCommunities(ecs(d.from)) },
				mutate: func(x any) bool { x.(*PathAttributeExtendedCommunities).Value = ecs(d.to); return true },
				fresh:  func() any { return NewPathAttributeExtendedCommunities(ecs(d.to)) }, ser: vcSerAttr, decode: vcDecAttr},
			vcComp{kind: "attr-cluster-list", build: func() any { a, _ := NewPathAttributeClusterList(cl(d.from)); return a },
				mutate: func(x any) bool { x.(*PathAttributeClusterList).Value = cl(d.to); return true },
				fresh:  func() any { a, _ := NewPathAttributeClusterList(cl(d.to)); return a }, ser: vcSerAttr, decode: vcDecAttr},
			vcComp{kind: "attr-mp-unreach", build: func() any { a, _ := NewPathAttributeMpUnreachNLRI(RF_IPv4_UC, nl4(d.from)); return a },
				mutate: func(x any) bool { x.(*PathAttributeMpUnreachNLRI).Value = nl4(d.to); return true },
				fresh:  func() any { a, _ := NewPathAttributeMpUnreachNLRI(RF_IPv4_UC, nl4(d.to)); return a }, ser: vcSerAttr, decode: vcDecAttr},
			vcComp{kind: "attr-aigp", build: func() any { return NewPathAttributeAigp(aig(d.from % 5)) },
				mutate: func(x any) bool { x.(*PathAttributeAigp).Values = aig(d.to % 5); return true },
				fresh:  func() any { return NewPathAttributeAigp(aig(d.to % 5)) }, ser: vcSerAttr, decode: vcDecAttr},
		)
		if d.to > 0 {
			cs = append(cs,
				vcComp{kind: "attr-mp-reach", build: func() any {
					a, _ := NewPathAttributeMpReachNLRI(RF_IPv4_UC, nl4(max(d.from, 1)), netip.MustParseAddr("192.0.2.1"))
					return a
				},
					mutate: func(x any) bool { x.(*PathAttributeMpReachNLRI).Value = nl4(d.to); return true },
					fresh: func() any {
						a, _ := NewPathAttributeMpReachNLRI(RF_IPv4_UC, nl4(d.to), netip.MustParseAddr("192.0.2.1"))
						return a
					}, ser: vcSerAttr, decode: vcDecAttr},
				vcComp{kind: "attr-tunnel-encap", build: func() any { return NewPathAttributeTunnelEncap(tlvs(1+d.from%4, 2)) },
					mutate: func(x any) bool { x.(*PathAttributeTunnelEncap).Value = tlvs(1+d.to%4, 2); return true },
					fresh:  func() any { return NewPathAttributeTunnelEncap(tlvs(1+d.to%4, 2)) }, ser: vcSerAttr, decode: vcDecAttr},
				// a sub-TLV added to / removed from a TLV that stays in place (TunnelEncapTLV.Length cache)
				vcComp{kind: "attr-tunnel-encap-subtlv", build: func() any { return NewPathAttributeTunnelEncap(tlvs(1, 1+d.from%5)) },
					mutate: func(x any) bool { x.(*PathAttributeTunnelEncap).Value[0].Value = subs(1 + d.to%5); return true },
					fresh:  func() any { return NewPathAttributeTunnelEncap(tlvs(1, 1+d.to%5)) }, ser: vcSerAttr, decode: vcDecAttr},
				vcComp{kind: "attr-prefix-sid", build: func() any { return NewPathAttributePrefixSID(psid(1 + d.from%3)...) },
					mutate: func(x any) bool { x.(*PathAttributePrefixSID).TLVs = psid(1 + d.to%3); return true },
					fresh:  func() any { return NewPathAttributePrefixSID(psid(1 + d.to%3)...) }, ser: vcSerAttr, decode: vcDecAttr},
			)
		}
	}
	// BGP-LS attribute: a TLV added / removed
	lsA := func(withName bool) *LsAttribute {
		b := []byte{1, 2, 3, 4, 5}
		a := &LsAttribute{Node: LsAttributeNode{Opaque: &b}}
		if withName {
			s := "router-with-a-long-name"
			a.Node.Name = &s
		}
		return a
	}
	for _, w := range []bool{true, false} {
		w := w
		cs = append(cs, vcComp{kind: "attr-ls", build: func() any { a, _ := vC04LsAttr(lsA(w)); return a },
			mutate: func(x any) bool { x.(*PathAttributeLs).TLVs = NewLsAttributeTLVs(lsA(!w)); return true },
			fresh:  func() any { a, _ := vC04LsAttr(lsA(!w)); return a }, ser: vcSerAttr, decode: vcDecAttr})
	}
	// --- NLRI with cached lengths
	rd := NewRouteDistinguisherTwoOctetAS(65000, 1)
	serN := func(x any) ([]byte, error) { return x.(NLRI).Serialize() }
	decN := func(f Family) func(b []byte) (any, error) {
		return func(b []byte) (any, error) { return NLRIFromSlice(f, b) }
	}
	evpn2 := func(ip string, labels ...uint32) any {
		n, _ := NewEVPNMacIPAdvertisementRoute(rd, EthernetSegmentIdentifier{}, 7, "02:00:00:00:00:01", netip.MustParseAddr(ip), labels)
		return n
	}
	cs = append(cs,
		vcComp{kind: "evpn-nlri", build: func() any { return evpn2("192.0.2.1", 100) },
			mutate: func(x any) bool {
				er := x.(*EVPNNLRI).RouteTypeData.(*EVPNMacIPAdvertisementRoute)
				er.Labels = append(er.Labels, 200)
				return true
			},
			fresh: func() any { return evpn2("192.0.2.1", 100, 200) }, ser: serN, decode: decN(RF_EVPN)},
		vcComp{kind: "evpn-nlri", build: func() any { return evpn2("192.0.2.1", 100) },
			mutate: func(x any) bool {
				er := x.(*EVPNNLRI).RouteTypeData.(*EVPNMacIPAdvertisementRoute)
				er.IPAddress = netip.MustParseAddr("2001:db8::1")
				er.IPAddressLength = 128
				return true
			},
			fresh: func() any { return evpn2("2001:db8::1", 100) }, ser: serN, decode: decN(RF_EVPN)},
	)
	fsOf := func(n int) any {
		x, _ := vcFSOfBody(RF_FS_IPv4_UC, n)
		return x
	}
	for _, d := range []struct{ from, to int }{{242, 40}, {40, 242}, {238, 240}, {241, 239}} {
		d := d
		cs = append(cs, vcComp{kind: "flowspec-nlri", build: func() any { return fsOf(d.from) },
			mutate: func(x any) bool {
				t, ok := fsOf(d.to).(*FlowSpecNLRI)
				if !ok {
					return false
				}
				x.(*FlowSpecNLRI).Value = t.Value
				return true
			},
			fresh: func() any { return fsOf(d.to) }, ser: serN, decode: decN(RF_FS_IPv4_UC)})
	}
	lab := func(labels ...uint32) any {
		n, _ := NewLabeledVPNIPAddrPrefix(netip.MustParsePrefix("10.1.2.0/24"), *NewMPLSLabelStack(labels...), rd)
		return n
	}
	cs = append(cs, vcComp{kind: "labelled-nlri", build: func() any { return lab(100) },
		mutate: func(x any) bool { l := x.(*LabeledVPNIPAddrPrefix); l.Labels.Labels = append(l.Labels.Labels, 200, 300); return true },
		fresh:  func() any { return lab(100, 200, 300) }, ser: serN, decode: decN(RF_IPv4_VPN)})
	return cs
}

func vcCompositeHistory(o *vOut, r *vRand) {
	seen := map[string]bool{}
	fail := func(class string, detail map[string]any) {
		if !seen[class] {
			seen[class] = true
			o.fail(class, detail)
		}
	}
	for _, c := range vcCompCases(r) {
		c := c
		for _, decodedFirst := range []bool{false, true} {
			decodedFirst := decodedFirst
			if decodedFirst && c.decode == nil {
				continue
			}
			class := "history:" + c.kind + "-len-cached"
			det := map[string]any{"kind": c.kind, "decoded_first": decodedFirst}
			if p := vcTry(func() {
				x := c.build()
				if x == nil || vC04IsNil(x) {
					return
				}
				b1, err := c.ser(x)
				if err != nil {
					return
				}
				if decodedFirst {
					y, err := c.decode(b1)
					if err != nil {
						return
					}
					x = y
				}
				if !c.mutate(x) {
					return
				}
				b2, err2 := c.ser(x)
				f := c.fresh()
				if f == nil || vC04IsNil(f) {
					return
				}
				bf, errf := c.ser(f)
				o.stat("history_composite:"+c.kind, 1)
				det["first"], det["second"], det["fresh"] = vcHex(b1), vcHex(b2), vcHex(bf)
				same := string(b2) == string(bf)
				if !same && err2 == nil && errf == nil && len(b2) > 1 && len(bf) > 1 {
					if _, isAttr := x.(PathAttributeInterface); isAttr {
						same = vcNormAttr(b2) == vcNormAttr(bf) && vcNormAttr(b2) != "misframed" && vcNormAttr(b2) != "short"
						if same {
							o.stat("history_composite_extended_length_form_kept", 1)
						}
					}
				}
				if (err2 != nil) != (errf != nil) || !same {
					fail(class, det)
					return
				}
				if err2 == nil && c.decode != nil {
					if _, err := c.decode(b2); err != nil {
						det["err"] = err.Error()
						fail(class, det)
					}
				}
			}); p != "" {
				det["panic"] = p
				fail("history:"+c.kind+"-panic", det)
			}
		}
	}
}
