//go:build verif

// C04 — object-history cases: encode must be a function of the VALUE and the options, not of what
// was done to the object before.  A message is built by the constructors, serialised (accepted or
// refused), optionally mutated in place (NLRI trimmed / grown, attribute dropped / added / edited),
// and serialised again under the same or different options (Extended Message, ADD-PATH, 2-octet AS);
// the result is compared with Serialize of a FRESH equal value built by the constructors, and with
// the framing rule (header length == octets emitted <= cap).  Also decode -> mutate -> serialise.
// The same histories are replayed on the model (`enc2`).
//
// Classes:
//   history:after-refused-serialize     a refused Serialize left state behind (VIOLATION if it ever fires)
//   history:attr-or-body-cache          a cached attribute / body length made the result differ
//   history:header-len-cached-by-success  KNOWN: Header.Len cached by a successful Serialize (or taken
//                                       from the wire by the parser) is reused by the next Serialize
package bgp

import (
	"encoding/binary"
	"fmt"
)

type vcSer struct {
	b   []byte
	err bool
}

func vcSerialize(m *BGPMessage, opts []*MarshallingOption) (s vcSer) {
	defer func() {
		if e := recover(); e != nil {
			s = vcSer{err: true}
		}
	}()
	b, err := m.Serialize(opts...)
	if err != nil {
		return vcSer{err: true}
	}
	return vcSer{b: b}
}

func (s vcSer) show() string {
	if s.err {
		return "too-long"
	}
	return vcHex(s.b)
}

func (s vcSer) same(t vcSer) bool { return s.err == t.err && string(s.b) == string(t.b) }

func vcCap(kind byte, op vcOpts) int {
	if op.ext && kind != 'K' {
		return BGP_MAX_EXTENDED_MESSAGE_LENGTH
	}
	return BGP_MAX_MESSAGE_LENGTH
}

// header length == octets emitted <= cap
func vcFramed(s vcSer, kind byte, op vcOpts) bool {
	if s.err {
		return true
	}
	return len(s.b) >= 19 && int(binary.BigEndian.Uint16(s.b[16:18])) == len(s.b) && len(s.b) <= vcCap(kind, op)
}

func vcCopyMsg(m *vcMsg) *vcMsg {
	c := *m
	c.w = append([]vcPfx{}, m.w...)
	c.n = append([]vcPfx{}, m.n...)
	c.attrs = append([]vcAttr{}, m.attrs...)
	return &c
}

// vcMutate applies one in-place edit to the real object and the same edit to the description
func vcHistMutate(r *vRand, op vcOpts, d *vcMsg, x *BGPMessage, kind int) (*vcMsg, string) {
	u, ok := x.Body.(*BGPUpdate)
	if !ok {
		return d, "none"
	}
	d2 := vcCopyMsg(d)
	switch kind {
	case 0: // trim the NLRI list
		k := 0
		if len(d.n) > 1 {
			k = r.intn(len(d.n))
		}
		d2.n = d2.n[:k]
		u.NLRI = u.NLRI[:k]
		return d2, fmt.Sprintf("trim-nlri-%d", k)
	case 1: // grow the NLRI list
		for i := 0; i < 1+r.intn(3); i++ {
			p := vcGenPfx(r, op.apTx)
			d2.n = append(d2.n, p)
			u.NLRI = append(u.NLRI, p.build())
		}
		return d2, "grow-nlri"
	case 2: // drop the last attribute
		if len(d.attrs) == 0 {
			return d, "none"
		}
		d2.attrs = d2.attrs[:len(d2.attrs)-1]
		u.PathAttributes = u.PathAttributes[:len(u.PathAttributes)-1]
		return d2, "drop-attr"
	case 3: // add an attribute
		a := vcGenAttr(r, op, 'c')
		d2.attrs = append(d2.attrs, a)
		u.PathAttributes = append(u.PathAttributes, a.build())
		return d2, "add-attr"
	case 4: // grow the withdrawn list
		p := vcGenPfx(r, op.apTx)
		d2.w = append(d2.w, p)
		u.WithdrawnRoutes = append(u.WithdrawnRoutes, p.build())
		return d2, "grow-withdrawn"
	case 5: // replace an attribute by a freshly built one of the same kind but another size
		if len(d.attrs) == 0 {
			return d, "none"
		}
		i := r.intn(len(d.attrs))
		a := vcGenAttr(r, op, d.attrs[i].kind)
		d2.attrs[i] = a
		u.PathAttributes[i] = a.build()
		return d2, "replace-attr"
	}
	return d, "none"
}

// vcHistClass names the root cause of a history failure: state left by a REFUSED Serialize is never
// acceptable; after a successful Serialize / a parse the known cause is the reused Header.Len (only the
// header length differs, or the cap test ran / was skipped on the stale length); anything else is a
// cached attribute / body length.
func vcHistClass(prevRefused bool, got, fresh vcSer) string {
	switch {
	case prevRefused:
		return "history:after-refused-serialize"
	case got.err != fresh.err:
		return "history:header-len-cached-by-success"
	case !got.err && len(got.b) == len(fresh.b) && len(got.b) >= 19 && string(got.b[19:]) == string(fresh.b[19:]) && string(got.b[:16]) == string(fresh.b[:16]) && got.b[18] == fresh.b[18]:
		return "history:header-len-cached-by-success"
	}
	return "history:attr-or-body-cache"
}

func vcGenOpts(r *vRand) vcOpts {
	ap := r.chance(40)
	return vcOpts{apRx: ap, apTx: ap, use2: r.chance(30), ext: r.chance(45)}
}

func vcHistoryOracle(o *vOut, r *vRand) {
	n := 700
	if o.thorough {
		n = 5000
	}
	seen := map[string]bool{}
	fail := func(class string, detail map[string]any) {
		if seen[class] {
			o.stat("history_fail_repeat:"+class, 1)
			return
		}
		seen[class] = true
		o.fail(class, detail)
	}
	var last vcOpts
	first := true
	for i := 0; i < n; i++ {
		opA := vcGenOpts(r)
		// a good share of messages just over / under the 4096 and 65535 caps
		var d *vcMsg
		switch x := r.intn(10); {
		case x < 3:
			d = vcGenSized(r, opA, r.pick(4096, 4097, 4200, 5000))
			for j := 0; j < 1+r.intn(4); j++ { // several NLRI so that trimming changes the size
				d.n = append(d.n, vcGenPfx(r, opA.apTx))
			}
		case x < 4:
			d = vcGenSized(r, opA, r.pick(65535, 65536, 65600))
			d.n = append(d.n, vcGenPfx(r, opA.apTx), vcGenPfx(r, opA.apTx))
		case x < 5:
			d = &vcMsg{kind: 'N', stratum: "notification", c: 6, s: 2, data: vcGenBytes(r, r.pick(10, 4075, 4076, 5000))}
		default:
			d = vcGenUpdate(r, opA)
		}
		optsA := opA.marshalling()

		// ---------- H1/H2: serialise twice (same options, then different options)
		opB := opA
		if r.chance(70) {
			opB = vcGenOpts(r)
			opB.use2 = opA.use2 // the AS width is a property of the value here (built once)
		}
		optsB := opB.marshalling()
		x := d.build()
		r1 := vcSerialize(x, optsA)
		firstRefused := r1.err
		r2 := vcSerialize(x, optsB)
		freshB := vcSerialize(d.build(), optsB)
		o.stat("history_twice", 1)
		if firstRefused {
			o.stat("history_first_refused", 1)
		}
		if !vcFramed(r1, d.kind, opA) {
			fail("history:first-serialize-misframed", map[string]any{"desc": d.desc()[:min(300, len(d.desc()))], "optsA": fmt.Sprint(opA)})
		}
		if !r2.same(freshB) || !vcFramed(r2, d.kind, opB) {
			det := map[string]any{"scenario": "serialize-twice", "optsA": fmt.Sprint(opA), "optsB": fmt.Sprint(opB), "first_refused": firstRefused,
				"second_len": len(r2.b), "second_err": r2.err, "fresh_len": len(freshB.b), "fresh_err": freshB.err, "desc": d.desc()[:min(200, len(d.desc()))]}
			fail(vcHistClass(firstRefused, r2, freshB), det)
		}
		// the model replays the same history (whole NLRI list kept)
		if first || opA != last {
			o.op("opts %d %d %d %d", vcB(opA.apRx), vcB(opA.apTx), vcB(opA.use2), vcB(opA.ext))
			last, first = opA, false
		}
		if len(d.desc()) < 20000 || r.chance(15) {
			o.ask(r1.show()+" | "+r2.show(), "enc2 99999 %d %d %d %d %s", vcB(opB.apRx), vcB(opB.apTx), vcB(opB.use2), vcB(opB.ext), d.desc())
		}

		if d.kind != 'U' {
			continue
		}
		// ---------- H3/H4: serialise (accepted or refused) -> mutate -> serialise, same options
		y := d.build()
		p1 := vcSerialize(y, optsA)
		kind := r.intn(6)
		d2, what := vcHistMutate(r, opA, d, y, kind)
		p2 := vcSerialize(y, optsA)
		fresh2 := vcSerialize(d2.build(), optsA)
		o.stat("history_mutate:"+what, 1)
		if !p2.same(fresh2) || !vcFramed(p2, d.kind, opA) {
			det := map[string]any{"scenario": "serialize-" + what + "-serialize", "opts": fmt.Sprint(opA), "first_refused": p1.err,
				"second_len": len(p2.b), "second_err": p2.err, "fresh_len": len(fresh2.b), "fresh_err": fresh2.err, "desc": d.desc()[:min(200, len(d.desc()))]}
			fail(vcHistClass(p1.err, p2, fresh2), det)
		}
		// the trim history on the model too
		if kind == 0 && (len(d.desc()) < 20000 || r.chance(15)) {
			o.ask(p1.show()+" | "+p2.show(), "enc2 %d %d %d %d %d %s", len(d2.n), vcB(opA.apRx), vcB(opA.apTx), vcB(opA.use2), vcB(opA.ext), d.desc())
		}

		// ---------- H5: decode -> (mutate) -> serialise
		if !p1.err && opA.apRx == opA.apTx {
			z, err := ParseBGPMessage(p1.b, optsA...)
			if err == nil {
				q0 := vcSerialize(z, optsA)
				if !q0.same(p1) {
					fail("history:decode-serialize-differs", map[string]any{"bytes": vcHex(p1.b)[:min(400, 2*len(p1.b))], "opts": fmt.Sprint(opA)})
				}
				d3, what3 := vcHistMutate(r, opA, d, z, r.intn(5))
				q1 := vcSerialize(z, optsA)
				fresh3 := vcSerialize(d3.build(), optsA)
				o.stat("history_decode_mutate:"+what3, 1)
				if !q1.same(fresh3) || !vcFramed(q1, d.kind, opA) {
					fail(vcHistClass(false, q1, fresh3), map[string]any{"scenario": "decode-" + what3 + "-serialize", "opts": fmt.Sprint(opA),
						"second_len": len(q1.b), "second_err": q1.err, "fresh_len": len(fresh3.b), "fresh_err": fresh3.err})
				}
			}
		}
	}
}
