//go:build verif

// C04 — BGP wire codec: encode and decode are mutually inverse and agree on framing.
//
// Correspondence (T-corr): messages are generated as abstract descriptions, built with the real
// constructors, serialised with the real codec and compared with Model/Wire.lean (`enc`), parsed
// with the real parser and compared with the model's decoder (`dec`, also on mutated octets), and
// every attribute is decoded on its own with trailing junk (`attr`).
// Oracle (model independent): parse(serialise(m)) == m, serialise∘parse is a fixpoint,
// Len() == len(Serialize()) == octets consumed, for the modelled core AND (sampling only) for every
// family / attribute / capability the package has constructors for (zz_verif_c04_fam_test.go).
package bgp

import (
	"encoding/binary"
	"encoding/hex"
	"fmt"
	"net/netip"
	"reflect"
	"sort"
	"strings"
	"testing"
)

// ---------------------------------------------------------------- abstract descriptions

type vcPfx struct {
	id   uint32
	bits int
	addr [4]byte
}

type vcSeg struct {
	w4  bool
	typ uint8
	as  []uint32
}

type vcAttr struct {
	kind    byte // o p h m l a g c i k P G L u
	v, v2   uint32
	b       bool
	bytes   []byte
	list    []uint32
	segs    []vcSeg
	triples [][3]uint32
	flags   uint8
	typ     uint8
}

type vcMsg struct {
	kind     byte // K N R U
	c, s     uint8
	data     []byte
	afi      uint16
	dem      uint8
	safi     uint8
	w, n     []vcPfx
	attrs    []vcAttr
	stratum  string
	bigBytes bool
	outsideWF bool // a constructible object outside MsgWF (Props/C04 *_counterexample): no round-trip oracle
}

type vcOpts struct{ apRx, apTx, use2, ext bool }

func (o vcOpts) marshalling() []*MarshallingOption {
	mode := BGP_ADD_PATH_NONE
	if o.apRx {
		mode |= BGP_ADD_PATH_RECEIVE
	}
	if o.apTx {
		mode |= BGP_ADD_PATH_SEND
	}
	m := &MarshallingOption{Use2ByteAS: o.use2, ExtendedMessage: o.ext}
	if mode != BGP_ADD_PATH_NONE {
		m.AddPath = map[Family]BGPAddPathMode{RF_IPv4_UC: mode}
	}
	return []*MarshallingOption{m}
}

func vcB(b bool) int {
	if b {
		return 1
	}
	return 0
}

func vcHex(b []byte) string {
	if len(b) == 0 {
		return "-"
	}
	return hex.EncodeToString(b)
}

func vcList(sb *strings.Builder, l []uint32) {
	fmt.Fprintf(sb, " %d", len(l))
	for _, x := range l {
		fmt.Fprintf(sb, " %d", x)
	}
}

func (p vcPfx) desc(sb *strings.Builder) {
	fmt.Fprintf(sb, " %d %d %s", p.id, p.bits, hex.EncodeToString(p.addr[:]))
}

func (a *vcAttr) desc(sb *strings.Builder) {
	switch a.kind {
	case 'o', 'm', 'l', 'i':
		fmt.Fprintf(sb, " %c %d", a.kind, a.v)
	case 'a':
		sb.WriteString(" a")
	case 'h':
		fmt.Fprintf(sb, " h %s", vcHex(a.bytes))
	case 'g':
		fmt.Fprintf(sb, " g %d %d %d", vcB(a.b), a.v, a.v2)
	case 'G':
		fmt.Fprintf(sb, " G %d %d", a.v, a.v2)
	case 'c', 'k':
		fmt.Fprintf(sb, " %c", a.kind)
		vcList(sb, a.list)
	case 'p':
		fmt.Fprintf(sb, " p %d", len(a.segs))
		for _, s := range a.segs {
			fmt.Fprintf(sb, " %d %d", vcB(s.w4), s.typ)
			vcList(sb, s.as)
		}
	case 'P':
		fmt.Fprintf(sb, " P %d", len(a.segs))
		for _, s := range a.segs {
			fmt.Fprintf(sb, " %d", s.typ)
			vcList(sb, s.as)
		}
	case 'L':
		fmt.Fprintf(sb, " L %d", len(a.triples))
		for _, t := range a.triples {
			fmt.Fprintf(sb, " %d %d %d", t[0], t[1], t[2])
		}
	case 'u':
		fmt.Fprintf(sb, " u %d %d %s", a.flags, a.typ, vcHex(a.bytes))
	}
}

func (m *vcMsg) desc() string {
	var sb strings.Builder
	switch m.kind {
	case 'K':
		sb.WriteString("K")
	case 'N':
		fmt.Fprintf(&sb, "N %d %d %s", m.c, m.s, vcHex(m.data))
	case 'R':
		fmt.Fprintf(&sb, "R %d %d %d", m.afi, m.dem, m.safi)
	case 'U':
		fmt.Fprintf(&sb, "U %d", len(m.w))
		for _, p := range m.w {
			p.desc(&sb)
		}
		fmt.Fprintf(&sb, " %d", len(m.attrs))
		for i := range m.attrs {
			m.attrs[i].desc(&sb)
		}
		fmt.Fprintf(&sb, " %d", len(m.n))
		for _, p := range m.n {
			p.desc(&sb)
		}
	}
	return sb.String()
}

// ---------------------------------------------------------------- building real objects

func vcAddr4(v uint32) netip.Addr {
	var b [4]byte
	binary.BigEndian.PutUint32(b[:], v)
	return netip.AddrFrom4(b)
}

func vcU32(a netip.Addr) uint32 {
	if !a.Is4() {
		return 0xdeadbeef
	}
	b := a.As4()
	return binary.BigEndian.Uint32(b[:])
}

func (p vcPfx) build() PathNLRI {
	n, err := NewIPAddrPrefix(netip.PrefixFrom(netip.AddrFrom4(p.addr), p.bits))
	if err != nil {
		panic(err)
	}
	return PathNLRI{NLRI: n, ID: p.id}
}

func vcSegBuild(s vcSeg) AsPathParamInterface {
	if s.w4 {
		return NewAs4PathParam(s.typ, s.as)
	}
	as := make([]uint16, len(s.as))
	for i, a := range s.as {
		as[i] = uint16(a)
	}
	return NewAsPathParam(s.typ, as)
}

func (a *vcAttr) build() PathAttributeInterface {
	switch a.kind {
	case 'o':
		return NewPathAttributeOrigin(uint8(a.v))
	case 'p':
		ps := make([]AsPathParamInterface, 0, len(a.segs))
		for _, s := range a.segs {
			ps = append(ps, vcSegBuild(s))
		}
		return NewPathAttributeAsPath(ps)
	case 'h':
		ad, _ := netip.AddrFromSlice(a.bytes)
		p, err := NewPathAttributeNextHop(ad)
		if err != nil {
			panic(err)
		}
		return p
	case 'm':
		return NewPathAttributeMultiExitDisc(a.v)
	case 'l':
		return NewPathAttributeLocalPref(a.v)
	case 'a':
		return NewPathAttributeAtomicAggregate()
	case 'g':
		var p *PathAttributeAggregator
		var err error
		if a.b {
			p, err = NewPathAttributeAggregator(a.v, vcAddr4(a.v2))
		} else {
			p, err = NewPathAttributeAggregator(uint16(a.v), vcAddr4(a.v2))
		}
		if err != nil {
			panic(err)
		}
		return p
	case 'c':
		return NewPathAttributeCommunities(a.list)
	case 'i':
		p, err := NewPathAttributeOriginatorId(vcAddr4(a.v))
		if err != nil {
			panic(err)
		}
		return p
	case 'k':
		l := make([]netip.Addr, len(a.list))
		for i, v := range a.list {
			l[i] = vcAddr4(v)
		}
		p, err := NewPathAttributeClusterList(l)
		if err != nil {
			panic(err)
		}
		return p
	case 'P':
		ps := make([]*As4PathParam, 0, len(a.segs))
		for _, s := range a.segs {
			ps = append(ps, NewAs4PathParam(s.typ, s.as))
		}
		return NewPathAttributeAs4Path(ps)
	case 'G':
		p, err := NewPathAttributeAs4Aggregator(a.v, vcAddr4(a.v2))
		if err != nil {
			panic(err)
		}
		return p
	case 'L':
		l := make([]*LargeCommunity, len(a.triples))
		for i, t := range a.triples {
			l[i] = NewLargeCommunity(t[0], t[1], t[2])
		}
		return NewPathAttributeLargeCommunities(l)
	case 'u':
		return NewPathAttributeUnknown(BGPAttrFlag(a.flags), BGPAttrType(a.typ), a.bytes)
	}
	panic("kind")
}

func (m *vcMsg) build() *BGPMessage {
	switch m.kind {
	case 'K':
		return NewBGPKeepAliveMessage()
	case 'N':
		return NewBGPNotificationMessage(m.c, m.s, m.data)
	case 'R':
		return NewBGPRouteRefreshMessage(m.afi, m.dem, m.safi)
	}
	var w, n []PathNLRI
	for _, p := range m.w {
		w = append(w, p.build())
	}
	for _, p := range m.n {
		n = append(n, p.build())
	}
	attrs := make([]PathAttributeInterface, 0, len(m.attrs))
	for i := range m.attrs {
		attrs = append(attrs, m.attrs[i].build())
	}
	return NewBGPUpdateMessage(w, attrs, n)
}

// ---------------------------------------------------------------- canonical rendering (same text as Driver/C04.lean)

func vcCommaU32(l []uint32) string {
	s := make([]string, len(l))
	for i, v := range l {
		s[i] = fmt.Sprint(v)
	}
	return strings.Join(s, ",")
}

func vcRNlris(l []PathNLRI) string {
	s := make([]string, len(l))
	for i, n := range l {
		p, ok := n.NLRI.(*IPAddrPrefix)
		if !ok {
			s[i] = fmt.Sprintf("%d/?%T", n.ID, n.NLRI)
			continue
		}
		s[i] = fmt.Sprintf("%d/%d/%s", n.ID, p.Prefix.Bits(), vcHex(p.Prefix.Addr().AsSlice()))
	}
	return strings.Join(s, " ")
}

func vcRSeg(p AsPathParamInterface) string {
	switch s := p.(type) {
	case *AsPathParam:
		return fmt.Sprintf("2.%d.%d[%s]", s.Type, s.Num, vcCommaU32(s.GetAS()))
	case *As4PathParam:
		return fmt.Sprintf("4.%d.%d[%s]", s.Type, s.Num, vcCommaU32(s.AS))
	}
	return "?"
}

func vcRVal(p PathAttributeInterface) string {
	switch a := p.(type) {
	case *PathAttributeOrigin:
		return fmt.Sprintf("origin %d", a.Value)
	case *PathAttributeAsPath:
		s := make([]string, len(a.Value))
		for i, v := range a.Value {
			s[i] = vcRSeg(v)
		}
		return "aspath " + strings.Join(s, ";")
	case *PathAttributeNextHop:
		return "nexthop " + vcHex(a.Value.AsSlice())
	case *PathAttributeMultiExitDisc:
		return fmt.Sprintf("med %d", a.Value)
	case *PathAttributeLocalPref:
		return fmt.Sprintf("lp %d", a.Value)
	case *PathAttributeAtomicAggregate:
		return "atomic"
	case *PathAttributeAggregator:
		w := 0
		switch a.Value.Askind {
		case reflect.Uint16:
			w = 2
		case reflect.Uint32:
			w = 4
		}
		return fmt.Sprintf("aggr %d %d %d", w, a.Value.AS, vcU32(a.Value.Address))
	case *PathAttributeCommunities:
		return "comm " + vcCommaU32(a.Value)
	case *PathAttributeOriginatorId:
		return fmt.Sprintf("origid %d", vcU32(a.Value))
	case *PathAttributeClusterList:
		l := make([]uint32, len(a.Value))
		for i, v := range a.Value {
			l[i] = vcU32(v)
		}
		return "clist " + vcCommaU32(l)
	case *PathAttributeAs4Path:
		s := make([]string, len(a.Value))
		for i, v := range a.Value {
			s[i] = vcRSeg(v)
		}
		return "as4path " + strings.Join(s, ";")
	case *PathAttributeAs4Aggregator:
		return fmt.Sprintf("as4aggr %d %d", a.Value.AS, vcU32(a.Value.Address))
	case *PathAttributeLargeCommunities:
		s := make([]string, len(a.Values))
		for i, v := range a.Values {
			s[i] = fmt.Sprintf("%d:%d:%d", v.ASN, v.LocalData1, v.LocalData2)
		}
		return "lcomm " + strings.Join(s, ",")
	case *PathAttributeUnknown:
		return "unk " + vcHex(a.Value)
	}
	return fmt.Sprintf("?%T", p)
}

func vcAttrLength(p PathAttributeInterface) int {
	if p.GetFlags()&BGP_ATTR_FLAG_EXTENDED_LENGTH != 0 {
		return p.Len() - 4
	}
	return p.Len() - 3
}

func vcRAttr(p PathAttributeInterface) string {
	return fmt.Sprintf("{f=%d t=%d l=%d %s}", uint8(p.GetFlags()), uint8(p.GetType()), vcAttrLength(p), vcRVal(p))
}

func vcRMsg(m *BGPMessage) string {
	var body string
	switch b := m.Body.(type) {
	case *BGPUpdate:
		s := make([]string, len(b.PathAttributes))
		for i, a := range b.PathAttributes {
			s[i] = vcRAttr(a)
		}
		body = fmt.Sprintf("U wl=%d W[%s] pl=%d A[%s] N[%s]", b.WithdrawnRoutesLen, vcRNlris(b.WithdrawnRoutes),
			b.TotalPathAttributeLen, strings.Join(s, " "), vcRNlris(b.NLRI))
	case *BGPNotification:
		body = fmt.Sprintf("NOTIF %d %d %s", b.ErrorCode, b.ErrorSubcode, vcHex(b.Data))
	case *BGPKeepAlive:
		body = "KA"
	case *BGPRouteRefresh:
		body = fmt.Sprintf("RR %d %d %d", b.AFI, b.Demarcation, b.SAFI)
	default:
		body = fmt.Sprintf("?%T", m.Body)
	}
	return fmt.Sprintf("M len=%d typ=%d %s", m.Header.Len, m.Header.Type, body)
}

// ---------------------------------------------------------------- generators

var vcU32Strata = []uint32{0, 1, 255, 256, 65535, 65536, 23456, 0x7fffffff, 0x80000000, 0xffffffff}

func vcGenU32(r *vRand) uint32 {
	if r.chance(30) {
		return vcU32Strata[r.intn(len(vcU32Strata))]
	}
	return r.u32()
}

func vcGenBytes(r *vRand, n int) []byte {
	b := make([]byte, n)
	for i := range b {
		b[i] = byte(r.next())
	}
	return b
}

func vcGenPfx(r *vRand, ap bool) vcPfx {
	bits := r.intn(33)
	if r.chance(40) {
		bits = r.pick(0, 1, 7, 8, 9, 15, 16, 17, 23, 24, 25, 31, 32)
	}
	v := r.u32()
	if bits == 0 {
		v = 0
	} else {
		v &= ^uint32(0) << (32 - uint(bits))
	}
	var p vcPfx
	p.bits = bits
	binary.BigEndian.PutUint32(p.addr[:], v)
	if ap {
		p.id = vcGenU32(r)
	}
	return p
}

func vcGenSeg(r *vRand, w4 bool, n int) vcSeg {
	s := vcSeg{w4: w4, typ: uint8(1 + r.intn(4)), as: make([]uint32, n)}
	for i := range s.as {
		v := vcGenU32(r)
		if !w4 {
			v &= 0xffff
		}
		s.as[i] = v
	}
	return s
}

func vcGenSegs(r *vRand, w4 bool) []vcSeg {
	n := r.pick(0, 1, 1, 1, 2, 3)
	segs := make([]vcSeg, 0, n)
	for i := 0; i < n; i++ {
		l := 1 + r.intn(6)
		if r.chance(6) {
			l = r.pick(62, 63, 64, 126, 127, 128, 254, 255)
		}
		segs = append(segs, vcGenSeg(r, w4, l))
	}
	return segs
}

func vcGenCount(r *vRand, boundaryLo int) int {
	// small counts mostly; sometimes exactly around the 255/256-octet value boundary
	if r.chance(12) {
		return boundaryLo + r.intn(3) // lo, lo+1, lo+2
	}
	return r.intn(6)
}

func vcGenAttr(r *vRand, o vcOpts, kind byte) vcAttr {
	a := vcAttr{kind: kind}
	switch kind {
	case 'o':
		a.v = uint32(r.pick(0, 1, 2, 3, 255))
	case 'p':
		a.segs = vcGenSegs(r, !o.use2)
	case 'h':
		if r.chance(15) {
			a.bytes = vcGenBytes(r, 16)
		} else {
			a.bytes = vcGenBytes(r, 4)
		}
	case 'm', 'l', 'i':
		a.v = vcGenU32(r)
	case 'g':
		a.b = r.chance(50)
		a.v = vcGenU32(r)
		if !a.b {
			a.v &= 0xffff
		}
		a.v2 = vcGenU32(r)
	case 'G':
		a.v, a.v2 = vcGenU32(r), vcGenU32(r)
	case 'c', 'k':
		n := vcGenCount(r, 63)
		a.list = make([]uint32, n)
		for i := range a.list {
			a.list[i] = vcGenU32(r)
		}
	case 'P':
		a.segs = vcGenSegs(r, true)
	case 'L':
		n := vcGenCount(r, 20)
		a.triples = make([][3]uint32, n)
		for i := range a.triples {
			a.triples[i] = [3]uint32{vcGenU32(r), vcGenU32(r), vcGenU32(r)}
		}
	case 'u':
		// a type code that no decoder claims
		for {
			a.typ = uint8(r.intn(256))
			if _, known := PathAttrFlags[BGPAttrType(a.typ)]; !known {
				break
			}
		}
		a.flags = uint8(r.pick(0xc0, 0xc0, 0x80, 0x40, 0xe0, 0xd0, 0xc1, 0x8f))
		n := r.intn(12)
		if r.chance(20) {
			n = r.pick(254, 255, 256, 257, 300)
		}
		a.bytes = vcGenBytes(r, n)
	}
	return a
}

const vcKinds = "ophmlagcikPGLu"

func vcGenUpdate(r *vRand, o vcOpts) *vcMsg {
	m := &vcMsg{kind: 'U', stratum: "update"}
	nw, nn := r.pick(0, 0, 1, 2, 4), r.pick(0, 1, 1, 2, 5)
	for i := 0; i < nw; i++ {
		m.w = append(m.w, vcGenPfx(r, o.apTx))
	}
	for i := 0; i < nn; i++ {
		m.n = append(m.n, vcGenPfx(r, o.apTx))
	}
	if r.chance(85) {
		for _, k := range []byte(vcKinds) {
			p := 35
			if k == 'o' || k == 'p' || k == 'h' {
				p = 80
			}
			if r.chance(p) {
				m.attrs = append(m.attrs, vcGenAttr(r, o, k))
			}
		}
		if r.chance(20) { // any order, duplicates allowed: the codec does not care
			pm := r.perm(len(m.attrs))
			sh := make([]vcAttr, len(m.attrs))
			for i, j := range pm {
				sh[i] = m.attrs[j]
			}
			m.attrs = sh
		}
	}
	return m
}

// an UPDATE whose total size is exactly `total` octets (one unknown attribute pads it)
func vcGenSized(r *vRand, o vcOpts, total int) *vcMsg {
	m := &vcMsg{kind: 'U', stratum: fmt.Sprintf("size%d", total), bigBytes: true}
	m.attrs = append(m.attrs, vcGenAttr(r, o, 'o'))
	m.n = append(m.n, vcGenPfx(r, o.apTx))
	nl := 1 + (m.n[0].bits+7)/8
	if o.apTx {
		nl += 4
	}
	// 19 + 2 + 0 + 2 + 4(origin) + (4 + L) + nl = total
	l := total - 19 - 4 - 4 - 4 - nl
	m.attrs = append(m.attrs, vcAttr{kind: 'u', flags: 0xc0, typ: 200, bytes: vcGenBytes(r, l)})
	return m
}

func vcGenMsg(r *vRand, o vcOpts) *vcMsg {
	switch x := r.intn(100); {
	case x < 2:
		return &vcMsg{kind: 'K', stratum: "keepalive"}
	case x < 10:
		n := r.intn(10)
		if r.chance(10) {
			n = r.pick(4074, 4075, 4076)
		}
		return &vcMsg{kind: 'N', stratum: "notification", c: uint8(r.intn(8)), s: uint8(r.intn(12)), data: vcGenBytes(r, n), bigBytes: n > 1000}
	case x < 15:
		return &vcMsg{kind: 'R', stratum: "route-refresh", afi: uint16(r.pick(1, 2, 25, 16388, 65535)), dem: uint8(r.pick(0, 1, 2, 255)), safi: uint8(r.pick(1, 2, 4, 128, 255))}
	case x < 18:
		return vcGenSized(r, o, r.pick(4095, 4096, 4097, 4098))
	}
	return vcGenUpdate(r, o)
}

// ---------------------------------------------------------------- model-independent equality

func vcDeepEq(a, b reflect.Value, depth int) bool {
	if depth > 40 {
		return true
	}
	if a.IsValid() != b.IsValid() {
		return false
	}
	if !a.IsValid() {
		return true
	}
	if a.Type() != b.Type() {
		return false
	}
	switch a.Kind() {
	case reflect.Ptr, reflect.Interface:
		if a.IsNil() || b.IsNil() {
			return a.IsNil() == b.IsNil()
		}
		return vcDeepEq(a.Elem(), b.Elem(), depth+1)
	case reflect.Struct:
		for i := 0; i < a.NumField(); i++ {
			if !vcDeepEq(a.Field(i), b.Field(i), depth+1) {
				return false
			}
		}
		return true
	case reflect.Slice, reflect.Array:
		if a.Len() != b.Len() { // nil == empty
			return false
		}
		for i := 0; i < a.Len(); i++ {
			if !vcDeepEq(a.Index(i), b.Index(i), depth+1) {
				return false
			}
		}
		return true
	case reflect.Map:
		if a.Len() != b.Len() {
			return false
		}
		it := a.MapRange()
		for it.Next() {
			bv := b.MapIndex(it.Key())
			if !bv.IsValid() || !vcDeepEq(it.Value(), bv, depth+1) {
				return false
			}
		}
		return true
	case reflect.Bool:
		return a.Bool() == b.Bool()
	case reflect.Int, reflect.Int8, reflect.Int16, reflect.Int32, reflect.Int64:
		return a.Int() == b.Int()
	case reflect.Uint, reflect.Uint8, reflect.Uint16, reflect.Uint32, reflect.Uint64, reflect.Uintptr:
		return a.Uint() == b.Uint()
	case reflect.Float32, reflect.Float64:
		return a.Float() == b.Float() || (a.Float() != a.Float() && b.Float() != b.Float())
	case reflect.String:
		return a.String() == b.String()
	}
	return true
}

func vcEq(a, b any) bool { return vcDeepEq(reflect.ValueOf(a), reflect.ValueOf(b), 0) }

func vcTry(f func()) (panicked string) {
	defer func() {
		if e := recover(); e != nil {
			panicked = fmt.Sprint(e)
		}
	}()
	f()
	return ""
}

// ---------------------------------------------------------------- the correspondence + core oracle

var vcUnmodelledTypes = map[BGPAttrType]bool{
	BGP_ATTR_TYPE_MP_REACH_NLRI: true, BGP_ATTR_TYPE_MP_UNREACH_NLRI: true, BGP_ATTR_TYPE_EXTENDED_COMMUNITIES: true,
	BGP_ATTR_TYPE_PMSI_TUNNEL: true, BGP_ATTR_TYPE_TUNNEL_ENCAP: true, BGP_ATTR_TYPE_IP6_EXTENDED_COMMUNITIES: true,
	BGP_ATTR_TYPE_AIGP: true, BGP_ATTR_TYPE_LS: true, BGP_ATTR_TYPE_PREFIX_SID: true,
}

// vcModelled: can the model be asked about this octet string?  (Uses only framing arithmetic and the
// package's attribute scanner; a string the model would call `unmodelled` is never asked.)
func vcModelled(b []byte, o vcOpts) bool {
	if len(b) < 19 {
		return true
	}
	if b[18] == BGP_MSG_OPEN {
		return false
	}
	if b[18] != BGP_MSG_UPDATE {
		return true
	}
	hl := int(binary.BigEndian.Uint16(b[16:18]))
	if hl < 19 || hl > len(b) {
		return true
	}
	body := b[19:hl]
	// locate the attribute section; when the framing is broken before it both sides reject
	if len(body) < 2 {
		return true
	}
	wl := int(binary.BigEndian.Uint16(body[:2]))
	if len(body) < 2+wl+2 {
		return true
	}
	pl := int(binary.BigEndian.Uint16(body[2+wl : 4+wl]))
	if len(body) < 4+wl+pl {
		return true
	}
	for t := range getBGPUpdateAttributes(body[4+wl : 4+wl+pl]) {
		if vcUnmodelledTypes[t] {
			return false
		}
	}
	return true
}

func vcParse(b []byte, opts []*MarshallingOption) (s string) {
	defer func() {
		if e := recover(); e != nil {
			s = "panic"
		}
	}()
	m, err := ParseBGPMessage(b, opts...)
	if err != nil {
		return "reject"
	}
	return vcRMsg(m)
}

func vcMutate(r *vRand, b []byte) []byte {
	c := append([]byte{}, b...)
	fixLen := func() {
		if len(c) >= 19 && len(c) <= 65535 {
			binary.BigEndian.PutUint16(c[16:18], uint16(len(c)))
		}
	}
	switch r.intn(9) {
	case 0: // truncate, header length adjusted
		if len(c) > 19 {
			c = c[:19+r.intn(len(c)-19)]
			fixLen()
		}
	case 1: // truncate, header length stale
		if len(c) > 1 {
			c = c[:r.intn(len(c))]
		}
	case 2: // append junk inside the message
		c = append(c, vcGenBytes(r, 1+r.intn(6))...)
		fixLen()
	case 3: // append junk after the message
		c = append(c, vcGenBytes(r, 1+r.intn(6))...)
	case 4, 5: // nudge one body octet by ±1 (lengths, flags, types, values)
		if len(c) > 19 {
			i := 19 + r.intn(len(c)-19)
			if r.chance(50) {
				c[i]++
			} else {
				c[i]--
			}
		}
	case 6: // random octet anywhere
		i := r.intn(len(c))
		c[i] = byte(r.next())
	case 7: // flip one bit in the first 8 body octets (withdrawn length, first NLRI, attribute length)
		if len(c) > 19 {
			i := 19 + r.intn(min(8, len(c)-19))
			c[i] ^= 1 << uint(r.intn(8))
		}
	case 8: // header length field
		if len(c) >= 19 {
			binary.BigEndian.PutUint16(c[16:18], uint16(int(binary.BigEndian.Uint16(c[16:18]))+r.pick(-1, 1, -19, 2)))
		}
	}
	return c
}

func vcAttrDecode(b []byte, opts []*MarshallingOption) (s string) {
	defer func() {
		if e := recover(); e != nil {
			s = "panic"
		}
	}()
	p, err := GetPathAttribute(b)
	if err != nil {
		return "reject"
	}
	if err := p.DecodeFromBytes(b, opts...); err != nil {
		return "reject"
	}
	return fmt.Sprintf("ok %s len=%d", vcRAttr(p), p.Len(opts...))
}

func vcInts(l []int) string {
	s := make([]string, len(l))
	for i, v := range l {
		s[i] = fmt.Sprint(v)
	}
	return strings.Join(s, ",")
}

func vcOneCase(o *vOut, r *vRand, op vcOpts, m *vcMsg) {
	opts := op.marshalling()
	d := m.desc()
	msg := m.build()
	o.stat("msg_"+m.stratum, 1)

	// --- enc: Len() per attribute (before serialising), octets per attribute, message octets, object afterwards
	var lens, emits []int
	var attrBytes [][]byte
	if u, ok := msg.Body.(*BGPUpdate); ok {
		for _, a := range u.PathAttributes {
			ab, err := a.Serialize(opts...)
			if err != nil {
				o.fail("attr-serialize-error", d)
			}
			lens = append(lens, a.Len(opts...))
			emits = append(emits, len(ab))
			attrBytes = append(attrBytes, ab)
			if _, known := PathAttrFlags[a.GetType()]; known {
				o.stat(fmt.Sprintf("attr_t%d", a.GetType()), 1)
			} else {
				o.stat("attr_unknown_type", 1)
			}
			if len(ab) > 258 {
				o.stat("attr_extended_length", 1)
			}
			// oracle: reported length == octets emitted
			if a.Len(opts...) != len(ab) {
				o.fail(fmt.Sprintf("len-ne-emit:attr-type-%d", a.GetType()), map[string]any{"desc": d, "len": a.Len(opts...), "emitted": len(ab)})
			}
		}
		for _, n := range append(append([]PathNLRI{}, u.WithdrawnRoutes...), u.NLRI...) {
			nb, _ := n.NLRI.Serialize(opts...)
			if n.NLRI.Len(opts...) != len(nb) {
				o.fail("len-ne-emit:ipv4-prefix", d)
			}
		}
	}
	b, err := msg.Serialize(opts...)
	var encAns string
	if err != nil {
		encAns = fmt.Sprintf("too-long L=%s E=%s", vcInts(lens), vcInts(emits))
		o.stat("enc_too_long", 1)
	} else {
		encAns = fmt.Sprintf("%s L=%s E=%s after=%s", vcHex(b), vcInts(lens), vcInts(emits), vcRMsg(msg))
		o.stat("enc_ok", 1)
		switch {
		case len(b) == 4096 || len(b) == 65535:
			o.stat("enc_at_cap", 1)
		case len(b) > 4096:
			o.stat("enc_extended_size", 1)
		}
	}
	o.ask(encAns, "enc %s", d)
	if len(o.samples) < 3 && !m.bigBytes {
		o.sample("enc " + d + " => " + encAns)
	}
	// oracle: the cap is exactly 4096 / 65535 per type
	if err == nil && len(b) > 4096 && !(op.ext && m.kind != 'K') {
		o.fail("cap-not-enforced", d)
	}
	if err != nil {
		// oracle: a message that fits under the cap for its type must serialise
		capLen := BGP_MAX_MESSAGE_LENGTH
		if op.ext && m.kind != 'K' {
			capLen = BGP_MAX_EXTENDED_MESSAGE_LENGTH
		}
		if bb, e2 := msg.Body.Serialize(opts...); e2 == nil && BGP_HEADER_LENGTH+len(bb) <= capLen {
			o.fail("cap-rejects-fitting-message", map[string]any{"desc": d[:min(len(d), 200)], "size": BGP_HEADER_LENGTH + len(bb), "cap": capLen})
		}
		return
	}

	// --- dec: the real parser on the real octets, rendered; the model must agree
	o.ask(vcParse(b, opts), "dec %s", vcHex(b))

	// --- oracle: round trip and fixpoint on the implementation alone
	if m.outsideWF {
		if _, err := ParseBGPMessage(b, opts...); err != nil {
			o.stat("outside_wf_rejected_by_parser", 1)
		} else {
			o.stat("outside_wf_accepted_by_parser", 1)
		}
	}
	if op.apRx == op.apTx && !m.outsideWF {
		p := vcTry(func() {
			m2, err := ParseBGPMessage(b, opts...)
			if err != nil {
				o.fail("roundtrip-reject", map[string]any{"desc": d, "err": err.Error(), "opts": fmt.Sprint(op)})
				return
			}
			b2, err := m2.Serialize(opts...)
			if err != nil || string(b2) != string(b) {
				o.fail("reserialise-differs", map[string]any{"desc": d, "opts": fmt.Sprint(op)})
				return
			}
			// msg has been through Serialize (caches filled); so has m2 now
			if !vcEq(msg, m2) {
				o.fail("roundtrip-object-differs", map[string]any{"desc": d, "opts": fmt.Sprint(op), "a": vcRMsg(msg), "b": vcRMsg(m2)})
			}
			m3, err := ParseBGPMessage(b2, opts...)
			if err != nil || !vcEq(m2, m3) {
				o.fail("parse-not-fixpoint", d)
			}
			if u, ok := m2.Body.(*BGPUpdate); ok {
				for i, a := range u.PathAttributes {
					if i < len(attrBytes) && a.Len(opts...) != len(attrBytes[i]) {
						o.fail(fmt.Sprintf("consumed-ne-emit:attr-type-%d", a.GetType()), d)
					}
				}
			}
		})
		if p != "" {
			o.fail("roundtrip-panic", map[string]any{"desc": d, "panic": p})
		}
		o.stat("oracle_roundtrips", 1)
	}

	// --- attr: each attribute decoded on its own, followed by junk: consumed == emitted
	if !m.bigBytes {
		for _, ab := range attrBytes {
			in := append(append([]byte{}, ab...), vcGenBytes(r, r.intn(4))...)
			ans := vcAttrDecode(in, opts)
			o.ask(ans, "attr %s", vcHex(in))
			if strings.HasPrefix(ans, "ok ") && !strings.HasSuffix(ans, fmt.Sprintf(" len=%d", len(ab))) {
				o.fail("consumed-ne-emit:attr", map[string]any{"desc": d, "bytes": vcHex(in)})
			}
			if r.chance(25) {
				mu := append([]byte{}, in...)
				i := r.intn(min(len(mu), 6))
				mu[i] += byte(r.pick(1, 255, 16, 0x40))
				if len(mu) >= 2 && !vcUnmodelledTypes[BGPAttrType(mu[1])] {
					o.ask(vcAttrDecode(mu, opts), "attr %s", vcHex(mu))
					o.stat("attr_mutants", 1)
				}
			}
		}
	}

	// --- dec on mutants: accept/reject and the parsed object must agree with the model
	nm := 3
	if m.bigBytes {
		nm = 1
	}
	for i := 0; i < nm; i++ {
		mu := vcMutate(r, b)
		if !vcModelled(mu, op) {
			o.stat("mutant_skipped_unmodelled", 1)
			continue
		}
		ans := vcParse(mu, opts)
		if ans == "reject" {
			o.stat("mutant_reject", 1)
		} else {
			o.stat("mutant_accept", 1)
		}
		o.ask(ans, "dec %s", vcHex(mu))
		// oracle: for an octet string the parser accepts (UPDATE; same ADD-PATH both ways),
		// serialise∘parse is a fixpoint: b1 = ser(parse(mu)) parses, and re-serialises to b1
		if ans != "reject" && ans != "panic" && len(mu) > 18 && mu[18] == BGP_MSG_UPDATE && op.apRx == op.apTx {
			if p := vcTry(func() {
				m1, _ := ParseBGPMessage(mu, opts...)
				b1, err := m1.Serialize(opts...)
				if err != nil {
					o.fail("accepted-bytes-not-serialisable", map[string]any{"bytes": vcHex(mu), "opts": fmt.Sprint(op)})
					return
				}
				m2, err := ParseBGPMessage(b1, opts...)
				if err != nil {
					o.fail("accepted-bytes-not-fixpoint", map[string]any{"bytes": vcHex(mu), "opts": fmt.Sprint(op), "err": err.Error()})
					return
				}
				b2, err := m2.Serialize(opts...)
				if err != nil || string(b2) != string(b1) {
					o.fail("accepted-bytes-not-fixpoint", map[string]any{"bytes": vcHex(mu), "opts": fmt.Sprint(op)})
				}
				o.stat("oracle_fixpoint_on_accepted_mutants", 1)
			}); p != "" {
				o.fail("accepted-bytes-panic", map[string]any{"bytes": vcHex(mu), "panic": p})
			}
		}
	}
}

func TestVerifC04(t *testing.T) {
	o := vOpen(t)
	defer o.close()
	r := &vRand{s: o.seed*7919 + 4}

	// the flag tables over their whole domain (behavioural regeneration of PathAttrFlags / validate)
	for ty := 0; ty < 256; ty++ {
		for _, l := range []int{0, 255, 256} {
			o.ask(fmt.Sprint(uint8(getPathAttrFlags(BGPAttrType(ty), l))), "gflags %d %d", ty, l)
		}
		for fl := 0; fl < 256; fl++ {
			if fl&0x0f != 0 && fl&0x0f != 1 && fl&0x0f != 0x0f {
				continue // low nibble: three representatives
			}
			ans := "0"
			if validatePathAttributeFlags(BGPAttrType(ty), BGPAttrFlag(fl)) == "" {
				ans = "1"
			}
			o.ask(ans, "vflags %d %d", ty, fl)
		}
	}

	n := 6000
	if o.thorough {
		n = 40000
	}
	var cur vcOpts
	first := true
	setOpts := func(op vcOpts) {
		if first || op != cur {
			o.op("opts %d %d %d %d", vcB(op.apRx), vcB(op.apTx), vcB(op.use2), vcB(op.ext))
			cur, first = op, false
		}
	}
	// deterministic corpus first: size caps under both settings
	for _, ext := range []bool{false, true} {
		for _, total := range []int{4096, 4097, 65535, 65536} {
			op := vcOpts{ext: ext}
			setOpts(op)
			vcOneCase(o, r, op, vcGenSized(r, op, total))
		}
		op := vcOpts{ext: ext}
		vcOneCase(o, r, op, &vcMsg{kind: 'N', stratum: "notification", data: vcGenBytes(r, 4075), bigBytes: true})
		vcOneCase(o, r, op, &vcMsg{kind: 'N', stratum: "notification", data: vcGenBytes(r, 4076), bigBytes: true})
		vcOneCase(o, r, op, &vcMsg{kind: 'K', stratum: "keepalive"})
	}
	// replay of the WF-boundary witnesses of Props/C04 (constructible, not well-formed): model and
	// implementation must still agree on octets and on what the parser says
	{
		op := vcOpts{apRx: true, apTx: true, ext: true}
		setOpts(op)
		vcOneCase(o, r, op, &vcMsg{kind: 'U', stratum: "outside-wf", outsideWF: true,
			attrs: []vcAttr{{kind: 'p', segs: []vcSeg{{w4: true, typ: 2, as: nil}}}}})
		vcOneCase(o, r, op, &vcMsg{kind: 'U', stratum: "outside-wf", outsideWF: true,
			attrs: []vcAttr{{kind: 'p', segs: []vcSeg{vcGenSeg(r, true, 256)}}}})
		op = vcOpts{use2: true}
		setOpts(op)
		vcOneCase(o, r, op, &vcMsg{kind: 'U', stratum: "outside-wf", outsideWF: true,
			attrs: []vcAttr{{kind: 'p', segs: []vcSeg{{w4: true, typ: 2, as: []uint32{65001}}}}}})
	}
	for i := 0; i < n; i++ {
		ap := r.chance(40)
		op := vcOpts{apRx: ap, apTx: ap, use2: r.chance(35), ext: r.chance(35)}
		if r.chance(8) { // asymmetric ADD-PATH: send and receive bits differ
			op.apRx = !op.apRx
		}
		setOpts(op)
		o.stat(fmt.Sprintf("opts_ap%d%d_as2%d_ext%d", vcB(op.apRx), vcB(op.apTx), vcB(op.use2), vcB(op.ext)), 1)
		vcOneCase(o, r, op, vcGenMsg(r, op))
	}

	vcHistoryOracle(o, r)
	vcCompositeHistory(o, r)
	vcFamilyOracle(o, r)
}

// ---------------------------------------------------------------- the all-families oracle (sampling, no model)


// vcLabelsAmbiguous: a label stack whose NON-bottom entry serialises to 0x000000 or 0x800000 — the two
// values MPLSLabelStack.DecodeFromBytes reads as "withdraw label" and stops at.
func vcLabelsAmbiguous(l MPLSLabelStack) bool {
	for i, v := range l.Labels {
		if i < len(l.Labels)-1 && (v == 0 || v == 0x80000) {
			return true
		}
	}
	return false
}

func vcNLRIRoot(n NLRI) string {
	switch x := n.(type) {
	case *LabeledIPAddrPrefix:
		if vcLabelsAmbiguous(x.Labels) {
			return "label-0-above-bottom-of-stack"
		}
	case *LabeledVPNIPAddrPrefix:
		if vcLabelsAmbiguous(x.Labels) {
			return "label-0-above-bottom-of-stack"
		}
		if 24*len(x.Labels.Labels)+64+x.Prefix.Bits() > 255 {
			return "labelled-vpn-length-overflow" // the one-octet bit length wraps silently
		}
	}
	return ""
}

// deterministic corpus: one witness per analysed defect (fixed on wt-C04 or listed as known finding);
// run before the generated cases in every round.
func vcCorpusNLRIs() []vC04NLRICase {
	var out []vC04NLRICase
	add := func(name string, f Family, n NLRI, err error) {
		if err == nil && n != nil {
			out = append(out, vC04NLRICase{name: name, family: f, nlri: n})
		}
	}
	p4 := netip.MustParsePrefix("10.1.2.0/24")
	p6 := netip.MustParsePrefix("2001:db8::1/128")
	rd := NewRouteDistinguisherTwoOctetAS(65000, 1)
	l0, e0 := NewLabeledIPAddrPrefix(p4, *NewMPLSLabelStack(0, 100))
	add("corpus/label0-above-bottom", RF_IPv4_MPLS, l0, e0)
	l1, e1 := NewLabeledVPNIPAddrPrefix(p6, *NewMPLSLabelStack(100, 200, 300), rd)
	add("corpus/vpnv6-3-labels-128", RF_IPv6_VPN, l1, e1)
	// an RD of a type the code does not know must come back with its six value octets
	lu, eu := NewLabeledVPNIPAddrPrefix(p4, *NewMPLSLabelStack(100), &RouteDistinguisherUnknown{
		DefaultRouteDistinguisher: DefaultRouteDistinguisher{Type: 9}, Value: []byte{1, 2, 3, 4, 5, 6}})
	add("corpus/vpnv4-unknown-rd-type", RF_IPv4_VPN, lu, eu)
	en, e2 := NewEncapNLRI(netip.MustParseAddr("192.0.2.1"))
	add("corpus/encap", RF_IPv4_ENCAP, en, e2)
	add("corpus/evpn-ipmsi", RF_EVPN, NewEVPNIPMSIRoute(rd, 7, NewTwoOctetAsSpecificExtended(EC_SUBTYPE_ROUTE_TARGET, 65000, 1, true)), nil)
	return out
}

func vcCorpusAttrs() []vC04AttrCase {
	var out []vC04AttrCase
	add := func(name string, a PathAttributeInterface, err error) {
		if err == nil && a != nil {
			out = append(out, vC04AttrCase{name: name, attr: a})
		}
	}
	p4, _ := NewIPAddrPrefix(netip.MustParsePrefix("10.1.2.0/24"))
	q4, _ := NewIPAddrPrefix(netip.MustParsePrefix("10.9.0.0/16"))
	mp, err := NewPathAttributeMpReachNLRI(RF_IPv4_UC, []PathNLRI{{NLRI: p4, ID: 1}, {NLRI: q4, ID: 2}}, netip.MustParseAddr("192.0.2.1"))
	add("mp_reach:corpus/ipv4-unicast-addpath", mp, err)
	e1, _ := NewEncapNLRI(netip.MustParseAddr("192.0.2.1"))
	e2, _ := NewEncapNLRI(netip.MustParseAddr("192.0.2.2"))
	mp, err = NewPathAttributeMpReachNLRI(RF_IPv4_ENCAP, []PathNLRI{{NLRI: e1}, {NLRI: e2}}, netip.MustParseAddr("192.0.2.9"))
	add("mp_reach:corpus/two-encap-nlri", mp, err)
	v6, _ := NewLabeledVPNIPAddrPrefix(netip.MustParsePrefix("2001:db8::/64"), *NewMPLSLabelStack(100), NewRouteDistinguisherTwoOctetAS(65000, 1))
	mp, err = NewPathAttributeMpReachNLRI(RF_IPv6_VPN, []PathNLRI{{NLRI: v6}}, netip.MustParseAddr("2001:db8::1"), netip.MustParseAddr("fe80::1"))
	add("mp_reach:corpus/vpnv6-linklocal-nexthop", mp, err)
	add("tunnel-encap:corpus/empty-subtlv", NewPathAttributeTunnelEncap([]*TunnelEncapTLV{NewTunnelEncapTLV(TUNNEL_TYPE_VXLAN, []TunnelEncapSubTLVInterface{NewTunnelEncapSubTLVUnknown(5, nil)})}), nil)
	add("tunnel-encap:corpus/color-len", NewPathAttributeTunnelEncap([]*TunnelEncapTLV{NewTunnelEncapTLV(TUNNEL_TYPE_VXLAN, []TunnelEncapSubTLVInterface{NewTunnelEncapSubTLVColor(7), NewTunnelEncapSubTLVUDPDestPort(4789)})}), nil)
	add("aigp:corpus/empty-tlv", NewPathAttributeAigp([]AigpTLVInterface{NewAigpTLVDefault(39, nil)}), nil)
	add("extcomm:corpus/multicast-flags", NewPathAttributeExtendedCommunities([]ExtendedCommunityInterface{NewMulticastFlagsExtended(false, false), NewMulticastFlagsExtended(true, true)}), nil)
	// a FlowSpec NLRI of more than 240 octets
	var items []*FlowSpecComponentItem
	for i := 0; i < 90; i++ {
		items = append(items, NewFlowSpecComponentItem(1, uint64(1000+i)))
	}
	fs, err := NewFlowSpecUnicast(RF_FS_IPv4_UC, []FlowSpecComponentInterface{NewFlowSpecComponent(FLOW_SPEC_TYPE_DST_PORT, items)})
	if err == nil {
		mp, err = NewPathAttributeMpReachNLRI(RF_FS_IPv4_UC, []PathNLRI{{NLRI: fs}})
		add("mp_reach:corpus/flowspec-long", mp, err)
	}
	return out
}

// vcAttrRoot names the already-analysed root cause an attribute case falls under ("" = none):
// every oracle failure of such a case is reported under that ONE class.
func vcAttrRoot(a PathAttributeInterface) string {
	var nl []PathNLRI
	switch x := a.(type) {
	case *PathAttributeMpReachNLRI:
		nl = x.Value
	case *PathAttributeMpUnreachNLRI:
		nl = x.Value
	case *PathAttributeAigp:
		for _, t := range x.Values {
			if d, ok := t.(*AigpTLVDefault); ok && len(d.Value) == 0 {
				return "aigp-empty-tlv"
			}
		}
	case *PathAttributeExtendedCommunities:
		for _, e := range x.Value {
			if m, ok := e.(*MulticastFlagsExtended); ok && m.IsIGMPProxy == m.IsMLDProxy {
				return "evpn-multicast-flags-extcomm"
			}
		}
	case *PathAttributeTunnelEncap:
		for _, t := range x.Value {
			if len(t.Value) == 0 {
				return "tunnel-encap-empty-tlv-dropped"
			}
			for _, st := range t.Value {
				if b, err := st.Serialize(); err == nil && len(b) <= 2 {
					return "tunnel-encap-empty-tlv-dropped"
				}
			}
		}
	}
	for _, n := range nl {
		if r := vcNLRIRoot(n.NLRI); r != "" {
			return r
		}
	}
	return ""
}

func vcIsOpaque(n NLRI) bool { _, ok := n.(*OpaqueNLRI); return ok }

func vcTypeName(x any) string { return strings.TrimPrefix(fmt.Sprintf("%T", x), "*bgp.") }

func vcFamOpts(f Family, ap, use2 bool) []*MarshallingOption {
	m := &MarshallingOption{Use2ByteAS: use2, ExtendedMessage: true}
	if ap {
		m.AddPath = map[Family]BGPAddPathMode{f: BGP_ADD_PATH_BOTH}
	}
	return []*MarshallingOption{m}
}

func vcFamilyOracle(o *vOut, r *vRand) {
	rounds := 3
	if o.thorough {
		rounds = 20
	}
	type key struct{ class, name string }
	seen := map[key]bool{}
	failOnce := func(class, name string, detail any) {
		k := key{class, ""}
		_ = name
		if seen[k] {
			return
		}
		seen[k] = true
		o.fail(class, detail)
	}
	mp := &vcMpCorr{o: o}
	vcEmptyOracle(o, r, mp)
	mp.last = ""
	for round := 0; round < rounds; round++ {
		nl := append(append(append(vcCorpusNLRIs(), vcBoundaryNLRIs()...), vcAddrNLRIs()...), vC04GenNLRIs(r)...)
		fams := map[Family]bool{}
		for _, c := range nl {
			c := c
			fams[c.family] = true
			tn := vcTypeName(c.nlri)
			root := vcNLRIRoot(c.nlri)
			cls := func(kind string) string {
				if root != "" {
					return "fam:" + root
				}
				return "fam-" + kind + ":nlri:" + tn
			}
			for _, ap := range []bool{false, true} {
				opts := vcFamOpts(c.family, ap, false)
				p := vcTry(func() {
					b, err := c.nlri.Serialize(opts...)
					if strings.HasSuffix(c.name, "/over-max") { // built one octet beyond the codec's maximum
						if err == nil {
							failOnce(cls("oversize-accepted"), "", map[string]any{"name": c.name, "family": c.family.String(), "emitted": len(b)})
						}
						o.stat("fam_bnd_over_max_refused", 1)
						return
					}
					if strings.HasPrefix(c.name, "bnd/") {
						o.stat("fam_bnd_nlri", 1)
					}
					if strings.HasPrefix(c.name, "addr/") {
						o.stat("fam_addr_nlri", 1)
					}
					if err == nil {
						mp.nlriAsks(r, c.family, ap, opts, c.nlri) // the model answers for its families
					}
					if err != nil {
						o.stat("fam_nlri_serialize_error:"+c.family.String(), 1)
						failOnce(cls("serialize-error"), "", map[string]any{"name": c.name, "family": c.family.String(), "err": err.Error()})
						return
					}
					o.stat("fam_nlri:"+c.family.String(), 1)
					if c.nlri.Len(opts...) != len(b) {
						failOnce(cls("len-ne-emit"), "", map[string]any{"name": c.name, "family": c.family.String(), "len": c.nlri.Len(opts...), "emitted": len(b), "bytes": vcHex(b)})
					}
					in := append([]byte{}, b...)
					if !vcIsOpaque(c.nlri) { // the opaque NLRI has no framing of its own: it runs to the end of the attribute
						in = append(in, vcGenBytes(r, r.intn(3))...)
					}
					n2, err := NLRIFromSlice(c.family, in, opts...)
					if err != nil {
						failOnce(cls("roundtrip-reject"), "", map[string]any{"name": c.name, "family": c.family.String(), "bytes": vcHex(b), "err": err.Error()})
						return
					}
					if n2.Len(opts...) != len(b) {
						failOnce(cls("consumed-ne-emit"), "", map[string]any{"name": c.name, "family": c.family.String(), "bytes": vcHex(in), "consumed": n2.Len(opts...), "emitted": len(b)})
					}
					b2, err := n2.Serialize(opts...)
					if err != nil || string(b2) != string(b) {
						failOnce(cls("reserialise-differs"), "", map[string]any{"name": c.name, "family": c.family.String(), "bytes": vcHex(b), "again": vcHex(b2)})
					}
					if !vcEq(c.nlri, n2) {
						o.stat("fam_deq_diff:nlri:"+tn, 1)
					}
				})
				if p != "" {
					failOnce(cls("panic"), "", map[string]any{"name": c.name, "family": c.family.String(), "panic": p})
				}
			}
		}
		o.stats["fam_families_covered_last_round"] = len(fams)

		attrCases := append(append(vcCorpusAttrs(), vcBoundaryAttrs()...), vcPairAttrs(r, nl)...)
		attrCases = append(attrCases, vcAddrAttrs()...)
		attrCases = append(attrCases, vcEmptyAttrs()...)
		attrCases = append(attrCases, vC04GenAttrs(r)...)
		for _, c := range attrCases {
			c := c
			var fam Family
			vpnLL := false
			nNlri := 0
			switch a := c.attr.(type) {
			case *PathAttributeMpReachNLRI:
				fam = NewFamily(a.AFI, a.SAFI)
				vpnLL = a.SAFI == SAFI_MPLS_VPN && a.LinkLocalNexthop.IsValid()
				nNlri = len(a.Value)
			case *PathAttributeMpUnreachNLRI:
				fam = NewFamily(a.AFI, a.SAFI)
				nNlri = len(a.Value)
			}
			kind := strings.SplitN(c.name, ":", 2)[0]
			root := vcAttrRoot(c.attr)
			for _, ap := range []bool{false, true} {
				if ap && fam == 0 {
					continue
				}
				for _, use2 := range []bool{false, true} {
					opts := vcFamOpts(fam, ap, use2)
					tag := fmt.Sprintf("t%d", c.attr.GetType())
					cls := func(k string) string {
						if root != "" {
							return "fam:" + root
						}
						return "fam-" + k + ":attr:" + tag
					}
					det := func(extra map[string]any) map[string]any {
						extra["name"] = c.name
						extra["family"] = fam.String()
						extra["addpath"] = ap
						extra["use2"] = use2
						return extra
					}
					p := vcTry(func() {
						b, err := c.attr.Serialize(opts...)
						if err != nil {
							o.stat("fam_attr_serialize_error:"+kind, 1)
							if c.attr.GetType() == BGP_ATTR_TYPE_LS {
								// NewLsTLV* constructors that leave Length 0 ("LS TLV malformed")
								failOnce("fam:ls-tlv-constructor-not-serialisable", "", det(map[string]any{"err": err.Error()}))
							} else {
								failOnce(cls("serialize-error"), "", det(map[string]any{"err": err.Error()}))
							}
							return
						}
						o.stat("fam_attr:"+kind, 1)
						if fam != 0 && !use2 {
							mp.attrAsks(r, fam, ap, use2, opts, c.attr) // the model answers for its families
						}
						if c.attr.Len(opts...) != len(b) {
							switch {
							case root != "":
								failOnce("fam:"+root, "", det(map[string]any{"len": c.attr.Len(opts...), "emitted": len(b), "bytes": vcHex(b)}))
							case fam != 0 && ap && (c.attr.Len(opts...)+4*nNlri == len(b) || c.attr.Len(opts...)+4*nNlri+1 == len(b)): // +1: the ids push the value past 255, extended header
								// cached Length was computed by the constructor without the 4-octet path ids
								failOnce("fam:mp-attr-len-ignores-addpath", "", det(map[string]any{"len": c.attr.Len(opts...), "emitted": len(b), "bytes": vcHex(b)}))
							case vpnLL && c.attr.Len(opts...)+8 == len(b):
								failOnce("fam:mp-reach-vpn-linklocal-nexthop-len", "", det(map[string]any{"len": c.attr.Len(opts...), "emitted": len(b), "bytes": vcHex(b)}))
							default:
								failOnce(cls("len-ne-emit"), "", det(map[string]any{"len": c.attr.Len(opts...), "emitted": len(b), "bytes": vcHex(b)}))
							}
						}
						in := append(append([]byte{}, b...), vcGenBytes(r, r.intn(3))...)
						p2, err := GetPathAttribute(in)
						if err == nil {
							err = p2.DecodeFromBytes(in, opts...)
						}
						if err != nil {
							failOnce(cls("roundtrip-reject"), "", det(map[string]any{"bytes": vcHex(b), "err": err.Error()}))
							return
						}
						if p2.Len(opts...) != len(b) {
							failOnce(cls("consumed-ne-emit"), "", det(map[string]any{"bytes": vcHex(in)}))
						}
						b2, err := p2.Serialize(opts...)
						if err != nil || string(b2) != string(b) {
							failOnce(cls("reserialise-differs"), "", det(map[string]any{"bytes": vcHex(b), "again": vcHex(b2)}))
						}
						if !vcEq(c.attr, p2) {
							o.stat("fam_deq_diff:attr:"+kind, 1)
						}
						// framing of the NLRI list: same number of NLRIs, each the same octets
						if want, isMp := vcMpNLRIs(c.attr); isMp && fam != RF_OPAQUE { // the opaque NLRI runs to the end of the attribute: one per attribute by design
							got, _ := vcMpNLRIs(p2)
							bad := len(got) != len(want)
							for i := 0; !bad && i < len(want); i++ {
								wb, e1 := want[i].NLRI.Serialize(opts...)
								gb, e2 := got[i].NLRI.Serialize(opts...)
								bad = e1 != nil || e2 != nil || string(wb) != string(gb) || (ap && want[i].ID != got[i].ID)
							}
							if bad {
								failOnce(cls("nlri-misframed"), "", det(map[string]any{"bytes": vcHex(b), "want_nlris": len(want), "got_nlris": len(got)}))
							}
							if strings.Contains(c.name, ":pair/") {
								o.stat("fam_pair_framing_checked", 1)
							}
						}
						if strings.Contains(c.name, ":addr/") {
							o.stat("fam_addr_attr", 1)
						}
						if strings.Contains(c.name, ":bnd/") {
							o.stat("fam_bnd_attr", 1)
							if len(b) > 258 {
								o.stat("fam_bnd_attr_extended_length", 1)
							}
						}
						// inside a whole UPDATE
						msg := NewBGPUpdateMessage(nil, []PathAttributeInterface{c.attr}, nil)
						mb, err := msg.Serialize(opts...)
						if err != nil {
							o.stat("fam_update_serialize_error:"+kind, 1)
							return
						}
						m2, err := ParseBGPMessage(mb, opts...)
						if err != nil {
							failOnce(cls("roundtrip-reject-update"), "", det(map[string]any{"bytes": vcHex(mb), "err": err.Error()}))
							return
						}
						mb2, err := m2.Serialize(opts...)
						if err != nil || string(mb2) != string(mb) {
							failOnce(cls("reserialise-differs-update"), "", det(map[string]any{"bytes": vcHex(mb)}))
						}
					})
					if p != "" {
						failOnce(cls("panic"), "", det(map[string]any{"panic": p}))
					}
				}
			}
		}

		caps := append(append(vcBoundaryCaps(), vcEmptyCaps()...), vC04GenCaps(r)...)
		for _, c := range caps {
			c := c
			tag := fmt.Sprintf("cap%d", c.Code())
			p := vcTry(func() {
				b, err := c.Serialize()
				if err != nil {
					o.stat("fam_cap_serialize_error:"+tag, 1)
					return
				}
				o.stat("fam_cap", 1)
				if c.Len() != len(b) {
					failOnce("fam-len-ne-emit:"+tag, "", map[string]any{"len": c.Len(), "bytes": vcHex(b)})
				}
				in := append(append([]byte{}, b...), vcGenBytes(r, r.intn(3))...)
				c2, err := DecodeCapability(in)
				if err != nil {
					failOnce("fam-roundtrip-reject:"+tag, "", map[string]any{"bytes": vcHex(b), "err": err.Error()})
					return
				}
				if c2.Len() != len(b) {
					failOnce("fam-consumed-ne-emit:"+tag, "", map[string]any{"bytes": vcHex(in)})
				}
				b2, err := c2.Serialize()
				if err != nil || string(b2) != string(b) {
					failOnce("fam-reserialise-differs:"+tag, "", map[string]any{"bytes": vcHex(b), "again": vcHex(b2)})
				}
			})
			if p != "" {
				failOnce("fam-panic:"+tag, "", map[string]any{"panic": p})
			}
		}
		// OPEN with a random subset of the capabilities, in one or several optional parameters
		for k := 0; k < 8; k++ {
			var params []OptionParameterInterface
			pm := r.perm(len(caps))
			take := r.intn(min(len(caps), 7) + 1)
			var cur []ParameterCapabilityInterface
			total := 0
			for _, j := range pm[:take] {
				cb, _ := caps[j].Serialize()
				if total+len(cb)+2 > 200 {
					continue
				}
				total += len(cb)
				cur = append(cur, caps[j])
				if r.chance(30) {
					params = append(params, NewOptionParameterCapability(cur))
					cur = nil
					total += 2
				}
			}
			if len(cur) > 0 {
				params = append(params, NewOptionParameterCapability(cur))
			}
			msg, err := NewBGPOpenMessage(uint16(r.intn(65536)), uint16(r.intn(65536)), vcAddr4(r.u32()), params)
			if err != nil {
				continue
			}
			p := vcTry(func() {
				b, err := msg.Serialize()
				if err != nil {
					o.stat("fam_open_serialize_error", 1)
					return
				}
				o.stat("fam_open", 1)
				m2, err := ParseBGPMessage(b)
				if err != nil {
					failOnce("fam-roundtrip-reject:open", "", map[string]any{"bytes": vcHex(b), "err": err.Error()})
					return
				}
				b2, err := m2.Serialize()
				if err != nil || string(b2) != string(b) {
					failOnce("fam-reserialise-differs:open", "", map[string]any{"bytes": vcHex(b), "again": vcHex(b2)})
				}
				if !vcEq(msg, m2) {
					o.stat("fam_deq_diff:open", 1)
				}
			})
			if p != "" {
				failOnce("fam-panic:open", "", map[string]any{"panic": p})
			}
		}
	}
	keys := make([]string, 0)
	for k := range o.stats {
		if strings.HasPrefix(k, "fam_deq_diff") {
			keys = append(keys, k)
		}
	}
	sort.Strings(keys)
}
