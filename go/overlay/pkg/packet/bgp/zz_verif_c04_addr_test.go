//go:build verif

// C04 — the "awkward address" stratum of the all-families oracle.  Every address- or prefix-bearing
// NLRI, next hop and attribute is BUILT BY ITS CONSTRUCTOR (so that cached lengths / length octets
// come from the library's own Len() arithmetic, not from the wire) with each address class that
// v4/v6 discrimination code tends to get wrong: IPv4-mapped IPv6 (::ffff:a.b.c.d, also the mapped
// link-local ::ffff:169.254.x.y), IPv4-compatible (::a.b.c.d), unspecified (0.0.0.0, ::), loopback,
// link-local, multicast, all-ones, and the maximum / zero / mapped-range prefix lengths.
// The cases run through the same oracle as every other case: Len() == len(Serialize()) on the built
// value, decode consumes Len(), re-serialisation, whole-UPDATE round trip, and the pair framing
// (first of two NLRIs in MP_REACH and MP_UNREACH).
package bgp

import (
	"fmt"
	"net/netip"
)

type vcNamedAddr struct {
	name string
	a    netip.Addr
}

func vcAddrs4() []vcNamedAddr {
	return []vcNamedAddr{
		{"unspec4", netip.MustParseAddr("0.0.0.0")}, {"ones4", netip.MustParseAddr("255.255.255.255")},
		{"ll4", netip.MustParseAddr("169.254.1.1")}, {"loop4", netip.MustParseAddr("127.0.0.1")},
		{"mc4", netip.MustParseAddr("224.0.0.1")}, {"plain4", netip.MustParseAddr("10.1.2.3")},
	}
}

func vcAddrs6() []vcNamedAddr {
	return []vcNamedAddr{
		{"unspec6", netip.MustParseAddr("::")}, {"mapped", netip.MustParseAddr("::ffff:10.1.2.3")},
		{"mapped-ll", netip.MustParseAddr("::ffff:169.254.1.1")}, {"mapped-unspec", netip.MustParseAddr("::ffff:0.0.0.0")},
		{"compat", netip.MustParseAddr("::10.1.2.3")}, {"ll6", netip.MustParseAddr("fe80::1")},
		{"loop6", netip.MustParseAddr("::1")}, {"mc6", netip.MustParseAddr("ff02::1")},
		{"ones6", netip.MustParseAddr("ffff:ffff:ffff:ffff:ffff:ffff:ffff:ffff")}, {"plain6", netip.MustParseAddr("2001:db8::1")},
	}
}

func vcAddrsAll() []vcNamedAddr { return append(vcAddrs4(), vcAddrs6()...) }

// prefix lengths worth trying for an address: zero, maximum, and for 16-octet addresses the
// boundaries of the IPv4-mapped range
func vcPlens(a netip.Addr) []int {
	if a.Is4() {
		return []int{0, 8, 31, 32}
	}
	return []int{0, 96, 104, 120, 127, 128}
}

func vcAddrNLRIs() []vC04NLRICase {
	var out []vC04NLRICase
	add := func(name string, f Family, mk func() (NLRI, error)) {
		vcTry(func() {
			n, err := mk()
			if err == nil && n != nil && !vC04IsNil(n) {
				out = append(out, vC04NLRICase{name: "addr/" + name, family: f, nlri: n})
			}
		})
	}
	rd := NewRouteDistinguisherTwoOctetAS(65000, 1)
	esi := EthernetSegmentIdentifier{}
	for _, na := range vcAddrsAll() {
		na := na
		a := na.a
		v6 := !a.Is4()
		uc, mc, mpls, vpn, encap := RF_IPv4_UC, RF_IPv4_MC, RF_IPv4_MPLS, RF_IPv4_VPN, RF_IPv4_ENCAP
		fs, fsvpn, mup, srp := RF_FS_IPv4_UC, RF_FS_IPv4_VPN, RF_MUP_IPv4, RF_SR_POLICY_IPv4
		if v6 {
			uc, mc, mpls, vpn, encap = RF_IPv6_UC, RF_IPv6_MC, RF_IPv6_MPLS, RF_IPv6_VPN, RF_IPv6_ENCAP
			fs, fsvpn, mup, srp = RF_FS_IPv6_UC, RF_FS_IPv6_VPN, RF_MUP_IPv6, RF_SR_POLICY_IPv6
		}
		for _, pl := range vcPlens(a) {
			pl := pl
			p, err := a.Prefix(pl)
			if err != nil {
				continue
			}
			tag := fmt.Sprintf("%s/%d", na.name, pl)
			add("prefix/"+tag, uc, func() (NLRI, error) { return NewIPAddrPrefix(p) })
			add("mc/"+tag, mc, func() (NLRI, error) { return NewIPAddrPrefix(p) })
			add("labelled/"+tag, mpls, func() (NLRI, error) { return NewLabeledIPAddrPrefix(p, *NewMPLSLabelStack(100)) })
			add("vpn/"+tag, vpn, func() (NLRI, error) { return NewLabeledVPNIPAddrPrefix(p, *NewMPLSLabelStack(100, 200), rd) })
			// EVPN type 5: prefix and gateway of the same class, and an unspecified gateway
			add("evpn5/"+tag, RF_EVPN, func() (NLRI, error) {
				return NewEVPNIPPrefixRoute(rd, esi, 7, uint8(pl), p.Addr(), a, 1048575)
			})
			add("evpn5-gw0/"+tag, RF_EVPN, func() (NLRI, error) {
				gw := netip.IPv4Unspecified()
				if v6 {
					gw = netip.IPv6Unspecified()
				}
				return NewEVPNIPPrefixRoute(rd, esi, 7, uint8(pl), p.Addr(), gw, 16)
			})
			add("mup-isd/"+tag, mup, func() (NLRI, error) { return NewMUPInterworkSegmentDiscoveryRoute(rd, p), nil })
			add("mup-t1st/"+tag, mup, func() (NLRI, error) {
				return NewMUPType1SessionTransformedRoute(rd, p, netip.MustParseAddr("0.0.0.100"), 9, a, nil), nil
			})
			add("mup-t1st-sa/"+tag, mup, func() (NLRI, error) {
				sa := a
				return NewMUPType1SessionTransformedRoute(rd, p, netip.MustParseAddr("0.0.0.100"), 9, a, &sa), nil
			})
			add("flowspec-dst/"+tag, fs, func() (NLRI, error) {
				ip, err := NewIPAddrPrefix(p)
				if err != nil {
					return nil, err
				}
				if v6 {
					return NewFlowSpecUnicast(fs, []FlowSpecComponentInterface{NewFlowSpecDestinationPrefix6(ip, 0), NewFlowSpecSourcePrefix6(ip, 0)})
				}
				return NewFlowSpecUnicast(fs, []FlowSpecComponentInterface{NewFlowSpecDestinationPrefix(ip), NewFlowSpecSourcePrefix(ip)})
			})
			add("flowspec-vpn-dst/"+tag, fsvpn, func() (NLRI, error) {
				ip, err := NewIPAddrPrefix(p)
				if err != nil {
					return nil, err
				}
				if v6 {
					return NewFlowSpecVPN(fsvpn, rd, []FlowSpecComponentInterface{NewFlowSpecDestinationPrefix6(ip, 0)})
				}
				return NewFlowSpecVPN(fsvpn, rd, []FlowSpecComponentInterface{NewFlowSpecDestinationPrefix(ip)})
			})
		}
		// whole addresses
		add("evpn2/"+na.name, RF_EVPN, func() (NLRI, error) {
			return NewEVPNMacIPAdvertisementRoute(rd, esi, 7, "02:00:00:00:00:01", a, []uint32{100, 200})
		})
		add("evpn3/"+na.name, RF_EVPN, func() (NLRI, error) { return NewEVPNMulticastEthernetTagRoute(rd, 7, a) })
		add("evpn4/"+na.name, RF_EVPN, func() (NLRI, error) { return NewEVPNEthernetSegmentRoute(rd, esi, a) })
		add("encap/"+na.name, encap, func() (NLRI, error) { return NewEncapNLRI(a) })
		add("mup-dsd/"+na.name, mup, func() (NLRI, error) { return NewMUPDirectSegmentDiscoveryRoute(rd, a), nil })
		add("mup-t2st/"+na.name, mup, func() (NLRI, error) {
			return NewMUPType2SessionTransformedRoute(rd, uint8(a.BitLen()+32), a, netip.MustParseAddr("0.0.0.100")), nil
		})
		add("srpolicy/"+na.name, srp, func() (NLRI, error) { return NewSRPolicy(srp, uint32(a.BitLen()+64), 1, 2, a.AsSlice()) })
		if a.Is4() {
			add("vpn-rd-ip/"+na.name, RF_IPv4_VPN, func() (NLRI, error) {
				r1, err := NewRouteDistinguisherIPAddressAS(a, 65535)
				if err != nil {
					return nil, err
				}
				return NewLabeledVPNIPAddrPrefix(netip.MustParsePrefix("10.0.0.0/8"), *NewMPLSLabelStack(100), r1)
			})
			add("rtc-ip/"+na.name, RF_RTC_UC, func() (NLRI, error) {
				rt, err := NewIPv4AddressSpecificExtended(EC_SUBTYPE_ROUTE_TARGET, a, 7, true)
				if err != nil {
					return nil, err
				}
				return NewRouteTargetMembershipNLRI(65000, rt), nil
			})
		}
	}
	return out
}

func vcAddrAttrs() []vC04AttrCase {
	var out []vC04AttrCase
	add := func(name string, mk func() (PathAttributeInterface, error)) {
		vcTry(func() {
			a, err := mk()
			if err == nil && a != nil && !vC04IsNil(a) {
				out = append(out, vC04AttrCase{name: name, attr: a})
			}
		})
	}
	p4, _ := NewIPAddrPrefix(netip.MustParsePrefix("10.1.2.0/24"))
	p6, _ := NewIPAddrPrefix(netip.MustParsePrefix("2001:db8::/32"))
	rd := NewRouteDistinguisherTwoOctetAS(65000, 1)
	v4vpn, _ := NewLabeledVPNIPAddrPrefix(netip.MustParsePrefix("10.1.2.0/24"), *NewMPLSLabelStack(100), rd)
	v6vpn, _ := NewLabeledVPNIPAddrPrefix(netip.MustParsePrefix("2001:db8::/32"), *NewMPLSLabelStack(100), rd)
	l4, _ := NewLabeledIPAddrPrefix(netip.MustParsePrefix("10.1.2.0/24"), *NewMPLSLabelStack(100))
	ev, _ := NewEVPNMulticastEthernetTagRoute(rd, 7, netip.MustParseAddr("192.0.2.1"))
	type famN struct {
		f Family
		n NLRI
	}
	fams := []famN{{RF_IPv4_UC, p4}, {RF_IPv6_UC, p6}, {RF_IPv4_VPN, v4vpn}, {RF_IPv6_VPN, v6vpn}, {RF_IPv4_MPLS, l4}, {RF_EVPN, ev}}
	lls := []vcNamedAddr{{"none", netip.Addr{}}, {"ll6", netip.MustParseAddr("fe80::1")}, {"mapped-ll", netip.MustParseAddr("::ffff:169.254.1.1")},
		{"ll4", netip.MustParseAddr("169.254.1.1")}, {"not-ll", netip.MustParseAddr("2001:db8::2")}}
	for _, fn := range fams {
		fn := fn
		if fn.n == nil || vC04IsNil(fn.n) {
			continue
		}
		for _, nh := range vcAddrsAll() {
			nh := nh
			for _, ll := range lls {
				ll := ll
				if nh.a.Is4() && ll.name != "none" && ll.name != "ll6" {
					continue
				}
				add(fmt.Sprintf("mp_reach:addr/%s/nh-%s/ll-%s", fn.f, nh.name, ll.name), func() (PathAttributeInterface, error) {
					nhs := []netip.Addr{nh.a}
					if ll.a.IsValid() {
						nhs = append(nhs, ll.a)
					}
					return NewPathAttributeMpReachNLRI(fn.f, []PathNLRI{{NLRI: fn.n}, {NLRI: fn.n}}, nhs...)
				})
			}
		}
	}
	for _, na := range vcAddrsAll() {
		na := na
		a := na.a
		add("nexthop:addr/"+na.name, func() (PathAttributeInterface, error) { return NewPathAttributeNextHop(a) })
		add("aggregator:addr/"+na.name, func() (PathAttributeInterface, error) { return NewPathAttributeAggregator(uint32(4200000000), a) })
		add("aggregator2:addr/"+na.name, func() (PathAttributeInterface, error) { return NewPathAttributeAggregator(uint16(65000), a) })
		add("as4aggregator:addr/"+na.name, func() (PathAttributeInterface, error) { return NewPathAttributeAs4Aggregator(4200000000, a) })
		add("originator:addr/"+na.name, func() (PathAttributeInterface, error) { return NewPathAttributeOriginatorId(a) })
		add("clusterlist:addr/"+na.name, func() (PathAttributeInterface, error) {
			return NewPathAttributeClusterList([]netip.Addr{a, netip.MustParseAddr("0.0.0.0"), a})
		})
		add("extcomm:addr/ipv4-specific/"+na.name, func() (PathAttributeInterface, error) {
			e, err := NewIPv4AddressSpecificExtended(EC_SUBTYPE_ROUTE_TARGET, a, 7, true)
			if err != nil {
				return nil, err
			}
			return NewPathAttributeExtendedCommunities([]ExtendedCommunityInterface{e}), nil
		})
		add("extcomm:addr/redirect-ipv4/"+na.name, func() (PathAttributeInterface, error) {
			e, err := NewRedirectIPv4AddressSpecificExtended(a, 7)
			if err != nil {
				return nil, err
			}
			return NewPathAttributeExtendedCommunities([]ExtendedCommunityInterface{e}), nil
		})
		add("extcomm:addr/mup-ipv4/"+na.name, func() (PathAttributeInterface, error) {
			e, err := NewMUPIPv4AddressSpecificExtended(EC_SUBTYPE_MUP_DIRECT_SEG, a, 7)
			if err != nil {
				return nil, err
			}
			return NewPathAttributeExtendedCommunities([]ExtendedCommunityInterface{e}), nil
		})
		add("ip6extcomm:addr/ipv6-specific/"+na.name, func() (PathAttributeInterface, error) {
			e, err := NewIPv6AddressSpecificExtended(EC_SUBTYPE_ROUTE_TARGET, a, 7, true)
			if err != nil {
				return nil, err
			}
			return NewPathAttributeIP6ExtendedCommunities([]ExtendedCommunityInterface{e}), nil
		})
		add("ip6extcomm:addr/redirect-ipv6/"+na.name, func() (PathAttributeInterface, error) {
			e, err := NewRedirectIPv6AddressSpecificExtended(a, 7)
			if err != nil {
				return nil, err
			}
			return NewPathAttributeIP6ExtendedCommunities([]ExtendedCommunityInterface{e}), nil
		})
		add("tunnel-encap:addr/egress-endpoint/"+na.name, func() (PathAttributeInterface, error) {
			e, err := NewTunnelEncapSubTLVEgressEndpoint(a)
			if err != nil {
				return nil, err
			}
			return NewPathAttributeTunnelEncap([]*TunnelEncapTLV{NewTunnelEncapTLV(TUNNEL_TYPE_VXLAN, []TunnelEncapSubTLVInterface{e, NewTunnelEncapSubTLVColor(7)})}), nil
		})
		add("pmsi:addr/ingress-repl/"+na.name, func() (PathAttributeInterface, error) {
			id, err := NewIngressReplTunnelID(a)
			if err != nil {
				return nil, err
			}
			return NewPathAttributePmsiTunnel(PMSI_TUNNEL_TYPE_INGRESS_REPL, false, 100, id), nil
		})
		add("prefix-sid:addr/srv6-sid/"+na.name, func() (PathAttributeInterface, error) {
			return NewPathAttributePrefixSID(NewSRv6ServiceTLV(TLVTypeSRv6L3Service, NewSRv6InformationSubTLV(a, END_DT4))), nil
		})
		add("ls:addr/router-id/"+na.name, func() (PathAttributeInterface, error) {
			x := a
			if a.Is4() {
				return vC04LsAttr(&LsAttribute{Node: LsAttributeNode{LocalRouterID: &x}, Link: LsAttributeLink{LocalRouterID: &x, RemoteRouterID: &x}})
			}
			return vC04LsAttr(&LsAttribute{Node: LsAttributeNode{LocalRouterIDv6: &x}})
		})
	}
	return out
}
