//go:build verif

package bgp

// C06 harness, level (a): the real BGPUpdate.DecodeFromBytes + ValidateUpdateMsg on generated
// UPDATE bodies (valid base x injected faults x positions x up to two faults x peer type),
// compared line by line with the Lean model (Model/UpdateWire + Model/ErrHandling), plus the
// exhaustive tables getErrorHandlingFromPathAttribute (256) and validatePathAttributeFlags (65536).
// Oracles (no model): a well-formed UPDATE decodes and validates without error; after a
// treat-as-withdraw class decode error every NLRI of the message is still reported (so that it can
// be withdrawn); no attribute that the harness made malformed survives a discard-class decode.

import (
	"encoding/hex"
	"fmt"
	"strings"
	"testing"
)

func c06ErrString(err error) string {
	if err == nil {
		return "none"
	}
	e, ok := err.(*MessageError)
	if !ok {
		return "other"
	}
	return fmt.Sprintf("%d/%d/%d", e.TypeCode, e.SubTypeCode, int(e.ErrorHandling))
}

func c06Class(err error) int {
	if err == nil {
		return 0
	}
	if e, ok := err.(*MessageError); ok {
		return int(e.ErrorHandling)
	}
	return 4
}

func c06AttrString(l []PathAttributeInterface) string {
	if len(l) == 0 {
		return "-"
	}
	s := make([]string, len(l))
	for i, a := range l {
		s[i] = fmt.Sprintf("%d:%d", a.GetType(), a.GetFlags())
	}
	return strings.Join(s, ",")
}

func c06B(b bool) int {
	if b {
		return 1
	}
	return 0
}

// one message through decode (+ validate), asks + oracles
func c06Run(o *vOut, r *vRand, m *c06Msg, v6 bool, loopOk bool) {
	body := m.body()
	hx := m.hex()
	msg := &BGPUpdate{}
	var derr error
	panicked := func() (p bool) {
		defer func() {
			if e := recover(); e != nil {
				p = true
			}
		}()
		opt := &MarshallingOption{Use2ByteAS: m.use2}
		if m.ap4 || m.ap6 {
			opt.AddPath = map[Family]BGPAddPathMode{}
			if m.ap4 {
				opt.AddPath[RF_IPv4_UC] = BGP_ADD_PATH_RECEIVE
			}
			if m.ap6 {
				opt.AddPath[RF_IPv6_UC] = BGP_ADD_PATH_RECEIVE
			}
		}
		derr = msg.DecodeFromBytes(body, opt)
		return false
	}()
	// the protocol line: `<use2> <hex>`, or `<use2> <ap4> <ap6> <hex>` for an ADD-PATH session
	arg := fmt.Sprintf("%d %s", c06B(m.use2), hx)
	if m.ap4 || m.ap6 {
		arg = fmt.Sprintf("%d %d %d %s", c06B(m.use2), c06B(m.ap4), c06B(m.ap6), hx)
		o.stat("addpath_messages", 1)
	}
	if panicked {
		o.ask("panic", "dec %s", arg)
		o.fail("decode-panic", map[string]any{"body": hx, "faults": m.faultNames()})
		return
	}
	cls := c06Class(derr)
	o.stat(fmt.Sprintf("decode_class_%d", cls), 1)
	if cls == 4 {
		o.ask("err="+c06ErrString(derr), "dec %s", arg)
	} else {
		line := fmt.Sprintf("err=%s attrs=%s wd=%d nlri=%d", c06ErrString(derr), c06AttrString(msg.PathAttributes), len(msg.WithdrawnRoutes), len(msg.NLRI))
		if m.ap4 || m.ap6 {
			ids := func(l []PathNLRI) string {
				if len(l) == 0 {
					return "-"
				}
				s := make([]string, len(l))
				for i, p := range l {
					s[i] = fmt.Sprint(p.ID)
				}
				return strings.Join(s, ".")
			}
			line += fmt.Sprintf(" nid=%s wid=%s", ids(msg.NLRI), ids(msg.WithdrawnRoutes))
		}
		o.ask(line, "dec %s", arg)
	}

	// ---- oracles on the decoder alone
	if len(m.faults) == 0 && derr != nil {
		o.fail("wellformed-penalised:decode", map[string]any{"body": hx, "err": derr.Error()})
	}
	if cls == 2 && !m.framing {
		if len(msg.NLRI) != len(m.nlri) {
			o.fail("treat-as-withdraw-loses-nlri", map[string]any{"body": hx, "faults": m.faultNames(), "nlri_sent": len(m.nlri), "nlri_reported": len(msg.NLRI)})
		}
	}
	if cls < 4 && !m.framing {
		// attribute discard removes the malformed attribute ONLY: every attribute the harness left
		// intact (also those that follow a discarded one) must still be in msg.PathAttributes
		got := map[byte]int{}
		for _, p := range msg.PathAttributes {
			got[byte(p.GetType())]++
		}
		want := map[byte]int{}
		for i := range m.attrs {
			if m.attrs[i].tag == "" {
				want[m.attrs[i].typ]++
			}
		}
		for t, n := range want {
			if got[t] < n {
				o.fail("wellformed-attribute-dropped-by-decoder", map[string]any{"body": hx, "faults": m.faultNames(), "type": t, "use2": m.use2})
			}
		}
	}
	if cls <= 1 && !m.framing {
		for i := range m.attrs {
			a := &m.attrs[i]
			if a.tag != "len" && a.tag != "flags" && a.tag != "segment" && a.tag != "mp" {
				continue
			}
			if m.count(a.typ) != 1 {
				continue
			}
			for _, p := range msg.PathAttributes {
				if byte(p.GetType()) == a.typ {
					o.fail("malformed-attribute-survives-decode:"+a.tag, map[string]any{"body": hx, "faults": m.faultNames(), "type": a.typ})
				}
			}
		}
	}

	// ---- ValidateUpdateMsg, run exactly when the attribute list is fully decoded
	rfs := map[Family]BGPAddPathMode{RF_IPv4_UC: BGP_ADD_PATH_NONE}
	if v6 {
		rfs[RF_IPv6_UC] = BGP_ADD_PATH_NONE
	}
	ebgp, confed := m.peer != 1, m.peer == 2
	cfg := fmt.Sprintf("1 %d %d %d 1 %d", c06B(ebgp), c06B(confed), c06B(loopOk), c06B(v6))
	if cls <= 1 {
		var verr error
		vp := func() (p bool) {
			defer func() {
				if e := recover(); e != nil {
					p = true
				}
			}()
			_, verr = ValidateUpdateMsg(msg, rfs, ebgp, confed, loopOk)
			return false
		}()
		if vp {
			o.ask("panic", "val %s %s", cfg, arg)
			o.fail("validate-panic", map[string]any{"body": hx, "faults": m.faultNames()})
			return
		}
		o.stat(fmt.Sprintf("validate_class_%d", c06Class(verr)), 1)
		o.ask(fmt.Sprintf("d=%s v=%s attrs=%s", c06ErrString(derr), c06ErrString(verr), c06AttrString(msg.PathAttributes)),
			"val %s %s", cfg, arg)
		if len(m.faults) == 0 && verr != nil && v6 {
			o.fail("wellformed-penalised:validate", map[string]any{"body": hx, "err": verr.Error()})
		}
		// what would be installed: mandatory attributes, no duplicates, sane ORIGIN / NEXT_HOP
		if c06Class(verr) <= 1 {
			seen := map[BGPAttrType]int{}
			for _, p := range msg.PathAttributes {
				seen[p.GetType()]++
				switch a := p.(type) {
				case *PathAttributeOrigin:
					if a.Value > 2 {
						o.fail("installable-with-bad-origin", map[string]any{"body": hx, "faults": m.faultNames()})
					}
				case *PathAttributeAsPath:
					// AS_PATH must fit the peer type (RFC 5065): no confederation segment, at ANY position,
					// from a plain eBGP peer; CONFED_SEQ first from a confederation peer
					if ebgp && !confed {
						for _, sg := range a.Value {
							if t := sg.GetType(); t == BGP_ASPATH_ATTR_TYPE_CONFED_SEQ || t == BGP_ASPATH_ATTR_TYPE_CONFED_SET {
								o.fail("installable-with-confed-segment-from-ebgp-peer", map[string]any{"body": hx, "faults": m.faultNames(), "use2": m.use2})
								break
							}
						}
					}
					if confed && (len(a.Value) == 0 || a.Value[0].GetType() != BGP_ASPATH_ATTR_TYPE_CONFED_SEQ) {
						o.fail("installable-without-leading-confed-seq-from-confed-peer", map[string]any{"body": hx, "faults": m.faultNames(), "use2": m.use2})
					}
				case *PathAttributeNextHop:
					b := a.Value.AsSlice()
					if len(b) == 0 || b[0] == 0 || (len(b) == 4 && (b[0] >= 224 || (!loopOk && b[0] == 127))) {
						o.fail("installable-with-bad-nexthop", map[string]any{"body": hx, "faults": m.faultNames()})
					}
				}
			}
			for t, n := range seen {
				if n > 1 {
					o.fail("installable-with-duplicate-attribute", map[string]any{"body": hx, "type": int(t)})
				}
			}
			if len(msg.NLRI) > 0 && (seen[BGP_ATTR_TYPE_ORIGIN] == 0 || seen[BGP_ATTR_TYPE_AS_PATH] == 0 || seen[BGP_ATTR_TYPE_NEXT_HOP] == 0) {
				o.fail("installable-without-mandatory-attribute", map[string]any{"body": hx, "faults": m.faultNames()})
			}
		}
	} else if cls < 4 {
		o.ask(fmt.Sprintf("d=%s v=skipped attrs=%s", c06ErrString(derr), c06AttrString(msg.PathAttributes)), "val %s %s", cfg, arg)
	}
}

func TestVerifC06(t *testing.T) {
	o := vOpen(t)
	defer o.close()
	r := &vRand{s: o.seed*7919 + 3}

	// ---- exhaustive tables (complete correspondence, not sampled)
	for ty := 0; ty < 256; ty++ {
		o.ask(fmt.Sprint(int(getErrorHandlingFromPathAttribute(BGPAttrType(ty)))), "cls %d", ty)
	}
	for ty := 0; ty < 256; ty++ {
		for f := 0; f < 256; f++ {
			o.ask(fmt.Sprint(c06B(validatePathAttributeFlags(BGPAttrType(ty), BGPAttrFlag(f)) == "")), "flg %d %d", ty, f)
		}
	}
	o.stat("table_asks", 256+65536)

	// ---- deterministic corpus (past findings first)
	corpus := []struct {
		name string
		peer int
		use2 bool
		hex  string
		nlri int
	}{
		// malformed ATOMIC_AGGREGATE (discard class) + no ORIGIN: before fix A the route was installed without ORIGIN
		{"discard+missing-origin", 0, false, "0000" + "0014" + "400601ff" + "4002060201" + "0000fde8" + "4003040a000001" + "180a0000", 1},
		// LOCAL_PREF declared 5 bytes, overruns the attribute field: before fix B the NLRI was not reported
		{"overrun-keeps-nlri", 0, false, "0000" + "001b" + "40010100" + "4002060201" + "0000fde8" + "4003040a000001" + "40050500000064" + "180a0000", 1},
		// issue 3305: NEXT_HOP of length 2
		{"nexthop-len-2", 0, false, "0000000d400101024002004003020102011800a801", 1},
	}
	for _, c := range corpus {
		m := &c06Msg{peer: c.peer, use2: c.use2}
		raw, _ := hex.DecodeString(c.hex)
		cm := &c06Raw{m: m, raw: raw, n: c.nlri}
		cm.run(o, r)
	}

	// plain eBGP peer, confederation segment in the middle / at the end of AS_PATH (seed C06-A)
	for _, ap := range [][]byte{
		{2, 1, 0, 0, 0xfd, 0xe9, 3, 1, 0, 0, 0xfe, 0x4c},
		{2, 1, 0, 0, 0xfd, 0xe9, 1, 1, 0, 0, 0xfd, 0xea, 4, 1, 0, 0, 0xfe, 0x4c},
		{2, 1, 0, 0, 0xfd, 0xe9, 3, 1, 0, 0, 0xfe, 0x4c, 2, 1, 0, 0, 0xfd, 0xeb},
	} {
		m := &c06Msg{peer: 0, nlri: [][]byte{{24, 10, 99, 5}}}
		m.attrs = []c06Attr{
			{typ: 1, flags: 0x40, val: []byte{0}, decl: -1},
			{typ: 2, flags: 0x40, val: ap, decl: -1, tag: "segment-kind"},
			{typ: 3, flags: 0x40, val: []byte{10, 0, 0, 1}, decl: -1},
		}
		m.faults = []c06Fault{{"aspath-confed-last", c06Withdraw, 2}}
		c06Run(o, r, m, true, false)
		o.stat("corpus", 1)
	}

	n := 9000
	if o.thorough {
		n = 70000
	}
	for i := 0; i < n; i++ {
		peer := i % 3
		nf := []int{0, 1, 1, 1, 2, 2}[r.intn(6)]
		m := c06Gen(r, peer, nf)
		o.stat(fmt.Sprintf("faults_%d", nf), 1)
		o.stat("peer_"+[]string{"ebgp", "ibgp", "confed"}[peer], 1)
		if m.shape != "" {
			o.stat("aspath_segments_"+m.shape+"_"+[]string{"ebgp", "ibgp", "confed"}[peer], 1)
		}
		for _, f := range m.faults {
			nm := f.name
			if k := strings.IndexByte(nm, ':'); k >= 0 {
				nm = nm[:k]
			}
			o.stat("fault_"+nm, 1)
		}
		if i < 3 || (nf == 2 && i < 40) {
			o.sample(fmt.Sprintf("peer=%d faults=%s body=%s", peer, m.faultNames(), m.hex()))
		}
		if r.chance(25) {
			// the same message as it looks on a session with ADD-PATH receive for IPv4 and / or IPv6 unicast
			k := r.intn(3)
			c06AddPathify(r, m, k != 1, k != 0)
		}
		c06Run(o, r, m, !r.chance(12), r.chance(20))
	}
}

// c06Raw: a corpus message given as bytes; wraps it so that c06Run can use it
type c06Raw struct {
	m   *c06Msg
	raw []byte
	n   int
}

func (c *c06Raw) run(o *vOut, r *vRand) {
	// a c06Msg whose body() is exactly raw: no withdrawn, no attrs, everything in tail after the two length fields
	// is not expressible, so corpus cases go through a tiny dedicated path
	msg := &BGPUpdate{}
	derr := msg.DecodeFromBytes(c.raw, &MarshallingOption{Use2ByteAS: c.m.use2})
	hx := fmt.Sprintf("%x", c.raw)
	cls := c06Class(derr)
	if cls == 4 {
		o.ask("err="+c06ErrString(derr), "dec %d %s", c06B(c.m.use2), hx)
	} else {
		o.ask(fmt.Sprintf("err=%s attrs=%s wd=%d nlri=%d", c06ErrString(derr), c06AttrString(msg.PathAttributes), len(msg.WithdrawnRoutes), len(msg.NLRI)),
			"dec %d %s", c06B(c.m.use2), hx)
	}
	if cls == 2 && len(msg.NLRI) != c.n {
		o.fail("treat-as-withdraw-loses-nlri", map[string]any{"body": hx, "faults": "corpus", "nlri_sent": c.n, "nlri_reported": len(msg.NLRI)})
	}
	o.stat("corpus", 1)
}
