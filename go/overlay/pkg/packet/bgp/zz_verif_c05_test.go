//go:build verif

// C05 — no byte string can crash, hang or over-read the BGP message parser; anything it returns can be
// rendered, measured and re-serialised.
//
// Oracle (model independent, the bulk of this check): every entry point (ParseBGPMessage, ParseBGPBody,
// GetPathAttribute+DecodeFromBytes, NLRIFromSlice for all 26 families, DecodeCapability) is run on the
// repo's testdata, on everything the C04/C06 generators build, and on structure-aware mutants of those
// (length-field perturbation at every offset, truncation at every offset, TLV / segment duplication,
// bit flips, random octets, splices; mutated NLRI are re-wrapped into MP_REACH/MP_UNREACH, mutated
// attributes into UPDATEs, mutated capabilities into OPENs with the OUTER lengths made consistent so the
// inner decoders are reached through the top-level parser too) under the MarshallingOption combinations.
// For each call: panic (recovered), hang (no answer after 2 s, confirmed at 15 s so that machine load is not mistaken for one), allocation (> 64 MiB), caller's buffer and its spare
// capacity unchanged, over-read (two runs with different poison beyond len must agree; bytes after the
// declared length must not matter), and String / MarshalJSON / Len / Serialize / Flat on every value handed
// back — also with an error — must not panic.
// Correspondence: the modelled core is asked through Driver/C05.lean — `dec` (strict, Model/Wire.lean),
// `ldec` (value + non-fatal error + re-serialisation, Model/ParseTotal.lean), `udec` (error class,
// Model/UpdateWire.lean + ErrHandling.lean), `open` / `cap` (OPEN and capability TLVs, Model/ParseTotal.lean).
package bgp

import (
	"bytes"
	"encoding/binary"
	"encoding/json"
	"fmt"
	"net/netip"
	"os"
	"path/filepath"
	"runtime"
	"runtime/metrics"
	"sort"
	"strings"
	"testing"
	"time"
)

// ---------------------------------------------------------------- options

type c05Opt struct {
	ap   int // 0 none, 1 the family under test (or IPv4 unicast) both ways, 2 every family both ways, 3 receive only (IPv4 unicast + family)
	use2 bool
	ext  bool
	mrt  bool
	nilO bool // a nil element in the option list
}

func (c c05Opt) String() string {
	return fmt.Sprintf("ap%d-as2%d-ext%d-mrt%d-nil%d", c.ap, vcB(c.use2), vcB(c.ext), vcB(c.mrt), vcB(c.nilO))
}

func (c c05Opt) opts(fam Family) []*MarshallingOption {
	m := &MarshallingOption{Use2ByteAS: c.use2, ExtendedMessage: c.ext, MRT: c.mrt}
	switch c.ap {
	case 1:
		m.AddPath = map[Family]BGPAddPathMode{RF_IPv4_UC: BGP_ADD_PATH_BOTH}
		if fam != 0 {
			m.AddPath[fam] = BGP_ADD_PATH_BOTH
		}
	case 2:
		m.AddPath = map[Family]BGPAddPathMode{}
		for _, f := range vC04AllFamilies {
			m.AddPath[f] = BGP_ADD_PATH_BOTH
		}
	case 3:
		m.AddPath = map[Family]BGPAddPathMode{RF_IPv4_UC: BGP_ADD_PATH_RECEIVE}
		if fam != 0 {
			m.AddPath[fam] = BGP_ADD_PATH_RECEIVE
		}
	}
	if c.nilO {
		return []*MarshallingOption{nil, m}
	}
	return []*MarshallingOption{m}
}

func c05AllOpts() []c05Opt {
	var out []c05Opt
	for ap := 0; ap < 4; ap++ {
		for i := 0; i < 8; i++ {
			out = append(out, c05Opt{ap: ap, use2: i&1 != 0, ext: i&2 != 0, mrt: i&4 != 0, nilO: (ap+i)%5 == 0})
		}
	}
	return out
}

// the vcOpts (Model/Wire option set) equal to c, if any
func (c c05Opt) core() (vcOpts, bool) {
	if c.mrt || c.ap == 2 {
		return vcOpts{}, false
	}
	switch c.ap {
	case 0:
		return vcOpts{use2: c.use2, ext: c.ext}, true
	case 1:
		return vcOpts{apRx: true, apTx: true, use2: c.use2, ext: c.ext}, true
	}
	return vcOpts{apRx: true, use2: c.use2, ext: c.ext}, true
}

// ---------------------------------------------------------------- guarded execution

func c05Where() string {
	pc := make([]uintptr, 64)
	n := runtime.Callers(2, pc)
	fr := runtime.CallersFrames(pc[:n])
	for {
		f, more := fr.Next()
		if i := strings.Index(f.Function, "/pkg/packet/bgp."); i >= 0 {
			name := f.Function[i+len("/pkg/packet/bgp."):]
			if !strings.HasPrefix(name, "c05") && !strings.HasPrefix(name, "vc") && !strings.HasPrefix(name, "vC04") &&
				!strings.HasPrefix(name, "(*c05") && !strings.HasPrefix(name, "TestVerif") {
				return name
			}
		}
		if !more {
			break
		}
	}
	return "?"
}

func c05FirstLine(s string) string {
	if i := strings.IndexByte(s, '\n'); i >= 0 {
		s = s[:i]
	}
	if len(s) > 120 {
		s = s[:120]
	}
	return s
}

type c05Exec struct {
	in  chan func() string
	out chan string
}

func c05NewExec() *c05Exec {
	e := &c05Exec{in: make(chan func() string), out: make(chan string, 1)}
	go func() {
		for f := range e.in {
			e.out <- func() (s string) {
				defer func() {
					if x := recover(); x != nil {
						s = "PANIC[" + c05Where() + "] " + c05FirstLine(fmt.Sprint(x))
					}
				}()
				return f()
			}()
		}
	}()
	return e
}

type c05H struct {
	o      *vOut
	r      *vRand
	ex     *c05Exec
	tm     *time.Timer
	seen   map[string]bool
	sample []metrics.Sample
	calls  int
	cur    vcOpts
	curSet bool
	// a call hung: its goroutine cannot be stopped and may keep allocating, so the run winds down
	aborted bool
}

func (h *c05H) allocs() uint64 {
	metrics.Read(h.sample)
	if h.sample[0].Value.Kind() == metrics.KindUint64 {
		return h.sample[0].Value.Uint64()
	}
	return 0
}

// run f under the watchdog; hang=true when it did not finish within 2 s (the worker is abandoned)
func (h *c05H) run(f func() string) (res string, hang bool, alloc uint64) {
	a0 := h.allocs()
	h.ex.in <- f
	if !h.tm.Stop() {
		select {
		case <-h.tm.C:
		default:
		}
	}
	h.tm.Reset(2 * time.Second)
	select {
	case res = <-h.ex.out:
	case <-h.tm.C:
		// 2 s of wall clock are over.  On a loaded machine a descheduled worker looks the same as a loop that
		// does not end, so the verdict waits: a call that still comes back within 15 s is counted as slow
		// (stat `slow_calls_over_2s`), one that does not is a hang (its goroutine is abandoned).
		h.tm.Reset(13 * time.Second)
		select {
		case res = <-h.ex.out:
			h.o.stat("slow_calls_over_2s", 1)
		case <-h.tm.C:
			h.ex = c05NewExec()
			h.aborted = true
			return "", true, 0
		}
	}
	h.calls++
	return res, false, h.allocs() - a0
}

func (h *c05H) failOnce(class string, detail map[string]any) {
	if h.seen[class] {
		h.o.stat("dup:"+class, 1)
		return
	}
	h.seen[class] = true
	h.o.fail(class, detail)
}

// ---------------------------------------------------------------- rendering of whatever came back

func c05Err(err error) string {
	if err == nil {
		return "nil"
	}
	if e, ok := err.(*MessageError); ok {
		// Data (NOTIFICATION payload) is a sub-slice of the caller's buffer: not part of the comparison
		return fmt.Sprintf("%d/%d/%d %q", e.TypeCode, e.SubTypeCode, int(e.ErrorHandling), e.Message)
	}
	return "other:" + err.Error()
}

// c05R appends f() to sb; a panic in f is recorded in the text as RPANIC[label|where]
func c05R(sb *strings.Builder, label string, f func() string) {
	defer func() {
		if x := recover(); x != nil {
			fmt.Fprintf(sb, " RPANIC[%s|%s] %s;", label, c05Where(), c05FirstLine(fmt.Sprint(x)))
		}
	}()
	s := f()
	sb.WriteByte(' ')
	sb.WriteString(label)
	sb.WriteByte('=')
	sb.WriteString(s)
}

func c05SerStr(b []byte, err error) string {
	if err != nil {
		return "E:" + err.Error()
	}
	return fmt.Sprintf("%x", b)
}

func c05JSON(v any) string {
	b, err := json.Marshal(v)
	if err != nil {
		return "E:" + err.Error()
	}
	return string(b)
}

func c05FlatStr(m map[string]string) string {
	keys := make([]string, 0, len(m))
	for k := range m {
		keys = append(keys, k)
	}
	sort.Strings(keys)
	var sb strings.Builder
	for _, k := range keys {
		sb.WriteString(k + ":" + m[k] + ",")
	}
	return sb.String()
}

func c05DescNLRI(sb *strings.Builder, n NLRI, opts []*MarshallingOption) {
	if vC04IsNil(n) {
		sb.WriteString(" nlri=nil")
		return
	}
	tn := "nlri:" + vcTypeName(n)
	c05R(sb, tn+".String", func() string { return n.String() })
	c05R(sb, tn+".JSON", func() string { return c05JSON(n) })
	c05R(sb, tn+".Len", func() string { return fmt.Sprint(n.Len(opts...)) })
	c05R(sb, tn+".Serialize", func() string { return c05SerStr(n.Serialize(opts...)) })
	c05R(sb, tn+".Flat", func() string { return c05FlatStr(n.Flat()) })
}

func c05DescAttr(sb *strings.Builder, p PathAttributeInterface, opts []*MarshallingOption) {
	if vC04IsNil(p) {
		sb.WriteString(" attr=nil")
		return
	}
	tn := fmt.Sprintf("attr:t%d", p.GetType())
	if _, ok := p.(*PathAttributeUnknown); ok {
		tn = "attr:unknown"
	}
	c05R(sb, tn+".String", func() string { return p.String() })
	c05R(sb, tn+".JSON", func() string { return c05JSON(p) })
	c05R(sb, tn+".Len", func() string { return fmt.Sprint(p.Len(opts...)) })
	c05R(sb, tn+".Serialize", func() string { return c05SerStr(p.Serialize(opts...)) })
	c05R(sb, tn+".Flat", func() string { return c05FlatStr(p.Flat()) })
	switch a := p.(type) {
	case *PathAttributeMpReachNLRI:
		for _, n := range a.Value {
			c05DescNLRI(sb, n.NLRI, opts)
		}
	case *PathAttributeMpUnreachNLRI:
		for _, n := range a.Value {
			c05DescNLRI(sb, n.NLRI, opts)
		}
	}
}

func c05DescCap(sb *strings.Builder, c ParameterCapabilityInterface) {
	if vC04IsNil(c) {
		sb.WriteString(" cap=nil")
		return
	}
	tn := fmt.Sprintf("cap:%s", vcTypeName(c))
	c05R(sb, tn+".JSON", func() string { return c05JSON(c) })
	c05R(sb, tn+".Len", func() string { return fmt.Sprint(c.Len()) })
	c05R(sb, tn+".Code", func() string { return fmt.Sprint(c.Code()) })
	c05R(sb, tn+".Serialize", func() string { return c05SerStr(c.Serialize()) })
}

func c05DescMsg(sb *strings.Builder, m *BGPMessage, opts []*MarshallingOption) {
	if m == nil {
		sb.WriteString(" msg=nil")
		return
	}
	fmt.Fprintf(sb, " len=%d typ=%d", m.Header.Len, m.Header.Type)
	if vC04IsNil(m.Body) {
		sb.WriteString(" body=nil")
		return
	}
	tn := "msg:" + vcTypeName(m.Body)
	c05R(sb, tn+".JSON", func() string { return c05JSON(m) })
	switch b := m.Body.(type) {
	case *BGPUpdate:
		for _, w := range b.WithdrawnRoutes {
			c05DescNLRI(sb, w.NLRI, opts)
		}
		for _, p := range b.PathAttributes {
			c05DescAttr(sb, p, opts)
		}
		for _, n := range b.NLRI {
			c05DescNLRI(sb, n.NLRI, opts)
		}
		c05R(sb, tn+".IsEndOfRib", func() string { e, f := b.IsEndOfRib(); return fmt.Sprint(e, f) })
	case *BGPOpen:
		for _, p := range b.OptParams {
			if pc, ok := p.(*OptionParameterCapability); ok {
				for _, c := range pc.Capability {
					c05DescCap(sb, c)
				}
			}
			c05R(sb, "optparam.Serialize", func() string { return c05SerStr(p.Serialize()) })
		}
	}
	// last: Serialize fills in length fields of the object
	c05R(sb, tn+".Serialize", func() string { return c05SerStr(m.Serialize(opts...)) })
}

// ---------------------------------------------------------------- one guarded case

type c05Case struct {
	entry string // msg | body | attr | nlri | cap
	opt   c05Opt
	fam   Family
	in    []byte
	hlen  int // body: Header.Len handed to ParseBGPBody
	htyp  uint8
	note  string
}

func (c *c05Case) detail(extra map[string]any) map[string]any {
	d := map[string]any{"entry": c.entry, "opt": c.opt.String(), "in": vcHex(c.in), "note": c.note}
	if c.entry == "nlri" {
		d["family"] = c.fam.String()
	}
	if c.entry == "body" {
		d["hlen"], d["htyp"] = c.hlen, c.htyp
	}
	for k, v := range extra {
		d[k] = v
	}
	return d
}

// the entry point on buf; returns the description and (for the trailing-octets test) the declared length
func (c *c05Case) invoke(buf []byte, declared *int) string {
	opts := c.opt.opts(c.fam)
	var sb strings.Builder
	*declared = -1
	switch c.entry {
	case "msg":
		m, err := ParseBGPMessage(buf, opts...)
		sb.WriteString("err=" + c05Err(err))
		c05DescMsg(&sb, m, opts)
		if m != nil {
			*declared = int(m.Header.Len)
		}
	case "body":
		hd := &BGPHeader{Len: uint16(c.hlen), Type: c.htyp}
		m, err := ParseBGPBody(hd, buf, opts...)
		sb.WriteString("err=" + c05Err(err))
		c05DescMsg(&sb, m, opts)
		if m != nil && c.hlen >= BGP_HEADER_LENGTH {
			*declared = c.hlen - BGP_HEADER_LENGTH
		}
	case "attr":
		p, err := GetPathAttribute(buf)
		if err != nil {
			sb.WriteString("get-err=" + c05Err(err))
			break
		}
		err = p.DecodeFromBytes(buf, opts...)
		sb.WriteString("err=" + c05Err(err))
		if len(buf) >= 3 { // before rendering: Serialize may rewrite cached lengths
			*declared = p.Len(opts...)
		}
		c05DescAttr(&sb, p, opts)
	case "nlri":
		n, err := NLRIFromSlice(c.fam, buf, opts...)
		sb.WriteString("err=" + c05Err(err))
		if err == nil && !vC04IsNil(n) && c.fam != RF_OPAQUE {
			*declared = n.Len(opts...)
		}
		c05DescNLRI(&sb, n, opts)
	case "cap":
		cp, err := DecodeCapability(buf)
		sb.WriteString("err=" + c05Err(err))
		if err == nil && !vC04IsNil(cp) {
			*declared = cp.Len()
		}
		c05DescCap(&sb, cp)
	}
	return sb.String()
}

const c05Spare = 48

// the input at the start of a slice whose spare capacity (beyond len) is filled with `poison`
func c05Place(in []byte, poison byte) []byte {
	back := make([]byte, len(in)+c05Spare)
	copy(back, in)
	for i := len(in); i < len(back); i++ {
		back[i] = poison
	}
	return back[:len(in)]
}

func c05Intact(buf, in []byte, poison byte) bool {
	if !bytes.Equal(buf, in) {
		return false
	}
	sp := buf[len(buf):cap(buf)]
	for _, b := range sp {
		if b != poison {
			return false
		}
	}
	return true
}

func c05PanicClass(entry, res string) string {
	// PANIC[where] text
	w := res[len("PANIC["):]
	if i := strings.IndexByte(w, ']'); i >= 0 {
		w = w[:i]
	}
	return "panic:" + entry + ":" + w
}

// check runs one case under every guard; `deep` adds the second-poison and trailing-octets runs.
// Returns the description of the first run ("" on hang).
func (h *c05H) check(c *c05Case, deep bool) string {
	o := h.o
	if h.aborted {
		return ""
	}
	o.stat("calls:"+c.entry, 1)
	runOn := func(in []byte, poison byte) (string, int, bool) {
		buf := c05Place(in, poison)
		declared := -1
		res, hang, alloc := h.run(func() string { return c.invoke(buf, &declared) })
		if hang {
			h.failOnce("hang:"+c.entry, c.detail(nil))
			return "", -1, false
		}
		if alloc > 64<<20 && len(in) <= 65536 {
			h.failOnce("alloc:"+c.entry, c.detail(map[string]any{"bytes_allocated": alloc}))
		}
		if !c05Intact(buf, in, poison) {
			h.failOnce("input-mutated:"+c.entry, c.detail(map[string]any{"after": vcHex(buf), "spare": vcHex(buf[len(buf):cap(buf)])}))
		}
		return res, declared, true
	}
	resA, declared, ok := runOn(c.in, 0xA5)
	if !ok {
		return ""
	}
	if strings.HasPrefix(resA, "PANIC[") {
		o.stat("outcome:panic", 1)
		h.failOnce(c05PanicClass(c.entry, resA), c.detail(map[string]any{"panic": resA}))
		return resA
	}
	for rest := resA; ; {
		i := strings.Index(rest, "RPANIC[")
		if i < 0 {
			break
		}
		rest = rest[i+len("RPANIC["):]
		j := strings.IndexByte(rest, ']')
		if j < 0 {
			break
		}
		o.stat("outcome:render-panic", 1)
		end := strings.IndexByte(rest, ';')
		if end < 0 {
			end = len(rest)
		}
		h.failOnce("render-panic:"+rest[:j], c.detail(map[string]any{"panic": rest[:end]}))
	}
	if strings.HasPrefix(resA, "err=nil") {
		o.stat("outcome:"+c.entry+":ok", 1)
	} else {
		o.stat("outcome:"+c.entry+":err", 1)
	}
	if !deep {
		return resA
	}
	if resB, _, ok := runOn(c.in, 0x3C); ok && resB != resA {
		h.failOnce("over-read:spare-capacity:"+c.entry, c.detail(map[string]any{"poisonA5": c05Clip(resA), "poison3C": c05Clip(resB)}))
	}
	// octets after the declared length must not matter
	if declared >= 0 && declared <= len(c.in) {
		exact := c.in[:declared]
		j1 := append(append([]byte{}, exact...), vcGenBytes(h.r, 1+h.r.intn(8))...)
		j2 := append(append([]byte{}, exact...), 0xff, 0x00, 0xff, 0x80, 0x01, 0xff, 0xff, 0x7f, 0x10, 0x20)
		r0, _, ok0 := runOn(exact, 0xA5)
		r1, _, ok1 := runOn(j1, 0xA5)
		r2, _, ok2 := runOn(j2, 0xA5)
		if ok0 && ok1 && ok2 && (r0 != r1 || r0 != r2) {
			cc := *c
			cc.in = exact
			h.failOnce("over-read:past-declared-length:"+c.entry+c05FamTag(c), cc.detail(map[string]any{
				"declared": declared, "exact": c05Clip(r0), "with_trailing_" + vcHex(j1[declared:]): c05Clip(r1), "with_trailing_ff00ff80…": c05Clip(r2)}))
		}
	}
	return resA
}

func c05FamTag(c *c05Case) string {
	if c.entry == "nlri" {
		return ":" + c.fam.String()
	}
	return ""
}

func c05Clip(s string) string {
	if len(s) > 600 {
		return s[:600] + "…"
	}
	return s
}

// ---------------------------------------------------------------- wrapping inner octets in consistent outer framing

func c05AttrBytes(flags, typ byte, value []byte) []byte {
	if len(value) > 255 || flags&0x10 != 0 {
		b := []byte{flags | 0x10, typ, 0, 0}
		binary.BigEndian.PutUint16(b[2:], uint16(len(value)))
		return append(b, value...)
	}
	return append([]byte{flags, typ, byte(len(value))}, value...)
}

func c05UpdateMsg(withdrawn []byte, attrs []byte, nlri []byte) []byte {
	body := make([]byte, 0, 4+len(withdrawn)+len(attrs)+len(nlri))
	body = binary.BigEndian.AppendUint16(body, uint16(len(withdrawn)))
	body = append(body, withdrawn...)
	body = binary.BigEndian.AppendUint16(body, uint16(len(attrs)))
	body = append(body, attrs...)
	body = append(body, nlri...)
	return c05Msg(BGP_MSG_UPDATE, body)
}

func c05Msg(typ uint8, body []byte) []byte {
	m := make([]byte, 19, 19+len(body))
	for i := 0; i < 16; i++ {
		m[i] = 0xff
	}
	binary.BigEndian.PutUint16(m[16:], uint16(19+len(body)))
	m[18] = typ
	return append(m, body...)
}

// MP_REACH / MP_UNREACH attribute around raw NLRI octets
func c05MpAttr(r *vRand, fam Family, nlri []byte, reach bool, pathID bool) []byte {
	v := binary.BigEndian.AppendUint16(nil, fam.Afi())
	v = append(v, fam.Safi())
	if reach {
		var nh []byte
		switch {
		case fam.Safi() == SAFI_FLOW_SPEC_UNICAST || fam.Safi() == SAFI_FLOW_SPEC_VPN:
		case fam.Safi() == SAFI_MPLS_VPN || fam.Safi() == SAFI_MPLS_VPN_MULTICAST:
			nh = make([]byte, 8)
			if fam.Afi() == AFI_IP6 {
				nh = append(nh, vC04V6(r).AsSlice()...)
			} else {
				nh = append(nh, vC04V4(r).AsSlice()...)
			}
		case fam.Afi() == AFI_IP6:
			nh = vC04V6(r).AsSlice()
		default:
			nh = vC04V4(r).AsSlice()
		}
		v = append(v, byte(len(nh)))
		v = append(v, nh...)
		v = append(v, 0)
	}
	if pathID {
		v = binary.BigEndian.AppendUint32(v, h32(r))
	}
	v = append(v, nlri...)
	t := byte(BGP_ATTR_TYPE_MP_UNREACH_NLRI)
	if reach {
		t = byte(BGP_ATTR_TYPE_MP_REACH_NLRI)
	}
	return c05AttrBytes(0x80, t, v)
}

func h32(r *vRand) uint32 { return uint32(r.pick(0, 1, 7, 0x7fffffff, 0xffffffff)) }

var c05Origin = []byte{0x40, 1, 1, 0}
var c05AsPath = []byte{0x40, 2, 6, 2, 1, 0, 0, 0xfd, 0xe8}
var c05NextHop = []byte{0x40, 3, 4, 192, 0, 2, 1}

func c05OpenMsg(r *vRand, caps []byte, split bool) []byte {
	body := []byte{4, 0xfd, 0xe8, 0, 90, 10, 0, 0, 1, 0}
	var params []byte
	if split && len(caps) > 0 {
		// two capability parameters are legal; an unknown parameter in between
		params = append(params, 2, 0)
		params = append(params, 99, 2, 0xde, 0xad)
	}
	if len(caps) <= 253 {
		params = append(params, 2, byte(len(caps)))
		params = append(params, caps...)
	} else {
		params = append(params, 2, 253)
		params = append(params, caps[:253]...)
	}
	if len(params) > 255 {
		params = params[:255]
	}
	body[9] = byte(len(params))
	return c05Msg(BGP_MSG_OPEN, append(body, params...))
}

// ---------------------------------------------------------------- mutation

type c05Mut struct {
	b    []byte
	note string
}

func c05Clone(b []byte) []byte { return append([]byte{}, b...) }

// every mutant of b the quick tier wants; `other` is a second seed of the same kind for splices
func c05Mutants(r *vRand, b, other []byte, budget int) []c05Mut {
	var out []c05Mut
	add := func(m []byte, note string) { out = append(out, c05Mut{m, note}) }
	n := len(b)
	offs := func(k int) []int {
		if n <= k {
			o := make([]int, n)
			for i := range o {
				o[i] = i
			}
			return o
		}
		o := make([]int, 0, k)
		for i := 0; i < k/2; i++ {
			o = append(o, i)
		}
		for i := k / 2; i < k; i++ {
			o = append(o, r.intn(n))
		}
		return o
	}
	// truncation at every offset
	for _, i := range offs(budget) {
		add(c05Clone(b[:i]), fmt.Sprintf("trunc@%d", i))
	}
	// length-field perturbation: every offset is treated as a possible 1- and 2-octet length field
	for _, i := range offs(budget) {
		for _, v := range []int{0, 0xff, int(b[i]) + 1, int(b[i]) - 1} {
			if byte(v) == b[i] {
				continue
			}
			m := c05Clone(b)
			m[i] = byte(v)
			add(m, fmt.Sprintf("len8@%d=%d", i, byte(v)))
		}
		if i+1 < n {
			for _, v := range []uint16{0xffff, 0, uint16(n), uint16(n - i)} {
				m := c05Clone(b)
				binary.BigEndian.PutUint16(m[i:], v)
				add(m, fmt.Sprintf("len16@%d=%d", i, v))
			}
		}
	}
	if n == 0 {
		return out
	}
	// flag / bit flips and random octets
	for k := 0; k < 10; k++ {
		m := c05Clone(b)
		i := r.intn(n)
		m[i] ^= 1 << uint(r.intn(8))
		add(m, fmt.Sprintf("bit@%d", i))
	}
	for k := 0; k < 8; k++ {
		m := c05Clone(b)
		for j := 0; j <= r.intn(3); j++ {
			m[r.intn(n)] = byte(r.next())
		}
		add(m, "rnd")
	}
	// TLV / segment duplication and deletion
	for k := 0; k < 8; k++ {
		i := r.intn(n)
		l := 1 + r.intn(min(n-i, 24))
		m := append(c05Clone(b[:i+l]), b[i:]...)
		add(m, fmt.Sprintf("dup@%d+%d", i, l))
		d := append(c05Clone(b[:i]), b[i+l:]...)
		add(d, fmt.Sprintf("del@%d+%d", i, l))
	}
	// insertion of junk, appended junk
	for k := 0; k < 4; k++ {
		i := r.intn(n + 1)
		m := append(c05Clone(b[:i]), append(vcGenBytes(r, 1+r.intn(6)), b[i:]...)...)
		add(m, fmt.Sprintf("ins@%d", i))
	}
	// splice of two inputs
	if len(other) > 0 {
		for k := 0; k < 4; k++ {
			i, j := r.intn(n+1), r.intn(len(other)+1)
			add(append(c05Clone(b[:i]), other[j:]...), fmt.Sprintf("splice@%d/%d", i, j))
		}
		add(append(c05Clone(b), other...), "concat")
	}
	return out
}


// mutants of the INNER octets of a seed with the outer framing recomputed, so that a truncated / stretched value
// still reaches the typed decoder: attribute value under a fresh attribute header, capability value under a
// fresh code/length, message body under a fresh header, attribute block of an UPDATE under fresh length fields
func c05Reframed(r *vRand, s *c05Seed, other []byte, budget int) []c05Mut {
	var out []c05Mut
	b := s.b
	switch s.kind {
	case "attr":
		if len(b) < 3 {
			return nil
		}
		hl := 3
		if b[0]&0x10 != 0 {
			hl = 4
		}
		if len(b) < hl {
			return nil
		}
		var ov []byte
		if len(other) > 4 {
			ov = other[3:]
		}
		for _, m := range c05Mutants(r, b[hl:], ov, budget) {
			if len(m.b) < 65536 {
				out = append(out, c05Mut{c05AttrBytes(b[0]&^0x10, b[1], m.b), "reframed:" + m.note})
			}
		}
	case "cap":
		if len(b) < 2 {
			return nil
		}
		for _, m := range c05Mutants(r, b[2:], nil, budget) {
			if len(m.b) <= 255 {
				out = append(out, c05Mut{append([]byte{b[0], byte(len(m.b))}, m.b...), "reframed:" + m.note})
			}
		}
	case "msg":
		if len(b) < 19 {
			return nil
		}
		hlen := int(binary.BigEndian.Uint16(b[16:18]))
		if hlen < 19 || hlen > len(b) {
			return nil
		}
		body := b[19:hlen]
		for _, m := range c05Mutants(r, body, nil, budget/2) {
			if len(m.b) < 65000 {
				out = append(out, c05Mut{c05Msg(b[18], m.b), "reframed-body:" + m.note})
			}
		}
		if b[18] == BGP_MSG_UPDATE && len(body) >= 4 {
			wl := int(binary.BigEndian.Uint16(body))
			if len(body) >= 4+wl {
				pl := int(binary.BigEndian.Uint16(body[2+wl:]))
				if len(body) >= 4+wl+pl {
					w, a, n := body[2:2+wl], body[4+wl:4+wl+pl], body[4+wl+pl:]
					for _, m := range c05Mutants(r, a, nil, budget/2) {
						if len(m.b) < 60000 {
							out = append(out, c05Mut{c05UpdateMsg(w, m.b, n), "reframed-attrs:" + m.note})
						}
					}
					for _, m := range c05Mutants(r, n, nil, budget/4) {
						out = append(out, c05Mut{c05UpdateMsg(w, a, m.b), "reframed-nlri:" + m.note})
					}
					for _, m := range c05Mutants(r, w, nil, budget/4) {
						if len(m.b) < 60000 {
							out = append(out, c05Mut{c05UpdateMsg(m.b, a, n), "reframed-withdrawn:" + m.note})
						}
					}
				}
			}
		}
	}
	return out
}

// ---------------------------------------------------------------- correspondence helpers (modelled core)

func (h *c05H) setOpts(op vcOpts) {
	if !h.curSet || op != h.cur {
		h.o.op("opts %d %d %d %d", vcB(op.apRx), vcB(op.apTx), vcB(op.use2), vcB(op.ext))
		h.cur, h.curSet = op, true
	}
}

func c05LDec(b []byte, opts []*MarshallingOption) (s string) {
	defer func() {
		if e := recover(); e != nil {
			s = "panic"
		}
	}()
	m, err := ParseBGPMessage(b, opts...)
	if m == nil {
		return "reject"
	}
	if err != nil {
		me, ok := err.(*MessageError)
		if !ok || me.ErrorHandling == ERROR_HANDLING_SESSION_RESET {
			return "reject"
		}
	}
	text := vcRMsg(m)
	ser := "too-long"
	if out, e := m.Serialize(opts...); e == nil {
		ser = vcHex(out)
	}
	return fmt.Sprintf("%s err=%s S=%s", text, c06ErrString(err), ser)
}

// is the UPDATE body inside the fragment Model/UpdateWire.lean answers for (conservative)?
func c05UdecSupported(body []byte) bool {
	if len(body) < 2 {
		return true
	}
	wl := int(binary.BigEndian.Uint16(body))
	if len(body) < 2+wl+2 {
		return true
	}
	pl := int(binary.BigEndian.Uint16(body[2+wl:]))
	if len(body) < 4+wl+pl {
		return true
	}
	d := body[4+wl : 4+wl+pl]
	for len(d) >= 3 {
		t := d[1]
		hl, l := 3, int(d[2])
		if d[0]&0x10 != 0 {
			if len(d) < 4 {
				return true
			}
			hl, l = 4, int(binary.BigEndian.Uint16(d[2:]))
		}
		switch BGPAttrType(t) {
		case BGP_ATTR_TYPE_PMSI_TUNNEL, BGP_ATTR_TYPE_TUNNEL_ENCAP, BGP_ATTR_TYPE_IP6_EXTENDED_COMMUNITIES,
			BGP_ATTR_TYPE_AIGP, BGP_ATTR_TYPE_LS, BGP_ATTR_TYPE_PREFIX_SID:
			return false
		case BGP_ATTR_TYPE_MP_REACH_NLRI, BGP_ATTR_TYPE_MP_UNREACH_NLRI:
			if hl+l > len(d) {
				// the value runs into the NLRI field: the decoder still sees octets up to the end of the body
				return false
			}
			v := d[hl : hl+l]
			if len(v) >= 3 {
				afi, safi := binary.BigEndian.Uint16(v), v[2]
				if !((afi == 1 || afi == 2) && (safi == 1 || safi == 2)) {
					return false
				}
			}
		}
		if hl+l > len(d) {
			return true
		}
		d = d[hl+l:]
	}
	return true
}

func c05UDec(body []byte, use2 bool) (s string) {
	defer func() {
		if e := recover(); e != nil {
			s = "panic"
		}
	}()
	msg := &BGPUpdate{}
	derr := msg.DecodeFromBytes(body, &MarshallingOption{Use2ByteAS: use2})
	if c06Class(derr) == 4 {
		return "err=" + c06ErrString(derr)
	}
	return fmt.Sprintf("err=%s attrs=%s wd=%d nlri=%d", c06ErrString(derr), c06AttrString(msg.PathAttributes), len(msg.WithdrawnRoutes), len(msg.NLRI))
}

func c05CommaInts(l []int) string {
	s := make([]string, len(l))
	for i, v := range l {
		s[i] = fmt.Sprint(v)
	}
	return strings.Join(s, ",")
}

func c05BytesInts(b []byte) []int {
	o := make([]int, len(b))
	for i, v := range b {
		o[i] = int(v)
	}
	return o
}

func c05RCap(c ParameterCapabilityInterface) string {
	var f []int
	switch x := c.(type) {
	case *CapMultiProtocol:
		f = []int{int(x.CapValue.Afi()), int(x.CapValue.Safi())}
	case *CapExtendedNexthop:
		for _, t := range x.Tuples {
			f = append(f, int(t.NLRIAFI), int(t.NLRISAFI), int(t.NexthopAFI))
		}
	case *CapGracefulRestart:
		f = []int{int(x.Flags), int(x.Time)}
		for _, t := range x.Tuples {
			f = append(f, int(t.AFI), int(t.SAFI), int(t.Flags))
		}
	case *CapFourOctetASNumber:
		f = []int{int(x.CapValue)}
	case *CapAddPath:
		for _, t := range x.Tuples {
			f = append(f, int(t.Family.Afi()), int(t.Family.Safi()), int(t.Mode))
		}
	case *CapLongLivedGracefulRestart:
		for _, t := range x.Tuples {
			f = append(f, int(t.AFI), int(t.SAFI), int(t.Flags), int(t.RestartTime))
		}
	case *CapFQDN:
		f = append(f, int(x.HostNameLen))
		f = append(f, c05BytesInts([]byte(x.HostName))...)
		f = append(f, int(x.DomainNameLen))
		f = append(f, c05BytesInts([]byte(x.DomainName))...)
	case *CapSoftwareVersion:
		f = append(f, int(x.SoftwareVersionLen))
		f = append(f, c05BytesInts([]byte(x.SoftwareVersion))...)
	case *CapRouteRefresh:
		f = c05BytesInts(x.CapValue)
	case *CapCarryingLabelInfo:
		f = c05BytesInts(x.CapValue)
	case *CapExtendedMessage:
		f = c05BytesInts(x.CapValue)
	case *CapEnhancedRouteRefresh:
		f = c05BytesInts(x.CapValue)
	case *CapRouteRefreshCisco:
		f = c05BytesInts(x.CapValue)
	case *CapUnknown:
		f = c05BytesInts(x.CapValue)
	default:
		return fmt.Sprintf("?%T", c)
	}
	return fmt.Sprintf("C%d/%d[%s]", c.Code(), c.Len()-2, c05CommaInts(f))
}

func c05CapAns(b []byte) (s string) {
	defer func() {
		if e := recover(); e != nil {
			s = "panic"
		}
	}()
	c, err := DecodeCapability(b)
	if err != nil {
		return "reject"
	}
	return c05RCap(c)
}

func c05OpenAns(b []byte) (s string) {
	defer func() {
		if e := recover(); e != nil {
			s = "panic"
		}
	}()
	m, err := ParseBGPMessage(b)
	if err != nil || m == nil {
		return "reject"
	}
	op, ok := m.Body.(*BGPOpen)
	if !ok {
		return "reject"
	}
	ps := make([]string, len(op.OptParams))
	for i, p := range op.OptParams {
		switch x := p.(type) {
		case *OptionParameterCapability:
			cs := make([]string, len(x.Capability))
			for j, c := range x.Capability {
				cs[j] = c05RCap(c)
			}
			ps[i] = fmt.Sprintf("P%d/%d{%s}", x.ParamType, x.ParamLen, strings.Join(cs, ";"))
		case *OptionParameterUnknown:
			ps[i] = fmt.Sprintf("X%d/%d:%s", x.ParamType, x.ParamLen, vcHex(x.Value))
		}
	}
	return fmt.Sprintf("O v=%d as=%d hold=%d id=%d ol=%d %s", op.Version, op.MyAS, op.HoldTime, vcU32(op.ID), op.OptParamLen, strings.Join(ps, " "))
}

// asks about one complete message under a Model/Wire option set
func (h *c05H) askMsg(b []byte, op vcOpts) {
	// the model asks call the parser on the harness goroutine, without the watchdog: never after a
	// guarded call has hung (the run is being wound down; the same input would hang this goroutine)
	if h.aborted || len(b) > 70000 {
		return
	}
	if len(b) >= 19 && b[18] == BGP_MSG_OPEN {
		h.o.ask(c05OpenAns(b), "open %s", vcHex(b))
		h.o.stat("ask:open", 1)
		return
	}
	if !vcModelled(b, op) {
		h.o.stat("ask:skipped-unmodelled", 1)
		return
	}
	h.setOpts(op)
	opts := op.marshalling()
	strict := vcParse(b, opts)
	h.o.ask(strict, "dec %s", vcHex(b))
	lenient := c05LDec(b, opts)
	h.o.ask(lenient, "ldec %s", vcHex(b))
	switch {
	case strict != "reject":
		h.o.stat("ask:msg:accept", 1)
	case lenient != "reject":
		h.o.stat("ask:msg:value-with-nonfatal-error", 1)
	default:
		h.o.stat("ask:msg:reject", 1)
	}
	if !op.apRx && len(b) >= 19 && b[18] == BGP_MSG_UPDATE {
		hl := int(binary.BigEndian.Uint16(b[16:]))
		if hl >= 19 && hl <= len(b) && c05UdecSupported(b[19:hl]) {
			h.o.ask(c05UDec(b[19:hl], op.use2), "udec %d %s", vcB(op.use2), vcHex(b[19:hl]))
			h.o.stat("ask:udec", 1)
		}
	}
}

// ---------------------------------------------------------------- seeds

type c05Seed struct {
	kind string // msg | attr | nlri | cap
	name string
	b    []byte
	fam  Family
	op   vcOpts // msg seeds of the modelled core: the option set they were built for
	core bool
}

func c05Seeds(r *vRand, o *vOut) []c05Seed {
	var out []c05Seed
	// 1. the modelled core: messages of the C04 generator, bodies of the C06 fault injector
	for i := 0; i < 60; i++ {
		ap := r.chance(40)
		op := vcOpts{apRx: ap, apTx: ap, use2: r.chance(35), ext: r.chance(35)}
		vm := vcGenMsg(r, op)
		if vm.bigBytes {
			continue
		}
		var b []byte
		if vcTry(func() { b, _ = vm.build().Serialize(op.marshalling()...) }) != "" || b == nil {
			continue
		}
		out = append(out, c05Seed{kind: "msg", name: "c04:" + vm.stratum, b: b, op: op, core: true})
	}
	for i := 0; i < 40; i++ {
		m := c06Gen(r, i%3, r.pick(0, 1, 1, 2))
		out = append(out, c05Seed{kind: "msg", name: "c06:" + m.faultNames(), b: c05Msg(BGP_MSG_UPDATE, m.body()), op: vcOpts{use2: m.use2}, core: true})
	}
	// 2. every family / attribute / capability the C04 generators build
	for _, c := range append(vcCorpusNLRIs(), vC04GenNLRIs(r)...) {
		c := c
		vcTry(func() {
			if b, err := c.nlri.Serialize(); err == nil {
				out = append(out, c05Seed{kind: "nlri", name: c.name, b: b, fam: c.family})
			}
		})
	}
	for _, c := range append(vcCorpusAttrs(), vC04GenAttrs(r)...) {
		c := c
		vcTry(func() {
			if b, err := c.attr.Serialize(); err == nil {
				out = append(out, c05Seed{kind: "attr", name: c.name, b: b})
			}
		})
	}
	// attributes of the core, stand-alone
	for _, k := range []byte(vcKinds) {
		op := vcOpts{use2: r.chance(30)}
		a := vcGenAttr(r, op, k)
		vcTry(func() {
			if b, err := a.build().Serialize(op.marshalling()...); err == nil && len(b) < 300 {
				out = append(out, c05Seed{kind: "attr", name: "core:" + string(k), b: b})
			}
		})
	}
	var all []byte
	for _, c := range vC04GenCaps(r) {
		c := c
		vcTry(func() {
			if b, err := c.Serialize(); err == nil {
				out = append(out, c05Seed{kind: "cap", name: vcTypeName(c), b: b})
				if len(all)+len(b) <= 250 {
					all = append(all, b...)
				}
			}
		})
	}
	out = append(out, c05Seed{kind: "msg", name: "open:all-caps", b: c05OpenMsg(r, all, false)})
	return out
}

func c05Testdata(o *vOut) []c05Seed {
	var out []c05Seed
	wd, _ := os.Getwd()
	files, _ := filepath.Glob(filepath.Join(wd, "testdata", "bad-len", "*"))
	sort.Strings(files)
	for _, f := range files {
		if b, err := os.ReadFile(f); err == nil {
			out = append(out, c05Seed{kind: "msg", name: "testdata/bad-len/" + filepath.Base(f), b: b})
		}
	}
	o.stats["testdata_files"] = len(out)
	return out
}


// ---------------------------------------------------------------- raw TLV seeds (what the constructors cannot build)

var c05LsTypes = []int{256, 257, 258, 259, 260, 261, 262, 263, 264, 265, 512, 513, 514, 515, 516, 517, 518,
	1024, 1025, 1026, 1027, 1028, 1029, 1030, 1031, 1034, 1035, 1036, 1037, 1039, 1040, 1041, 1042, 1043, 1044, 1045, 1046,
	1088, 1089, 1090, 1091, 1092, 1093, 1094, 1095, 1096, 1097, 1098, 1099, 1100, 1101, 1102, 1103, 1105, 1106,
	1114, 1115, 1116, 1152, 1153, 1154, 1155, 1156, 1157, 1158, 1159, 1161, 1170, 1171, 1172, 1250, 1251, 1252}

func c05Tlv16(typ int, val []byte) []byte {
	b := binary.BigEndian.AppendUint16(nil, uint16(typ))
	b = binary.BigEndian.AppendUint16(b, uint16(len(val)))
	return append(b, val...)
}

// a BGP-LS TLV of the given type with a plausibly shaped value (nested where the type nests)
func c05LsTlv(r *vRand, typ int) []byte {
	sidLabel := func() []byte { return c05Tlv16(1161, vcGenBytes(r, r.pick(3, 4, 3, 4, 2, 5))) }
	switch typ {
	case 1034, 1036: // SR capabilities / SR local block: flags, reserved, (range(3) + SID/Label TLV)*
		v := []byte{byte(r.next()), 0}
		for i := r.intn(3); i >= 0; i-- {
			v = append(v, vcGenBytes(r, 3)...)
			v = append(v, sidLabel()...)
		}
		return c05Tlv16(typ, v)
	case 1039: // flexible algorithm definition: algo, metric, calc, priority, sub-TLVs 1040..1046
		v := vcGenBytes(r, 4)
		if r.chance(85) {
			v[0] |= 0x80 // algorithms 128..255 are the defined range
		}
		for i := r.intn(4); i > 0; i-- {
			v = append(v, c05Tlv16(r.pick(1040, 1041, 1042, 1043, 1045, 1046, 1046, 999), vcGenBytes(r, r.pick(4, 4, 8, 0, 1, 12, 5)))...)
		}
		return c05Tlv16(typ, v)
	case 1044: // FAPM: algo, flags, reserved(2), metric(4)
		return c05Tlv16(typ, vcGenBytes(r, r.pick(8, 8, 7, 9, 4)))
	case 1158: // prefix SID: flags, algo, reserved(2), SID 3 / 4
		return c05Tlv16(typ, vcGenBytes(r, r.pick(7, 8, 7, 8, 4, 6)))
	case 1099, 1101, 1102, 1103: // adjacency / peer SIDs: flags, weight, reserved(2), SID 3 / 4
		return c05Tlv16(typ, vcGenBytes(r, r.pick(7, 8, 4, 3)))
	case 1100: // LAN adjacency SID: + neighbour id 4 / 6
		return c05Tlv16(typ, vcGenBytes(r, r.pick(11, 12, 13, 14, 7)))
	case 1106, 1251: // SRv6 End.X SID / BGP peer node SID, optionally with a SID-structure sub-TLV
		v := vcGenBytes(r, r.pick(22, 22, 24, 12, 28, 16))
		if r.chance(50) {
			v = append(v, c05Tlv16(1252, vcGenBytes(r, r.pick(4, 4, 3, 5)))...)
		}
		return c05Tlv16(typ, v)
	case 518: // SRv6 SID information
		return c05Tlv16(typ, vcGenBytes(r, r.pick(16, 16, 15, 17, 32)))
	case 256, 257: // node descriptors: sub-TLVs 512..517
		var v []byte
		for i := r.intn(4); i >= 0; i-- {
			t := r.pick(512, 513, 514, 515, 516, 517)
			v = append(v, c05Tlv16(t, vcGenBytes(r, r.pick(4, 4, 6, 7, 8, 0)))...)
		}
		return c05Tlv16(typ, v)
	case 1029, 1031, 261, 262:
		return c05Tlv16(typ, vcGenBytes(r, r.pick(16, 16, 4, 15, 17)))
	case 1171:
		return c05Tlv16(typ, vcGenBytes(r, r.pick(4, 16, 5, 0)))
	}
	return c05Tlv16(typ, vcGenBytes(r, r.pick(0, 1, 2, 3, 4, 4, 6, 8, 8, 12, 16, 20, 32)))
}

func c05RawSeeds(r *vRand) []c05Seed {
	var out []c05Seed
	// BGP-LS attribute (type 29): every TLV type on its own, and a few mixed lists
	for _, t := range c05LsTypes {
		for k := 0; k < 3; k++ {
			out = append(out, c05Seed{kind: "attr", name: fmt.Sprintf("raw:ls-attr/%d", t), b: c05AttrBytes(0x80, 29, c05LsTlv(r, t))})
		}
	}
	for i := 0; i < 12; i++ {
		var v []byte
		for k := 1 + r.intn(5); k > 0; k-- {
			v = append(v, c05LsTlv(r, c05LsTypes[r.intn(len(c05LsTypes))])...)
		}
		out = append(out, c05Seed{kind: "attr", name: "raw:ls-attr/mixed", b: c05AttrBytes(0x80, 29, v)})
	}
	// BGP-LS NLRI: type(2) len(2) protocol(1) identifier(8) descriptors
	for nt := 1; nt <= 6; nt++ {
		for k := 0; k < 3; k++ {
			body := append([]byte{byte(r.pick(1, 2, 3, 4, 5, 6, 7))}, vcGenBytes(r, 8)...)
			body = append(body, c05LsTlv(r, 256)...)
			if nt == 2 || r.chance(30) {
				body = append(body, c05LsTlv(r, 257)...)
			}
			for j := r.intn(4); j > 0; j-- {
				body = append(body, c05LsTlv(r, r.pick(258, 259, 260, 261, 262, 263, 264, 265, 518, 1161))...)
			}
			out = append(out, c05Seed{kind: "nlri", name: fmt.Sprintf("raw:ls-nlri/%d", nt), fam: RF_LS, b: c05Tlv16(nt, body)})
		}
	}
	return out
}

// ---------------------------------------------------------------- the harness

// every way a seed / mutant is presented to the package
func (h *c05H) present(s *c05Seed, b []byte, note string, opt c05Opt, deep bool) {
	r := h.r
	if h.aborted {
		return
	}
	mk := func(entry string, in []byte, fam Family) *c05Case {
		return &c05Case{entry: entry, opt: opt, fam: fam, in: in, note: s.name + " " + note}
	}
	switch s.kind {
	case "nlri":
		h.check(mk("nlri", b, s.fam), deep)
		// through MP_REACH / MP_UNREACH, stand-alone and inside an UPDATE
		pid := opt.ap != 0
		attr := c05MpAttr(r, s.fam, b, r.chance(65), pid)
		h.check(mk("attr", attr, s.fam), false)
		if r.chance(50) {
			msg := c05UpdateMsg(nil, append(append(append(c05Clone(c05Origin), c05AsPath...), attr...), c05NextHop...), nil)
			h.check(mk("msg", msg, s.fam), false)
		}
		// the same octets under a different family
		if r.chance(15) {
			h.check(mk("nlri", b, vC04Fam(r)), false)
		}
	case "attr":
		h.check(mk("attr", b, 0), deep)
		var attrs []byte
		switch r.intn(3) {
		case 0:
			attrs = append(c05Clone(c05Origin), b...)
		case 1:
			attrs = append(append(c05Clone(b), c05Origin...), c05AsPath...)
		default:
			attrs = c05Clone(b)
		}
		var nlri []byte
		if r.chance(50) {
			nlri = []byte{24, 10, 1, 2}
			if opt.ap == 1 || opt.ap == 2 || opt.ap == 3 {
				nlri = append([]byte{0, 0, 0, 1}, nlri...)
			}
		}
		msg := c05UpdateMsg(nil, attrs, nlri)
		h.check(mk("msg", msg, 0), false)
		if op, ok := opt.core(); ok && r.chance(30) {
			h.askMsg(msg, op)
		}
	case "cap":
		h.check(mk("cap", b, 0), deep)
		h.o.ask(c05CapAns(b), "cap %s", vcHex(b))
		h.o.stat("ask:cap", 1)
		msg := c05OpenMsg(r, b, r.chance(30))
		h.check(mk("msg", msg, 0), false)
		if r.chance(50) {
			h.askMsg(msg, vcOpts{})
		}
	case "msg":
		h.check(mk("msg", b, 0), deep)
		// ParseBGPBody with the header the octets carry, and with a header that lies
		if len(b) >= 19 {
			hl := int(binary.BigEndian.Uint16(b[16:18]))
			c := mk("body", b[19:], 0)
			c.hlen, c.htyp = hl, b[18]
			if hl >= 19 && hl <= len(b) {
				c.in = b[19:hl]
			}
			h.check(c, deep)
			if r.chance(20) {
				c2 := *c
				c2.hlen = r.pick(0, 1, 18, 19, 20, hl-1, hl+1, 4096, 65535)
				c2.htyp = uint8(r.pick(int(b[18]), 1, 2, 3, 4, 5, 0, 6, 255))
				h.check(&c2, false)
			}
		}
		if op, ok := opt.core(); ok {
			if s.core && op == s.op || r.chance(25) {
				h.askMsg(b, op)
			}
		}
	}
}

func (h *c05H) seedOpt(s *c05Seed) c05Opt {
	if s.core {
		c := c05Opt{use2: s.op.use2, ext: s.op.ext}
		if s.op.apRx {
			c.ap = 1
		}
		return c
	}
	return c05Opt{ext: true}
}

func TestVerifC05(t *testing.T) {
	o := vOpen(t)
	defer o.close()
	r := &vRand{s: o.seed*7919 + 5}
	h := &c05H{o: o, r: r, ex: c05NewExec(), tm: time.NewTimer(time.Hour), seen: map[string]bool{},
		sample: []metrics.Sample{{Name: "/gc/heap/allocs:bytes"}}}
	allOpts := c05AllOpts()

	// ---- deterministic corpus first: minimised past findings, then the repository's regression inputs
	for _, c := range c05Corpus() {
		c := c
		h.check(&c, true)
		o.stat("corpus", 1)
	}
	for _, s := range c05Testdata(o) {
		s := s
		for _, opt := range allOpts {
			h.present(&s, s.b, "", opt, true)
		}
		for _, m := range c05Mutants(r, s.b, nil, 40) {
			h.present(&s, m.b, m.note, allOpts[r.intn(len(allOpts))], false)
		}
	}

	rounds, budget := 1, 48
	if o.thorough {
		rounds, budget = 6, 96
	}
	for round := 0; round < rounds && !h.aborted; round++ {
		seeds := append(c05Seeds(r, o), c05RawSeeds(r)...)
		byKind := map[string][]int{}
		for i, s := range seeds {
			byKind[s.kind] = append(byKind[s.kind], i)
			o.stat("seeds:"+s.kind, 1)
		}
		for i := range seeds {
			s := &seeds[i]
			// the unmutated seed under every option combination
			for _, opt := range allOpts {
				h.present(s, s.b, "seed", opt, opt.ap <= 1 && !opt.mrt)
			}
			peers := byKind[s.kind]
			other := seeds[peers[r.intn(len(peers))]].b
			muts := c05Mutants(r, s.b, other, budget)
			re := c05Reframed(r, s, other, budget/2)
			o.stat("mutants-reframed:"+s.kind, len(re))
			muts = append(muts, re...)
			o.stat("mutants:"+s.kind, len(muts))
			native := h.seedOpt(s)
			for k, m := range muts {
				opt := native
				if k%3 == 1 {
					opt = allOpts[r.intn(len(allOpts))]
				}
				h.present(s, m.b, m.note, opt, k%4 == 0)
			}
			if i < 3 && round == 0 {
				o.sample(fmt.Sprintf("%s %s %s (+%d mutants)", s.kind, s.name, vcHex(s.b), len(muts)))
			}
		}
	}
	// ---- arbitrary octets (no structure) at every entry point
	nRandom := 3000
	if o.thorough {
		nRandom = 30000
	}
	for i := 0; i < nRandom && !h.aborted; i++ {
		b := vcGenBytes(r, r.pick(0, 1, 2, 3, 5, 8, 13, 19, 23, 40, 100))
		opt := allOpts[r.intn(len(allOpts))]
		switch i % 5 {
		case 0:
			if len(b) >= 19 && r.chance(80) {
				for j := 0; j < 16; j++ {
					b[j] = 0xff
				}
				if r.chance(70) {
					binary.BigEndian.PutUint16(b[16:], uint16(len(b)))
					b[18] = byte(1 + r.intn(5))
				}
			}
			h.present(&c05Seed{kind: "msg", name: "random"}, b, "", opt, true)
		case 1:
			h.present(&c05Seed{kind: "attr", name: "random"}, b, "", opt, true)
		case 2:
			h.present(&c05Seed{kind: "cap", name: "random"}, b, "", opt, true)
		default:
			h.present(&c05Seed{kind: "nlri", name: "random", fam: vC04Fam(r)}, b, "", opt, true)
		}
	}
	o.stats["guarded_calls"] = h.calls
	_ = netip.Addr{}
}
