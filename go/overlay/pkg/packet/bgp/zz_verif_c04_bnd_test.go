//go:build verif

// C04 — boundary strata of the all-families oracle: values that sit exactly AT, one below and one
// above every length-form / size boundary of the NLRI and attribute codecs, derived BY CONSTRUCTION
// (sizes are measured on the serialised components, never taken from the Len() under test):
//   * FlowSpec NLRI body 238..242 octets (one- vs two-octet 0xfnnn length form) and 4092..4094
//     (the 0xfff maximum), in all five FlowSpec families;
//   * prefix bit lengths 8k-1, 8k, 8k+1 for IPv4/IPv6 unicast, labelled, VPN and EVPN type-5;
//   * label stacks of depth 1..5 with the extreme label values;
//   * attribute value length 253..258 (extended-length flag at 255/256) for MP_REACH, MP_UNREACH,
//     PMSI, AIGP, tunnel-encap, extended / IPv6 extended communities, BGP-LS;
//   * one-octet vs two-octet sub-TLV length forms of tunnel-encap (incl. SR policy) at 253..258;
//   * opaque NLRI key lengths around 255/256; capability value lengths up to 255.
// vcPairAttrs additionally frames EVERY NLRI case (generated and boundary) as the first of two NLRIs in
// an MP_REACH and an MP_UNREACH attribute: the re-parse must find exactly the two NLRIs.
package bgp

import (
	"fmt"
	"net"
	"net/netip"
	"strings"
)

// measured size of a FlowSpec NLRI body: RD + components, from their own Serialize
func vcFSBody(rd RouteDistinguisherInterface, cs []FlowSpecComponentInterface) int {
	n := 0
	if rd != nil {
		n += 8
	}
	for _, c := range cs {
		b, err := c.Serialize()
		if err != nil {
			return -1
		}
		n += len(b)
	}
	return n
}

func vcFSComponentsOf(fam Family, a, b int) []FlowSpecComponentInterface {
	var cs []FlowSpecComponentInterface
	typ := FLOW_SPEC_TYPE_PORT
	switch fam.Afi() {
	case AFI_IP:
		p, _ := NewIPAddrPrefix(netip.MustParsePrefix("192.0.2.1/32"))
		cs = append(cs, NewFlowSpecDestinationPrefix(p))
	case AFI_IP6:
		p, _ := NewIPAddrPrefix(netip.MustParsePrefix("2001:db8::1/128"))
		cs = append(cs, NewFlowSpecDestinationPrefix6(p, 0))
	case AFI_L2VPN:
		cs = append(cs, NewFlowSpecDestinationMac(net.HardwareAddr{2, 0, 0, 0, 0, 1}))
		typ = FLOW_SPEC_TYPE_ETHERNET_TYPE
	}
	items := make([]*FlowSpecComponentItem, 0, a+b)
	for i := 0; i < a; i++ {
		items = append(items, NewFlowSpecComponentItem(DEC_NUM_OP_EQ, uint64(1+i%200))) // one value octet
	}
	for i := 0; i < b; i++ {
		items = append(items, NewFlowSpecComponentItem(DEC_NUM_OP_EQ, uint64(1000+i%200))) // two value octets
	}
	if len(items) > 0 {
		cs = append(cs, NewFlowSpecComponent(typ, items))
	}
	return cs
}

// a FlowSpec NLRI of family fam whose body (what follows the length field) is exactly `body` octets
func vcFSOfBody(fam Family, body int) (NLRI, bool) {
	var rd RouteDistinguisherInterface
	if fam.Safi() == SAFI_FLOW_SPEC_VPN {
		rd = NewRouteDistinguisherTwoOctetAS(65000, 7)
	}
	s10 := vcFSBody(rd, vcFSComponentsOf(fam, 1, 0))
	s20 := vcFSBody(rd, vcFSComponentsOf(fam, 2, 0))
	s11 := vcFSBody(rd, vcFSComponentsOf(fam, 1, 1))
	if s10 < 0 || s20 <= s10 || s11 <= s10 {
		return nil, false
	}
	c1, c2 := s20-s10, s11-s10
	for b := 0; b < 4; b++ {
		rest := body - s10 - b*c2
		if rest < 0 || rest%c1 != 0 {
			continue
		}
		a := 1 + rest/c1
		cs := vcFSComponentsOf(fam, a, b)
		if vcFSBody(rd, cs) != body { // by construction, checked by measurement
			continue
		}
		var n *FlowSpecNLRI
		var err error
		if rd != nil {
			n, err = NewFlowSpecVPN(fam, rd, cs)
		} else {
			n, err = NewFlowSpecUnicast(fam, cs)
		}
		if err != nil {
			return nil, false
		}
		return n, true
	}
	return nil, false
}

func vcBits(width int) []int {
	seen := map[int]bool{}
	var out []int
	for k := 0; k <= width/8; k++ {
		for _, b := range []int{8*k - 1, 8 * k, 8*k + 1} {
			if b >= 0 && b <= width && !seen[b] {
				seen[b] = true
				out = append(out, b)
			}
		}
	}
	return out
}

func vcPfxOf(v6 bool, bits int) netip.Prefix {
	if v6 {
		a := netip.MustParseAddr("2001:db8:ffff:ffff:ffff:ffff:ffff:ffff")
		p, _ := a.Prefix(bits)
		return p
	}
	p, _ := netip.MustParseAddr("203.255.255.255").Prefix(bits)
	return p
}

// vcBoundaryNLRIs: names ending in "/over-max" are expected to be refused by Serialize.
func vcBoundaryNLRIs() []vC04NLRICase {
	var out []vC04NLRICase
	add := func(name string, f Family, mk func() (NLRI, error)) {
		vcTry(func() {
			n, err := mk()
			if err == nil && n != nil && !vC04IsNil(n) {
				out = append(out, vC04NLRICase{name: "bnd/" + name, family: f, nlri: n})
			}
		})
	}
	// FlowSpec: the one-/two-octet length form and the 0xfff maximum
	for _, fam := range []Family{RF_FS_IPv4_UC, RF_FS_IPv6_UC, RF_FS_IPv4_VPN, RF_FS_IPv6_VPN, RF_FS_L2_VPN} {
		fam := fam
		for _, body := range []int{237, 238, 239, 240, 241, 242, 243, 4091, 4092, 4093, 4094} {
			body := body
			name := fmt.Sprintf("flowspec-body-%d/%s", body, fam)
			if body+2 > 0xfff {
				name += "/over-max"
			}
			add(name, fam, func() (NLRI, error) {
				n, ok := vcFSOfBody(fam, body)
				if !ok {
					return nil, fmt.Errorf("size not reachable")
				}
				return n, nil
			})
		}
	}
	rd := NewRouteDistinguisherTwoOctetAS(65000, 1)
	rd4 := NewRouteDistinguisherFourOctetAS(4200000000, 1)
	// prefix bit lengths at every octet boundary
	for _, v6 := range []bool{false, true} {
		v6 := v6
		width, uc, mpls, vpn := 32, RF_IPv4_UC, RF_IPv4_MPLS, RF_IPv4_VPN
		if v6 {
			width, uc, mpls, vpn = 128, RF_IPv6_UC, RF_IPv6_MPLS, RF_IPv6_VPN
		}
		for _, bits := range vcBits(width) {
			bits := bits
			p := vcPfxOf(v6, bits)
			add(fmt.Sprintf("prefix/%s/%d", uc, bits), uc, func() (NLRI, error) { return NewIPAddrPrefix(p) })
			for depth := 1; depth <= 3; depth++ {
				depth := depth
				labels := []uint32{1048575, 16, 100}[:depth]
				add(fmt.Sprintf("labelled/%s/%d/d%d", mpls, bits, depth), mpls, func() (NLRI, error) {
					return NewLabeledIPAddrPrefix(p, *NewMPLSLabelStack(labels...))
				})
			}
			add(fmt.Sprintf("vpn/%s/%d", vpn, bits), vpn, func() (NLRI, error) {
				return NewLabeledVPNIPAddrPrefix(p, *NewMPLSLabelStack(1048575), rd)
			})
			add(fmt.Sprintf("vpn2/%s/%d", vpn, bits), vpn, func() (NLRI, error) {
				return NewLabeledVPNIPAddrPrefix(p, *NewMPLSLabelStack(16, 17), rd4)
			})
			add(fmt.Sprintf("evpn5/%d/v6=%v", bits, v6), RF_EVPN, func() (NLRI, error) {
				gw := netip.MustParseAddr("192.0.2.254")
				if v6 {
					gw = netip.MustParseAddr("2001:db8::fe")
				}
				return NewEVPNIPPrefixRoute(rd, EthernetSegmentIdentifier{}, 7, uint8(bits), p.Addr(), gw, 1048575)
			})
		}
	}
	// label stacks: depth 1..5, extreme values; 0 and 3 only at the bottom
	for depth := 1; depth <= 5; depth++ {
		for _, bottom := range []uint32{0, 3, 16, 1048575} {
			depth, bottom := depth, bottom
			ls := make([]uint32, depth)
			for i := range ls {
				ls[i] = []uint32{1048575, 16, 524287, 65536}[i%4]
			}
			ls[depth-1] = bottom
			add(fmt.Sprintf("labels/d%d/b%d", depth, bottom), RF_IPv4_MPLS, func() (NLRI, error) {
				return NewLabeledIPAddrPrefix(netip.MustParsePrefix("10.0.0.0/8"), *NewMPLSLabelStack(ls...))
			})
			add(fmt.Sprintf("vpnlabels/d%d/b%d", depth, bottom), RF_IPv4_VPN, func() (NLRI, error) {
				return NewLabeledVPNIPAddrPrefix(netip.MustParsePrefix("10.0.0.0/8"), *NewMPLSLabelStack(ls...), rd)
			})
		}
	}
	// opaque NLRI: two-octet key length around 255/256
	for _, kl := range []int{1, 254, 255, 256, 257} {
		kl := kl
		add(fmt.Sprintf("opaque/key%d", kl), RF_OPAQUE, func() (NLRI, error) {
			return NewOpaqueNLRI([]byte(strings.Repeat("k", kl)), []byte("v")), nil
		})
	}
	return out
}

// IPv4 / IPv6 unicast prefixes whose encodings add up to exactly `octets`
func vcPrefixesOfSize(v6 bool, octets int) []PathNLRI {
	var out []PathNLRI
	i := 0
	full, fullLen := 32, 5
	if v6 {
		full, fullLen = 128, 17
	}
	for octets > 0 {
		bits, l := full, fullLen
		if octets < fullLen {
			l = octets
			bits = (l - 1) * 8
		}
		a := netip.AddrFrom4([4]byte{10, byte(i >> 8), byte(i), 255})
		if v6 {
			a = netip.AddrFrom16([16]byte{0x20, 1, 0xd, 0xb8, byte(i >> 8), byte(i), 255, 255, 255, 255, 255, 255, 255, 255, 255, 255})
		}
		p, _ := a.Prefix(bits)
		n, err := NewIPAddrPrefix(p)
		if err != nil {
			return nil
		}
		out = append(out, PathNLRI{NLRI: n})
		octets -= l
		i++
	}
	return out
}

func vcBoundaryAttrs() []vC04AttrCase {
	var out []vC04AttrCase
	add := func(name string, mk func() (PathAttributeInterface, error)) {
		vcTry(func() {
			a, err := mk()
			if err == nil && a != nil && !vC04IsNil(a) {
				out = append(out, vC04AttrCase{name: name, attr: a})
			}
		})
	}
	sizes := []int{253, 254, 255, 256, 257, 258}
	for _, vl := range sizes {
		vl := vl
		// MP_REACH: AFI(2) SAFI(1) nhlen(1) nh reserved(1) NLRI;  MP_UNREACH: AFI(2) SAFI(1) NLRI
		add(fmt.Sprintf("mp_reach:bnd/value-%d/v4", vl), func() (PathAttributeInterface, error) {
			return NewPathAttributeMpReachNLRI(RF_IPv4_UC, vcPrefixesOfSize(false, vl-9), netip.MustParseAddr("192.0.2.1"))
		})
		add(fmt.Sprintf("mp_reach:bnd/value-%d/v6", vl), func() (PathAttributeInterface, error) {
			return NewPathAttributeMpReachNLRI(RF_IPv6_UC, vcPrefixesOfSize(true, vl-21), netip.MustParseAddr("2001:db8::1"))
		})
		add(fmt.Sprintf("mp_unreach:bnd/value-%d/v4", vl), func() (PathAttributeInterface, error) {
			return NewPathAttributeMpUnreachNLRI(RF_IPv4_UC, vcPrefixesOfSize(false, vl-3))
		})
		add(fmt.Sprintf("mp_unreach:bnd/value-%d/v6", vl), func() (PathAttributeInterface, error) {
			return NewPathAttributeMpUnreachNLRI(RF_IPv6_UC, vcPrefixesOfSize(true, vl-3))
		})
		// PMSI: flags(1) type(1) label(3) id
		add(fmt.Sprintf("pmsi:bnd/value-%d", vl), func() (PathAttributeInterface, error) {
			return NewPathAttributePmsiTunnel(PMSI_TUNNEL_TYPE_PIM_SM_TREE, false, 1048575, NewDefaultPmsiTunnelID(make([]byte, vl-5))), nil
		})
		// AIGP: type(1) length(2) value
		add(fmt.Sprintf("aigp:bnd/value-%d", vl), func() (PathAttributeInterface, error) {
			return NewPathAttributeAigp([]AigpTLVInterface{NewAigpTLVDefault(39, make([]byte, vl-3))}), nil
		})
		add(fmt.Sprintf("aigp:bnd/value-%d/two", vl), func() (PathAttributeInterface, error) {
			return NewPathAttributeAigp([]AigpTLVInterface{NewAigpTLVIgpMetric(1 << 40), NewAigpTLVDefault(39, make([]byte, vl-11-3))}), nil
		})
		// tunnel-encap: TLV type(2) len(2) + sub-TLV; short form type(1) len(1), long form type(1) len(2)
		add(fmt.Sprintf("tunnel-encap:bnd/attr-value-%d/short-subtlv", vl), func() (PathAttributeInterface, error) {
			if vl-6 > 255 {
				return nil, fmt.Errorf("one-octet length cannot carry it")
			}
			return NewPathAttributeTunnelEncap([]*TunnelEncapTLV{NewTunnelEncapTLV(TUNNEL_TYPE_VXLAN, []TunnelEncapSubTLVInterface{NewTunnelEncapSubTLVUnknown(100, make([]byte, vl-6))})}), nil
		})
		add(fmt.Sprintf("tunnel-encap:bnd/attr-value-%d/long-subtlv", vl), func() (PathAttributeInterface, error) {
			return NewPathAttributeTunnelEncap([]*TunnelEncapTLV{NewTunnelEncapTLV(TUNNEL_TYPE_VXLAN, []TunnelEncapSubTLVInterface{NewTunnelEncapSubTLVUnknown(200, make([]byte, vl-7))})}), nil
		})
		// sub-TLV VALUE length at the boundary (the one-octet form ends at 255)
		add(fmt.Sprintf("tunnel-encap:bnd/subtlv-value-%d/long", vl), func() (PathAttributeInterface, error) {
			return NewPathAttributeTunnelEncap([]*TunnelEncapTLV{NewTunnelEncapTLV(TUNNEL_TYPE_VXLAN, []TunnelEncapSubTLVInterface{NewTunnelEncapSubTLVUnknown(200, make([]byte, vl)), NewTunnelEncapSubTLVColor(7)})}), nil
		})
		if vl <= 255 {
			add(fmt.Sprintf("tunnel-encap:bnd/subtlv-value-%d/short", vl), func() (PathAttributeInterface, error) {
				return NewPathAttributeTunnelEncap([]*TunnelEncapTLV{NewTunnelEncapTLV(TUNNEL_TYPE_VXLAN, []TunnelEncapSubTLVInterface{NewTunnelEncapSubTLVUnknown(100, make([]byte, vl)), NewTunnelEncapSubTLVColor(7)})}), nil
			})
		}
		add(fmt.Sprintf("tunnel-encap:bnd/sr-candidate-path-name-%d", vl), func() (PathAttributeInterface, error) {
			return NewPathAttributeTunnelEncap([]*TunnelEncapTLV{NewTunnelEncapTLV(TUNNEL_TYPE_SR_POLICY, []TunnelEncapSubTLVInterface{
				NewTunnelEncapSubTLVSRPreference(0, 100), NewTunnelEncapSubTLVSRCandidatePathName(strings.Repeat("n", vl)), NewTunnelEncapSubTLVSRPriority(1)})}), nil
		})
		// BGP-LS attribute: TLV type(2) len(2) value; opaque node attribute fills up to the wanted value length
		add(fmt.Sprintf("ls:bnd/value-%d", vl), func() (PathAttributeInterface, error) {
			b := make([]byte, vl-4)
			return vC04LsAttr(&LsAttribute{Node: LsAttributeNode{Opaque: &b}})
		})
		add(fmt.Sprintf("ls:bnd/name-%d", vl), func() (PathAttributeInterface, error) {
			s := strings.Repeat("r", vl-4)
			return vC04LsAttr(&LsAttribute{Node: LsAttributeNode{Name: &s}})
		})
	}
	// 8-octet and 20-octet communities: 248 / 256 / 264 and 240 / 260
	for _, n := range []int{31, 32, 33} {
		n := n
		add(fmt.Sprintf("extcomm:bnd/count-%d", n), func() (PathAttributeInterface, error) {
			var l []ExtendedCommunityInterface
			for i := 0; i < n; i++ {
				l = append(l, NewTwoOctetAsSpecificExtended(EC_SUBTYPE_ROUTE_TARGET, 65000, uint32(i), true))
			}
			return NewPathAttributeExtendedCommunities(l), nil
		})
	}
	for _, n := range []int{12, 13} {
		n := n
		add(fmt.Sprintf("ip6extcomm:bnd/count-%d", n), func() (PathAttributeInterface, error) {
			var l []ExtendedCommunityInterface
			for i := 0; i < n; i++ {
				e, err := NewIPv6AddressSpecificExtended(EC_SUBTYPE_ROUTE_TARGET, netip.MustParseAddr("2001:db8::1"), uint16(i), true)
				if err != nil {
					return nil, err
				}
				l = append(l, e)
			}
			return NewPathAttributeIP6ExtendedCommunities(l), nil
		})
	}
	return out
}

func vcBoundaryCaps() []ParameterCapabilityInterface {
	var out []ParameterCapabilityInterface
	for _, n := range []int{0, 1, 127, 128, 253, 254, 255} {
		out = append(out, NewCapUnknown(BGPCapabilityCode(200), make([]byte, n)))
	}
	for _, n := range []int{0, 1, 63, 64, 120} {
		out = append(out, NewCapFQDN(strings.Repeat("h", n), strings.Repeat("d", n)))
	}
	return out
}

// vcPairAttrs: every NLRI case as the FIRST of two NLRIs in an MP_REACH and an MP_UNREACH attribute
// (the second is a small NLRI of the same family), so that a Len() that disagrees with the octets
// emitted or consumed mis-frames the follower.  Names "mp_reach:pair/…", "mp_unreach:pair/…".
func vcPairAttrs(r *vRand, nl []vC04NLRICase) []vC04AttrCase {
	partner := map[Family]NLRI{}
	for _, c := range nl {
		if _, ok := partner[c.family]; ok || vcNLRIRoot(c.nlri) != "" || strings.HasSuffix(c.name, "/over-max") {
			continue
		}
		if b, err := c.nlri.Serialize(); err == nil && len(b) < 64 {
			partner[c.family] = c.nlri
		}
	}
	var out []vC04AttrCase
	for i, c := range nl {
		p, ok := partner[c.family]
		if !ok || vcIsOpaque(c.nlri) || strings.HasSuffix(c.name, "/over-max") {
			continue
		}
		c, i := c, i
		vcTry(func() {
			pair := []PathNLRI{{NLRI: c.nlri, ID: 0x01020304}, {NLRI: p, ID: 0xfffffffe}}
			if a, err := NewPathAttributeMpReachNLRI(c.family, pair, vC04NextHops(r, c.family, i)...); err == nil && a != nil {
				out = append(out, vC04AttrCase{name: "mp_reach:pair/" + c.name, attr: a})
			}
			if a, err := NewPathAttributeMpUnreachNLRI(c.family, pair); err == nil && a != nil {
				out = append(out, vC04AttrCase{name: "mp_unreach:pair/" + c.name, attr: a})
			}
		})
	}
	return out
}

// vcMpNLRIs: the NLRI list of an MP attribute (nil for any other attribute)
func vcMpNLRIs(a PathAttributeInterface) ([]PathNLRI, bool) {
	switch x := a.(type) {
	case *PathAttributeMpReachNLRI:
		return x.Value, true
	case *PathAttributeMpUnreachNLRI:
		return x.Value, true
	}
	return nil, false
}
