//go:build verif

package bgp

import "encoding/hex"

func mustHex(s string) []byte {
	b, err := hex.DecodeString(s)
	if err != nil {
		panic(err)
	}
	return b
}

// c05Corpus: minimised inputs of past C05 findings; run first, before the random stream.
func c05Corpus() []c05Case {
	var out []c05Case
	add := func(note, entry string, fam Family, opt c05Opt, hx string) {
		b, err := hex.DecodeString(hx)
		if err != nil {
			panic(err)
		}
		out = append(out, c05Case{entry: entry, opt: opt, fam: fam, in: b, note: "corpus/" + note})
	}
	def := c05Opt{}
	// PMSI_TUNNEL shorter than 5 octets: kept for treat-as-withdraw with TunnelID == nil; Serialize / MarshalJSON
	// dereferenced it (fixed: "a partially decoded PMSI_TUNNEL attribute can be serialised …")
	add("pmsi-half-decoded", "msg", 0, def, "ffffffffffffffffffffffffffffffff"+"0022"+"02"+"0000"+"000b"+"40010100"+"c0160400000001"+"180a0102")
	add("pmsi-half-decoded-attr", "attr", 0, def, "c01602ffff")
	// FlowSpec NLRI: one-octet length read only when another octet follows (fixed)
	add("flowspec-empty-last", "nlri", RF_FS_IPv4_UC, def, "00aa")
	// FlowSpec NLRI sent with the 0xfnnn length below 240 octets: 2+n octets consumed, Len() said 1+n (fixed)
	add("flowspec-extlen-short", "nlri", RF_FS_IPv4_UC, def, "f003"+"038106"+"aa")
	// labelled unicast: fewer than 3 octets after the length octet = no label read, accepted only at the end (fixed)
	add("labelled-no-label", "nlri", RF_IPv4_MPLS, def, "032c")
	// label scan ran past the NLRI's own length until it met a bottom-of-stack bit / 000000 (fixed)
	add("label-scan-past-nlri", "nlri", RF_IPv6_VPN_MC, def, "580600000100002b13000000"+"000000")
	// VPLS BGP-AD NLRI (length 12): decoded to a VPLSNLRI with nil RD, Serialize panicked, Len() said 19 (fixed)
	add("vpls-bgp-ad", "nlri", RF_VPLS, def, "000c"+"0000fde800000064"+"0a000001")
	add("vpls-bgp-ad-in-mp-reach", "attr", 0, def, "800e17"+"001941"+"04c0000201"+"00"+"000c"+"0000fde800000064"+"0a000001")
	// ParseBGPBody with a buffer longer than Header.Len-19: the tail was parsed as NLRI (fixed)
	c := c05Case{entry: "body", opt: def, in: mustHex("00000000" + "180a0102"), hlen: 23, htyp: BGP_MSG_UPDATE, note: "corpus/body-longer-than-header"}
	out = append(out, c)
	return out
}
