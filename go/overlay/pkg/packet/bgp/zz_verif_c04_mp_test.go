//go:build verif

// C04 — correspondence for the multiprotocol part of the model (Model/WireMP.lean):
// MP_REACH_NLRI / MP_UNREACH_NLRI and the NLRI codecs of IPv4/IPv6 × {unicast, multicast, labelled,
// VPN, VPN multicast}.  Real objects (from the generators, the boundary strata and the pair framing
// of the all-families oracle) are turned back into abstract descriptions; the model must produce the
// same octets and Len() (`mpenc`), and decode real and mutated octets to the same rendering
// (`mpdec`, `nlri`).
package bgp

import (
	"encoding/binary"
	"fmt"
	"net/netip"
	"strings"
)

func vcMpModelledFam(afi uint16, safi uint8) bool {
	if afi != AFI_IP && afi != AFI_IP6 {
		return false
	}
	switch safi {
	case SAFI_UNICAST, SAFI_MULTICAST, SAFI_MPLS_LABEL, SAFI_MPLS_VPN, SAFI_MPLS_VPN_MULTICAST:
		return true
	}
	return false
}

func vcU32s(l []uint32) string {
	s := make([]string, len(l))
	for i, v := range l {
		s[i] = fmt.Sprint(v)
	}
	return strings.Join(s, ",")
}

func vcRRD(rd RouteDistinguisherInterface) string {
	switch x := rd.(type) {
	case *RouteDistinguisherTwoOctetAS:
		return fmt.Sprintf("0:%d:%d", x.Admin, x.Assigned)
	case *RouteDistinguisherIPAddressAS:
		return fmt.Sprintf("1:%d:%d", vcU32(x.Admin), x.Assigned)
	case *RouteDistinguisherFourOctetAS:
		return fmt.Sprintf("2:%d:%d", x.Admin, x.Assigned)
	case *RouteDistinguisherUnknown:
		return fmt.Sprintf("u%d:%s", x.Type, vcHex(x.Value))
	}
	return fmt.Sprintf("?%T", rd)
}

func vcDescRD(rd RouteDistinguisherInterface) (string, bool) {
	switch x := rd.(type) {
	case *RouteDistinguisherTwoOctetAS:
		return fmt.Sprintf("0 %d %d", x.Admin, x.Assigned), x.Type == BGP_RD_TWO_OCTET_AS
	case *RouteDistinguisherIPAddressAS:
		return fmt.Sprintf("1 %d %d", vcU32(x.Admin), x.Assigned), x.Type == BGP_RD_IPV4_ADDRESS && x.Admin.Is4()
	case *RouteDistinguisherFourOctetAS:
		return fmt.Sprintf("2 %d %d", x.Admin, x.Assigned), x.Type == BGP_RD_FOUR_OCTET_AS
	case *RouteDistinguisherUnknown:
		return fmt.Sprintf("u %d %s", x.Type, vcHex(x.Value)), true
	}
	return "", false
}

func vcRPfx(p netip.Prefix) string { return fmt.Sprintf("%d/%s", p.Bits(), vcHex(p.Addr().AsSlice())) }

func vcRNlriX(n NLRI) string {
	switch x := n.(type) {
	case *IPAddrPrefix:
		return vcRPfx(x.Prefix)
	case *LabeledIPAddrPrefix:
		return fmt.Sprintf("L[%s]%s", vcU32s(x.Labels.Labels), vcRPfx(x.Prefix))
	case *LabeledVPNIPAddrPrefix:
		return fmt.Sprintf("V[%s]rd(%s)%s", vcU32s(x.Labels.Labels), vcRRD(x.RD), vcRPfx(x.Prefix))
	}
	return fmt.Sprintf("?%T", n)
}

func vcListU32(l []uint32) string {
	var sb strings.Builder
	fmt.Fprintf(&sb, "%d", len(l))
	for _, v := range l {
		fmt.Fprintf(&sb, " %d", v)
	}
	return sb.String()
}

// the abstract description of an NLRI object (tokens of the `mpenc` op)
func vcDescNlriX(n NLRI) (string, bool) {
	switch x := n.(type) {
	case *IPAddrPrefix:
		if !x.Prefix.IsValid() {
			return "", false
		}
		return fmt.Sprintf("i %d %s", x.Prefix.Bits(), vcHex(x.Prefix.Addr().AsSlice())), true
	case *LabeledIPAddrPrefix:
		if !x.Prefix.IsValid() || len(x.Labels.Labels) == 0 {
			return "", false
		}
		return fmt.Sprintf("l %s %d %s", vcListU32(x.Labels.Labels), x.Prefix.Bits(), vcHex(x.Prefix.Addr().AsSlice())), true
	case *LabeledVPNIPAddrPrefix:
		if !x.Prefix.IsValid() || len(x.Labels.Labels) == 0 || x.RD == nil {
			return "", false
		}
		rd, ok := vcDescRD(x.RD)
		if !ok {
			return "", false
		}
		return fmt.Sprintf("v %s %s %d %s", vcListU32(x.Labels.Labels), rd, x.Prefix.Bits(), vcHex(x.Prefix.Addr().AsSlice())), true
	}
	return "", false
}

func vcRPathNlrisX(l []PathNLRI) string {
	s := make([]string, len(l))
	for i, n := range l {
		s[i] = fmt.Sprintf("%d:%s", n.ID, vcRNlriX(n.NLRI))
	}
	return strings.Join(s, " ")
}

func vcRAttrX(p PathAttributeInterface) string {
	switch a := p.(type) {
	case *PathAttributeMpReachNLRI:
		return fmt.Sprintf("{f=%d t=14 l=%d reach %d %d nh=%s ll=%s [%s]}", uint8(a.GetFlags()), vcAttrLength(a), a.AFI, a.SAFI,
			vcHex(a.Nexthop.AsSlice()), vcHex(a.LinkLocalNexthop.AsSlice()), vcRPathNlrisX(a.Value))
	case *PathAttributeMpUnreachNLRI:
		return fmt.Sprintf("{f=%d t=15 l=%d unreach %d %d [%s]}", uint8(a.GetFlags()), vcAttrLength(a), a.AFI, a.SAFI, vcRPathNlrisX(a.Value))
	}
	return vcRAttr(p)
}

func vcDescPathNlrisX(l []PathNLRI) (string, bool) {
	var sb strings.Builder
	fmt.Fprintf(&sb, "%d", len(l))
	for _, n := range l {
		d, ok := vcDescNlriX(n.NLRI)
		if !ok {
			return "", false
		}
		fmt.Fprintf(&sb, " %d %s", n.ID, d)
	}
	return sb.String(), true
}

// the `mpenc` description of an MP attribute built by its constructor
func vcDescMp(p PathAttributeInterface) (string, bool) {
	switch a := p.(type) {
	case *PathAttributeMpReachNLRI:
		if !vcMpModelledFam(a.AFI, a.SAFI) {
			return "", false
		}
		nl, ok := vcDescPathNlrisX(a.Value)
		if !ok {
			return "", false
		}
		return fmt.Sprintf("R %d %d %s %s %s", a.AFI, a.SAFI, vcHex(a.Nexthop.AsSlice()), vcHex(a.LinkLocalNexthop.AsSlice()), nl), true
	case *PathAttributeMpUnreachNLRI:
		if !vcMpModelledFam(a.AFI, a.SAFI) {
			return "", false
		}
		nl, ok := vcDescPathNlrisX(a.Value)
		if !ok {
			return "", false
		}
		return fmt.Sprintf("U %d %d %s", a.AFI, a.SAFI, nl), true
	}
	return "", false
}

// vcMpCorr carries the option line last sent to the model
type vcMpCorr struct {
	o    *vOut
	last string
}

func (m *vcMpCorr) setOpts(fam Family, ap, use2 bool) { m.setOptsRxTx(fam, ap, ap, use2) }

func (m *vcMpCorr) setOptsRxTx(fam Family, rx, tx, use2 bool) {
	var line string
	if fam == RF_IPv4_UC {
		line = fmt.Sprintf("optsx %d %d %d 1 0", vcB(rx), vcB(tx), vcB(use2))
	} else if rx || tx {
		line = fmt.Sprintf("optsx 0 0 %d 1 1 %d %d %d %d", vcB(use2), fam.Afi(), fam.Safi(), vcB(rx), vcB(tx))
	} else {
		line = fmt.Sprintf("optsx 0 0 %d 1 0", vcB(use2))
	}
	if line != m.last {
		m.o.op("%s", line)
		m.last = line
	}
}

func vcMpDecode(b []byte, opts []*MarshallingOption) (s string) {
	defer func() {
		if e := recover(); e != nil {
			s = "panic"
		}
	}()
	p, err := GetPathAttribute(b)
	if err != nil {
		return "reject"
	}
	if err := p.DecodeFromBytes(b, opts...); err != nil {
		return "reject"
	}
	return fmt.Sprintf("ok %s len=%d", vcRAttrX(p), p.Len(opts...))
}

func vcNlriDecode(fam Family, b []byte, opts []*MarshallingOption) (s string) {
	defer func() {
		if e := recover(); e != nil {
			s = "panic"
		}
	}()
	n, err := NLRIFromSlice(fam, b, opts...)
	if err != nil {
		return "reject"
	}
	return fmt.Sprintf("ok %s len=%d", vcRNlriX(n), n.Len(opts...))
}

// can the model be asked about these attribute octets?  (type 14/15 with a modelled family; a header
// too short to tell is rejected by both sides)
func vcMpAskable(b []byte) bool {
	if len(b) < 2 || (b[1] != 14 && b[1] != 15) {
		return false
	}
	off := 3
	if b[0]&0x10 != 0 {
		off = 4
	}
	if len(b) < off+3 {
		return true
	}
	return vcMpModelledFam(binary.BigEndian.Uint16(b[off:off+2]), b[off+2])
}

func vcMutateSmall(r *vRand, b []byte, head int) []byte {
	c := append([]byte{}, b...)
	if len(c) == 0 {
		return c
	}
	switch r.intn(5) {
	case 0: // nudge one of the first `head` octets (header, AFI/SAFI, next-hop length, bit length, labels)
		i := r.intn(min(len(c), head))
		c[i] += byte(r.pick(1, 255, 8, 248, 16))
	case 1: // nudge any octet
		i := r.intn(len(c))
		c[i] += byte(r.pick(1, 255))
	case 2: // flip one bit
		i := r.intn(len(c))
		c[i] ^= 1 << uint(r.intn(8))
	case 3: // truncate
		c = c[:r.intn(len(c))]
	case 4: // append
		c = append(c, vcGenBytes(r, 1+r.intn(4))...)
	}
	return c
}

// asks about one MP attribute case (called from the all-families oracle for every option set)
func (m *vcMpCorr) attrAsks(r *vRand, fam Family, ap, use2 bool, opts []*MarshallingOption, attr PathAttributeInterface) {
	desc, ok := vcDescMp(attr)
	if !ok {
		return
	}
	o := m.o
	lenBefore := attr.Len(opts...)
	b, err := attr.Serialize(opts...)
	if err != nil {
		return
	}
	m.setOpts(fam, ap, use2)
	o.ask(fmt.Sprintf("%s L=%d", vcHex(b), lenBefore), "mpenc %s", desc)
	o.stat("mp_enc", 1)
	if len(b) > 258 {
		o.stat("mp_enc_extended_length", 1)
	}
	in := append(append([]byte{}, b...), vcGenBytes(r, r.intn(3))...)
	o.ask(vcMpDecode(in, opts), "mpdec %s", vcHex(in))
	o.stat("mp_dec", 1)
	if ap && r.chance(50) {
		// asymmetric ADD-PATH (send-only / receive-only): encode and decode look at different bits
		for _, rxOnly := range []bool{true, false} {
			mode := BGP_ADD_PATH_SEND
			if rxOnly {
				mode = BGP_ADD_PATH_RECEIVE
			}
			ao := []*MarshallingOption{{AddPath: map[Family]BGPAddPathMode{fam: mode}, ExtendedMessage: true}}
			ab, err := attr.Serialize(ao...)
			if err != nil {
				continue
			}
			m.setOptsRxTx(fam, rxOnly, !rxOnly, false)
			o.ask(fmt.Sprintf("%s L=%d", vcHex(ab), attr.Len(ao...)), "mpenc %s", desc)
			o.ask(vcMpDecode(ab, ao), "mpdec %s", vcHex(ab))
			o.stat("mp_asymmetric_addpath", 1)
		}
		m.setOpts(fam, ap, use2)
	}
	for i := 0; i < 2; i++ {
		mu := vcMutateSmall(r, b, 14)
		if !vcMpAskable(mu) {
			o.stat("mp_mutant_skipped", 1)
			continue
		}
		ans := vcMpDecode(mu, opts)
		if ans == "reject" {
			o.stat("mp_mutant_reject", 1)
		} else {
			o.stat("mp_mutant_accept", 1)
		}
		o.ask(ans, "mpdec %s", vcHex(mu))
	}
}

// asks about one NLRI case of a modelled family
func (m *vcMpCorr) nlriAsks(r *vRand, fam Family, ap bool, opts []*MarshallingOption, n NLRI) {
	if !vcMpModelledFam(fam.Afi(), fam.Safi()) {
		return
	}
	if _, ok := vcDescNlriX(n); !ok {
		return
	}
	b, err := n.Serialize(opts...)
	if err != nil {
		return
	}
	o := m.o
	m.setOpts(fam, ap, false)
	in := append(append([]byte{}, b...), vcGenBytes(r, r.intn(3))...)
	o.ask(vcNlriDecode(fam, in, opts), "nlri %d %d %s", fam.Afi(), fam.Safi(), vcHex(in))
	o.stat("mp_nlri_dec", 1)
	for i := 0; i < 2; i++ {
		mu := vcMutateSmall(r, b, 8)
		ans := vcNlriDecode(fam, mu, opts)
		if ans == "reject" {
			o.stat("mp_nlri_mutant_reject", 1)
		} else {
			o.stat("mp_nlri_mutant_accept", 1)
		}
		o.ask(ans, "nlri %d %d %s", fam.Afi(), fam.Safi(), vcHex(mu))
	}
}
