//go:build verif

// C04 — the EMPTY / degenerate members of every message and attribute kind, under EVERY option
// combination {ADD-PATH none / receive / send / both for the family} × {2- / 4-octet AS} ×
// {extended message}:
//   * End-of-RIB of every family (NewEndOfRib: the empty UPDATE, and MP_UNREACH_NLRI with no route),
//     as a whole message and as an attribute; asked of the model too for the modelled families;
//   * MP_REACH_NLRI without NLRI (the constructor refuses it; built as a literal, as a peer may send it);
//   * UPDATEs with nothing / only withdrawals / only attributes / only NLRI, and every list-valued
//     modelled attribute with an empty list (through vcOneCase: model + oracle);
//   * empty un-modelled attributes (extended / IPv6 extended communities, tunnel-encap, AIGP, PMSI,
//     prefix-SID, BGP-LS) through the attribute oracle;
//   * capabilities with an empty value / zero tuples and OPENs without capabilities.
package bgp

import (
	"fmt"
	"net/netip"
)

type vcMode struct{ rx, tx bool }

var vcModes = []vcMode{{false, false}, {true, false}, {false, true}, {true, true}}

func vcModeOpts(fam Family, m vcMode, use2, ext bool) []*MarshallingOption {
	mode := BGP_ADD_PATH_NONE
	if m.rx {
		mode |= BGP_ADD_PATH_RECEIVE
	}
	if m.tx {
		mode |= BGP_ADD_PATH_SEND
	}
	o := &MarshallingOption{Use2ByteAS: use2, ExtendedMessage: ext}
	if mode != BGP_ADD_PATH_NONE {
		o.AddPath = map[Family]BGPAddPathMode{fam: mode}
	}
	return []*MarshallingOption{o}
}

func vcEmptyAttrs() []vC04AttrCase {
	var out []vC04AttrCase
	add := func(name string, mk func() (PathAttributeInterface, error)) {
		vcTry(func() {
			a, err := mk()
			if err == nil && a != nil && !vC04IsNil(a) {
				out = append(out, vC04AttrCase{name: name, attr: a})
			}
		})
	}
	add("extcomm:empty/list", func() (PathAttributeInterface, error) { return NewPathAttributeExtendedCommunities(nil), nil })
	add("ip6extcomm:empty/list", func() (PathAttributeInterface, error) { return NewPathAttributeIP6ExtendedCommunities(nil), nil })
	add("tunnel-encap:empty/no-tlv", func() (PathAttributeInterface, error) { return NewPathAttributeTunnelEncap(nil), nil })
	add("aigp:empty/no-tlv", func() (PathAttributeInterface, error) { return NewPathAttributeAigp(nil), nil })
	add("pmsi:empty/id", func() (PathAttributeInterface, error) {
		return NewPathAttributePmsiTunnel(PMSI_TUNNEL_TYPE_NO_TUNNEL, false, 0, NewDefaultPmsiTunnelID(nil)), nil
	})
	add("prefix-sid:empty/no-tlv", func() (PathAttributeInterface, error) { return NewPathAttributePrefixSID(), nil })
	add("ls:empty/no-tlv", func() (PathAttributeInterface, error) { return vC04LsAttr(&LsAttribute{}) })
	// MP_UNREACH without routes for every family (the End-of-RIB attribute), and MP_REACH without NLRI
	for _, f := range vC04AllFamilies {
		f := f
		add("mp_unreach:empty/"+f.String(), func() (PathAttributeInterface, error) { return NewPathAttributeMpUnreachNLRI(f, []PathNLRI{}) })
		add("mp_reach:empty/"+f.String(), func() (PathAttributeInterface, error) {
			nh := netip.MustParseAddr("192.0.2.1")
			nhl := 4
			if f.Afi() == AFI_IP6 {
				nh, nhl = netip.MustParseAddr("2001:db8::1"), 16
			}
			switch f.Safi() {
			case SAFI_FLOW_SPEC_UNICAST, SAFI_FLOW_SPEC_VPN:
				nhl = 0
			case SAFI_MPLS_VPN:
				nhl += 8
			}
			l := 5 + nhl
			return &PathAttributeMpReachNLRI{
				PathAttribute: PathAttribute{Flags: getPathAttrFlags(BGP_ATTR_TYPE_MP_REACH_NLRI, l), Type: BGP_ATTR_TYPE_MP_REACH_NLRI, Length: uint16(l)},
				Nexthop:       nh, AFI: f.Afi(), SAFI: f.Safi()}, nil
		})
	}
	return out
}

func vcEmptyCaps() []ParameterCapabilityInterface {
	return []ParameterCapabilityInterface{
		NewCapGracefulRestart(false, false, 0, nil), NewCapGracefulRestart(true, true, 4095, nil),
		NewCapLongLivedGracefulRestart(nil),
		NewCapUnknown(BGPCapabilityCode(201), nil), NewCapFQDN("", ""),
		NewCapRouteRefresh(), NewCapExtendedMessage(), NewCapEnhancedRouteRefresh(),
	}
}

// capabilities whose decoder deliberately demands at least one tuple / one character (RFC 7911,
// RFC 8950, the software-version draft): the empty object is constructible but not well-formed — like
// an AS_PATH segment without an AS — so the parser must refuse it, cleanly.
func vcEmptyCapsRefused() []ParameterCapabilityInterface {
	return []ParameterCapabilityInterface{NewCapAddPath(nil), NewCapExtendedNexthop(nil), NewCapSoftwareVersion("")}
}

// vcEmptyOracle: End-of-RIB and the other empty messages under every option combination
func vcEmptyOracle(o *vOut, r *vRand, mp *vcMpCorr) {
	seen := map[string]bool{}
	fail := func(class string, detail map[string]any) {
		if !seen[class] {
			seen[class] = true
			o.fail(class, detail)
		}
	}
	// ---- End-of-RIB of every family × ADD-PATH mode × AS width × extended message
	for _, f := range vC04AllFamilies {
		for _, m := range vcModes {
			for _, use2 := range []bool{false, true} {
				for _, ext := range []bool{false, true} {
					f, m, use2, ext := f, m, use2, ext
					opts := vcModeOpts(f, m, use2, ext)
					det := map[string]any{"family": f.String(), "addpath_rx": m.rx, "addpath_tx": m.tx, "use2": use2, "ext": ext}
					if p := vcTry(func() {
						msg := NewEndOfRib(f)
						b, err := msg.Serialize(opts...)
						if err != nil {
							fail("empty:end-of-rib-not-serialisable", det)
							return
						}
						o.stat("empty_eor", 1)
						det["bytes"] = vcHex(b)
						m2, err := ParseBGPMessage(b, opts...)
						if err != nil {
							det["err"] = err.Error()
							fail("empty:end-of-rib-rejected", det)
							return
						}
						u, ok := m2.Body.(*BGPUpdate)
						if !ok {
							fail("empty:end-of-rib-changed", det)
							return
						}
						if is, fam := u.IsEndOfRib(); !is || fam != f {
							fail("empty:end-of-rib-changed", det)
						}
						b2, err := m2.Serialize(opts...)
						if err != nil || string(b2) != string(b) {
							fail("empty:end-of-rib-changed", det)
						}
					}); p != "" {
						det["panic"] = p
						fail("empty:end-of-rib-panic", det)
					}
					// the attribute alone, against the model where the family is modelled
					if f != RF_IPv4_UC && !use2 && !ext {
						if a, err := NewPathAttributeMpUnreachNLRI(f, []PathNLRI{}); err == nil {
							if desc, ok := vcDescMp(a); ok {
								if ab, err := a.Serialize(opts...); err == nil {
									mp.setOptsRxTx(f, m.rx, m.tx, false)
									o.ask(fmt.Sprintf("%s L=%d", vcHex(ab), a.Len(opts...)), "mpenc %s", desc)
									in := append(append([]byte{}, ab...), vcGenBytes(r, r.intn(3))...)
									o.ask(vcMpDecode(in, opts), "mpdec %s", vcHex(in))
									o.stat("empty_eor_model_asks", 2)
								}
							}
						}
					}
				}
			}
		}
	}
	// ---- empty core messages through the model + oracle path, under all 16 option sets
	descs := []*vcMsg{
		{kind: 'U', stratum: "empty-update"},
		{kind: 'U', stratum: "empty-only-withdrawn", w: []vcPfx{{bits: 0}, {bits: 24, addr: [4]byte{10, 1, 2, 0}}}},
		{kind: 'U', stratum: "empty-only-nlri", n: []vcPfx{{bits: 32, addr: [4]byte{10, 1, 2, 3}}}},
		{kind: 'U', stratum: "empty-only-attrs", attrs: []vcAttr{{kind: 'o', v: 0}, {kind: 'a'}}},
		{kind: 'U', stratum: "empty-lists", attrs: []vcAttr{{kind: 'p'}, {kind: 'c'}, {kind: 'k'}, {kind: 'P'}, {kind: 'L'},
			{kind: 'u', flags: 0xc0, typ: 200}}},
		{kind: 'N', stratum: "empty-notification-data", c: 6, s: 2},
		{kind: 'K', stratum: "keepalive"},
	}
	for i := 0; i < 16; i++ {
		op := vcOpts{apRx: i&1 != 0, apTx: i&2 != 0, use2: i&4 != 0, ext: i&8 != 0}
		o.op("opts %d %d %d %d", vcB(op.apRx), vcB(op.apTx), vcB(op.use2), vcB(op.ext))
		for _, d := range descs {
			c := vcCopyMsg(d)
			if op.apTx { // path ids need ADD-PATH send
				for j := range c.w {
					c.w[j].id = uint32(j + 1)
				}
				for j := range c.n {
					c.n[j].id = 0xffffffff
				}
			}
			vcOneCase(o, r, op, c)
		}
	}
	for _, c := range vcEmptyCapsRefused() {
		c := c
		if p := vcTry(func() {
			b, err := c.Serialize()
			if err != nil {
				return
			}
			if _, err := DecodeCapability(b); err == nil {
				o.stat("empty_cap_accepted", 1)
			} else {
				o.stat("empty_cap_refused_by_design", 1)
			}
		}); p != "" {
			fail("empty:capability-panic", map[string]any{"code": int(c.Code()), "panic": p})
		}
	}
	// ---- OPEN without capabilities / with an empty capability parameter / with every empty capability
	for k, params := range [][]OptionParameterInterface{
		nil,
		{NewOptionParameterCapability(nil)},
		{NewOptionParameterCapability(nil), NewOptionParameterCapability([]ParameterCapabilityInterface{NewCapRouteRefresh()})},
		{NewOptionParameterCapability(vcEmptyCaps())},
	} {
		k, params := k, params
		det := map[string]any{"open_variant": k}
		if p := vcTry(func() {
			msg, err := NewBGPOpenMessage(65000, 90, netip.MustParseAddr("192.0.2.1"), params)
			if err != nil {
				return
			}
			b, err := msg.Serialize()
			if err != nil {
				fail("empty:open-not-serialisable", det)
				return
			}
			o.stat("empty_open", 1)
			det["bytes"] = vcHex(b)
			m2, err := ParseBGPMessage(b)
			if err != nil {
				det["err"] = err.Error()
				fail("empty:open-rejected", det)
				return
			}
			b2, err := m2.Serialize()
			if err != nil {
				fail("empty:open-changed", det)
				return
			}
			// an empty capability parameter (02 00) may legitimately be re-emitted as such: demand a fixpoint
			m3, err := ParseBGPMessage(b2)
			if err != nil {
				fail("empty:open-changed", det)
				return
			}
			b3, _ := m3.Serialize()
			if string(b3) != string(b2) || (k != 1 && k != 2 && string(b2) != string(b)) {
				det["again"] = vcHex(b2)
				fail("empty:open-changed", det)
			}
		}); p != "" {
			det["panic"] = p
			fail("empty:open-panic", det)
		}
	}
}
