//go:build verif

package bmp

// C19 / BMP harness. Correspondence: BMPHeader and BMPPeerHeader DecodeFromBytes / Serialize,
// NewBMPPeerHeader, SplitBMP, and ParseBMPMessage for the message kinds whose body is inside the
// Lean model (Initiation, Termination, Peer Down without an embedded BGP message) against
// Framing.Bmp.*. Oracles (model-independent): every constructible message of every type and
// peer-header flag set parses back and re-serialises identically; SplitBMP / ParseBMPMessage never
// use octets beyond len(data); SplitBMP makes progress or asks for more (also through a real
// bufio.Scanner); no panic / hang on mutated input. Other BODIES are outside the model: sampled.

import (
	"bufio"
	"bytes"
	"encoding/binary"
	"encoding/hex"
	"fmt"
	"math"
	"net/netip"
	"os"
	"strings"
	"sync/atomic"
	"testing"
	"time"

	"github.com/osrg/gobgp/v4/pkg/packet/bgp"
)

func c19Hex(b []byte) string {
	if len(b) == 0 {
		return "-"
	}
	return hex.EncodeToString(b)
}

// watchdog: a decoder call that does not return within 20 s is reported and the run aborted.
type c19Dog struct {
	o    *vOut
	cur  atomic.Value // string
	tick atomic.Int64
}

func c19Watch(o *vOut) *c19Dog {
	d := &c19Dog{o: o}
	d.cur.Store("")
	go func() {
		last, since := int64(-1), time.Now()
		for {
			time.Sleep(500 * time.Millisecond)
			n := d.tick.Load()
			if n != last {
				last, since = n, time.Now()
				continue
			}
			if c := d.cur.Load().(string); c != "" && time.Since(since) > 20*time.Second {
				o.fail("hang", c)
				o.close()
				os.Exit(3)
			}
		}
	}()
	return d
}

// run executes f; a panic is an outcome ("panic"), a hang is caught by the watchdog.
func (d *c19Dog) run(what string, in []byte, f func() string) (s string) {
	d.cur.Store(what + " " + c19Hex(in))
	d.tick.Add(1)
	defer func() {
		if e := recover(); e != nil {
			s = "panic"
		}
		d.cur.Store("")
		d.tick.Add(1)
	}()
	return f()
}


func c19Mutate(r *vRand, b []byte) []byte {
	c := append([]byte(nil), b...)
	for n := 1 + r.intn(2); n > 0; n-- {
		switch r.intn(7) {
		case 0:
			c = c[:r.intn(len(c)+1)]
		case 1:
			for k := r.intn(9); k > 0; k-- {
				c = append(c, byte(r.next()))
			}
		case 2:
			if len(c) > 0 {
				c[r.intn(len(c))] = byte(r.next())
			}
		case 3:
			if len(c) > 0 {
				c[r.intn(len(c))] = byte(r.pick(0, 1, 2, 3, 6, 0x7f, 0x80, 0xff))
			}
		case 4:
			if len(c) >= 2 {
				i := r.intn(len(c) - 1)
				binary.BigEndian.PutUint16(c[i:], uint16(r.pick(0, 1, 2, 3, 0xffff, len(c), 255)))
			}
		case 5:
			if len(c) >= 6 { // Length of the common header
				v := []uint32{0, 1, 5, 6, 7, 47, 48, 49, 0xffffffff, 0x80000000, uint32(len(c)), uint32(len(c) + 1), uint32(len(c) - 1), uint32(len(c) + 7)}[r.intn(14)]
				binary.BigEndian.PutUint32(c[1:], v)
			}
		case 6:
			if len(c) >= 6 { // message type, version
				c[5] = byte(r.intn(8))
				if r.chance(15) {
					c[0] = byte(r.pick(0, 1, 2, 4))
				}
			}
		}
	}
	return c
}

// the float64 timestamp as (seconds, microseconds); exact for every pair of uint32 wire values
func c19Ts(t float64) (uint64, uint64) {
	s := math.Floor(t)
	return uint64(s), uint64(math.Round((t - s) * 1e6))
}

func c19PeerStr(h *BMPPeerHeader) string {
	s, us := c19Ts(h.Timestamp)
	return fmt.Sprintf("%d %d %d %s %d %s %d %d", h.PeerType, h.Flags, h.PeerDistinguisher, c19Hex(h.PeerAddress.AsSlice()), h.PeerAS,
		c19Hex(h.PeerBGPID.AsSlice()), s, us)
}

// true when parseBMPMessage reaches a body that the Lean model does not cover (embedded BGP
// message or statistics): both sides then answer "skip" unless framing already failed.
func c19Unmodelled(d []byte) bool {
	if len(d) < 6 || d[0] != 3 {
		return false
	}
	l := binary.BigEndian.Uint32(d[1:5])
	if l < 6 || uint64(l) > uint64(len(d)) {
		return false
	}
	t := d[5]
	if t > 6 || t == 4 || t == 5 || l-6 < 42 {
		return false
	}
	if t == 2 {
		return l-6-42 >= 1 && (d[48] == 1 || d[48] == 3)
	}
	return true
}

// what the Go parser sees in a BMP message of type 0 / 2 / 3, in the vocabulary of the Lean model
// (Framing.Bmp.parseMsg2): embedded BGP messages as octets
func c19Msg2Str(m *BMPMessage, opts []*bgp.MarshallingOption) string {
	ph := &m.PeerHeader
	s0 := math.Floor(ph.Timestamp)
	sec, usec := uint64(s0), uint64(math.Round((ph.Timestamp-s0)*1e6))
	hx := func(b []byte) string {
		if len(b) == 0 {
			return "-"
		}
		return hex.EncodeToString(b)
	}
	var sb strings.Builder
	fmt.Fprintf(&sb, "ok %d %d %d peer %d %d %d %s %d %s %d %d ", m.Header.Version, m.Header.Length, m.Header.Type, ph.PeerType, ph.Flags, ph.PeerDistinguisher,
		hx(ph.PeerAddress.AsSlice()), ph.PeerAS, hx(ph.PeerBGPID.AsSlice()), sec, usec)
	info := func(l []BMPInfoTLVInterface) {
		fmt.Fprintf(&sb, "%d", len(l))
		for _, t := range l {
			switch x := t.(type) {
			case *BMPInfoTLVString:
				fmt.Fprintf(&sb, " %d %s", x.Type, hx([]byte(x.Value)))
			case *BMPInfoTLVUnknown:
				fmt.Fprintf(&sb, " %d %s", x.Type, hx(x.Value))
			}
		}
	}
	switch b := m.Body.(type) {
	case *BMPRouteMonitoring:
		u, _ := b.BGPUpdate.Serialize(opts...)
		sb.WriteString("rm " + hx(u))
	case *BMPPeerUpNotification:
		s, _ := b.SentOpenMsg.Serialize()
		r, _ := b.ReceivedOpenMsg.Serialize()
		fmt.Fprintf(&sb, "up %s %d %d %s %s info ", hx(b.LocalAddress.AsSlice()), b.LocalPort, b.RemotePort, hx(s), hx(r))
		info(b.Info)
	case *BMPPeerDownNotification:
		switch b.Reason {
		case 1, 3:
			nb, _ := b.BGPNotification.Serialize()
			fmt.Fprintf(&sb, "downmsg %d %s", b.Reason, hx(nb))
		case 6:
			sb.WriteString("downinfo ")
			info(b.Info)
		default:
			fmt.Fprintf(&sb, "down %d %s", b.Reason, hx(b.Data))
		}
	default:
		return "?"
	}
	return sb.String()
}

func c19MsgStr(d []byte) string {
	m, err := ParseBMPMessage(d)
	if c19Unmodelled(d) {
		return "skip"
	}
	if err != nil || m == nil {
		return "err"
	}
	var sb strings.Builder
	fmt.Fprintf(&sb, "ok %d %d %d ", m.Header.Version, m.Header.Length, m.Header.Type)
	if m.Header.Type == BMP_MSG_INITIATION || m.Header.Type == BMP_MSG_TERMINATION {
		sb.WriteString("nopeer ")
	} else {
		sb.WriteString("peer " + c19PeerStr(&m.PeerHeader) + " ")
	}
	info := func(n int, each func(i int) (uint16, []byte)) {
		fmt.Fprintf(&sb, "info %d", n)
		for i := 0; i < n; i++ {
			t, v := each(i)
			fmt.Fprintf(&sb, " %d %s", t, c19Hex(v))
		}
	}
	infoTLV := func(l []BMPInfoTLVInterface) {
		info(len(l), func(i int) (uint16, []byte) {
			switch x := l[i].(type) {
			case *BMPInfoTLVString:
				return x.Type, []byte(x.Value)
			case *BMPInfoTLVUnknown:
				return x.Type, x.Value
			}
			return 0, nil
		})
	}
	switch b := m.Body.(type) {
	case *BMPInitiation:
		infoTLV(b.Info)
	case *BMPTermination:
		info(len(b.Info), func(i int) (uint16, []byte) {
			switch x := b.Info[i].(type) {
			case *BMPTermTLVString:
				return x.Type, []byte(x.Value)
			case *BMPTermTLV16:
				return x.Type, []byte{byte(x.Value >> 8), byte(x.Value)}
			case *BMPTermTLVUnknown:
				return x.Type, x.Value
			}
			return 0, nil
		})
	case *BMPPeerDownNotification:
		if b.Reason == BMP_PEER_DOWN_REASON_TLV_FOLLOWS {
			infoTLV(b.Info)
		} else {
			fmt.Fprintf(&sb, "down %d %s", b.Reason, c19Hex(b.Data))
		}
	default:
		return "skip?"
	}
	return sb.String()
}

type c19Gen struct{ r *vRand }

// the awkward address classes every address-valued field is also generated with: unspecified,
// all-ones, loopback, link-local and (IPv6) IPv4-mapped addresses
func c19Awkward(r *vRand, six bool) netip.Addr {
	if !six {
		return netip.AddrFrom4([][4]byte{{0, 0, 0, 0}, {255, 255, 255, 255}, {127, 0, 0, 1}, {169, 254, byte(r.next()), byte(r.next())}, {224, 0, 0, 5}}[r.intn(5)])
	}
	a := [16]byte{}
	switch r.intn(6) {
	case 0: // ::
	case 1: // ::ffff:a.b.c.d (IPv4-mapped)
		a[10], a[11] = 0xff, 0xff
		binary.BigEndian.PutUint32(a[12:], r.u32()|1<<24)
	case 2: // ::ffff:0.0.0.0
		a[10], a[11] = 0xff, 0xff
	case 3: // link-local
		a[0], a[1] = 0xfe, 0x80
		binary.BigEndian.PutUint64(a[8:], r.next())
	case 4:
		for i := range a {
			a[i] = 0xff
		}
	case 5:
		a[15] = 1
	}
	return netip.AddrFrom16(a)
}

func (g *c19Gen) v4() netip.Addr {
	if g.r.chance(20) {
		return c19Awkward(g.r, false)
	}
	var a [4]byte
	binary.BigEndian.PutUint32(a[:], g.r.u32())
	return netip.AddrFrom4(a)
}

func (g *c19Gen) v6() netip.Addr {
	if g.r.chance(25) {
		return c19Awkward(g.r, true)
	}
	var a [16]byte
	binary.BigEndian.PutUint64(a[:], g.r.next()|1<<61)
	binary.BigEndian.PutUint64(a[8:], g.r.next())
	return netip.AddrFrom16(a)
}

func (g *c19Gen) bytes(max int) []byte {
	b := make([]byte, g.r.intn(max+1))
	for i := range b {
		b[i] = byte(g.r.next())
	}
	return b
}

// every peer type x every flag set (V/L/A/O bits and junk), IPv4 and IPv6 peers, integral and
// fractional timestamps
func (g *c19Gen) peer() (*BMPPeerHeader, uint32, uint32, bool) {
	r := g.r
	t := uint8(r.intn(4))
	flags := uint8(r.intn(16)) << 4
	if r.chance(10) {
		flags = uint8(r.next())
	}
	addr := g.v4()
	v6 := r.chance(50)
	if v6 {
		addr = g.v6()
	}
	if t == BMP_PEER_TYPE_LOCAL_RIB {
		addr = netip.Addr{}
	} else if !v6 {
		flags &^= BMP_PEER_FLAG_IPV6 // a V flag on an IPv4 peer is not what the constructor is for
	}
	sec := uint32(r.pick(0, 1, 1700000000, 2147483647, int(r.u32()>>1), int(r.u32()>>2)))
	usec := uint32(0)
	if r.chance(50) {
		usec = uint32(r.pick(1, 2, 3, 500000, 999999, r.intn(1000000), r.intn(1000000)))
	}
	ts := float64(sec) + float64(usec)*1e-6
	return NewBMPPeerHeader(t, flags, r.next(), addr, r.u32(), g.v4(), ts), sec, usec, v6 && t != BMP_PEER_TYPE_LOCAL_RIB
}

func (g *c19Gen) open() *bgp.BGPMessage {
	caps := []bgp.ParameterCapabilityInterface{bgp.NewCapMultiProtocol(bgp.RF_IPv4_UC), bgp.NewCapFourOctetASNumber(g.r.u32())}
	m, _ := bgp.NewBGPOpenMessage(uint16(g.r.next()), uint16(g.r.intn(400)), g.v4(), []bgp.OptionParameterInterface{bgp.NewOptionParameterCapability(caps)})
	return m
}

func (g *c19Gen) update() *bgp.BGPMessage {
	r := g.r
	pfx, _ := bgp.NewIPAddrPrefix(netip.PrefixFrom(g.v4(), 8+r.intn(25)).Masked())
	nh, _ := bgp.NewPathAttributeNextHop(g.v4())
	p := []bgp.PathAttributeInterface{bgp.NewPathAttributeOrigin(uint8(r.intn(3))),
		bgp.NewPathAttributeAsPath([]bgp.AsPathParamInterface{bgp.NewAs4PathParam(2, []uint32{r.u32(), 65000})}), nh}
	if r.chance(50) {
		p = append(p, bgp.NewPathAttributeMultiExitDisc(r.u32()))
	}
	if r.chance(30) {
		return bgp.NewBGPUpdateMessage([]bgp.PathNLRI{{NLRI: pfx}}, nil, nil)
	}
	return bgp.NewBGPUpdateMessage(nil, p, []bgp.PathNLRI{{NLRI: pfx}})
}

func (g *c19Gen) infoTLVs() []BMPInfoTLVInterface {
	r := g.r
	var l []BMPInfoTLVInterface
	for k := r.intn(4); k > 0; k-- {
		if r.chance(70) {
			l = append(l, NewBMPInfoTLVString(uint16(r.intn(4)), strings.Repeat("n", r.intn(20))))
		} else {
			l = append(l, NewBMPInfoTLVUnknown(uint16(4+r.intn(1000)), g.bytes(12)))
		}
	}
	return l
}

func (g *c19Gen) message(kind int) (*BMPMessage, string) {
	r := g.r
	p, _, _, v6 := g.peer()
	switch kind {
	case 0:
		return NewBMPRouteMonitoring(*p, g.update()), "route_monitoring"
	case 1:
		var st []BMPStatsTLVInterface
		for k := r.intn(6); k > 0; k-- {
			switch r.intn(4) {
			case 0:
				st = append(st, NewBMPStatsTLV32(uint16(r.pick(0, 1, 2, 3, 4, 5, 6, 11, 12, 13)), r.u32()))
			case 1:
				st = append(st, NewBMPStatsTLV64(uint16(r.pick(7, 8, 14, 15)), r.next()))
			case 2:
				st = append(st, NewBMPStatsTLVPerAfiSafi64(uint16(r.pick(9, 10, 16, 17)), uint16(1+r.intn(2)), uint8(1+r.intn(2)), r.next()))
			case 3: // unknown stat types are typed by their length
				if r.chance(50) {
					st = append(st, NewBMPStatsTLV32(uint16(18+r.intn(1000)), r.u32()))
				} else {
					st = append(st, NewBMPStatsTLV64(uint16(18+r.intn(1000)), r.next()))
				}
			}
		}
		return NewBMPStatisticsReport(*p, st), "statistics_report"
	case 2:
		reason := uint8(r.pick(0, 1, 2, 3, 4, 5, 6, 7, 200))
		var notif *bgp.BGPMessage
		var data []byte
		var info []BMPInfoTLVInterface
		switch reason {
		case 1, 3:
			notif = bgp.NewBGPNotificationMessage(uint8(1+r.intn(6)), uint8(r.intn(10)), g.bytes(4))
		case 2:
			data = []byte{0, byte(r.intn(8))}
		case 6:
			info = g.infoTLVs()
		}
		return NewBMPPeerDownNotification(*p, reason, notif, data, info...), fmt.Sprintf("peer_down_reason%d", reason)
	case 3:
		la := g.v4()
		if v6 {
			la = g.v6()
		}
		if p.PeerType == BMP_PEER_TYPE_LOCAL_RIB {
			la = netip.Addr{} // RFC 9069: no local address for the Loc-RIB instance peer
		}
		var info []BMPInfoTLVInterface
		if r.chance(50) {
			info = g.infoTLVs()
		}
		return NewBMPPeerUpNotification(*p, la, uint16(r.next()), uint16(r.next()), g.open(), g.open(), info...), "peer_up"
	case 4:
		return NewBMPInitiation(g.infoTLVs()), "initiation"
	case 5:
		var l []BMPTermTLVInterface
		for k := r.intn(4); k > 0; k-- {
			switch r.intn(3) {
			case 0:
				l = append(l, NewBMPTermTLVString(BMP_TERM_TLV_TYPE_STRING, strings.Repeat("t", r.intn(20))))
			case 1:
				l = append(l, NewBMPTermTLV16(BMP_TERM_TLV_TYPE_REASON, uint16(r.intn(5))))
			case 2:
				l = append(l, NewBMPTermTLVUnknown(uint16(2+r.intn(1000)), g.bytes(12)))
			}
		}
		return NewBMPTermination(l), "termination"
	default:
		var l []BMPRouteMirrTLVInterface
		for k := 1 + r.intn(3); k > 0; k-- {
			switch r.intn(3) {
			case 0:
				l = append(l, NewBMPRouteMirrTLVBGPMsg(BMP_ROUTE_MIRRORING_TLV_TYPE_BGP_MSG, g.update()))
			case 1:
				l = append(l, NewBMPRouteMirrTLV16(BMP_ROUTE_MIRRORING_TLV_TYPE_INFO, uint16(r.intn(2))))
			case 2:
				l = append(l, NewBMPRouteMirrTLVUnknown(uint16(2+r.intn(1000)), g.bytes(12)))
			}
		}
		return NewBMPRouteMirroring(*p, l), "route_mirroring"
	}
}

// CONSTRUCTORS over the cross product of their discriminating arguments: peer type x V flag given
// or not x address family of the peer address (IPv4, IPv6, IPv4-mapped, zoned link-local, zero
// Addr) x address family of the Peer Up local address. The message must parse back to the very
// arguments (zones excepted), or Serialize must refuse.
func c19CtorCross(o *vOut, dog *c19Dog, g *c19Gen) {
	addrs := []netip.Addr{netip.MustParseAddr("192.0.2.1"), netip.MustParseAddr("2001:db8::1"), netip.MustParseAddr("::ffff:192.0.2.1"),
		netip.MustParseAddr("fe80::1%eth0"), netip.MustParseAddr("0.0.0.0"), netip.MustParseAddr("::"), {}}
	same := func(got, given netip.Addr) bool {
		given = given.WithZone("")
		if !given.IsValid() {
			return !got.IsValid() || got.IsUnspecified()
		}
		return got == given
	}
	for _, t := range []uint8{BMP_PEER_TYPE_GLOBAL, BMP_PEER_TYPE_L3VPN, BMP_PEER_TYPE_LOCAL, BMP_PEER_TYPE_LOCAL_RIB} {
		for _, peer := range addrs {
			if t == BMP_PEER_TYPE_LOCAL_RIB {
				peer = netip.Addr{} // RFC 9069: no peer address
			}
			for _, flags := range []uint8{0, BMP_PEER_FLAG_POST_POLICY, BMP_PEER_FLAG_TWO_AS | BMP_PEER_FLAG_POST_POLICY} {
				ph := NewBMPPeerHeader(t, flags, g.r.next(), peer, g.r.u32(), netip.MustParseAddr("10.1.1.1"), float64(1700000000))
				detail := map[string]any{"peer_type": t, "flags": flags, "peer_address": peer.String()}
				// per-peer header alone (inside a Route Monitoring message)
				res := dog.run("ctor peer header", nil, func() string {
					b, err := NewBMPRouteMonitoring(*ph, g.update()).Serialize()
					if err != nil {
						return "refused"
					}
					m, err := ParseBMPMessage(b)
					if err != nil {
						return "perr:" + err.Error()
					}
					q := m.PeerHeader
					if !same(q.PeerAddress, peer) || q.PeerType != t || q.PeerAS != ph.PeerAS || q.PeerDistinguisher != ph.PeerDistinguisher || q.Flags != ph.Flags {
						detail["parsed_back"] = fmt.Sprintf("%s flags %#x", q.PeerAddress, q.Flags)
						return "fields"
					}
					return "ok"
				})
				o.stat("ctor_peer_header_"+strings.SplitN(res, ":", 2)[0], 1)
				if res != "ok" && res != "refused" {
					detail["outcome"] = res
					o.fail("constructor-accepts-value-that-does-not-roundtrip:bmp-peer-header", detail)
				}
				// Peer Up: local address of the same / the other family
				for _, local := range addrs {
					if t == BMP_PEER_TYPE_LOCAL_RIB {
						local = netip.Addr{}
					}
					pd := map[string]any{"peer_type": t, "peer_address": peer.String(), "local_address": local.String()}
					res := dog.run("ctor peer up", nil, func() string {
						b, err := NewBMPPeerUpNotification(*ph, local, 179, 4000, g.open(), g.open()).Serialize()
						if err != nil {
							return "refused"
						}
						m, err := ParseBMPMessage(b)
						if err != nil {
							return "perr:" + err.Error()
						}
						up := m.Body.(*BMPPeerUpNotification)
						if !same(up.LocalAddress, local) || up.LocalPort != 179 || up.RemotePort != 4000 {
							pd["parsed_back"] = up.LocalAddress.String()
							return "fields"
						}
						return "ok"
					})
					o.stat("ctor_peer_up_"+strings.SplitN(res, ":", 2)[0], 1)
					if res != "ok" && res != "refused" {
						pd["outcome"] = res
						o.fail("constructor-accepts-value-that-does-not-roundtrip:bmp-peer-up", pd)
					}
					if t == BMP_PEER_TYPE_LOCAL_RIB {
						break
					}
				}
			}
			if t == BMP_PEER_TYPE_LOCAL_RIB {
				break
			}
		}
	}
}

func TestVerifC19(t *testing.T) {
	o := vOpen(t)
	defer o.close()
	r := &vRand{s: o.seed*7919 + 194}
	dog := c19Watch(o)
	g := &c19Gen{r: r}
	n := 3000
	if o.thorough {
		n = 15000
	}
	hx := func(s string) []byte { b, _ := hex.DecodeString(s); return b }

	withSpare := func(data, fill []byte) []byte {
		buf := make([]byte, len(data)+len(fill))
		copy(buf, data)
		copy(buf[len(data):], fill)
		return buf[:len(data)]
	}
	split := func(data, spare []byte, eof bool, tag string) {
		call := func(fill []byte) (string, int, []byte) {
			adv, tok, err := SplitBMP(withSpare(data, fill), eof)
			switch {
			case err != nil:
				return "err", adv, tok
			case tok == nil && adv == 0:
				return "more", adv, tok
			}
			return fmt.Sprintf("tok %d %d", adv, len(tok)), adv, tok
		}
		detail := map[string]any{"data": c19Hex(data), "spare": c19Hex(spare), "atEOF": eof}
		ans := dog.run("SplitBMP", data, func() string {
			s, adv, tok := call(spare)
			if len(tok) > len(data) || adv > len(data) || adv < 0 {
				o.fail("bmp-split-overrun", detail)
			} else if tok != nil && !bytes.Equal(tok, data[:len(tok)]) {
				o.fail("bmp-split-token-not-prefix", detail)
			}
			if tok != nil && adv == 0 && s != "err" {
				o.fail("bmp-split-no-progress", detail)
			}
			if tok != nil && adv != len(tok) && s != "err" {
				o.fail("bmp-split-token-advance-differ", detail)
			}
			other := make([]byte, len(spare))
			for i := range other {
				other[i] = ^spare[i]
			}
			if s2, _, _ := call(other); s2 != s {
				o.fail("bmp-split-reads-past-len", detail)
			}
			if s3, _, _ := call(nil); s3 != s {
				o.fail("bmp-split-reads-past-len", detail)
			}
			return s
		})
		if ans == "panic" {
			o.fail("bmp-split-panic", detail)
		}
		e := 0
		if eof {
			e = 1
		}
		o.ask(ans, "bmp.split %s %d", c19Hex(data), e)
		o.stat("split_"+tag+"_"+strings.Fields(ans)[0], 1)
	}
	scan := func(stream []byte, want [][]byte, tag string) {
		res := dog.run("Scanner(SplitBMP)", stream, func() string {
			sc := bufio.NewScanner(bytes.NewReader(stream))
			sc.Buffer(make([]byte, 0, 16), 1<<20)
			sc.Split(SplitBMP)
			var got [][]byte
			total := 0
			for sc.Scan() {
				tk := append([]byte(nil), sc.Bytes()...)
				got = append(got, tk)
				total += len(tk)
				if total > len(stream) {
					o.fail("bmp-scanner-overrun", c19Hex(stream))
					break
				}
				if len(got) > len(stream)+2 {
					o.fail("bmp-scanner-spins", c19Hex(stream))
					return "spins"
				}
			}
			if !bytes.HasPrefix(stream, bytes.Join(got, nil)) {
				o.fail("bmp-scanner-tokens-not-stream-prefix", c19Hex(stream))
			}
			if want != nil {
				ok := len(got) == len(want) && sc.Err() == nil
				for i := 0; ok && i < len(got); i++ {
					ok = bytes.Equal(got[i], want[i])
				}
				if !ok {
					o.fail("bmp-scanner-misframes-valid-stream", map[string]any{"stream": c19Hex(stream), "records": len(want), "tokens": len(got), "err": fmt.Sprint(sc.Err())})
				}
			}
			return "ok"
		})
		if res == "panic" {
			o.fail("bmp-scanner-panic", c19Hex(stream))
		}
		o.stat("scan_"+tag+"_"+res, 1)
	}
	// ParseBMPMessage: correspondence where the body is modelled + over-read oracle
	parse := func(data, spare []byte, tag string) {
		ans := dog.run("ParseBMPMessage", data, func() string {
			s := c19MsgStr(withSpare(data, spare))
			if len(spare) > 0 {
				other := make([]byte, len(spare))
				for i := range other {
					other[i] = ^spare[i]
				}
				e1 := func(f []byte) string {
					m, err := ParseBMPMessage(withSpare(data, f))
					if err != nil || m == nil {
						return "err"
					}
					b, err := m.Serialize()
					if err != nil {
						return "ok-unserialisable"
					}
					return "ok " + c19Hex(b)
				}
				if a, b, c := e1(spare), e1(other), e1(nil); a != b || a != c {
					o.fail("bmp-parse-reads-past-len", map[string]any{"data": c19Hex(data), "spare": c19Hex(spare), "with_spare": a[:min(len(a), 40)], "with_other": b[:min(len(b), 40)], "without": c[:min(len(c), 40)]})
				}
			}
			return s
		})
		if ans == "panic" {
			o.fail("bmp-parse-panic", c19Hex(data))
		}
		o.ask(ans, "bmp.msg %s", c19Hex(data))
		o.stat("msg_"+tag+"_"+strings.Fields(ans)[0], 1)
	}

	// corpus (candidate defects seen while reading; replayed first)
	split(hx("030000000004"), nil, false, "corpus")             // Length = 0: empty token, no advance
	split(hx("030000000504"), nil, false, "corpus")             // Length = 5 < header size
	split(hx("030000000604"), nil, false, "corpus")             // empty Initiation
	split(hx("0300000008040001"), hx("0000"), false, "corpus")  // rest of the message only in the spare
	split(hx("020000000604"), nil, true, "corpus")              // wrong version
	scan(hx("030000000004"), nil, "corpus")
	parse(hx("0300000006"), hx("04"), "corpus")
	parse(hx("030000000e04000000046162"), hx("6364"), "corpus") // Length 14 > len 12 <= cap 14
	parse(hx("030000000504"), nil, "corpus")
	parse(hx("030000000e0400000004616263"), nil, "corpus")
	parse(hx("030000000e050001000200010000"), nil, "corpus")
	parse(hx("030000000d0500010001000000"), nil, "corpus")

	c19CtorCross(o, dog, g)

	var pool [][]byte
	for i := 0; i < n; i++ {
		// ---- common header
		h := &BMPHeader{Version: uint8(r.pick(3, 3, 3, 3, 3, 3, 3, 0, 2, 4, 255)), Length: uint32(r.pick(0, 5, 6, 48, 4096, 0xffffffff, int(r.u32()))), Type: uint8(r.intn(9))}
		hb, _ := h.Serialize()
		o.ask(c19Hex(hb), "bmp.hser %d %d %d", h.Version, h.Length, h.Type)
		for _, b := range [][]byte{hb, c19Mutate(r, hb)} {
			ans := dog.run("BMPHeader.DecodeFromBytes", b, func() string {
				x := &BMPHeader{}
				if err := x.DecodeFromBytes(b); err != nil {
					if strings.Contains(err.Error(), "version") {
						return "err version"
					}
					return "err short"
				}
				return fmt.Sprintf("ok %d %d %d", x.Version, x.Length, x.Type)
			})
			if ans == "panic" {
				o.fail("bmp-header-panic", c19Hex(b))
			}
			o.ask(ans, "bmp.hdr %s", c19Hex(b))
			if strings.HasPrefix(ans, "ok") {
				o.stat("hdr_ok", 1)
			} else {
				o.stat("hdr_"+strings.ReplaceAll(ans, " ", "_"), 1)
			}
		}

		// ---- per-peer header: constructor, Serialize, DecodeFromBytes
		p, sec, usec, _ := g.peer()
		in := *p
		pb, _ := p.Serialize()
		o.ask(c19Hex(pb), "bmp.phser %d %d %d %s %d %s %d %d", in.PeerType, in.Flags, in.PeerDistinguisher, c19Hex(in.PeerAddress.AsSlice()), in.PeerAS,
			c19Hex(in.PeerBGPID.AsSlice()), sec, usec)
		o.stat(fmt.Sprintf("peerhdr_type%d_flags%02x", in.PeerType, in.Flags&0xf0), 1)
		{ // oracle (1) on the header alone: decode(serialise) re-serialises identically, fields kept
			q := &BMPPeerHeader{}
			if err := q.DecodeFromBytes(pb); err != nil {
				o.fail("bmp-peerheader-roundtrip", c19Hex(pb))
			} else if pb2, _ := q.Serialize(); !bytes.Equal(pb, pb2) {
				o.fail("bmp-peerheader-roundtrip", map[string]any{"bytes": c19Hex(pb), "again": c19Hex(pb2), "timestamp": fmt.Sprintf("%d.%06d", sec, usec)})
			} else if s, us := c19Ts(q.Timestamp); s != uint64(sec) || us != uint64(usec) {
				o.fail("bmp-peerheader-timestamp", map[string]any{"bytes": c19Hex(pb), "timestamp": fmt.Sprintf("%d.%06d", sec, usec)})
			}
		}
		db := pb
		switch r.intn(4) {
		case 0:
			db = c19Mutate(r, pb)
		case 1:
			db = g.bytes(60)
			if len(db) > 1 {
				db[0], db[1] = byte(r.intn(5)), byte(r.intn(16))<<4
			}
		case 2:
			db = append([]byte(nil), pb...)
			db[0], db[1] = byte(r.intn(5)), byte(r.next())
			binary.BigEndian.PutUint32(db[38:], uint32(r.pick(0, 999999, 1000000, 0xffffffff, int(r.u32()))))
			binary.BigEndian.PutUint32(db[34:], uint32(r.pick(0, 0xffffffff, 0x80000000, int(r.u32()))))
		}
		ans := dog.run("BMPPeerHeader.DecodeFromBytes", db, func() string {
			q := &BMPPeerHeader{}
			if err := q.DecodeFromBytes(db); err != nil {
				return "err peer"
			}
			return "ok " + c19PeerStr(q)
		})
		if ans == "panic" {
			o.fail("bmp-peerheader-panic", c19Hex(db))
		}
		o.ask(ans, "bmp.ph %s", c19Hex(db))

		// ---- messages: oracle (1)
		m, label := g.message(i % 7)
		var b []byte
		res := dog.run("message "+label, nil, func() string {
			var err error
			b, err = m.Serialize()
			if err != nil {
				return "serr:" + err.Error()
			}
			if int(binary.BigEndian.Uint32(b[1:5])) != len(b) {
				return "length-field"
			}
			m2, err := ParseBMPMessage(b)
			if err != nil {
				return "perr:" + err.Error()
			}
			b2, err := m2.Serialize()
			if err != nil {
				return "serr2:" + err.Error()
			}
			if !bytes.Equal(b, b2) {
				return "differs:" + c19Hex(b2)
			}
			return "ok"
		})
		o.stat("message_"+label, 1)
		if b != nil && (m.Header.Type == BMP_MSG_ROUTE_MONITORING || m.Header.Type == BMP_MSG_PEER_UP_NOTIFICATION || m.Header.Type == BMP_MSG_PEER_DOWN_NOTIFICATION) {
			if pm, err := ParseBMPMessage(b); err == nil { // the model reads the same message
				o.ask(c19Msg2Str(pm, nil), "bmp.msg2 %s", c19Hex(b))
				o.stat("model_msg2_asks", 1)
				// and the model serialises the value the constructor was given
				body := b[BMP_HEADER_SIZE+BMP_PEER_HEADER_SIZE:]
				switch x := m.Body.(type) {
				case *BMPRouteMonitoring:
					u, _ := x.BGPUpdate.Serialize()
					o.ask(c19Hex(body), "bmp.body2ser rm %s", c19Hex(u))
				case *BMPPeerUpNotification:
					if len(x.Info) == 0 {
						la := make([]byte, 16)
						if x.LocalAddress.Is4() {
							copy(la[12:], x.LocalAddress.AsSlice())
						} else {
							copy(la, x.LocalAddress.AsSlice())
						}
						sn, _ := x.SentOpenMsg.Serialize()
						rc, _ := x.ReceivedOpenMsg.Serialize()
						o.ask(c19Hex(body), "bmp.body2ser up %s %d %d %s %s", c19Hex(la), x.LocalPort, x.RemotePort, c19Hex(sn), c19Hex(rc))
					}
				case *BMPPeerDownNotification:
					switch x.Reason {
					case 1, 3:
						nb, _ := x.BGPNotification.Serialize()
						o.ask(c19Hex(body), "bmp.body2ser downmsg %d %s", x.Reason, c19Hex(nb))
					case 6:
					default:
						o.ask(c19Hex(body), "bmp.body2ser down %d %s", x.Reason, c19Hex(x.Data))
					}
				}
			}
		}
		if res != "ok" {
			o.fail("bmp-message-roundtrip:"+label+":"+strings.SplitN(res, ":", 2)[0], map[string]any{"kind": label, "bytes": c19Hex(b), "outcome": res[:min(len(res), 600)]})
		}
		if b == nil {
			continue
		}
		pool = append(pool, b)
		if len(pool) == 1 {
			o.sample("bmp " + label + ": " + c19Hex(b))
		}
		// every truncation (Length patched so that the body parser is reached) and a few random
		// mutations: ParseBMPMessage must return, whatever it is given
		tryMsg := func(mb []byte) {
			if dog.run("ParseBMPMessage", mb, func() string { _, _ = ParseBMPMessage(mb); return "" }) == "panic" {
				o.fail("bmp-parse-panic", c19Hex(mb))
			}
			o.stat("msg_fuzzed", 1)
		}
		for cut := BMP_HEADER_SIZE; cut < len(b); cut++ {
			mb := append([]byte(nil), b[:cut]...)
			binary.BigEndian.PutUint32(mb[1:], uint32(cut))
			tryMsg(mb)
		}
		for k := 0; k < 6; k++ {
			mb := c19Mutate(r, b)
			if len(mb) >= BMP_HEADER_SIZE && r.chance(70) {
				mb[0], mb[5] = 3, b[5]
				binary.BigEndian.PutUint32(mb[1:], uint32(len(mb)))
			}
			tryMsg(mb)
		}
		spare := g.bytes(r.pick(0, 0, 1, 6, 40))
		switch r.intn(3) {
		case 0:
			parse(b, spare, "valid")
		case 1:
			parse(c19Mutate(r, b), spare, "mutated")
		default: // Length announces more than there is; the rest sits in the spare capacity
			cut := r.intn(len(b) + 1)
			parse(b[:cut], append(append([]byte(nil), b[cut:]...), spare...), "cut")
		}

		// ---- splitter on streams of messages
		var stream []byte
		var want [][]byte
		for k := 1 + r.intn(3); k > 0; k-- {
			rec := pool[r.intn(len(pool))]
			want = append(want, rec)
			stream = append(stream, rec...)
		}
		switch r.intn(6) {
		case 0:
			split(stream, spare, r.chance(50), "stream")
			scan(stream, want, "valid")
		case 1:
			cut := r.intn(len(stream) + 1)
			split(stream[:cut], append(append([]byte(nil), stream[cut:]...), spare...), r.chance(30), "partial")
		case 2:
			cut := min(len(stream), r.pick(0, 1, 4, 5, 6, 7))
			split(stream[:cut], append(append([]byte(nil), stream[cut:]...), spare...), r.chance(30), "short")
		default:
			ms := c19Mutate(r, stream)
			split(ms, spare, r.chance(30), "mutated")
			scan(ms, nil, "mutated")
		}
	}
	_ = time.Now
}
