//go:build verif

package bfd

// C19 / BFD harness. Correspondence: UnmarshalBinary / MarshalBinary / Validate against
// Framing.Bfd.*. Oracles (model-independent): Unmarshal(Marshal(h)) == h and re-marshals to the
// same 24 octets for every valid header; no panic / hang on arbitrary input.

import (
	"bytes"
	"encoding/hex"
	"errors"
	"fmt"
	"os"
	"sync/atomic"
	"testing"
	"time"
)

func c19Hex(b []byte) string {
	if len(b) == 0 {
		return "-"
	}
	return hex.EncodeToString(b)
}

// watchdog: a decoder call that does not return within 20 s is reported and the run aborted.
type c19Dog struct {
	o    *vOut
	cur  atomic.Value // string
	tick atomic.Int64
}

func c19Watch(o *vOut) *c19Dog {
	d := &c19Dog{o: o}
	d.cur.Store("")
	go func() {
		last, since := int64(-1), time.Now()
		for {
			time.Sleep(500 * time.Millisecond)
			n := d.tick.Load()
			if n != last {
				last, since = n, time.Now()
				continue
			}
			if c := d.cur.Load().(string); c != "" && time.Since(since) > 20*time.Second {
				o.fail("hang", c)
				o.close()
				os.Exit(3)
			}
		}
	}()
	return d
}

// run executes f; a panic is an outcome ("panic"), a hang is caught by the watchdog.
func (d *c19Dog) run(what string, in []byte, f func() string) (s string) {
	d.cur.Store(what + " " + c19Hex(in))
	d.tick.Add(1)
	defer func() {
		if e := recover(); e != nil {
			s = "panic"
		}
		d.cur.Store("")
		d.tick.Add(1)
	}()
	return f()
}


func c19B(b bool) int {
	if b {
		return 1
	}
	return 0
}

func c19Err(err error) string {
	switch {
	case errors.Is(err, ErrInvalidPacketLength):
		return "err length"
	case errors.Is(err, ErrInvalidHeader):
		return "err header"
	case errors.Is(err, ErrInvalidVersion):
		return "err version"
	case errors.Is(err, ErrInvalidDiagnostic):
		return "err diag"
	case errors.Is(err, ErrInvalidState):
		return "err state"
	}
	return "err other:" + err.Error()
}

func c19Fields(h *BFDHeader) string {
	return fmt.Sprintf("%d %d %d %d %d %d %d %d %d %d", h.Version, h.Diagnostic, h.State, c19B(h.Poll), c19B(h.Final),
		h.DetectTimeMultiplier, h.MyDiscriminator, h.YourDiscriminator, h.DesiredMinTxInterval, h.RequiredMinRxInterval)
}

func TestVerifC19(t *testing.T) {
	o := vOpen(t)
	defer o.close()
	r := &vRand{s: o.seed*7919 + 192}
	dog := c19Watch(o)
	n := 12000
	if o.thorough {
		n = 80000
	}
	u32 := func() uint32 {
		if r.chance(25) {
			return []uint32{0, 1, 0xffffffff, 0x80000000, 1000000, 255, 256}[r.intn(7)]
		}
		return r.u32()
	}
	var pool [][]byte
	unmarshal := func(b []byte, tag string) {
		ans := dog.run("UnmarshalBinary", b, func() string {
			h := &BFDHeader{}
			if err := h.UnmarshalBinary(b); err != nil {
				return c19Err(err)
			}
			return "ok " + c19Fields(h)
		})
		if ans == "panic" {
			o.fail("bfd-unmarshal-panic", c19Hex(b))
		}
		o.ask(ans, "bfd.un %s", c19Hex(b))
		if len(ans) > 2 && ans[:2] == "ok" {
			o.stat("un_"+tag+"_ok", 1)
		} else {
			o.stat("un_"+tag+"_"+ans, 1)
		}
	}
	for _, hx := range []string{"", "00", "20c0031800000001000000020000000300000004000000", "20c003180000000100000002000000030000000400000000",
		"20c00318000000010000000200000003000000040000000000", "20c0031900000001000000020000000300000004000000000a",
		"ffff031800000001000000020000000300000004ffffffff", "20c0031700000001000000020000000300000004000000"} {
		b, _ := hex.DecodeString(hx)
		unmarshal(b, "corpus")
	}
	for i := 0; i < n; i++ {
		h := &BFDHeader{
			Version: uint8(r.intn(8)), Diagnostic: DiagnosticType(r.intn(32)), State: StateType(r.intn(4)),
			Poll: r.chance(50), Final: r.chance(50), DetectTimeMultiplier: uint8(r.next()),
			MyDiscriminator: u32(), YourDiscriminator: u32(), DesiredMinTxInterval: u32(), RequiredMinRxInterval: u32(),
		}
		switch r.intn(12) {
		case 0:
			h.Version = uint8(8 + r.intn(248))
		case 1:
			h.Diagnostic = DiagnosticType(32 + r.intn(224))
		case 2:
			h.State = StateType(4 + r.intn(252))
		case 3:
			h.Version, h.Diagnostic, h.State = 7, 31, 3
		}
		valid := h.Validate() == nil
		ans := dog.run("MarshalBinary "+c19Fields(h), nil, func() string {
			b, err := h.MarshalBinary()
			if err != nil {
				if valid {
					o.fail("bfd-marshal-rejects-valid", c19Fields(h))
				}
				return c19Err(err)
			}
			if !valid {
				o.fail("bfd-marshal-accepts-invalid", c19Fields(h))
			}
			pool = append(pool, b)
			// oracle (1)
			h2 := &BFDHeader{}
			if err := h2.UnmarshalBinary(b); err != nil || *h2 != *h {
				o.fail("bfd-roundtrip", map[string]any{"hdr": c19Fields(h), "bytes": c19Hex(b), "parsed": c19Fields(h2)})
			} else if b2, err := h2.MarshalBinary(); err != nil || !bytes.Equal(b, b2) {
				o.fail("bfd-roundtrip", map[string]any{"hdr": c19Fields(h), "bytes": c19Hex(b), "again": c19Hex(b2)})
			}
			if len(b) != 24 || b[3] != 24 {
				o.fail("bfd-length", c19Hex(b))
			}
			return c19Hex(b)
		})
		if ans == "panic" {
			o.fail("bfd-marshal-panic", c19Fields(h))
		}
		o.ask(ans, "bfd.ma %s", c19Fields(h))
		if valid {
			o.stat("marshal_valid", 1)
		} else {
			o.stat("marshal_invalid", 1)
		}
		// decode side: valid, length-consistent longer packets (auth / echo tail), mutated, random
		var b []byte
		tag := "mut"
		switch k := r.intn(10); {
		case k < 2 && len(pool) > 0:
			b, tag = pool[r.intn(len(pool))], "valid"
		case k < 5 && len(pool) > 0:
			b, tag = append([]byte(nil), pool[r.intn(len(pool))]...), "tail"
			for j := r.intn(40); j > 0; j-- {
				b = append(b, byte(r.next()))
			}
			if r.chance(80) {
				b[3] = byte(len(b))
			}
			b[0], b[1] = byte(r.next()), byte(r.next())
		case k < 6:
			b, tag = make([]byte, r.intn(300)), "random"
			for j := range b {
				b[j] = byte(r.next())
			}
			if len(b) > 3 && r.chance(70) {
				b[3] = byte(len(b))
			}
		default:
			if len(pool) == 0 {
				continue
			}
			b = append([]byte(nil), pool[r.intn(len(pool))]...)
			switch r.intn(4) {
			case 0:
				b = b[:r.intn(len(b)+1)]
			case 1:
				b[r.intn(len(b))] = byte(r.next())
			case 2:
				b[3] = byte(r.pick(0, 23, 24, 25, 255))
			case 3:
				b = append(b, byte(r.next()))
			}
		}
		unmarshal(b, tag)
	}
	o.sample("bfd: e.g. " + c19Hex(pool[len(pool)-1]))
}
